/-
  C04 (embedded fields): the schema `forTypeE` builds for a type of the domain accepts the `encodeE` encoding of
  every value of the type (`soundE`), from `Go.Models` for the flattened type (JSV/Proofs/InfEmbFlat.lean) and the
  pieces of `Models.sound` (JSV/Proofs/InfSound.lean).
-/
import JSV.Proofs.InfEmbFlat
import JSV.Proofs.InfSound
namespace JSV
namespace EncJsonEmb
open Go Spec EncJson

/-! ## values of embedded structs -/

theorem embViewV (t : GoTypeE) :
    (∃ fs, (∀ idx, embFields idx t = allFields idx 0 fs) ∧
        (∀ v, HasTypeEmbE t v → ∃ vs, HasTypeFieldsE fs vs ∧ ∀ all idx, encodeEmbE all idx t v = encodeFieldsE all idx 0 fs vs) ∧
        (inDomainEmbE t = true → inDomainFieldsE fs = true) ∧ wtFs fs < wt t ∧ depthFieldsE fs ≤ depthE t) ∨
    ((∀ idx, embFields idx t = []) ∧ inDomainEmbE t = false) := by
  cases t with
  | ptr e =>
    cases e with
    | named nm u =>
      cases u with
      | struct fs =>
        refine Or.inl ⟨fs, fun _ => rfl, fun v hv => ?_, fun h => h, by simp only [wt]; omega, by simp only [depthE]; omega⟩
        cases v with
        | ptr w =>
          cases w with
          | struct vs => exact ⟨vs, hv, fun _ _ => rfl⟩
          | _ => simp only [HasTypeEmbE] at hv
        | _ => simp only [HasTypeEmbE] at hv
      | _ => exact Or.inr ⟨fun _ => rfl, rfl⟩
    | struct fs =>
      refine Or.inl ⟨fs, fun _ => rfl, fun v hv => ?_, fun h => (by simp [inDomainEmbE] at h), by simp only [wt]; omega,
        by simp only [depthE]; omega⟩
      cases v with
      | ptr w =>
        cases w with
        | struct vs => exact ⟨vs, hv, fun _ _ => rfl⟩
        | _ => simp only [HasTypeEmbE] at hv
      | _ => simp only [HasTypeEmbE] at hv
    | _ => exact Or.inr ⟨fun _ => rfl, rfl⟩
  | named nm u =>
    cases u with
    | struct fs =>
      refine Or.inl ⟨fs, fun _ => rfl, fun v hv => ?_, fun h => h, by simp only [wt]; omega, by simp only [depthE]; omega⟩
      cases v with
      | struct vs => exact ⟨vs, hv, fun _ _ => rfl⟩
      | _ => simp only [HasTypeEmbE] at hv
    | _ => exact Or.inr ⟨fun _ => rfl, rfl⟩
  | struct fs =>
    refine Or.inl ⟨fs, fun _ => rfl, fun v hv => ?_, fun h => (by simp [inDomainEmbE] at h), by simp only [wt]; omega,
      by simp only [depthE]; omega⟩
    cases v with
    | struct vs => exact ⟨vs, hv, fun _ _ => rfl⟩
    | _ => simp only [HasTypeEmbE] at hv
  | _ => exact Or.inr ⟨fun _ => rfl, rfl⟩

/-- the types of all fields of the tree are smaller and no deeper than the struct -/
theorem allFields_bounds : ∀ (n : Nat) (fs : List (FieldE GoTypeE)) (pre : List Nat) (i : Nat), wtFs fs ≤ n →
    ∀ f, f ∈ allFields pre i fs → wt f.type < wtFs fs ∧ depthE f.type ≤ depthFieldsE fs := by
  intro n
  induction n with
  | zero =>
    intro fs pre i hw f hf
    cases fs with
    | nil => simp only [allFields] at hf; cases hf
    | cons g rest => simp only [wtFs] at hw; omega
  | succ n ihn =>
    intro fs pre i hw f hf
    cases fs with
    | nil => simp only [allFields] at hf; cases hf
    | cons g rest =>
      simp only [wtFs] at hw ⊢
      simp only [depthFieldsE]
      simp only [allFields, List.mem_cons, List.mem_append] at hf
      rcases hf with rfl | hf | hf
      · exact ⟨by simp only; omega, Nat.le_max_left _ _⟩
      · cases he : g.embedded with
        | false => rw [he] at hf; simp at hf
        | true =>
          rw [he] at hf
          simp only [if_true] at hf
          rcases embViewV g.type with ⟨fs', hfe, _, _, hlt, hdep⟩ | ⟨hfe, _⟩
          · rw [hfe] at hf
            obtain ⟨h1, h2⟩ := ihn fs' _ 0 (by omega) f hf
            exact ⟨by omega, Nat.le_trans h2 (Nat.le_trans hdep (Nat.le_max_left _ _))⟩
          · rw [hfe] at hf
            cases hf
      · obtain ⟨h1, h2⟩ := ihn rest pre (i + 1) (by omega) f hf
        exact ⟨by omega, Nat.le_trans h2 (Nat.le_max_right _ _)⟩

theorem modelsFields_mem {nfs : Bool} {st : Store} : ∀ {fields : List (String × String × GoType)} {props : List (String × NodeId)},
    ModelsFields nfs st fields props → ∀ g, g ∈ fields → (fieldJSONInfo g.1 g.2.1).omitted = true ∨
      ∃ fid, Json.lookup (fieldJSONInfo g.1 g.2.1).name props = some fid ∧ Models nfs st g.2.2 false fid
  | [], _, _, g, hg => nomatch hg
  | f :: rest, props, hm, g, hg => by
    simp only [ModelsFields] at hm
    rcases List.mem_cons.1 hg with rfl | hg
    · exact hm.1
    · exact modelsFields_mem hm.2 g hg

theorem lookup_append_isSome {α} {k : String} {a b : List (String × α)}
    (h : (Json.lookup k a).isSome = true ∨ (Json.lookup k b).isSome = true) : (Json.lookup k (a ++ b)).isSome = true := by
  induction a with
  | nil =>
    rcases h with h | h
    · simp at h
    · exact h
  | cons x a ih =>
    obtain ⟨k', v⟩ := x
    simp only [List.cons_append, Json.lookup_cons]
    split
    · rfl
    · rename_i hne
      refine ih ?_
      rcases h with h | h
      · simp only [Json.lookup_cons, hne, if_false] at h
        exact Or.inl h
      · exact Or.inr h

/-- the context of a struct: the walk, the candidates of `typeFields`, the members of the schema -/
structure Ctx (st : Store) (all : List VField) (cands : List TField) (props : List (String × NodeId)) : Prop where
  ok : namesOk all = true
  cands_eq : cands = (all.filter live).map toT
  models : ModelsFields true st (plainOf (all.filter (isVisible all))) props

/-- in the domain a field is either embedded and explored, or a leaf, or ignored -/
theorem classify_domain {f : FieldE GoTypeE}
    (hd : (if f.embedded then f.exported && (tagLookup "json" f.tag).isNone && inDomainEmbE f.type
       else !f.exported || (fieldJSONInfo f.goName f.tag).omitted || (fieldTagOk f.goName f.tag && InDomainE f.type)) = true) :
    (f.embedded = true ∧ classify f = .descend ∧ inDomainEmbE f.type = true) ∨
    (f.embedded = false ∧ classify f = .ignored ∧ (f.exported = false ∨ (fieldJSONInfo f.goName f.tag).omitted = true)) ∨
    (f.embedded = false ∧ classify f = .leaf ∧ f.exported = true ∧ (fieldJSONInfo f.goName f.tag).omitted = false ∧
      InDomainE f.type = true) := by
  cases he : f.embedded with
  | true =>
    rw [he] at hd
    simp only [if_true, Bool.and_eq_true] at hd
    rcases embView f.type with ⟨_, _, _, _, hs, _⟩ | ⟨_, _, hfalse⟩
    · exact Or.inl ⟨rfl, classify_descend he hd.1.1 hd.1.2 hs, hd.2⟩
    · rw [hfalse] at hd
      exact absurd hd.2 (by simp)
  | false =>
    rw [he] at hd
    simp only [Bool.false_eq_true, if_false, Bool.or_eq_true, Bool.not_eq_true', Bool.and_eq_true] at hd
    refine Or.inr ?_
    cases hx : f.exported with
    | false =>
      have hc : classify f = .ignored := by unfold classify; simp [he, hx]
      exact Or.inl ⟨rfl, hc, Or.inl rfl⟩
    | true =>
      cases ho : (fieldJSONInfo f.goName f.tag).omitted with
      | true =>
        have hc : classify f = .ignored := by unfold classify; simp [he, hx, ho]
        exact Or.inl ⟨rfl, hc, Or.inr rfl⟩
      | false =>
        have hc : classify f = .leaf := by unfold classify; simp [he, hx, ho]
        refine Or.inr ⟨rfl, hc, rfl, rfl, ?_⟩
        rcases hd with (h | h) | h
        · rw [hx] at h; cases h
        · rw [ho] at h; cases h
        · exact h.2

/-- the head of the walk of `g :: rest` -/
def headV (pre : List Nat) (i : Nat) (g : FieldE GoTypeE) : VField :=
  { index := pre ++ [i], goName := g.goName, tag := g.tag, exported := g.exported, anonymous := g.embedded, type := g.type }

theorem headV_mem (pre : List Nat) (i : Nat) (g : FieldE GoTypeE) (rest : List (FieldE GoTypeE)) :
    headV pre i g ∈ allFields pre i (g :: rest) := by
  simp only [allFields, headV, List.mem_cons, true_or]

theorem live_headV {pre : List Nat} {i : Nat} {g : FieldE GoTypeE} (he : g.embedded = false) (hx : g.exported = true)
    (ho : (fieldJSONInfo g.goName g.tag).omitted = false) : live (headV pre i g) = true := by
  unfold headV
  rw [live_mk, he, hx, ho]
  rfl

section Members
variable {st : Store} {re : String → String → Bool} {all : List VField} {cands : List TField} {props : List (String × NodeId)}

/-- the members json.Marshal writes are properties of the schema, and valid against them -/
theorem membersE_sound (C : Ctx st all cands props) (N : Nat) (f : Nat) (scope : List NodeId)
    (IH : ∀ T, wt T < N → InDomainE T = true → ∀ id, Models true st (flatten T) false id → depthE T ≤ f →
      ∀ v, HasTypeE T v → Valid (evalFuel (specEnvNoRefs st re) f scope id (encodeE T v))) :
    ∀ (n : Nat) (fs : List (FieldE GoTypeE)) (pre : List Nat) (i : Nat) (vs : List GoValue), wtFs fs ≤ n →
      inDomainFieldsE fs = true → (∀ g, g ∈ allFields pre i fs → g ∈ all ∧ wt g.type < N ∧ depthE g.type ≤ f) →
      HasTypeFieldsE fs vs → ∀ p, p ∈ encodeFieldsE cands pre i fs vs →
      ∃ fid, Json.lookup p.1 props = some fid ∧ Valid (evalFuel (specEnvNoRefs st re) f scope fid p.2) := by
  intro n
  induction n with
  | zero =>
    intro fs pre i vs hw _ _ _ p hp
    cases fs with
    | nil => simp only [encodeFieldsE] at hp; cases hp
    | cons g rest => simp only [wtFs] at hw; omega
  | succ n ihn =>
    intro fs pre i vs hw hd hsub hv p hp
    cases fs with
    | nil => simp only [encodeFieldsE] at hp; cases hp
    | cons g rest =>
      simp only [wtFs] at hw
      simp only [inDomainFieldsE, Bool.and_eq_true] at hd
      cases vs with
      | nil => simp only [HasTypeFieldsE] at hv
      | cons v vs' =>
        simp only [HasTypeFieldsE] at hv
        simp only [encodeFieldsE, List.mem_append] at hp
        have hsub_rest : ∀ g', g' ∈ allFields pre (i + 1) rest → g' ∈ all ∧ wt g'.type < N ∧ depthE g'.type ≤ f :=
          fun g' hg' => hsub g' (by simp only [allFields, List.mem_cons, List.mem_append]; exact Or.inr (Or.inr hg'))
        rcases hp with hp | hp
        · rcases classify_domain hd.1 with ⟨he, hc, hde⟩ | ⟨he, hc, _⟩ | ⟨he, hc, hx, ho, hdt⟩
          · -- an embedded struct
            rw [hc] at hp hv
            simp only at hp hv
            rcases embViewV g.type with ⟨fs', hfe, hval, hdom, hlt, _⟩ | ⟨_, hfalse⟩
            · obtain ⟨vs2, hv2, henc⟩ := hval v hv.1
              rw [henc] at hp
              refine ihn fs' (pre ++ [i]) 0 vs2 (by omega) (hdom hde) (fun g' hg' => hsub g' ?_) hv2 p hp
              simp only [allFields, List.mem_cons, List.mem_append, he, if_true, hfe]
              exact Or.inr (Or.inl hg')
            · rw [hfalse] at hde; cases hde
          · rw [hc] at hp
            cases hp
          · -- a field of its own
            rw [hc] at hp hv
            simp only at hp hv
            split at hp
            · rename_i hcond
              simp only [Bool.and_eq_true] at hcond
              have hp' : p = ((fieldJSONInfo g.goName g.tag).name, encodeE g.type v) := by simpa using hp
              subst hp'
              -- the field as reflect sees it
              have hmem := hsub (headV pre i g) (headV_mem pre i g rest)
              have hlive : live (headV pre i g) = true := live_headV he hx ho
              have hdomv : isDominant cands (toT (headV pre i g)) = true := hcond.1
              rw [C.cands_eq, ← visible_eq_dominant C.ok hmem.1 hlive] at hdomv
              have hin : flatV (headV pre i g) ∈ plainOf (all.filter (isVisible all)) := by
                unfold plainOf
                exact List.mem_map.2 ⟨_, List.mem_filter.2 ⟨List.mem_filter.2 ⟨hmem.1, hdomv⟩, hlive⟩, rfl⟩
              rcases modelsFields_mem C.models _ hin with hom | ⟨fid, hl, hmod⟩
              · have hom' : (fieldJSONInfo g.goName g.tag).omitted = true := hom
                rw [ho] at hom'
                cases hom'
              · exact ⟨fid, hl, IH g.type hmem.2.1 hdt fid hmod hmem.2.2 v hv.1⟩
            · cases hp
        · exact ihn rest pre (i + 1) vs' (by omega) hd.2 hsub_rest hv.2 p hp

/-- the always-written visible fields are written -/
theorem requiredE_present (C : Ctx st all cands props) :
    ∀ (n : Nat) (fs : List (FieldE GoTypeE)) (pre : List Nat) (i : Nat) (vs : List GoValue), wtFs fs ≤ n →
      inDomainFieldsE fs = true → (∀ g, g ∈ allFields pre i fs → g ∈ all) → HasTypeFieldsE fs vs →
      ∀ vf, vf ∈ allFields pre i fs → alwaysLive vf = true → isVisible all vf = true →
      (Json.lookup (jsonNameOf vf) (encodeFieldsE cands pre i fs vs)).isSome = true := by
  intro n
  induction n with
  | zero =>
    intro fs pre i vs hw _ _ _ vf hvf
    cases fs with
    | nil => simp only [allFields] at hvf; cases hvf
    | cons g rest => simp only [wtFs] at hw; omega
  | succ n ihn =>
    intro fs pre i vs hw hd hsub hv vf hvf hal hvis
    cases fs with
    | nil => simp only [allFields] at hvf; cases hvf
    | cons g rest =>
      simp only [wtFs] at hw
      simp only [inDomainFieldsE, Bool.and_eq_true] at hd
      cases vs with
      | nil => simp only [HasTypeFieldsE] at hv
      | cons v vs' =>
        simp only [HasTypeFieldsE] at hv
        simp only [encodeFieldsE]
        have hsub_rest : ∀ g', g' ∈ allFields pre (i + 1) rest → g' ∈ all :=
          fun g' hg' => hsub g' (by simp only [allFields, List.mem_cons, List.mem_append]; exact Or.inr (Or.inr hg'))
        have hlive : live vf = true := by
          unfold alwaysLive at hal
          simp only [Bool.and_eq_true] at hal
          exact hal.1.1
        simp only [allFields, List.mem_cons, List.mem_append] at hvf
        refine lookup_append_isSome ?_
        rcases hvf with rfl | hvf | hvf
        · -- the field itself
          left
          rw [live_mk] at hlive
          simp only [Bool.and_eq_true, Bool.not_eq_true'] at hlive
          rcases classify_domain hd.1 with ⟨he, _, _⟩ | ⟨he, _, hbad⟩ | ⟨he, hc, hx, ho, _⟩
          · rw [he] at hlive; simp at hlive
          · rcases hbad with h | h
            · rw [h] at hlive; simp at hlive
            · rw [h] at hlive; simp at hlive
          · rw [hc]
            simp only
            have hdomv : isVisible all (headV pre i g) = true := hvis
            rw [visible_eq_dominant C.ok (hsub _ (headV_mem pre i g rest)) (live_headV he hx ho), ← C.cands_eq] at hdomv
            have hskip : fieldSkipped (fieldJSONInfo g.goName g.tag) v = false := by
              unfold alwaysLive at hal
              simp only [Bool.and_eq_true, Bool.not_eq_true'] at hal
              simp [fieldSkipped, ho, hal.1.2, hal.2]
            have hdomv' : isDominant cands (mkTField (pre ++ [i]) g) = true := hdomv
            simp only [hdomv', hskip, Bool.not_false, Bool.and_self, if_true, Json.lookup_cons, jsonNameOf]
            rfl
        · -- a field of an embedded struct
          left
          cases he : g.embedded with
          | false => rw [he] at hvf; simp at hvf
          | true =>
            rw [he] at hvf
            simp only [if_true] at hvf
            rcases classify_domain hd.1 with ⟨_, hc, hde⟩ | ⟨he', _, _⟩ | ⟨he', _, _⟩
            · rw [hc] at hv ⊢
              simp only at hv ⊢
              rcases embViewV g.type with ⟨fs', hfe, hval, hdom, hlt, _⟩ | ⟨hfe, _⟩
              · obtain ⟨vs2, hv2, henc⟩ := hval v hv.1
                rw [henc]
                rw [hfe] at hvf
                refine ihn fs' (pre ++ [i]) 0 vs2 (by omega) (hdom hde) (fun g' hg' => hsub g' ?_) hv2 vf hvf hal hvis
                simp only [allFields, List.mem_cons, List.mem_append, he, if_true, hfe]
                exact Or.inr (Or.inl hg')
              · rw [hfe] at hvf
                cases hvf
            · rw [he] at he'; cases he'
            · rw [he] at he'; cases he'
        · right
          exact ihn rest pre (i + 1) vs' (by omega) hd.2 hsub_rest hv.2 vf hvf hal hvis

end Members

theorem depthE_pos : ∀ T : GoTypeE, 1 ≤ depthE T
  | .basic _ => by simp [depthE]
  | .ptr e => by simp only [depthE]; exact depthE_pos e
  | .slice e => by simp [depthE]
  | .array _ e => by simp [depthE]
  | .map _ e => by simp [depthE]
  | .struct fs => by simp [depthE]
  | .named _ u => by simp [depthE]
  | .ref _ => by simp [depthE]

/-- **the schema accepts every encoded value**, and `null` where a pointer was stripped -/
theorem soundE {st : Store} {re : String → String → Bool} : ∀ (n : Nat) (T : GoTypeE), wt T ≤ n → InDomainE T = true →
    ∀ (an : Bool) (id : NodeId), Models true st (flatten T) an id → ∀ (f : Nat) (scope : List NodeId), depthE T ≤ f →
    (an = true → Valid (evalFuel (specEnvNoRefs st re) f scope id .null)) ∧
    ∀ v, HasTypeE T v → Valid (evalFuel (specEnvNoRefs st re) f scope id (encodeE T v)) := by
  intro n
  induction n using Nat.strongRecOn with
  | _ n ihn =>
    intro T hw hdom an id hm f scope hf
    cases T with
    | named nm u => simp [InDomainE] at hdom
    | ref nm => simp [InDomainE] at hdom
    | basic kind =>
      obtain ⟨f, rfl⟩ := exists_succ_of_pos (Nat.le_trans (depthE_pos _) hf)
      simp only [flatten, Models] at hm
      obtain ⟨ty, mn, mx, hk, hn⟩ := hm
      have PA := plain_basicNode ty mn mx
      have hfl := addNull_fields an (basicNode ty mn mx)
      refine ⟨fun han => ?_, fun v hv => ?_⟩
      · subst han
        exact frag_null hn (PA.1.addNull _) (PA.2.addNull _) (by rw [hfl.2.2.2.2.2.2.2.2]; rfl)
          (typeOk_addNull_null (Or.inl rfl)) f scope
      · simp only [HasTypeE] at hv
        have henc : encodeE (.basic kind) v = encode (.basic kind) v := by
          cases v <;> rfl
        rw [henc]
        refine frag_valid hn (PA.1.addNull _) (by rw [hfl.2.2.2.2.2.2.2.2]; rfl) ?_ ?_ (basic_asserts rfl hk hv an)
        · exact kwItems_none rfl (PA.2.addNull _).prefixItems (by rw [hfl.2.2.2.2.2.1]; rfl) _
        · exact kwProps_noprops (PA.2.addNull _) (by rw [hfl.2.2.2.2.2.2.1]; rfl) (by rw [hfl.2.2.2.2.2.2.2.1]; rfl) _
    | ptr e =>
      simp only [flatten, Models] at hm
      simp only [depthE] at hf
      simp only [InDomainE] at hdom
      simp only [wt] at hw
      obtain ⟨h1, h2⟩ := ihn (n - 1) (by omega) e (by omega) hdom true id hm f scope hf
      refine ⟨fun _ => h1 rfl, fun v hv => ?_⟩
      simp only [HasTypeE] at hv
      cases v with
      | nilPtr => simp only [encodeE]; exact h1 rfl
      | ptr w => simp only [encodeE]; exact h2 w hv
      | _ => exact hv.elim
    | slice e =>
      obtain ⟨f, rfl⟩ := exists_succ_of_pos (Nat.le_trans (depthE_pos _) hf)
      simp only [flatten, Models] at hm
      simp only [depthE, Nat.add_le_add_iff_right] at hf
      simp only [InDomainE] at hdom
      simp only [wt] at hw
      obtain ⟨eid, he, hn⟩ := hm
      have PA := plain_sliceNode true eid
      have hfl := addNull_fields an (sliceNode true eid)
      have hnull : Valid (evalFuel (specEnvNoRefs st re) (f + 1) scope id .null) :=
        frag_null hn (PA.1.addNull _) (PA.2.addNull _) (by rw [hfl.2.2.2.2.2.2.2.2]; rfl)
          (typeOk_addNull an (by simp [typeOk, sliceNode, typeMatches, Json.typeName])) f scope
      refine ⟨fun _ => hnull, fun v hv => ?_⟩
      simp only [HasTypeE] at hv
      cases v with
      | nilSlice => simp only [encodeE]; exact hnull
      | slice vs =>
        simp only [encodeE]
        simp only at hv
        refine frag_valid hn (PA.1.addNull _) (by rw [hfl.2.2.2.2.2.2.2.2]; rfl) ?_ ⟨_, kwProps_nonobj rfl⟩ ?_
        · refine kwItems_arr_valid rfl (PA.2.addNull _).prefixItems (eid := eid) (by rw [hfl.2.2.2.2.2.1]; rfl) ?_
          intro x hx
          obtain ⟨w, hw', rfl⟩ := List.mem_map.1 hx
          exact (ihn (n - 1) (by omega) e (by omega) hdom false eid he f _ hf).2 w (hv w hw')
        · rw [asserts_plain rfl (PA.2.addNull _), hfl.2.2.1, hfl.2.2.2.1]
          refine ⟨typeOk_addNull an (by simp [typeOk, sliceNode, typeMatches, Json.typeName]),
            (fun _ h => nomatch h), fun xs _ => ?_, (fun _ h => nomatch h)⟩
          exact ⟨fun m hm => by simp [sliceNode] at hm, fun m hm => by simp [sliceNode] at hm⟩
      | _ => exact hv.elim
    | array len e =>
      obtain ⟨f, rfl⟩ := exists_succ_of_pos (Nat.le_trans (depthE_pos _) hf)
      simp only [flatten, Models] at hm
      simp only [depthE, Nat.add_le_add_iff_right] at hf
      simp only [InDomainE] at hdom
      simp only [wt] at hw
      obtain ⟨eid, he, hn⟩ := hm
      have PA := plain_arrayNode len eid
      have hfl := addNull_fields an (arrayNode len eid)
      refine ⟨fun han => ?_, fun v hv => ?_⟩
      · subst han
        exact frag_null hn (PA.1.addNull _) (PA.2.addNull _) (by rw [hfl.2.2.2.2.2.2.2.2]; rfl)
          (typeOk_addNull_null (Or.inl rfl)) f scope
      · simp only [HasTypeE] at hv
        cases v with
        | array vs =>
          simp only [encodeE]
          simp only at hv
          refine frag_valid hn (PA.1.addNull _) (by rw [hfl.2.2.2.2.2.2.2.2]; rfl) ?_ ⟨_, kwProps_nonobj rfl⟩ ?_
          · refine kwItems_arr_valid rfl (PA.2.addNull _).prefixItems (eid := eid) (by rw [hfl.2.2.2.2.2.1]; rfl) ?_
            intro x hx
            obtain ⟨w, hw', rfl⟩ := List.mem_map.1 hx
            exact (ihn (n - 1) (by omega) e (by omega) hdom false eid he f _ hf).2 w (hv.2 w hw')
          · rw [asserts_plain rfl (PA.2.addNull _), hfl.2.2.1, hfl.2.2.2.1]
            refine ⟨typeOk_addNull an (by simp [typeOk, arrayNode, typeMatches, Json.typeName]),
              (fun _ h => nomatch h), fun xs hxs => ?_, (fun _ h => nomatch h)⟩
            cases hxs
            simp only [arrayNode, Option.some.injEq, List.length_map, hv.1]
            exact ⟨fun m hm => by rw [← hm]; exact Int.le_refl _, fun m hm => by rw [← hm]; exact Int.le_refl _⟩
        | _ => exact hv.elim
    | map kk e =>
      obtain ⟨f, rfl⟩ := exists_succ_of_pos (Nat.le_trans (depthE_pos _) hf)
      simp only [flatten, Models] at hm
      simp only [depthE, Nat.add_le_add_iff_right] at hf
      simp only [InDomainE, Bool.and_eq_true] at hdom
      simp only [wt] at hw
      obtain ⟨eid, he, hn⟩ := hm
      have PA := plain_mapNode eid
      have hfl := addNull_fields an (mapNode eid)
      refine ⟨fun han => ?_, fun v hv => ?_⟩
      · subst han
        exact frag_null hn (PA.1.addNull _) (PA.2.addNull _) (by rw [hfl.2.2.2.2.2.2.2.2]; rfl)
          (typeOk_addNull_null (Or.inl rfl)) f scope
      · simp only [HasTypeE] at hv
        cases v with
        | map kvs =>
          simp only [encodeE]
          simp only at hv
          refine frag_valid hn (PA.1.addNull _) (by rw [hfl.2.2.2.2.2.2.2.2]; rfl) ⟨_, kwItems_nonarr rfl⟩ ?_ ?_
          · refine kwProps_obj_valid (PA.2.addNull _).patternProperties fun p hp => ⟨fun t ht => ?_, fun _ t ht => ?_⟩
            · rw [hfl.2.2.2.2.2.2.1] at ht
              simp [mapNode] at ht
            · rw [hfl.2.2.2.2.2.2.2.1] at ht
              have : t = eid := by simpa [mapNode] using ht.symm
              subst this
              obtain ⟨q, hq, rfl⟩ := List.mem_map.1 hp
              exact (ihn (n - 1) (by omega) e (by omega) hdom.2 false _ he f _ hf).2 q.2 (hv.2 q hq)
          · rw [asserts_plain rfl (PA.2.addNull _), hfl.2.2.2.2.1]
            refine ⟨typeOk_addNull an (by simp [typeOk, mapNode, typeMatches, Json.typeName]),
              (fun _ h => nomatch h), (fun _ h => nomatch h), fun kvs' _ k hk => ?_⟩
            simp [mapNode] at hk
        | _ => exact hv.elim
    | struct fields =>
      obtain ⟨f, rfl⟩ := exists_succ_of_pos (Nat.le_trans (depthE_pos _) hf)
      rw [flatten_struct] at hm
      simp only [Models] at hm
      simp only [depthE, Nat.add_le_add_iff_right] at hf
      simp only [InDomainE, Bool.and_eq_true] at hdom
      simp only [wt] at hw
      obtain ⟨hok, hdf⟩ := hdom
      obtain ⟨notId, falseId, props, po, rq, _, _, hn, hrq, _, hmf⟩ := hm
      have PA := plain_structNode falseId props po rq
      have hfl := addNull_fields an (structNode falseId props po rq)
      refine ⟨fun han => ?_, fun v hv => ?_⟩
      · subst han
        exact frag_null hn (PA.1.addNull _) (PA.2.addNull _) (by rw [hfl.2.2.2.2.2.2.2.2]; rfl)
          (typeOk_addNull_null (Or.inl rfl)) f scope
      · simp only [HasTypeE] at hv
        cases v with
        | struct vs =>
          simp only [encodeE]
          simp only at hv
          have C : Ctx st (allFields [] 0 fields) (candidates [] 0 fields) (props.getD []) :=
            ⟨hok, candidates_eq _ fields [] 0 (Nat.le_refl _) hdf, hmf⟩
          have hbounds := allFields_bounds _ fields [] 0 (Nat.le_refl _)
          refine frag_valid hn (PA.1.addNull _) (by rw [hfl.2.2.2.2.2.2.2.2]; rfl) ⟨_, kwItems_nonarr rfl⟩ ?_ ?_
          · refine kwProps_obj_valid (PA.2.addNull _).patternProperties fun p hp => ?_
            obtain ⟨fid, hl, hv'⟩ := membersE_sound (re := re) C (wtFs fields + 1) f (scope ++ [id])
              (fun T hT hTd id' hm' hf' v' hv'' => (ihn (wt T) (by omega) T (Nat.le_refl _) hTd false id' hm' f _ hf').2 v' hv'')
              _ fields [] 0 vs (Nat.le_refl _) hdf
              (fun g hg => ⟨hg, by have := (hbounds g hg).1; omega, Nat.le_trans (hbounds g hg).2 hf⟩) hv p hp
            rw [hfl.2.2.2.2.2.2.1]
            refine ⟨fun t ht => ?_, fun hnone => ?_⟩
            · have : (structNode falseId props po rq).properties.getD [] = props.getD [] := rfl
              rw [this, hl] at ht
              cases ht
              exact hv'
            · have : (structNode falseId props po rq).properties.getD [] = props.getD [] := rfl
              rw [this, hl] at hnone
              cases hnone
          · rw [asserts_plain rfl (PA.2.addNull _), hfl.2.2.2.2.1]
            refine ⟨typeOk_addNull an (by simp [typeOk, structNode, typeMatches, Json.typeName]),
              (fun _ h => nomatch h), (fun _ h => nomatch h), fun kvs' hk k hkr => ?_⟩
            cases hk
            have : (structNode falseId props po rq).required.getD [] = rq.getD [] := rfl
            rw [this, hrq, alwaysNames_plainOf] at hkr
            unfold loopAlways at hkr
            obtain ⟨vf, hvf, rfl⟩ := List.mem_map.1 hkr
            obtain ⟨hvis, hal⟩ := List.mem_filter.1 hvf
            obtain ⟨hin, hvis'⟩ := List.mem_filter.1 hvis
            exact requiredE_present C _ fields [] 0 vs (Nat.le_refl _) hdf (fun g hg => hg) hv vf hin hal hvis'
        | _ => exact hv.elim

end EncJsonEmb
end JSV
