/-
  Algebraic laws, part 2: replacing the content of ONE schema object of the store by an equivalent content changes no
  outcome anywhere (same definedness, same verdict, the same evaluated sets as sets) — `evalFuel_replace`.
  This is what turns a law about a keyword into a law about every schema that contains it.
-/
import JSV.Proofs.SpecLaws
namespace JSV
namespace Laws
open Go GoVal Refine _root_.JSV.Inv
set_option linter.unusedSimpArgs false

/-! ## the simulation relations are equivalences -/

theorem EvEqv.symm {a b : Spec.Ev} (h : EvEqv a b) : EvEqv b a := ⟨fun k => (h.1 k).symm, fun i => (h.2 i).symm⟩

theorem EvEqv.trans {a b c : Spec.Ev} (h1 : EvEqv a b) (h2 : EvEqv b c) : EvEqv a c :=
  ⟨fun k => (h1.1 k).trans (h2.1 k), fun i => (h1.2 i).trans (h2.2 i)⟩

theorem RSim.trans {a b c : Spec.R} (h1 : RSim a b) (h2 : RSim b c) : RSim a c := by
  cases a <;> cases b <;> cases c <;> simp_all [OptRel]
  exact EvEqv.trans h1 h2

theorem OutSim.refl (a : Spec.Out) : OutSim a a := by
  cases a
  · trivial
  · exact RSim_refl _

theorem OutSim.trans {a b c : Spec.Out} (h1 : OutSim a b) (h2 : OutSim b c) : OutSim a c := by
  cases a <;> cases b <;> cases c <;> simp_all [OptRel]
  exact RSim.trans h1 h2

theorem OutSim.of_eq {a b : Spec.Out} (h : a = b) : OutSim a b := h ▸ OutSim.refl a

/-- `OutSim` in plain words: defined together, the same verdict -/
theorem OutSim.verdict_eq {a b : Spec.Out} (h : OutSim a b) : a.map (·.isSome) = b.map (·.isSome) := by
  cases a <;> cases b
  · rfl
  · exact h.elim
  · exact h.elim
  · simp only [Option.map_some]; rw [RSim.isSome_eq h]

/-! ## `unevaluated*` see the evaluated sets as sets -/

theorem kwUnevaluatedItems_congr_ev (sub : NodeId → Json → Spec.Out) (n : Node) (j : Json) {e1 e2 : Spec.Ev}
    (h : EvEqv e1 e2) : Spec.kwUnevaluatedItems sub n j e1 = Spec.kwUnevaluatedItems sub n j e2 := by
  unfold Spec.kwUnevaluatedItems
  have : ∀ xs : List Json, ((xs.zip (Spec.indices xs.length)).filter fun (p : Json × Nat) => !e1.items.contains p.2)
      = (xs.zip (Spec.indices xs.length)).filter fun (p : Json × Nat) => !e2.items.contains p.2 := by
    intro xs
    apply List.filter_congr
    intro p _
    rw [h.items_contains]
  split
  · simp only [this]
  · rfl

theorem kwUnevaluatedProps_congr_ev (sub : NodeId → Json → Spec.Out) (n : Node) (j : Json) {e1 e2 : Spec.Ev}
    (h : EvEqv e1 e2) : Spec.kwUnevaluatedProps sub n j e1 = Spec.kwUnevaluatedProps sub n j e2 := by
  unfold Spec.kwUnevaluatedProps
  have : ∀ kvs : List (String × Json), (kvs.filter fun (p : String × Json) => !e1.props.contains p.1)
      = kvs.filter fun (p : String × Json) => !e2.props.contains p.1 := by
    intro kvs
    apply List.filter_congr
    intro p _
    rw [h.props_contains]
  split
  · simp only [this]
  · rfl

/-! ## one schema object: related keyword lists give related outcomes -/

/-- two contents with the same assertions, the same `unevaluated*` and `$ref`, and keyword outcomes that agree one by
    one (under the same recursive calls) -/
theorem specBody_sim_of_kwList (env : Spec.Env) (rec : Spec.Rec) (scope : List NodeId) (s : NodeId) (j : Json) (n n' : Node)
    (hl : All₂ OutSim (kwList env rec scope s j n) (kwList env rec scope s j n'))
    (ha : assertsOf env n j = assertsOf env n' j) (hr : n'.ref = n.ref)
    (hui : n'.unevaluatedItems = n.unevaluatedItems) (hup : n'.unevaluatedProperties = n.unevaluatedProperties) :
    OutSim (specBody env rec scope s j n) (specBody env rec scope s j n') := by
  have e1 : Spec.kwUnevaluatedItems (rec (scope ++ [s])) (Spec.vocab env.draft n') j =
      Spec.kwUnevaluatedItems (rec (scope ++ [s])) (Spec.vocab env.draft n) j := by
    funext ev; unfold Spec.kwUnevaluatedItems; simp only [Spec.vocab, hui]
  have e2 : Spec.kwUnevaluatedProps (rec (scope ++ [s])) (Spec.vocab env.draft n') j =
      Spec.kwUnevaluatedProps (rec (scope ++ [s])) (Spec.vocab env.draft n) j := by
    funext ev; unfold Spec.kwUnevaluatedProps; simp only [Spec.vocab, hup]
  unfold specBody
  rw [hr, ← ha, e1, e2]
  split
  · exact OptRel.map hl.1 (fun r1 r2 hr => OptRel.map hr (fun _ _ _ => EvEqv.refl _))
  · have hsq := sequence_all₂ hl
    generalize Spec.sequence (kwList env rec scope s j n) = sq1 at hsq ⊢
    generalize Spec.sequence (kwList env rec scope s j n') = sq2 at hsq ⊢
    cases sq1 <;> cases sq2
    · trivial
    · exact hsq.elim
    · exact hsq.elim
    · exact specTail_sim (conj_sim (PR.of_all₂ hsq)) _
        (fun e1 e2 he => OutSim.of_eq (kwUnevaluatedItems_congr_ev _ _ j he))
        (fun e1 e2 he => OutSim.of_eq (kwUnevaluatedProps_congr_ev _ _ j he))

/-! ## replacing one schema object -/

/-- the two contents are interchangeable at the place `s`: whatever the recursive calls return, the outcomes agree -/
def NodeEqv (env : Spec.Env) (s : NodeId) (n n' : Node) : Prop :=
  ∀ rec scope j, OutSim (specBody env rec scope s j n) (specBody env rec scope s j n')

/-- `st'` is `st` with the object at `s` replaced by one whose content is interchangeable with the old one -/
structure Replaced (env : Spec.Env) (st st' : Store) (s : NodeId) (n n' : Node) : Prop where
  size : st'.size = st.size
  other : ∀ t, t ≠ s → st'.get? t = st.get? t
  old : st.get? s = some n
  new : st'.get? s = some n'
  eqv : NodeEqv env s n n'

theorem evalStep_replace (env : Spec.Env) (st st' : Store) (s : NodeId) (n n' : Node) (h : Replaced env st st' s n n')
    (hwf : StoreWF st) {rec1 rec2 : Spec.Rec} (hrec : RecSim rec1 rec2) :
    RecSim (Spec.evalStep { env with st := st } rec1) (Spec.evalStep { env with st := st' } rec2) := by
  intro scope t j1 j2 hj hw
  rw [evalStep_unfold, evalStep_unfold]
  show OutSim (match Store.get? st t with
      | none => none
      | some m => specBody { env with st := st } rec1 scope t j1 m)
    (match Store.get? st' t with
      | none => none
      | some m => specBody { env with st := st' } rec2 scope t j2 m)
  by_cases hts : t = s
  · subst hts
    rw [h.old, h.new]
    show OutSim (specBody { env with st := st } rec1 scope t j1 n) (specBody { env with st := st' } rec2 scope t j2 n')
    rw [specBody_store, specBody_store]
    exact OutSim.trans
      (specBody_sim env hrec scope t hj hw n n (permNode.refl n) (Json.nodupKeys_iff.1 (hwf t n h.old)))
      (h.eqv rec2 scope j2)
  · rw [h.other t hts]
    cases hg : Store.get? st t with
    | none => trivial
    | some m =>
      show OutSim (specBody { env with st := st } rec1 scope t j1 m) (specBody { env with st := st' } rec2 scope t j2 m)
      rw [specBody_store, specBody_store]
      exact specBody_sim env hrec scope t hj hw m m (permNode.refl m) (Json.nodupKeys_iff.1 (hwf t m hg))

/-- **Replacement.**  Replacing the content of one schema object by an interchangeable one changes no outcome of the
    Spec, for any schema of the store, any instance, scope and fuel. -/
theorem evalFuel_replace (env : Spec.Env) (st st' : Store) (s : NodeId) (n n' : Node) (h : Replaced env st st' s n n')
    (hwf : StoreWF st) :
    ∀ fuel, RecSim (Spec.evalFuel { env with st := st } fuel) (Spec.evalFuel { env with st := st' } fuel)
  | 0 => fun _ _ _ _ _ _ => trivial
  | fuel + 1 => evalStep_replace env st st' s n n' h hwf (evalFuel_replace env st st' s n n' h hwf fuel)

/-- … on one instance -/
theorem evalFuel_replace_same (env : Spec.Env) (st st' : Store) (s : NodeId) (n n' : Node)
    (h : Replaced env st st' s n n') (hwf : StoreWF st) (fuel : Nat) (scope : List NodeId) (root : NodeId) (j : Json)
    (hj : Json.WF j = true) :
    OutSim (Spec.evalFuel { env with st := st } fuel scope root j) (Spec.evalFuel { env with st := st' } fuel scope root j) :=
  evalFuel_replace env st st' s n n' h hwf fuel scope root j j (permJson_refl j) hj


/-! ## lists of branches as sets -/

/-- the outcomes of a list of branches: defined iff each is -/
theorem sequence_map_R (f : NodeId → Spec.Out) (ss : List NodeId) :
    Spec.sequence (ss.map f)
      = if ss.all (fun t => (f t).isSome) = true then some (ss.map fun t => (f t).getD none) else none := by
  induction ss with
  | nil => rfl
  | cons t ss ih =>
    simp only [List.map_cons, List.all_cons]
    cases ht : f t with
    | none => simp [Spec.sequence]
    | some r =>
      simp only [Spec.sequence, ih, Option.isSome_some, Bool.true_and, Option.getD_some]
      split <;> rfl

theorem all_congr_set {α : Type} (p : α → Bool) {l l' : List α} (h : ∀ t, t ∈ l ↔ t ∈ l') : l.all p = l'.all p := by
  rw [Bool.eq_iff_iff, List.all_eq_true, List.all_eq_true]
  exact ⟨fun H t ht => H t ((h t).2 ht), fun H t ht => H t ((h t).1 ht)⟩

theorem map_mem_congr_set {α β : Type} (g : α → β) {l l' : List α} (h : ∀ t, t ∈ l ↔ t ∈ l') :
    ∀ r, r ∈ l.map g ↔ r ∈ l'.map g := by
  intro r
  simp only [List.mem_map]
  exact ⟨fun ⟨t, ht, e⟩ => ⟨t, (h t).1 ht, e⟩, fun ⟨t, ht, e⟩ => ⟨t, (h t).2 ht, e⟩⟩

theorem validCount_pos_iff (rs : List Spec.R) : 0 < Spec.validCount rs ↔ ∃ r, r ∈ rs ∧ r.isSome = true := by
  unfold Spec.validCount
  rw [List.length_pos_iff_exists_mem]
  simp only [List.mem_filter]

theorem mem_validUnion_props (rs : List Spec.R) (k : String) :
    k ∈ (Spec.validUnion rs).props ↔ ∃ e, some e ∈ rs ∧ k ∈ e.props := by
  unfold Spec.validUnion
  rw [unions_eq]
  simp only [List.mem_flatMap, List.mem_filterMap, id]
  constructor
  · rintro ⟨e, ⟨r, hr, he⟩, hk⟩; subst he; exact ⟨e, hr, hk⟩
  · rintro ⟨e, hr, hk⟩; exact ⟨e, ⟨some e, hr, rfl⟩, hk⟩

theorem mem_validUnion_items (rs : List Spec.R) (i : Nat) :
    i ∈ (Spec.validUnion rs).items ↔ ∃ e, some e ∈ rs ∧ i ∈ e.items := by
  unfold Spec.validUnion
  rw [unions_eq]
  simp only [List.mem_flatMap, List.mem_filterMap, id]
  constructor
  · rintro ⟨e, ⟨r, hr, he⟩, hk⟩; subst he; exact ⟨e, hr, hk⟩
  · rintro ⟨e, hr, hk⟩; exact ⟨e, ⟨some e, hr, rfl⟩, hk⟩

theorem validUnion_set {rs rs' : List Spec.R} (h : ∀ r, r ∈ rs ↔ r ∈ rs') :
    EvEqv (Spec.validUnion rs) (Spec.validUnion rs') := by
  constructor
  · intro k
    rw [mem_validUnion_props, mem_validUnion_props]
    exact ⟨fun ⟨e, he, hk⟩ => ⟨e, (h _).1 he, hk⟩, fun ⟨e, he, hk⟩ => ⟨e, (h _).2 he, hk⟩⟩
  · intro i
    rw [mem_validUnion_items, mem_validUnion_items]
    exact ⟨fun ⟨e, he, hk⟩ => ⟨e, (h _).1 he, hk⟩, fun ⟨e, he, hk⟩ => ⟨e, (h _).2 he, hk⟩⟩

theorem conj_set {rs rs' : List Spec.R} (h : ∀ r, r ∈ rs ↔ r ∈ rs') : RSim (Spec.conj rs) (Spec.conj rs') := by
  unfold Spec.conj
  rw [all_congr_set Option.isSome h]
  split
  · exact validUnion_set h
  · trivial

section kwset
variable (sub : NodeId → Json → Spec.Out) (n n' : Node) (j : Json) (ss ss' : List NodeId)

/-- `anyOf` reads its list of branches as a set: order and repetition do not matter -/
theorem kwAnyOf_set (h : n.anyOf = some ss) (h' : n'.anyOf = some ss') (hset : ∀ t, t ∈ ss ↔ t ∈ ss') :
    OutSim (Spec.kwAnyOf sub n j) (Spec.kwAnyOf sub n' j) := by
  simp only [Spec.kwAnyOf, h, h', sequence_map_R, all_congr_set _ hset]
  split
  · have hm := map_mem_congr_set (fun t => (sub t j).getD none) hset
    have hc : (Spec.validCount (ss.map fun t => (sub t j).getD none) > 0)
        ↔ (Spec.validCount (ss'.map fun t => (sub t j).getD none) > 0) := by
      show 0 < _ ↔ 0 < _
      rw [validCount_pos_iff, validCount_pos_iff]
      exact ⟨fun ⟨r, hr, e⟩ => ⟨r, (hm r).1 hr, e⟩, fun ⟨r, hr, e⟩ => ⟨r, (hm r).2 hr, e⟩⟩
    simp only [Option.map_some]
    by_cases hp : Spec.validCount (ss.map fun t => (sub t j).getD none) > 0
    · rw [if_pos hp, if_pos (hc.1 hp)]; exact validUnion_set hm
    · rw [if_neg hp, if_neg (fun h => hp (hc.2 h))]; trivial
  · trivial

/-- … and so does `allOf` -/
theorem kwAllOf_set (h : n.allOf = some ss) (h' : n'.allOf = some ss') (hset : ∀ t, t ∈ ss ↔ t ∈ ss') :
    OutSim (Spec.kwAllOf sub n j) (Spec.kwAllOf sub n' j) := by
  simp only [Spec.kwAllOf, h, h', sequence_map_R, all_congr_set _ hset]
  split
  · exact conj_set (map_mem_congr_set (fun t => (sub t j).getD none) hset)
  · trivial

/-- `oneOf` counts: only the order of its branches does not matter -/
theorem kwOneOf_perm (h : n.oneOf = some ss) (h' : n'.oneOf = some ss') (hp : ss.Perm ss') :
    OutSim (Spec.kwOneOf sub n j) (Spec.kwOneOf sub n' j) := by
  simp only [Spec.kwOneOf, h, h', sequence_map_R, all_congr_set _ (fun t => hp.mem_iff)]
  split
  · have hpr : PR RSim (ss.map fun t => (sub t j).getD none) (ss'.map fun t => (sub t j).getD none) :=
      PR.of_perm (fun a _ => RSim_refl a) (hp.map _)
    simp only [Option.map_some, validCount_sim hpr]
    split
    · exact validUnion_sim hpr
    · trivial
  · trivial

end kwset


/-! ## interchangeable contents -/

section nodeeqv
variable (env : Spec.Env) (s : NodeId) (n : Node)

/-- any content with the same applicator keywords and `unevaluated*`, and assertions that say the same -/
theorem NodeEqv_of_kwList_eq (n' : Node)
    (hl : ∀ rec scope j, kwList env rec scope s j n' = kwList env rec scope s j n)
    (ha : ∀ j, assertsOf env n j = assertsOf env n' j) (hr : n'.ref = n.ref)
    (hui : n'.unevaluatedItems = n.unevaluatedItems) (hup : n'.unevaluatedProperties = n.unevaluatedProperties) :
    NodeEqv env s n n' := by
  intro rec scope j
  apply specBody_sim_of_kwList env rec scope s j n n' _ (ha j) hr hui hup
  rw [hl]
  exact All₂.refl (fun a _ => OutSim.refl a)

/-- the branches of `anyOf` reordered / repeated / deduplicated -/
theorem NodeEqv_anyOf (ss ss' : List NodeId) (h : n.anyOf = some ss) (hset : ∀ t, t ∈ ss ↔ t ∈ ss') :
    NodeEqv env s n { n with anyOf := some ss' } := by
  intro rec scope j
  exact specBody_sim_of_kwList env rec scope s j n _
    ⟨OutSim.refl _, OutSim.refl _, OutSim.refl _, kwAnyOf_set _ n _ j ss ss' h rfl hset, OutSim.refl _, OutSim.refl _,
      OutSim.refl _, OutSim.refl _, OutSim.refl _, OutSim.refl _, OutSim.refl _, OutSim.refl _, trivial⟩
    rfl rfl rfl rfl

/-- the branches of `allOf` reordered / repeated / deduplicated -/
theorem NodeEqv_allOf (ss ss' : List NodeId) (h : n.allOf = some ss) (hset : ∀ t, t ∈ ss ↔ t ∈ ss') :
    NodeEqv env s n { n with allOf := some ss' } := by
  intro rec scope j
  exact specBody_sim_of_kwList env rec scope s j n _
    ⟨OutSim.refl _, OutSim.refl _, kwAllOf_set _ n _ j ss ss' h rfl hset, OutSim.refl _, OutSim.refl _, OutSim.refl _,
      OutSim.refl _, OutSim.refl _, OutSim.refl _, OutSim.refl _, OutSim.refl _, OutSim.refl _, trivial⟩
    rfl rfl rfl rfl

/-- the branches of `oneOf` reordered -/
theorem NodeEqv_oneOf (ss ss' : List NodeId) (h : n.oneOf = some ss) (hp : ss.Perm ss') :
    NodeEqv env s n { n with oneOf := some ss' } := by
  intro rec scope j
  exact specBody_sim_of_kwList env rec scope s j n _
    ⟨OutSim.refl _, OutSim.refl _, OutSim.refl _, OutSim.refl _, kwOneOf_perm _ n _ j ss ss' h rfl hp, OutSim.refl _,
      OutSim.refl _, OutSim.refl _, OutSim.refl _, OutSim.refl _, OutSim.refl _, OutSim.refl _, trivial⟩
    rfl rfl rfl rfl

end nodeeqv


/-! ## the store with one object overwritten -/

theorem Replaced.set (env : Spec.Env) (st : Store) (s : NodeId) (n n' : Node) (hn : st.get? s = some n)
    (h : NodeEqv env s n n') : Replaced env st (st.setIfInBounds s n') s n n' where
  size := Array.size_setIfInBounds
  other := fun t ht => Array.getElem?_setIfInBounds_ne (fun e => ht e.symm)
  old := hn
  new := by
    have hlt : s < st.size := (Array.getElem?_eq_some_iff.1 hn).1
    show (st.setIfInBounds s n')[s]? = some n'
    rw [Array.getElem?_setIfInBounds_self, if_pos hlt]
  eqv := h

/-- **Replacement**, verdict form: overwriting the object at `s` by an interchangeable content changes neither definedness
    nor the verdict of any schema of the store on any instance -/
theorem evalFuel_set_verdict (env : Spec.Env) (s : NodeId) (n n' : Node) (hn : env.st.get? s = some n)
    (h : NodeEqv env s n n') (hwf : StoreWF env.st) (fuel : Nat) (scope : List NodeId) (root : NodeId) (j : Json)
    (hj : Json.WF j = true) :
    (Spec.evalFuel { env with st := env.st.setIfInBounds s n' } fuel scope root j).map (·.isSome)
      = (Spec.evalFuel env fuel scope root j).map (·.isSome) :=
  (OutSim.verdict_eq (evalFuel_replace_same env env.st _ s n n' (Replaced.set env env.st s n n' hn h) hwf fuel scope root
    j hj)).symm

/-- … and the evaluated sets are the same sets -/
theorem evalFuel_set_evaluated (env : Spec.Env) (s : NodeId) (n n' : Node) (hn : env.st.get? s = some n)
    (h : NodeEqv env s n n') (hwf : StoreWF env.st) (fuel : Nat) (scope : List NodeId) (root : NodeId) (j : Json)
    (hj : Json.WF j = true) (e e' : Spec.Ev) (h1 : Spec.evalFuel env fuel scope root j = some (some e))
    (h2 : Spec.evalFuel { env with st := env.st.setIfInBounds s n' } fuel scope root j = some (some e')) :
    (∀ k, k ∈ e.props ↔ k ∈ e'.props) ∧ (∀ i, i ∈ e.items ↔ i ∈ e'.items) := by
  have := evalFuel_replace_same env env.st _ s n n' (Replaced.set env env.st s n n' hn h) hwf fuel scope root j hj
  rw [h2] at this
  have h1' : Spec.evalFuel { env with st := env.st } fuel scope root j = some (some e) := h1
  rw [h1'] at this
  exact this

theorem EnvWF_set (env : VEnv) (hwf : EnvWF env) (s : NodeId) (n' : Node) :
    EnvWF { env with st := env.st.setIfInBounds s n' } where
  info_total := by
    intro t m hm
    have hlt : t < (env.st.setIfInBounds s n').size := (Array.getElem?_eq_some_iff.1 hm).1
    rw [Array.size_setIfInBounds] at hlt
    exact hwf.info_total t env.st[t] (Array.getElem?_eq_some_iff.2 ⟨hlt, rfl⟩)
  base_total := hwf.base_total
  hash_respects := hwf.hash_respects

theorem StoreWF_set (st : Store) (hst : StoreWF st) (s : NodeId) (n n' : Node) (hn : st.get? s = some n)
    (hp : n'.properties = n.properties) : StoreWF (st.setIfInBounds s n') := by
  intro t m hm
  by_cases hts : t = s
  · subst hts
    have hlt : t < st.size := (Array.getElem?_eq_some_iff.1 hn).1
    have : (st.setIfInBounds t n')[t]? = some m := hm
    rw [Array.getElem?_setIfInBounds_self, if_pos hlt] at this
    cases this
    rw [hp]; exact hst t n hn
  · have : (st.setIfInBounds s n')[t]? = some m := hm
    rw [Array.getElem?_setIfInBounds_ne (fun e => hts e.symm)] at this
    exact hst t m this

/-- the evaluator on the store with the object at `s` overwritten by an interchangeable content (same `properties` map)
    returns the verdict it returns on the original store, whenever the Spec decides -/
theorem go_set_verdict (env : VEnv) (hwf : EnvWF env) (hst : StoreWF env.st) (s : NodeId) (n n' : Node)
    (hn : env.st.get? s = some n) (h : NodeEqv (specEnvOf env) s n n') (hp : n'.properties = n.properties)
    (fuel : Nat) (stack : List NodeId) (hstack : ∀ x, x ∈ stack → (env.info? x).isSome = true) (root : NodeId) (j : Json)
    (hj : Json.WF j = true) (hdef : (Spec.evalFuel (specEnvOf env) fuel stack root j).isSome = true) :
    (Go.validateFuel { env with st := env.st.setIfInBounds s n' } fuel stack (GoVal.ofJson j) root).verdict
      = (Go.validateFuel env fuel stack (GoVal.ofJson j) root).verdict := by
  have hv : (Spec.evalFuel (specEnvOf { env with st := env.st.setIfInBounds s n' }) fuel stack root j).map (·.isSome)
      = (Spec.evalFuel (specEnvOf env) fuel stack root j).map (·.isSome) :=
    evalFuel_set_verdict (specEnvOf env) s n n' hn h hst fuel stack root j hj
  cases hr : Spec.evalFuel (specEnvOf env) fuel stack root j with
  | none => rw [hr] at hdef; cases hdef
  | some r =>
    rw [hr] at hv
    cases hr' : Spec.evalFuel (specEnvOf { env with st := env.st.setIfInBounds s n' }) fuel stack root j with
    | none => rw [hr'] at hv; cases hv
    | some r' =>
      rw [hr'] at hv
      simp only [Option.map_some, Option.some.injEq] at hv
      rw [go_verdict env hwf hst fuel stack hstack root j hj r hr,
        go_verdict { env with st := env.st.setIfInBounds s n' } (EnvWF_set env hwf s n')
          (StoreWF_set env.st hst s n n' hn hp) fuel stack hstack root j hj r' hr', hv]


/-! ## replacement by a content that says exactly the same -/

/-- overwriting the object at `s` by a content with the same outcome under all recursive calls changes nothing at all:
    the Spec's outcomes (evaluated sets included) are equal, for every schema, instance, scope and fuel -/
theorem evalFuel_set_eq (env : Spec.Env) (s : NodeId) (n n' : Node) (hn : env.st.get? s = some n)
    (h : ∀ rec scope j, specBody env rec scope s j n = specBody env rec scope s j n') :
    ∀ fuel, Spec.evalFuel { env with st := env.st.setIfInBounds s n' } fuel = Spec.evalFuel env fuel
  | 0 => rfl
  | fuel + 1 => by
    funext scope t j
    show Spec.evalStep { env with st := env.st.setIfInBounds s n' }
        (Spec.evalFuel { env with st := env.st.setIfInBounds s n' } fuel) scope t j
      = Spec.evalStep env (Spec.evalFuel env fuel) scope t j
    rw [evalFuel_set_eq env s n n' hn h fuel, evalStep_unfold, evalStep_unfold]
    have hlt : s < env.st.size := (Array.getElem?_eq_some_iff.1 hn).1
    by_cases hts : t = s
    · subst hts
      have e1 : Store.get? (env.st.setIfInBounds t n') t = some n' := by
        show (env.st.setIfInBounds t n')[t]? = some n'
        rw [Array.getElem?_setIfInBounds_self, if_pos hlt]
      show (match Store.get? (env.st.setIfInBounds t n') t with
        | none => none
        | some m => specBody { env with st := env.st.setIfInBounds t n' } (Spec.evalFuel env fuel) scope t j m) = _
      rw [e1, hn]
      show specBody { env with st := _ } (Spec.evalFuel env fuel) scope t j n' = _
      rw [specBody_store]
      exact (h _ scope j).symm
    · have e1 : Store.get? (env.st.setIfInBounds s n') t = Store.get? env.st t :=
        Array.getElem?_setIfInBounds_ne (fun e => hts e.symm)
      show (match Store.get? (env.st.setIfInBounds s n') t with
        | none => none
        | some m => specBody { env with st := env.st.setIfInBounds s n' } (Spec.evalFuel env fuel) scope t j m) = _
      rw [e1]
      cases Store.get? env.st t with
      | none => rfl
      | some m => exact specBody_store env _ _ scope t j m

/-- the contents differ in assertion keywords only, and these say the same -/
theorem specBody_eq_of_asserts (env : Spec.Env) (rec : Spec.Rec) (scope : List NodeId) (s : NodeId) (j : Json) (n n' : Node)
    (hl : kwList env rec scope s j n' = kwList env rec scope s j n)
    (ha : assertsOf env n j = assertsOf env n' j) (hr : n'.ref = n.ref)
    (hui : n'.unevaluatedItems = n.unevaluatedItems) (hup : n'.unevaluatedProperties = n.unevaluatedProperties) :
    specBody env rec scope s j n = specBody env rec scope s j n' := by
  have e1 : Spec.kwUnevaluatedItems (rec (scope ++ [s])) (Spec.vocab env.draft n') j =
      Spec.kwUnevaluatedItems (rec (scope ++ [s])) (Spec.vocab env.draft n) j := by
    funext ev; unfold Spec.kwUnevaluatedItems; simp only [Spec.vocab, hui]
  have e2 : Spec.kwUnevaluatedProps (rec (scope ++ [s])) (Spec.vocab env.draft n') j =
      Spec.kwUnevaluatedProps (rec (scope ++ [s])) (Spec.vocab env.draft n) j := by
    funext ev; unfold Spec.kwUnevaluatedProps; simp only [Spec.vocab, hup]
  have e3 : Spec.kwRef env (rec (scope ++ [s])) s n' j = Spec.kwRef env (rec (scope ++ [s])) s n j := by
    unfold Spec.kwRef; rw [hr]
  unfold specBody
  rw [hr, ← ha, e1, e2, e3, hl]

/-! ## assertion keywords that say the same -/

section asserts
variable (env : Spec.Env) (n : Node) (j : Json)

theorem any_congr_set {α : Type} (p : α → Bool) {l l' : List α} (h : ∀ t, t ∈ l ↔ t ∈ l') : l.any p = l'.any p := by
  rw [Bool.eq_iff_iff, List.any_eq_true, List.any_eq_true]
  exact ⟨fun ⟨t, ht, e⟩ => ⟨t, (h t).1 ht, e⟩, fun ⟨t, ht, e⟩ => ⟨t, (h t).2 ht, e⟩⟩

/-- `const v` says what `enum [v]` says -/
theorem asserts_const_enum (v : Json) (hc : n.const = some v) (he : n.enum = none) :
    assertsOf env n j = assertsOf env { n with const := none, enum := some [v] } j := by
  simp only [assertsOf, Spec.constOk, Spec.enumOk, hc, he, List.any_cons, List.any_nil, Bool.or_false, Bool.true_and,
    Bool.and_true]
  rfl

/-- `enum` reads its list as a set -/
theorem asserts_enum_set (es es' : List Json) (he : n.enum = some es) (hset : ∀ v, v ∈ es ↔ v ∈ es') :
    assertsOf env n j = assertsOf env { n with enum := some es' } j := by
  simp only [assertsOf, Spec.enumOk, he, any_congr_set (fun e => Json.eqv e j) hset]
  rfl

/-- `type: [t]` says what `type: t` says -/
theorem asserts_type_singleton (t : String) (ht : t ≠ "") (h1 : n.type = "") (h2 : n.types = some [t]) :
    assertsOf env n j = assertsOf env { n with type := t, types := none } j := by
  have hb : (t != "") = true := by simpa using ht
  simp only [assertsOf, Spec.typeOk, h1, h2, hb, bne_self_eq_false, Bool.false_eq_true, if_false, if_true, List.any_cons,
    List.any_nil, Bool.or_false]
  rfl

/-- whatever is an `integer` is a `number` -/
theorem typeMatches_integer_number (h : Spec.typeMatches "integer" j = true) : Spec.typeMatches "number" j = true := by
  unfold Spec.typeMatches at h ⊢
  simp only [Bool.or_eq_true, Bool.and_eq_true, beq_iff_eq] at h ⊢
  rcases h with h | h
  · exact Or.inr ⟨h, trivial⟩
  · exact absurd h.2 (by decide)

/-- a schema object whose only keyword is `type: t` -/
theorem assertsOf_type_only (t : String) (ht : t ≠ "") : assertsOf env { type := t } j = Spec.typeMatches t j := by
  have hb : (t != "") = true := by simpa using ht
  unfold assertsOf
  rw [enumOk_absent _ j rfl, constOk_absent _ j rfl, numericOk_absent _ j rfl rfl rfl rfl rfl,
    stringOk_absent env _ j rfl rfl rfl, arrayLimitsOk_absent _ j rfl rfl rfl,
    objectLimitsOk_absent env _ j rfl rfl rfl rfl rfl]
  simp [Spec.typeOk, hb]

end asserts


section exact
variable (env : Spec.Env) (rec : Spec.Rec) (scope : List NodeId) (s : NodeId) (j : Json) (n : Node)

theorem specBody_const_enum (v : Json) (hc : n.const = some v) (he : n.enum = none) :
    specBody env rec scope s j n = specBody env rec scope s j { n with const := none, enum := some [v] } :=
  specBody_eq_of_asserts env rec scope s j n { n with const := none, enum := some [v] } rfl
    (asserts_const_enum env n j v hc he) rfl rfl rfl

theorem specBody_enum_set (es es' : List Json) (he : n.enum = some es) (hset : ∀ v, v ∈ es ↔ v ∈ es') :
    specBody env rec scope s j n = specBody env rec scope s j { n with enum := some es' } :=
  specBody_eq_of_asserts env rec scope s j n { n with enum := some es' } rfl
    (asserts_enum_set env n j es es' he hset) rfl rfl rfl

theorem specBody_type_singleton (t : String) (ht : t ≠ "") (h1 : n.type = "") (h2 : n.types = some [t]) :
    specBody env rec scope s j n = specBody env rec scope s j { n with type := t, types := none } :=
  specBody_eq_of_asserts env rec scope s j n { n with type := t, types := none } rfl
    (asserts_type_singleton env n j t ht h1 h2) rfl rfl rfl

end exact

section nodeeqv2
variable (env : Spec.Env) (s : NodeId) (n : Node)

theorem NodeEqv_const_enum (v : Json) (hc : n.const = some v) (he : n.enum = none) :
    NodeEqv env s n { n with const := none, enum := some [v] } :=
  NodeEqv_of_kwList_eq env s n _ (fun _ _ _ => rfl) (fun j => asserts_const_enum env n j v hc he) rfl rfl rfl

theorem NodeEqv_enum_set (es es' : List Json) (he : n.enum = some es) (hset : ∀ v, v ∈ es ↔ v ∈ es') :
    NodeEqv env s n { n with enum := some es' } :=
  NodeEqv_of_kwList_eq env s n _ (fun _ _ _ => rfl) (fun j => asserts_enum_set env n j es es' he hset) rfl rfl rfl

theorem NodeEqv_type_singleton (t : String) (ht : t ≠ "") (h1 : n.type = "") (h2 : n.types = some [t]) :
    NodeEqv env s n { n with type := t, types := none } :=
  NodeEqv_of_kwList_eq env s n _ (fun _ _ _ => rfl) (fun j => asserts_type_singleton env n j t ht h1 h2) rfl rfl rfl

end nodeeqv2

end Laws
end JSV
