/-
  Helper lemmas for C17: the walk of dereferenceJSONPointer over the store.
-/
import JSV.Proofs.PtrEscape
import JSV.Proofs.PtrIndex
namespace JSV
namespace Pointer

theorem walk_nil (st : Store) (strict : Bool) (cur : Cursor) : walk st strict cur [] = .ok cur := rfl

theorem walk_cons (st : Store) (strict : Bool) (cur : Cursor) (seg : String) (rest : List String) :
    walk st strict cur (seg :: rest) = Res.bind (step st strict cur seg) fun c => walk st strict c rest := rfl

theorem walk_append (st : Store) (strict : Bool) (cur : Cursor) (a b : List String) :
    walk st strict cur (a ++ b) = (walk st strict cur a).bind fun c => walk st strict c b := by
  induction a generalizing cur with
  | nil => simp [walk_nil]
  | cons s r ih =>
    rw [List.cons_append, walk_cons, walk_cons]
    cases step st strict cur s <;> simp [ih]

/-! ### lookupField on the schema-bearing fields -/

theorem lookupField_one (n : Node) (j : String) (c : NodeId)
    (h : ChildField.one j (some c) ∈ n.childFields) : lookupField n j = some (.node c) := by
  simp only [Node.childFields, List.mem_cons, ChildField.one.injEq, reduceCtorEq, List.mem_nil_iff,
    or_false, false_or] at h
  rcases h with ⟨rfl, h⟩ | ⟨rfl, h⟩ | ⟨rfl, h⟩ | ⟨rfl, h⟩ | ⟨rfl, h⟩ | ⟨rfl, h⟩ | ⟨rfl, h⟩ | ⟨rfl, h⟩ |
    ⟨rfl, h⟩ | ⟨rfl, h⟩ | ⟨rfl, h⟩ | ⟨rfl, h⟩ <;>
  simp [lookupField, Node.childFields, ← h]

theorem lookupField_one_nil (n : Node) (j : String)
    (h : ChildField.one j none ∈ n.childFields) (hj : j ≠ "items") :
    lookupField n j = some (.node 1000000000) := by
  simp only [Node.childFields, List.mem_cons, ChildField.one.injEq, reduceCtorEq, List.mem_nil_iff,
    or_false, false_or] at h
  rcases h with ⟨rfl, h⟩ | ⟨rfl, h⟩ | ⟨rfl, h⟩ | ⟨rfl, h⟩ | ⟨rfl, h⟩ | ⟨rfl, h⟩ | ⟨rfl, h⟩ | ⟨rfl, h⟩ |
    ⟨rfl, h⟩ | ⟨rfl, h⟩ | ⟨rfl, h⟩ | ⟨rfl, h⟩ <;>
  first | exact absurd rfl hj | simp [lookupField, Node.childFields, ← h]

theorem items_none_of_mem (n : Node) (h : ChildField.one "items" none ∈ n.childFields) :
    n.items = none := by
  simp only [Node.childFields, List.mem_cons, ChildField.one.injEq, reduceCtorEq, List.mem_nil_iff,
    or_false, false_or] at h
  simp at h
  exact h.symm

theorem lookupField_items_nil (n : Node) (h : n.items = none) :
    lookupField n "items" = some (.nodes (n.itemsArray.getD [])) := by
  simp [lookupField, h]

theorem lookupField_many (n : Node) (j : String) (cs : List NodeId)
    (h : ChildField.many j (some cs) ∈ n.childFields) (hitems : j = "items" → n.items = none) :
    lookupField n j = some (.nodes cs) := by
  simp only [Node.childFields, List.mem_cons, ChildField.many.injEq, reduceCtorEq, List.mem_nil_iff,
    or_false, false_or] at h
  rcases h with ⟨rfl, h⟩ | ⟨rfl, h⟩ | ⟨rfl, h⟩ | ⟨rfl, h⟩ | ⟨rfl, h⟩
  case inr.inr.inl => simp [lookupField, hitems rfl, ← h]
  all_goals simp [lookupField, Node.childFields, ← h]

theorem lookupField_keyed (n : Node) (j : String) (kvs : List (String × NodeId))
    (h : ChildField.keyed j (some kvs) ∈ n.childFields) : lookupField n j = some (.nodeMap kvs) := by
  simp only [Node.childFields, List.mem_cons, ChildField.keyed.injEq, reduceCtorEq, List.mem_nil_iff,
    or_false, false_or] at h
  rcases h with ⟨rfl, h⟩ | ⟨rfl, h⟩ | ⟨rfl, h⟩ | ⟨rfl, h⟩ | ⟨rfl, h⟩ | ⟨rfl, h⟩ <;>
  simp [lookupField, Node.childFields, ← h]

/-! ### single steps -/

theorem step_node (st : Store) (strict : Bool) (id : NodeId) (n : Node) (j : String) (c : Cursor)
    (hn : st.get? id = some n) (hl : lookupField n j = some c) :
    step st strict (.node id) j = .ok c := by
  simp [step, hn, hl]

theorem step_nodes (st : Store) (strict : Bool) (cs : List NodeId) (i : Nat) (hi : i < cs.length) :
    step st strict (.nodes cs) (toString i) = .ok (.node cs[i]) := by
  simp only [step, arrayIndex_toString strict i cs.length hi, List.getElem?_eq_getElem hi]

theorem step_nodeMap (st : Store) (strict : Bool) (kvs : List (String × NodeId)) (k : String) (c : NodeId)
    (h : Json.lookup k kvs = some c) : step st strict (.nodeMap kvs) k = .ok (.node c) := by
  simp [step, h]

theorem step_dead (st : Store) (strict : Bool) (seg : String) : step st strict .dead seg = .err := rfl

theorem walk_dead (st : Store) (strict : Bool) (segs : List String) :
    walk st strict .dead segs = .ok .dead ∨ walk st strict .dead segs = .err := by
  cases segs with
  | nil => exact Or.inl rfl
  | cons s r => right; rw [walk_cons, step_dead]; rfl

/-! ### paths of schema-bearing fields -/

/-- `Path st a p t`: `p` is the list of (unescaped) reference tokens of a chain of schema-bearing
    fields that leads from the schema `a` to the schema pointer `t`.  The side condition of `many`
    is the union field `items`: the array form is only consulted when the single form is nil. -/
inductive Path (st : Store) : NodeId → List String → NodeId → Prop
  | nil (a : NodeId) : Path st a [] a
  | one {a : NodeId} {n : Node} {j : String} {c : NodeId} {p : List String} {t : NodeId} :
      st.get? a = some n → ChildField.one j (some c) ∈ n.childFields → Path st c p t →
      Path st a (j :: p) t
  | many {a : NodeId} {n : Node} {j : String} {cs : List NodeId} {i : Nat} {p : List String} {t : NodeId} :
      st.get? a = some n → ChildField.many j (some cs) ∈ n.childFields →
      (j = "items" → n.items = none) → (hi : i < cs.length) → Path st cs[i] p t →
      Path st a (j :: toString i :: p) t
  | keyed {a : NodeId} {n : Node} {j : String} {kvs : List (String × NodeId)} {k : String} {c : NodeId}
      {p : List String} {t : NodeId} :
      st.get? a = some n → ChildField.keyed j (some kvs) ∈ n.childFields →
      Json.lookup k kvs = some c → Path st c p t →
      Path st a (j :: k :: p) t

theorem walk_path (st : Store) (strict : Bool) {a t : NodeId} {p : List String} (h : Path st a p t) :
    walk st strict (.node a) p = .ok (.node t) := by
  induction h with
  | nil a => rfl
  | one hn hm _ ih =>
    rw [walk_cons, step_node st strict _ _ _ _ hn (lookupField_one _ _ _ hm), Res.bind_ok, ih]
  | many hn hm hitems hi _ ih =>
    rw [walk_cons, step_node st strict _ _ _ _ hn (lookupField_many _ _ _ hm hitems), Res.bind_ok,
      walk_cons, step_nodes st strict _ _ hi, Res.bind_ok, ih]
  | keyed hn hm hk _ ih =>
    rw [walk_cons, step_node st strict _ _ _ _ hn (lookupField_keyed _ _ _ hm), Res.bind_ok,
      walk_cons, step_nodeMap st strict _ _ _ hk, Res.bind_ok, ih]

/-! ### dereference -/

/-- the last statement of dereferenceJSONPointer -/
def finish (st : Store) (nie : Bool) : Cursor → Res NodeId
  | .node id => if nie && (st.get? id).isNone then .err else .ok id
  | _ => .err

theorem dereference_eq (st : Store) (strict nie : Bool) (root : NodeId) (ptr : String) :
    dereference st strict nie root ptr =
      (parse ptr).bind fun segs => (walk st strict (.node root) segs).bind (finish st nie) := by
  unfold dereference
  cases parse ptr <;> simp only [Res.bind_ok, Res.bind_err, Res.bind_fuel, Res.bind_panic]
  rename_i segs
  cases walk st strict (.node root) segs <;> simp only [Res.bind_ok, Res.bind_err, Res.bind_fuel, Res.bind_panic]
  rename_i cur
  cases cur <;> rfl

theorem dereference_of_walk (st : Store) (strict nie : Bool) (root : NodeId) (ptr : String)
    (segs : List String) (cur : Cursor)
    (hp : parse ptr = .ok segs) (hw : walk st strict (.node root) segs = .ok cur) :
    dereference st strict nie root ptr = finish st nie cur := by
  rw [dereference_eq, hp, Res.bind_ok, hw, Res.bind_ok]

theorem dereference_ok_exists (st : Store) (strict : Bool) (root t : NodeId) (ptr : String)
    (h : dereference st strict true root ptr = .ok t) : (st.get? t).isSome = true := by
  unfold dereference at h
  cases hp : parse ptr <;> rw [hp] at h <;> simp at h
  rename_i segs
  cases hw : walk st strict (.node root) segs <;> rw [hw] at h <;> simp at h
  rename_i cur
  cases cur <;> simp at h
  rename_i id
  split at h
  · exact absurd h (by simp)
  · rename_i hc
    simp at h
    subst h
    cases hg : st.get? id <;> simp_all

end Pointer
end JSV
