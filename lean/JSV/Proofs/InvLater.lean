/-
  C02 helpers: under draft-07 the keywords of later drafts (`minContains`, `maxContains`, `unevaluatedItems`,
  `unevaluatedProperties`, `$dynamicRef`) are read neither by the Spec nor by the evaluator.
-/
import JSV.Proofs.InvDraft
import JSV.Proofs.InvPerm5
namespace JSV
namespace Inv
open Go GoVal Refine

/-- clear the keywords that later drafts added to draft-07 -/
def eraseLater (n : Node) : Node :=
  { n with dynamicRef := "", minContains := none, maxContains := none, unevaluatedItems := none,
           unevaluatedProperties := none }

/-- … which is what the draft-07 vocabulary of the Spec does -/
theorem eraseLater_eq_vocab (n : Node) : eraseLater n = Spec.vocab .d7 n := rfl

/-- … and the five field-wise erasures of C18 composed -/
theorem eraseLater_eq_eraseField (n : Node) :
    eraseLater n = eraseField "DynamicRef" (eraseField "MinContains" (eraseField "MaxContains"
      (eraseField "UnevaluatedItems" (eraseField "UnevaluatedProperties" n)))) := by
  have h0 : ∀ m : Node, eraseField "DynamicRef" m = { m with dynamicRef := "" } := fun _ => rfl
  have h1 : ∀ m : Node, eraseField "UnevaluatedProperties" m = { m with unevaluatedProperties := none } := fun _ => rfl
  have h2 : ∀ m : Node, eraseField "UnevaluatedItems" m = { m with unevaluatedItems := none } := fun _ => rfl
  have h3 : ∀ m : Node, eraseField "MaxContains" m = { m with maxContains := none } := fun _ => rfl
  have h4 : ∀ m : Node, eraseField "MinContains" m = { m with minContains := none } := fun _ => rfl
  rw [h1, h2, h3, h4, h0]
  rfl

theorem vocab_eraseLater (d : Draft) (n : Node) (hd : d = .d7) : Spec.vocab d (eraseLater n) = Spec.vocab d n := by
  subst hd; rfl

/-- clear `$dynamicRef` alone (Schema.Resolve reads none of the five, but `unevaluatedItems` / `unevaluatedProperties` hold
    subschemas, which it visits) -/
def eraseDynRef (n : Node) : Node := { n with dynamicRef := "" }

theorem eraseDynRef_eq_eraseField (n : Node) : eraseDynRef n = eraseField "DynamicRef" n := rfl

theorem vocab_eraseDynRef (d : Draft) (n : Node) (hd : d = .d7) : Spec.vocab d (eraseDynRef n) = Spec.vocab d n := by
  subst hd; rfl

/-! ### the evaluator -/

theorem stepBody_later7 (env : VEnv) (hd : env.draft = .d7) (rec : Go.Rec) (stack : List NodeId) (i : GoVal) (s : NodeId)
    (n : Node) : stepBody env rec stack i s (eraseLater n) = stepBody env rec stack i s n := by
  have hA := fun stk => bArray_of_bItems env rec stk eraseLater n (fun _ _ => rfl)
    (fun xs anns => by rw [bContains_vocab, bContains_vocab _ _ _ n, vocab_eraseLater _ _ hd])
    (fun xs cnt => by rw [bArrayLimits_vocab, bArrayLimits_vocab _ n, vocab_eraseLater _ _ hd])
    (fun _ => rfl)
    (fun xs anns => by rw [bUnevaluatedItems_vocab, bUnevaluatedItems_vocab _ _ _ n, vocab_eraseLater _ _ hd])
  have hO := fun stk => bObject_of_bDependencies env rec stk eraseLater n (fun _ _ _ => rfl)
    (fun _ _ => rfl) rfl (fun _ _ => rfl)
    (fun kvs anns => by rw [bUnevaluatedProps_vocab, bUnevaluatedProps_vocab _ _ _ n, vocab_eraseLater _ _ hd])
  have hD : ∀ stk inf inst anns, bDynamicRef env rec stk (eraseLater n) inf inst anns
      = bDynamicRef env rec stk n inf inst anns := fun stk inf inst anns => by
    rw [bDynamicRef_d7 env hd, bDynamicRef_d7 env hd]
  unfold stepBody
  simp only [hA, hO, hD]
  rfl

theorem stepBody_dyn7 (env : VEnv) (hd : env.draft = .d7) (rec : Go.Rec) (stack : List NodeId) (i : GoVal) (s : NodeId)
    (n : Node) : stepBody env rec stack i s (eraseDynRef n) = stepBody env rec stack i s n := by
  have hD : ∀ stk inf inst anns, bDynamicRef env rec stk (eraseDynRef n) inf inst anns
      = bDynamicRef env rec stk n inf inst anns := fun stk inf inst anns => by
    rw [bDynamicRef_d7 env hd, bDynamicRef_d7 env hd]
  unfold stepBody
  simp only [hD]
  rfl

/-- a draft-07 evaluation never reads `$dynamicRef` -/
theorem validateFuel_dyn7 (env : VEnv) (hd : env.draft = .d7) : ∀ fuel stack i s,
    validateFuel { env with st := env.st.map eraseDynRef } fuel stack i s = validateFuel env fuel stack i s :=
  validateFuel_map_of env eraseDynRef (fun rec stack i s n => stepBody_dyn7 env hd rec stack i s n)

/-- a draft-07 evaluation never reads minContains, maxContains, unevaluatedItems, unevaluatedProperties, `$dynamicRef` -/
theorem validateFuel_later7 (env : VEnv) (hd : env.draft = .d7) : ∀ fuel stack i s,
    validateFuel { env with st := env.st.map eraseLater } fuel stack i s = validateFuel env fuel stack i s :=
  validateFuel_map_of env eraseLater (fun rec stack i s n => stepBody_later7 env hd rec stack i s n)

/-! ### the Spec -/

theorem specBody_later7 (env : Spec.Env) (hd : env.draft = .d7) (rec : Spec.Rec) (scope : List NodeId) (s : NodeId)
    (j : Json) (n : Node) : specBody env rec scope s j (eraseLater n) = specBody env rec scope s j n := by
  unfold specBody kwList
  rw [vocab_eraseLater _ _ hd]
  rfl

/-- the Spec on a store mapped by `f`, when no schema object is read differently through `f` -/
theorem evalFuel_map_of (env : Spec.Env) (f : Node → Node)
    (hf : ∀ rec scope s j n, specBody env rec scope s j (f n) = specBody env rec scope s j n) : ∀ fuel scope s j,
    Spec.evalFuel { env with st := env.st.map f } fuel scope s j = Spec.evalFuel env fuel scope s j := by
  intro fuel
  induction fuel with
  | zero => intro _ _ _; rfl
  | succ k ih =>
    intro scope s j
    have hrec : Spec.evalFuel { env with st := env.st.map f } k = Spec.evalFuel env k := by
      funext a b c; exact ih a b c
    show Spec.evalStep _ (Spec.evalFuel _ k) scope s j = Spec.evalStep env (Spec.evalFuel env k) scope s j
    rw [evalStep_unfold, evalStep_unfold, hrec]
    show (match Store.get? (env.st.map f) s with
          | none => none
          | some n => specBody { env with st := env.st.map f } (Spec.evalFuel env k) scope s j n) = _
    rw [get?_map]
    cases Store.get? env.st s with
    | none => rfl
    | some n =>
      show specBody { env with st := env.st.map f } (Spec.evalFuel env k) scope s j (f n) = _
      rw [specBody_store]
      exact hf _ scope s j n

theorem specBody_dyn7 (env : Spec.Env) (hd : env.draft = .d7) (rec : Spec.Rec) (scope : List NodeId) (s : NodeId)
    (j : Json) (n : Node) : specBody env rec scope s j (eraseDynRef n) = specBody env rec scope s j n := by
  unfold specBody kwList
  rw [vocab_eraseDynRef _ _ hd]
  rfl

/-- the draft-07 Spec never reads `$dynamicRef` -/
theorem evalFuel_dyn7 (env : Spec.Env) (hd : env.draft = .d7) : ∀ fuel scope s j,
    Spec.evalFuel { env with st := env.st.map eraseDynRef } fuel scope s j = Spec.evalFuel env fuel scope s j :=
  evalFuel_map_of env eraseDynRef (fun rec scope s j n => specBody_dyn7 env hd rec scope s j n)

theorem evalFuel_later7 (env : Spec.Env) (hd : env.draft = .d7) : ∀ fuel scope s j,
    Spec.evalFuel { env with st := env.st.map eraseLater } fuel scope s j = Spec.evalFuel env fuel scope s j := by
  intro fuel
  induction fuel with
  | zero => intro _ _ _; rfl
  | succ k ih =>
    intro scope s j
    have hrec : Spec.evalFuel { env with st := env.st.map eraseLater } k = Spec.evalFuel env k := by
      funext a b c; exact ih a b c
    show Spec.evalStep _ (Spec.evalFuel _ k) scope s j = Spec.evalStep env (Spec.evalFuel env k) scope s j
    rw [evalStep_unfold, evalStep_unfold, hrec]
    show (match Store.get? (env.st.map eraseLater) s with
          | none => none
          | some n => specBody { env with st := env.st.map eraseLater } (Spec.evalFuel env k) scope s j n) = _
    rw [get?_map]
    cases Store.get? env.st s with
    | none => rfl
    | some n =>
      show specBody { env with st := env.st.map eraseLater } (Spec.evalFuel env k) scope s j (eraseLater n) = _
      rw [specBody_store]
      exact specBody_later7 env hd _ scope s j n

end Inv
end JSV
