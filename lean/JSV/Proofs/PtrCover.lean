/-
  Helper definitions for C17: comparing `Node.childFields` with the regenerated Go field table.
-/
import JSV.Model.Pointer
namespace JSV
namespace Pointer

/-- the three reflect types dereferenceJSONPointer / everyChild know how to enter -/
inductive Shape | one | many | keyed
  deriving DecidableEq, Repr

def ChildField.shape : ChildField → Shape
  | .one _ _ => .one
  | .many _ _ => .many
  | .keyed _ _ => .keyed

def ChildField.name : ChildField → String
  | .one j _ => j
  | .many j _ => j
  | .keyed j _ => j

/-- the Go type text mentions `Schema` -/
def hasInfix (pat : List Char) : List Char → Bool
  | [] => pat.isEmpty
  | c :: r => pat.isPrefixOf (c :: r) || hasInfix pat r

def mentionsSchema (ty : String) : Bool := hasInfix "Schema".toList ty.toList

def shapeOfGoType (ty : String) : Option Shape :=
  if ty == "*Schema" then some .one
  else if ty == "[]*Schema" then some .many
  else if ty == "map[string]*Schema" then some .keyed
  else none

/-- the reference token under which a Go field is reachable: its JSON tag name, or the keyword of the
    union it belongs to for the `json:"-"` fields handled by hand in MarshalJSON/UnmarshalJSON -/
def pointerName (f : String × String × String × Bool) : String :=
  if f.2.2.1 != "-" then f.2.2.1
  else if f.1 == "Items" || f.1 == "ItemsArray" then "items"
  else if f.1 == "DependencySchemas" || f.1 == "DependencyStrings" then "dependencies"
  else if f.1 == "Type" || f.1 == "Types" then "type"
  else "-"

/-- (shape, name) of the model's schema-bearing fields -/
def modelChildShapes : List (Option Shape × String) :=
  (default : Node).childFields.map fun c => (some (ChildField.shape c), ChildField.name c)

/-- (shape, name) of the Go struct fields whose type mentions Schema -/
def generatedChildShapes : List (Option Shape × String) :=
  (Generated.schemaFields.filter fun f => mentionsSchema f.2.1).map fun f =>
    (shapeOfGoType f.2.1, pointerName f)

end Pointer
end JSV
