/-
  Helper lemmas for C16 (embedded fields): what the loop over `VisibleFields` does to `propertyOrder`, `required`
  and the keys of `properties` when no embedded type has a TypeSchemas override, and — on the domain `InDomainE` —
  that the fields the loop enters are encoding/json's `typeFields`, in the same order.
-/
import JSV.Spec.EncJsonEmb
import JSV.Proofs.InfEmbStore
import JSV.Proofs.InfEqns
namespace JSV
namespace Go
open EncJsonEmb (live jsonNameOf)

/-! ## one field, inverted -/

theorem fieldStepE_ok {rec : IRecE} {seen : List String} {g tag : String} {ex : Bool} {ft : GoTypeE} {n : Node} {st : Store}
    {n' : Node} {st' : Store} (h : fieldStepE rec seen g tag ex ft n st = .ok (n', st')) :
    ((fieldJSONInfoE g tag ex).omitted = true ∧ n' = n ∧ st' = st) ∨
    ((fieldJSONInfoE g tag ex).omitted = false ∧ ∃ st1, rec ft seen st = .ok (none, st1) ∧ n' = n ∧ st' = st1) ∨
    ((fieldJSONInfoE g tag ex).omitted = false ∧ ∃ fid st1, rec ft seen st = .ok (some fid, st1) ∧
        n' = addFieldE n (fieldJSONInfoE g tag ex) fid ∧ (st' = st1 ∨ ∃ d, st' = setDescriptionE st1 fid d)) := by
  unfold fieldStepE at h
  simp only at h
  split at h
  · rename_i ho
    cases h
    exact Or.inl ⟨ho, rfl, rfl⟩
  · rename_i ho
    have ho : (fieldJSONInfoE g tag ex).omitted = false := by simpa using ho
    obtain ⟨⟨fs, st1⟩, hfs, h⟩ := Res.bind_eq_ok h
    simp only at h
    split at h
    · cases h
      exact Or.inr (Or.inl ⟨ho, _, hfs, rfl, rfl⟩)
    · rename_i fid
      refine Or.inr (Or.inr ⟨ho, fid, _, hfs, ?_⟩)
      split at h
      · split at h
        · cases h
        · split at h
          · cases h
          · cases h
            exact ⟨rfl, Or.inr ⟨_, rfl⟩⟩
      · cases h
        exact ⟨rfl, Or.inl rfl⟩

/-! ## the loop without overrides -/

/-- no anonymous field of the list has a TypeSchemas entry (a pointer type never has one) -/
def NoOverride (opts : IOpts) (vfs : List VField) : Prop :=
  ∀ f, f ∈ vfs → f.anonymous = true → ((typeNameE f.type).bind fun nm => Json.lookup nm opts.schemas) = none

/-- the recursive call never drops a type -/
def NeverDropsE (rec : IRecE) (seen : List String) (vfs : List VField) : Prop :=
  ∀ f, f ∈ vfs → live f = true → ∀ st st1, rec f.type seen st = .ok (none, st1) → False

/-- the JSON names the loop enters: those of the live fields, in order -/
def loopNames (vfs : List VField) : List String := (vfs.filter live).map jsonNameOf

def alwaysLive (f : VField) : Bool :=
  live f && !(fieldJSONInfo f.goName f.tag).omitempty && !(fieldJSONInfo f.goName f.tag).omitzero

def loopAlways (vfs : List VField) : List String := (vfs.filter alwaysLive).map jsonNameOf

theorem live_of_not_anonymous {f : VField} (ha : f.anonymous = false) :
    live f = !(fieldJSONInfoE f.goName f.tag f.exported).omitted := by
  unfold live fieldJSONInfoE
  cases f.exported <;> simp [ha]

theorem fieldJSONInfoE_of_live {f : VField} (hl : live f = true) :
    fieldJSONInfoE f.goName f.tag f.exported = fieldJSONInfo f.goName f.tag := by
  unfold live at hl
  simp only [Bool.and_eq_true] at hl
  unfold fieldJSONInfoE
  simp [hl.1.2]

theorem loopNames_cons (f : VField) (rest : List VField) :
    loopNames (f :: rest) = if live f then jsonNameOf f :: loopNames rest else loopNames rest := by
  unfold loopNames
  rw [List.filter_cons]
  split <;> rfl

theorem loopAlways_cons (f : VField) (rest : List VField) :
    loopAlways (f :: rest) = if alwaysLive f then jsonNameOf f :: loopAlways rest else loopAlways rest := by
  unfold loopAlways
  rw [List.filter_cons]
  split <;> rfl

theorem overrideOf_none {opts : IOpts} {st : Store} {t : GoTypeE}
    (h : ((typeNameE t).bind fun nm => Json.lookup nm opts.schemas) = none) : overrideOf opts st t = none := by
  unfold overrideOf
  rw [h]
  rfl

/-- one iteration of the loop when nothing is overridden -/
theorem structLoopE_cons_none {opts : IOpts} {rec : IRecE} {seen : List String} {f : VField} {rest : List VField}
    {n : Node} {st : Store} (hno : f.anonymous = true → ((typeNameE f.type).bind fun nm => Json.lookup nm opts.schemas) = none) :
    structLoopE opts rec seen (f :: rest) none n st =
      if f.anonymous then structLoopE opts rec seen rest none (ensureProps n) st
      else Res.bind (fieldStepE rec seen f.goName f.tag f.exported f.type (ensureProps n) st) fun r =>
        structLoopE opts rec seen rest none r.1 r.2 := by
  simp only [structLoopE, underSkip, Bool.false_eq_true, if_false]
  split
  · rename_i ha
    rw [overrideOf_none (hno ha)]
    rfl
  · rfl

theorem addFieldE_eq (n : Node) (info : JsonInfo) (fid : NodeId) : addFieldE n info fid = addField n info fid := rfl

theorem structLoopE_lists {opts : IOpts} {rec : IRecE} {seen : List String} :
    ∀ (vfs : List VField) {n : Node} {st : Store} {n' : Node} {st' : Store},
      NoOverride opts vfs → NeverDropsE rec seen vfs → structLoopE opts rec seen vfs none n st = .ok (n', st') →
      n'.propertyOrder.getD [] = n.propertyOrder.getD [] ++ loopNames vfs ∧
      n'.required.getD [] = n.required.getD [] ++ loopAlways vfs ∧
      (∀ k, k ∈ (n'.properties.getD []).map (·.1) ↔ (k ∈ (n.properties.getD []).map (·.1) ∨ k ∈ loopNames vfs)) ∧
      coreOf n' = coreOf n
  | [], n, st, n', st', _, _, h => by
    simp only [structLoopE] at h
    cases h
    simp [loopNames, loopAlways]
  | f :: rest, n, st, n', st', hno, hnd, h => by
    have hno' : NoOverride opts rest := fun g hg => hno g (List.mem_cons_of_mem _ hg)
    have hnd' : NeverDropsE rec seen rest := fun g hg => hnd g (List.mem_cons_of_mem _ hg)
    rw [structLoopE_cons_none (hno f List.mem_cons_self)] at h
    rw [loopNames_cons, loopAlways_cons]
    cases ha : f.anonymous with
    | true =>
      rw [ha] at h
      simp only [if_true] at h
      obtain ⟨h1, h2, h3, h4⟩ := structLoopE_lists rest hno' hnd' h
      rw [ensureProps_order] at h1
      rw [ensureProps_required] at h2
      rw [ensureProps_getD] at h3
      rw [coreOf_ensureProps] at h4
      have hl : live f = false := by unfold live; simp [ha]
      have hal : alwaysLive f = false := by unfold alwaysLive; simp [hl]
      simp only [hl, hal, Bool.false_eq_true, if_false]
      exact ⟨h1, h2, h3, h4⟩
    | false =>
      rw [ha] at h
      simp only [Bool.false_eq_true, if_false] at h
      obtain ⟨⟨n1, st1⟩, hstep, h⟩ := Res.bind_eq_ok h
      simp only at h
      obtain ⟨h1, h2, h3, h4⟩ := structLoopE_lists rest hno' hnd' h
      have hlive := live_of_not_anonymous ha
      rcases fieldStepE_ok hstep with ⟨ho, rfl, rfl⟩ | ⟨ho, st2, hr, rfl, rfl⟩ | ⟨ho, fid, st2, hr, rfl, _⟩
      · rw [ensureProps_order] at h1
        rw [ensureProps_required] at h2
        rw [ensureProps_getD] at h3
        rw [coreOf_ensureProps] at h4
        have hl : live f = false := by rw [hlive, ho]; rfl
        have hal : alwaysLive f = false := by unfold alwaysLive; simp [hl]
        simp only [hl, hal, Bool.false_eq_true, if_false]
        exact ⟨h1, h2, h3, h4⟩
      · have hl : live f = true := by rw [hlive, ho]; rfl
        exact (hnd f List.mem_cons_self hl _ _ hr).elim
      · have hl : live f = true := by rw [hlive, ho]; rfl
        have hinfo := fieldJSONInfoE_of_live hl
        rw [hinfo] at h1 h2 h3 h4
        simp only [hl, if_true]
        refine ⟨?_, ?_, ?_, ?_⟩
        · rw [h1]
          simp only [addFieldE, ensureProps_order, Option.getD_some, List.append_assoc, List.singleton_append, jsonNameOf]
        · rw [h2]
          unfold alwaysLive
          simp only [addFieldE, ensureProps_required, hl, Bool.true_and, jsonNameOf]
          cases he : (fieldJSONInfo f.goName f.tag).omitempty <;> cases hz : (fieldJSONInfo f.goName f.tag).omitzero <;> simp
        · intro k
          rw [h3]
          simp only [addFieldE, ensureProps_getD, Option.getD_some, List.map_append,
            List.mem_append, List.mem_map, List.mem_filter, List.mem_cons, List.map_cons, List.map_nil,
            List.not_mem_nil, or_false, jsonNameOf]
          constructor
          · rintro ((⟨p, ⟨hp, _⟩, rfl⟩ | h) | h)
            · exact Or.inl ⟨p, hp, rfl⟩
            · exact Or.inr (Or.inl h)
            · exact Or.inr (Or.inr h)
          · rintro (⟨p, hp, rfl⟩ | h | h)
            · by_cases hk : p.1 = (fieldJSONInfo f.goName f.tag).name
              · exact Or.inl (Or.inr hk)
              · exact Or.inl (Or.inl ⟨p, ⟨hp, by simpa using hk⟩, rfl⟩)
            · exact Or.inl (Or.inr h)
            · exact Or.inr h
        · rw [h4]
          show coreOf (addField (ensureProps n) _ fid) = _
          rw [coreOf_addField, coreOf_ensureProps]

end Go
end JSV
