/-
  Refinement theorem: the operational evaluator (`Go.validateFuel`) computes the declarative
  validity relation (`Spec.evalFuel`) together with its evaluated sets.
-/
import JSV.Proofs.RefineObject
namespace JSV
namespace Refine
open Go GoVal
set_option linter.unusedSimpArgs false
set_option linter.unnecessarySimpa false

/-- keys of the `properties` map of every schema node are distinct (Go maps have unique keys) -/
def StoreWF (st : Store) : Prop :=
  ∀ s n, st.get? s = some n → (Json.nodupKeys ((n.properties.getD []).map (·.1))) = true

/-! ### algebra of `conj` -/

theorem union_empty_left (e : Spec.Ev) : Spec.Ev.union {} e = e := by
  simp [Spec.Ev.union]

theorem union_assoc (a b c : Spec.Ev) : (a.union b).union c = a.union (b.union c) := by
  simp [Spec.Ev.union, List.append_assoc]

theorem conj2_assoc (a b c : Spec.R) : conj2 (conj2 a b) c = conj2 a (conj2 b c) := by
  cases a <;> cases b <;> cases c <;> simp [conj2, union_assoc]

theorem conj_append (l1 l2 : List Spec.R) : Spec.conj (l1 ++ l2) = conj2 (Spec.conj l1) (Spec.conj l2) := by
  induction l1 with
  | nil =>
    rw [List.nil_append, conj_nil]
    cases Spec.conj l2 <;> simp [conj2, union_empty_left]
  | cons r l1 ih => rw [List.cons_append, conj_cons, conj_cons, ih, conj2_assoc]

theorem AnnsMatch_congr {j : Json} {a : Anns} {e e' : Spec.Ev} (h : AnnsMatch j a e)
    (hp : ∀ k, e.props.contains k = e'.props.contains k)
    (hi : ∀ i, e.items.contains i = e'.items.contains i) : AnnsMatch j a e' :=
  ⟨fun k hk => by rw [h.1 k hk, hp k], fun i hi' => by rw [h.2 i hi', hi i]⟩

theorem bind_okIf {β} (b : Bool) (f : Unit → Res β) : Res.bind (okIf b) f = if b = true then f () else .err := by
  cases b <;> rfl

/-! ### the Spec side of one step -/

/-- the end of `Spec.evalStep` once the twelve applicator keywords are defined -/
def specTail (R : Spec.R) (asserts : Bool) (ui up : Spec.Ev → Option Spec.R) : Spec.Out :=
  match R with
  | none => some none
  | some ev0 =>
    if !asserts then some none else
    match ui ev0, up ev0 with
    | some ri, some rp => some (Spec.conj [some ev0, ri, rp])
    | _, _ => none

theorem evalStep_defined (senv : Spec.Env) (srec : Spec.Rec) (scope0 : List NodeId) (s : NodeId) (j : Json) (n : Node)
    (hn : senv.st.get? s = some n) (hnd7 : (senv.draft == .d7 && n.ref != "") = false)
    {r1 r2 r3 r4 r5 r6 r7 r8 r9 r10 r11 r12 : Spec.R}
    (h1 : Spec.kwRef senv (srec (scope0 ++ [s])) s n j = some r1)
    (h2 : Spec.kwDynamicRef senv (srec (scope0 ++ [s])) (scope0 ++ [s]) s (Spec.vocab senv.draft n) j = some r2)
    (h3 : Spec.kwAllOf (srec (scope0 ++ [s])) n j = some r3)
    (h4 : Spec.kwAnyOf (srec (scope0 ++ [s])) n j = some r4)
    (h5 : Spec.kwOneOf (srec (scope0 ++ [s])) n j = some r5)
    (h6 : Spec.kwNot (srec (scope0 ++ [s])) n j = some r6)
    (h7 : Spec.kwIf (srec (scope0 ++ [s])) n j = some r7)
    (h8 : Spec.kwItems senv (srec (scope0 ++ [s])) n j = some r8)
    (h9 : Spec.kwContains (srec (scope0 ++ [s])) (Spec.vocab senv.draft n) j = some r9)
    (h10 : Spec.kwProps senv (srec (scope0 ++ [s])) n j = some r10)
    (h11 : Spec.kwPropertyNames (srec (scope0 ++ [s])) n j = some r11)
    (h12 : Spec.kwDependentSchemas senv (srec (scope0 ++ [s])) n j = some r12) :
    Spec.evalStep senv srec scope0 s j =
      specTail (Spec.conj [r1, r2, r3, r4, r5, r6, r7, r8, r9, r10, r11, r12])
        (Spec.typeOk n j && Spec.enumOk n j && Spec.constOk n j && Spec.numericOk n j && Spec.stringOk senv n j &&
          Spec.arrayLimitsOk n j && Spec.objectLimitsOk senv n j)
        (Spec.kwUnevaluatedItems (srec (scope0 ++ [s])) (Spec.vocab senv.draft n) j)
        (Spec.kwUnevaluatedProps (srec (scope0 ++ [s])) (Spec.vocab senv.draft n) j) := by
  unfold Spec.evalStep
  simp only [hn, hnd7, Bool.false_eq_true, if_false, h1, h2, h3, h4, h5, h6, h7, h8, h9, h10, h11, h12,
    Spec.sequence, Option.map_some]
  unfold specTail
  cases Spec.conj [r1, r2, r3, r4, r5, r6, r7, r8, r9, r10, r11, r12] with
  | none => rfl
  | some ev0 =>
    simp only
    split
    · rfl
    · cases Spec.kwUnevaluatedItems (srec (scope0 ++ [s])) (Spec.vocab senv.draft n) j ev0 <;>
        cases Spec.kwUnevaluatedProps (srec (scope0 ++ [s])) (Spec.vocab senv.draft n) j ev0 <;> rfl

theorem finish (j : Json) (a7 : Anns) (R17 R812 : Spec.R) (A1 A2 : Bool) (ui up : Spec.Ev → Option Spec.R)
    (T : Res Anns)
    (hm : ∀ e17, R17 = some e17 → AnnsMatch j a7 e17)
    (herr : R812 = none ∨ A2 = false → T = .err)
    (hok : ∀ e17 e, R17 = some e17 → R812 = some e → A2 = true →
        ∀ ri rp, ui (e17.union e) = some ri → up (e17.union e) = some rp →
          Blk j a7 (conj2 (some e) (conj2 ri rp)) T) :
    Rel j (specTail (conj2 R17 R812) (A1 && A2) ui up) (if (A1 && R17.isSome) = true then T else .err) := by
  cases R17 with
  | none => simp [specTail, Rel]
  | some e17 =>
    cases R812 with
    | none =>
      have := herr (Or.inl rfl)
      subst this
      simp [specTail, Rel]
    | some e =>
      cases A1 with
      | false => simp [specTail, Rel]
      | true =>
        cases A2 with
        | false =>
          have := herr (Or.inr rfl)
          subst this
          simp [specTail, Rel]
        | true =>
          simp only [conj2_some, specTail, Bool.and_self, Bool.not_true, Bool.false_eq_true, if_false,
            Option.isSome_some, if_true]
          cases hui : ui (e17.union e) with
          | none => simp [Rel]
          | some ri =>
            cases hup : up (e17.union e) with
            | none => simp [Rel]
            | some rp =>
              have hb := hok e17 e rfl rfl rfl ri rp hui hup
              simp only [conj_cons, conj_nil]
              cases ri with
              | none => simp only [conj2_none_right, conj2_none_left, Blk] at hb ⊢; subst hb; rfl
              | some ei =>
                cases rp with
                | none => simp only [conj2_none_right, conj2_none_left, Blk] at hb ⊢; subst hb; rfl
                | some ep =>
                  obtain ⟨a', rfl, hx⟩ := hb
                  refine ⟨a', rfl, ?_⟩
                  apply AnnsMatch_congr (AnnsMatch_of_Ext (hm e17 rfl) hx)
                  · intro k; simp [Spec.Ev.union, List.contains_append, Bool.or_assoc]
                  · intro k; simp [Spec.Ev.union, List.contains_append, Bool.or_assoc]

/-- the six in-place applicators after `$ref` -/
def inPlaceChain (env : VEnv) (rec : Go.Rec) (stack : List NodeId) (n : Node) (i : Info) (g : GoVal) (a0 : Anns) :
    Res Anns :=
  Res.bind (bDynamicRef env rec stack n (some i) g a0) fun a =>
  Res.bind (bAllOf rec stack n g a) fun a =>
  Res.bind (bAnyOf rec stack n g a) fun a =>
  Res.bind (bOneOf rec stack n g a) fun a =>
  Res.bind (bNot rec stack n g a) fun a =>
  bIf rec stack n g a

theorem validateStep_eq (env : VEnv) (rec : Go.Rec) (stack0 : List NodeId) (g : GoVal) (s : NodeId) (n : Node)
    (i : Info) (hn : env.st.get? s = some n) (hinfo : env.info? s = some i) :
    validateStep env rec stack0 g s =
      Res.bind (bRef env rec (stack0 ++ [s]) n (some i) (strip g)) fun p =>
        if p.2 = true then .ok p.1 else
        Res.bind (bType n (strip g)) fun _ =>
        Res.bind (bEnum n (strip g)) fun _ =>
        Res.bind (bConst n (strip g)) fun _ =>
        Res.bind (bNumeric n (strip g)) fun _ =>
        Res.bind (bString env n (some i) (strip g)) fun _ =>
        Res.bind (inPlaceChain env rec (stack0 ++ [s]) n i (strip g) p.1) fun a7 =>
        Res.bind (bArray env rec (stack0 ++ [s]) n (strip g) a7) fun a9 =>
        bObject env rec (stack0 ++ [s]) n (some i) (strip g) a9 := by
  unfold validateStep inPlaceChain
  simp only [hn, hinfo, Option.isNone_some, Bool.and_false, Bool.false_eq_true, if_false, bind_assoc]

theorem Blk_conj2_empty {j : Json} {a : Anns} {r : Spec.R} {m : Res Anns} (h : Blk j a r m) :
    Blk j a (conj2 r (some {})) m := by
  cases r with
  | none => exact h
  | some e =>
    obtain ⟨a', hm, hx⟩ := h
    refine ⟨a', hm, Ext_congr hx ?_ ?_⟩
    · intro k _; simp [Spec.Ev.union]
    · intro k _; simp [Spec.Ev.union]

section
variable {sub : NodeId → Json → Spec.Out} {rec : Go.Rec} {stack : List NodeId}
variable (H : SubRel sub rec stack) {j : Json} (hj : Json.WF j = true)
include H hj

theorem inPlaceChain_blk (env : VEnv) {s : NodeId} {i : Info} (hinfo : env.info? s = some i) (n : Node)
    (hlookup : ∀ name, dynLookup env name stack = .ok (Spec.dynTarget (specEnvOf env) stack name))
    {r2 r3 r4 r5 r6 r7 : Spec.R}
    (h2 : Spec.kwDynamicRef (specEnvOf env) sub stack s (Spec.vocab env.draft n) j = some r2)
    (h3 : Spec.kwAllOf sub n j = some r3) (h4 : Spec.kwAnyOf sub n j = some r4)
    (h5 : Spec.kwOneOf sub n j = some r5) (h6 : Spec.kwNot sub n j = some r6)
    (h7 : Spec.kwIf sub n j = some r7) (a0 : Anns) :
    Blk j a0 (Spec.conj [r2, r3, r4, r5, r6, r7]) (inPlaceChain env rec stack n i (ofJson j) a0) := by
  simp only [conj_cons, conj_nil]
  unfold inPlaceChain
  exact Blk_bind (bDynamicRef_blk H hj env hinfo n a0 hlookup h2) fun a =>
    Blk_bind (bAllOf_blk H hj n a h3) fun a =>
    Blk_bind (bAnyOf_blk H hj n a h4) fun a =>
    Blk_bind (bOneOf_blk H hj n a h5) fun a =>
    Blk_bind (bNot_blk H hj n a h6) fun a =>
    Blk_conj2_empty (bIf_blk H hj n a h7)

theorem prefix_spec (env : VEnv) {s : NodeId} {i : Info} (hinfo : env.info? s = some i) (n : Node)
    (hlookup : ∀ name, dynLookup env name stack = .ok (Spec.dynTarget (specEnvOf env) stack name))
    (hnd7 : (env.draft == .d7 && n.ref != "") = false)
    {r1 r2 r3 r4 r5 r6 r7 : Spec.R}
    (h1 : Spec.kwRef (specEnvOf env) sub s n j = some r1)
    (h2 : Spec.kwDynamicRef (specEnvOf env) sub stack s (Spec.vocab env.draft n) j = some r2)
    (h3 : Spec.kwAllOf sub n j = some r3) (h4 : Spec.kwAnyOf sub n j = some r4)
    (h5 : Spec.kwOneOf sub n j = some r5) (h6 : Spec.kwNot sub n j = some r6)
    (h7 : Spec.kwIf sub n j = some r7) :
    ∃ a7 : Anns, (∀ e17, Spec.conj [r1, r2, r3, r4, r5, r6, r7] = some e17 → AnnsMatch j a7 e17) ∧
      ∀ TAIL : Anns → Res Anns,
        (Res.bind (bRef env rec stack n (some i) (ofJson j)) fun p =>
          if p.2 = true then .ok p.1 else
          Res.bind (bType n (ofJson j)) fun _ =>
          Res.bind (bEnum n (ofJson j)) fun _ =>
          Res.bind (bConst n (ofJson j)) fun _ =>
          Res.bind (bNumeric n (ofJson j)) fun _ =>
          Res.bind (bString env n (some i) (ofJson j)) fun _ =>
          Res.bind (inPlaceChain env rec stack n i (ofJson j) p.1) TAIL)
        = if ((Spec.typeOk n j && Spec.enumOk n j && Spec.constOk n j && Spec.numericOk n j &&
                Spec.stringOk (specEnvOf env) n j) &&
              (Spec.conj [r1, r2, r3, r4, r5, r6, r7]).isSome) = true then TAIL a7 else .err := by
  -- `$ref`
  have hR : ∃ m : Res Anns, Blk j {} r1 m ∧
      bRef env rec stack n (some i) (ofJson j) = Res.bind m (fun anns => .ok (anns, false)) := by
    by_cases hr : n.ref = ""
    · refine ⟨.ok {}, ?_, by rw [bRef_noref env n _ hr]; rfl⟩
      have : r1 = some {} := by
        unfold Spec.kwRef Spec.inPlace at h1
        simpa [hr] using h1.symm
      rw [this]; exact Blk_ok j {}
    · obtain ⟨m, hb, he⟩ := bRef_spec H hj env hinfo n hr h1
      refine ⟨m, hb, ?_⟩
      have hd : (env.draft == Draft.d7) = false := by
        have : (n.ref != "") = true := by simp [hr]
        simpa [this] using hnd7
      rw [he]
      simp only [hd, Bool.false_eq_true, if_false]
  obtain ⟨m, hb1, hbref⟩ := hR
  have hP := inPlaceChain_blk H hj env hinfo n hlookup h2 h3 h4 h5 h6 h7
  rw [conj_cons r1]
  rw [hbref, bType_eq, bEnum_eq, bConst_eq, bNumeric_eq, bString_eq]
  cases r1 with
  | none =>
    simp only [Blk] at hb1
    subst hb1
    refine ⟨{}, fun e h => by simp at h, fun TAIL => ?_⟩
    simp
  | some e1 =>
    obtain ⟨a0, rfl, hx0⟩ := hb1
    have hm0 : AnnsMatch j a0 e1 := AnnsMatch_of_Ext_empty hx0
    have hP0 := hP a0
    cases hc : Spec.conj [r2, r3, r4, r5, r6, r7] with
    | none =>
      rw [hc] at hP0
      simp only [Blk] at hP0
      refine ⟨{}, fun e h => by simp at h, fun TAIL => ?_⟩
      simp only [Res.bind_ok, Bool.false_eq_true, if_false, bind_okIf, hP0, Res.bind_err, conj2_none_right,
        Option.isSome_none, Bool.and_false]
      cases Spec.typeOk n j <;> cases Spec.enumOk n j <;> cases Spec.constOk n j <;> cases Spec.numericOk n j <;>
        cases Spec.stringOk (specEnvOf env) n j <;> rfl
    | some e27 =>
      rw [hc] at hP0
      obtain ⟨a7, ha7, hx7⟩ := hP0
      refine ⟨a7, ?_, fun TAIL => ?_⟩
      · intro e17 he
        simp only [conj2_some, Option.some.injEq] at he
        subst he
        exact AnnsMatch_of_Ext hm0 hx7
      · simp only [Res.bind_ok, Bool.false_eq_true, if_false, bind_okIf, ha7, conj2_some, Option.isSome_some,
          Bool.and_true]
        cases Spec.typeOk n j <;> cases Spec.enumOk n j <;> cases Spec.constOk n j <;> cases Spec.numericOk n j <;>
          cases Spec.stringOk (specEnvOf env) n j <;> rfl

end


/-- equal verdicts, equal evaluated sets as sets -/
def REqv (r r' : Spec.R) : Prop :=
  match r, r' with
  | none, none => True
  | some e, some e' =>
    (∀ k, e.props.contains k = e'.props.contains k) ∧ (∀ i, e.items.contains i = e'.items.contains i)
  | _, _ => False

theorem Blk_congr {j : Json} {a : Anns} {r r' : Spec.R} {m : Res Anns} (h : Blk j a r m) (hr : REqv r r') :
    Blk j a r' m := by
  cases r with
  | none => cases r' with
    | none => exact h
    | some e' => simp [REqv] at hr
  | some e => cases r' with
    | none => simp [REqv] at hr
    | some e' =>
      obtain ⟨a', hm, hx⟩ := h
      exact ⟨a', hm, Ext_congr hx (fun k _ => hr.1 k) (fun i _ => hr.2 i)⟩

theorem bind_ok_right {α} (m : Res α) : Res.bind m .ok = m := by cases m <;> rfl

section
variable {sub : NodeId → Json → Spec.Out} {rec : Go.Rec} {stack : List NodeId}
variable (H : SubRel sub rec stack)
include H

theorem tail_arr (env : VEnv) (hwf : EnvWF env) (n : Node) (i : Info) (xs : List Json)
    (hj : Json.WF (.arr xs) = true) (a7 : Anns) {r8 r9 r10 r11 r12 : Spec.R}
    (h8 : Spec.kwItems (specEnvOf env) sub n (.arr xs) = some r8)
    (h9 : Spec.kwContains sub (Spec.vocab env.draft n) (.arr xs) = some r9)
    (h10 : Spec.kwProps (specEnvOf env) sub n (.arr xs) = some r10)
    (h11 : Spec.kwPropertyNames sub n (.arr xs) = some r11)
    (h12 : Spec.kwDependentSchemas (specEnvOf env) sub n (.arr xs) = some r12) :
    (Spec.conj [r8, r9, r10, r11, r12] = none ∨
        (Spec.arrayLimitsOk n (.arr xs) && Spec.objectLimitsOk (specEnvOf env) n (.arr xs)) = false →
      (Res.bind (bArray env rec stack n (ofJson (.arr xs)) a7) fun a9 =>
        bObject env rec stack n (some i) (ofJson (.arr xs)) a9) = .err) ∧
    (∀ e17 e, AnnsMatch (.arr xs) a7 e17 → Spec.conj [r8, r9, r10, r11, r12] = some e →
      (Spec.arrayLimitsOk n (.arr xs) && Spec.objectLimitsOk (specEnvOf env) n (.arr xs)) = true →
      ∀ ri rp, Spec.kwUnevaluatedItems sub (Spec.vocab env.draft n) (.arr xs) (e17.union e) = some ri →
        Spec.kwUnevaluatedProps sub (Spec.vocab env.draft n) (.arr xs) (e17.union e) = some rp →
        Blk (.arr xs) a7 (conj2 (some e) (conj2 ri rp))
          (Res.bind (bArray env rec stack n (ofJson (.arr xs)) a7) fun a9 =>
            bObject env rec stack n (some i) (ofJson (.arr xs)) a9)) := by
  have hO : (fun a9 => bObject env rec stack n (some i) (ofJson (.arr xs)) a9) = Res.ok := by
    funext a; simp [ofJson, bObject]
  rw [hO, bind_ok_right]
  have e10 : r10 = some {} := by simpa [Spec.kwProps] using h10.symm
  have e11 : r11 = some {} := by simpa [Spec.kwPropertyNames] using h11.symm
  have e12 : r12 = some {} := by simpa [Spec.kwDependentSchemas] using h12.symm
  have hOL : Spec.objectLimitsOk (specEnvOf env) n (.arr xs) = true := by simp [Spec.objectLimitsOk]
  subst e10 e11 e12
  rw [hOL, Bool.and_true]
  obtain ⟨herr, hok⟩ := bArray_spec H env hwf n xs hj a7 h8 h9
  constructor
  · intro h
    apply herr
    rcases r8 with _ | e8 <;> rcases r9 with _ | e9 <;> simpa [conj_cons, conj_nil] using h
  · intro e17 e hm he hA ri rp hui hup
    have hrp : rp = some {} := by simpa [Spec.kwUnevaluatedProps] using hup.symm
    subst hrp
    rcases r8 with _ | e8
    · simp [conj_cons] at he
    rcases r9 with _ | e9
    · simp [conj_cons] at he
    simp only [conj_cons, conj_nil, conj2_some, Option.some.injEq] at he
    subst he
    have := hok (e8.union e9) rfl hA e17 hm _ ri
      (fun i _ => by simp [Spec.Ev.union, List.contains_append]) hui
    apply Blk_congr this
    cases ri <;> simp [REqv, conj2, Spec.Ev.union, List.contains_append]

theorem tail_obj (env : VEnv) (n : Node) (i : Info) (kvs : List (String × Json))
    (hj : Json.WF (.obj kvs) = true) (hpnd : ((n.properties.getD []).map (·.1)).Nodup) (a7 : Anns)
    {r8 r9 r10 r11 r12 : Spec.R}
    (h8 : Spec.kwItems (specEnvOf env) sub n (.obj kvs) = some r8)
    (h9 : Spec.kwContains sub (Spec.vocab env.draft n) (.obj kvs) = some r9)
    (h10 : Spec.kwProps (specEnvOf env) sub n (.obj kvs) = some r10)
    (h11 : Spec.kwPropertyNames sub n (.obj kvs) = some r11)
    (h12 : Spec.kwDependentSchemas (specEnvOf env) sub n (.obj kvs) = some r12) :
    (Spec.conj [r8, r9, r10, r11, r12] = none ∨
        (Spec.arrayLimitsOk n (.obj kvs) && Spec.objectLimitsOk (specEnvOf env) n (.obj kvs)) = false →
      (Res.bind (bArray env rec stack n (ofJson (.obj kvs)) a7) fun a9 =>
        bObject env rec stack n (some i) (ofJson (.obj kvs)) a9) = .err) ∧
    (∀ e17 e, AnnsMatch (.obj kvs) a7 e17 → Spec.conj [r8, r9, r10, r11, r12] = some e →
      (Spec.arrayLimitsOk n (.obj kvs) && Spec.objectLimitsOk (specEnvOf env) n (.obj kvs)) = true →
      ∀ ri rp, Spec.kwUnevaluatedItems sub (Spec.vocab env.draft n) (.obj kvs) (e17.union e) = some ri →
        Spec.kwUnevaluatedProps sub (Spec.vocab env.draft n) (.obj kvs) (e17.union e) = some rp →
        Blk (.obj kvs) a7 (conj2 (some e) (conj2 ri rp))
          (Res.bind (bArray env rec stack n (ofJson (.obj kvs)) a7) fun a9 =>
            bObject env rec stack n (some i) (ofJson (.obj kvs)) a9)) := by
  have hA : bArray env rec stack n (ofJson (.obj kvs)) a7 = .ok a7 := by simp [ofJson, bArray]
  rw [hA, Res.bind_ok]
  have e8 : r8 = some {} := by simpa [Spec.kwItems] using h8.symm
  have e9 : r9 = some {} := by simpa [Spec.kwContains] using h9.symm
  have hAL : Spec.arrayLimitsOk n (.obj kvs) = true := by simp [Spec.arrayLimitsOk]
  subst e8 e9
  rw [hAL, Bool.true_and]
  obtain ⟨herr, hok⟩ := bObject_spec H env i n kvs hj hpnd a7 h10 h11 h12
  constructor
  · intro h
    apply herr
    rcases r10 with _ | e10 <;> rcases r11 with _ | e11 <;> rcases r12 with _ | e12 <;>
      simpa [conj_cons, conj_nil] using h
  · intro e17 e hm he hOL ri rp hui hup
    have hri : ri = some {} := by simpa [Spec.kwUnevaluatedItems] using hui.symm
    subst hri
    rcases r10 with _ | e10
    · simp [conj_cons] at he
    rcases r11 with _ | e11
    · simp [conj_cons] at he
    rcases r12 with _ | e12
    · simp [conj_cons] at he
    simp only [conj_cons, conj_nil, conj2_some, Option.some.injEq] at he
    subst he
    have := hok _ rfl hOL e17 hm _ rp
      (fun i _ => by simp [Spec.Ev.union, List.contains_append]) hup
    apply Blk_congr this
    cases rp <;> simp [REqv, conj2, Spec.Ev.union, List.contains_append]

omit H in
theorem tail_other (env : VEnv) (n : Node) (i : Info) (j : Json) (hna : ∀ xs, j ≠ .arr xs) (hno : ∀ kvs, j ≠ .obj kvs)
    (a7 : Anns) {r8 r9 r10 r11 r12 : Spec.R}
    (h8 : Spec.kwItems (specEnvOf env) sub n j = some r8)
    (h9 : Spec.kwContains sub (Spec.vocab env.draft n) j = some r9)
    (h10 : Spec.kwProps (specEnvOf env) sub n j = some r10)
    (h11 : Spec.kwPropertyNames sub n j = some r11)
    (h12 : Spec.kwDependentSchemas (specEnvOf env) sub n j = some r12) :
    (Spec.conj [r8, r9, r10, r11, r12] = none ∨
        (Spec.arrayLimitsOk n j && Spec.objectLimitsOk (specEnvOf env) n j) = false →
      (Res.bind (bArray env rec stack n (ofJson j) a7) fun a9 =>
        bObject env rec stack n (some i) (ofJson j) a9) = .err) ∧
    (∀ e17 e, AnnsMatch j a7 e17 → Spec.conj [r8, r9, r10, r11, r12] = some e →
      (Spec.arrayLimitsOk n j && Spec.objectLimitsOk (specEnvOf env) n j) = true →
      ∀ ri rp, Spec.kwUnevaluatedItems sub (Spec.vocab env.draft n) j (e17.union e) = some ri →
        Spec.kwUnevaluatedProps sub (Spec.vocab env.draft n) j (e17.union e) = some rp →
        Blk j a7 (conj2 (some e) (conj2 ri rp))
          (Res.bind (bArray env rec stack n (ofJson j) a7) fun a9 =>
            bObject env rec stack n (some i) (ofJson j) a9)) := by
  have hA : bArray env rec stack n (ofJson j) a7 = .ok a7 := by
    cases j <;> simp [ofJson, bArray] at hna ⊢
  have hO : bObject env rec stack n (some i) (ofJson j) a7 = .ok a7 := by
    cases j <;> simp [ofJson, bObject] at hno ⊢
  rw [hA, Res.bind_ok, hO]
  have e8 : r8 = some {} := by cases j <;> simp [Spec.kwItems] at hna h8 ⊢ <;> exact h8.symm
  have e9 : r9 = some {} := by cases j <;> simp [Spec.kwContains] at hna h9 ⊢ <;> exact h9.symm
  have e10 : r10 = some {} := by cases j <;> simp [Spec.kwProps] at hno h10 ⊢ <;> exact h10.symm
  have e11 : r11 = some {} := by cases j <;> simp [Spec.kwPropertyNames] at hno h11 ⊢ <;> exact h11.symm
  have e12 : r12 = some {} := by cases j <;> simp [Spec.kwDependentSchemas] at hno h12 ⊢ <;> exact h12.symm
  have hAL : Spec.arrayLimitsOk n j = true := by cases j <;> simp [Spec.arrayLimitsOk] at hna ⊢
  have hOL : Spec.objectLimitsOk (specEnvOf env) n j = true := by cases j <;> simp [Spec.objectLimitsOk] at hno ⊢
  subst e8 e9 e10 e11 e12
  rw [hAL, hOL]
  constructor
  · intro h; simp [conj_cons, conj_nil] at h
  · intro e17 e hm he _ ri rp hui hup
    have hri : ri = some {} := by cases j <;> simp [Spec.kwUnevaluatedItems] at hna hui ⊢ <;> exact hui.symm
    have hrp : rp = some {} := by cases j <;> simp [Spec.kwUnevaluatedProps] at hno hup ⊢ <;> exact hup.symm
    subst hri hrp
    simp only [conj_cons, conj_nil, conj2_some, Option.some.injEq] at he
    subst he
    refine ⟨a7, rfl, ?_⟩
    apply Ext_congr (Ext_refl j a7)
    · intro k _; simp [Spec.Ev.union]
    · intro k _; simp [Spec.Ev.union]

end

theorem evalStep_undefined (senv : Spec.Env) (srec : Spec.Rec) (scope0 : List NodeId) (s : NodeId) (j : Json) (n : Node)
    (hn : senv.st.get? s = some n) (hnd7 : (senv.draft == .d7 && n.ref != "") = false)
    (h : Spec.sequence [Spec.kwRef senv (srec (scope0 ++ [s])) s n j,
      Spec.kwDynamicRef senv (srec (scope0 ++ [s])) (scope0 ++ [s]) s (Spec.vocab senv.draft n) j,
      Spec.kwAllOf (srec (scope0 ++ [s])) n j, Spec.kwAnyOf (srec (scope0 ++ [s])) n j,
      Spec.kwOneOf (srec (scope0 ++ [s])) n j, Spec.kwNot (srec (scope0 ++ [s])) n j,
      Spec.kwIf (srec (scope0 ++ [s])) n j, Spec.kwItems senv (srec (scope0 ++ [s])) n j,
      Spec.kwContains (srec (scope0 ++ [s])) (Spec.vocab senv.draft n) j, Spec.kwProps senv (srec (scope0 ++ [s])) n j,
      Spec.kwPropertyNames (srec (scope0 ++ [s])) n j,
      Spec.kwDependentSchemas senv (srec (scope0 ++ [s])) n j] = none) :
    Spec.evalStep senv srec scope0 s j = none := by
  unfold Spec.evalStep
  simp only [hn, hnd7, Bool.false_eq_true, if_false, h]

/-- one step of the evaluator refines one step of the Spec, given the same for the recursive calls -/
theorem step_refines (env : VEnv) (hwf : EnvWF env) (hst : StoreWF env.st) (srec : Spec.Rec) (rec : Go.Rec)
    (IH : ∀ stack, StackOK env stack → SubRel (srec stack) rec stack) :
    ∀ stack0, StackOK env stack0 →
      SubRel (Spec.evalStep (specEnvOf env) srec stack0) (validateStep env rec) stack0 := by
  intro stack0 hstk s j g hj hg
  have hst' : (specEnvOf env).st = env.st := rfl
  cases hn : env.st.get? s with
  | none =>
    have : Spec.evalStep (specEnvOf env) srec stack0 s j = none := by
      unfold Spec.evalStep; simp only [hst', hn]
    rw [this]; trivial
  | some n =>
    obtain ⟨i, hinfo⟩ := Option.isSome_iff_exists.1 (hwf.info_total s n hn)
    have hstk' : StackOK env (stack0 ++ [s]) := by
      intro x hx
      rcases List.mem_append.1 hx with h | h
      · exact hstk x h
      · have : x = s := by simpa using h
        subst this; simp [hinfo]
    have H := IH (stack0 ++ [s]) hstk'
    have hlookup := fun name => dynLookup_eq env hwf name (stack0 ++ [s]) hstk'
    have hpnd : ((n.properties.getD []).map (·.1)).Nodup := Json.nodupKeys_iff.1 (hst s n hn)
    rw [validateStep_eq env rec stack0 g s n i hn hinfo, hg]
    by_cases hd7 : (env.draft == .d7 && n.ref != "") = true
    · -- draft-07 `$ref`: every other member is ignored
      have hev : Spec.evalStep (specEnvOf env) srec stack0 s j =
          (Spec.kwRef (specEnvOf env) (srec (stack0 ++ [s])) s n j).map fun r => r.map fun _ => {} := by
        unfold Spec.evalStep
        simp only [hst', hn]
        have : ((specEnvOf env).draft == Draft.d7 && n.ref != "") = true := hd7
        simp only [this, if_true]
      rw [hev]
      have hr : n.ref ≠ "" := by
        intro h; simp [h] at hd7
      have hd : (env.draft == Draft.d7) = true := by
        simp only [Bool.and_eq_true] at hd7; exact hd7.1
      cases h1 : Spec.kwRef (specEnvOf env) (srec (stack0 ++ [s])) s n j with
      | none => trivial
      | some r1 =>
        obtain ⟨m, hb, he⟩ := bRef_spec H hj env hinfo n hr h1
        rw [he]
        simp only [hd, if_true, bind_assoc, Res.bind_ok, Option.map_some]
        cases r1 with
        | none => simp only [Blk] at hb; subst hb; rfl
        | some e1 =>
          obtain ⟨a', rfl, _⟩ := hb
          exact ⟨{}, rfl, AnnsMatch_empty j⟩
    · have hnd7 : (env.draft == .d7 && n.ref != "") = false := by simpa using hd7
      cases hseq : Spec.sequence [Spec.kwRef (specEnvOf env) (srec (stack0 ++ [s])) s n j,
        Spec.kwDynamicRef (specEnvOf env) (srec (stack0 ++ [s])) (stack0 ++ [s]) s (Spec.vocab env.draft n) j,
        Spec.kwAllOf (srec (stack0 ++ [s])) n j, Spec.kwAnyOf (srec (stack0 ++ [s])) n j,
        Spec.kwOneOf (srec (stack0 ++ [s])) n j, Spec.kwNot (srec (stack0 ++ [s])) n j,
        Spec.kwIf (srec (stack0 ++ [s])) n j, Spec.kwItems (specEnvOf env) (srec (stack0 ++ [s])) n j,
        Spec.kwContains (srec (stack0 ++ [s])) (Spec.vocab env.draft n) j, Spec.kwProps (specEnvOf env) (srec (stack0 ++ [s])) n j,
        Spec.kwPropertyNames (srec (stack0 ++ [s])) n j,
        Spec.kwDependentSchemas (specEnvOf env) (srec (stack0 ++ [s])) n j] with
      | none =>
        rw [evalStep_undefined (specEnvOf env) srec stack0 s j n hn hnd7 hseq]; trivial
      | some rs =>
        obtain ⟨r1, rs1, h1, hs1, rfl⟩ := sequence_cons_eq_some hseq
        obtain ⟨r2, rs2, h2, hs2, rfl⟩ := sequence_cons_eq_some hs1
        obtain ⟨r3, rs3, h3, hs3, rfl⟩ := sequence_cons_eq_some hs2
        obtain ⟨r4, rs4, h4, hs4, rfl⟩ := sequence_cons_eq_some hs3
        obtain ⟨r5, rs5, h5, hs5, rfl⟩ := sequence_cons_eq_some hs4
        obtain ⟨r6, rs6, h6, hs6, rfl⟩ := sequence_cons_eq_some hs5
        obtain ⟨r7, rs7, h7, hs7, rfl⟩ := sequence_cons_eq_some hs6
        obtain ⟨r8, rs8, h8, hs8, rfl⟩ := sequence_cons_eq_some hs7
        obtain ⟨r9, rs9, h9, hs9, rfl⟩ := sequence_cons_eq_some hs8
        obtain ⟨r10, rs10, h10, hs10, rfl⟩ := sequence_cons_eq_some hs9
        obtain ⟨r11, rs11, h11, hs11, rfl⟩ := sequence_cons_eq_some hs10
        obtain ⟨r12, rs12, h12, hs12, rfl⟩ := sequence_cons_eq_some hs11
        rw [evalStep_defined (specEnvOf env) srec stack0 s j n hn hnd7 h1 h2 h3 h4 h5 h6 h7 h8 h9 h10 h11 h12]
        obtain ⟨a7, hm7, hpre⟩ := prefix_spec H hj env hinfo n hlookup hnd7 h1 h2 h3 h4 h5 h6 h7
        rw [hpre]
        have hsplit : [r1, r2, r3, r4, r5, r6, r7, r8, r9, r10, r11, r12]
            = [r1, r2, r3, r4, r5, r6, r7] ++ [r8, r9, r10, r11, r12] := rfl
        rw [hsplit, conj_append]
        have hA : (Spec.typeOk n j && Spec.enumOk n j && Spec.constOk n j && Spec.numericOk n j &&
              Spec.stringOk (specEnvOf env) n j && Spec.arrayLimitsOk n j && Spec.objectLimitsOk (specEnvOf env) n j)
            = ((Spec.typeOk n j && Spec.enumOk n j && Spec.constOk n j && Spec.numericOk n j &&
              Spec.stringOk (specEnvOf env) n j) &&
              (Spec.arrayLimitsOk n j && Spec.objectLimitsOk (specEnvOf env) n j)) := by
          simp only [Bool.and_assoc]
        rw [hA]
        have htail : (Spec.conj [r8, r9, r10, r11, r12] = none ∨
              (Spec.arrayLimitsOk n j && Spec.objectLimitsOk (specEnvOf env) n j) = false →
            (Res.bind (bArray env rec (stack0 ++ [s]) n (ofJson j) a7) fun a9 =>
              bObject env rec (stack0 ++ [s]) n (some i) (ofJson j) a9) = .err) ∧
          (∀ e17 e, AnnsMatch j a7 e17 → Spec.conj [r8, r9, r10, r11, r12] = some e →
            (Spec.arrayLimitsOk n j && Spec.objectLimitsOk (specEnvOf env) n j) = true →
            ∀ ri rp, Spec.kwUnevaluatedItems (srec (stack0 ++ [s])) (Spec.vocab env.draft n) j (e17.union e) = some ri →
              Spec.kwUnevaluatedProps (srec (stack0 ++ [s])) (Spec.vocab env.draft n) j (e17.union e) = some rp →
              Blk j a7 (conj2 (some e) (conj2 ri rp))
                (Res.bind (bArray env rec (stack0 ++ [s]) n (ofJson j) a7) fun a9 =>
                  bObject env rec (stack0 ++ [s]) n (some i) (ofJson j) a9)) := by
          by_cases hna : ∃ xs, j = .arr xs
          · obtain ⟨xs, rfl⟩ := hna
            exact tail_arr H env hwf n i xs hj a7 h8 h9 h10 h11 h12
          · by_cases hno : ∃ kvs, j = .obj kvs
            · obtain ⟨kvs, rfl⟩ := hno
              exact tail_obj H env n i kvs hj hpnd a7 h8 h9 h10 h11 h12
            · exact tail_other env n i j (fun xs h => hna ⟨xs, h⟩) (fun kvs h => hno ⟨kvs, h⟩) a7 h8 h9 h10 h11 h12
        exact finish j a7 _ _ _ _ _ _ _ hm7 htail.1
          (fun e17 e he17 he hA2 ri rp hui hup => htail.2 e17 e (hm7 e17 he17) he hA2 ri rp hui hup)

/-- the strengthened induction statement -/
theorem validateFuel_refines (env : VEnv) (hwf : EnvWF env) (hst : StoreWF env.st) :
    ∀ (fuel : Nat) (stack : List NodeId), StackOK env stack →
      SubRel (Spec.evalFuel (specEnvOf env) fuel stack) (validateFuel env fuel) stack
  | 0, _, _ => fun _ _ _ _ _ => trivial
  | fuel + 1, stack, hstk =>
    step_refines env hwf hst (Spec.evalFuel (specEnvOf env) fuel) (validateFuel env fuel)
      (fun st h => validateFuel_refines env hwf hst fuel st h) stack hstk

/-- **Refinement theorem.**  Whenever the declarative Spec decides (with some fuel), the evaluator run on the
    canonical Go representation of the instance returns an error exactly when the Spec says invalid, and otherwise
    returns annotations denoting exactly the Spec's evaluated properties / items.

    Added hypothesis `hstack`: every schema on the caller's stack has a resolution record (`$dynamicRef` walks
    the stack and dereferences these records; `Validate` starts with the empty stack and only pushes schemas
    that exist in the store, for which `EnvWF.info_total` gives the record). -/
theorem validate_refines_spec (env : VEnv) (hwf : EnvWF env) (hst : StoreWF env.st) :
    ∀ (fuel : Nat) (stack : List NodeId), (∀ x, x ∈ stack → (env.info? x).isSome = true) →
      ∀ (s : NodeId) (j : Json), Json.WF j = true →
      Rel j (Spec.evalFuel (specEnvOf env) fuel stack s j)
            (Go.validateFuel env fuel stack (GoVal.ofJson j) s) :=
  fun fuel stack hstk s j hj => validateFuel_refines env hwf hst fuel stack hstk s j (ofJson j) hj (strip_ofJson j)

/-- at the entry point (empty stack) no extra hypothesis is needed -/
theorem validate_refines_spec_root (env : VEnv) (hwf : EnvWF env) (hst : StoreWF env.st)
    (fuel : Nat) (s : NodeId) (j : Json) (hj : Json.WF j = true) :
    Rel j (Spec.evalFuel (specEnvOf env) fuel [] s j) (Go.validateFuel env fuel [] (GoVal.ofJson j) s) :=
  validate_refines_spec env hwf hst fuel [] (fun _ h => nomatch h) s j hj


end Refine
end JSV
