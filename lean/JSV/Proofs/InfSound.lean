/-
  C04: the schema `forType` builds accepts the encoding of every value of the type
  (`Models.sound`), from the shape predicate `Go.Models` and the Spec's `evalStep` on the fragment.
-/
import JSV.Proofs.InfValid
import JSV.Proofs.InfModels
namespace JSV
namespace Spec
open Go (Draft)

/-- none of the assertion keywords outside the fragment is present -/
structure PlainA (n : Node) : Prop where
  enum : n.enum = none
  const : n.const = none
  multipleOf : n.multipleOf = none
  exclusiveMinimum : n.exclusiveMinimum = none
  exclusiveMaximum : n.exclusiveMaximum = none
  minLength : n.minLength = none
  maxLength : n.maxLength = none
  pattern : n.pattern = ""
  uniqueItems : n.uniqueItems = false
  minProperties : n.minProperties = none
  maxProperties : n.maxProperties = none
  dependentRequired : n.dependentRequired = none
  prefixItems : n.prefixItems = none
  patternProperties : n.patternProperties = none

/-- the assertions of the fragment, spelled out -/
theorem asserts_plain {env : Env} {n : Node} (hd : env.draft = .d2020) (A : PlainA n) (j : Json) :
    asserts env n j = true ↔
      typeOk n j = true ∧
      (∀ q, j = .num q → (∀ m, n.minimum = some m → m ≤ q) ∧ (∀ m, n.maximum = some m → q ≤ m)) ∧
      (∀ xs, j = .arr xs → (∀ m, n.minItems = some m → m ≤ (xs.length : Int)) ∧
                            (∀ m, n.maxItems = some m → (xs.length : Int) ≤ m)) ∧
      (∀ kvs, j = .obj kvs → ∀ k, k ∈ n.required.getD [] → (Json.lookup k kvs).isSome = true) := by
  unfold asserts enumOk constOk numericOk stringOk arrayLimitsOk objectLimitsOk
  simp only [A.enum, A.const, A.multipleOf, A.exclusiveMinimum, A.exclusiveMaximum, A.minLength, A.maxLength, A.pattern,
    A.uniqueItems, A.minProperties, A.maxProperties, A.dependentRequired, hd]
  cases j with
  | null => simp
  | bool b => simp
  | str s => simp
  | num q =>
    cases n.minimum <;> cases n.maximum <;> simp
  | arr xs =>
    cases n.minItems <;> cases n.maxItems <;> simp
  | obj kvs =>
    cases n.required <;> simp


theorem Plain.desc {m : Node} (P : Plain m) (d : String) : Plain { m with description := d } :=
  ⟨P.ref, P.dynamicRef, P.allOf, P.anyOf, P.oneOf, P.if_, P.contains, P.propertyNames, P.dependentSchemas,
   P.unevaluatedItems, P.unevaluatedProperties⟩

theorem PlainA.desc {m : Node} (A : PlainA m) (d : String) : PlainA { m with description := d } :=
  ⟨A.enum, A.const, A.multipleOf, A.exclusiveMinimum, A.exclusiveMaximum, A.minLength, A.maxLength, A.pattern,
   A.uniqueItems, A.minProperties, A.maxProperties, A.dependentRequired, A.prefixItems, A.patternProperties⟩

theorem Plain.addNull {m : Node} (P : Plain m) (an : Bool) : Plain (Go.addNull an m) := by
  unfold Go.addNull
  split
  · exact ⟨P.ref, P.dynamicRef, P.allOf, P.anyOf, P.oneOf, P.if_, P.contains, P.propertyNames, P.dependentSchemas,
      P.unevaluatedItems, P.unevaluatedProperties⟩
  · exact P

theorem PlainA.addNull {m : Node} (A : PlainA m) (an : Bool) : PlainA (Go.addNull an m) := by
  unfold Go.addNull
  split
  · exact ⟨A.enum, A.const, A.multipleOf, A.exclusiveMinimum, A.exclusiveMaximum, A.minLength, A.maxLength, A.pattern,
      A.uniqueItems, A.minProperties, A.maxProperties, A.dependentRequired, A.prefixItems, A.patternProperties⟩
  · exact A

theorem plain_basicNode (ty : String) (mn mx : Option Int) : Plain (Go.basicNode ty mn mx) ∧ PlainA (Go.basicNode ty mn mx) :=
  ⟨⟨rfl, rfl, rfl, rfl, rfl, rfl, rfl, rfl, rfl, rfl, rfl⟩, ⟨rfl, rfl, rfl, rfl, rfl, rfl, rfl, rfl, rfl, rfl, rfl, rfl, rfl, rfl⟩⟩

theorem plain_sliceNode (nfs : Bool) (eid : NodeId) : Plain (Go.sliceNode nfs eid) ∧ PlainA (Go.sliceNode nfs eid) := by
  cases nfs <;>
  exact ⟨⟨rfl, rfl, rfl, rfl, rfl, rfl, rfl, rfl, rfl, rfl, rfl⟩, ⟨rfl, rfl, rfl, rfl, rfl, rfl, rfl, rfl, rfl, rfl, rfl, rfl, rfl, rfl⟩⟩

theorem plain_arrayNode (len : Nat) (eid : NodeId) : Plain (Go.arrayNode len eid) ∧ PlainA (Go.arrayNode len eid) :=
  ⟨⟨rfl, rfl, rfl, rfl, rfl, rfl, rfl, rfl, rfl, rfl, rfl⟩, ⟨rfl, rfl, rfl, rfl, rfl, rfl, rfl, rfl, rfl, rfl, rfl, rfl, rfl, rfl⟩⟩

theorem plain_mapNode (eid : NodeId) : Plain (Go.mapNode eid) ∧ PlainA (Go.mapNode eid) :=
  ⟨⟨rfl, rfl, rfl, rfl, rfl, rfl, rfl, rfl, rfl, rfl, rfl⟩, ⟨rfl, rfl, rfl, rfl, rfl, rfl, rfl, rfl, rfl, rfl, rfl, rfl, rfl, rfl⟩⟩

theorem plain_structNode (falseId : NodeId) (props po rq) : Plain (Go.structNode falseId props po rq) ∧ PlainA (Go.structNode falseId props po rq) :=
  ⟨⟨rfl, rfl, rfl, rfl, rfl, rfl, rfl, rfl, rfl, rfl, rfl⟩, ⟨rfl, rfl, rfl, rfl, rfl, rfl, rfl, rfl, rfl, rfl, rfl, rfl, rfl, rfl⟩⟩

theorem plain_emptyNode : Plain Go.emptyNode ∧ PlainA Go.emptyNode :=
  ⟨⟨rfl, rfl, rfl, rfl, rfl, rfl, rfl, rfl, rfl, rfl, rfl⟩, ⟨rfl, rfl, rfl, rfl, rfl, rfl, rfl, rfl, rfl, rfl, rfl, rfl, rfl, rfl⟩⟩

theorem plain_falseNode (notId : NodeId) : Plain (Go.falseNode notId) ∧ PlainA (Go.falseNode notId) :=
  ⟨⟨rfl, rfl, rfl, rfl, rfl, rfl, rfl, rfl, rfl, rfl, rfl⟩, ⟨rfl, rfl, rfl, rfl, rfl, rfl, rfl, rfl, rfl, rfl, rfl, rfl, rfl, rfl⟩⟩

theorem valid_iff_isSome {o : Out} : Valid o ↔ o.map Option.isSome = some true := by
  unfold Valid
  rcases o with _ | _ | e <;> simp

/-- a node of the fragment accepts the instance iff its parts do -/
theorem evalFuel_frag {st : Store} {re : String → String → Bool} {id : NodeId} {m : Node} (hn : Go.HasNode st id m)
    (P : Plain m) (f : Nat) (scope : List NodeId) (j : Json) :
    Valid (evalFuel (specEnvNoRefs st re) (f + 1) scope id j) ↔
      (Valid (kwNot (evalFuel (specEnvNoRefs st re) f (scope ++ [id])) m j) ∧
       Valid (kwItems (specEnvNoRefs st re) (evalFuel (specEnvNoRefs st re) f (scope ++ [id])) m j) ∧
       Valid (kwProps (specEnvNoRefs st re) (evalFuel (specEnvNoRefs st re) f (scope ++ [id])) m j) ∧
       asserts (specEnvNoRefs st re) m j = true) := by
  obtain ⟨d, hd⟩ := hn
  rw [valid_iff_isSome]
  show (evalStep (specEnvNoRefs st re) (evalFuel (specEnvNoRefs st re) f) scope id j).map Option.isSome = some true ↔ _
  rw [evalStep_plain (n := { m with description := d }) rfl hd (P.desc d)]
  show (match kwNot (evalFuel (specEnvNoRefs st re) f (scope ++ [id])) m j,
      kwItems (specEnvNoRefs st re) (evalFuel (specEnvNoRefs st re) f (scope ++ [id])) m j,
      kwProps (specEnvNoRefs st re) (evalFuel (specEnvNoRefs st re) f (scope ++ [id])) m j with
      | some a, some b, some c => some (a.isSome && b.isSome && c.isSome && asserts (specEnvNoRefs st re) m j)
      | _, _, _ => none) = some true ↔ _
  generalize kwNot (evalFuel (specEnvNoRefs st re) f (scope ++ [id])) m j = a
  generalize kwItems (specEnvNoRefs st re) (evalFuel (specEnvNoRefs st re) f (scope ++ [id])) m j = b
  generalize kwProps (specEnvNoRefs st re) (evalFuel (specEnvNoRefs st re) f (scope ++ [id])) m j = c
  unfold Valid
  rcases a with _ | _ | a <;> rcases b with _ | _ | b <;> rcases c with _ | _ | c <;> simp


/-! ### `type` / `types` with and without `null` -/

theorem typeOk_addNull {m : Node} {j : Json} (an : Bool) (h : typeOk m j = true) : typeOk (Go.addNull an m) j = true := by
  unfold Go.addNull
  split
  · rename_i hc
    simp only [Bool.and_eq_true] at hc
    unfold typeOk at h ⊢
    simp only [hc.2, if_true] at h
    simp [h]
  · exact h

theorem typeOk_addNull_null {m : Node} (h : m.types = none ∨ ∃ ts, m.types = some ts ∧ "null" ∈ ts) :
    typeOk (Go.addNull true m) .null = true := by
  unfold Go.addNull
  split
  · simp [typeOk, typeMatches, Json.typeName]
  · rename_i hc
    have ht : m.type = "" := by simpa using hc
    unfold typeOk
    simp only [ht, bne_self_eq_false, Bool.false_eq_true, if_false]
    rcases h with h | ⟨ts, h, hm⟩
    · simp [h]
    · simp only [h, List.any_eq_true]
      exact ⟨"null", hm, by simp [typeMatches, Json.typeName]⟩

end Spec

namespace EncJson
open Go Spec

/-- the table: every integer kind has type "integer" and bounds that contain its value range -/
theorem int_table {k : String} {lo hi : Int} (h : intRange k = some (lo, hi)) :
    ∃ mn mx, kindEntry k = some ("integer", mn, mx) ∧ (∀ m, mn = some m → m ≤ lo) ∧ (∀ m, mx = some m → hi ≤ m) := by
  unfold intRange at h
  repeat' split at h
  all_goals first
    | (rename_i hk; subst hk; cases h; exact ⟨_, _, rfl, by decide, by decide⟩)
    | cases h


theorem addNull_fields (an : Bool) (m : Node) :
    (addNull an m).minimum = m.minimum ∧ (addNull an m).maximum = m.maximum ∧ (addNull an m).minItems = m.minItems ∧
    (addNull an m).maxItems = m.maxItems ∧ (addNull an m).required = m.required ∧ (addNull an m).items = m.items ∧
    (addNull an m).properties = m.properties ∧ (addNull an m).additionalProperties = m.additionalProperties ∧
    (addNull an m).not = m.not := by
  unfold addNull
  split <;> exact ⟨rfl, rfl, rfl, rfl, rfl, rfl, rfl, rfl, rfl⟩

theorem kw_addNull (env : Spec.Env) (sub : NodeId → Json → Out) (an : Bool) (m : Node) (j : Json) :
    kwNot sub (addNull an m) j = kwNot sub m j ∧ kwItems env sub (addNull an m) j = kwItems env sub m j ∧
    kwProps env sub (addNull an m) j = kwProps env sub m j := by
  unfold addNull
  split <;> exact ⟨rfl, rfl, rfl⟩

theorem basicNode_minimum (ty : String) (mn mx : Option Int) (m : Rat) :
    (basicNode ty mn mx).minimum = some m ↔ ∃ i, mn = some i ∧ m = (i : Rat) := by
  cases mn with
  | none => simp [basicNode]
  | some i =>
    show (some ((i : Int) : Rat) = some m) ↔ _
    simp only [Option.some.injEq, exists_eq_left']
    constructor
    · intro h; exact h.symm
    · intro h; exact h.symm

theorem basicNode_maximum (ty : String) (mn mx : Option Int) (m : Rat) :
    (basicNode ty mn mx).maximum = some m ↔ ∃ i, mx = some i ∧ m = (i : Rat) := by
  cases mx with
  | none => simp [basicNode]
  | some i =>
    show (some ((i : Int) : Rat) = some m) ↔ _
    simp only [Option.some.injEq, exists_eq_left']
    constructor
    · intro h; exact h.symm
    · intro h; exact h.symm


theorem basic_asserts {env : Spec.Env} (hd : env.draft = .d2020) {kind ty : String} {mn mx : Option Int}
    (hk : kindEntry kind = some (ty, mn, mx)) {v : GoValue} (hv : basicHasType kind v) (an : Bool) :
    asserts env (addNull an (basicNode ty mn mx)) (encode (.basic kind) v) = true := by
  rw [asserts_plain hd ((plain_basicNode ty mn mx).2.addNull an)]
  obtain ⟨h1, h2, h3, h4, h5, _⟩ := addNull_fields an (basicNode ty mn mx)
  rw [h1, h2, h3, h4, h5]
  cases v with
  | bool b =>
    have hkind : kind = "Bool" := hv
    subst hkind
    have : kindEntry "Bool" = some ("boolean", none, none) := by decide
    rw [this] at hk; cases hk
    simp only [encode]
    refine ⟨typeOk_addNull an (by simp [typeOk, basicNode, typeMatches, Json.typeName]), ?_, ?_, ?_⟩ <;>
      (intro _ h; cases h)
  | str s =>
    have hkind : kind = "String" := hv
    subst hkind
    have : kindEntry "String" = some ("string", none, none) := by decide
    rw [this] at hk; cases hk
    simp only [encode]
    refine ⟨typeOk_addNull an (by simp [typeOk, basicNode, typeMatches, Json.typeName]), ?_, ?_, ?_⟩ <;>
      (intro _ h; cases h)
  | float q =>
    have hkind : kind ∈ floatKinds := hv
    have hke : kindEntry kind = some ("number", none, none) := by
      simp only [floatKinds, List.mem_cons, List.not_mem_nil, or_false] at hkind
      rcases hkind with rfl | rfl <;> decide
    rw [hke] at hk; cases hk
    simp only [encode]
    refine ⟨typeOk_addNull an ?_, ?_, ?_, ?_⟩
    · by_cases hq : q.den = 1 <;> simp [typeOk, basicNode, typeMatches, Json.typeName, hq]
    · intro q' _
      exact ⟨fun m hm => by simp [basicNode] at hm, fun m hm => by simp [basicNode] at hm⟩
    · intro _ h; cases h
    · intro _ h; cases h
  | int i =>
    obtain ⟨lo, hi, hr, hlo, hhi⟩ : ∃ lo hi, intRange kind = some (lo, hi) ∧ lo ≤ i ∧ i ≤ hi := hv
    obtain ⟨mn', mx', hke, hmn, hmx⟩ := int_table hr
    rw [hke] at hk; cases hk
    simp only [encode]
    refine ⟨typeOk_addNull an (by simp [typeOk, basicNode, typeMatches, Json.typeName]), ?_, ?_, ?_⟩
    · intro q hq
      cases hq
      constructor
      · intro m hm
        obtain ⟨m0, rfl, rfl⟩ := (basicNode_minimum _ _ _ _).1 hm
        exact Rat.intCast_le_intCast.2 (Int.le_trans (hmn m0 rfl) hlo)
      · intro m hm
        obtain ⟨m0, rfl, rfl⟩ := (basicNode_maximum _ _ _ _).1 hm
        exact Rat.intCast_le_intCast.2 (Int.le_trans hhi (hmx m0 rfl))
    · intro _ h; cases h
    · intro _ h; cases h
  | iface j =>
    obtain ⟨hkind, _⟩ : kind = "Interface" ∧ Json.WF j = true := hv
    subst hkind
    have : kindEntry "Interface" = some ("", none, none) := by decide
    rw [this] at hk; cases hk
    simp only [encode]
    refine ⟨typeOk_addNull an (by simp [typeOk, basicNode]), ?_, ?_, ?_⟩
    · intro q' _
      exact ⟨fun m hm => by simp [basicNode] at hm, fun m hm => by simp [basicNode] at hm⟩
    · intro xs _
      exact ⟨fun m hm => by simp [basicNode] at hm, fun m hm => by simp [basicNode] at hm⟩
    · intro kvs _ k hk
      simp [basicNode] at hk
  | nilPtr => exact (hv : False).elim
  | ptr w => exact (hv : False).elim
  | nilSlice => exact (hv : False).elim
  | slice vs => exact (hv : False).elim
  | array vs => exact (hv : False).elim
  | map kvs => exact (hv : False).elim
  | struct vs => exact (hv : False).elim


/-- validity of a fragment node without `not`, from its parts -/
theorem frag_valid {st : Store} {re : String → String → Bool} {id : NodeId} {m : Node} (hn : HasNode st id m)
    (P : Plain m) (hnot : m.not = none) {f : Nat} {scope : List NodeId} {j : Json}
    (hi : Valid (kwItems (specEnvNoRefs st re) (evalFuel (specEnvNoRefs st re) f (scope ++ [id])) m j))
    (hp : Valid (kwProps (specEnvNoRefs st re) (evalFuel (specEnvNoRefs st re) f (scope ++ [id])) m j))
    (ha : asserts (specEnvNoRefs st re) m j = true) :
    Valid (evalFuel (specEnvNoRefs st re) (f + 1) scope id j) :=
  (evalFuel_frag hn P f scope j).2 ⟨⟨_, kwNot_none hnot j⟩, hi, hp, ha⟩

theorem frag_null {st : Store} {re : String → String → Bool} {id : NodeId} {m : Node} (hn : HasNode st id m)
    (P : Plain m) (A : PlainA m) (hnot : m.not = none) (ht : typeOk m .null = true) (f : Nat) (scope : List NodeId) :
    Valid (evalFuel (specEnvNoRefs st re) (f + 1) scope id .null) := by
  refine frag_valid hn P hnot ⟨_, kwItems_nonarr rfl⟩ ⟨_, kwProps_nonobj rfl⟩ ?_
  rw [asserts_plain rfl A]
  exact ⟨ht, (fun _ h => nomatch h), (fun _ h => nomatch h), (fun _ h => nomatch h)⟩

theorem kwProps_noprops {env : Spec.Env} {sub : NodeId → Json → Out} {n : Node} (A : PlainA n)
    (hp : n.properties = none) (hap : n.additionalProperties = none) (j : Json) : Valid (kwProps env sub n j) := by
  cases j with
  | obj kvs =>
    refine kwProps_obj_valid A.patternProperties fun p _ => ⟨fun t ht => ?_, fun _ t ht => ?_⟩
    · simp [hp] at ht
    · rw [hap] at ht; cases ht
  | _ => exact ⟨_, kwProps_nonobj rfl⟩

theorem exists_succ_of_pos {f : Nat} (h : 1 ≤ f) : ∃ f', f = f' + 1 := ⟨f - 1, by omega⟩

theorem depth_pos : ∀ T : GoType, 1 ≤ depth T
  | .basic _ => by simp [depth]
  | .ptr e => by simp only [depth]; exact depth_pos e
  | .slice e => by simp [depth]
  | .array _ e => by simp [depth]
  | .map _ e => by simp [depth]
  | .struct fs => by simp [depth]
  | .named _ u => by simp [depth]
  | .ref _ => by simp [depth]

/-- members written for the always-written fields -/
theorem encodeFields_required : ∀ (fields : List (String × String × GoType)) (vs : List GoValue),
    HasTypeFields fields vs → ∀ k, k ∈ alwaysNames fields → (Json.lookup k (encodeFields fields vs)).isSome = true
  | [], _, _, k, hk => by simp [alwaysNames] at hk
  | f :: rest, vs, hv, k, hk => by
    simp only [HasTypeFields] at hv
    cases vs with
    | nil => exact hv.elim
    | cons v vs' =>
      simp only at hv
      rw [alwaysNames_cons] at hk
      simp only [encodeFields]
      have ih := encodeFields_required rest vs' hv.2 k
      split at hk
      · split
        · exact ih hk
        · simp only [Json.lookup_cons]
          split
          · rfl
          · exact ih hk
      · rename_i hflags
        have hskip : fieldSkipped (fieldJSONInfo f.1 f.2.1) v = false := by
          simp only [Bool.or_eq_true, not_or, Bool.not_eq_true] at hflags
          simp [fieldSkipped, hflags.1.1, hflags.1.2, hflags.2]
        simp only [hskip, Bool.false_eq_true, if_false, Json.lookup_cons]
        rcases List.mem_cons.1 hk with rfl | hk
        · simp
        · split
          · rfl
          · exact ih hk

mutual
  /-- **the schema accepts every encoded value**, and `null` where a pointer was stripped -/
  theorem Models.sound {st : Store} {re : String → String → Bool} : ∀ (T : GoType) (an : Bool) (id : NodeId),
      Models true st T an id → ∀ (f : Nat) (scope : List NodeId), depth T ≤ f →
      (an = true → Valid (evalFuel (specEnvNoRefs st re) f scope id .null)) ∧
      ∀ v, HasType T v → Valid (evalFuel (specEnvNoRefs st re) f scope id (encode T v))
    | .basic kind, an, id, hm, f, scope, hf => by
      obtain ⟨f, rfl⟩ := exists_succ_of_pos (Nat.le_trans (depth_pos _) hf)
      simp only [Models] at hm
      obtain ⟨ty, mn, mx, hk, hn⟩ := hm
      have PA := plain_basicNode ty mn mx
      have hf := addNull_fields an (basicNode ty mn mx)
      refine ⟨fun han => ?_, fun v hv => ?_⟩
      · subst han
        exact frag_null hn (PA.1.addNull _) (PA.2.addNull _) (by rw [hf.2.2.2.2.2.2.2.2]; rfl)
          (typeOk_addNull_null (Or.inl rfl)) f scope
      · simp only [HasType] at hv
        refine frag_valid hn (PA.1.addNull _) (by rw [hf.2.2.2.2.2.2.2.2]; rfl) ?_ ?_ (basic_asserts rfl hk hv an)
        · exact kwItems_none rfl (PA.2.addNull _).prefixItems (by rw [hf.2.2.2.2.2.1]; rfl) _
        · exact kwProps_noprops (PA.2.addNull _) (by rw [hf.2.2.2.2.2.2.1]; rfl) (by rw [hf.2.2.2.2.2.2.2.1]; rfl) _
    | .ptr e, an, id, hm, f, scope, hf => by
      simp only [Models] at hm
      simp only [depth] at hf
      obtain ⟨h1, h2⟩ := Models.sound e true id hm f scope hf
      refine ⟨fun _ => h1 rfl, fun v hv => ?_⟩
      simp only [HasType] at hv
      cases v with
      | nilPtr => simp only [encode]; exact h1 rfl
      | ptr w => simp only [encode]; exact h2 w hv
      | _ => exact hv.elim
    | .slice e, an, id, hm, f, scope, hf => by
      obtain ⟨f, rfl⟩ := exists_succ_of_pos (Nat.le_trans (depth_pos _) hf)
      simp only [Models] at hm
      simp only [depth, Nat.add_le_add_iff_right] at hf
      obtain ⟨eid, he, hn⟩ := hm
      have PA := plain_sliceNode true eid
      have hfl := addNull_fields an (sliceNode true eid)
      have hnull : Valid (evalFuel (specEnvNoRefs st re) (f + 1) scope id .null) :=
        frag_null hn (PA.1.addNull _) (PA.2.addNull _) (by rw [hfl.2.2.2.2.2.2.2.2]; rfl)
          (typeOk_addNull an (by simp [typeOk, sliceNode, typeMatches, Json.typeName])) f scope
      refine ⟨fun _ => hnull, fun v hv => ?_⟩
      simp only [HasType] at hv
      cases v with
      | nilSlice => simp only [encode]; exact hnull
      | slice vs =>
        simp only [encode]
        simp only at hv
        refine frag_valid hn (PA.1.addNull _) (by rw [hfl.2.2.2.2.2.2.2.2]; rfl) ?_ ⟨_, kwProps_nonobj rfl⟩ ?_
        · refine kwItems_arr_valid rfl (PA.2.addNull _).prefixItems (eid := eid) (by rw [hfl.2.2.2.2.2.1]; rfl) ?_
          intro x hx
          obtain ⟨w, hw, rfl⟩ := List.mem_map.1 hx
          exact (Models.sound e false eid he f _ hf).2 w (hv w hw)
        · rw [asserts_plain rfl (PA.2.addNull _), hfl.2.2.1, hfl.2.2.2.1]
          refine ⟨typeOk_addNull an (by simp [typeOk, sliceNode, typeMatches, Json.typeName]),
            (fun _ h => nomatch h), fun xs _ => ?_, (fun _ h => nomatch h)⟩
          exact ⟨fun m hm => by simp [sliceNode] at hm, fun m hm => by simp [sliceNode] at hm⟩
      | _ => exact hv.elim
    | .array len e, an, id, hm, f, scope, hf => by
      obtain ⟨f, rfl⟩ := exists_succ_of_pos (Nat.le_trans (depth_pos _) hf)
      simp only [Models] at hm
      simp only [depth, Nat.add_le_add_iff_right] at hf
      obtain ⟨eid, he, hn⟩ := hm
      have PA := plain_arrayNode len eid
      have hfl := addNull_fields an (arrayNode len eid)
      refine ⟨fun han => ?_, fun v hv => ?_⟩
      · subst han
        exact frag_null hn (PA.1.addNull _) (PA.2.addNull _) (by rw [hfl.2.2.2.2.2.2.2.2]; rfl)
          (typeOk_addNull_null (Or.inl rfl)) f scope
      · simp only [HasType] at hv
        cases v with
        | array vs =>
          simp only [encode]
          simp only at hv
          refine frag_valid hn (PA.1.addNull _) (by rw [hfl.2.2.2.2.2.2.2.2]; rfl) ?_ ⟨_, kwProps_nonobj rfl⟩ ?_
          · refine kwItems_arr_valid rfl (PA.2.addNull _).prefixItems (eid := eid) (by rw [hfl.2.2.2.2.2.1]; rfl) ?_
            intro x hx
            obtain ⟨w, hw, rfl⟩ := List.mem_map.1 hx
            exact (Models.sound e false eid he f _ hf).2 w (hv.2 w hw)
          · rw [asserts_plain rfl (PA.2.addNull _), hfl.2.2.1, hfl.2.2.2.1]
            refine ⟨typeOk_addNull an (by simp [typeOk, arrayNode, typeMatches, Json.typeName]),
              (fun _ h => nomatch h), fun xs hxs => ?_, (fun _ h => nomatch h)⟩
            cases hxs
            simp only [arrayNode, Option.some.injEq, List.length_map, hv.1]
            exact ⟨fun m hm => by rw [← hm]; exact Int.le_refl _, fun m hm => by rw [← hm]; exact Int.le_refl _⟩
        | _ => exact hv.elim
    | .map kk e, an, id, hm, f, scope, hf => by
      obtain ⟨f, rfl⟩ := exists_succ_of_pos (Nat.le_trans (depth_pos _) hf)
      simp only [Models] at hm
      simp only [depth, Nat.add_le_add_iff_right] at hf
      obtain ⟨eid, he, hn⟩ := hm
      have PA := plain_mapNode eid
      have hfl := addNull_fields an (mapNode eid)
      refine ⟨fun han => ?_, fun v hv => ?_⟩
      · subst han
        exact frag_null hn (PA.1.addNull _) (PA.2.addNull _) (by rw [hfl.2.2.2.2.2.2.2.2]; rfl)
          (typeOk_addNull_null (Or.inl rfl)) f scope
      · simp only [HasType] at hv
        cases v with
        | map kvs =>
          simp only [encode]
          simp only at hv
          refine frag_valid hn (PA.1.addNull _) (by rw [hfl.2.2.2.2.2.2.2.2]; rfl) ⟨_, kwItems_nonarr rfl⟩ ?_ ?_
          · refine kwProps_obj_valid (PA.2.addNull _).patternProperties fun p hp => ⟨fun t ht => ?_, fun _ t ht => ?_⟩
            · rw [hfl.2.2.2.2.2.2.1] at ht
              simp [mapNode] at ht
            · rw [hfl.2.2.2.2.2.2.2.1] at ht
              have : t = eid := by simpa [mapNode] using ht.symm
              subst this
              obtain ⟨q, hq, rfl⟩ := List.mem_map.1 hp
              exact (Models.sound e false _ he f _ hf).2 q.2 (hv.2 q hq)
          · rw [asserts_plain rfl (PA.2.addNull _), hfl.2.2.2.2.1]
            refine ⟨typeOk_addNull an (by simp [typeOk, mapNode, typeMatches, Json.typeName]),
              (fun _ h => nomatch h), (fun _ h => nomatch h), fun kvs' _ k hk => ?_⟩
            simp [mapNode] at hk
        | _ => exact hv.elim
    | .struct fields, an, id, hm, f, scope, hf => by
      obtain ⟨f, rfl⟩ := exists_succ_of_pos (Nat.le_trans (depth_pos _) hf)
      simp only [Models] at hm
      simp only [depth, Nat.add_le_add_iff_right] at hf
      obtain ⟨notId, falseId, props, po, rq, _, _, hn, hrq, _, hmf⟩ := hm
      have PA := plain_structNode falseId props po rq
      have hfl := addNull_fields an (structNode falseId props po rq)
      refine ⟨fun han => ?_, fun v hv => ?_⟩
      · subst han
        exact frag_null hn (PA.1.addNull _) (PA.2.addNull _) (by rw [hfl.2.2.2.2.2.2.2.2]; rfl)
          (typeOk_addNull_null (Or.inl rfl)) f scope
      · simp only [HasType] at hv
        cases v with
        | struct vs =>
          simp only [encode]
          simp only at hv
          refine frag_valid hn (PA.1.addNull _) (by rw [hfl.2.2.2.2.2.2.2.2]; rfl) ⟨_, kwItems_nonarr rfl⟩ ?_ ?_
          · refine kwProps_obj_valid (PA.2.addNull _).patternProperties fun p hp => ?_
            obtain ⟨fid, hl, hv'⟩ := ModelsFields.sound fields (props.getD []) hmf f (scope ++ [id]) hf vs hv p hp
            rw [hfl.2.2.2.2.2.2.1]
            refine ⟨fun t ht => ?_, fun hnone => ?_⟩
            · have : (structNode falseId props po rq).properties.getD [] = props.getD [] := rfl
              rw [this, hl] at ht
              cases ht
              exact hv'
            · have : (structNode falseId props po rq).properties.getD [] = props.getD [] := rfl
              rw [this, hl] at hnone
              cases hnone
          · rw [asserts_plain rfl (PA.2.addNull _), hfl.2.2.2.2.1]
            refine ⟨typeOk_addNull an (by simp [typeOk, structNode, typeMatches, Json.typeName]),
              (fun _ h => nomatch h), (fun _ h => nomatch h), fun kvs' hk k hkr => ?_⟩
            cases hk
            have : (structNode falseId props po rq).required.getD [] = rq.getD [] := rfl
            rw [this, hrq] at hkr
            exact encodeFields_required fields vs hv k hkr
        | _ => exact hv.elim
    | .named _ u, an, id, hm, f, scope, hf => by
      simp only [Models] at hm
      simp only [depth] at hf
      obtain ⟨h1, h2⟩ := hm st (DExt.refl st) re f scope hf
      exact ⟨h1, fun v hv => by simp only [HasType] at hv; simp only [encode]; exact h2 v hv⟩
    | .ref _, _, _, hm, _, _, _ => by simp only [Models] at hm
  theorem ModelsFields.sound {st : Store} {re : String → String → Bool} : ∀ (fields : List (String × String × GoType))
      (props : List (String × NodeId)), ModelsFields true st fields props → ∀ (f : Nat) (scope : List NodeId),
      depthFields fields ≤ f → ∀ vs, HasTypeFields fields vs → ∀ p, p ∈ encodeFields fields vs →
      ∃ fid, Json.lookup p.1 props = some fid ∧ Valid (evalFuel (specEnvNoRefs st re) f scope fid p.2)
    | [], _, _, _, _, _, _, _, p, hp => by simp [encodeFields] at hp
    | g :: rest, props, hm, f, scope, hf, vs, hv, p, hp => by
      simp only [ModelsFields] at hm
      simp only [HasTypeFields] at hv
      simp only [depthFields, Nat.max_le] at hf
      cases vs with
      | nil => exact hv.elim
      | cons v vs' =>
        simp only at hv
        simp only [encodeFields] at hp
        have ih := ModelsFields.sound (re := re) rest props hm.2 f scope hf.2 vs' hv.2 p
        split at hp
        · exact ih hp
        · rename_i hskip
          rcases List.mem_cons.1 hp with rfl | hp
          · rcases hm.1 with ho | ⟨fid, hl, hmod⟩
            · simp [fieldSkipped, ho] at hskip
            · have hty : HasType g.2.2 v := by
                rcases hv.1 with ho | hty
                · simp [fieldSkipped, ho] at hskip
                · exact hty
              exact ⟨fid, hl, (Models.sound g.2.2 false fid hmod f scope hf.1).2 v hty⟩
          · exact ih hp
end

end EncJson
end JSV
