/-
  Helper definitions for C04 / C09: `Models nfs st T allowNull id` — the schema rooted at `id` in `st` is the
  schema `forType` builds for the type `T` of the fragment (up to the `description` fields, which the
  struct loop may set from `jsonschema` tags) — and the proof that `forType` produces it.
-/
import JSV.Proofs.InfEqns
import JSV.Proofs.InfValid
namespace JSV
namespace Go
open EncJson

/-- the node at `id` is `m`, up to its description -/
def HasNode (st : Store) (id : NodeId) (m : Node) : Prop :=
  ∃ d, st.get? id = some { m with description := d }

/-- every node is still there, unchanged up to its description -/
def DExt (st st' : Store) : Prop :=
  ∀ i n, st.get? i = some n → ∃ d, st'.get? i = some { n with description := d }

theorem DExt.refl (st : Store) : DExt st st := fun _ n h => ⟨n.description, h⟩

theorem DExt.trans {a b c : Store} (h₁ : DExt a b) (h₂ : DExt b c) : DExt a c := by
  intro i n hn
  obtain ⟨d, hd⟩ := h₁ i n hn
  obtain ⟨d', hd'⟩ := h₂ i _ hd
  exact ⟨d', hd'⟩

theorem Ext.toDExt {st st' : Store} (h : Ext st st') : DExt st st' :=
  fun _ n hn => ⟨n.description, h.get? hn⟩

theorem descSet_dext (st : Store) (fid : NodeId) (d : String) : DExt st (descSet st fid d) := by
  unfold descSet
  split
  · rename_i fn hfn
    intro i n hn
    by_cases hi : fid = i
    · subst hi
      rw [hfn] at hn
      cases hn
      exact ⟨d, get?_set!_self _ (lt_size_of_get? hfn)⟩
    · exact ⟨n.description, by rw [get?_set!_ne _ hi]; exact hn⟩
  · exact DExt.refl st

theorem HasNode.mono {st st' : Store} (h : DExt st st') {id : NodeId} {m : Node} (hn : HasNode st id m) :
    HasNode st' id m := by
  obtain ⟨d, hd⟩ := hn
  obtain ⟨d', hd'⟩ := h id _ hd
  exact ⟨d', hd'⟩

theorem HasNode.of_get {st : Store} {id : NodeId} {m : Node} (h : st.get? id = some m) : HasNode st id m :=
  ⟨m.description, h⟩

/-- a declared type `.named n u` at a position of the type (JSV/Proofs/InfTable.lean: a declared type that `forType`
    expands, or one with an entry in the type table, whose clone is the schema): what is recorded is the meaning of its
    schema, not the shape — in the store and in every later one (`DExt`) the node accepts the encoding of every value of
    the underlying type, and `null` where a pointer was stripped -/
def NamedLeaf (st : Store) (u : GoType) (an : Bool) (id : NodeId) : Prop :=
  ∀ st', DExt st st' → ∀ (re : String → String → Bool) (f : Nat) (scope : List NodeId), depth u + 1 ≤ f →
    (an = true → Spec.Valid (Spec.evalFuel (Spec.specEnvNoRefs st' re) f scope id .null)) ∧
    ∀ v, HasType u v → Spec.Valid (Spec.evalFuel (Spec.specEnvNoRefs st' re) f scope id (encode u v))

/-- the schema of a struct type -/
def structNode (falseId : NodeId) (props : Option (List (String × NodeId))) (po rq : Option (List String)) : Node :=
  { type := "object", additionalProperties := some falseId, properties := props, propertyOrder := po, required := rq }

mutual
  def Models (nfs : Bool) (st : Store) : GoType → Bool → NodeId → Prop
    | .basic kind, an, id => ∃ ty mn mx, kindEntry kind = some (ty, mn, mx) ∧ HasNode st id (addNull an (basicNode ty mn mx))
    | .ptr e, _, id => Models nfs st e true id
    | .slice e, an, id => ∃ eid, Models nfs st e false eid ∧ HasNode st id (addNull an (sliceNode nfs eid))
    | .array len e, an, id => ∃ eid, Models nfs st e false eid ∧ HasNode st id (addNull an (arrayNode len eid))
    | .map _ e, an, id => ∃ eid, Models nfs st e false eid ∧ HasNode st id (addNull an (mapNode eid))
    | .struct fields, an, id => ∃ notId falseId props po rq,
        HasNode st notId emptyNode ∧ HasNode st falseId (falseNode notId) ∧
        HasNode st id (addNull an (structNode falseId props po rq)) ∧
        rq.getD [] = alwaysNames fields ∧
        (∀ k, k ∈ (props.getD []).map (·.1) → k ∈ jsonNames fields) ∧
        ModelsFields nfs st fields (props.getD [])
    | .named _ u, an, id => NamedLeaf st u an id
    | .ref _, _, _ => False
  def ModelsFields (nfs : Bool) (st : Store) : List (String × String × GoType) → List (String × NodeId) → Prop
    | [], _ => True
    | f :: rest, props =>
      ((fieldJSONInfo f.1 f.2.1).omitted = true ∨
        ∃ fid, Json.lookup (fieldJSONInfo f.1 f.2.1).name props = some fid ∧ Models nfs st f.2.2 false fid) ∧
      ModelsFields nfs st rest props
end

mutual
  theorem Models.mono {nfs : Bool} {st st' : Store} (h : DExt st st') : ∀ (T : GoType) (an : Bool) (id : NodeId),
      Models nfs st T an id → Models nfs st' T an id
    | .basic kind, an, id, hm => by
      simp only [Models] at hm ⊢
      obtain ⟨ty, mn, mx, hk, hn⟩ := hm
      exact ⟨ty, mn, mx, hk, hn.mono h⟩
    | .ptr e, an, id, hm => by
      simp only [Models] at hm ⊢
      exact Models.mono h e true id hm
    | .slice e, an, id, hm => by
      simp only [Models] at hm ⊢
      obtain ⟨eid, he, hn⟩ := hm
      exact ⟨eid, Models.mono h e false eid he, hn.mono h⟩
    | .array len e, an, id, hm => by
      simp only [Models] at hm ⊢
      obtain ⟨eid, he, hn⟩ := hm
      exact ⟨eid, Models.mono h e false eid he, hn.mono h⟩
    | .map k e, an, id, hm => by
      simp only [Models] at hm ⊢
      obtain ⟨eid, he, hn⟩ := hm
      exact ⟨eid, Models.mono h e false eid he, hn.mono h⟩
    | .struct fields, an, id, hm => by
      simp only [Models] at hm ⊢
      obtain ⟨notId, falseId, props, po, rq, h1, h2, h3, h4, h5, h6⟩ := hm
      exact ⟨notId, falseId, props, po, rq, h1.mono h, h2.mono h, h3.mono h, h4, h5,
        ModelsFields.mono h fields _ h6⟩
    | .named _ u, an, id, hm => by
      simp only [Models] at hm ⊢
      exact fun st'' h' => hm st'' (h.trans h')
    | .ref _, _, _, hm => by simp only [Models] at hm
  theorem ModelsFields.mono {nfs : Bool} {st st' : Store} (h : DExt st st') : ∀ (fields : List (String × String × GoType))
      (props : List (String × NodeId)), ModelsFields nfs st fields props → ModelsFields nfs st' fields props
    | [], _, _ => by simp only [ModelsFields]
    | f :: rest, props, hm => by
      simp only [ModelsFields] at hm ⊢
      refine ⟨?_, ModelsFields.mono h rest props hm.2⟩
      rcases hm.1 with ho | ⟨fid, hl, hf⟩
      · exact Or.inl ho
      · exact Or.inr ⟨fid, hl, Models.mono h f.2.2 false fid hf⟩
end

/-! ## `forType` builds it -/

theorem stripPtrs_spec (nfs : Bool) : ∀ (T : GoType), ∃ t an, stripPtrs T = (t, an) ∧ (∀ e, t ≠ .ptr e) ∧
    InDomain t = InDomain T ∧ ∀ st b id, Models nfs st T b id ↔ Models nfs st t (b || an) id
  | .ptr e => by
    obtain ⟨t, an, h1, h2, h3, h4⟩ := stripPtrs_spec nfs e
    refine ⟨t, true, by simp only [stripPtrs, h1], h2, by rw [h3]; simp only [InDomain], fun st b id => ?_⟩
    simp only [Models, Bool.or_true]
    rw [h4 st true id]
    simp
  | .basic k => ⟨_, false, rfl, (fun _ h => nomatch h), rfl, fun _ _ _ => by simp⟩
  | .named n u => ⟨_, false, rfl, (fun _ h => nomatch h), rfl, fun _ _ _ => by simp⟩
  | .ref n => ⟨_, false, rfl, (fun _ h => nomatch h), rfl, fun _ _ _ => by simp⟩
  | .slice e => ⟨_, false, rfl, (fun _ h => nomatch h), rfl, fun _ _ _ => by simp⟩
  | .array n e => ⟨_, false, rfl, (fun _ h => nomatch h), rfl, fun _ _ _ => by simp⟩
  | .map k e => ⟨_, false, rfl, (fun _ h => nomatch h), rfl, fun _ _ _ => by simp⟩
  | .struct fs => ⟨_, false, rfl, (fun _ h => nomatch h), rfl, fun _ _ _ => by simp⟩

theorem lookup_filter_append_ne {k nm : String} {fid : NodeId} (h : k ≠ nm) : ∀ (l : List (String × NodeId)),
    Json.lookup k (l.filter (·.1 != nm) ++ [(nm, fid)]) = Json.lookup k l
  | [] => by simp [Json.lookup, h.symm]
  | (k', v) :: l => by
    by_cases hk : k' = nm
    · subst hk
      have : ¬ k' = k := fun e => h e.symm
      simp [Json.lookup_cons, this, lookup_filter_append_ne h l]
    · by_cases hkk : k' = k
      · subst hkk
        simp [hk, Json.lookup_cons]
      · simp [hk, Json.lookup_cons, hkk, lookup_filter_append_ne h l]

theorem lookup_filter_append_self (nm : String) (fid : NodeId) : ∀ (l : List (String × NodeId)),
    Json.lookup nm (l.filter (·.1 != nm) ++ [(nm, fid)]) = some fid
  | [] => by simp
  | (k', v) :: l => by
    by_cases hk : k' = nm
    · simp [hk, lookup_filter_append_self nm fid l]
    · simp [hk, Json.lookup_cons, lookup_filter_append_self nm fid l]

theorem lookup_none_of_not_mem {α} {k : String} : ∀ {l : List (String × α)}, k ∉ l.map (·.1) → Json.lookup k l = none
  | [], _ => rfl
  | (k', v) :: l, h => by
    simp only [List.map_cons, List.mem_cons, not_or] at h
    simp [Json.lookup_cons, Ne.symm h.1, lookup_none_of_not_mem h.2]

theorem mem_keys_of_lookup {α} {k : String} {v : α} : ∀ {l : List (String × α)}, Json.lookup k l = some v → k ∈ l.map (·.1)
  | (k', v') :: l, h => by
    simp only [Json.lookup_cons] at h
    split at h
    · rename_i hk; simp [hk]
    · exact List.mem_cons_of_mem _ (mem_keys_of_lookup h)

/-- what the loop needs of the recursive call, on the stores that satisfy `P` (an invariant of the run: `True`, or
    "the entries of the type table are still there") -/
def RecModels (P : Store → Prop) (nfs : Bool) (rec : IRec) (seen : List String)
    (fields : List (String × String × GoType)) : Prop :=
  ∀ f, f ∈ fields → (fieldJSONInfo f.1 f.2.1).omitted = false → ∀ st r st1, P st → rec f.2.2 seen st = .ok (r, st1) →
    ∃ fid, r = some fid ∧ Models nfs st1 f.2.2 false fid

theorem structLoop_models {P : Store → Prop} (hP : ∀ st st', P st → Ext st st' → P st') {nfs : Bool} {rec : IRec}
    (hinv : IRecInv rec) {seen : List String} :
    ∀ (fields : List (String × String × GoType)) {n : Node} {st : Store} {n' : Node} {st' : Store}, P st →
      RecModels P nfs rec seen fields → structLoop rec seen fields n st = .ok (n', st') →
      nodup (jsonNames fields) = true →
      (∀ k, k ∈ jsonNames fields → Json.lookup k (n.properties.getD []) = none) →
      ModelsFields nfs st' fields (n'.properties.getD []) ∧
      ∀ k t, Json.lookup k (n.properties.getD []) = some t → Json.lookup k (n'.properties.getD []) = some t
  | [], n, st, n', st', _, _, h, _, _ => by
    simp only [structLoop] at h
    cases h
    exact ⟨by simp only [ModelsFields], fun _ _ h => h⟩
  | (g, tag, ft) :: rest, n, st, n', st', hst, hrec, h, hnd, hfree => by
    have hrec' : RecModels P nfs rec seen rest := fun f hf => hrec f (List.mem_cons_of_mem _ hf)
    rw [jsonNames_cons] at hnd hfree
    simp only [ModelsFields]
    rcases structLoop_cons h with ⟨ho, h⟩ | ⟨ho', st1, h1, _⟩ | ⟨ho, fid, st1, st2, h1, hst2, h⟩
    · simp only [ho, if_true] at hnd hfree
      obtain ⟨hm, hk⟩ := structLoop_models hP hinv rest hst hrec' h hnd (by rw [ensureProps_getD]; exact hfree)
      rw [ensureProps_getD] at hk
      exact ⟨⟨Or.inl ho, hm⟩, hk⟩
    · obtain ⟨fid, hfid, _⟩ := hrec _ List.mem_cons_self ho' _ _ _ hst h1
      cases hfid
    · simp only [ho, Bool.false_eq_true, if_false, nodup, Bool.and_eq_true, Bool.not_eq_true'] at hnd hfree
      obtain ⟨fid', hfid, hmod⟩ := hrec _ List.mem_cons_self ho _ _ _ hst h1
      cases hfid
      have hnotin : (fieldJSONInfo g tag).name ∉ jsonNames rest := by
        have := hnd.1
        simpa using this
      have hfree' : ∀ k, k ∈ jsonNames rest →
          Json.lookup k ((addField (ensureProps n) (fieldJSONInfo g tag) fid).properties.getD []) = none := by
        intro k hk
        have hne : k ≠ (fieldJSONInfo g tag).name := fun e => hnotin (e ▸ hk)
        simp only [addField, Option.getD_some]
        rw [lookup_filter_append_ne hne, ensureProps_getD]
        exact hfree k (List.mem_cons_of_mem _ hk)
      obtain ⟨he1, hid1, _⟩ := hinv _ _ _ _ _ h1
      have hst2' : P st2 := by
        rcases hst2 with rfl | ⟨d, rfl⟩
        · exact hP _ _ hst he1
        · refine hP _ _ hst ?_
          unfold descSet
          split
          · exact he1.set! (hid1 fid rfl).1 _
          · exact he1
      obtain ⟨hm, hk⟩ := structLoop_models hP hinv rest hst2' hrec' h hnd.2 hfree'
      have hd12 : DExt st1 st2 := by
        rcases hst2 with rfl | ⟨d, rfl⟩
        · exact DExt.refl _
        · exact descSet_dext _ _ _
      have hd2 : DExt st2 st' := (structLoop_inv hinv seen _ _ _ _ _ h).1.toDExt
      refine ⟨⟨Or.inr ⟨fid, ?_, Models.mono (hd12.trans hd2) _ _ _ hmod⟩, hm⟩, ?_⟩
      · apply hk
        simp only [addField, Option.getD_some]
        exact lookup_filter_append_self _ _ _
      · intro k t hkt
        apply hk
        have hne : k ≠ (fieldJSONInfo g tag).name := fun e => by
          rw [e, hfree _ List.mem_cons_self] at hkt
          cases hkt
        simp only [addField, Option.getD_some]
        rw [lookup_filter_append_ne hne, ensureProps_getD]
        exact hkt


theorem kindEntry_domain {k : String} (h : domainKinds.contains k = true) : ∃ ty mn mx, kindEntry k = some (ty, mn, mx) := by
  have hall : ∀ k, k ∈ domainKinds → (kindEntry k).isSome = true := by decide
  have := hall k (by simpa using h)
  obtain ⟨⟨ty, mn, mx⟩, he⟩ := Option.isSome_iff_exists.1 this
  exact ⟨ty, mn, mx, he⟩

theorem node_of_core {n n' : Node} (h : coreOf n' = coreOf n) :
    n' = { n with properties := n'.properties, propertyOrder := n'.propertyOrder, required := n'.required } :=
  calc n' = { coreOf n' with properties := n'.properties, propertyOrder := n'.propertyOrder, required := n'.required } := rfl
    _ = { coreOf n with properties := n'.properties, propertyOrder := n'.propertyOrder, required := n'.required } := by rw [h]
    _ = _ := rfl

theorem inDomainFields_mem : ∀ {fields : List (String × String × GoType)}, inDomainFields fields = true →
    ∀ f, f ∈ fields → (fieldJSONInfo f.1 f.2.1).omitted = false → InDomain f.2.2 = true
  | [], _, _, hf, _ => nomatch hf
  | g :: rest, h, f, hf, ho => by
    simp only [inDomainFields, Bool.and_eq_true, Bool.or_eq_true] at h
    rcases List.mem_cons.1 hf with rfl | hf
    · rcases h.1 with h1 | h1
      · rw [ho] at h1; cases h1
      · exact h1
    · exact inDomainFields_mem h.2 f hf ho

/-- what is assumed of the recursive call on the domain -/
def RecOk (nfs : Bool) (rec : IRec) : Prop :=
  ∀ T seen st r st', InDomain T = true → rec T seen st = .ok (r, st') → ∃ id, r = some id ∧ Models nfs st' T false id

theorem inferStep_models (opts : IOpts) {rec : IRec} (hinv : IRecInv rec) (hrec : RecOk opts.nullForSlices rec) :
    RecOk opts.nullForSlices (inferStep opts rec) := by
  intro T seen st r st' hdomT h
  obtain ⟨t, an, hs, hnp, hdom, hmod⟩ := stripPtrs_spec opts.nullForSlices T
  rw [← hdom] at hdomT
  simp only [hmod, Bool.false_or]
  cases t with
  | ptr e => exact absurd rfl (hnp e)
  | named nm u => simp [InDomain] at hdomT
  | ref nm => simp [InDomain] at hdomT
  | basic kind =>
    simp only [InDomain] at hdomT
    obtain ⟨ty, mn, mx, hk⟩ := kindEntry_domain hdomT
    rw [inferStep_basic hs, hk] at h
    cases h
    refine ⟨_, rfl, ?_⟩
    simp only [Models]
    exact ⟨ty, mn, mx, hk, HasNode.of_get (get?_push_size _ _)⟩
  | slice e =>
    simp only [InDomain] at hdomT
    rw [inferStep_slice hs] at h
    obtain ⟨⟨es, st1⟩, he, h⟩ := Res.bind_eq_ok h
    obtain ⟨eid, rfl, hm⟩ := hrec _ _ _ _ _ hdomT he
    cases h
    refine ⟨_, rfl, ?_⟩
    simp only [Models]
    exact ⟨eid, Models.mono (Ext.push _ _).toDExt _ _ _ hm, HasNode.of_get (get?_push_size _ _)⟩
  | array len e =>
    simp only [InDomain] at hdomT
    rw [inferStep_array hs] at h
    obtain ⟨⟨es, st1⟩, he, h⟩ := Res.bind_eq_ok h
    obtain ⟨eid, rfl, hm⟩ := hrec _ _ _ _ _ hdomT he
    cases h
    refine ⟨_, rfl, ?_⟩
    simp only [Models]
    exact ⟨eid, Models.mono (Ext.push _ _).toDExt _ _ _ hm, HasNode.of_get (get?_push_size _ _)⟩
  | map keyKind e =>
    simp only [InDomain, Bool.and_eq_true, beq_iff_eq] at hdomT
    rw [inferStep_map hs] at h
    simp only [hdomT.1, bne_self_eq_false, Bool.false_eq_true, if_false] at h
    obtain ⟨⟨es, st1⟩, he, h⟩ := Res.bind_eq_ok h
    obtain ⟨eid, rfl, hm⟩ := hrec _ _ _ _ _ hdomT.2 he
    cases h
    refine ⟨_, rfl, ?_⟩
    simp only [Models]
    exact ⟨eid, Models.mono (Ext.push _ _).toDExt _ _ _ hm, HasNode.of_get (get?_push_size _ _)⟩
  | struct fields =>
    simp only [InDomain, Bool.and_eq_true] at hdomT
    obtain ⟨⟨hnd, _⟩, hdf⟩ := hdomT
    obtain ⟨n, st1, hl, rfl, rfl⟩ := inferStep_struct_ok hs h
    refine ⟨_, rfl, ?_⟩
    have hrm : RecModels (fun _ => True) opts.nullForSlices rec seen fields :=
      fun f hf ho s r s1 _ hr => hrec _ _ _ _ _ (inDomainFields_mem hdf f hf ho) hr
    have hndrop : NeverDrops rec seen fields := fun f hf ho s s1 hr => by
      obtain ⟨fid, hfid, _⟩ := hrm f hf ho s _ s1 trivial hr
      cases hfid
    obtain ⟨hmf, _⟩ := structLoop_models (P := fun _ => True) (fun _ _ _ _ => trivial) hinv fields trivial hrm hl hnd
      (fun _ _ => rfl)
    obtain ⟨_, hrq, hkeys⟩ := structLoop_lists fields hndrop hl
    have hcore := node_of_core (structLoop_core fields hl)
    have hext : Ext ((st.push emptyNode).push (falseNode st.size)) (st1.push (addNull an (finalOrder n))) :=
      (structLoop_inv hinv seen _ _ _ _ _ hl).1.trans (Ext.push _ _)
    have hnot : HasNode (st1.push (addNull an (finalOrder n))) st.size emptyNode := by
      refine HasNode.of_get (hext.get? ?_)
      rw [get?_push_lt _ (by rw [Array.size_push]; exact Nat.lt_succ_self _)]
      exact get?_push_size _ _
    have hfalse : HasNode (st1.push (addNull an (finalOrder n))) (st.size + 1) (falseNode st.size) := by
      refine HasNode.of_get (hext.get? ?_)
      have := get?_push_size (st.push emptyNode) (falseNode st.size)
      rwa [Array.size_push] at this
    simp only [Models]
    refine ⟨st.size, st.size + 1, n.properties, (finalOrder n).propertyOrder, n.required, hnot, hfalse, ?_, ?_, ?_,
      ModelsFields.mono (Ext.push _ _).toDExt _ _ hmf⟩
    · refine HasNode.of_get ?_
      rw [get?_push_size]
      congr 2
      have : finalOrder n = { n with propertyOrder := (finalOrder n).propertyOrder } := by
        unfold finalOrder
        split
        · split <;> rfl
        · rfl
      rw [this, hcore]
      rfl
    · rw [hrq]; rfl
    · intro k hk
      have := (hkeys k).1 hk
      simpa [structNode0] using this

theorem inferFuel_models (opts : IOpts) : ∀ fuel, RecOk opts.nullForSlices (inferFuel opts fuel)
  | 0 => fun _ _ _ _ _ _ h => by cases h
  | fuel + 1 => inferStep_models opts (inferFuel_inv opts fuel) (inferFuel_models opts fuel)

end Go
end JSV
