/-
  C13 helper file: invariants of the sharing protocol machine (JSV/Model/Conc.lean).
-/
import JSV.Model.Conc
namespace JSV
namespace C13
open JSV.Conc

set_option linter.unusedSectionVars false
variable {K V A R : Type} [DecidableEq K]

/-- every memo cell is empty or holds `f key` -/
def MemoInv (f : K → V) (memo : K → Option V) : Prop := ∀ k v, memo k = some v → v = f k

/-- every memo cell of the machine is empty or holds `f key` -/
def Inv (f : K → V) (m : Machine K V A R) : Prop := MemoInv f m.memo

/-- per-thread history invariant, "split" form: the thread's original call list is
    `pre ++ (the call in flight, if any) ++ todo`, and the results are the sequential results of `pre`. -/
def ThreadInv (f : K → V) (g : V → A → R) (calls : List (K × A)) (t : Thread K V A R) : Prop :=
  ∃ pre : List (K × A), t.results = sequential f g pre ∧
    match t.phase with
    | .idle => calls = pre ++ t.todo
    | .loaded k a hit => calls = pre ++ (k, a) :: t.todo ∧ (hit = none ∨ hit = some (f k))
    | .computed k a v => calls = pre ++ (k, a) :: t.todo ∧ v = f k

/-- the same invariant in the "take / drop" form of the task statement -/
def ThreadInvTD (f : K → V) (g : V → A → R) (calls : List (K × A)) (t : Thread K V A R) : Prop :=
  t.results = sequential f g (calls.take t.results.length) ∧
    match t.phase with
    | .idle => t.todo = calls.drop t.results.length
    | .loaded k a hit => t.todo = calls.drop (t.results.length + 1) ∧ calls[t.results.length]? = some (k, a) ∧
        (hit = none ∨ hit = some (f k))
    | .computed k a v => t.todo = calls.drop (t.results.length + 1) ∧ calls[t.results.length]? = some (k, a) ∧
        v = f k

theorem sequential_length (f : K → V) (g : V → A → R) (l : List (K × A)) :
    (sequential f g l).length = l.length := by simp [sequential]

theorem sequential_append (f : K → V) (g : V → A → R) (l₁ l₂ : List (K × A)) :
    sequential f g (l₁ ++ l₂) = sequential f g l₁ ++ sequential f g l₂ := by simp [sequential]

theorem sequential_nil (f : K → V) (g : V → A → R) : sequential f g [] = [] := rfl

theorem ThreadInv.toTD {f : K → V} {g : V → A → R} {calls : List (K × A)} {t : Thread K V A R}
    (h : ThreadInv f g calls t) : ThreadInvTD f g calls t := by
  obtain ⟨pre, hr, hp⟩ := h
  have hl : t.results.length = pre.length := by rw [hr, sequential_length]
  unfold ThreadInvTD
  rw [hl]
  cases hph : t.phase with
  | idle =>
    rw [hph] at hp
    simp only at hp ⊢
    subst hp
    simp [hr]
  | loaded k a hit =>
    rw [hph] at hp
    simp only at hp ⊢
    obtain ⟨hc, hh⟩ := hp
    subst hc
    refine ⟨by simp [hr], ?_, ?_, hh⟩
    · rw [List.drop_append]; simp
    · simp
  | computed k a v =>
    rw [hph] at hp
    simp only at hp ⊢
    obtain ⟨hc, hh⟩ := hp
    subst hc
    refine ⟨by simp [hr], ?_, ?_, hh⟩
    · rw [List.drop_append]; simp
    · simp

theorem ThreadInvTD.toSplit {f : K → V} {g : V → A → R} {calls : List (K × A)} {t : Thread K V A R}
    (h : ThreadInvTD f g calls t) : ThreadInv f g calls t := by
  obtain ⟨hr, hp⟩ := h
  refine ⟨calls.take t.results.length, hr, ?_⟩
  cases hph : t.phase with
  | idle =>
    rw [hph] at hp
    simp only at hp ⊢
    rw [hp, List.take_append_drop]
  | loaded k a hit =>
    rw [hph] at hp
    simp only at hp ⊢
    obtain ⟨h1, h2, h3⟩ := hp
    refine ⟨?_, h3⟩
    rw [h1]
    have : calls.drop t.results.length = (k, a) :: calls.drop (t.results.length + 1) := by
      rw [List.drop_eq_getElem?_toList_append, h2]; rfl
    rw [← this, List.take_append_drop]
  | computed k a v =>
    rw [hph] at hp
    simp only at hp ⊢
    obtain ⟨h1, h2, h3⟩ := hp
    refine ⟨?_, h3⟩
    rw [h1]
    have : calls.drop t.results.length = (k, a) :: calls.drop (t.results.length + 1) := by
      rw [List.drop_eq_getElem?_toList_append, h2]; rfl
    rw [← this, List.take_append_drop]

/-! ### one thread step -/

theorem stepThread_memoInv (f : K → V) (g : V → A → R) (memo : K → Option V) (t : Thread K V A R)
    (calls : List (K × A)) (hm : MemoInv f memo) (ht : ThreadInv f g calls t) :
    MemoInv f (stepThread f g memo t).1 := by
  obtain ⟨pre, hr, hp⟩ := ht
  unfold stepThread
  cases hph : t.phase with
  | idle =>
    cases htd : t.todo with
    | nil => exact hm
    | cons c rest => obtain ⟨k, a⟩ := c; exact hm
  | loaded k a hit =>
    cases hit with
    | none => exact hm
    | some v => exact hm
  | computed k a v =>
    rw [hph] at hp
    simp only at hp ⊢
    intro k' v' h
    by_cases hk : k' = k
    · simp [hk] at h
      rw [← h, hp.2, hk]
    · simp [hk] at h
      exact hm k' v' h

theorem stepThread_threadInv (f : K → V) (g : V → A → R) (memo : K → Option V) (t : Thread K V A R)
    (calls : List (K × A)) (hm : MemoInv f memo) (ht : ThreadInv f g calls t) :
    ThreadInv f g calls (stepThread f g memo t).2 := by
  obtain ⟨pre, hr, hp⟩ := ht
  unfold stepThread
  cases hph : t.phase with
  | idle =>
    rw [hph] at hp
    simp only at hp
    cases htd : t.todo with
    | nil => exact ⟨pre, hr, by rw [hph]; simpa using hp⟩
    | cons c rest =>
      obtain ⟨k, a⟩ := c
      refine ⟨pre, hr, ?_⟩
      simp only
      rw [htd] at hp
      refine ⟨hp, ?_⟩
      cases hmk : memo k with
      | none => exact Or.inl rfl
      | some v => exact Or.inr (by rw [hm k v hmk])
  | loaded k a hit =>
    rw [hph] at hp
    simp only at hp
    obtain ⟨hc, hh⟩ := hp
    cases hit with
    | none => exact ⟨pre, hr, hc, rfl⟩
    | some v =>
      refine ⟨pre ++ [(k, a)], ?_, ?_⟩
      · simp only
        rcases hh with hh | hh
        · cases hh
        · cases hh
          rw [hr, sequential_append]; rfl
      · simp only
        rw [hc]; simp
  | computed k a v =>
    rw [hph] at hp
    simp only at hp
    obtain ⟨hc, hv⟩ := hp
    refine ⟨pre ++ [(k, a)], ?_, ?_⟩
    · simp only
      rw [hr, sequential_append, hv]; rfl
    · simp only
      rw [hc]; simp

/-! ### setAt -/

theorem getElem?_setAt {α : Type} (l : List α) (n : Nat) (y : α) (i : Nat) :
    (setAt l n y)[i]? = if i = n then (l[i]?).map (fun _ => y) else l[i]? := by
  induction l generalizing n i with
  | nil => cases n <;> simp [setAt]
  | cons x xs ih =>
    cases n with
    | zero =>
      cases i with
      | zero => simp [setAt]
      | succ i => simp [setAt]
    | succ n =>
      cases i with
      | zero => simp [setAt]
      | succ i => simp [setAt, ih]

theorem length_setAt {α : Type} (l : List α) (n : Nat) (y : α) : (setAt l n y).length = l.length := by
  induction l generalizing n with
  | nil => cases n <;> rfl
  | cons x xs ih => cases n <;> simp [setAt, ih]

/-! ### machine steps -/

/-- the full machine invariant relative to the original call lists -/
def MInv (f : K → V) (g : V → A → R) (callss : List (List (K × A))) (m : Machine K V A R) : Prop :=
  Inv f m ∧ ∀ (i : Nat) t, m.threads[i]? = some t → ThreadInv f g (callss[i]?.getD []) t

theorem step_threads_get (f : K → V) (g : V → A → R) (m : Machine K V A R) (tid i : Nat) :
    (step f g m tid).threads[i]? =
      if i = tid then (m.threads[i]?).map (fun t => (stepThread f g m.memo t).2) else m.threads[i]? := by
  unfold step
  cases h : m.threads[tid]? with
  | none =>
    simp only
    by_cases hi : i = tid
    · subst hi; simp [h]
    · simp [hi]
  | some t =>
    simp only
    rw [getElem?_setAt]
    by_cases hi : i = tid
    · subst hi; simp [h]
    · simp [hi]

theorem step_memo (f : K → V) (g : V → A → R) (m : Machine K V A R) (tid : Nat) :
    (step f g m tid).memo = match m.threads[tid]? with
      | none => m.memo
      | some t => (stepThread f g m.memo t).1 := by
  unfold step
  cases h : m.threads[tid]? <;> rfl

theorem init_MInv (f : K → V) (g : V → A → R) (callss : List (List (K × A))) :
    MInv f g callss (init callss : Machine K V A R) := by
  refine ⟨fun k v h => by simp [init] at h, ?_⟩
  intro i t h
  simp only [init, List.getElem?_map] at h
  cases hc : callss[i]? with
  | none => rw [hc] at h; cases h
  | some cs =>
    rw [hc] at h
    simp only [Option.map_some, Option.some.injEq] at h
    subst h
    exact ⟨[], rfl, by simp⟩

theorem step_MInv (f : K → V) (g : V → A → R) (callss : List (List (K × A))) (m : Machine K V A R) (tid : Nat)
    (h : MInv f g callss m) : MInv f g callss (step f g m tid) := by
  obtain ⟨hm, ht⟩ := h
  refine ⟨?_, ?_⟩
  · unfold Inv
    rw [step_memo]
    cases hth : m.threads[tid]? with
    | none => exact hm
    | some t => exact stepThread_memoInv f g m.memo t _ hm (ht tid t hth)
  · intro i t hi
    rw [step_threads_get] at hi
    by_cases hit : i = tid
    · rw [if_pos hit] at hi
      cases hth : m.threads[i]? with
      | none => rw [hth] at hi; cases hi
      | some t0 =>
        rw [hth] at hi
        simp only [Option.map_some, Option.some.injEq] at hi
        subst hi
        exact stepThread_threadInv f g m.memo t0 _ hm (ht i t0 hth)
    · rw [if_neg hit] at hi
      exact ht i t hi

theorem run_MInv (f : K → V) (g : V → A → R) (callss : List (List (K × A))) (m : Machine K V A R)
    (sched : List Nat) (h : MInv f g callss m) : MInv f g callss (run f g m sched) := by
  induction sched generalizing m with
  | nil => exact h
  | cons tid rest ih => exact ih _ (step_MInv f g callss m tid h)

/-! ### progress measure -/

/-- number of own steps a thread still needs at most -/
def measure (t : Thread K V A R) : Nat :=
  3 * t.todo.length + (match t.phase with | .idle => 0 | .loaded _ _ _ => 2 | .computed _ _ _ => 1)

theorem measure_zero_done (t : Thread K V A R) (h : measure t = 0) : t.done := by
  unfold measure at h
  unfold Thread.done
  cases hph : t.phase with
  | idle =>
    rw [hph] at h
    simp only at h ⊢
    refine ⟨?_, trivial⟩
    cases htd : t.todo with
    | nil => rfl
    | cons c r => rw [htd] at h; simp at h
  | loaded k a hit => rw [hph] at h; simp only at h; omega
  | computed k a v => rw [hph] at h; simp only at h; omega

theorem measure_stepThread (f : K → V) (g : V → A → R) (memo : K → Option V) (t : Thread K V A R) :
    measure (stepThread f g memo t).2 ≤ measure t - 1 := by
  unfold stepThread
  cases hph : t.phase with
  | idle =>
    cases htd : t.todo with
    | nil => simp [measure, hph, htd]
    | cons c rest =>
      obtain ⟨k, a⟩ := c
      simp only [measure, hph, htd, List.length_cons]
      omega
  | loaded k a hit =>
    cases hit with
    | none => simp only [measure, hph]; omega
    | some v => simp only [measure, hph]; omega
  | computed k a v => simp only [measure, hph]; omega

theorem run_measure (f : K → V) (g : V → A → R) (m : Machine K V A R) (sched : List Nat) (i : Nat)
    (t : Thread K V A R) (h : m.threads[i]? = some t) :
    ∃ t', (run f g m sched).threads[i]? = some t' ∧ measure t' ≤ measure t - sched.count i := by
  induction sched generalizing m t with
  | nil => exact ⟨t, h, by simp⟩
  | cons tid rest ih =>
    have hs := step_threads_get f g m tid i
    by_cases hit : i = tid
    · rw [if_pos hit, h] at hs
      simp only [Option.map_some] at hs
      obtain ⟨t', h1, h2⟩ := ih (step f g m tid) _ hs
      refine ⟨t', h1, ?_⟩
      have := measure_stepThread f g m.memo t
      subst hit
      simp only [List.count_cons_self]
      omega
    · rw [if_neg hit, h] at hs
      obtain ⟨t', h1, h2⟩ := ih (step f g m tid) _ hs
      refine ⟨t', h1, ?_⟩
      have : (tid == i) = false := by simp; exact fun h => hit h.symm
      simp only [List.count_cons, this]
      simpa using h2

/-! ### source facts -/

/-- the identifier before the first '.', '[' (after a leading '*') -/
def rootOf (s : String) : String :=
  let cs := s.toList
  let cs := match cs with
    | '*' :: r => r
    | r => r
  String.ofList (cs.takeWhile fun c => c != '.' && c != '[')

end C13
end JSV
