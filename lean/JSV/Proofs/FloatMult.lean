/-
  C01, `multipleOf`: the float64 quotient of the code decides like exact division on the domain of the property.

  The code (validate.go) evaluates `multipleOf` by

      nf, _ := n.Float64()
      if _, f := math.Modf(nf / *schema.MultipleOf); f != 0 { error }

  i.e. "the correctly rounded quotient `fl (nf / m)` has no fractional part".  The model and the Spec divide exactly
  (`(q / m).den == 1`).  This file relates the two over an ABSTRACT rounding function `fl : Rat → Rat` of which only two
  facts are used:

    (R1)  |fl x − x| ≤ |x| / 2^53          (relative error of round-to-nearest with a 53-bit significand)
    (R2)  fl z = z for integers |z| ≤ 2^53   (these are representable)

  Main statement (`float_int_iff`): if the NUMERATOR of the exact quotient `q` (in lowest terms) is below 2^53 in
  magnitude, then `fl q` is an integer iff `q` is.  `|q.num| = |q| · q.den`, so "|q| < 2^k, q.den ≤ 2^d, k + d ≤ 53" is a
  special case (`multipleOf_float_exact`), and so is the generators' domain `D_mult` (`dmult_num_lt`: numerators below
  2^20, binary exponents in [−10, 10] give |q.num| < 2^40).  The bound is sharp for (R1), (R2): at `q = 2^53 / 3` a
  rounding that satisfies both may return an integer (`float_int_iff_sharp`), and the real float64 division does so at
  `2^55 / 3` (`rne53_counterexample`; `2^55` is in the pool of large numbers: this is why the harness leaves operations
  that combine `multipleOf` with operands ≥ 2^50 outside the property).

  Core Lean only (`Init.Data.Rat`).
-/
namespace JSV.FloatMult

/-- `x` is an integer -/
def IsInt (x : Rat) : Prop := ∃ z : Int, x = z

theorem isInt_iff_den (x : Rat) : IsInt x ↔ x.den = 1 := by
  constructor
  · rintro ⟨z, rfl⟩; rfl
  · intro h; exact ⟨x.num, Rat.ext rfl h⟩

instance (x : Rat) : Decidable (IsInt x) := decidable_of_iff _ (isInt_iff_den x).symm

/-! ## numerator, denominator, absolute value -/

theorem den_cast_pos (q : Rat) : (0 : Rat) < (q.den : Rat) := Rat.natCast_pos.2 q.den_pos

theorem mul_den (q : Rat) : q * (q.den : Rat) = (q.num : Rat) := by
  have h := Rat.mkRat_self q
  rw [Rat.mkRat_eq_div] at h
  have hd : (q.den : Rat) ≠ 0 := Rat.ne_of_gt (den_cast_pos q)
  grind

/-- `|q| · den q = |num q|` -/
theorem abs_mul_den (q : Rat) : q.abs * (q.den : Rat) = (q.num.natAbs : Rat) := by
  have h := mul_den q
  by_cases h0 : 0 ≤ q
  · rw [Rat.abs_of_nonneg h0, h]
    have : 0 ≤ q.num := Rat.num_nonneg.2 h0
    have e : ((q.num.natAbs : Int)) = q.num := Int.natAbs_of_nonneg this
    rw [← Rat.intCast_natCast, e]
  · have h1 : q ≤ 0 := Rat.le_of_lt (Rat.not_le.1 h0)
    rw [Rat.abs_of_nonpos h1, Rat.neg_mul, h]
    have : q.num < 0 := by
      have := mt (Rat.num_nonneg (q := q)).1 h0
      omega
    have e : ((q.num.natAbs : Int)) = -q.num := by omega
    rw [← Rat.intCast_natCast, e]; rfl

/-- a rational that is not the integer `z` is at distance at least `1 / den` from it -/
theorem one_le_dist (q : Rat) (z : Int) (h : q ≠ z) : 1 ≤ ((z : Rat) - q).abs * (q.den : Rat) := by
  have hm := mul_den q
  have hdp := den_cast_pos q
  have hw : ((z : Rat) - q) * (q.den : Rat) = ((z * q.den - q.num : Int) : Rat) := by
    rw [Rat.intCast_sub, Rat.intCast_mul, Rat.intCast_natCast]; grind
  have hne : z * q.den - q.num ≠ 0 := by
    intro h0
    apply h
    have : (z : Rat) * q.den = q.num := by
      have : q.num = z * q.den := by omega
      rw [this, Rat.intCast_mul, Rat.intCast_natCast]
    have hd : (q.den : Rat) ≠ 0 := Rat.ne_of_gt hdp
    grind
  generalize z * q.den - q.num = w at hw hne
  by_cases h0 : 0 ≤ (z : Rat) - q
  · rw [Rat.abs_of_nonneg h0, hw]
    have : (0 : Rat) ≤ w := by rw [← hw]; exact Rat.mul_nonneg h0 (Rat.le_of_lt hdp)
    have : 0 ≤ w := Rat.intCast_nonneg.1 this
    have : (1 : Int) ≤ w := by omega
    exact Rat.intCast_le_intCast.2 this
  · have h1 : (z : Rat) - q ≤ 0 := Rat.le_of_lt (Rat.not_le.1 h0)
    rw [Rat.abs_of_nonpos h1, Rat.neg_mul, hw]
    have : (w : Rat) ≤ 0 := by
      rw [← hw]
      have := Rat.mul_nonneg (Rat.neg_le_neg h1) (Rat.le_of_lt hdp)
      grind
    have : w ≤ 0 := Rat.intCast_nonpos.1 this
    have : (1 : Int) ≤ -w := by omega
    have := Rat.intCast_le_intCast.2 this
    simpa using this

theorem two_pow_cast (k : Nat) : ((2 ^ k : Nat) : Rat) = (2 : Rat) ^ k := by
  rw [Rat.natCast_pow]; rfl

theorem two_pow_pos (k : Nat) : (0 : Rat) < 2 ^ k := Rat.pow_pos (by decide)

/-! ## the two facts about the rounding -/

/-- (R1) relative error of round-to-nearest with 53 significant bits -/
def R1 (fl : Rat → Rat) : Prop := ∀ x : Rat, (fl x - x).abs ≤ x.abs / 2 ^ 53

/-- (R2) the integers up to 2^53 are representable -/
def R2 (fl : Rat → Rat) : Prop := ∀ z : Int, z.natAbs ≤ 2 ^ 53 → fl z = z

/-- the hypotheses are consistent (exact arithmetic satisfies them) … -/
theorem R1_id : R1 id := by
  intro x
  show (x - x).abs ≤ x.abs / 2 ^ 53
  rw [Rat.sub_self, Rat.abs_zero, Rat.div_def]
  exact Rat.mul_nonneg Rat.abs_nonneg (Rat.le_of_lt (Rat.inv_pos.2 (two_pow_pos 53)))
theorem R2_id : R2 id := fun _ _ => rfl

/-! ## the float quotient is an integer iff the exact quotient is -/

/-- **Main statement.**  If the numerator of `q` (in lowest terms) is below 2^53 in magnitude, the rounded `q` is an
    integer exactly when `q` is.
    (←) an integer below 2^53 is representable.  (→) a non-integer `q = a/b` is at distance ≥ 1/b from every integer while
    `|fl q − q| ≤ |q| / 2^53 = |a| / (b · 2^53) < 1/b`. -/
theorem float_int_iff (fl : Rat → Rat) (h1 : R1 fl) (h2 : R2 fl)
    (q : Rat) (hq : q.num.natAbs < 2 ^ 53) : IsInt (fl q) ↔ IsInt q := by
  constructor
  · rintro ⟨z, hz⟩
    apply Classical.byContradiction
    intro hni
    have hne : q ≠ z := fun h => hni ⟨z, h⟩
    have h1' := one_le_dist q z hne
    have h2' := h1 q
    rw [hz] at h2'
    have h3 := abs_mul_den q
    have h4 : (q.num.natAbs : Rat) < ((2 ^ 53 : Nat) : Rat) := Rat.natCast_lt_natCast.2 hq
    rw [two_pow_cast] at h4
    have hdp := den_cast_pos q
    have hp := two_pow_pos 53
    generalize ((z : Rat) - q).abs = e at h1' h2'
    generalize q.abs = a at h2' h3
    generalize (q.den : Rat) = b at *
    generalize (q.num.natAbs : Rat) = c at *
    generalize (2 : Rat) ^ 53 = P at *
    -- 1 ≤ e * b,  e ≤ a / P,  a * b = c,  c < P
    have h5 : e * P ≤ a := by
      have := Rat.mul_le_mul_of_nonneg_right h2' (Rat.le_of_lt hp)
      rwa [Rat.div_mul_cancel (Rat.ne_of_gt hp)] at this
    have h6 : e * P * b ≤ a * b := Rat.mul_le_mul_of_nonneg_right h5 (Rat.le_of_lt hdp)
    have h7 : 1 * P ≤ e * b * P := Rat.mul_le_mul_of_nonneg_right h1' (Rat.le_of_lt hp)
    grind
  · rintro ⟨z, hz⟩
    subst hz
    exact ⟨z, h2 z (Nat.le_of_lt hq)⟩

/-- `|q| < 2^k` and `den q ≤ 2^d` bound the numerator by `2^(k+d)` -/
theorem num_lt_of_bounds (q : Rat) (k d : Nat) (hk : q.abs < 2 ^ k) (hd : q.den ≤ 2 ^ d) :
    q.num.natAbs < 2 ^ (k + d) := by
  have h3 := abs_mul_den q
  have h1 : q.abs * (q.den : Rat) < 2 ^ k * (q.den : Rat) := Rat.mul_lt_mul_of_pos_right hk (den_cast_pos q)
  have h2 : (q.den : Rat) ≤ ((2 ^ d : Nat) : Rat) := Rat.natCast_le_natCast.2 hd
  have h4 : (2 : Rat) ^ k * (q.den : Rat) ≤ 2 ^ k * ((2 ^ d : Nat) : Rat) :=
    Rat.mul_le_mul_of_nonneg_left h2 (Rat.le_of_lt (two_pow_pos k))
  rw [h3] at h1
  have h5 : (q.num.natAbs : Rat) < ((2 ^ k * 2 ^ d : Nat) : Rat) := by
    rw [Rat.natCast_mul, two_pow_cast k]
    grind
  have := Rat.natCast_lt_natCast.1 h5
  rwa [← Nat.pow_add] at this

/-- **`multipleOf_float_exact`**: the form with a magnitude and a denominator bound.  (`k + d ≤ 52`, the form of the
    design document, is a special case.  The statement does not need `m ≠ 0`: Lean's `n / 0` is `0`.) -/
theorem multipleOf_float_exact (fl : Rat → Rat) (h1 : R1 fl) (h2 : R2 fl)
    (n m : Rat) (k d : Nat) (hk : (n / m).abs < 2 ^ k) (hd : (n / m).den ≤ 2 ^ d) (hkd : k + d ≤ 53) :
    (∃ z : Int, fl (n / m) = z) ↔ (∃ z : Int, n / m = z) :=
  float_int_iff fl h1 h2 (n / m)
    (Nat.lt_of_lt_of_le (num_lt_of_bounds _ k d hk hd) (Nat.pow_le_pow_right (by decide) hkd))

/-! ## `math.Modf` -/

/-- the fractional part returned by Go's `math.Modf`: the integer part is the truncation toward zero, the fractional part
    has the sign of the argument -/
def modfFrac (x : Rat) : Rat := x - ((if 0 ≤ x then x.floor else x.ceil : Int) : Rat)

theorem modfFrac_eq_zero_iff (x : Rat) : modfFrac x = 0 ↔ IsInt x := by
  constructor
  · intro h
    refine ⟨if 0 ≤ x then x.floor else x.ceil, ?_⟩
    unfold modfFrac at h
    grind
  · rintro ⟨z, rfl⟩
    unfold modfFrac
    rw [Rat.floor_intCast, Rat.ceil_intCast]
    split <;> exact Rat.sub_self

/-- the verdict of the code (`f == 0` after `math.Modf(fl(n/m))`) against the exact verdict `den (n/m) = 1` -/
theorem modf_verdict_exact (fl : Rat → Rat) (h1 : R1 fl) (h2 : R2 fl)
    (q : Rat) (hq : q.num.natAbs < 2 ^ 53) : modfFrac (fl q) = 0 ↔ q.den = 1 := by
  rw [modfFrac_eq_zero_iff, float_int_iff fl h1 h2 q hq, isInt_iff_den]

/-! ## the generators' domain `D_mult` -/

/-- the numerator of a quotient of integers in lowest terms is at most the numerator one started with -/
theorem num_div_le (x y : Int) : ((x : Rat) / (y : Rat)).num.natAbs ≤ x.natAbs := by
  rw [← Rat.divInt_eq_div, Rat.num_divInt]
  refine Nat.le_trans (Int.natAbs_ediv_le_natAbs _ _) ?_
  rw [Int.natAbs_mul]
  have : y.sign.natAbs ≤ 1 := by
    rcases Int.lt_trichotomy y 0 with h | h | h
    · rw [Int.sign_eq_neg_one_of_neg h]; decide
    · subst h; decide
    · rw [Int.sign_eq_one_of_pos h]; decide
  calc y.sign.natAbs * x.natAbs ≤ 1 * x.natAbs := Nat.mul_le_mul_right _ this
    _ = x.natAbs := Nat.one_mul _

/-- a dyadic operand `a · 2^e / 2^e'` (binary exponent `e − e'`) -/
def dy (a : Int) (e e' : Nat) : Rat := (a : Rat) * 2 ^ e / 2 ^ e'

/-- **`D_mult`**: an instance `a · 2^(e − e')` with `|a| < 2^20`, `e ≤ 10`, and a divisor `b · 2^(f − f')` with `f' ≤ 10`
    (the generators draw `|a|, |b| < 2^20`, `b ≠ 0` and all four exponents ≤ 10; only these three bounds matter for the
    quotient, the others make the operands themselves float64 values): the numerator of the quotient is below 2^40. -/
theorem dmult_num_lt (a b : Int) (e e' f f' : Nat) (ha : a.natAbs < 2 ^ 20) (he : e ≤ 10) (hf' : f' ≤ 10) :
    (dy a e e' / dy b f f').num.natAbs < 2 ^ 40 := by
  have hE : dy a e e' / dy b f f' =
      ((a * 2 ^ e * 2 ^ f' : Int) : Rat) / ((b * 2 ^ f * 2 ^ e' : Int) : Rat) := by
    unfold dy
    have h1 : (2 : Rat) ^ e' ≠ 0 := Rat.ne_of_gt (two_pow_pos e')
    have h2 : (2 : Rat) ^ f' ≠ 0 := Rat.ne_of_gt (two_pow_pos f')
    have h3 : (2 : Rat) ^ f ≠ 0 := Rat.ne_of_gt (two_pow_pos f)
    simp only [Rat.intCast_mul, Rat.intCast_pow]
    by_cases hb : (b : Rat) = 0
    · simp [hb, Rat.div_def]
    · show (a : Rat) * 2 ^ e / 2 ^ e' / ((b : Rat) * 2 ^ f / 2 ^ f') =
        (a : Rat) * 2 ^ e * 2 ^ f' / ((b : Rat) * 2 ^ f * 2 ^ e')
      grind
  rw [hE]
  refine Nat.lt_of_le_of_lt (num_div_le _ _) ?_
  rw [Int.natAbs_mul, Int.natAbs_mul, Int.natAbs_pow, Int.natAbs_pow]
  show a.natAbs * 2 ^ e * 2 ^ f' < 2 ^ 40
  have h1 : 2 ^ e ≤ 2 ^ 10 := Nat.pow_le_pow_right (by decide) he
  have h2 : 2 ^ f' ≤ 2 ^ 10 := Nat.pow_le_pow_right (by decide) hf'
  calc a.natAbs * 2 ^ e * 2 ^ f' ≤ a.natAbs * 2 ^ 10 * 2 ^ 10 := Nat.mul_le_mul (Nat.mul_le_mul_left _ h1) h2
    _ < 2 ^ 20 * 2 ^ 10 * 2 ^ 10 := by omega
    _ = 2 ^ 40 := by decide

/-- on `D_mult` the float verdict is the exact verdict -/
theorem dmult_float_exact (fl : Rat → Rat) (h1 : R1 fl) (h2 : R2 fl)
    (a b : Int) (e e' f f' : Nat) (ha : a.natAbs < 2 ^ 20) (he : e ≤ 10) (hf' : f' ≤ 10) :
    modfFrac (fl (dy a e e' / dy b f f')) = 0 ↔ (dy a e e' / dy b f f').den = 1 :=
  modf_verdict_exact fl h1 h2 _
    (Nat.lt_trans (dmult_num_lt a b e e' f f' ha he hf') (by decide))

/-! ## outside the domain -/

/-- `2^53 / 3 = 3002399751580330 + 2/3`; the integer above it is within the relative error (R1) allows -/
def sharpQ : Rat := 2 ^ 53 / 3

/-- a rounding that is exact everywhere except at `2^53 / 3`, which it sends to the next integer -/
def flSharp (x : Rat) : Rat := if x = sharpQ then 3002399751580331 else x

theorem flSharp_R1 : R1 flSharp := by
  intro x
  unfold flSharp
  split
  · next h => subst h; decide +kernel
  · exact R1_id x

theorem flSharp_R2 : R2 flSharp := by
  intro z _
  unfold flSharp
  rw [if_neg]
  intro h
  have h3 : ((z : Rat)).den = sharpQ.den := by rw [h]
  have h4 : sharpQ.den = 3 := by decide +kernel
  have h5 : ((z : Rat)).den = 1 := rfl
  rw [h4, h5] at h3
  exact absurd h3 (by decide)

/-- **The bound of `float_int_iff` is sharp for (R1), (R2)**: with numerator exactly 2^53 a rounding that satisfies both
    may produce an integer from a non-integer. -/
theorem float_int_iff_sharp :
    ∃ fl : Rat → Rat, R1 fl ∧ R2 fl ∧ ∃ q : Rat, q.num.natAbs = 2 ^ 53 ∧ IsInt (fl q) ∧ ¬ IsInt q := by
  refine ⟨flSharp, flSharp_R1, flSharp_R2, sharpQ, by decide +kernel, ⟨3002399751580331, ?_⟩, ?_⟩
  · unfold flSharp; rw [if_pos rfl]; rfl
  · rw [isInt_iff_den]; decide +kernel

/-! ### the real rounding: float64 round-to-nearest-even (normal range) as a function on rationals -/

/-- the nearest multiple of `u`, ties to the even multiple -/
def roundGrid (x u : Rat) : Rat :=
  let t := x / u
  let f := t.floor
  let r := t - (f : Rat)
  ((if r < 1/2 then f else if 1/2 < r then f + 1 else if f % 2 = 0 then f else f + 1 : Int) : Rat) * u

/-- the binade of `x ≠ 0`: `2^e ≤ |x| < 2^(e+1)` -/
def binade (x : Rat) : Int :=
  let e0 : Int := (x.num.natAbs.log2 : Int) - (x.den.log2 : Int)
  if x.abs < 2 ^ e0 then e0 - 1 else e0

/-- round to nearest even with a 53-bit significand (no overflow, no subnormals) -/
def rne53 (x : Rat) : Rat := if x = 0 then 0 else roundGrid x (2 ^ (binade x - 52))

/-- sanity: `0.1` becomes the float64 `0x3FB999999999999A`, `1/3` becomes `0x3FD5555555555555`, short dyadics and 2^53 are
    unchanged, `2^53 + 1` is a tie and goes to the even neighbour -/
example : rne53 (1 / 10) = 7205759403792794 / 2 ^ 56 := by decide +kernel
example : rne53 (1 / 3) = 6004799503160661 / 2 ^ 54 := by decide +kernel
example : rne53 (15 / 2) = 15 / 2 := by decide +kernel
example : rne53 (-3 / 1024) = -3 / 1024 := by decide +kernel
example : rne53 (2 ^ 53) = 2 ^ 53 := by decide +kernel
example : rne53 (2 ^ 53 + 1) = 2 ^ 53 := by decide +kernel
example : rne53 (2 ^ 53 + 3) = 2 ^ 53 + 4 := by decide +kernel

/-- **Counterexample outside the domain** (`n = 2^55 = 36028797018963968`, `m = 3`, both float64 values): the exact
    quotient `12009599006321322 + 2/3` is not an integer, its float64 rounding (the doubles are 2 apart there) is the
    integer `12009599006321322`; the distance `2/3` is within the relative error `|q| / 2^53 = 4/3`.  The code accepts
    `2^55` as a multiple of `3`; exact division does not. -/
theorem rne53_counterexample :
    let q : Rat := 2 ^ 55 / 3
    q.num.natAbs = 2 ^ 55 ∧ q.den = 3 ∧ ¬ IsInt q ∧
    rne53 q = 12009599006321322 ∧ IsInt (rne53 q) ∧ modfFrac (rne53 q) = 0 ∧
    (rne53 q - q).abs = 2 / 3 ∧ q.abs / 2 ^ 53 = 4 / 3 := by
  decide +kernel

/-- inside the domain the same function agrees with exact division, e.g. `7.5 / 0.25 = 30` and `1 / 3` -/
example : modfFrac (rne53 ((15 / 2) / (1 / 4))) = 0 ∧ ((15 / 2 : Rat) / (1 / 4)).den = 1 := by decide +kernel
example : modfFrac (rne53 (1 / 3)) ≠ 0 ∧ ((1 : Rat) / 3).den ≠ 1 := by decide +kernel

end JSV.FloatMult
