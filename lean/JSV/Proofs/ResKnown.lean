/-
  Helper lemmas for C03: the schemas visited by `allNodes` (Schema.all, traversal by `children`) are
  among those registered by checkStructure (traversal by `childEntries`), and the root's Resolved
  keeps knowing them.
-/
import JSV.Proofs.ResRefs
import JSV.Proofs.PtrPaths
namespace JSV
namespace Go
namespace RInv
open Uri

/-! ### children vs childEntries -/

theorem mem_insertSorted (e x : String × NodeId) (l : List (String × NodeId)) :
    x ∈ insertSorted e l ↔ x = e ∨ x ∈ l := by
  induction l with
  | nil => simp [insertSorted]
  | cons y r ih =>
    unfold insertSorted
    split
    · simp
    · simp only [List.mem_cons, ih]
      constructor
      · rintro (h | h | h)
        · exact Or.inr (Or.inl h)
        · exact Or.inl h
        · exact Or.inr (Or.inr h)
      · rintro (h | h | h)
        · exact Or.inr (Or.inl h)
        · exact Or.inl h
        · exact Or.inr (Or.inr h)

theorem mem_sortByKey (x : String × NodeId) (l : List (String × NodeId)) : x ∈ sortByKey l ↔ x ∈ l := by
  induction l with
  | nil => simp [sortByKey]
  | cons y r ih =>
    have : sortByKey (y :: r) = insertSorted y (sortByKey r) := rfl
    rw [this, mem_insertSorted, ih]; simp

theorem children_sub_entries (n : Node) (path : String) (c : NodeId) (h : c ∈ n.children) :
    ∃ q, (c, q) ∈ childEntries n path := by
  unfold Node.children at h
  rw [List.mem_flatMap] at h
  obtain ⟨f, hf, h⟩ := h
  unfold childEntries
  cases f with
  | one j x =>
    cases x with
    | none => simp at h
    | some c' =>
      simp at h; subst h
      exact ⟨path ++ "/" ++ j, List.mem_flatMap.mpr ⟨_, hf, by simp⟩⟩
  | many j x =>
    simp only at h
    obtain ⟨i, hi, hc⟩ := List.mem_iff_getElem.mp h
    refine ⟨path ++ "/" ++ j ++ "/" ++ toString i, List.mem_flatMap.mpr ⟨_, hf, ?_⟩⟩
    simp only [List.mem_map]
    refine ⟨(c, i), ?_, rfl⟩
    rw [List.mem_zipIdx_iff_getElem?]
    simp [← hc, hi]
  | keyed j x =>
    simp only [List.mem_map] at h
    obtain ⟨⟨k, c'⟩, hm, hc⟩ := h
    simp only at hc; subst hc
    rw [mem_sortByKey] at hm
    refine ⟨path ++ "/" ++ j ++ "/" ++ Pointer.escapeSegment k, List.mem_flatMap.mpr ⟨_, hf, ?_⟩⟩
    simp only [List.mem_map]
    exact ⟨(k, c'), hm, rfl⟩

/-! ### the result of checkStructure is closed under `children` -/

def ids (l : List (NodeId × Info)) : List NodeId := l.map (·.1)

theorem checkStructure_closed (st : Store) : ∀ fuel work acc res,
    checkStructure st fuel work acc = .ok res →
    (∀ id ∈ ids acc, ∀ n, st.get? id = some n → ∀ c ∈ n.children, c ∈ ids acc ∨ c ∈ work.map (·.1)) →
    ∀ id ∈ ids res, ∀ n, st.get? id = some n → ∀ c ∈ n.children, c ∈ ids res := by
  intro fuel
  induction fuel with
  | zero => intro work acc res h; simp [checkStructure] at h
  | succ fuel ih =>
    intro work acc res h hinv
    cases work with
    | nil =>
      simp [checkStructure] at h; subst h
      intro id hid n hn c hc
      exact (hinv id hid n hn c hc).resolve_right (by simp)
    | cons w work =>
      obtain ⟨id, path⟩ := w
      rw [checkStructure] at h
      split at h
      · simp at h
      · rename_i n hn
        split at h
        · simp at h
        · apply ih _ _ _ h
          intro id' hid' n' hn' c hc
          simp only [ids, List.map_append, List.map_cons, List.map_nil, List.mem_append,
            List.mem_singleton] at hid' ⊢
          rcases hid' with hid' | hid'
          · rcases hinv id' hid' n' hn' c hc with h1 | h1
            · exact Or.inl (Or.inl h1)
            · simp only [List.map_cons, List.mem_cons] at h1
              rcases h1 with h1 | h1
              · exact Or.inl (Or.inr h1)
              · exact Or.inr (Or.inr h1)
          · subst hid'
            rw [hn] at hn'
            simp only [Option.some.injEq] at hn'
            subst hn'
            obtain ⟨q, hq⟩ := children_sub_entries n path c hc
            exact Or.inr (Or.inl (List.mem_map.mpr ⟨(c, q), hq, rfl⟩))

theorem checkStructure_root_mem (st : Store) (fuel : Nat) (root : NodeId) (res : List (NodeId × Info))
    (h : checkStructure st fuel [(root, "")] [] = .ok res) : root ∈ ids res := by
  cases fuel with
  | zero => simp [checkStructure] at h
  | succ fuel =>
    rw [checkStructure] at h
    split at h
    · simp at h
    · split at h
      · simp at h
      · have := Pointer.checkStructure_acc_subset st _ _ _ _ h (root, { path := if ("" : String) == "" then "root" else "" })
          (by simp)
        exact List.mem_map.mpr ⟨_, this, rfl⟩

theorem allNodes_sub (st : Store) (F : List NodeId)
    (hF : ∀ id ∈ F, ∀ n, st.get? id = some n → ∀ c ∈ n.children, c ∈ F) :
    ∀ fuel work, (∀ w ∈ work, w ∈ F) → ∀ id ∈ allNodes st fuel work, id ∈ F := by
  intro fuel
  induction fuel with
  | zero => intro work _ id h; simp [allNodes] at h
  | succ fuel ih =>
    intro work hw id h
    cases work with
    | nil => simp [allNodes] at h
    | cons w work =>
      rw [allNodes] at h
      split at h
      · rename_i n hn
        rcases List.mem_cons.mp h with h | h
        · subst h; exact hw _ (by simp)
        · apply ih _ _ id h
          intro x hx
          rcases List.mem_append.mp hx with hx | hx
          · exact hF w (hw w (by simp)) n hn x hx
          · exact hw x (List.mem_cons_of_mem _ hx)
      · exact ih _ (fun x hx => hw x (List.mem_cons_of_mem _ hx)) id h

/-- Schema.all() only meets schemas that checkStructure registered -/
theorem allNodes_sub_checkStructure (st : Store) (fuel fuel' : Nat) (root : NodeId)
    (res : List (NodeId × Info)) (h : checkStructure st fuel [(root, "")] [] = .ok res) :
    ∀ id ∈ allNodes st fuel' [root], id ∈ ids res := by
  apply allNodes_sub st (ids res)
    (checkStructure_closed st _ _ _ _ h (fun _ hid => absurd hid (by simp [ids])))
  intro w hw
  simp only [List.mem_singleton] at hw
  subst hw
  exact checkStructure_root_mem st fuel _ res h

/-! ### the Resolved of a root keeps knowing what checkStructure registered for that root -/

theorem find?_map_replace (d : DocRes) (r : NodeId) (hne : d.root ≠ r) (docs : List DocRes) :
    (docs.map fun x => if x.root == d.root then d else x).find? (·.root == r) = docs.find? (·.root == r) := by
  induction docs with
  | nil => rfl
  | cons x xs ih =>
    simp only [List.map_cons, List.find?_cons]
    by_cases hx : x.root = d.root
    · have h1 : (d.root == r) = false := by simpa using hne
      have h2 : (x.root == r) = false := by rw [hx]; exact h1
      have hxb : (x.root == d.root) = true := by simpa using hx
      simp only [hxb, if_true, h1, h2]
      exact ih
    · have h1 : (x.root == d.root) = false := by simpa using hx
      simp only [h1, Bool.false_eq_true, if_false]
      split
      · rfl
      · exact ih

theorem find?_map_replace_self (d : DocRes) (docs : List DocRes)
    (h : docs.any (·.root == d.root) = true) :
    (docs.map fun x => if x.root == d.root then d else x).find? (·.root == d.root) = some d := by
  induction docs with
  | nil => simp at h
  | cons x xs ih =>
    simp only [List.map_cons, List.find?_cons]
    by_cases hx : x.root = d.root
    · simp [hx]
    · have h1 : (x.root == d.root) = false := by simpa using hx
      simp only [List.any_cons, h1, Bool.false_or] at h
      simp only [h1, Bool.false_eq_true, if_false]
      exact ih h

theorem doc?_setDoc (s : RState) (d : DocRes) (r : NodeId) :
    (s.setDoc d).doc? r = if d.root = r then some d else s.doc? r := by
  unfold RState.setDoc RState.doc?
  simp only
  split
  · rename_i hany
    split
    · rename_i h; subst h; exact find?_map_replace_self d _ hany
    · rename_i h; exact find?_map_replace d r h _
  · rename_i hany
    rw [List.find?_append]
    split
    · rename_i h; subst h
      have : s.docs.find? (·.root == d.root) = none := by
        rw [List.find?_eq_none]
        intro x hx hp
        exact hany (List.any_eq_true.mpr ⟨x, hx, hp⟩)
      rw [this]; simp
    · rename_i h
      have h1 : (d.root == r) = false := by simpa using h
      simp [h1]

theorem doc?_root (s : RState) (r : NodeId) (d : DocRes) (h : s.doc? r = some d) : d.root = r := by
  unfold RState.doc? at h
  have := List.find?_some h
  simpa using this

/-- every Resolved knows the schemas checkStructure registers for its root -/
def DocsOk (env : Env) (s : RState) : Prop :=
  ∀ r d, s.doc? r = some d → ∀ fresh, checkStructure env.st (env.st.size + 2) [(r, "")] [] = .ok fresh →
    ∀ id ∈ ids fresh, d.known.contains id = true

theorem DocsOk.of_docs_eq {env : Env} {a b : RState} (h : b.docs = a.docs) (ha : DocsOk env a) : DocsOk env b := by
  intro r d hd
  have : a.doc? r = some d := by unfold RState.doc? at hd ⊢; rw [← h]; exact hd
  exact ha r d this

theorem docsOk_setDoc_grow (env : Env) (s : RState) (d0 d : DocRes) (r0 : NodeId)
    (h0 : s.doc? r0 = some d0) (hr : d.root = d0.root) (hk : ∀ id, d0.known.contains id = true → d.known.contains id = true)
    (hs : DocsOk env s) : DocsOk env (s.setDoc d) := by
  intro r d' hd' fresh hf id hid
  rw [doc?_setDoc] at hd'
  split at hd'
  · rename_i h
    simp only [Option.some.injEq] at hd'
    subst hd'
    have : r0 = r := by rw [← doc?_root s r0 d0 h0, ← hr, h]
    subst this
    exact hk id (hs r0 d0 h0 fresh hf id hid)
  · exact hs r d' hd' fresh hf id hid

theorem docsOk_setDoc_fresh (env : Env) (s : RState) (d : DocRes) (fresh : List (NodeId × Info))
    (hf : checkStructure env.st (env.st.size + 2) [(d.root, "")] [] = .ok fresh)
    (hk : d.known = ids fresh) (hs : DocsOk env s) : DocsOk env (s.setDoc d) := by
  intro r d' hd' fresh' hf' id hid
  rw [doc?_setDoc] at hd'
  split at hd'
  · rename_i h
    simp only [Option.some.injEq] at hd'
    subst hd'
    subst h
    rw [hf] at hf'
    simp only [Res.ok.injEq] at hf'
    subst hf'
    rw [hk]
    simpa using hid
  · exact hs r d' hd' fresh' hf' id hid

theorem docsOk_updInfo (env : Env) (s : RState) (id : NodeId) (f : Info → Info) (h : DocsOk env s) :
    DocsOk env (s.updInfo id f) := DocsOk.of_docs_eq (updInfo_docs s id f) h

theorem docsOk_setAnchor (env : Env) (s : RState) (b t : NodeId) (a : String) (d : Bool) (h : DocsOk env s) :
    DocsOk env (setAnchor s b t a d) := by
  unfold setAnchor; split
  · exact h
  · exact docsOk_updInfo _ _ _ _ h

theorem docsOk_mergeKnown (env : Env) (s : RState) (a b : NodeId) (h : DocsOk env s) :
    DocsOk env (mergeKnown s a b) := by
  unfold mergeKnown
  split
  · rename_i d l hd hl
    refine docsOk_setDoc_grow env s d _ a hd ?_ ?_ h
    · rfl
    intro id hid
    simp only [List.contains_eq_mem, List.mem_append, decide_eq_true_eq] at hid ⊢
    exact Or.inl hid
  · exact h

theorem resolveURIsLoop_docs (env : Env) (draft : Draft) (root : NodeId) :
    ∀ fuel work s s', resolveURIsLoop env draft root fuel work s = .ok s' → DocsOk env s → DocsOk env s' := by
  intro fuel
  induction fuel with
  | zero => intro work s s' h; simp [resolveURIsLoop] at h
  | succ fuel ih =>
    intro work s s' h hs
    cases work with
    | nil => simp [resolveURIsLoop] at h; subst h; exact hs
    | cons e work =>
      obtain ⟨id, base⟩ := e
      rw [resolveURIsLoop] at h
      split at h
      · rw [bind_eq_ok] at h
        obtain ⟨⟨s1, base1⟩, hstep, hrest⟩ := h
        have h1 : DocsOk env s1 := by
          split at hstep
          · rw [bind_eq_ok] at hstep
            obtain ⟨idURI, _, hstep⟩ := hstep
            split at hstep
            · simp at hstep
            · split at hstep
              · simp only [Res.ok.injEq, Prod.mk.injEq] at hstep
                rw [← hstep.1]
                exact docsOk_setAnchor _ _ _ _ _ _ hs
              · split at hstep
                · simp at hstep
                · simp only at hstep
                  split at hstep
                  · simp at hstep
                  · simp only [Res.ok.injEq, Prod.mk.injEq] at hstep
                    rw [← hstep.1]
                    split
                    · rename_i d hd
                      refine docsOk_setDoc_grow env _ d _ root hd ?_ ?_ (docsOk_updInfo _ _ _ _ hs)
                      · rfl
                      · intro _ h; exact h
                    · exact docsOk_updInfo _ _ _ _ hs
          · simp only [Res.ok.injEq, Prod.mk.injEq] at hstep
            rw [← hstep.1]; exact hs
        simp only at hrest
        apply ih _ _ _ hrest
        have h3 : DocsOk env (s1.updInfo id fun i => { i with base := some base1 }) := docsOk_updInfo _ _ _ _ h1
        split
        · exact docsOk_setAnchor _ _ _ _ _ _ (docsOk_setAnchor _ _ _ _ _ _ h3)
        · exact h3
      · simp at h

def RecDocs (env : Env) (recDoc : ResolveDoc) : Prop :=
  ∀ root base draft s s', recDoc root base draft s = .ok s' → DocsOk env s → DocsOk env s'

theorem resolveRef_docs (env : Env) (recDoc : ResolveDoc) (hrec : RecDocs env recDoc)
    (root : NodeId) (s : RState) (id : NodeId) (ref : String) (o : RefOut) (s' : RState)
    (h : resolveRef env recDoc root s id ref = .ok (o, s')) (hs : DocsOk env s) : DocsOk env s' := by
  unfold resolveRef at h
  rw [bind_eq_ok] at h
  obtain ⟨refURI0, _, h⟩ := h
  split at h
  · simp at h
  split at h
  · simp at h
  split at h
  · simp at h
  split at h
  · simp only at h
    rw [bind_eq_ok] at h
    obtain ⟨⟨referenced, s1⟩, hfound, h⟩ := h
    have h1 : DocsOk env s1 := by
      split at hfound
      · simp only [Res.ok.injEq, Prod.mk.injEq] at hfound
        rw [← hfound.2]; exact hs
      · split at hfound
        · simp only [Res.ok.injEq, Prod.mk.injEq] at hfound
          rw [← hfound.2]
          exact docsOk_mergeKnown _ _ _ _ hs
        · split at hfound
          · simp at hfound
          · split at hfound
            · simp at hfound
            · simp at hfound
            · simp at hfound
            · rw [bind_eq_ok] at hfound
              obtain ⟨s2, hdoc, hfound⟩ := hfound
              simp only [Res.ok.injEq, Prod.mk.injEq] at hfound
              rw [← hfound.2]
              exact docsOk_mergeKnown _ _ _ _ (hrec _ _ _ _ _ hdoc (DocsOk.of_docs_eq rfl hs))
    have h2 : s' = s1 := by
      simp only at h
      split at h
      · split at h
        · simp at h
        · split at h
          · simp at h
          · simp only [Res.ok.injEq, Prod.mk.injEq] at h
            exact h.2.symm
      · rw [bind_eq_ok] at h
        obtain ⟨t, ht, h⟩ := h
        simp only [Res.ok.injEq, Prod.mk.injEq] at h
        exact h.2.symm
    rw [h2]; exact h1
  · simp at h

theorem resolveRefsLoop_docs (env : Env) (recDoc : ResolveDoc) (hrec : RecDocs env recDoc) (root : NodeId) :
    ∀ ids s s', resolveRefsLoop env recDoc root ids s = .ok s' → DocsOk env s → DocsOk env s' := by
  intro ids
  induction ids with
  | nil => intro s s' h hs; simp [resolveRefsLoop] at h; subst h; exact hs
  | cons id rest ih =>
    intro s s' h hs
    rw [resolveRefsLoop] at h
    split at h
    · simp at h
    · simp only at h
      rw [bind_eq_ok] at h
      obtain ⟨s1, h1, h⟩ := h
      rw [bind_eq_ok] at h
      obtain ⟨s2, h2, h⟩ := h
      have g1 : DocsOk env s1 := by
        split at h1
        · rw [bind_eq_ok] at h1
          obtain ⟨⟨o, sa⟩, hr, h1⟩ := h1
          simp only [Res.ok.injEq] at h1
          rw [← h1]
          exact docsOk_updInfo _ _ _ _ (resolveRef_docs env recDoc hrec _ _ _ _ _ _ hr hs)
        · simp only [Res.ok.injEq] at h1; rw [← h1]; exact hs
      have g2 : DocsOk env s2 := by
        split at h2
        · rw [bind_eq_ok] at h2
          obtain ⟨⟨o, sa⟩, hr, h2⟩ := h2
          simp only [Res.ok.injEq] at h2
          rw [← h2]
          exact docsOk_updInfo _ _ _ _ (resolveRef_docs env recDoc hrec _ _ _ _ _ _ hr g1)
        · simp only [Res.ok.injEq] at h2; rw [← h2]; exact g1
      exact ih _ _ h g2

theorem resolveDocStep_docs (env : Env) (recDoc : ResolveDoc) (hrec : RecDocs env recDoc)
    (root : NodeId) (baseURI : Url) (inherit : Draft) (s s' : RState)
    (h : resolveDocStep env recDoc root baseURI inherit s = .ok s') (hs : DocsOk env s) :
    DocsOk env s' ∧ ∃ fresh, checkStructure env.st (env.st.size + 2) [(root, "")] [] = .ok fresh := by
  unfold resolveDocStep at h
  split at h
  · simp at h
  split at h
  · simp at h
  simp only at h
  rw [bind_eq_ok] at h
  obtain ⟨fresh, hfresh, h⟩ := h
  split at h
  · simp at h
  rw [bind_eq_ok] at h
  obtain ⟨sB, hB, h⟩ := h
  refine ⟨?_, fresh, hfresh⟩
  apply resolveRefsLoop_docs env recDoc hrec _ _ _ _ h
  apply DocsOk.of_docs_eq (a := sB) rfl
  apply resolveURIsLoop_docs _ _ _ _ _ _ _ hB
  apply docsOk_updInfo
  apply docsOk_setDoc_fresh env _ _ fresh hfresh rfl
  exact DocsOk.of_docs_eq rfl hs

theorem lookupNat_isSome_of_mem {α} (k : Nat) (v : α) (l : List (Nat × α)) (h : (k, v) ∈ l) :
    (lookupNat k l).isSome = true := by
  induction l with
  | nil => simp at h
  | cons e r ih =>
    obtain ⟨k', v'⟩ := e
    unfold lookupNat
    split
    · rfl
    · rename_i hk
      rcases List.mem_cons.mp h with h | h
      · simp only [Prod.mk.injEq] at h; exact absurd h.1.symm hk
      · exact ih h

/-- the schemas registered by checkStructure have an entry in the table when resolver.resolve returns -/
theorem resolveDocStep_table (env : Env) (recDoc : ResolveDoc) (hrec : RecKeeps recDoc)
    (root : NodeId) (baseURI : Url) (inherit : Draft) (s s' : RState)
    (h : resolveDocStep env recDoc root baseURI inherit s = .ok s') :
    ∀ fresh, checkStructure env.st (env.st.size + 2) [(root, "")] [] = .ok fresh →
      ∀ id ∈ ids fresh, (lookupNat id s'.infos).isSome = true := by
  unfold resolveDocStep at h
  split at h
  · simp at h
  split at h
  · simp at h
  simp only at h
  rw [bind_eq_ok] at h
  obtain ⟨fresh, hfresh, h⟩ := h
  split at h
  · simp at h
  rw [bind_eq_ok] at h
  obtain ⟨sB, hB, h⟩ := h
  have kB := resolveURIsLoop_keeps _ _ _ _ _ _ _ hB
  obtain ⟨kC, _⟩ := resolveRefsLoop_keeps env recDoc hrec _ _ _ _ h
  intro fresh' hfresh' id hid
  rw [hfresh] at hfresh'
  simp only [Res.ok.injEq] at hfresh'
  subst hfresh'
  obtain ⟨⟨id', info⟩, hm, he⟩ := List.mem_map.mp hid
  simp only at he; subst he
  have hA : (lookupNat id' (s.infos ++ fresh)).isSome = true :=
    lookupNat_isSome_of_mem id' info _ (List.mem_append_right _ hm)
  have k1 : Keeps { s with infos := s.infos ++ fresh } s' :=
    ((Keeps.of_infos_eq (setDoc_infos _ _)).trans
      (updInfo_keeps _ _ _ (by intro i t ht; exact ⟨t, ht⟩))).trans
      (kB.trans (Keeps.trans (Keeps.of_infos_eq rfl) kC))
  exact k1.1 id' hA

theorem resolveDoc_docs (env : Env) : ∀ fuel, RecDocs env (resolveDoc env fuel) := by
  intro fuel
  induction fuel with
  | zero => intro root base draft s s' h; simp [resolveDoc] at h
  | succ fuel ih => intro root base draft s s' h hs; exact (resolveDocStep_docs env _ ih _ _ _ _ _ h hs).1

theorem docsOk_init (env : Env) : DocsOk env {} := by
  intro r d h; simp [RState.doc?] at h


end RInv
end Go
end JSV
