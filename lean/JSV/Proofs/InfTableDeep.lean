/-
  C04, entries of the type table that are DEEPER than the schema `forType` would build for the type itself: the fuel the
  Spec needs for the inferred schema then exceeds `depth T`.  `infer_sound_table` is stated with `depth T`; the general
  statement (`k` levels of extra depth) is obtained from it by padding: `.named n u` with an entry is replaced by
  `.named n (.named "" (… u))` (`k` transparent declarations, `padN`), which changes neither `forType` (the underlying
  type of a declared type with an entry is never looked at: `inferFuel_pad`) nor typing nor json.Marshal, and adds `k` to
  the depth.
-/
import JSV.Proofs.InfTableTree
namespace JSV
namespace EncJson
open Go Spec

/-- `k` transparent declarations around `u` -/
def padN : Nat → GoType → GoType
  | 0, u => u
  | k + 1, u => .named "" (padN k u)

theorem hasType_padN : ∀ (k : Nat) (u : GoType) (v : GoValue), HasType (padN k u) v ↔ HasType u v
  | 0, _, _ => Iff.rfl
  | k + 1, u, v => by simp only [padN, HasType]; exact hasType_padN k u v

theorem encode_padN : ∀ (k : Nat) (u : GoType) (v : GoValue), encode (padN k u) v = encode u v
  | 0, _, _ => rfl
  | k + 1, u, v => by simp only [padN, encode]; exact encode_padN k u v

theorem depth_padN : ∀ (k : Nat) (u : GoType), depth (padN k u) = depth u + k
  | 0, _ => rfl
  | k + 1, u => by simp only [padN, depth, depth_padN k u]; omega

theorem inDomainN_padN : ∀ (k : Nat) (u : GoType), InDomainN (padN k u) = InDomainN u
  | 0, _ => rfl
  | k + 1, u => by simp only [padN, InDomainN]; exact inDomainN_padN k u

mutual
  /-- every declared type with an entry in the type table gets `k` transparent declarations around its underlying type -/
  def padT (opts : IOpts) (k : Nat) : GoType → GoType
    | .basic b => .basic b
    | .ref n => .ref n
    | .ptr e => .ptr (padT opts k e)
    | .slice e => .slice (padT opts k e)
    | .array n e => .array n (padT opts k e)
    | .map kk e => .map kk (padT opts k e)
    | .struct fs => .struct (padFields opts k fs)
    | .named n u =>
      (match Json.lookup n opts.schemas with
       | some _ => .named n (padN k u)
       | none => .named n (padT opts k u))
  def padFields (opts : IOpts) (k : Nat) : List (String × String × GoType) → List (String × String × GoType)
    | [] => []
    | f :: rest => (f.1, f.2.1, padT opts k f.2.2) :: padFields opts k rest
end

variable (opts : IOpts) (k : Nat)

theorem jsonNames_pad : ∀ (fs : List (String × String × GoType)), jsonNames (padFields opts k fs) = jsonNames fs
  | [] => rfl
  | f :: rest => by
    rw [padFields, jsonNames_cons, jsonNames_cons, jsonNames_pad rest]

theorem all_tagOk_pad : ∀ (fs : List (String × String × GoType)),
    (padFields opts k fs).all (fun f => fieldTagOk f.1 f.2.1) = fs.all (fun f => fieldTagOk f.1 f.2.1)
  | [] => rfl
  | f :: rest => by
    rw [padFields, List.all_cons, List.all_cons, all_tagOk_pad rest]

mutual
  theorem inDomainN_pad : ∀ (T : GoType), InDomainN (padT opts k T) = InDomainN T
    | .basic _ => rfl
    | .ref _ => rfl
    | .ptr e => by simp only [padT, InDomainN]; exact inDomainN_pad e
    | .slice e => by simp only [padT, InDomainN]; exact inDomainN_pad e
    | .array _ e => by simp only [padT, InDomainN]; exact inDomainN_pad e
    | .map _ e => by simp only [padT, InDomainN]; rw [inDomainN_pad e]
    | .struct fs => by
      simp only [padT, InDomainN]
      rw [jsonNames_pad, all_tagOk_pad, inDomainFieldsN_pad fs]
    | .named n u => by
      simp only [padT]
      cases Json.lookup n opts.schemas with
      | some sid => simp only [InDomainN]; exact inDomainN_padN k u
      | none => simp only [InDomainN]; exact inDomainN_pad u
  theorem inDomainFieldsN_pad : ∀ (fs : List (String × String × GoType)),
      inDomainFieldsN (padFields opts k fs) = inDomainFieldsN fs
    | [] => rfl
    | f :: rest => by
      simp only [padFields, inDomainFieldsN]
      rw [inDomainN_pad f.2.2, inDomainFieldsN_pad rest]
end

mutual
  theorem hasType_pad : ∀ (T : GoType) (v : GoValue), HasType (padT opts k T) v ↔ HasType T v
    | .basic _, _ => Iff.rfl
    | .ref _, _ => Iff.rfl
    | .ptr e, v => by
      simp only [padT, HasType]
      cases v with
      | ptr w => exact hasType_pad e w
      | _ => exact Iff.rfl
    | .slice e, v => by
      simp only [padT, HasType]
      cases v with
      | slice vs => exact forall_congr' fun w => imp_congr_right fun _ => hasType_pad e w
      | _ => exact Iff.rfl
    | .array n e, v => by
      simp only [padT, HasType]
      cases v with
      | array vs => exact and_congr_right fun _ => forall_congr' fun w => imp_congr_right fun _ => hasType_pad e w
      | _ => exact Iff.rfl
    | .map _ e, v => by
      simp only [padT, HasType]
      cases v with
      | map kvs => exact and_congr_right fun _ => forall_congr' fun p => imp_congr_right fun _ => hasType_pad e p.2
      | _ => exact Iff.rfl
    | .struct fs, v => by
      simp only [padT, HasType]
      cases v with
      | struct vs => exact hasTypeFields_pad fs vs
      | _ => exact Iff.rfl
    | .named n u, v => by
      simp only [padT]
      cases Json.lookup n opts.schemas with
      | some sid => simp only [HasType]; exact hasType_padN k u v
      | none => simp only [HasType]; exact hasType_pad u v
  theorem hasTypeFields_pad : ∀ (fs : List (String × String × GoType)) (vs : List GoValue),
      HasTypeFields (padFields opts k fs) vs ↔ HasTypeFields fs vs
    | [], _ => Iff.rfl
    | f :: rest, vs => by
      simp only [padFields, HasTypeFields]
      cases vs with
      | nil => exact Iff.rfl
      | cons v vs' => exact and_congr (or_congr Iff.rfl (hasType_pad f.2.2 v)) (hasTypeFields_pad rest vs')
end

mutual
  theorem encode_pad : ∀ (T : GoType) (v : GoValue), encode (padT opts k T) v = encode T v
    | .basic _, _ => rfl
    | .ref _, _ => rfl
    | .ptr e, v => by
      simp only [padT, encode]
      cases v with
      | ptr w => exact encode_pad e w
      | _ => rfl
    | .slice e, v => by
      simp only [padT, encode]
      cases v with
      | slice vs =>
        simp only
        congr 1
        exact List.map_congr_left fun w _ => encode_pad e w
      | _ => rfl
    | .array _ e, v => by
      simp only [padT, encode]
      cases v with
      | array vs =>
        simp only
        congr 1
        exact List.map_congr_left fun w _ => encode_pad e w
      | _ => rfl
    | .map _ e, v => by
      simp only [padT, encode]
      cases v with
      | map kvs =>
        simp only
        congr 1
        exact List.map_congr_left fun p _ => by rw [encode_pad e p.2]
      | _ => rfl
    | .struct fs, v => by
      simp only [padT, encode]
      cases v with
      | struct vs => simp only; rw [encodeFields_pad fs vs]
      | _ => rfl
    | .named n u, v => by
      simp only [padT]
      cases Json.lookup n opts.schemas with
      | some sid => simp only [encode]; exact encode_padN k u v
      | none => simp only [encode]; exact encode_pad u v
  theorem encodeFields_pad : ∀ (fs : List (String × String × GoType)) (vs : List GoValue),
      encodeFields (padFields opts k fs) vs = encodeFields fs vs
    | [], _ => rfl
    | f :: rest, vs => by
      simp only [padFields, encodeFields]
      cases vs with
      | nil => rfl
      | cons v vs' =>
        simp only
        rw [encodeFields_pad rest vs', encode_pad f.2.2 v]
end

mutual
  theorem depth_pad_le : ∀ (T : GoType), depth (padT opts k T) ≤ depth T + k
    | .basic _ => Nat.le_add_right _ _
    | .ref _ => Nat.le_add_right _ _
    | .ptr e => by simp only [padT, depth]; exact depth_pad_le e
    | .slice e => by simp only [padT, depth]; have := depth_pad_le e; omega
    | .array _ e => by simp only [padT, depth]; have := depth_pad_le e; omega
    | .map _ e => by simp only [padT, depth]; have := depth_pad_le e; omega
    | .struct fs => by simp only [padT, depth]; have := depthFields_pad_le fs; omega
    | .named n u => by
      simp only [padT]
      cases Json.lookup n opts.schemas with
      | some sid => simp only [depth, depth_padN]; omega
      | none => simp only [depth]; have := depth_pad_le u; omega
  theorem depthFields_pad_le : ∀ (fs : List (String × String × GoType)),
      depthFields (padFields opts k fs) ≤ depthFields fs + k
    | [] => Nat.le_add_left _ _
    | f :: rest => by
      simp only [padFields, depthFields]
      have h1 := depth_pad_le f.2.2
      have h2 := depthFields_pad_le rest
      omega
end

end EncJson
/-! ## `forType` on the padded type -/

namespace Go
open EncJson Spec

variable (opts : IOpts) (k : Nat)

theorem stripPtrs_pad : ∀ (T : GoType), stripPtrs (padT opts k T) = (padT opts k (stripPtrs T).1, (stripPtrs T).2)
  | .ptr e => by simp only [padT, stripPtrs, stripPtrs_pad e]
  | .basic _ => rfl
  | .ref _ => rfl
  | .slice _ => rfl
  | .array _ _ => rfl
  | .map _ _ => rfl
  | .struct _ => rfl
  | .named n u => by
    show stripPtrs (padT opts k (.named n u)) = (padT opts k (.named n u), false)
    simp only [padT]
    cases Json.lookup n opts.schemas <;> rfl

theorem inferStep_congr {rec : IRec} {T T' : GoType} (h : stripPtrs T = stripPtrs T') (seen : List String) (st : Store) :
    inferStep opts rec T seen st = inferStep opts rec T' seen st := by
  unfold inferStep
  rw [h]

/-- what is assumed of the recursive call -/
def RecPad (rec : IRec) : Prop := ∀ T seen st, rec (padT opts k T) seen st = rec T seen st

theorem structLoop_pad {rec : IRec} (hrec : RecPad opts k rec) (seen : List String) :
    ∀ (fs : List (String × String × GoType)) (n : Node) (st : Store),
      structLoop rec seen (padFields opts k fs) n st = structLoop rec seen fs n st
  | [], _, _ => rfl
  | (g, tag, ft) :: rest, n, st => by
    simp only [padFields, structLoop, hrec ft seen st, structLoop_pad hrec seen rest]

/-- one step on a type that is, under its pointers, a basic kind, slice, array, map or struct -/
theorem inferStep_pad_shape {rec : IRec} (hrec : RecPad opts k rec) {T t : GoType} {an : Bool}
    (hs : stripPtrs T = (t, an)) (hsh : namedShape t = true) (seen : List String) (st : Store) :
    inferStep opts rec (padT opts k T) seen st = inferStep opts rec T seen st := by
  have hsp := stripPtrs_pad opts k T
  rw [hs] at hsp
  cases t with
  | ptr e => simp [namedShape] at hsh
  | named nm u => simp [namedShape] at hsh
  | ref nm => simp [namedShape] at hsh
  | basic b => exact inferStep_congr opts (hsp.trans hs.symm) seen st
  | slice e =>
    simp only [padT] at hsp
    rw [inferStep_slice hs, inferStep_slice hsp, hrec e seen st]
  | array len e =>
    simp only [padT] at hsp
    rw [inferStep_array hs, inferStep_array hsp, hrec e seen st]
  | map kk e =>
    simp only [padT] at hsp
    rw [inferStep_map hs, inferStep_map hsp, hrec e seen st]
  | struct fs =>
    simp only [padT] at hsp
    rw [inferStep_struct hs, inferStep_struct hsp, structLoop_pad opts k hrec seen fs]

theorem padT_wrapPtr (an : Bool) (u : GoType) : padT opts k (wrapPtr an u) = wrapPtr an (padT opts k u) := by
  cases an <;> simp [wrapPtr, padT]

theorem namedShape_pad : ∀ (u : GoType), namedShape (padT opts k u) = namedShape u
  | .basic _ => rfl
  | .ref _ => rfl
  | .ptr _ => rfl
  | .slice _ => rfl
  | .array _ _ => rfl
  | .map _ _ => rfl
  | .struct _ => rfl
  | .named n u => by
    simp only [padT]
    cases Json.lookup n opts.schemas <;> rfl

theorem inferStep_pad {rec : IRec} (hrec : RecPad opts k rec) : RecPad opts k (inferStep opts rec) := by
  intro T seen st
  have hsp := stripPtrs_pad opts k T
  have hnp := stripPtrs_not_ptr T
  generalize hs : stripPtrs T = p at hsp hnp
  obtain ⟨t, an⟩ := p
  simp only at hsp hnp
  cases t with
  | ptr e => exact absurd rfl (hnp e)
  | ref nm => exact inferStep_congr opts (hsp.trans hs.symm) seen st
  | basic b => exact inferStep_pad_shape opts k hrec hs rfl seen st
  | slice e => exact inferStep_pad_shape opts k hrec hs rfl seen st
  | array len e => exact inferStep_pad_shape opts k hrec hs rfl seen st
  | map kk e => exact inferStep_pad_shape opts k hrec hs rfl seen st
  | struct fs => exact inferStep_pad_shape opts k hrec hs rfl seen st
  | named nm u =>
    cases hc : seen.contains nm with
    | true =>
      cases hl : Json.lookup nm opts.schemas with
      | some sid =>
        simp only [padT, hl] at hsp
        rw [inferStep_seen hsp rfl hc, inferStep_seen hs rfl hc]
      | none =>
        simp only [padT, hl] at hsp
        rw [inferStep_seen hsp rfl hc, inferStep_seen hs rfl hc]
    | false =>
      cases hl : Json.lookup nm opts.schemas with
      | some sid =>
        simp only [padT, hl] at hsp
        rw [inferStep_table hsp rfl hc hl, inferStep_table hs rfl hc hl]
      | none =>
        simp only [padT, hl] at hsp
        cases hsh : namedShape u with
        | true =>
          have hup : ∀ e, u ≠ .ptr e := by cases u <;> simp_all [namedShape]
          rw [inferStep_named_transparent hsp hc hl (by rw [namedShape_pad]; exact hsh),
            inferStep_named_transparent hs hc hl hsh, ← padT_wrapPtr]
          exact inferStep_pad_shape opts k hrec (stripPtrs_wrapPtr hup an) hsh _ st
        | false =>
          unfold inferStep
          rw [hsp, hs]
          cases u with
          | ptr e => simp [typeName, hl, padT]
          | ref n' => simp [typeName, hl, padT]
          | named n' u' =>
            simp only [padT]
            cases Json.lookup n' opts.schemas <;> simp [typeName, hl]
          | _ => simp [namedShape] at hsh

/-- **`forType` does not look below a declared type that has an entry** -/
theorem inferFuel_pad : ∀ fuel, RecPad opts k (inferFuel opts fuel)
  | 0 => fun _ _ _ => rfl
  | fuel + 1 => inferStep_pad opts k (inferFuel_pad fuel)

end Go

/-! ## the hypothesis on the entries, with `k` levels of extra depth -/

namespace EncJson
open Go Spec

/-- `EntryAcceptsTree` with `k` more fuel: the entry may be up to `k` levels deeper than the schema of `u` itself -/
def EntryAcceptsDeep (st : Store) (sid : NodeId) (u : GoType) (an : Bool) (k : Nat) : Prop :=
  ∃ m d, st.get? sid = some m ∧ treeAll Iso.noRefs st d sid = true ∧
    (∀ re v, HasType u v → Spec.valid (specEnvNoRefs st re) (depth u + 1 + k) sid (encode u v) = some true) ∧
    (an = true → (m.type ≠ "" ∨ m.types.isSome = true) ∧
      ∀ re, Spec.valid (specEnvNoRefs (st.push (tableNull true m)) re) (depth u + 1 + k) st.size .null = some true)

mutual
  /-- `EntryAcceptsDeep` for every declared type of `T` that has an entry in the type table and that `forType` meets -/
  def EntriesAcceptDeep (opts : IOpts) (st : Store) (k : Nat) : Bool → GoType → Prop
    | _, .basic _ => True
    | _, .ptr e => EntriesAcceptDeep opts st k true e
    | _, .slice e => EntriesAcceptDeep opts st k false e
    | _, .array _ e => EntriesAcceptDeep opts st k false e
    | _, .map _ e => EntriesAcceptDeep opts st k false e
    | _, .struct fields => EntriesAcceptDeepFields opts st k fields
    | an, .named n u =>
      (match Json.lookup n opts.schemas with
       | some sid => EntryAcceptsDeep st sid u an k
       | none => EntriesAcceptDeep opts st k false u)
    | _, .ref _ => True
  def EntriesAcceptDeepFields (opts : IOpts) (st : Store) (k : Nat) : List (String × String × GoType) → Prop
    | [] => True
    | f :: rest =>
      ((fieldJSONInfo f.1 f.2.1).omitted = true ∨ EntriesAcceptDeep opts st k false f.2.2) ∧
        EntriesAcceptDeepFields opts st k rest
end

theorem entryAcceptsTree_pad {st : Store} {sid : NodeId} {u : GoType} {an : Bool} {k : Nat}
    (h : EntryAcceptsDeep st sid u an k) : EntryAcceptsTree st sid (padN k u) an := by
  obtain ⟨m, d, hm, ht, hv, hnull⟩ := h
  have hd : depth (padN k u) + 1 = depth u + 1 + k := by rw [depth_padN]; omega
  refine ⟨m, d, hm, ht, fun re v hv' => ?_, fun han => ⟨(hnull han).1, fun re => ?_⟩⟩
  · rw [hd, encode_padN]
    exact hv re v ((hasType_padN k u v).1 hv')
  · rw [hd]
    exact (hnull han).2 re

theorem entriesAcceptTree_pad (opts : IOpts) (st : Store) (k : Nat) :
    (∀ (T : GoType) (an : Bool), EntriesAcceptDeep opts st k an T → EntriesAcceptTree opts st an (padT opts k T)) ∧
    ∀ fs : List (String × String × GoType), EntriesAcceptDeepFields opts st k fs →
      EntriesAcceptTreeFields opts st (padFields opts k fs) := by
  have key : ∀ n : Nat,
      (∀ (T : GoType) (an : Bool), sizeOf T ≤ n → EntriesAcceptDeep opts st k an T →
        EntriesAcceptTree opts st an (padT opts k T)) ∧
      ∀ fs : List (String × String × GoType), sizeOf fs ≤ n → EntriesAcceptDeepFields opts st k fs →
        EntriesAcceptTreeFields opts st (padFields opts k fs) := by
    intro n
    induction n with
    | zero =>
      constructor
      · intro T an hs; cases T <;> simp at hs
      · intro fs hs; cases fs <;> simp at hs
    | succ n ih =>
      constructor
      · intro T an hs h
        cases T with
        | basic b => simp only [padT, EntriesAcceptTree]
        | ref b => simp only [padT, EntriesAcceptTree]
        | ptr e =>
          simp only [EntriesAcceptDeep] at h
          simp only [padT, EntriesAcceptTree]
          exact ih.1 e _ (by simp at hs; omega) h
        | slice e =>
          simp only [EntriesAcceptDeep] at h
          simp only [padT, EntriesAcceptTree]
          exact ih.1 e _ (by simp at hs; omega) h
        | array len e =>
          simp only [EntriesAcceptDeep] at h
          simp only [padT, EntriesAcceptTree]
          exact ih.1 e _ (by simp at hs; omega) h
        | map kk e =>
          simp only [EntriesAcceptDeep] at h
          simp only [padT, EntriesAcceptTree]
          exact ih.1 e _ (by simp at hs; omega) h
        | struct fs =>
          simp only [EntriesAcceptDeep] at h
          simp only [padT, EntriesAcceptTree]
          exact ih.2 fs (by simp at hs; omega) h
        | named nm u =>
          simp only [EntriesAcceptDeep] at h
          simp only [padT]
          cases hl : Json.lookup nm opts.schemas with
          | some sid =>
            rw [hl] at h
            simp only [EntriesAcceptTree, hl]
            exact entryAcceptsTree_pad h
          | none =>
            rw [hl] at h
            simp only [EntriesAcceptTree, hl]
            exact ih.1 u _ (by simp at hs; omega) h
      · intro fs hs h
        cases fs with
        | nil => simp only [padFields, EntriesAcceptTreeFields]
        | cons f rest =>
          obtain ⟨g, tag, ft⟩ := f
          simp only [EntriesAcceptDeepFields] at h
          simp only [padFields, EntriesAcceptTreeFields]
          exact ⟨h.1.imp id (ih.1 ft _ (by simp at hs; omega)), ih.2 rest (by simp at hs; omega) h.2⟩
  exact ⟨fun T an => (key _).1 T an (Nat.le_refl _), fun fs => (key _).2 fs (Nat.le_refl _)⟩

/-- the case `k = 0` -/
theorem entryAcceptsDeep_zero {st : Store} {sid : NodeId} {u : GoType} {an : Bool} :
    EntryAcceptsDeep st sid u an 0 ↔ EntryAcceptsTree st sid u an := Iff.rfl

end EncJson
end JSV
