/-
  Helper lemmas for C03: the resolver's tables agree with the declarative designation of
  JSV/Spec/Designate.lean (resource roots, plain-name anchors, fragment dispatch).
-/
import JSV.Spec.Designate
import JSV.Proofs.ResTree
namespace JSV
namespace Go
namespace RInv
open Uri Spec

/-! ### lineages -/

theorem nearestResource_snoc (D : Doc) (l : List NodeId) (c : NodeId) :
    nearestResource D (l ++ [c]) =
      if startsResourceAt D.st D.draft c = true then c else nearestResource D l := by
  unfold nearestResource
  rw [List.filter_append]
  by_cases h : startsResourceAt D.st D.draft c = true
  · simp [h]
  · simp [h]

theorem resourceRoot_root (D : Doc) : D.ResourceRoot D.root D.root :=
  ⟨[], by simp [isLineage], rfl⟩

theorem resourceRoot_child (D : Doc) (p b c : NodeId) (h : D.ResourceRoot p b)
    (hc : isChild D.st p c = true) :
    D.ResourceRoot c (if startsResourceAt D.st D.draft c = true then c else b) := by
  obtain ⟨l, hl, hr⟩ := h
  exact ⟨l ++ [c], isLineage_snoc _ _ _ _ _ hl hc, by rw [nearestResource_snoc, hr]⟩

theorem ResourceRoot.has {D : Doc} {s r : NodeId} (h : D.ResourceRoot s r) : D.Has s :=
  let ⟨l, hl, _⟩ := h; ⟨l, hl⟩

/-! ### the body of resolveURIs' `resolve(s, base)`, named -/

/-- the `$id` block: new state and the base for the schema and its children -/
def uriStep (draft : Draft) (root : NodeId) (s : RState) (id base : NodeId) (n : Node) (baseInfo : Info) :
    Res (RState × NodeId) :=
  let ignore := draft == .d7 && n.ref != ""
  if n.id != "" && !ignore then
    Res.bind (Uri.parse n.id) fun idURI =>
      if draft == .d2020 && idURI.fragment != "" then .err
      else if draft == .d7 && idURI.fragment != "" then
        .ok (setAnchor s base id (stripHashPrefix n.id) false, base)
      else
        match baseInfo.uri with
        | none => .panic
        | some bu =>
          let u := Uri.resolveReference bu idURI
          if !Uri.isAbs u then .err
          else
            let s := s.updInfo id fun i => { i with uri := some u }
            let s := match s.doc? root with
              | some d => s.setDoc { d with uris := (d.uris.filter (·.1 != Uri.toString u)) ++ [(Uri.toString u, id)] }
              | none => s
            .ok (s, id)
  else .ok (s, base)

/-- `info.base = base` and the 2020-12 anchors -/
def postStep (draft : Draft) (s : RState) (id base : NodeId) (n : Node) : RState :=
  let s := s.updInfo id fun i => { i with base := some base }
  if draft == .d2020 then
    setAnchor (setAnchor s base id n.anchor false) base id n.dynamicAnchor true
  else s

theorem resolveURIsLoop_unfold (env : Env) (draft : Draft) (root : NodeId) (fuel : Nat)
    (id base : NodeId) (work : List (NodeId × NodeId)) (s s' : RState)
    (h : resolveURIsLoop env draft root (fuel + 1) ((id, base) :: work) s = .ok s') :
    ∃ n i0 bi s1 base1, env.st.get? id = some n ∧ lookupNat id s.infos = some i0 ∧
      lookupNat base s.infos = some bi ∧ uriStep draft root s id base n bi = .ok (s1, base1) ∧
      resolveURIsLoop env draft root fuel ((n.children.map fun c => (c, base1)) ++ work)
        (postStep draft s1 id base1 n) = .ok s' := by
  rw [resolveURIsLoop] at h
  split at h
  · rename_i n i0 bi hn hi hb
    rw [bind_eq_ok] at h
    obtain ⟨⟨s1, base1⟩, hstep, hrest⟩ := h
    exact ⟨n, i0, bi, s1, base1, hn, hi, hb, hstep, hrest⟩
  · simp at h

/-! ### the two invariants of the info table, and how the state updates act on them -/

/-- schema `p` has been given its base: the base is its resource root, and every plain name `p`
    declares has an entry in the anchors of that resource -/
def Done (D : Doc) (infos : List (NodeId × Info)) (p : NodeId) : Prop :=
  ∃ i r, lookupNat p infos = some i ∧ i.base = some r ∧ D.ResourceRoot p r ∧
    ∀ n, D.st.get? p = some n → ∀ e ∈ declaredAnchors D.draft n,
      ∃ ri, lookupNat r infos = some ri ∧ (Json.lookup e.1 ri.anchors).isSome = true

/-- every anchor entry of a schema of the document is a declaration inside that resource -/
def Sound (D : Doc) (infos : List (NodeId × Info)) : Prop :=
  ∀ b i, lookupNat b infos = some i → D.Has b → ∀ e ∈ i.anchors,
    D.ResourceRoot e.2.schema b ∧ D.Declares e.2.schema e.1 e.2.dynamic

theorem done_updInfo (D : Doc) (s : RState) (k : NodeId) (f : Info → Info) (p : NodeId)
    (hbase : k = p → ∀ i, (f i).base = i.base)
    (hmono : ∀ i x, (Json.lookup x i.anchors).isSome = true → (Json.lookup x (f i).anchors).isSome = true)
    (h : Done D s.infos p) : Done D (s.updInfo k f).infos p := by
  obtain ⟨i, r, hi, hb, hr, hd⟩ := h
  have hp : ∃ i', lookupNat p (s.updInfo k f).infos = some i' ∧ i'.base = some r := by
    rw [updInfo_infos_lookup]
    split
    · rename_i hk
      exact ⟨f i, by rw [hi]; rfl, by rw [hbase hk i, hb]⟩
    · exact ⟨i, hi, hb⟩
  obtain ⟨i', hi', hb'⟩ := hp
  refine ⟨i', r, hi', hb', hr, ?_⟩
  intro n hn e he
  obtain ⟨ri, hri, hl⟩ := hd n hn e he
  rw [updInfo_infos_lookup]
  split
  · exact ⟨f ri, by rw [hri]; rfl, hmono ri _ hl⟩
  · exact ⟨ri, hri, hl⟩

theorem sound_updInfo (D : Doc) (s : RState) (k : NodeId) (f : Info → Info)
    (hnew : ∀ i, ∀ e ∈ (f i).anchors, e ∈ i.anchors ∨
      (D.ResourceRoot e.2.schema k ∧ D.Declares e.2.schema e.1 e.2.dynamic))
    (h : Sound D s.infos) : Sound D (s.updInfo k f).infos := by
  intro b i hi hb e he
  rw [updInfo_infos_lookup] at hi
  split at hi
  · rename_i hk
    subst hk
    cases h0 : lookupNat k s.infos with
    | none => rw [h0] at hi; simp at hi
    | some i0 =>
      rw [h0] at hi
      simp only [Option.map_some, Option.some.injEq] at hi
      subst hi
      rcases hnew i0 e he with h1 | h1
      · exact h k i0 h0 hb e h1
      · exact h1
  · exact h b i hi hb e he

/-- the update setAnchor applies to the info of the base -/
def addAnchor (a : String) (t : NodeId) (dyn : Bool) (bi : Info) : Info :=
  if (Json.lookup a bi.anchors).isSome then bi
  else { bi with anchors := bi.anchors ++ [(a, { schema := t, dynamic := dyn })] }

theorem setAnchor_eq (s : RState) (b t : NodeId) (a : String) (dyn : Bool) :
    setAnchor s b t a dyn = if a == "" then s else s.updInfo b (addAnchor a t dyn) := rfl

theorem addAnchor_base (a : String) (t : NodeId) (dyn : Bool) (i : Info) :
    (addAnchor a t dyn i).base = i.base := by
  unfold addAnchor; split <;> rfl

theorem addAnchor_uri (a : String) (t : NodeId) (dyn : Bool) (i : Info) :
    (addAnchor a t dyn i).uri = i.uri := by
  unfold addAnchor; split <;> rfl

theorem addAnchor_mono (a : String) (t : NodeId) (dyn : Bool) (i : Info) (x : String)
    (h : (Json.lookup x i.anchors).isSome = true) :
    (Json.lookup x (addAnchor a t dyn i).anchors).isSome = true := by
  unfold addAnchor; split
  · exact h
  · show (Json.lookup x (i.anchors ++ _)).isSome = true
    rw [lookup_append_isSome, h]; rfl

theorem addAnchor_has (a : String) (t : NodeId) (dyn : Bool) (i : Info) :
    (Json.lookup a (addAnchor a t dyn i).anchors).isSome = true := by
  unfold addAnchor; split
  · rename_i h; exact h
  · show (Json.lookup a (i.anchors ++ _)).isSome = true
    rw [lookup_append_isSome]; simp

theorem addAnchor_mem (a : String) (t : NodeId) (dyn : Bool) (i : Info) (e : String × AnchorInfo)
    (h : e ∈ (addAnchor a t dyn i).anchors) :
    e ∈ i.anchors ∨ (e.1 = a ∧ e.2.schema = t ∧ e.2.dynamic = dyn) := by
  unfold addAnchor at h; split at h
  · exact Or.inl h
  · have h' : e ∈ i.anchors ++ [(a, ({ schema := t, dynamic := dyn } : AnchorInfo))] := h
    rcases List.mem_append.mp h' with h1 | h1
    · exact Or.inl h1
    · simp only [List.mem_singleton] at h1
      subst h1; exact Or.inr ⟨rfl, rfl, rfl⟩

theorem done_setAnchor (D : Doc) (s : RState) (b t : NodeId) (a : String) (dyn : Bool) (p : NodeId)
    (h : Done D s.infos p) : Done D (setAnchor s b t a dyn).infos p := by
  rw [setAnchor_eq]; split
  · exact h
  · exact done_updInfo D s b _ p (fun _ i => addAnchor_base a t dyn i) (fun i x hx => addAnchor_mono a t dyn i x hx) h

theorem sound_setAnchor (D : Doc) (s : RState) (b t : NodeId) (a : String) (dyn : Bool)
    (hr : D.ResourceRoot t b) (hd : a ≠ "" → D.Declares t a dyn)
    (h : Sound D s.infos) : Sound D (setAnchor s b t a dyn).infos := by
  rw [setAnchor_eq]; split
  · exact h
  · rename_i hne
    have hd := hd (by simpa using hne)
    apply sound_updInfo D s b _ _ h
    intro i e he
    rcases addAnchor_mem a t dyn i e he with h1 | ⟨h1, h2, h3⟩
    · exact Or.inl h1
    · right; rw [h1, h2, h3]; exact ⟨hr, hd⟩

theorem setAnchor_registered (s : RState) (b t : NodeId) (a : String) (dyn : Bool)
    (hb : (lookupNat b s.infos).isSome = true) (ha : a ≠ "") :
    ∃ ri, lookupNat b (setAnchor s b t a dyn).infos = some ri ∧ (Json.lookup a ri.anchors).isSome = true := by
  rw [setAnchor_eq]
  have : (a == "") = false := by simpa using ha
  rw [this]
  simp only [Bool.false_eq_true, if_false]
  rw [updInfo_infos_lookup, if_pos rfl]
  cases h0 : lookupNat b s.infos with
  | none => rw [h0] at hb; simp at hb
  | some i0 => exact ⟨addAnchor a t dyn i0, rfl, addAnchor_has a t dyn i0⟩

/-- an anchor entry, once present, stays -/
theorem setAnchor_anchor_mono (s : RState) (b t : NodeId) (a : String) (dyn : Bool) (k : NodeId) (x : String)
    (h : ∃ ri, lookupNat k s.infos = some ri ∧ (Json.lookup x ri.anchors).isSome = true) :
    ∃ ri, lookupNat k (setAnchor s b t a dyn).infos = some ri ∧ (Json.lookup x ri.anchors).isSome = true := by
  obtain ⟨ri, hri, hx⟩ := h
  rw [setAnchor_eq]; split
  · exact ⟨ri, hri, hx⟩
  · rw [updInfo_infos_lookup]
    split
    · exact ⟨addAnchor a t dyn ri, by rw [hri]; rfl, addAnchor_mono a t dyn ri x hx⟩
    · exact ⟨ri, hri, hx⟩

/-! ### case analysis of the `$id` block -/

/-- the state after a resource-establishing `$id`: `info.uri` set, the URI registered -/
def newUriState (root : NodeId) (s : RState) (id : NodeId) (u : Url) : RState :=
  let s := s.updInfo id fun i => { i with uri := some u }
  match s.doc? root with
  | some d => s.setDoc { d with uris := (d.uris.filter (·.1 != Uri.toString u)) ++ [(Uri.toString u, id)] }
  | none => s

theorem idFragment_of_parse (x : String) (u : Url) (h : Uri.parse x = .ok u) : idFragment x = u.fragment := by
  unfold idFragment; rw [h]

theorem uriStep_d2020 (root : NodeId) (s : RState) (id base : NodeId) (n : Node) (bi : Info)
    (s1 : RState) (base1 : NodeId) (h : uriStep .d2020 root s id base n bi = .ok (s1, base1)) :
    (n.id = "" ∧ s1 = s ∧ base1 = base) ∨
    (n.id ≠ "" ∧ base1 = id ∧ ∃ idURI bu, Uri.parse n.id = .ok idURI ∧ bi.uri = some bu ∧
      s1 = newUriState root s id (Uri.resolveReference bu idURI)) := by
  unfold uriStep at h
  simp only [show (Draft.d2020 == Draft.d7) = false from rfl, show (Draft.d2020 == Draft.d2020) = true from rfl,
    Bool.false_and, Bool.not_false, Bool.and_true, Bool.true_and, Bool.false_eq_true, if_false] at h
  split at h
  · rename_i hid
    right
    rw [bind_eq_ok] at h
    obtain ⟨idURI, hp, h⟩ := h
    split at h
    · simp at h
    · split at h
      · simp at h
      · rename_i bu hbu
        split at h
        · simp at h
        · simp only [Res.ok.injEq, Prod.mk.injEq] at h
          refine ⟨by simpa using hid, h.2.symm, idURI, bu, hp, hbu, ?_⟩
          rw [← h.1]; rfl
  · rename_i hid
    left
    simp only [Res.ok.injEq, Prod.mk.injEq] at h
    exact ⟨by simpa using hid, h.1.symm, h.2.symm⟩

theorem uriStep_d7 (root : NodeId) (s : RState) (id base : NodeId) (n : Node) (bi : Info)
    (s1 : RState) (base1 : NodeId) (h : uriStep .d7 root s id base n bi = .ok (s1, base1)) :
    ((n.id = "" ∨ n.ref ≠ "") ∧ s1 = s ∧ base1 = base) ∨
    (n.id ≠ "" ∧ n.ref = "" ∧ idFragment n.id ≠ "" ∧
      s1 = setAnchor s base id (dropHash n.id) false ∧ base1 = base) ∨
    (n.id ≠ "" ∧ n.ref = "" ∧ idFragment n.id = "" ∧ base1 = id ∧
      ∃ idURI bu, Uri.parse n.id = .ok idURI ∧ bi.uri = some bu ∧
        s1 = newUriState root s id (Uri.resolveReference bu idURI)) := by
  unfold uriStep at h
  simp only [show (Draft.d7 == Draft.d7) = true from rfl, show (Draft.d7 == Draft.d2020) = false from rfl,
    Bool.false_and, Bool.true_and, Bool.false_eq_true, if_false] at h
  split at h
  · rename_i hc
    have hc' : n.id ≠ "" ∧ n.ref = "" := by simpa using hc
    right
    rw [bind_eq_ok] at h
    obtain ⟨idURI, hp, h⟩ := h
    have hf := idFragment_of_parse _ _ hp
    split at h
    · rename_i hfr
      left
      simp only [Res.ok.injEq, Prod.mk.injEq] at h
      refine ⟨hc'.1, hc'.2, ?_, ?_, h.2.symm⟩
      · rw [hf]; simpa using hfr
      · rw [← h.1]; rfl
    · rename_i hfr
      right
      split at h
      · simp at h
      · rename_i bu hbu
        split at h
        · simp at h
        · simp only [Res.ok.injEq, Prod.mk.injEq] at h
          refine ⟨hc'.1, hc'.2, ?_, h.2.symm, idURI, bu, hp, hbu, ?_⟩
          · rw [hf]; simpa using hfr
          · rw [← h.1]; rfl
  · rename_i hc
    left
    simp only [Res.ok.injEq, Prod.mk.injEq] at h
    refine ⟨?_, h.1.symm, h.2.symm⟩
    by_cases h1 : n.id = ""
    · exact Or.inl h1
    · right
      intro h2
      apply hc
      simp [h1, h2]

/-! ### `uris` of the document -/

/-- every registered URI names a resource root of the document -/
def UrisOk (D : Doc) (s : RState) : Prop :=
  ∀ d, s.doc? D.root = some d → ∀ e ∈ d.uris, D.ResourceRoot e.2 e.2

theorem UrisOk.of_docs_eq {D : Doc} {a b : RState} (h : b.docs = a.docs) (ha : UrisOk D a) : UrisOk D b := by
  intro d hd
  have : a.doc? D.root = some d := by unfold RState.doc? at hd ⊢; rw [← h]; exact hd
  exact ha d this

theorem setAnchor_docs (s : RState) (b t : NodeId) (a : String) (dyn : Bool) :
    (setAnchor s b t a dyn).docs = s.docs := by
  rw [setAnchor_eq]; split
  · rfl
  · exact updInfo_docs _ _ _

theorem newUriState_infos (root : NodeId) (s : RState) (id : NodeId) (u : Url) :
    (newUriState root s id u).infos = (s.updInfo id fun i => { i with uri := some u }).infos := by
  unfold newUriState
  simp only
  split <;> rfl

theorem newUriState_done (D : Doc) (root : NodeId) (s : RState) (id : NodeId) (u : Url) (p : NodeId)
    (h : Done D s.infos p) : Done D (newUriState root s id u).infos p := by
  rw [newUriState_infos]
  exact done_updInfo D s id _ p (fun _ _ => rfl) (fun _ _ hx => hx) h

theorem newUriState_sound (D : Doc) (root : NodeId) (s : RState) (id : NodeId) (u : Url)
    (h : Sound D s.infos) : Sound D (newUriState root s id u).infos := by
  rw [newUriState_infos]
  exact sound_updInfo D s id _ (fun _ _ he => Or.inl he) h

theorem newUriState_keeps (root : NodeId) (s : RState) (id : NodeId) (u : Url) :
    Keeps s (newUriState root s id u) :=
  (updInfo_keeps s id _ (by intro i t ht; exact ⟨t, ht⟩)).trans (Keeps.of_infos_eq (newUriState_infos root s id u))

theorem newUriState_urisOk (D : Doc) (s : RState) (id : NodeId) (u : Url)
    (hr : D.ResourceRoot id id) (h : UrisOk D s) : UrisOk D (newUriState D.root s id u) := by
  unfold newUriState
  simp only
  split
  · rename_i d hd
    intro d' hd' e he
    rw [doc?_setDoc] at hd'
    have hroot : d.root = D.root := doc?_root _ _ _ hd
    simp only [hroot, if_true, Option.some.injEq] at hd'
    subst hd'
    simp only at he
    rcases List.mem_append.mp he with h1 | h1
    · have hd0 : s.doc? D.root = some d := by
        unfold RState.doc? at hd ⊢; rw [← updInfo_docs s id fun i => { i with uri := some u }]; exact hd
      exact h d hd0 e (List.mem_filter.mp h1).1
    · simp only [List.mem_singleton] at h1
      subst h1; exact hr
  · exact UrisOk.of_docs_eq (updInfo_docs _ _ _) h

/-! ### `info.base = base` and the anchors of one schema -/

theorem hasBase_setAnchor (s : RState) (b t : NodeId) (a : String) (dyn : Bool) (p r : NodeId)
    (h : ∃ i, lookupNat p s.infos = some i ∧ i.base = some r) :
    ∃ i, lookupNat p (setAnchor s b t a dyn).infos = some i ∧ i.base = some r := by
  obtain ⟨i, hi, hb⟩ := h
  rw [setAnchor_eq]; split
  · exact ⟨i, hi, hb⟩
  · rw [updInfo_infos_lookup]
    split
    · exact ⟨addAnchor a t dyn i, by rw [hi]; rfl, by rw [addAnchor_base, hb]⟩
    · exact ⟨i, hi, hb⟩

theorem hasBase_set (s : RState) (id r : NodeId) (hid : (lookupNat id s.infos).isSome = true) :
    ∃ i, lookupNat id (s.updInfo id fun i => { i with base := some r }).infos = some i ∧ i.base = some r := by
  rw [updInfo_infos_lookup, if_pos rfl]
  cases h0 : lookupNat id s.infos with
  | none => rw [h0] at hid; simp at hid
  | some i0 => exact ⟨_, rfl, rfl⟩

theorem setBase_keeps (s : RState) (id r : NodeId) :
    Keeps s (s.updInfo id fun i => { i with base := some r }) :=
  updInfo_keeps s id _ (by intro i t ht; exact ⟨t, ht⟩)

theorem mem_declared_d2020 (n : Node) (e : String × Bool) (h : e ∈ declaredAnchors .d2020 n) :
    (e = (n.anchor, false) ∨ e = (n.dynamicAnchor, true)) ∧ e.1 ≠ "" := by
  unfold declaredAnchors at h
  simp only [List.mem_filter, List.mem_cons, List.mem_nil_iff, or_false] at h
  exact ⟨h.1, by simpa using h.2⟩

theorem declares_anchor (D : Doc) (id : NodeId) (n : Node) (hn : D.st.get? id = some n)
    (hdr : D.draft = .d2020) (h : n.anchor ≠ "") : D.Declares id n.anchor false := by
  refine ⟨n, hn, ?_⟩
  rw [hdr]; unfold declaredAnchors
  simp [h]

theorem declares_dynamicAnchor (D : Doc) (id : NodeId) (n : Node) (hn : D.st.get? id = some n)
    (hdr : D.draft = .d2020) (h : n.dynamicAnchor ≠ "") : D.Declares id n.dynamicAnchor true := by
  refine ⟨n, hn, ?_⟩
  rw [hdr]; unfold declaredAnchors
  simp [h]

/-- 2020-12: after `info.base = base` and the two setAnchor calls -/
theorem post2020 (D : Doc) (hdr : D.draft = .d2020) (s1 : RState) (id base1 : NodeId) (n : Node)
    (hn : D.st.get? id = some n) (hid : (lookupNat id s1.infos).isSome = true)
    (hb : (lookupNat base1 s1.infos).isSome = true) (hr : D.ResourceRoot id base1) :
    Done D (postStep .d2020 s1 id base1 n).infos id ∧
    (∀ p, p ≠ id → Done D s1.infos p → Done D (postStep .d2020 s1 id base1 n).infos p) ∧
    (Sound D s1.infos → Sound D (postStep .d2020 s1 id base1 n).infos) ∧
    (UrisOk D s1 → UrisOk D (postStep .d2020 s1 id base1 n)) := by
  have hpost : postStep .d2020 s1 id base1 n =
      setAnchor (setAnchor (s1.updInfo id fun i => { i with base := some base1 }) base1 id n.anchor false)
        base1 id n.dynamicAnchor true := rfl
  rw [hpost]
  refine ⟨?_, ?_, ?_, ?_⟩
  · obtain ⟨i, hi, hbase⟩ := hasBase_setAnchor _ base1 id n.dynamicAnchor true id base1
      (hasBase_setAnchor _ base1 id n.anchor false id base1 (hasBase_set s1 id base1 hid))
    refine ⟨i, base1, hi, hbase, hr, ?_⟩
    intro n' hn' e he
    rw [hn] at hn'
    simp only [Option.some.injEq] at hn'
    subst hn'
    rw [hdr] at he
    obtain ⟨he, hne⟩ := mem_declared_d2020 n e he
    have hb1 := (setBase_keeps s1 id base1).1 base1 hb
    rcases he with he | he
    · subst he
      exact setAnchor_anchor_mono _ _ _ _ _ _ _ (setAnchor_registered _ base1 id n.anchor false hb1 hne)
    · subst he
      exact setAnchor_registered _ base1 id n.dynamicAnchor true ((setAnchor_keeps _ _ _ _ _).1 base1 hb1) hne
  · intro p hp h
    apply done_setAnchor
    apply done_setAnchor
    exact done_updInfo D s1 id _ p (fun e => absurd e.symm hp) (fun _ _ hx => hx) h
  · intro h
    apply sound_setAnchor D _ _ _ _ _ hr (declares_dynamicAnchor D id n hn hdr)
    apply sound_setAnchor D _ _ _ _ _ hr (declares_anchor D id n hn hdr)
    exact sound_updInfo D s1 id _ (fun _ _ he => Or.inl he) h
  · intro h
    exact UrisOk.of_docs_eq ((setAnchor_docs _ _ _ _ _).trans ((setAnchor_docs _ _ _ _ _).trans (updInfo_docs _ _ _))) h

/-- draft-07: after `info.base = base` -/
theorem post7 (D : Doc) (hdr : D.draft = .d7) (s1 : RState) (id base1 : NodeId) (n : Node)
    (hn : D.st.get? id = some n) (hid : (lookupNat id s1.infos).isSome = true)
    (hr : D.ResourceRoot id base1)
    (hreg : ∀ e ∈ declaredAnchors .d7 n,
      ∃ ri, lookupNat base1 s1.infos = some ri ∧ (Json.lookup e.1 ri.anchors).isSome = true) :
    Done D (postStep .d7 s1 id base1 n).infos id ∧
    (∀ p, p ≠ id → Done D s1.infos p → Done D (postStep .d7 s1 id base1 n).infos p) ∧
    (Sound D s1.infos → Sound D (postStep .d7 s1 id base1 n).infos) ∧
    (UrisOk D s1 → UrisOk D (postStep .d7 s1 id base1 n)) := by
  have hpost : postStep .d7 s1 id base1 n = s1.updInfo id fun i => { i with base := some base1 } := rfl
  rw [hpost]
  refine ⟨?_, ?_, ?_, ?_⟩
  · obtain ⟨i, hi, hbase⟩ := hasBase_set s1 id base1 hid
    refine ⟨i, base1, hi, hbase, hr, ?_⟩
    intro n' hn' e he
    rw [hn] at hn'
    simp only [Option.some.injEq] at hn'
    subst hn'
    rw [hdr] at he
    obtain ⟨ri, hri, hl⟩ := hreg e he
    rw [updInfo_infos_lookup]
    split
    · exact ⟨{ ri with base := some base1 }, by rw [hri]; rfl, hl⟩
    · exact ⟨ri, hri, hl⟩
  · intro p hp h
    exact done_updInfo D s1 id _ p (fun e => absurd e.symm hp) (fun _ _ hx => hx) h
  · intro h
    exact sound_updInfo D s1 id _ (fun _ _ he => Or.inl he) h
  · intro h
    exact UrisOk.of_docs_eq (updInfo_docs _ _ _) h

/-! ### one schema of resolveURIs -/

theorem declared_d7_nil (n : Node) (h : n.id = "" ∨ n.ref ≠ "" ∨ idFragment n.id = "") :
    declaredAnchors .d7 n = [] := by
  unfold declaredAnchors
  rcases h with h | h | h <;> simp [h]

theorem mem_declared_d7 (n : Node) (e : String × Bool) (h : e ∈ declaredAnchors .d7 n) :
    e = (dropHash n.id, false) ∧ e.1 ≠ "" := by
  unfold declaredAnchors at h
  simp only [List.mem_filter] at h
  obtain ⟨h1, h2⟩ := h
  split at h1
  · simp only [List.mem_singleton] at h1
    exact ⟨h1, by simpa using h2⟩
  · simp at h1

theorem declared_d7_mem (n : Node) (h1 : n.id ≠ "") (h2 : n.ref = "") (h3 : idFragment n.id ≠ "")
    (h4 : dropHash n.id ≠ "") : (dropHash n.id, false) ∈ declaredAnchors .d7 n := by
  unfold declaredAnchors
  simp [h1, h2, h3, h4]

theorem nodeStep_spec (D : Doc) (s : RState) (id base : NodeId) (n : Node) (bi : Info)
    (s1 : RState) (base1 : NodeId)
    (hn : D.st.get? id = some n) (hid : (lookupNat id s.infos).isSome = true)
    (hb : (lookupNat base s.infos).isSome = true)
    (hstep : uriStep D.draft D.root s id base n bi = .ok (s1, base1))
    (hr : D.ResourceRoot id (if startsResource D.draft n = true then id else base)) :
    base1 = (if startsResource D.draft n = true then id else base) ∧
    Done D (postStep D.draft s1 id base1 n).infos id ∧
    (∀ p, p ≠ id → Done D s.infos p → Done D (postStep D.draft s1 id base1 n).infos p) ∧
    (Sound D s.infos → Sound D (postStep D.draft s1 id base1 n).infos) ∧
    (UrisOk D s → UrisOk D (postStep D.draft s1 id base1 n)) := by
  cases hdr : D.draft with
  | d2020 =>
    rw [hdr] at hstep hr
    rcases uriStep_d2020 _ _ _ _ _ _ _ _ hstep with ⟨h0, rfl, rfl⟩ | ⟨h0, rfl, idURI, bu, _, _, rfl⟩
    · have hs : startsResource .d2020 n = false := by simp [startsResource, h0]
      rw [hs] at hr ⊢
      simp only [Bool.false_eq_true, if_false] at hr ⊢
      exact ⟨trivial, post2020 D hdr s1 id base1 n hn hid hb hr⟩
    · have hs : startsResource .d2020 n = true := by simp [startsResource, h0]
      rw [hs] at hr ⊢
      simp only [if_true] at hr ⊢
      have hk := newUriState_keeps D.root s base1 (Uri.resolveReference bu idURI)
      obtain ⟨a, b, c, d⟩ := post2020 D hdr _ base1 base1 n hn (hk.1 _ hid) (hk.1 _ hid) hr
      exact ⟨trivial, a, fun p hp h => b p hp (newUriState_done D _ _ _ _ p h),
        fun h => c (newUriState_sound D _ _ _ _ h), fun h => d (newUriState_urisOk D _ _ _ hr h)⟩
  | d7 =>
    rw [hdr] at hstep hr
    rcases uriStep_d7 _ _ _ _ _ _ _ _ hstep with ⟨h0, rfl, rfl⟩ | ⟨h1, h2, h3, rfl, rfl⟩ |
      ⟨h1, h2, h3, rfl, idURI, bu, _, _, rfl⟩
    · have hs : startsResource .d7 n = false := by
        rcases h0 with h0 | h0 <;> simp [startsResource, h0]
      rw [hs] at hr ⊢
      simp only [Bool.false_eq_true, if_false] at hr ⊢
      have hnil : declaredAnchors .d7 n = [] :=
        declared_d7_nil n (h0.elim Or.inl (fun h => Or.inr (Or.inl h)))
      exact ⟨trivial, post7 D hdr s1 id base1 n hn hid hr (by rw [hnil]; intro e he; simp at he)⟩
    · have hs : startsResource .d7 n = false := by simp [startsResource, h3]
      rw [hs] at hr ⊢
      simp only [Bool.false_eq_true, if_false] at hr ⊢
      have hk := setAnchor_keeps s base1 id (dropHash n.id) false
      obtain ⟨a, b, c, d⟩ := post7 D hdr _ id base1 n hn (hk.1 _ hid) hr (by
        intro e he
        obtain ⟨he, hne⟩ := mem_declared_d7 n e he
        subst he
        exact setAnchor_registered s base1 id (dropHash n.id) false hb hne)
      refine ⟨trivial, a, fun p hp h => b p hp (done_setAnchor D _ _ _ _ _ p h), fun h => c ?_,
        fun h => d (UrisOk.of_docs_eq (setAnchor_docs _ _ _ _ _) h)⟩
      apply sound_setAnchor D s base1 id _ false hr _ h
      intro hne
      exact ⟨n, hn, by rw [hdr]; exact declared_d7_mem n h1 h2 h3 hne⟩
    · have hs : startsResource .d7 n = true := by simp [startsResource, h1, h2, h3]
      rw [hs] at hr ⊢
      simp only [if_true] at hr ⊢
      have hk := newUriState_keeps D.root s base1 (Uri.resolveReference bu idURI)
      have hnil : declaredAnchors .d7 n = [] := declared_d7_nil n (Or.inr (Or.inr h3))
      obtain ⟨a, b, c, d⟩ := post7 D hdr _ base1 base1 n hn (hk.1 _ hid) hr
        (by rw [hnil]; intro e he; simp at he)
      exact ⟨trivial, a, fun p hp h => b p hp (newUriState_done D _ _ _ _ p h),
        fun h => c (newUriState_sound D _ _ _ _ h), fun h => d (newUriState_urisOk D _ _ _ hr h)⟩

/-! ### the worklist of resolveURIs -/

/-- a worklist entry `(schema, base)`: the root with itself, or a child together with the resource
    root of its parent -/
def WorkOk (D : Doc) (w : NodeId × NodeId) : Prop :=
  (w.1 = D.root ∧ w.2 = D.root) ∨ ∃ p, D.ResourceRoot p w.2 ∧ isChild D.st p w.1 = true

theorem workOk_resourceRoot (D : Doc) (id base : NodeId) (n : Node) (hw : WorkOk D (id, base))
    (hn : D.st.get? id = some n) :
    D.ResourceRoot id (if startsResource D.draft n = true then id else base) := by
  rcases hw with ⟨h1, h2⟩ | ⟨p, hp, hc⟩
  · simp only at h1 h2
    subst h1 h2
    split <;> exact resourceRoot_root D
  · have := resourceRoot_child D p base id hp hc
    have hs : startsResourceAt D.st D.draft id = startsResource D.draft n := by
      unfold startsResourceAt; rw [hn]
    rw [hs] at this
    exact this

theorem resolveURIsLoop_desig (env : Env) (D : Doc) (hst : D.st = env.st) :
    ∀ fuel work s s' (P : NodeId → Prop),
      resolveURIsLoop env D.draft D.root fuel work s = .ok s' →
      (∀ w ∈ work, WorkOk D w) →
      (∀ p, P p → Done D s.infos p) →
      (∀ p, P p → ∀ c, isChild D.st p c = true → P c ∨ c ∈ work.map (·.1)) →
      ∃ P' : NodeId → Prop, (∀ p, P p → P' p) ∧ (∀ w ∈ work, P' w.1) ∧
        (∀ p, P' p → Done D s'.infos p) ∧
        (∀ p, P' p → ∀ c, isChild D.st p c = true → P' c) ∧
        (Sound D s.infos → Sound D s'.infos) ∧ (UrisOk D s → UrisOk D s') := by
  intro fuel
  induction fuel with
  | zero => intro work s s' P h; simp [resolveURIsLoop] at h
  | succ fuel ih =>
    intro work s s' P h hwork hdone hcl
    cases work with
    | nil =>
      simp [resolveURIsLoop] at h; subst h
      exact ⟨P, fun _ h => h, fun _ h => absurd h (by simp), hdone,
        fun p hp c hc => (hcl p hp c hc).resolve_right (by simp), fun h => h, fun h => h⟩
    | cons w work =>
      obtain ⟨id, base⟩ := w
      obtain ⟨n, i0, bi, s1, base1, hn, hi, hb, hstep, hrest⟩ :=
        resolveURIsLoop_unfold env _ _ _ _ _ _ _ _ h
      rw [← hst] at hn
      have hr := workOk_resourceRoot D id base n (hwork _ (by simp)) hn
      obtain ⟨hb1, dId, dOther, hsound, huris⟩ :=
        nodeStep_spec D s id base n bi s1 base1 hn (by rw [hi]; rfl) (by rw [hb]; rfl) hstep hr
      rw [← hb1] at hr
      obtain ⟨P', hsub, hw', hdone', hcl', hsound', huris'⟩ :=
        ih _ _ _ (fun p => P p ∨ p = id) hrest
          (by
            intro w hw
            rcases List.mem_append.mp hw with hw | hw
            · obtain ⟨c, hc, rfl⟩ := List.mem_map.mp hw
              exact Or.inr ⟨id, hr, (isChild_iff _ _ _).mpr ⟨n, hn, hc⟩⟩
            · exact hwork w (List.mem_cons_of_mem _ hw))
          (by
            intro p hp
            by_cases hpid : p = id
            · subst hpid; exact dId
            · exact dOther p hpid (hdone p (hp.resolve_right hpid)))
          (by
            intro p hp c hc
            rcases hp with hp | hp
            · rcases hcl p hp c hc with h1 | h1
              · exact Or.inl (Or.inl h1)
              · simp only [List.map_cons, List.mem_cons] at h1
                rcases h1 with h1 | h1
                · exact Or.inl (Or.inr h1)
                · right
                  rw [List.map_append]
                  exact List.mem_append_right _ h1
            · subst hp
              obtain ⟨n', hn', hc'⟩ := (isChild_iff _ _ _).mp hc
              rw [hn] at hn'
              simp only [Option.some.injEq] at hn'
              subst hn'
              right
              rw [List.map_append]
              apply List.mem_append_left
              rw [List.map_map]
              exact List.mem_map.mpr ⟨c, hc', rfl⟩)
      refine ⟨P', fun p hp => hsub p (Or.inl hp), ?_, hdone', hcl', fun h => hsound' (hsound h),
        fun h => huris' (huris h)⟩
      intro w hw
      rcases List.mem_cons.mp hw with hw | hw
      · subst hw; exact hsub id (Or.inr rfl)
      · exact hw' w (List.mem_append_right _ hw)

/-- resolveURIs on a whole document: every schema of the document gets its resource root as base,
    declared names are registered, registered names are declared -/
theorem resolveURIs_desig (env : Env) (D : Doc) (hst : D.st = env.st) (fuel : Nat) (s s' : RState)
    (h : resolveURIsLoop env D.draft D.root fuel [(D.root, D.root)] s = .ok s') :
    (∀ p, D.Has p → Done D s'.infos p) ∧ (Sound D s.infos → Sound D s'.infos) ∧
    (UrisOk D s → UrisOk D s') := by
  obtain ⟨P', _, hw, hdone, hcl, hsound, huris⟩ :=
    resolveURIsLoop_desig env D hst fuel _ s s' (fun _ => False) h
      (by intro w hw; simp only [List.mem_singleton] at hw; subst hw; exact Or.inl ⟨rfl, rfl⟩)
      (fun _ hp => absurd hp id) (fun _ hp => absurd hp id)
  refine ⟨?_, hsound, huris⟩
  intro p ⟨l, hl⟩
  exact hdone p (closed_has D.st P' hcl l D.root p (hw (D.root, D.root) (by simp)) hl)

/-! ### resolveRef, unfolded into facts about the tables -/

/-- how resolveRef finds the resource named by the fragment-less URI -/
def Located (env : Env) (recDoc : ResolveDoc) (root : NodeId) (s : RState) (d : DocRes) (u : Url)
    (r : NodeId) (s' : RState) : Prop :=
  let key := Uri.toString (Uri.dropFragment u)
  (Json.lookup key d.uris = some r ∧ s' = s) ∨
  (Json.lookup key d.uris = none ∧ Json.lookup key s.loaded = some r ∧ s' = mergeKnown s root r) ∨
  (Json.lookup key d.uris = none ∧ Json.lookup key s.loaded = none ∧
    ∃ tbl s2, env.loader = some tbl ∧ Json.lookup key tbl = some (.doc r) ∧
      recDoc r (Uri.dropFragment u) d.draft { s with log := s.log ++ [key] } = .ok s2 ∧
      s' = mergeKnown s2 root r)

/-- the fragment dispatch of resolveRef, anchors read from the table -/
def TableFrag (env : Env) (s' : RState) (root r : NodeId) (frag : String) (o : RefOut) : Prop :=
  if (frag != "" && frag.toList.head? != some '/') = true then
    ∃ rInfo a, s'.info? root r = some rInfo ∧ Json.lookup frag rInfo.anchors = some a ∧
      o.target = a.schema ∧ o.dynFrag = (if a.dynamic then frag else "")
  else Pointer.dereference env.st true true r frag = .ok o.target ∧ o.dynFrag = ""

theorem resolveRef_unfold (env : Env) (recDoc : ResolveDoc) (root : NodeId) (s : RState) (id : NodeId)
    (ref : String) (o : RefOut) (s' : RState)
    (h : resolveRef env recDoc root s id ref = .ok (o, s')) :
    ∃ refURI0 info base bInfo bu d r,
      Uri.parse ref = .ok refURI0 ∧ s.info? root id = some info ∧ info.base = some base ∧
      s.info? root base = some bInfo ∧ bInfo.uri = some bu ∧ s.doc? root = some d ∧
      Located env recDoc root s d (Uri.resolveReference bu refURI0) r s' ∧
      TableFrag env s' root r (Uri.resolveReference bu refURI0).fragment o := by
  unfold resolveRef at h
  rw [bind_eq_ok] at h
  obtain ⟨refURI0, hp, h⟩ := h
  split at h
  · simp at h
  rename_i info hinfo
  split at h
  · simp at h
  rename_i base hbase
  split at h
  · simp at h
  rename_i bInfo hbInfo
  split at h
  · rename_i bu d hbu hd
    simp only at h
    rw [bind_eq_ok] at h
    obtain ⟨⟨r, s1⟩, hfound, h⟩ := h
    have h1 : Located env recDoc root s d (Uri.resolveReference bu refURI0) r s1 := by
      unfold Located
      simp only
      split at hfound
      · rename_i t ht
        simp only [Res.ok.injEq, Prod.mk.injEq] at hfound
        left; rw [← hfound.1, ← hfound.2]; exact ⟨ht, rfl⟩
      · rename_i hnone
        split at hfound
        · rename_i lroot hl
          simp only [Res.ok.injEq, Prod.mk.injEq] at hfound
          right; left; rw [← hfound.1, ← hfound.2]; exact ⟨hnone, hl, rfl⟩
        · rename_i hnone2
          right; right
          split at hfound
          · simp at hfound
          · rename_i tbl htbl
            split at hfound
            · simp at hfound
            · simp at hfound
            · simp at hfound
            · rename_i lroot hl
              rw [bind_eq_ok] at hfound
              obtain ⟨s2, hdoc, hfound⟩ := hfound
              simp only [Res.ok.injEq, Prod.mk.injEq] at hfound
              rw [← hfound.1, ← hfound.2]
              exact ⟨hnone, hnone2, tbl, s2, htbl, hl, hdoc, rfl⟩
    have h2 : s' = s1 ∧ TableFrag env s1 root r (Uri.resolveReference bu refURI0).fragment o := by
      unfold TableFrag
      simp only at h
      split at h
      · rename_i hc
        rw [if_pos hc]
        split at h
        · simp at h
        · rename_i rInfo hr
          split at h
          · simp at h
          · rename_i a ha
            simp only [Res.ok.injEq, Prod.mk.injEq] at h
            refine ⟨h.2.symm, rInfo, a, hr, ha, ?_, ?_⟩
            · rw [← h.1]
            · rw [← h.1]
      · rename_i hc
        rw [if_neg hc]
        rw [bind_eq_ok] at h
        obtain ⟨t, ht, h⟩ := h
        simp only [Res.ok.injEq, Prod.mk.injEq] at h
        refine ⟨h.2.symm, ?_, ?_⟩
        · rw [← h.1]; exact ht
        · rw [← h.1]
    rw [h2.1]
    exact ⟨refURI0, info, base, bInfo, bu, d, r, hp, hinfo, hbase, hbInfo, hbu, hd, h1, h2.2⟩
  · simp at h

theorem dereference_empty (st : Store) (strict nie : Bool) (r t : NodeId)
    (h : Pointer.dereference st strict nie r "" = .ok t) : t = r := by
  unfold Pointer.dereference at h
  have hp : Pointer.parse "" = .ok [] := by decide
  rw [hp] at h
  simp only [Res.bind_ok, Pointer.walk] at h
  split at h
  · simp at h
  · simp only [Res.ok.injEq] at h; exact h.symm

/-- with sound anchor tables, the table dispatch is the declarative one -/
theorem tableFrag_desig (env : Env) (D : Doc) (hst : D.st = env.st) (s' : RState) (root r : NodeId)
    (frag : String) (o : RefOut) (hs : Sound D s'.infos) (hr : D.Has r)
    (h : TableFrag env s' root r frag o) : D.FragTarget r frag o.target := by
  unfold TableFrag at h
  unfold Doc.FragTarget
  split at h
  · rename_i hc
    simp only [Bool.and_eq_true, bne_iff_ne, ne_eq] at hc
    rw [if_neg hc.1, if_neg hc.2]
    obtain ⟨rInfo, a, hri, ha, ht, _⟩ := h
    have := hs r rInfo (info?_lookup _ _ _ _ hri) hr _ (lookup_mem _ _ _ ha)
    rw [ht]
    exact ⟨this.1, _, this.2⟩
  · rename_i hc
    by_cases hf : frag = ""
    · rw [if_pos hf]
      subst hf
      exact dereference_empty _ _ _ _ _ h.1
    · rw [if_neg hf]
      have : frag.toList.head? = some '/' := by
        simp only [Bool.and_eq_true, bne_iff_ne, ne_eq, not_and, Decidable.not_not] at hc
        exact hc hf
      rw [if_pos this, hst]
      exact h.1

/-! ### what resolveRefs leaves alone -/

/-- the part of an info object resolveURIs computes -/
def fixedOf (i : Info) : Option NodeId × Option Url × List (String × AnchorInfo) := (i.base, i.uri, i.anchors)

/-- base / uri / anchors of every info object, uris / draft of every document, and `loaded` are the same -/
def Frozen (s s' : RState) : Prop :=
  (∀ k, (lookupNat k s'.infos).map fixedOf = (lookupNat k s.infos).map fixedOf) ∧
  (∀ r, (s'.doc? r).map (fun d => (d.uris, d.draft)) = (s.doc? r).map (fun d => (d.uris, d.draft))) ∧
  s'.loaded = s.loaded

theorem Frozen.refl (s : RState) : Frozen s s := ⟨fun _ => rfl, fun _ => rfl, rfl⟩
theorem Frozen.trans {a b c : RState} (h1 : Frozen a b) (h2 : Frozen b c) : Frozen a c :=
  ⟨fun k => (h2.1 k).trans (h1.1 k), fun r => (h2.2.1 r).trans (h1.2.1 r), h2.2.2.trans h1.2.2⟩

theorem Frozen.info {s s' : RState} (h : Frozen s s') (k : NodeId) (i : Info)
    (hi : lookupNat k s.infos = some i) :
    ∃ i', lookupNat k s'.infos = some i' ∧ i'.base = i.base ∧ i'.uri = i.uri ∧ i'.anchors = i.anchors := by
  have := h.1 k
  rw [hi] at this
  cases h' : lookupNat k s'.infos with
  | none => rw [h'] at this; simp at this
  | some i' =>
    rw [h'] at this
    simp only [Option.map_some, Option.some.injEq, fixedOf, Prod.mk.injEq] at this
    exact ⟨i', rfl, this.1, this.2.1, this.2.2⟩

theorem Frozen.info_rev {s s' : RState} (h : Frozen s s') (k : NodeId) (i' : Info)
    (hi : lookupNat k s'.infos = some i') :
    ∃ i, lookupNat k s.infos = some i ∧ i'.base = i.base ∧ i'.uri = i.uri ∧ i'.anchors = i.anchors := by
  have := h.1 k
  rw [hi] at this
  cases h' : lookupNat k s.infos with
  | none => rw [h'] at this; simp at this
  | some i =>
    rw [h'] at this
    simp only [Option.map_some, Option.some.injEq, fixedOf, Prod.mk.injEq] at this
    exact ⟨i, rfl, this.1, this.2.1, this.2.2⟩

theorem Frozen.doc {s s' : RState} (h : Frozen s s') (r : NodeId) (d : DocRes)
    (hd : s.doc? r = some d) : ∃ d', s'.doc? r = some d' ∧ d'.uris = d.uris ∧ d'.draft = d.draft := by
  have := h.2.1 r
  rw [hd] at this
  cases h' : s'.doc? r with
  | none => rw [h'] at this; simp at this
  | some d' =>
    rw [h'] at this
    simp only [Option.map_some, Option.some.injEq, Prod.mk.injEq] at this
    exact ⟨d', rfl, this.1, this.2⟩

theorem Frozen.doc_rev {s s' : RState} (h : Frozen s s') (r : NodeId) (d' : DocRes)
    (hd : s'.doc? r = some d') : ∃ d, s.doc? r = some d ∧ d'.uris = d.uris ∧ d'.draft = d.draft := by
  have := h.2.1 r
  rw [hd] at this
  cases h' : s.doc? r with
  | none => rw [h'] at this; simp at this
  | some d =>
    rw [h'] at this
    simp only [Option.map_some, Option.some.injEq, Prod.mk.injEq] at this
    exact ⟨d, rfl, this.1, this.2⟩

theorem doc?_of_docs_eq {a b : RState} (h : b.docs = a.docs) (r : NodeId) : b.doc? r = a.doc? r := by
  unfold RState.doc?; rw [h]

theorem frozen_updInfo (s : RState) (k : NodeId) (f : Info → Info) (hf : ∀ i, fixedOf (f i) = fixedOf i) :
    Frozen s (s.updInfo k f) := by
  refine ⟨?_, ?_, (updInfo_same s k f).2⟩
  · intro x
    rw [updInfo_infos_lookup]
    split
    · rw [Option.map_map]
      congr 1
      funext i
      exact hf i
    · rfl
  · intro r
    rw [doc?_of_docs_eq (updInfo_docs s k f)]

theorem frozen_mergeKnown (s : RState) (a b : NodeId) : Frozen s (mergeKnown s a b) := by
  refine ⟨fun k => by rw [mergeKnown_infos], ?_, (mergeKnown_same s a b).2⟩
  intro r
  unfold mergeKnown
  split
  · rename_i d l hd hl
    rw [doc?_setDoc]
    simp only
    split
    · rename_i hr
      have : d.root = a := doc?_root _ _ _ hd
      rw [← hr, this, hd]
      rfl
    · rfl
  · rfl

theorem done_frozen (D : Doc) {s s' : RState} (h : Frozen s s') (p : NodeId) (hd : Done D s.infos p) :
    Done D s'.infos p := by
  obtain ⟨i, r, hi, hb, hr, hreg⟩ := hd
  obtain ⟨i', hi', hb', _, _⟩ := h.info p i hi
  refine ⟨i', r, hi', by rw [hb', hb], hr, ?_⟩
  intro n hn e he
  obtain ⟨ri, hri, hl⟩ := hreg n hn e he
  obtain ⟨ri', hri', _, _, ha⟩ := h.info r ri hri
  exact ⟨ri', hri', by rw [ha]; exact hl⟩

theorem sound_frozen (D : Doc) {s s' : RState} (h : Frozen s s') (hs : Sound D s.infos) :
    Sound D s'.infos := by
  intro b i' hi' hb e he
  obtain ⟨i, hi, _, _, ha⟩ := h.info_rev b i' hi'
  rw [ha] at he
  exact hs b i hi hb e he

theorem urisOk_frozen (D : Doc) {s s' : RState} (h : Frozen s s') (hs : UrisOk D s) : UrisOk D s' := by
  intro d' hd' e he
  obtain ⟨d, hd, hu, _⟩ := h.doc_rev D.root d' hd'
  rw [hu] at he
  exact hs d hd e he

/-! ### one reference, resolved without loading a document -/

/-- the target `t` recorded for `$ref: ref` in schema `id` is the designated one: the reference is
    resolved against the URI of the resource root of `id`, the fragment-less URI is looked up in the
    document's `uris`, then in `loaded`, and the fragment selects inside the resource found -/
def RefDesig (D : Doc) (s : RState) (id : NodeId) (ref : String) (t : NodeId) : Prop :=
  ∃ b bi bu refURI d r, D.ResourceRoot id b ∧ lookupNat b s.infos = some bi ∧ bi.uri = some bu ∧
    Uri.parse ref = .ok refURI ∧ s.doc? D.root = some d ∧
    Json.lookup (Uri.toString (Uri.dropFragment (Uri.resolveReference bu refURI))) (d.uris ++ s.loaded) = some r ∧
    D.FragTarget r (Uri.resolveReference bu refURI).fragment t

theorem refDesig_frozen (D : Doc) {s s' : RState} (h : Frozen s s') (id : NodeId) (ref : String) (t : NodeId)
    (hd : RefDesig D s id ref t) : RefDesig D s' id ref t := by
  obtain ⟨b, bi, bu, refURI, d, r, hb, hbi, hbu, hp, hdoc, hl, hf⟩ := hd
  obtain ⟨bi', hbi', _, hu, _⟩ := h.info b bi hbi
  obtain ⟨d', hd', huris, _⟩ := h.doc D.root d hdoc
  exact ⟨b, bi', bu, refURI, d', r, hb, hbi', by rw [hu, hbu], hp, hd', by rw [huris, h.2.2]; exact hl, hf⟩

/-- what resolveURIs established for the document, plus: everything cached so far is this document -/
structure StaticInv (D : Doc) (s : RState) : Prop where
  done : ∀ p, D.Has p → Done D s.infos p
  sound : Sound D s.infos
  uris : UrisOk D s
  loaded : ∀ e ∈ s.loaded, e.2 = D.root

theorem staticInv_frozen (D : Doc) {s s' : RState} (h : Frozen s s') (hs : StaticInv D s) : StaticInv D s' :=
  ⟨fun p hp => done_frozen D h p (hs.done p hp), sound_frozen D h hs.sound, urisOk_frozen D h hs.uris,
    fun e he => hs.loaded e (by rw [← h.2.2]; exact he)⟩

theorem lookup_append_some {α} (k : String) (x y : List (String × α)) (v : α)
    (h : Json.lookup k x = some v) : Json.lookup k (x ++ y) = some v := by
  induction x with
  | nil => simp at h
  | cons e r ih =>
    obtain ⟨k', v'⟩ := e
    rw [List.cons_append, Json.lookup_cons]
    rw [Json.lookup_cons] at h
    split
    · rename_i hk; rw [if_pos hk] at h; exact h
    · rename_i hk; rw [if_neg hk] at h; exact ih h

theorem lookup_append_none {α} (k : String) (x y : List (String × α))
    (h : Json.lookup k x = none) : Json.lookup k (x ++ y) = Json.lookup k y := by
  induction x with
  | nil => rfl
  | cons e r ih =>
    obtain ⟨k', v'⟩ := e
    rw [List.cons_append, Json.lookup_cons]
    rw [Json.lookup_cons] at h
    split
    · rename_i hk; rw [if_pos hk] at h; simp at h
    · rename_i hk; rw [if_neg hk] at h; exact ih h

theorem resolveRef_local (env : Env) (recDoc : ResolveDoc) (hrec : RecSpec env recDoc) (D : Doc)
    (hst : D.st = env.st) (s : RState) (id : NodeId) (ref : String) (o : RefOut) (s' : RState)
    (hinv : StaticInv D s) (hid : D.Has id)
    (h : resolveRef env recDoc D.root s id ref = .ok (o, s')) (hlog : s'.log = s.log) :
    s'.infos = s.infos ∧ Frozen s s' ∧ RefDesig D s id ref o.target := by
  obtain ⟨refURI0, info, base, bInfo, bu, d, r, hp, hinfo, hbase, hbInfo, hbu, hd, hloc, hfrag⟩ :=
    resolveRef_unfold env recDoc D.root s id ref o s' h
  obtain ⟨i, b, hi, hb, hr, _⟩ := hinv.done id hid
  rw [info?_lookup _ _ _ _ hinfo] at hi
  simp only [Option.some.injEq] at hi
  subst hi
  rw [hbase] at hb
  simp only [Option.some.injEq] at hb
  subst hb
  unfold Located at hloc
  simp only at hloc
  rcases hloc with ⟨hl, rfl⟩ | ⟨hl1, hl2, rfl⟩ | ⟨_, _, tbl, s2, _, _, hdoc, rfl⟩
  · refine ⟨rfl, Frozen.refl _, base, bInfo, bu, refURI0, d, r, hr, info?_lookup _ _ _ _ hbInfo, hbu, hp, hd,
      lookup_append_some _ _ _ _ hl, ?_⟩
    have hrr := hinv.uris d hd _ (lookup_mem _ _ _ hl)
    exact tableFrag_desig env D hst _ _ _ _ _ hinv.sound (ResourceRoot.has hrr) hfrag
  · refine ⟨mergeKnown_infos _ _ _, frozen_mergeKnown _ _ _, base, bInfo, bu, refURI0, d, r, hr,
      info?_lookup _ _ _ _ hbInfo, hbu, hp, hd, by rw [lookup_append_none _ _ _ hl1]; exact hl2, ?_⟩
    have hroot : r = D.root := hinv.loaded _ (lookup_mem _ _ _ hl2)
    have hs : Sound D (mergeKnown s D.root r).infos := by rw [mergeKnown_infos]; exact hinv.sound
    exact tableFrag_desig env D hst _ _ _ _ _ hs (by rw [hroot]; exact ResourceRoot.has (resourceRoot_root D)) hfrag
  · exfalso
    obtain ⟨⟨l, hl⟩, _⟩ := (hrec _ _ _ _ _ hdoc).1
    rw [(mergeKnown_same _ _ _).1, hl] at hlog
    have := congrArg List.length hlog
    simp only [List.length_append, List.length_cons, List.length_nil] at this
    omega

/-! ### resolveRefs over one document, nothing loaded -/

/-- schema `id`, if it carries a `$ref`, has a recorded target, and it is the designated one -/
def RefOk (D : Doc) (s : RState) (id : NodeId) : Prop :=
  ∀ n, D.st.get? id = some n → n.ref ≠ "" →
    ∃ info t, lookupNat id s.infos = some info ∧ info.resolvedRef = some t ∧ RefDesig D s id n.ref t

/-- `$ref` targets outside `ids` are untouched -/
def RefFrame (ids : List NodeId) (s s' : RState) : Prop :=
  ∀ k, k ∉ ids → (lookupNat k s'.infos).map (·.resolvedRef) = (lookupNat k s.infos).map (·.resolvedRef)

theorem log_squeeze {a b c : RState} (h1 : Ext a b) (h2 : Ext b c) (h : c.log = a.log) :
    b.log = a.log ∧ c.log = b.log := by
  obtain ⟨⟨l1, e1⟩, _⟩ := h1
  obtain ⟨⟨l2, e2⟩, _⟩ := h2
  have : a.log ++ (l1 ++ l2) = a.log ++ [] := by
    rw [← List.append_assoc, ← e1, ← e2, h]; simp
  have := List.append_cancel_left this
  have hl1 : l1 = [] := (List.append_eq_nil_iff.mp this).1
  have hl2 : l2 = [] := (List.append_eq_nil_iff.mp this).2
  subst hl1 hl2
  simp only [List.append_nil] at e1 e2
  exact ⟨e1, e2⟩

theorem has_child (D : Doc) (p c : NodeId) (hp : D.Has p) (hc : isChild D.st p c = true) : D.Has c := by
  obtain ⟨l, hl⟩ := hp
  exact ⟨l ++ [c], isLineage_snoc _ _ _ _ _ hl hc⟩

theorem allNodes_has (D : Doc) : ∀ fuel work, (∀ w ∈ work, D.Has w) →
    ∀ id ∈ allNodes D.st fuel work, D.Has id := by
  intro fuel
  induction fuel with
  | zero => intro work _ id h; simp [allNodes] at h
  | succ fuel ih =>
    intro work hw id h
    cases work with
    | nil => simp [allNodes] at h
    | cons w work =>
      rw [allNodes] at h
      split at h
      · rename_i n hn
        rcases List.mem_cons.mp h with h | h
        · subst h; exact hw _ (by simp)
        · apply ih _ _ id h
          intro x hx
          rcases List.mem_append.mp hx with hx | hx
          · exact has_child D w x (hw w (by simp)) ((isChild_iff _ _ _).mpr ⟨n, hn, hx⟩)
          · exact hw x (List.mem_cons_of_mem _ hx)
      · exact ih _ (fun x hx => hw x (List.mem_cons_of_mem _ hx)) id h

theorem resolveRefsLoop_local (env : Env) (recDoc : ResolveDoc) (hrec : RecSpec env recDoc) (D : Doc)
    (hst : D.st = env.st) :
    ∀ ids s s', resolveRefsLoop env recDoc D.root ids s = .ok s' → s'.log = s.log →
      StaticInv D s → (∀ id ∈ ids, D.Has id) →
      Frozen s s' ∧ RefFrame ids s s' ∧ ∀ id ∈ ids, RefOk D s' id := by
  intro ids
  induction ids with
  | nil =>
    intro s s' h _ _ _
    simp [resolveRefsLoop] at h; subst h
    exact ⟨Frozen.refl _, fun _ _ => rfl, fun _ h => absurd h (by simp)⟩
  | cons id rest ih =>
    intro s s' h hlog hinv hids
    rw [resolveRefsLoop] at h
    split at h
    · simp at h
    · rename_i n hn
      simp only at h
      rw [bind_eq_ok] at h
      obtain ⟨s1, h1, h⟩ := h
      rw [bind_eq_ok] at h
      obtain ⟨s2, h2, h⟩ := h
      have hid : D.Has id := hids id (by simp)
      have g1 : Ext s s1 ∧ (s1.log = s.log → Frozen s s1 ∧
          (∀ k, k ≠ id → lookupNat k s1.infos = lookupNat k s.infos) ∧
          (n.ref ≠ "" → ∃ info t, lookupNat id s1.infos = some info ∧ info.resolvedRef = some t ∧
            RefDesig D s id n.ref t)) := by
        split at h1
        · rw [bind_eq_ok] at h1
          obtain ⟨⟨o, sa⟩, hr, h1⟩ := h1
          simp only [Res.ok.injEq] at h1
          subst h1
          refine ⟨(resolveRef_spec env recDoc hrec _ _ _ _ _ _ hr).1.trans (updInfo_same _ _ _).ext, ?_⟩
          intro hl
          rw [(updInfo_same _ _ _).1] at hl
          obtain ⟨hinf, hfr, hdes⟩ := resolveRef_local env recDoc hrec D hst s id n.ref o sa hinv hid hr hl
          refine ⟨hfr.trans (frozen_updInfo _ _ _ (fun _ => rfl)), ?_, fun _ => ?_⟩
          · intro k hk
            rw [updInfo_infos_lookup, if_neg (fun e => hk e.symm), hinf]
          · obtain ⟨i, _, hi, _⟩ := hinv.done id hid
            rw [updInfo_infos_lookup, if_pos rfl, hinf, hi]
            exact ⟨_, o.target, rfl, rfl, hdes⟩
        · rename_i hne
          simp only [Res.ok.injEq] at h1
          subst h1
          exact ⟨Ext.refl _, fun _ => ⟨Frozen.refl _, fun _ _ => rfl, fun h => absurd (by simpa using h) hne⟩⟩
      have g2 : Ext s1 s2 ∧ (s2.log = s1.log → StaticInv D s1 → Frozen s1 s2 ∧
          (∀ k, k ≠ id → lookupNat k s2.infos = lookupNat k s1.infos) ∧
          (∀ i t, lookupNat id s1.infos = some i → i.resolvedRef = some t →
            ∃ i', lookupNat id s2.infos = some i' ∧ i'.resolvedRef = some t)) := by
        split at h2
        · rw [bind_eq_ok] at h2
          obtain ⟨⟨o, sb⟩, hr, h2⟩ := h2
          simp only [Res.ok.injEq] at h2
          subst h2
          refine ⟨(resolveRef_spec env recDoc hrec _ _ _ _ _ _ hr).1.trans (updInfo_same _ _ _).ext, ?_⟩
          intro hl hinv1
          rw [(updInfo_same _ _ _).1] at hl
          obtain ⟨hinf, hfr, _⟩ := resolveRef_local env recDoc hrec D hst s1 id n.dynamicRef o sb hinv1 hid hr hl
          refine ⟨hfr.trans (frozen_updInfo _ _ _ (fun _ => rfl)), ?_, ?_⟩
          · intro k hk
            rw [updInfo_infos_lookup, if_neg (fun e => hk e.symm), hinf]
          · intro i t hi ht
            rw [updInfo_infos_lookup, if_pos rfl, hinf, hi]
            exact ⟨_, rfl, ht⟩
        · simp only [Res.ok.injEq] at h2
          subst h2
          exact ⟨Ext.refl _, fun _ _ => ⟨Frozen.refl _, fun _ _ => rfl, fun i t hi ht => ⟨i, hi, ht⟩⟩⟩
      have e3 : Ext s2 s' := (resolveRefsLoop_spec env recDoc hrec _ _ _ _ h).1
      obtain ⟨hl1, hl23⟩ := log_squeeze g1.1 (g2.1.trans e3) hlog
      obtain ⟨hl2, hl3⟩ := log_squeeze g2.1 e3 hl23
      obtain ⟨f1, k1, r1⟩ := g1.2 hl1
      have hinv1 := staticInv_frozen D f1 hinv
      obtain ⟨f2, k2, r2⟩ := g2.2 hl2 hinv1
      have hinv2 := staticInv_frozen D f2 hinv1
      obtain ⟨f3, fr3, ok3⟩ := ih s2 s' h hl3 hinv2 (fun x hx => hids x (List.mem_cons_of_mem _ hx))
      refine ⟨f1.trans (f2.trans f3), ?_, ?_⟩
      · intro k hk
        have hk1 : k ≠ id := fun e => hk (by rw [e]; simp)
        have hk2 : k ∉ rest := fun e => hk (List.mem_cons_of_mem _ e)
        rw [fr3 k hk2, k2 k hk1, k1 k hk1]
      · intro x hx
        by_cases hxr : x ∈ rest
        · exact ok3 x hxr
        · have hxid : x = id := (List.mem_cons.mp hx).resolve_right hxr
          subst hxid
          intro n' hn' hne
          rw [hst, hn] at hn'
          simp only [Option.some.injEq] at hn'
          subst hn'
          obtain ⟨info, t, hi, ht, hdes⟩ := r1 hne
          obtain ⟨i2, hi2, ht2⟩ := r2 info t hi ht
          have := fr3 x hxr
          rw [hi2] at this
          cases h' : lookupNat x s'.infos with
          | none => rw [h'] at this; simp at this
          | some i' =>
            rw [h'] at this
            simp only [Option.map_some, Option.some.injEq] at this
            exact ⟨i', t, rfl, by rw [this, ht2], refDesig_frozen D (f1.trans (f2.trans f3)) _ _ _ hdes⟩

/-! ### resolver.resolve on one document, nothing loaded -/

theorem checkStructure_forall (st : Store) (P : Info → Prop) (hP : ∀ p, P { path := p }) :
    ∀ fuel work acc res, checkStructure st fuel work acc = .ok res →
      (∀ e ∈ acc, P e.2) → ∀ e ∈ res, P e.2 := by
  intro fuel
  induction fuel with
  | zero => intro work acc res h; simp [checkStructure] at h
  | succ fuel ih =>
    intro work acc res h hacc
    cases work with
    | nil => simp [checkStructure] at h; subst h; exact hacc
    | cons e work =>
      obtain ⟨id, path⟩ := e
      rw [checkStructure] at h
      split at h
      · simp at h
      · split at h
        · simp at h
        · apply ih _ _ _ h
          intro e he
          rcases List.mem_append.mp he with he | he
          · exact hacc e he
          · simp only [List.mem_singleton] at he
            subst he; exact hP _

theorem lookupNat_append_none {α} (k : Nat) (a b : List (Nat × α)) (h : lookupNat k a = none) :
    lookupNat k (a ++ b) = lookupNat k b := by
  induction a with
  | nil => rfl
  | cons e r ih =>
    obtain ⟨k', v⟩ := e
    simp only [List.cons_append, lookupNat] at h ⊢
    split
    · rename_i hk; rw [if_pos hk] at h; simp at h
    · rename_i hk; rw [if_neg hk] at h; exact ih h

theorem sound_append_fresh (D : Doc) (a fresh : List (NodeId × Info)) (ha : Sound D a)
    (hf : ∀ e ∈ fresh, e.2.anchors = []) : Sound D (a ++ fresh) := by
  intro b i hi hb e he
  cases h0 : lookupNat b a with
  | some i0 =>
    rw [lookupNat_append_of_isSome _ _ _ (by rw [h0]; rfl), h0] at hi
    simp only [Option.some.injEq] at hi
    subst hi
    exact ha b i0 h0 hb e he
  | none =>
    rw [lookupNat_append_none _ _ _ h0] at hi
    have := hf _ (lookupNat_mem _ _ _ hi)
    simp only at this
    rw [this] at he
    simp at he

/-- the draft recorded for a document is not changed by resolveURIs -/
def DraftKept (s s' : RState) : Prop :=
  ∀ r d, s.doc? r = some d → ∃ d', s'.doc? r = some d' ∧ d'.draft = d.draft

theorem DraftKept.refl (s : RState) : DraftKept s s := fun _ d h => ⟨d, h, rfl⟩
theorem DraftKept.trans {a b c : RState} (h1 : DraftKept a b) (h2 : DraftKept b c) : DraftKept a c := by
  intro r d hd
  obtain ⟨d1, hd1, e1⟩ := h1 r d hd
  obtain ⟨d2, hd2, e2⟩ := h2 r d1 hd1
  exact ⟨d2, hd2, e2.trans e1⟩
theorem DraftKept.of_docs_eq {a b : RState} (h : b.docs = a.docs) : DraftKept a b :=
  fun r d hd => ⟨d, by rw [doc?_of_docs_eq h]; exact hd, rfl⟩

theorem newUriState_draftKept (root : NodeId) (s : RState) (id : NodeId) (u : Url) :
    DraftKept s (newUriState root s id u) := by
  unfold newUriState
  simp only
  split
  · rename_i d hd
    intro r d0 hd0
    rw [doc?_setDoc]
    simp only
    split
    · rename_i hr
      have h1 : d.root = root := doc?_root _ _ _ hd
      rw [doc?_of_docs_eq (updInfo_docs _ _ _)] at hd
      rw [h1] at hr
      subst hr
      rw [hd] at hd0
      simp only [Option.some.injEq] at hd0
      subst hd0
      exact ⟨_, rfl, rfl⟩
    · exact ⟨d0, by rw [doc?_of_docs_eq (updInfo_docs _ _ _)]; exact hd0, rfl⟩
  · exact DraftKept.of_docs_eq (updInfo_docs _ _ _)

theorem postStep_docs (draft : Draft) (s : RState) (id base : NodeId) (n : Node) :
    (postStep draft s id base n).docs = s.docs := by
  unfold postStep
  simp only
  split
  · rw [setAnchor_docs, setAnchor_docs, updInfo_docs]
  · rw [updInfo_docs]

theorem uriStep_draftKept (draft : Draft) (root : NodeId) (s : RState) (id base : NodeId) (n : Node)
    (bi : Info) (s1 : RState) (base1 : NodeId) (h : uriStep draft root s id base n bi = .ok (s1, base1)) :
    DraftKept s s1 := by
  cases draft with
  | d2020 =>
    rcases uriStep_d2020 _ _ _ _ _ _ _ _ h with ⟨_, rfl, _⟩ | ⟨_, _, _, _, _, _, rfl⟩
    · exact DraftKept.refl _
    · exact newUriState_draftKept _ _ _ _
  | d7 =>
    rcases uriStep_d7 _ _ _ _ _ _ _ _ h with ⟨_, rfl, _⟩ | ⟨_, _, _, rfl, _⟩ | ⟨_, _, _, _, _, _, _, _, rfl⟩
    · exact DraftKept.refl _
    · exact DraftKept.of_docs_eq (setAnchor_docs _ _ _ _ _)
    · exact newUriState_draftKept _ _ _ _

theorem resolveURIsLoop_draftKept (env : Env) (draft : Draft) (root : NodeId) :
    ∀ fuel work s s', resolveURIsLoop env draft root fuel work s = .ok s' → DraftKept s s' := by
  intro fuel
  induction fuel with
  | zero => intro work s s' h; simp [resolveURIsLoop] at h
  | succ fuel ih =>
    intro work s s' h
    cases work with
    | nil => simp [resolveURIsLoop] at h; subst h; exact DraftKept.refl _
    | cons w work =>
      obtain ⟨id, base⟩ := w
      obtain ⟨n, i0, bi, s1, base1, _, _, _, hstep, hrest⟩ := resolveURIsLoop_unfold env _ _ _ _ _ _ _ _ h
      exact (uriStep_draftKept _ _ _ _ _ _ _ _ _ hstep).trans
        ((DraftKept.of_docs_eq (postStep_docs _ _ _ _ _)).trans (ih _ _ _ hrest))

theorem resolveDocStep_local (env : Env) (recDoc : ResolveDoc) (hrec : RecSpec env recDoc)
    (root : NodeId) (baseURI : Url) (inherit : Draft) (s s' : RState)
    (h : resolveDocStep env recDoc root baseURI inherit s = .ok s') (hlog : s'.log = s.log)
    (hsound : ∀ draft, Sound ⟨env.st, draft, root⟩ s.infos)
    (hloaded : ∀ e ∈ s.loaded, e.2 = root) :
    ∃ d, s'.doc? root = some d ∧ StaticInv ⟨env.st, d.draft, root⟩ s' ∧
      ∀ id ∈ allNodes env.st (env.st.size + 2) [root], RefOk ⟨env.st, d.draft, root⟩ s' id := by
  unfold resolveDocStep at h
  split at h
  · simp at h
  split at h
  · simp at h
  rename_i rn hrn
  simp only at h
  rw [bind_eq_ok] at h
  obtain ⟨fresh, hfresh, h⟩ := h
  split at h
  · simp at h
  rw [bind_eq_ok] at h
  obtain ⟨sB, hB, h⟩ := h
  generalize hdr : (if (rn.schema == "") = true then inherit else detectDraft env rn.schema) = draft at hB h
  let D : Doc := ⟨env.st, draft, root⟩
  have hB' : resolveURIsLoop env D.draft D.root (env.st.size + 2) [(D.root, D.root)] _ = .ok sB := hB
  obtain ⟨hdone, hsnd, huris⟩ := resolveURIs_desig env D rfl _ _ _ hB'
  have hnil : ∀ e ∈ fresh, e.2.anchors = [] :=
    checkStructure_forall env.st (fun i => i.anchors = []) (fun _ => rfl) _ _ _ _ hfresh
      (fun _ he => absurd he (by simp))
  have hsB : Sound D sB.infos := by
    apply hsnd
    refine sound_updInfo D _ root _ ?_ ?_
    · intro _ _ he; exact Or.inl he
    · rw [setDoc_infos]
      exact sound_append_fresh D _ _ (hsound draft) hnil
  have huB : UrisOk D sB := by
    apply huris
    intro d hd e he
    rw [doc?_of_docs_eq (updInfo_docs _ _ _), doc?_setDoc, if_pos (rfl : root = D.root)] at hd
    simp only [Option.some.injEq] at hd
    subst hd
    simp only [List.mem_singleton] at he
    subst he
    exact resourceRoot_root D
  have hdB : ∃ dB, sB.doc? root = some dB ∧ dB.draft = draft := by
    have := resolveURIsLoop_draftKept _ _ _ _ _ _ _ hB root
      { root := root, draft := draft, uris := [(Uri.toString baseURI, root)], known := fresh.map (·.1) }
      (by rw [doc?_of_docs_eq (updInfo_docs _ _ _), doc?_setDoc]; simp)
    exact this
  have sameB : sB.log = s.log ∧ sB.loaded = s.loaded := by
    have h0 := (resolveURIsLoop_spec _ _ _ _ _ _ _ hB).1
    have := (SameLL.trans (setDoc_same _ _) (updInfo_same _ _ _)).trans h0
    exact this
  obtain ⟨fr, _, hok⟩ := resolveRefsLoop_local env recDoc hrec D rfl _ _ _ h
    (by show s'.log = sB.log; rw [hlog, sameB.1])
    ⟨hdone, hsB, UrisOk.of_docs_eq rfl huB, by
      intro e he
      have he' : e ∈ (sB.loaded.filter _) ++ [(_, root), (_, root)] := he
      rcases List.mem_append.mp he' with h1 | h1
      · have := (List.mem_filter.mp h1).1
        rw [sameB.2] at this
        exact hloaded e this
      · simp only [List.mem_cons, List.mem_nil_iff, or_false] at h1
        rcases h1 with h1 | h1 <;> (subst h1; rfl)⟩
    (allNodes_has D _ _ (by
      intro w hw
      simp only [List.mem_singleton] at hw
      subst hw
      exact ResourceRoot.has (resourceRoot_root D)))
  obtain ⟨dB, hdB, hdrB⟩ := hdB
  obtain ⟨d', hd', _, hdr'⟩ := fr.doc root dB (by rw [← hdB]; exact doc?_of_docs_eq (a := sB) rfl root)
  have hD : (⟨env.st, d'.draft, root⟩ : Doc) = D := by rw [hdr', hdrB]
  refine ⟨d', hd', ?_, ?_⟩
  · rw [hD]
    exact staticInv_frozen D fr ⟨hdone, hsB, UrisOk.of_docs_eq rfl huB, by
      intro e he
      have he' : e ∈ (sB.loaded.filter _) ++ [(_, root), (_, root)] := he
      rcases List.mem_append.mp he' with h1 | h1
      · have := (List.mem_filter.mp h1).1
        rw [sameB.2] at this
        exact hloaded e this
      · simp only [List.mem_cons, List.mem_nil_iff, or_false] at h1
        rcases h1 with h1 | h1 <;> (subst h1; rfl)⟩
  · rw [hD]; exact hok

end RInv
end Go
end JSV
