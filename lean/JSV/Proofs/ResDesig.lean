/-
  Helper lemmas for C03: the resolver's tables agree with the declarative designation of
  JSV/Spec/Designate.lean (resource roots, plain-name anchors, fragment dispatch).
-/
import JSV.Spec.Designate
import JSV.Proofs.ResTree
namespace JSV
namespace Go
namespace RInv
open Uri Spec

/-! ### lineages -/

theorem nearestResource_snoc (D : Doc) (l : List NodeId) (c : NodeId) :
    nearestResource D (l ++ [c]) =
      if startsResourceAt D.st D.draft c = true then c else nearestResource D l := by
  unfold nearestResource
  rw [List.filter_append]
  by_cases h : startsResourceAt D.st D.draft c = true
  · simp [h]
  · simp [h]

theorem resourceRoot_root (D : Doc) : D.ResourceRoot D.root D.root :=
  ⟨[], by simp [isLineage], rfl⟩

theorem resourceRoot_child (D : Doc) (p b c : NodeId) (h : D.ResourceRoot p b)
    (hc : isChild D.st p c = true) :
    D.ResourceRoot c (if startsResourceAt D.st D.draft c = true then c else b) := by
  obtain ⟨l, hl, hr⟩ := h
  exact ⟨l ++ [c], isLineage_snoc _ _ _ _ _ hl hc, by rw [nearestResource_snoc, hr]⟩

theorem ResourceRoot.has {D : Doc} {s r : NodeId} (h : D.ResourceRoot s r) : D.Has s :=
  let ⟨l, hl, _⟩ := h; ⟨l, hl⟩

/-! ### the body of resolveURIs' `resolve(s, base)`, named -/

/-- the `$id` block: new state and the base for the schema and its children -/
def uriStep (draft : Draft) (root : NodeId) (s : RState) (id base : NodeId) (n : Node) (baseInfo : Info) :
    Res (RState × NodeId) :=
  let ignore := draft == .d7 && n.ref != ""
  if n.id != "" && !ignore then
    Res.bind (Uri.parse n.id) fun idURI =>
      if draft == .d2020 && idURI.fragment != "" then .err
      else if draft == .d7 && idURI.fragment != "" then
        .ok (setAnchor s base id (stripHashPrefix n.id) false, base)
      else
        match baseInfo.uri with
        | none => .panic
        | some bu =>
          let u := Uri.resolveReference bu idURI
          if !Uri.isAbs u then .err
          else
            let s := s.updInfo id fun i => { i with uri := some u }
            let s := match s.doc? root with
              | some d => s.setDoc { d with uris := (d.uris.filter (·.1 != Uri.toString u)) ++ [(Uri.toString u, id)] }
              | none => s
            .ok (s, id)
  else .ok (s, base)

/-- `info.base = base` and the 2020-12 anchors -/
def postStep (draft : Draft) (s : RState) (id base : NodeId) (n : Node) : RState :=
  let s := s.updInfo id fun i => { i with base := some base }
  if draft == .d2020 then
    setAnchor (setAnchor s base id n.anchor false) base id n.dynamicAnchor true
  else s

theorem resolveURIsLoop_unfold (env : Env) (draft : Draft) (root : NodeId) (fuel : Nat)
    (id base : NodeId) (work : List (NodeId × NodeId)) (s s' : RState)
    (h : resolveURIsLoop env draft root (fuel + 1) ((id, base) :: work) s = .ok s') :
    ∃ n i0 bi s1 base1, env.st.get? id = some n ∧ lookupNat id s.infos = some i0 ∧
      lookupNat base s.infos = some bi ∧ uriStep draft root s id base n bi = .ok (s1, base1) ∧
      resolveURIsLoop env draft root fuel ((n.children.map fun c => (c, base1)) ++ work)
        (postStep draft s1 id base1 n) = .ok s' := by
  rw [resolveURIsLoop] at h
  split at h
  · rename_i n i0 bi hn hi hb
    rw [bind_eq_ok] at h
    obtain ⟨⟨s1, base1⟩, hstep, hrest⟩ := h
    exact ⟨n, i0, bi, s1, base1, hn, hi, hb, hstep, hrest⟩
  · simp at h

/-! ### the two invariants of the info table, and how the state updates act on them -/

/-- schema `p` has been given its base: the base is its resource root, and every plain name `p`
    declares has an entry in the anchors of that resource -/
def Done (D : Doc) (infos : List (NodeId × Info)) (p : NodeId) : Prop :=
  ∃ i r, lookupNat p infos = some i ∧ i.base = some r ∧ D.ResourceRoot p r ∧
    ∀ n, D.st.get? p = some n → ∀ e ∈ declaredAnchors D.draft n,
      ∃ ri, lookupNat r infos = some ri ∧ (Json.lookup e.1 ri.anchors).isSome = true

/-- every anchor entry of a schema of the document is a declaration inside that resource -/
def Sound (D : Doc) (infos : List (NodeId × Info)) : Prop :=
  ∀ b i, lookupNat b infos = some i → D.Has b → ∀ e ∈ i.anchors,
    D.ResourceRoot e.2.schema b ∧ D.Declares e.2.schema e.1 e.2.dynamic

theorem done_updInfo (D : Doc) (s : RState) (k : NodeId) (f : Info → Info) (p : NodeId)
    (hbase : k = p → ∀ i, (f i).base = i.base)
    (hmono : ∀ i x, (Json.lookup x i.anchors).isSome = true → (Json.lookup x (f i).anchors).isSome = true)
    (h : Done D s.infos p) : Done D (s.updInfo k f).infos p := by
  obtain ⟨i, r, hi, hb, hr, hd⟩ := h
  have hp : ∃ i', lookupNat p (s.updInfo k f).infos = some i' ∧ i'.base = some r := by
    rw [updInfo_infos_lookup]
    split
    · rename_i hk
      exact ⟨f i, by rw [hi]; rfl, by rw [hbase hk i, hb]⟩
    · exact ⟨i, hi, hb⟩
  obtain ⟨i', hi', hb'⟩ := hp
  refine ⟨i', r, hi', hb', hr, ?_⟩
  intro n hn e he
  obtain ⟨ri, hri, hl⟩ := hd n hn e he
  rw [updInfo_infos_lookup]
  split
  · exact ⟨f ri, by rw [hri]; rfl, hmono ri _ hl⟩
  · exact ⟨ri, hri, hl⟩

theorem sound_updInfo (D : Doc) (s : RState) (k : NodeId) (f : Info → Info)
    (hnew : ∀ i, ∀ e ∈ (f i).anchors, e ∈ i.anchors ∨
      (D.ResourceRoot e.2.schema k ∧ D.Declares e.2.schema e.1 e.2.dynamic))
    (h : Sound D s.infos) : Sound D (s.updInfo k f).infos := by
  intro b i hi hb e he
  rw [updInfo_infos_lookup] at hi
  split at hi
  · rename_i hk
    subst hk
    cases h0 : lookupNat k s.infos with
    | none => rw [h0] at hi; simp at hi
    | some i0 =>
      rw [h0] at hi
      simp only [Option.map_some, Option.some.injEq] at hi
      subst hi
      rcases hnew i0 e he with h1 | h1
      · exact h k i0 h0 hb e h1
      · exact h1
  · exact h b i hi hb e he

/-- the update setAnchor applies to the info of the base -/
def addAnchor (a : String) (t : NodeId) (dyn : Bool) (bi : Info) : Info :=
  if (Json.lookup a bi.anchors).isSome then bi
  else { bi with anchors := bi.anchors ++ [(a, { schema := t, dynamic := dyn })] }

theorem setAnchor_eq (s : RState) (b t : NodeId) (a : String) (dyn : Bool) :
    setAnchor s b t a dyn = if a == "" then s else s.updInfo b (addAnchor a t dyn) := rfl

theorem addAnchor_base (a : String) (t : NodeId) (dyn : Bool) (i : Info) :
    (addAnchor a t dyn i).base = i.base := by
  unfold addAnchor; split <;> rfl

theorem addAnchor_uri (a : String) (t : NodeId) (dyn : Bool) (i : Info) :
    (addAnchor a t dyn i).uri = i.uri := by
  unfold addAnchor; split <;> rfl

theorem addAnchor_mono (a : String) (t : NodeId) (dyn : Bool) (i : Info) (x : String)
    (h : (Json.lookup x i.anchors).isSome = true) :
    (Json.lookup x (addAnchor a t dyn i).anchors).isSome = true := by
  unfold addAnchor; split
  · exact h
  · show (Json.lookup x (i.anchors ++ _)).isSome = true
    rw [lookup_append_isSome, h]; rfl

theorem addAnchor_has (a : String) (t : NodeId) (dyn : Bool) (i : Info) :
    (Json.lookup a (addAnchor a t dyn i).anchors).isSome = true := by
  unfold addAnchor; split
  · rename_i h; exact h
  · show (Json.lookup a (i.anchors ++ _)).isSome = true
    rw [lookup_append_isSome]; simp

theorem addAnchor_mem (a : String) (t : NodeId) (dyn : Bool) (i : Info) (e : String × AnchorInfo)
    (h : e ∈ (addAnchor a t dyn i).anchors) :
    e ∈ i.anchors ∨ (e.1 = a ∧ e.2.schema = t ∧ e.2.dynamic = dyn) := by
  unfold addAnchor at h; split at h
  · exact Or.inl h
  · have h' : e ∈ i.anchors ++ [(a, ({ schema := t, dynamic := dyn } : AnchorInfo))] := h
    rcases List.mem_append.mp h' with h1 | h1
    · exact Or.inl h1
    · simp only [List.mem_singleton] at h1
      subst h1; exact Or.inr ⟨rfl, rfl, rfl⟩

theorem done_setAnchor (D : Doc) (s : RState) (b t : NodeId) (a : String) (dyn : Bool) (p : NodeId)
    (h : Done D s.infos p) : Done D (setAnchor s b t a dyn).infos p := by
  rw [setAnchor_eq]; split
  · exact h
  · exact done_updInfo D s b _ p (fun _ i => addAnchor_base a t dyn i) (fun i x hx => addAnchor_mono a t dyn i x hx) h

theorem sound_setAnchor (D : Doc) (s : RState) (b t : NodeId) (a : String) (dyn : Bool)
    (hr : D.ResourceRoot t b) (hd : a ≠ "" → D.Declares t a dyn)
    (h : Sound D s.infos) : Sound D (setAnchor s b t a dyn).infos := by
  rw [setAnchor_eq]; split
  · exact h
  · rename_i hne
    have hd := hd (by simpa using hne)
    apply sound_updInfo D s b _ _ h
    intro i e he
    rcases addAnchor_mem a t dyn i e he with h1 | ⟨h1, h2, h3⟩
    · exact Or.inl h1
    · right; rw [h1, h2, h3]; exact ⟨hr, hd⟩

theorem setAnchor_registered (s : RState) (b t : NodeId) (a : String) (dyn : Bool)
    (hb : (lookupNat b s.infos).isSome = true) (ha : a ≠ "") :
    ∃ ri, lookupNat b (setAnchor s b t a dyn).infos = some ri ∧ (Json.lookup a ri.anchors).isSome = true := by
  rw [setAnchor_eq]
  have : (a == "") = false := by simpa using ha
  rw [this]
  simp only [Bool.false_eq_true, if_false]
  rw [updInfo_infos_lookup, if_pos rfl]
  cases h0 : lookupNat b s.infos with
  | none => rw [h0] at hb; simp at hb
  | some i0 => exact ⟨addAnchor a t dyn i0, rfl, addAnchor_has a t dyn i0⟩

/-- an anchor entry, once present, stays -/
theorem setAnchor_anchor_mono (s : RState) (b t : NodeId) (a : String) (dyn : Bool) (k : NodeId) (x : String)
    (h : ∃ ri, lookupNat k s.infos = some ri ∧ (Json.lookup x ri.anchors).isSome = true) :
    ∃ ri, lookupNat k (setAnchor s b t a dyn).infos = some ri ∧ (Json.lookup x ri.anchors).isSome = true := by
  obtain ⟨ri, hri, hx⟩ := h
  rw [setAnchor_eq]; split
  · exact ⟨ri, hri, hx⟩
  · rw [updInfo_infos_lookup]
    split
    · exact ⟨addAnchor a t dyn ri, by rw [hri]; rfl, addAnchor_mono a t dyn ri x hx⟩
    · exact ⟨ri, hri, hx⟩

/-! ### case analysis of the `$id` block -/

/-- the state after a resource-establishing `$id`: `info.uri` set, the URI registered -/
def newUriState (root : NodeId) (s : RState) (id : NodeId) (u : Url) : RState :=
  let s := s.updInfo id fun i => { i with uri := some u }
  match s.doc? root with
  | some d => s.setDoc { d with uris := (d.uris.filter (·.1 != Uri.toString u)) ++ [(Uri.toString u, id)] }
  | none => s

theorem idFragment_of_parse (x : String) (u : Url) (h : Uri.parse x = .ok u) : idFragment x = u.fragment := by
  unfold idFragment; rw [h]

theorem uriStep_d2020 (root : NodeId) (s : RState) (id base : NodeId) (n : Node) (bi : Info)
    (s1 : RState) (base1 : NodeId) (h : uriStep .d2020 root s id base n bi = .ok (s1, base1)) :
    (n.id = "" ∧ s1 = s ∧ base1 = base) ∨
    (n.id ≠ "" ∧ base1 = id ∧ ∃ idURI bu, Uri.parse n.id = .ok idURI ∧ bi.uri = some bu ∧
      s1 = newUriState root s id (Uri.resolveReference bu idURI)) := by
  unfold uriStep at h
  simp only [show (Draft.d2020 == Draft.d7) = false from rfl, show (Draft.d2020 == Draft.d2020) = true from rfl,
    Bool.false_and, Bool.not_false, Bool.and_true, Bool.true_and, Bool.false_eq_true, if_false] at h
  split at h
  · rename_i hid
    right
    rw [bind_eq_ok] at h
    obtain ⟨idURI, hp, h⟩ := h
    split at h
    · simp at h
    · split at h
      · simp at h
      · rename_i bu hbu
        split at h
        · simp at h
        · simp only [Res.ok.injEq, Prod.mk.injEq] at h
          refine ⟨by simpa using hid, h.2.symm, idURI, bu, hp, hbu, ?_⟩
          rw [← h.1]; rfl
  · rename_i hid
    left
    simp only [Res.ok.injEq, Prod.mk.injEq] at h
    exact ⟨by simpa using hid, h.1.symm, h.2.symm⟩

theorem uriStep_d7 (root : NodeId) (s : RState) (id base : NodeId) (n : Node) (bi : Info)
    (s1 : RState) (base1 : NodeId) (h : uriStep .d7 root s id base n bi = .ok (s1, base1)) :
    ((n.id = "" ∨ n.ref ≠ "") ∧ s1 = s ∧ base1 = base) ∨
    (n.id ≠ "" ∧ n.ref = "" ∧ idFragment n.id ≠ "" ∧
      s1 = setAnchor s base id (dropHash n.id) false ∧ base1 = base) ∨
    (n.id ≠ "" ∧ n.ref = "" ∧ idFragment n.id = "" ∧ base1 = id ∧
      ∃ idURI bu, Uri.parse n.id = .ok idURI ∧ bi.uri = some bu ∧
        s1 = newUriState root s id (Uri.resolveReference bu idURI)) := by
  unfold uriStep at h
  simp only [show (Draft.d7 == Draft.d7) = true from rfl, show (Draft.d7 == Draft.d2020) = false from rfl,
    Bool.false_and, Bool.true_and, Bool.false_eq_true, if_false] at h
  split at h
  · rename_i hc
    have hc' : n.id ≠ "" ∧ n.ref = "" := by simpa using hc
    right
    rw [bind_eq_ok] at h
    obtain ⟨idURI, hp, h⟩ := h
    have hf := idFragment_of_parse _ _ hp
    split at h
    · rename_i hfr
      left
      simp only [Res.ok.injEq, Prod.mk.injEq] at h
      refine ⟨hc'.1, hc'.2, ?_, ?_, h.2.symm⟩
      · rw [hf]; simpa using hfr
      · rw [← h.1]; rfl
    · rename_i hfr
      right
      split at h
      · simp at h
      · rename_i bu hbu
        split at h
        · simp at h
        · simp only [Res.ok.injEq, Prod.mk.injEq] at h
          refine ⟨hc'.1, hc'.2, ?_, h.2.symm, idURI, bu, hp, hbu, ?_⟩
          · rw [hf]; simpa using hfr
          · rw [← h.1]; rfl
  · rename_i hc
    left
    simp only [Res.ok.injEq, Prod.mk.injEq] at h
    refine ⟨?_, h.1.symm, h.2.symm⟩
    by_cases h1 : n.id = ""
    · exact Or.inl h1
    · right
      intro h2
      apply hc
      simp [h1, h2]

/-! ### `uris` of the document -/

theorem setAnchor_docs (s : RState) (b t : NodeId) (a : String) (dyn : Bool) :
    (setAnchor s b t a dyn).docs = s.docs := by
  rw [setAnchor_eq]; split
  · rfl
  · exact updInfo_docs _ _ _

theorem newUriState_infos (root : NodeId) (s : RState) (id : NodeId) (u : Url) :
    (newUriState root s id u).infos = (s.updInfo id fun i => { i with uri := some u }).infos := by
  unfold newUriState
  simp only
  split <;> rfl

theorem newUriState_done (D : Doc) (root : NodeId) (s : RState) (id : NodeId) (u : Url) (p : NodeId)
    (h : Done D s.infos p) : Done D (newUriState root s id u).infos p := by
  rw [newUriState_infos]
  exact done_updInfo D s id _ p (fun _ _ => rfl) (fun _ _ hx => hx) h

theorem newUriState_sound (D : Doc) (root : NodeId) (s : RState) (id : NodeId) (u : Url)
    (h : Sound D s.infos) : Sound D (newUriState root s id u).infos := by
  rw [newUriState_infos]
  exact sound_updInfo D s id _ (fun _ _ he => Or.inl he) h

theorem newUriState_keeps (root : NodeId) (s : RState) (id : NodeId) (u : Url) :
    Keeps s (newUriState root s id u) :=
  (updInfo_keeps s id _ (by intro i t ht; exact ⟨t, ht⟩)).trans (Keeps.of_infos_eq (newUriState_infos root s id u))

/-! ### `info.base = base` and the anchors of one schema -/

theorem hasBase_setAnchor (s : RState) (b t : NodeId) (a : String) (dyn : Bool) (p r : NodeId)
    (h : ∃ i, lookupNat p s.infos = some i ∧ i.base = some r) :
    ∃ i, lookupNat p (setAnchor s b t a dyn).infos = some i ∧ i.base = some r := by
  obtain ⟨i, hi, hb⟩ := h
  rw [setAnchor_eq]; split
  · exact ⟨i, hi, hb⟩
  · rw [updInfo_infos_lookup]
    split
    · exact ⟨addAnchor a t dyn i, by rw [hi]; rfl, by rw [addAnchor_base, hb]⟩
    · exact ⟨i, hi, hb⟩

theorem hasBase_set (s : RState) (id r : NodeId) (hid : (lookupNat id s.infos).isSome = true) :
    ∃ i, lookupNat id (s.updInfo id fun i => { i with base := some r }).infos = some i ∧ i.base = some r := by
  rw [updInfo_infos_lookup, if_pos rfl]
  cases h0 : lookupNat id s.infos with
  | none => rw [h0] at hid; simp at hid
  | some i0 => exact ⟨_, rfl, rfl⟩

theorem setBase_keeps (s : RState) (id r : NodeId) :
    Keeps s (s.updInfo id fun i => { i with base := some r }) :=
  updInfo_keeps s id _ (by intro i t ht; exact ⟨t, ht⟩)

theorem mem_declared_d2020 (n : Node) (e : String × Bool) (h : e ∈ declaredAnchors .d2020 n) :
    (e = (n.anchor, false) ∨ e = (n.dynamicAnchor, true)) ∧ e.1 ≠ "" := by
  unfold declaredAnchors at h
  simp only [List.mem_filter, List.mem_cons, List.mem_nil_iff, or_false] at h
  exact ⟨h.1, by simpa using h.2⟩

theorem declares_anchor (D : Doc) (id : NodeId) (n : Node) (hn : D.st.get? id = some n)
    (hdr : D.draft = .d2020) (h : n.anchor ≠ "") : D.Declares id n.anchor false := by
  refine ⟨n, hn, ?_⟩
  rw [hdr]; unfold declaredAnchors
  simp [h]

theorem declares_dynamicAnchor (D : Doc) (id : NodeId) (n : Node) (hn : D.st.get? id = some n)
    (hdr : D.draft = .d2020) (h : n.dynamicAnchor ≠ "") : D.Declares id n.dynamicAnchor true := by
  refine ⟨n, hn, ?_⟩
  rw [hdr]; unfold declaredAnchors
  simp [h]

/-- 2020-12: after `info.base = base` and the two setAnchor calls -/
theorem post2020 (D : Doc) (hdr : D.draft = .d2020) (s1 : RState) (id base1 : NodeId) (n : Node)
    (hn : D.st.get? id = some n) (hid : (lookupNat id s1.infos).isSome = true)
    (hb : (lookupNat base1 s1.infos).isSome = true) (hr : D.ResourceRoot id base1) :
    Done D (postStep .d2020 s1 id base1 n).infos id ∧
    (∀ p, p ≠ id → Done D s1.infos p → Done D (postStep .d2020 s1 id base1 n).infos p) ∧
    (Sound D s1.infos → Sound D (postStep .d2020 s1 id base1 n).infos) := by
  have hpost : postStep .d2020 s1 id base1 n =
      setAnchor (setAnchor (s1.updInfo id fun i => { i with base := some base1 }) base1 id n.anchor false)
        base1 id n.dynamicAnchor true := rfl
  rw [hpost]
  refine ⟨?_, ?_, ?_⟩
  · obtain ⟨i, hi, hbase⟩ := hasBase_setAnchor _ base1 id n.dynamicAnchor true id base1
      (hasBase_setAnchor _ base1 id n.anchor false id base1 (hasBase_set s1 id base1 hid))
    refine ⟨i, base1, hi, hbase, hr, ?_⟩
    intro n' hn' e he
    rw [hn] at hn'
    simp only [Option.some.injEq] at hn'
    subst hn'
    rw [hdr] at he
    obtain ⟨he, hne⟩ := mem_declared_d2020 n e he
    have hb1 := (setBase_keeps s1 id base1).1 base1 hb
    rcases he with he | he
    · subst he
      exact setAnchor_anchor_mono _ _ _ _ _ _ _ (setAnchor_registered _ base1 id n.anchor false hb1 hne)
    · subst he
      exact setAnchor_registered _ base1 id n.dynamicAnchor true ((setAnchor_keeps _ _ _ _ _).1 base1 hb1) hne
  · intro p hp h
    apply done_setAnchor
    apply done_setAnchor
    exact done_updInfo D s1 id _ p (fun e => absurd e.symm hp) (fun _ _ hx => hx) h
  · intro h
    apply sound_setAnchor D _ _ _ _ _ hr (declares_dynamicAnchor D id n hn hdr)
    apply sound_setAnchor D _ _ _ _ _ hr (declares_anchor D id n hn hdr)
    exact sound_updInfo D s1 id _ (fun _ _ he => Or.inl he) h

/-- draft-07: after `info.base = base` -/
theorem post7 (D : Doc) (hdr : D.draft = .d7) (s1 : RState) (id base1 : NodeId) (n : Node)
    (hn : D.st.get? id = some n) (hid : (lookupNat id s1.infos).isSome = true)
    (hr : D.ResourceRoot id base1)
    (hreg : ∀ e ∈ declaredAnchors .d7 n,
      ∃ ri, lookupNat base1 s1.infos = some ri ∧ (Json.lookup e.1 ri.anchors).isSome = true) :
    Done D (postStep .d7 s1 id base1 n).infos id ∧
    (∀ p, p ≠ id → Done D s1.infos p → Done D (postStep .d7 s1 id base1 n).infos p) ∧
    (Sound D s1.infos → Sound D (postStep .d7 s1 id base1 n).infos) := by
  have hpost : postStep .d7 s1 id base1 n = s1.updInfo id fun i => { i with base := some base1 } := rfl
  rw [hpost]
  refine ⟨?_, ?_, ?_⟩
  · obtain ⟨i, hi, hbase⟩ := hasBase_set s1 id base1 hid
    refine ⟨i, base1, hi, hbase, hr, ?_⟩
    intro n' hn' e he
    rw [hn] at hn'
    simp only [Option.some.injEq] at hn'
    subst hn'
    rw [hdr] at he
    obtain ⟨ri, hri, hl⟩ := hreg e he
    rw [updInfo_infos_lookup]
    split
    · exact ⟨{ ri with base := some base1 }, by rw [hri]; rfl, hl⟩
    · exact ⟨ri, hri, hl⟩
  · intro p hp h
    exact done_updInfo D s1 id _ p (fun e => absurd e.symm hp) (fun _ _ hx => hx) h
  · intro h
    exact sound_updInfo D s1 id _ (fun _ _ he => Or.inl he) h

/-! ### one schema of resolveURIs -/

theorem declared_d7_nil (n : Node) (h : n.id = "" ∨ n.ref ≠ "" ∨ idFragment n.id = "") :
    declaredAnchors .d7 n = [] := by
  unfold declaredAnchors
  rcases h with h | h | h <;> simp [h]

theorem mem_declared_d7 (n : Node) (e : String × Bool) (h : e ∈ declaredAnchors .d7 n) :
    e = (dropHash n.id, false) ∧ e.1 ≠ "" := by
  unfold declaredAnchors at h
  simp only [List.mem_filter] at h
  obtain ⟨h1, h2⟩ := h
  split at h1
  · simp only [List.mem_singleton] at h1
    exact ⟨h1, by simpa using h2⟩
  · simp at h1

theorem declared_d7_mem (n : Node) (h1 : n.id ≠ "") (h2 : n.ref = "") (h3 : idFragment n.id ≠ "")
    (h4 : dropHash n.id ≠ "") : (dropHash n.id, false) ∈ declaredAnchors .d7 n := by
  unfold declaredAnchors
  simp [h1, h2, h3, h4]

theorem nodeStep_spec (D : Doc) (s : RState) (id base : NodeId) (n : Node) (bi : Info)
    (s1 : RState) (base1 : NodeId)
    (hn : D.st.get? id = some n) (hid : (lookupNat id s.infos).isSome = true)
    (hb : (lookupNat base s.infos).isSome = true)
    (hstep : uriStep D.draft D.root s id base n bi = .ok (s1, base1))
    (hr : D.ResourceRoot id (if startsResource D.draft n = true then id else base)) :
    base1 = (if startsResource D.draft n = true then id else base) ∧
    Done D (postStep D.draft s1 id base1 n).infos id ∧
    (∀ p, p ≠ id → Done D s.infos p → Done D (postStep D.draft s1 id base1 n).infos p) ∧
    (Sound D s.infos → Sound D (postStep D.draft s1 id base1 n).infos) := by
  cases hdr : D.draft with
  | d2020 =>
    rw [hdr] at hstep hr
    rcases uriStep_d2020 _ _ _ _ _ _ _ _ hstep with ⟨h0, rfl, rfl⟩ | ⟨h0, rfl, idURI, bu, _, _, rfl⟩
    · have hs : startsResource .d2020 n = false := by simp [startsResource, h0]
      rw [hs] at hr ⊢
      simp only [Bool.false_eq_true, if_false] at hr ⊢
      exact ⟨trivial, post2020 D hdr s1 id base1 n hn hid hb hr⟩
    · have hs : startsResource .d2020 n = true := by simp [startsResource, h0]
      rw [hs] at hr ⊢
      simp only [if_true] at hr ⊢
      have hk := newUriState_keeps D.root s base1 (Uri.resolveReference bu idURI)
      obtain ⟨a, b, c⟩ := post2020 D hdr _ base1 base1 n hn (hk.1 _ hid) (hk.1 _ hid) hr
      exact ⟨trivial, a, fun p hp h => b p hp (newUriState_done D _ _ _ _ p h),
        fun h => c (newUriState_sound D _ _ _ _ h)⟩
  | d7 =>
    rw [hdr] at hstep hr
    rcases uriStep_d7 _ _ _ _ _ _ _ _ hstep with ⟨h0, rfl, rfl⟩ | ⟨h1, h2, h3, rfl, rfl⟩ |
      ⟨h1, h2, h3, rfl, idURI, bu, _, _, rfl⟩
    · have hs : startsResource .d7 n = false := by
        rcases h0 with h0 | h0 <;> simp [startsResource, h0]
      rw [hs] at hr ⊢
      simp only [Bool.false_eq_true, if_false] at hr ⊢
      have hnil : declaredAnchors .d7 n = [] :=
        declared_d7_nil n (h0.elim Or.inl (fun h => Or.inr (Or.inl h)))
      exact ⟨trivial, post7 D hdr s1 id base1 n hn hid hr (by rw [hnil]; intro e he; simp at he)⟩
    · have hs : startsResource .d7 n = false := by simp [startsResource, h3]
      rw [hs] at hr ⊢
      simp only [Bool.false_eq_true, if_false] at hr ⊢
      have hk := setAnchor_keeps s base1 id (dropHash n.id) false
      obtain ⟨a, b, c⟩ := post7 D hdr _ id base1 n hn (hk.1 _ hid) hr (by
        intro e he
        obtain ⟨he, hne⟩ := mem_declared_d7 n e he
        subst he
        exact setAnchor_registered s base1 id (dropHash n.id) false hb hne)
      refine ⟨trivial, a, fun p hp h => b p hp (done_setAnchor D _ _ _ _ _ p h), fun h => c ?_⟩
      apply sound_setAnchor D s base1 id _ false hr _ h
      intro hne
      exact ⟨n, hn, by rw [hdr]; exact declared_d7_mem n h1 h2 h3 hne⟩
    · have hs : startsResource .d7 n = true := by simp [startsResource, h1, h2, h3]
      rw [hs] at hr ⊢
      simp only [if_true] at hr ⊢
      have hk := newUriState_keeps D.root s base1 (Uri.resolveReference bu idURI)
      have hnil : declaredAnchors .d7 n = [] := declared_d7_nil n (Or.inr (Or.inr h3))
      obtain ⟨a, b, c⟩ := post7 D hdr _ base1 base1 n hn (hk.1 _ hid) hr
        (by rw [hnil]; intro e he; simp at he)
      exact ⟨trivial, a, fun p hp h => b p hp (newUriState_done D _ _ _ _ p h),
        fun h => c (newUriState_sound D _ _ _ _ h)⟩

theorem doc?_of_docs_eq {a b : RState} (h : b.docs = a.docs) (r : NodeId) : b.doc? r = a.doc? r := by
  unfold RState.doc?; rw [h]

theorem postStep_docs (draft : Draft) (s : RState) (id base : NodeId) (n : Node) :
    (postStep draft s id base n).docs = s.docs := by
  unfold postStep
  simp only
  split
  · rw [setAnchor_docs, setAnchor_docs, updInfo_docs]
  · rw [updInfo_docs]

/-! ### base URIs -/

theorem snoc_induction {α} {P : List α → Prop} (hnil : P [])
    (hsnoc : ∀ l a, P l → P (l ++ [a])) (l : List α) : P l := by
  have : ∀ r : List α, P r.reverse := by
    intro r
    induction r with
    | nil => exact hnil
    | cons a r ih => rw [List.reverse_cons]; exact hsnoc _ _ ih
  have h := this l.reverse
  rwa [List.reverse_reverse] at h

theorem baseUriAlong_snoc (D : Doc) (ret : Url) (l : List NodeId) (c : NodeId) :
    baseUriAlong D ret (l ++ [c]) =
      if startsResourceAt D.st D.draft c = true then Uri.resolveReference (baseUriAlong D ret l) (idUrl D.st c)
      else baseUriAlong D ret l := by
  unfold baseUriAlong
  rw [← List.cons_append, List.filter_append, List.foldl_append]
  by_cases h : startsResourceAt D.st D.draft c = true
  · simp [h]
  · simp [h]

/-- the base URI along a lineage is the base URI along the lineage of its nearest resource root -/
theorem baseUriAlong_nearest (D : Doc) (ret : Url) (l : List NodeId) :
    ∀ s, isLineage D.st D.root l s = true →
      ∃ l', isLineage D.st D.root l' (nearestResource D l) = true ∧
        baseUriAlong D ret l' = baseUriAlong D ret l := by
  refine snoc_induction (P := fun l => ∀ s, isLineage D.st D.root l s = true →
      ∃ l', isLineage D.st D.root l' (nearestResource D l) = true ∧
        baseUriAlong D ret l' = baseUriAlong D ret l) ?_ ?_ l
  · intro s _
    exact ⟨[], by simp [isLineage, nearestResource], rfl⟩
  · intro l c ih s h
    obtain ⟨hs, p, hp, hc⟩ := isLineage_snoc_inv _ _ _ _ _ h
    rw [nearestResource_snoc, baseUriAlong_snoc]
    by_cases hst : startsResourceAt D.st D.draft c = true
    · rw [if_pos hst, if_pos hst]
      exact ⟨l ++ [c], isLineage_snoc _ _ _ _ _ hp hc, by rw [baseUriAlong_snoc, if_pos hst]⟩
    · rw [if_neg hst, if_neg hst]
      exact ih p hp

/-- the info of `r` holds the base URI along a lineage of `r` -/
def UriDone (D : Doc) (ret : Url) (infos : List (NodeId × Info)) (r : NodeId) : Prop :=
  ∃ i l, lookupNat r infos = some i ∧ isLineage D.st D.root l r = true ∧ i.uri = some (baseUriAlong D ret l)

def HasBase (infos : List (NodeId × Info)) (p r : NodeId) : Prop :=
  ∃ i, lookupNat p infos = some i ∧ i.base = some r

theorem uriDone_updInfo (D : Doc) (ret : Url) (s : RState) (k : NodeId) (f : Info → Info) (r : NodeId)
    (hf : k = r → ∀ i, (f i).uri = i.uri) (h : UriDone D ret s.infos r) :
    UriDone D ret (s.updInfo k f).infos r := by
  obtain ⟨i, l, hi, hl, hu⟩ := h
  rw [UriDone, updInfo_infos_lookup]
  split
  · rename_i hk
    exact ⟨f i, l, by rw [hi]; rfl, hl, by rw [hf hk, hu]⟩
  · exact ⟨i, l, hi, hl, hu⟩

theorem uriDone_setAnchor (D : Doc) (ret : Url) (s : RState) (b t : NodeId) (a : String) (dyn : Bool)
    (r : NodeId) (h : UriDone D ret s.infos r) : UriDone D ret (setAnchor s b t a dyn).infos r := by
  rw [setAnchor_eq]; split
  · exact h
  · exact uriDone_updInfo D ret s b _ r (fun _ i => addAnchor_uri a t dyn i) h

theorem uriDone_postStep (D : Doc) (ret : Url) (draft : Draft) (s : RState) (id base : NodeId) (n : Node)
    (r : NodeId) (h : UriDone D ret s.infos r) : UriDone D ret (postStep draft s id base n).infos r := by
  unfold postStep
  simp only
  split
  · exact uriDone_setAnchor _ _ _ _ _ _ _ _ (uriDone_setAnchor _ _ _ _ _ _ _ _
      (uriDone_updInfo D ret s id _ r (fun _ _ => rfl) h))
  · exact uriDone_updInfo D ret s id _ r (fun _ _ => rfl) h

theorem uriDone_newUriState_ne (D : Doc) (ret : Url) (root : NodeId) (s : RState) (id : NodeId) (u : Url)
    (r : NodeId) (hr : r ≠ id) (h : UriDone D ret s.infos r) :
    UriDone D ret (newUriState root s id u).infos r := by
  rw [newUriState_infos]
  exact uriDone_updInfo D ret s id _ r (fun e => absurd e.symm hr) h

theorem uriDone_newUriState_self (D : Doc) (ret : Url) (root : NodeId) (s : RState) (id : NodeId) (u : Url)
    (l : List NodeId) (hid : (lookupNat id s.infos).isSome = true)
    (hl : isLineage D.st D.root l id = true) (hu : u = baseUriAlong D ret l) :
    UriDone D ret (newUriState root s id u).infos id := by
  rw [newUriState_infos, UriDone, updInfo_infos_lookup, if_pos rfl]
  cases h0 : lookupNat id s.infos with
  | none => rw [h0] at hid; simp at hid
  | some i0 => exact ⟨_, l, rfl, hl, by rw [hu]⟩

theorem hasBase_updInfo (s : RState) (k : NodeId) (f : Info → Info) (p r : NodeId)
    (hf : k = p → ∀ i, (f i).base = i.base) (h : HasBase s.infos p r) :
    HasBase (s.updInfo k f).infos p r := by
  obtain ⟨i, hi, hb⟩ := h
  rw [HasBase, updInfo_infos_lookup]
  split
  · rename_i hk
    exact ⟨f i, by rw [hi]; rfl, by rw [hf hk, hb]⟩
  · exact ⟨i, hi, hb⟩

theorem hasBase_postStep_ne (draft : Draft) (s : RState) (id base : NodeId) (n : Node) (p r : NodeId)
    (hp : p ≠ id) (h : HasBase s.infos p r) : HasBase (postStep draft s id base n).infos p r := by
  unfold postStep
  simp only
  have h1 := hasBase_updInfo s id (fun i => { i with base := some base }) p r (fun e => absurd e.symm hp) h
  split
  · exact hasBase_setAnchor _ _ _ _ _ _ _ (hasBase_setAnchor _ _ _ _ _ _ _ h1)
  · exact h1

theorem hasBase_postStep_self (draft : Draft) (s : RState) (id base : NodeId) (n : Node)
    (hid : (lookupNat id s.infos).isSome = true) : HasBase (postStep draft s id base n).infos id base := by
  unfold postStep
  simp only
  have h1 := hasBase_set s id base hid
  split
  · exact hasBase_setAnchor _ _ _ _ _ _ _ (hasBase_setAnchor _ _ _ _ _ _ _ h1)
  · exact h1

theorem hasBase_newUriState (root : NodeId) (s : RState) (id : NodeId) (u : Url) (p r : NodeId)
    (h : HasBase s.infos p r) : HasBase (newUriState root s id u).infos p r := by
  rw [newUriState_infos]
  exact hasBase_updInfo s id _ p r (fun _ _ => rfl) h

/-- every registered URI identifies the resource it is registered for -/
def UrisId (D : Doc) (ret : Url) (s : RState) : Prop :=
  ∀ d, s.doc? D.root = some d → ∀ e ∈ d.uris, D.Identifies ret e.1 e.2

theorem UrisId.of_docs_eq {D : Doc} {ret : Url} {a b : RState} (h : b.docs = a.docs) (ha : UrisId D ret a) :
    UrisId D ret b := by
  intro d hd
  exact ha d (by rw [← doc?_of_docs_eq h]; exact hd)

theorem newUriState_urisId (D : Doc) (ret : Url) (s : RState) (id : NodeId) (u : Url)
    (hr : D.Identifies ret (Uri.toString u) id) (h : UrisId D ret s) :
    UrisId D ret (newUriState D.root s id u) := by
  unfold newUriState
  simp only
  split
  · rename_i d hd
    intro d' hd' e he
    rw [doc?_setDoc] at hd'
    have hroot : d.root = D.root := doc?_root _ _ _ hd
    simp only [hroot, if_true, Option.some.injEq] at hd'
    subst hd'
    simp only at he
    rcases List.mem_append.mp he with h1 | h1
    · have hd0 : s.doc? D.root = some d := by
        rw [← doc?_of_docs_eq (updInfo_docs s id fun i => { i with uri := some u })]; exact hd
      exact h d hd0 e (List.mem_filter.mp h1).1
    · simp only [List.mem_singleton] at h1
      subst h1; exact hr
  · exact UrisId.of_docs_eq (updInfo_docs _ _ _) h

/-- the URI part of one schema of resolveURIs -/
theorem nodeStep_uri (D : Doc) (ret : Url) (s : RState) (id base : NodeId) (n : Node) (bi : Info)
    (s1 : RState) (base1 : NodeId)
    (hid : (lookupNat id s.infos).isSome = true)
    (hstep : uriStep D.draft D.root s id base n bi = .ok (s1, base1))
    (huri : startsResource D.draft n = true → ∀ bu idURI, bi.uri = some bu → Uri.parse n.id = .ok idURI →
      ∃ l, isLineage D.st D.root l id = true ∧ nearestResource D l = id ∧
        Uri.resolveReference bu idURI = baseUriAlong D ret l) :
    (∀ r, (r ≠ id ∨ startsResource D.draft n = false) → UriDone D ret s.infos r →
      UriDone D ret (postStep D.draft s1 id base1 n).infos r) ∧
    (startsResource D.draft n = true → UriDone D ret (postStep D.draft s1 id base1 n).infos id) ∧
    (∀ p r, p ≠ id → HasBase s.infos p r → HasBase (postStep D.draft s1 id base1 n).infos p r) ∧
    HasBase (postStep D.draft s1 id base1 n).infos id base1 ∧
    (UrisId D ret s → UrisId D ret (postStep D.draft s1 id base1 n)) := by
  -- the three shapes of the `$id` block
  have key : (startsResource D.draft n = false ∧ (s1 = s ∨ ∃ a, s1 = setAnchor s base id a false)) ∨
      (startsResource D.draft n = true ∧ ∃ idURI bu, Uri.parse n.id = .ok idURI ∧ bi.uri = some bu ∧
        s1 = newUriState D.root s id (Uri.resolveReference bu idURI)) := by
    cases hdr : D.draft with
    | d2020 =>
      rw [hdr] at hstep
      rcases uriStep_d2020 _ _ _ _ _ _ _ _ hstep with ⟨h0, h1, _⟩ | ⟨h0, _, idURI, bu, hp, hbu, h1⟩
      · exact Or.inl ⟨by simp [startsResource, h0], Or.inl h1⟩
      · exact Or.inr ⟨by simp [startsResource, h0], idURI, bu, hp, hbu, h1⟩
    | d7 =>
      rw [hdr] at hstep
      rcases uriStep_d7 _ _ _ _ _ _ _ _ hstep with ⟨h0, h1, _⟩ | ⟨_, _, h3, h4, _⟩ |
        ⟨h1, h2, h3, _, idURI, bu, hp, hbu, h4⟩
      · exact Or.inl ⟨by rcases h0 with h0 | h0 <;> simp [startsResource, h0], Or.inl h1⟩
      · exact Or.inl ⟨by simp [startsResource, h3], Or.inr ⟨_, h4⟩⟩
      · exact Or.inr ⟨by simp [startsResource, h1, h2, h3], idURI, bu, hp, hbu, h4⟩
  rcases key with ⟨hns, hs1⟩ | ⟨hst, idURI, bu, hp, hbu, hs1⟩
  · have hU : ∀ r, UriDone D ret s.infos r → UriDone D ret s1.infos r := by
      intro r h
      rcases hs1 with rfl | ⟨a, rfl⟩
      · exact h
      · exact uriDone_setAnchor _ _ _ _ _ _ _ _ h
    have hB : ∀ p r, HasBase s.infos p r → HasBase s1.infos p r := by
      intro p r h
      rcases hs1 with rfl | ⟨a, rfl⟩
      · exact h
      · exact hasBase_setAnchor _ _ _ _ _ _ _ h
    have hK : Keeps s s1 := by
      rcases hs1 with rfl | ⟨a, rfl⟩
      · exact Keeps.refl _
      · exact setAnchor_keeps _ _ _ _ _
    have hD : s1.docs = s.docs := by
      rcases hs1 with rfl | ⟨a, rfl⟩
      · rfl
      · exact setAnchor_docs _ _ _ _ _
    refine ⟨fun r _ h => uriDone_postStep _ _ _ _ _ _ _ _ (hU r h), fun h => ?_,
      fun p r hp h => hasBase_postStep_ne _ _ _ _ _ _ _ hp (hB p r h),
      hasBase_postStep_self _ _ _ _ _ (hK.1 _ hid),
      fun h => UrisId.of_docs_eq ((postStep_docs _ _ _ _ _).trans hD) h⟩
    rw [hns] at h; simp at h
  · obtain ⟨l, hl, hnear, hu⟩ := huri hst bu idURI hbu hp
    subst hs1
    have hK := newUriState_keeps D.root s id (Uri.resolveReference bu idURI)
    refine ⟨fun r hr h => ?_, fun _ => ?_,
      fun p r hp h => hasBase_postStep_ne _ _ _ _ _ _ _ hp (hasBase_newUriState _ _ _ _ _ _ h),
      hasBase_postStep_self _ _ _ _ _ (hK.1 _ hid), fun h => ?_⟩
    · have hne : r ≠ id := by
        rcases hr with hr | hr
        · exact hr
        · rw [hst] at hr; simp at hr
      exact uriDone_postStep _ _ _ _ _ _ _ _ (uriDone_newUriState_ne D ret _ s id _ r hne h)
    · exact uriDone_postStep _ _ _ _ _ _ _ _ (uriDone_newUriState_self D ret _ s id _ l hid hl hu)
    · apply UrisId.of_docs_eq (postStep_docs _ _ _ _ _)
      apply newUriState_urisId D ret s id _ _ h
      exact Or.inr ⟨⟨l, hl, hnear⟩, _, ⟨l, hl, rfl⟩, by rw [hu]⟩

/-! ### the worklist of resolveURIs -/

/-- a worklist entry `(schema, base)`: a child together with the resource root of its parent -/
def WorkOk (D : Doc) (w : NodeId × NodeId) : Prop :=
  ∃ p, D.ResourceRoot p w.2 ∧ isChild D.st p w.1 = true

theorem workOk_resourceRoot (D : Doc) (id base : NodeId) (n : Node) (hw : WorkOk D (id, base))
    (hn : D.st.get? id = some n) :
    D.ResourceRoot id (if startsResource D.draft n = true then id else base) := by
  obtain ⟨p, hp, hc⟩ := hw
  have := resourceRoot_child D p base id hp hc
  have hs : startsResourceAt D.st D.draft id = startsResource D.draft n := by
    unfold startsResourceAt; rw [hn]
  rw [hs] at this
  exact this

/-- every schema has one lineage (ResTree.lean: checkStructure accepted the document) -/
def UniqueLineage (D : Doc) : Prop :=
  ∀ l1 l2 s, isLineage D.st D.root l1 s = true → isLineage D.st D.root l2 s = true → l1 = l2

theorem idUrl_of_parse (st : Store) (id : NodeId) (n : Node) (u : Url) (hn : st.get? id = some n)
    (hp : Uri.parse n.id = .ok u) : idUrl st id = u := by
  unfold idUrl; rw [hn]; simp only [hp]

/-- the `$id` of a child resolved against the recorded URI of the parent's resource root is the base
    URI along the child's lineage -/
theorem workOk_uri (D : Doc) (ret : Url) (huniq : UniqueLineage D) (infos : List (NodeId × Info))
    (id base : NodeId) (n : Node) (bi : Info)
    (hw : WorkOk D (id, base)) (hn : D.st.get? id = some n) (hb : lookupNat base infos = some bi)
    (hU : UriDone D ret infos base) (hst : startsResource D.draft n = true) (bu idURI : Url)
    (hbu : bi.uri = some bu) (hp : Uri.parse n.id = .ok idURI) :
    ∃ l, isLineage D.st D.root l id = true ∧ nearestResource D l = id ∧
      Uri.resolveReference bu idURI = baseUriAlong D ret l := by
  obtain ⟨p, ⟨lp, hlp, hnear⟩, hc⟩ := hw
  obtain ⟨ib, lb, hib, hlb, hub⟩ := hU
  rw [hb] at hib
  simp only [Option.some.injEq] at hib
  subst hib
  rw [hbu] at hub
  simp only [Option.some.injEq] at hub
  have hs : startsResourceAt D.st D.draft id = true := by
    unfold startsResourceAt; rw [hn]; exact hst
  obtain ⟨l', hl', heq⟩ := baseUriAlong_nearest D ret lp p hlp
  simp only at hnear
  rw [hnear] at hl'
  have : l' = lb := huniq l' lb base hl' hlb
  subst this
  refine ⟨lp ++ [id], isLineage_snoc _ _ _ _ _ hlp hc, by rw [nearestResource_snoc, if_pos hs], ?_⟩
  rw [baseUriAlong_snoc, if_pos hs, ← heq, ← hub, idUrl_of_parse _ _ _ _ hn hp]

theorem resolveURIsLoop_desig (env : Env) (D : Doc) (hst : D.st = env.st) (ret : Url)
    (huniq : UniqueLineage D) :
    ∀ fuel work s s' (P : NodeId → Prop),
      resolveURIsLoop env D.draft D.root fuel work s = .ok s' →
      (∀ w ∈ work, WorkOk D w ∧ UriDone D ret s.infos w.2) →
      (∀ p, P p → Done D s.infos p ∧ ∃ r, HasBase s.infos p r ∧ UriDone D ret s.infos r) →
      (∀ p, P p → ∀ c, isChild D.st p c = true → P c ∨ c ∈ work.map (·.1)) →
      ∃ P' : NodeId → Prop, (∀ p, P p → P' p) ∧ (∀ w ∈ work, P' w.1) ∧
        (∀ p, P' p → Done D s'.infos p ∧ ∃ r, HasBase s'.infos p r ∧ UriDone D ret s'.infos r) ∧
        (∀ p, P' p → ∀ c, isChild D.st p c = true → P' c) ∧
        (Sound D s.infos → Sound D s'.infos) ∧ (UrisId D ret s → UrisId D ret s') := by
  intro fuel
  induction fuel with
  | zero => intro work s s' P h; simp [resolveURIsLoop] at h
  | succ fuel ih =>
    intro work s s' P h hwork hdone hcl
    cases work with
    | nil =>
      simp [resolveURIsLoop] at h; subst h
      exact ⟨P, fun _ h => h, fun _ h => absurd h (by simp), hdone,
        fun p hp c hc => (hcl p hp c hc).resolve_right (by simp), fun h => h, fun h => h⟩
    | cons w work =>
      obtain ⟨id, base⟩ := w
      obtain ⟨n, i0, bi, s1, base1, hn, hi, hb, hstep, hrest⟩ :=
        resolveURIsLoop_unfold env _ _ _ _ _ _ _ _ h
      rw [← hst] at hn
      obtain ⟨hw0, hU0⟩ := hwork (id, base) (by simp)
      have hr := workOk_resourceRoot D id base n hw0 hn
      have hidS : (lookupNat id s.infos).isSome = true := by rw [hi]; rfl
      obtain ⟨hb1, dId, dOther, hsound⟩ :=
        nodeStep_spec D s id base n bi s1 base1 hn hidS (by rw [hb]; rfl) hstep hr
      obtain ⟨uKeep, uNew, bKeep, bNew, hurisId⟩ :=
        nodeStep_uri D ret s id base n bi s1 base1 hidS hstep
          (fun hs bu idURI hbu hp => workOk_uri D ret huniq s.infos id base n bi hw0 hn hb hU0 hs bu idURI hbu hp)
      rw [← hb1] at hr
      -- recorded base URIs survive the step
      have uAll : ∀ r, UriDone D ret s.infos r → UriDone D ret (postStep D.draft s1 id base1 n).infos r := by
        intro r h
        by_cases hc : r ≠ id ∨ startsResource D.draft n = false
        · exact uKeep r hc h
        · have h1 : r = id := Classical.byContradiction fun e => hc (Or.inl e)
          have h2 : startsResource D.draft n = true := by
            cases h3 : startsResource D.draft n with
            | true => rfl
            | false => exact absurd (Or.inr h3) hc
          rw [h1]; exact uNew h2
      have uBase1 : UriDone D ret (postStep D.draft s1 id base1 n).infos base1 := by
        cases hs : startsResource D.draft n with
        | true =>
          have e : base1 = id := by rw [hb1, hs]; rfl
          exact (congrArg (UriDone D ret (postStep D.draft s1 id base1 n).infos) e).mpr (uNew hs)
        | false =>
          have e : base1 = base := by rw [hb1, hs]; rfl
          exact (congrArg (UriDone D ret (postStep D.draft s1 id base1 n).infos) e).mpr (uAll base hU0)
      obtain ⟨P', hsub, hw', hdone', hcl', hsound', huris'⟩ :=
        ih _ _ _ (fun p => P p ∨ p = id) hrest
          (by
            intro w hw
            rcases List.mem_append.mp hw with hw | hw
            · obtain ⟨c, hc, rfl⟩ := List.mem_map.mp hw
              exact ⟨⟨id, hr, (isChild_iff _ _ _).mpr ⟨n, hn, hc⟩⟩, uBase1⟩
            · obtain ⟨h1, h2⟩ := hwork w (List.mem_cons_of_mem _ hw)
              exact ⟨h1, uAll _ h2⟩)
          (by
            intro p hp
            by_cases hpid : p = id
            · subst hpid; exact ⟨dId, base1, bNew, uBase1⟩
            · obtain ⟨h1, r, h2, h3⟩ := hdone p (hp.resolve_right hpid)
              exact ⟨dOther p hpid h1, r, bKeep p r hpid h2, uAll r h3⟩)
          (by
            intro p hp c hc
            rcases hp with hp | hp
            · rcases hcl p hp c hc with h1 | h1
              · exact Or.inl (Or.inl h1)
              · simp only [List.map_cons, List.mem_cons] at h1
                rcases h1 with h1 | h1
                · exact Or.inl (Or.inr h1)
                · right
                  rw [List.map_append]
                  exact List.mem_append_right _ h1
            · subst hp
              obtain ⟨n', hn', hc'⟩ := (isChild_iff _ _ _).mp hc
              rw [hn] at hn'
              simp only [Option.some.injEq] at hn'
              subst hn'
              right
              rw [List.map_append]
              apply List.mem_append_left
              rw [List.map_map]
              exact List.mem_map.mpr ⟨c, hc', rfl⟩)
      refine ⟨P', fun p hp => hsub p (Or.inl hp), ?_, hdone', hcl', fun h => hsound' (hsound h),
        fun h => huris' (hurisId h)⟩
      intro w hw
      rcases List.mem_cons.mp hw with hw | hw
      · subst hw; exact hsub id (Or.inr rfl)
      · exact hw' w (List.mem_append_right _ hw)

/-- resolveURIs on a whole document (`ret` = the URI the root's info was initialised with): every
    schema of the document gets its resource root as base, the info of that root holds the base URI,
    declared names are registered, registered names are declared, registered URIs identify -/
theorem resolveURIs_desig (env : Env) (D : Doc) (hst : D.st = env.st) (ret : Url) (huniq : UniqueLineage D)
    (fuel : Nat) (s s' : RState)
    (hroot : ∃ i, lookupNat D.root s.infos = some i ∧ i.uri = some ret)
    (h : resolveURIsLoop env D.draft D.root fuel [(D.root, D.root)] s = .ok s') :
    (∀ p, D.Has p → Done D s'.infos p ∧ ∃ r, HasBase s'.infos p r ∧ UriDone D ret s'.infos r) ∧
    (Sound D s.infos → Sound D s'.infos) ∧ (UrisId D ret s → UrisId D ret s') := by
  cases fuel with
  | zero => simp [resolveURIsLoop] at h
  | succ fuel =>
    obtain ⟨n, i0, bi, s1, base1, hn, hi, hb, hstep, hrest⟩ := resolveURIsLoop_unfold env _ _ _ _ _ _ _ _ h
    rw [← hst] at hn
    obtain ⟨ir, hir, huri⟩ := hroot
    rw [hb] at hir
    simp only [Option.some.injEq] at hir
    subst hir
    have hidS : (lookupNat D.root s.infos).isSome = true := by rw [hi]; rfl
    have hsR : startsResourceAt D.st D.draft D.root = startsResource D.draft n := by
      unfold startsResourceAt; rw [hn]
    obtain ⟨hb1, dId, _, hsound⟩ :=
      nodeStep_spec D s D.root D.root n bi s1 base1 hn hidS hidS hstep (by split <;> exact resourceRoot_root D)
    have hb1' : base1 = D.root := by rw [hb1]; split <;> rfl
    obtain ⟨uKeep, uNew, _, bNew, hurisId⟩ :=
      nodeStep_uri D ret s D.root D.root n bi s1 base1 hidS hstep (by
        intro hs bu idURI hbu hp
        rw [huri] at hbu
        simp only [Option.some.injEq] at hbu
        subst hbu
        refine ⟨[], by simp [isLineage], rfl, ?_⟩
        unfold baseUriAlong
        simp [hsR, hs, idUrl_of_parse _ _ _ _ hn hp])
    have uRoot : UriDone D ret (postStep D.draft s1 D.root base1 n).infos D.root := by
      cases hs : startsResource D.draft n with
      | true => exact uNew hs
      | false =>
        apply uKeep _ (Or.inr hs)
        refine ⟨bi, [], hb, by simp [isLineage], ?_⟩
        rw [huri]
        unfold baseUriAlong
        simp [hsR, hs]
    obtain ⟨P', hsub, _, hdone, hcl, hsound', huris'⟩ :=
      resolveURIsLoop_desig env D hst ret huniq fuel _ _ s' (fun p => p = D.root) hrest
        (by
          intro w hw
          rw [List.append_nil] at hw
          obtain ⟨c, hc, rfl⟩ := List.mem_map.mp hw
          refine ⟨⟨D.root, ?_, (isChild_iff _ _ _).mpr ⟨n, hn, hc⟩⟩, ?_⟩
          · simp only; rw [hb1']; exact resourceRoot_root D
          · exact (congrArg (UriDone D ret (postStep D.draft s1 D.root base1 n).infos) hb1').mpr uRoot)
        (by
          intro p hp
          subst hp
          exact ⟨dId, base1, bNew,
            (congrArg (UriDone D ret (postStep D.draft s1 D.root base1 n).infos) hb1').mpr uRoot⟩)
        (by
          intro p hp c hc
          subst hp
          obtain ⟨n', hn', hc'⟩ := (isChild_iff _ _ _).mp hc
          rw [hn] at hn'
          simp only [Option.some.injEq] at hn'
          subst hn'
          right
          rw [List.append_nil, List.map_map]
          exact List.mem_map.mpr ⟨c, hc', rfl⟩)
    refine ⟨?_, fun h => hsound' (hsound h), fun h => huris' (hurisId h)⟩
    intro p ⟨l, hl⟩
    exact hdone p (closed_has D.st P' hcl l D.root p (hsub D.root rfl) hl)

end RInv
end Go
end JSV
