/-
  C14 helpers, part 2: lists related up to a permutation (`PR`), and the combinators of the Spec
  (`sequence`, `conj`, `validCount`, `validUnion`, `allHold`) on such lists.
-/
import JSV.Proofs.InvPerm
import JSV.Proofs.RefineBase
namespace JSV
namespace Inv
open Go GoVal

/-! ## relations on options -/

def OptRel {α β : Type} (R : α → β → Prop) : Option α → Option β → Prop
  | none, none => True
  | some a, some b => R a b
  | _, _ => False

theorem OptRel.map {α β γ δ : Type} {R : α → β → Prop} {S : γ → δ → Prop} {f : α → γ} {g : β → δ}
    {a : Option α} {b : Option β} (h : OptRel R a b) (hi : ∀ x y, R x y → S (f x) (g y)) :
    OptRel S (a.map f) (b.map g) := by
  cases a <;> cases b <;> simp_all [OptRel]

theorem OptRel.isSome_eq {α β : Type} {R : α → β → Prop} {a : Option α} {b : Option β} (h : OptRel R a b) :
    a.isSome = b.isSome := by
  cases a <;> cases b <;> simp_all [OptRel]

/-! ## lists related up to a permutation -/

/-- `l1` is a permutation of a list that is element-wise `R`-related to `l2` -/
def PR {α β : Type} (R : α → β → Prop) (l1 : List α) (l2 : List β) : Prop := ∃ l, l1.Perm l ∧ All₂ R l l2

theorem PR.of_all₂ {α β : Type} {R : α → β → Prop} {l1 : List α} {l2 : List β} (h : All₂ R l1 l2) : PR R l1 l2 :=
  ⟨l1, List.Perm.refl _, h⟩

theorem PR.nil {α β : Type} {R : α → β → Prop} : PR R ([] : List α) ([] : List β) := PR.of_all₂ trivial

theorem PR.perm_left {α β : Type} {R : α → β → Prop} {l0 l1 : List α} {l2 : List β} (hp : l0.Perm l1)
    (h : PR R l1 l2) : PR R l0 l2 := by
  obtain ⟨l, h1, h2⟩ := h
  exact ⟨l, hp.trans h1, h2⟩

/-- a permutation of the right-hand list can be moved to the left -/
theorem All₂.perm_right {α β : Type} {R : α → β → Prop} {l2 l3 : List β} (hp : l2.Perm l3) :
    ∀ {l : List α}, All₂ R l l2 → ∃ l', l.Perm l' ∧ All₂ R l' l3 := by
  induction hp with
  | nil => intro l h; exact ⟨l, List.Perm.refl _, h⟩
  | cons x _ ih =>
    intro l h
    cases l with
    | nil => exact h.elim
    | cons a t =>
      obtain ⟨t', h1, h2⟩ := ih h.2
      exact ⟨a :: t', h1.cons a, h.1, h2⟩
  | swap x y t =>
    intro l h
    cases l with
    | nil => exact h.elim
    | cons a l =>
      cases l with
      | nil => exact h.2.elim
      | cons b s => exact ⟨b :: a :: s, List.Perm.swap b a s, h.2.1, h.1, h.2.2⟩
  | trans _ _ ih1 ih2 =>
    intro l h
    obtain ⟨l', h1, h2⟩ := ih1 h
    obtain ⟨l'', h3, h4⟩ := ih2 h2
    exact ⟨l'', h1.trans h3, h4⟩

theorem PR.perm_right {α β : Type} {R : α → β → Prop} {l1 : List α} {l2 l3 : List β} (h : PR R l1 l2)
    (hp : l2.Perm l3) : PR R l1 l3 := by
  obtain ⟨l, h1, h2⟩ := h
  obtain ⟨l', h3, h4⟩ := All₂.perm_right hp h2
  exact ⟨l', h1.trans h3, h4⟩

theorem PR.of_perm {α : Type} {R : α → α → Prop} {l1 l2 : List α} (hr : ∀ a, a ∈ l2 → R a a) (hp : l1.Perm l2) :
    PR R l1 l2 := ⟨l2, hp, All₂.refl hr⟩

theorem PR.length {α β : Type} {R : α → β → Prop} {l1 : List α} {l2 : List β} (h : PR R l1 l2) :
    l1.length = l2.length := by
  obtain ⟨l, h1, h2⟩ := h
  rw [h1.length_eq, h2.length]

theorem PR.mem_left {α β : Type} {R : α → β → Prop} {l1 : List α} {l2 : List β} (h : PR R l1 l2) :
    ∀ a, a ∈ l1 → ∃ b, b ∈ l2 ∧ R a b := by
  obtain ⟨l, h1, h2⟩ := h
  intro a ha
  exact h2.mem_left a (h1.mem_iff.1 ha)

theorem PR.mem_right {α β : Type} {R : α → β → Prop} {l1 : List α} {l2 : List β} (h : PR R l1 l2) :
    ∀ b, b ∈ l2 → ∃ a, a ∈ l1 ∧ R a b := by
  obtain ⟨l, h1, h2⟩ := h
  intro b hb
  obtain ⟨a, ha, hr⟩ := h2.mem_right b hb
  exact ⟨a, h1.mem_iff.2 ha, hr⟩

theorem PR.imp_mem {α β : Type} {R S : α → β → Prop} {l1 : List α} {l2 : List β} (h : PR R l1 l2)
    (hi : ∀ a b, a ∈ l1 → b ∈ l2 → R a b → S a b) : PR S l1 l2 := by
  obtain ⟨l, h1, h2⟩ := h
  exact ⟨l, h1, All₂.imp (fun a b ha hb hr => hi a b (h1.mem_iff.2 ha) hb hr) h2⟩

theorem PR.perm_of_eq {α : Type} {l1 l2 : List α} (h : PR (· = ·) l1 l2) : l1.Perm l2 := by
  obtain ⟨l, h1, h2⟩ := h
  rw [← All₂.eq_of_eq h2]; exact h1

theorem PR.map {α β γ δ : Type} {R : α → β → Prop} {S : γ → δ → Prop} (f : α → γ) (g : β → δ)
    {l1 : List α} {l2 : List β} (h : PR R l1 l2) (hi : ∀ a b, R a b → S (f a) (g b)) :
    PR S (l1.map f) (l2.map g) := by
  obtain ⟨l, h1, h2⟩ := h
  exact ⟨l.map f, h1.map f, All₂.map f g hi h2⟩

theorem All₂.filter {α β : Type} {R : α → β → Prop} (p : α → Bool) (q : β → Bool) :
    ∀ {l1 : List α} {l2 : List β}, (∀ a b, R a b → p a = q b) → All₂ R l1 l2 → All₂ R (l1.filter p) (l2.filter q)
  | [], [], _, _ => trivial
  | a :: l1, b :: l2, hi, h => by
    have := hi a b h.1
    simp only [List.filter_cons, ← this]
    cases p a
    · exact All₂.filter p q hi h.2
    · exact ⟨h.1, All₂.filter p q hi h.2⟩
  | [], _ :: _, _, h => h.elim
  | _ :: _, [], _, h => h.elim

theorem PR.filter {α β : Type} {R : α → β → Prop} (p : α → Bool) (q : β → Bool) {l1 : List α} {l2 : List β}
    (h : PR R l1 l2) (hi : ∀ a b, R a b → p a = q b) : PR R (l1.filter p) (l2.filter q) := by
  obtain ⟨l, h1, h2⟩ := h
  exact ⟨l.filter p, h1.filter p, All₂.filter p q hi h2⟩

theorem All₂.filterMap {α β γ δ : Type} {R : α → β → Prop} {S : γ → δ → Prop} (f : α → Option γ) (g : β → Option δ) :
    ∀ {l1 : List α} {l2 : List β}, (∀ a b, R a b → OptRel S (f a) (g b)) → All₂ R l1 l2 →
      All₂ S (l1.filterMap f) (l2.filterMap g)
  | [], [], _, _ => trivial
  | a :: l1, b :: l2, hi, h => by
    have := hi a b h.1
    simp only [List.filterMap_cons]
    cases hf : f a <;> cases hg : g b <;> rw [hf, hg] at this
    · exact All₂.filterMap f g hi h.2
    · exact this.elim
    · exact this.elim
    · exact ⟨this, All₂.filterMap f g hi h.2⟩
  | [], _ :: _, _, h => h.elim
  | _ :: _, [], _, h => h.elim

theorem PR.filterMap {α β γ δ : Type} {R : α → β → Prop} {S : γ → δ → Prop} (f : α → Option γ) (g : β → Option δ)
    {l1 : List α} {l2 : List β} (h : PR R l1 l2) (hi : ∀ a b, R a b → OptRel S (f a) (g b)) :
    PR S (l1.filterMap f) (l2.filterMap g) := by
  obtain ⟨l, h1, h2⟩ := h
  exact ⟨l.filterMap f, h1.filterMap f, All₂.filterMap f g hi h2⟩

theorem PR.append {α β : Type} {R : α → β → Prop} {a1 b1 : List α} {a2 b2 : List β} (ha : PR R a1 a2)
    (hb : PR R b1 b2) : PR R (a1 ++ b1) (a2 ++ b2) := by
  obtain ⟨la, h1, h2⟩ := ha
  obtain ⟨lb, h3, h4⟩ := hb
  exact ⟨la ++ lb, h1.append h3, All₂.append h2 h4⟩

theorem PR.flatMap_all₂ {α β γ δ : Type} {R : α → β → Prop} {S : γ → δ → Prop} (f : α → List γ) (g : β → List δ) :
    ∀ {l1 : List α} {l2 : List β}, (∀ a b, R a b → PR S (f a) (g b)) → All₂ R l1 l2 →
      PR S (l1.flatMap f) (l2.flatMap g)
  | [], [], _, _ => PR.nil
  | a :: l1, b :: l2, hi, h => by
    simp only [List.flatMap_cons]
    exact PR.append (hi a b h.1) (PR.flatMap_all₂ f g hi h.2)
  | [], _ :: _, _, h => h.elim
  | _ :: _, [], _, h => h.elim

theorem PR.flatMap {α β γ δ : Type} {R : α → β → Prop} {S : γ → δ → Prop} (f : α → List γ) (g : β → List δ)
    {l1 : List α} {l2 : List β} (h : PR R l1 l2) (hi : ∀ a b, R a b → PR S (f a) (g b)) :
    PR S (l1.flatMap f) (l2.flatMap g) := by
  obtain ⟨l, h1, h2⟩ := h
  exact PR.perm_left (h1.flatMap_right f) (PR.flatMap_all₂ f g hi h2)

theorem PR.all_eq {α β : Type} {R : α → β → Prop} (p : α → Bool) (q : β → Bool) {l1 : List α} {l2 : List β}
    (h : PR R l1 l2) (hi : ∀ a b, R a b → p a = q b) : l1.all p = l2.all q := by
  rw [Bool.eq_iff_iff, List.all_eq_true, List.all_eq_true]
  constructor
  · intro hall b hb
    obtain ⟨a, ha, hr⟩ := h.mem_right b hb
    rw [← hi a b hr]; exact hall a ha
  · intro hall a ha
    obtain ⟨b, hb, hr⟩ := h.mem_left a ha
    rw [hi a b hr]; exact hall b hb

/-- membership in a flatMap over related lists -/
theorem PR.mem_flatMap_iff {α β γ : Type} {R : α → β → Prop} (f : α → List γ) (g : β → List γ) {l1 : List α}
    {l2 : List β} (h : PR R l1 l2) (x : γ) (hi : ∀ a b, R a b → (x ∈ f a ↔ x ∈ g b)) :
    x ∈ l1.flatMap f ↔ x ∈ l2.flatMap g := by
  simp only [List.mem_flatMap]
  constructor
  · rintro ⟨a, ha, hx⟩
    obtain ⟨b, hb, hr⟩ := h.mem_left a ha
    exact ⟨b, hb, (hi a b hr).1 hx⟩
  · rintro ⟨b, hb, hx⟩
    obtain ⟨a, ha, hr⟩ := h.mem_right b hb
    exact ⟨a, ha, (hi a b hr).2 hx⟩

/-! ## `sequence` -/

theorem sequence_perm {α : Type} {l1 l2 : List (Option α)} (hp : l1.Perm l2) :
    OptRel List.Perm (Spec.sequence l1) (Spec.sequence l2) := by
  induction hp with
  | nil => simp [Spec.sequence, OptRel]
  | @cons x t1 t2 _ ih =>
    cases x with
    | none => simp [Spec.sequence, OptRel]
    | some a =>
      simp only [Spec.sequence]
      cases h1 : Spec.sequence t1 <;> cases h2 : Spec.sequence t2 <;> rw [h1, h2] at ih <;>
        simp_all [OptRel]
  | swap x y t =>
    cases x <;> cases y <;> simp only [Spec.sequence] <;> cases Spec.sequence t <;>
      simp [OptRel, List.Perm.swap]
  | @trans a b c _ _ ih1 ih2 =>
    cases h1 : Spec.sequence a <;> cases h2 : Spec.sequence b <;> cases h3 : Spec.sequence c <;>
      rw [h1, h2] at ih1 <;> rw [h2, h3] at ih2 <;> simp_all [OptRel]
    exact ih1.trans ih2

theorem sequence_all₂ {α β : Type} {R : α → β → Prop} : ∀ {l1 : List (Option α)} {l2 : List (Option β)},
    All₂ (OptRel R) l1 l2 → OptRel (All₂ R) (Spec.sequence l1) (Spec.sequence l2)
  | [], [], _ => by simp [Spec.sequence, OptRel, All₂]
  | a :: l1, b :: l2, h => by
    have ih := sequence_all₂ h.2
    have h1 := h.1
    cases a <;> cases b
    · simp [Spec.sequence, OptRel]
    · exact h1.elim
    · exact h1.elim
    · simp only [Spec.sequence]
      cases hs1 : Spec.sequence l1 <;> cases hs2 : Spec.sequence l2 <;> rw [hs1, hs2] at ih
      · simp [OptRel]
      · exact ih.elim
      · exact ih.elim
      · exact ⟨h1, ih⟩
  | [], _ :: _, h => h.elim
  | _ :: _, [], h => h.elim

theorem sequence_PR {α β : Type} {R : α → β → Prop} {l1 : List (Option α)} {l2 : List (Option β)}
    (h : PR (OptRel R) l1 l2) : OptRel (PR R) (Spec.sequence l1) (Spec.sequence l2) := by
  obtain ⟨l, h1, h2⟩ := h
  have a := sequence_perm h1
  have b := sequence_all₂ h2
  cases hs1 : Spec.sequence l1 <;> cases hs : Spec.sequence l <;> cases hs2 : Spec.sequence l2 <;>
    rw [hs1, hs] at a <;> rw [hs, hs2] at b <;> simp_all [OptRel]
  exact ⟨_, a, b⟩

/-- `(sequence l).map F` on related lists -/
theorem seq_map_sim {α β γ δ : Type} {R : α → β → Prop} {S : γ → δ → Prop} {l1 : List (Option α)}
    {l2 : List (Option β)} (h : PR (OptRel R) l1 l2) (F : List α → γ) (G : List β → δ)
    (hi : ∀ rs1 rs2, PR R rs1 rs2 → S (F rs1) (G rs2)) :
    OptRel S ((Spec.sequence l1).map F) ((Spec.sequence l2).map G) :=
  (sequence_PR h).map hi

theorem seq_map_sim_all₂ {α β γ δ : Type} {R : α → β → Prop} {S : γ → δ → Prop} {l1 : List (Option α)}
    {l2 : List (Option β)} (h : All₂ (OptRel R) l1 l2) (F : List α → γ) (G : List β → δ)
    (hi : ∀ rs1 rs2, All₂ R rs1 rs2 → S (F rs1) (G rs2)) :
    OptRel S ((Spec.sequence l1).map F) ((Spec.sequence l2).map G) :=
  (sequence_all₂ h).map hi

/-! ## evaluated sets as sets -/

/-- the same evaluated properties and items, as sets -/
def EvEqv (a b : Spec.Ev) : Prop := (∀ k, k ∈ a.props ↔ k ∈ b.props) ∧ (∀ i, i ∈ a.items ↔ i ∈ b.items)

/-- the same verdict, and the same evaluated sets when valid -/
abbrev RSim : Spec.R → Spec.R → Prop := OptRel EvEqv
/-- defined together, and then `RSim` -/
abbrev OutSim : Spec.Out → Spec.Out → Prop := OptRel RSim

theorem EvEqv.refl (a : Spec.Ev) : EvEqv a a := ⟨fun _ => Iff.rfl, fun _ => Iff.rfl⟩

theorem EvEqv.union {a b c d : Spec.Ev} (h1 : EvEqv a b) (h2 : EvEqv c d) : EvEqv (a.union c) (b.union d) := by
  constructor
  · intro k; simp only [Spec.Ev.union, List.mem_append, h1.1 k, h2.1 k]
  · intro i; simp only [Spec.Ev.union, List.mem_append, h1.2 i, h2.2 i]

theorem EvEqv.props_contains {a b : Spec.Ev} (h : EvEqv a b) (k : String) : a.props.contains k = b.props.contains k := by
  rw [Bool.eq_iff_iff]; simp [h.1 k]

theorem EvEqv.items_contains {a b : Spec.Ev} (h : EvEqv a b) (i : Nat) : a.items.contains i = b.items.contains i := by
  rw [Bool.eq_iff_iff]; simp [h.2 i]

theorem RSim.isSome_eq {r1 r2 : Spec.R} (h : RSim r1 r2) : r1.isSome = r2.isSome := OptRel.isSome_eq h

theorem OutSim_empty : OutSim (some (some {})) (some (some {})) := EvEqv.refl _

theorem unions_filterMap_sim {rs1 rs2 : List Spec.R} (h : PR RSim rs1 rs2) :
    EvEqv (Spec.Ev.unions (rs1.filterMap id)) (Spec.Ev.unions (rs2.filterMap id)) := by
  have h' : PR EvEqv (rs1.filterMap id) (rs2.filterMap id) := PR.filterMap id id h (fun a b hr => hr)
  rw [Refine.unions_eq, Refine.unions_eq]
  constructor
  · intro k
    exact PR.mem_flatMap_iff _ _ h' k (fun a b hr => hr.1 k)
  · intro i
    exact PR.mem_flatMap_iff _ _ h' i (fun a b hr => hr.2 i)

theorem allHold_sim {rs1 rs2 : List Spec.R} (h : PR RSim rs1 rs2) : Spec.allHold rs1 = Spec.allHold rs2 :=
  PR.all_eq _ _ h (fun _ _ hr => hr.isSome_eq)

theorem conj_sim {rs1 rs2 : List Spec.R} (h : PR RSim rs1 rs2) : RSim (Spec.conj rs1) (Spec.conj rs2) := by
  unfold Spec.conj
  have ha : rs1.all Option.isSome = rs2.all Option.isSome := allHold_sim h
  rw [ha]
  split
  · exact unions_filterMap_sim h
  · trivial

theorem validCount_sim {rs1 rs2 : List Spec.R} (h : PR RSim rs1 rs2) : Spec.validCount rs1 = Spec.validCount rs2 := by
  unfold Spec.validCount
  exact (PR.filter _ _ h (fun _ _ hr => hr.isSome_eq)).length

theorem validUnion_sim {rs1 rs2 : List Spec.R} (h : PR RSim rs1 rs2) :
    EvEqv (Spec.validUnion rs1) (Spec.validUnion rs2) := unions_filterMap_sim h

end Inv
end JSV
