/-
  Helper lemmas for C19 (Marshal order): insertion sort on strings / keyed entries
  (`Go.sortStrings`, `Go.sortKV`), association-list lookup under permutation, and the
  two blocks of `Go.orderedKeys`.
-/
import JSV.Model.Marshal
import JSV.Proofs.Equal
namespace JSV
namespace Go

/-! ## sortStrings -/

theorem insertStr_perm (k : String) : ∀ l : List String, (insertStr k l).Perm (k :: l)
  | [] => by simp [insertStr]
  | x :: xs => by
    simp only [insertStr]
    split
    · exact List.Perm.refl _
    · exact ((insertStr_perm k xs).cons x).trans (List.Perm.swap k x xs)

theorem sortStrings_perm' : ∀ l : List String, (sortStrings l).Perm l
  | [] => by simp [sortStrings]
  | x :: xs => by
    have ih : (sortStrings xs).Perm xs := sortStrings_perm' xs
    show (insertStr x (sortStrings xs)).Perm (x :: xs)
    exact (insertStr_perm x _).trans (ih.cons x)

theorem insertStr_sorted (k : String) : ∀ l : List String,
    l.Pairwise (· ≤ ·) → (insertStr k l).Pairwise (· ≤ ·)
  | [], _ => by simp [insertStr]
  | x :: xs, h => by
    simp only [insertStr]
    rw [List.pairwise_cons] at h
    split
    · next hle =>
      rw [List.pairwise_cons]
      refine ⟨?_, List.pairwise_cons.2 h⟩
      intro a ha
      rcases List.mem_cons.1 ha with rfl | ha
      · exact hle
      · exact String.le_trans hle (h.1 a ha)
    · next hnle =>
      rw [List.pairwise_cons]
      refine ⟨?_, insertStr_sorted k xs h.2⟩
      intro a ha
      rcases List.mem_cons.1 ((insertStr_perm k xs).mem_iff.1 ha) with rfl | ha
      · rcases String.le_total a x with h' | h'
        · exact absurd h' hnle
        · exact h'
      · exact h.1 a ha

theorem sortStrings_sorted' : ∀ l : List String, (sortStrings l).Pairwise (· ≤ ·)
  | [] => by simp [sortStrings]
  | x :: xs => by
    show (insertStr x (sortStrings xs)).Pairwise _
    exact insertStr_sorted x _ (sortStrings_sorted' xs)

theorem sortStrings_eq_of_perm {l₁ l₂ : List String} (hp : l₁.Perm l₂) :
    sortStrings l₁ = sortStrings l₂ := by
  have p1 := sortStrings_perm' l₁
  have p2 := sortStrings_perm' l₂
  refine List.Perm.eq_of_pairwise (le := (· ≤ ·)) ?_ (sortStrings_sorted' l₁)
    (sortStrings_sorted' l₂) (p1.trans (hp.trans p2.symm))
  intro a b _ _ hab hba
  exact String.le_antisymm hab hba

/-! ## sortKV -/

theorem insertKV_perm {α} (e : String × α) : ∀ l : List (String × α), (insertKV e l).Perm (e :: l)
  | [] => by simp [insertKV]
  | x :: xs => by
    simp only [insertKV]
    split
    · exact List.Perm.refl _
    · exact ((insertKV_perm e xs).cons x).trans (List.Perm.swap e x xs)

theorem sortKV_perm {α} : ∀ l : List (String × α), (sortKV l).Perm l
  | [] => by simp [sortKV]
  | x :: xs => by
    have ih : (sortKV xs).Perm xs := sortKV_perm xs
    show (insertKV x (sortKV xs)).Perm (x :: xs)
    exact (insertKV_perm x _).trans (ih.cons x)

theorem insertKV_sorted {α} (e : String × α) : ∀ l : List (String × α),
    l.Pairwise (fun a b => a.1 ≤ b.1) → (insertKV e l).Pairwise (fun a b => a.1 ≤ b.1)
  | [], _ => by simp [insertKV]
  | x :: xs, h => by
    simp only [insertKV]
    rw [List.pairwise_cons] at h
    split
    · next hle =>
      rw [List.pairwise_cons]
      refine ⟨?_, List.pairwise_cons.2 h⟩
      intro a ha
      rcases List.mem_cons.1 ha with rfl | ha
      · exact hle
      · exact String.le_trans hle (h.1 a ha)
    · next hnle =>
      rw [List.pairwise_cons]
      refine ⟨?_, insertKV_sorted e xs h.2⟩
      intro a ha
      rcases List.mem_cons.1 ((insertKV_perm e xs).mem_iff.1 ha) with rfl | ha
      · rcases String.le_total a.1 x.1 with h' | h'
        · exact absurd h' hnle
        · exact h'
      · exact h.1 a ha

theorem sortKV_sorted {α} : ∀ l : List (String × α), (sortKV l).Pairwise (fun a b => a.1 ≤ b.1)
  | [] => by simp [sortKV]
  | x :: xs => by
    show (insertKV x (sortKV xs)).Pairwise _
    exact insertKV_sorted x _ (sortKV_sorted xs)

/-- sorting by key does not depend on the order in which a map with distinct keys is enumerated -/
theorem sortKV_eq_of_perm {α} {l₁ l₂ : List (String × α)} (hp : l₁.Perm l₂)
    (hn : (Json.keys l₁).Nodup) : sortKV l₁ = sortKV l₂ := by
  have p1 := sortKV_perm l₁
  have p2 := sortKV_perm l₂
  refine List.Perm.eq_of_pairwise (le := fun a b => a.1 ≤ b.1) ?_ (sortKV_sorted l₁)
    (sortKV_sorted l₂) (p1.trans (hp.trans p2.symm))
  intro a b ha hb hab hba
  have ha' : a ∈ l₁ := p1.mem_iff.1 ha
  have hb' : b ∈ l₁ := hp.mem_iff.2 (p2.mem_iff.1 hb)
  exact entry_eq_of_key_eq hn ha' hb' (String.le_antisymm hab hba)

theorem keys_sortKV_perm {α} (l : List (String × α)) : (Json.keys (sortKV l)).Perm (Json.keys l) :=
  (sortKV_perm l).map _

/-! ## lookup under permutation -/

theorem keys_perm {α} {l₁ l₂ : List (String × α)} (hp : l₁.Perm l₂) :
    (Json.keys l₁).Perm (Json.keys l₂) := hp.map _

theorem lookup_eq_of_perm {α} {l₁ l₂ : List (String × α)} (hp : l₁.Perm l₂)
    (hn : (Json.keys l₁).Nodup) (k : String) : Json.lookup k l₁ = Json.lookup k l₂ := by
  have hn₂ : (Json.keys l₂).Nodup := (keys_perm hp).nodup_iff.1 hn
  cases h₁ : Json.lookup k l₁ with
  | some v =>
    exact (Json.lookup_of_mem_nodup hn₂ (hp.mem_iff.1 (Json.mem_of_lookup h₁))).symm
  | none =>
    cases h₂ : Json.lookup k l₂ with
    | none => rfl
    | some v =>
      have := Json.lookup_of_mem_nodup hn (hp.mem_iff.2 (Json.mem_of_lookup h₂))
      rw [h₁] at this
      cases this

theorem lookup_isSome_iff_mem_keys {α} {k : String} {l : List (String × α)} :
    (Json.lookup k l).isSome = true ↔ k ∈ l.map (·.1) := by
  constructor
  · intro h
    cases hv : Json.lookup k l with
    | none => rw [hv] at h; cases h
    | some v => exact Json.mem_keys_of_mem (Json.mem_of_lookup hv)
  · intro h
    obtain ⟨v, hv⟩ := Json.lookup_isSome_of_mem_keys (kvs := l) h
    rw [hv]; rfl

/-! ## the two blocks of orderedKeys -/

/-- first block: the PropertyOrder names that are properties -/
def listedKeys {α : Type} (props : List (String × α)) (order : List String) : List String :=
  order.filter fun k => (Json.lookup k props).isSome

/-- second block before sorting -/
def restKeys {α : Type} (props : List (String × α)) (order : List String) : List String :=
  (props.map (·.1)).filter fun k => !(listedKeys props order).contains k

theorem orderedKeys_blocks {α} (props : List (String × α)) (order : List String) :
    orderedKeys props order = listedKeys props order ++ sortStrings (restKeys props order) := rfl

theorem mem_listedKeys {α} {props : List (String × α)} {order : List String} {k : String} :
    k ∈ listedKeys props order ↔ k ∈ order ∧ k ∈ props.map (·.1) := by
  simp only [listedKeys, List.mem_filter, lookup_isSome_iff_mem_keys]

theorem mem_restKeys {α} {props : List (String × α)} {order : List String} {k : String} :
    k ∈ restKeys props order ↔ k ∈ props.map (·.1) ∧ k ∉ order := by
  simp only [restKeys, List.mem_filter, Bool.not_eq_true', List.contains_eq_mem,
    decide_eq_false_iff_not, mem_listedKeys]
  constructor
  · rintro ⟨h1, h2⟩
    exact ⟨h1, fun ho => h2 ⟨ho, h1⟩⟩
  · rintro ⟨h1, h2⟩
    exact ⟨h1, fun h => h2 h.1⟩

theorem orderedKeys_perm_keys {α} {props : List (String × α)} {order : List String}
    (hp : (props.map (·.1)).Nodup) (ho : order.Nodup) :
    (orderedKeys props order).Perm (props.map (·.1)) := by
  rw [orderedKeys_blocks]
  refine (List.Perm.append_left _ (sortStrings_perm' _)).trans ?_
  have hl : (listedKeys props order).Nodup := List.Nodup.sublist List.filter_sublist ho
  have hr : (restKeys props order).Nodup := List.Nodup.sublist List.filter_sublist hp
  refine (List.perm_ext_iff_of_nodup ?_ hp).2 ?_
  · rw [List.nodup_append]
    refine ⟨hl, hr, ?_⟩
    intro a ha b hb hab
    subst hab
    exact (mem_restKeys.1 hb).2 (mem_listedKeys.1 ha).1
  · intro k
    rw [List.mem_append, mem_listedKeys, mem_restKeys]
    constructor
    · rintro (h | h)
      · exact h.2
      · exact h.1
    · intro h
      by_cases hk : k ∈ order
      · exact Or.inl ⟨hk, h⟩
      · exact Or.inr ⟨h, hk⟩

theorem listedKeys_eq_of_perm {α} {p₁ p₂ : List (String × α)} (hp : p₁.Perm p₂)
    (hn : (p₁.map (·.1)).Nodup) (order : List String) : listedKeys p₁ order = listedKeys p₂ order := by
  unfold listedKeys
  congr 1
  funext k
  rw [lookup_eq_of_perm hp hn k]

theorem orderedKeys_eq_of_perm {α} {p₁ p₂ : List (String × α)} (hp : p₁.Perm p₂)
    (hn : (p₁.map (·.1)).Nodup) (order : List String) : orderedKeys p₁ order = orderedKeys p₂ order := by
  rw [orderedKeys_blocks, orderedKeys_blocks, listedKeys_eq_of_perm hp hn]
  congr 1
  apply sortStrings_eq_of_perm
  unfold restKeys
  rw [listedKeys_eq_of_perm hp hn]
  exact (hp.map _).filter _

theorem hasDup_iff : ∀ {l : List String}, hasDup l = true ↔ ¬ l.Nodup
  | [] => by simp [hasDup]
  | x :: xs => by
    simp only [hasDup, Bool.or_eq_true, List.contains_eq_mem, decide_eq_true_eq, List.nodup_cons,
      hasDup_iff (l := xs)]
    constructor
    · rintro (h | h) ⟨h1, h2⟩
      · exact h1 h
      · exact h h2
    · intro h
      by_cases hx : x ∈ xs
      · exact Or.inl hx
      · exact Or.inr fun h2 => h ⟨hx, h2⟩

/-! ## the keys of the emitted "properties" object and of map-valued keywords -/

theorem res_bind_eq_ok {α β} {x : Res α} {f : α → Res β} {b : β} (h : Res.bind x f = .ok b) :
    ∃ a, x = .ok a ∧ f a = .ok b := by
  cases x with
  | ok a => exact ⟨a, rfl, h⟩
  | fuel => cases h
  | panic => cases h
  | err => cases h

theorem mSchemaEntries_keys {st : Store} {rec : MRec} : ∀ {l : List (String × NodeId)} {es : List (String × Json)},
    mSchemaEntries st rec l = .ok es → es.map (·.1) = l.map (·.1)
  | [], es, h => by cases h; rfl
  | (k, x) :: l, es, h => by
    simp only [mSchemaEntries] at h
    obtain ⟨j, _, h2⟩ := res_bind_eq_ok h
    obtain ⟨js, h3, h4⟩ := res_bind_eq_ok h2
    cases h4
    simp only [List.map_cons, mSchemaEntries_keys h3]

theorem orderedKeys_isSome {α} {props : List (String × α)} {order : List String} {k : String}
    (hk : k ∈ orderedKeys props order) : (Json.lookup k props).isSome = true := by
  rw [orderedKeys_blocks, List.mem_append] at hk
  rcases hk with hk | hk
  · exact (List.mem_filter.1 hk).2
  · have := (sortStrings_perm' _).mem_iff.1 hk
    exact lookup_isSome_iff_mem_keys.2 (mem_restKeys.1 this).1

theorem filterMap_lookup_keys {α} {props : List (String × α)} : ∀ (ks : List String),
    (∀ k, k ∈ ks → (Json.lookup k props).isSome = true) →
    (ks.filterMap fun k => (Json.lookup k props).map fun v => (k, v)).map (·.1) = ks
  | [], _ => rfl
  | k :: ks, h => by
    have hk := h k List.mem_cons_self
    cases hv : Json.lookup k props with
    | none => rw [hv] at hk; cases hk
    | some v =>
      simp only [List.filterMap_cons, hv, Option.map_some, List.map_cons,
        filterMap_lookup_keys ks (fun k' hk' => h k' (List.mem_cons_of_mem _ hk'))]

/-- the keys of the "properties" object are exactly `orderedKeys`, in that order -/
theorem mProperties_keys {st : Store} {rec : MRec} {props : List (String × NodeId)} {order : List String} {j : Json}
    (h : mProperties st rec props order = .ok j) :
    ∃ es, j = .obj es ∧ es.map (·.1) = orderedKeys props order := by
  unfold mProperties at h
  obtain ⟨es, h1, h2⟩ := res_bind_eq_ok h
  cases h2
  refine ⟨es, rfl, ?_⟩
  rw [mSchemaEntries_keys h1]
  exact filterMap_lookup_keys _ fun k hk => orderedKeys_isSome hk

/-- the keys of a `map[string]*Schema` keyword are written in ascending order -/
theorem mSchemaMap_keys {st : Store} {rec : MRec} {kvs : List (String × NodeId)} {j : Json}
    (h : mSchemaMap st rec kvs = .ok j) :
    ∃ es, j = .obj es ∧ es.map (·.1) = (sortKV kvs).map (·.1) := by
  unfold mSchemaMap at h
  obtain ⟨es, h1, h2⟩ := res_bind_eq_ok h
  cases h2
  exact ⟨es, rfl, mSchemaEntries_keys h1⟩

theorem sortKV_keys_sorted {α} (kvs : List (String × α)) : ((sortKV kvs).map (·.1)).Pairwise (· ≤ ·) := by
  have h := sortKV_sorted kvs
  rw [List.pairwise_map]
  exact h

end Go
end JSV
