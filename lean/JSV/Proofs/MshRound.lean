/-
  Helper lemmas for C05 (marshal / unmarshal round trip).
-/
import JSV.Proofs.MshNode
import JSV.Proofs.InvUnmarshal
import JSV.Model.Unmarshal
namespace JSV
namespace Go

/-! ## evaluation of the pieces on absent / zero fields -/

theorem mOne_none (st : Store) (rec : MRec) (k : String) : mOne st rec k none = .ok [] := rfl
theorem mMany_none (st : Store) (rec : MRec) (k : String) : mMany st rec k none = .ok [] := rfl
theorem mManyNN_none (st : Store) (rec : MRec) (k : String) : mManyNN st rec k none = .ok [] := rfl
theorem mKeyed_none (st : Store) (rec : MRec) (k : String) : mKeyed st rec k none = .ok [] := rfl
theorem mPropsField_none (st : Store) (rec : MRec) (o : List String) : mPropsField st rec none o = .ok [] := rfl
theorem mDeps_none (st : Store) (rec : MRec) : mDeps st rec none none = .ok none := rfl
theorem mItemsField_none (st : Store) (rec : MRec) : mItemsField st rec none none = .ok [] := rfl

theorem mStr_empty (k : String) : mStr k "" = [] := rfl
theorem mStr_ne (k : String) {s : String} (h : s ≠ "") : mStr k s = [(k, .str s)] := by
  unfold mStr
  rw [if_neg]
  simpa using h
theorem mBool_false (k : String) : mBool k false = [] := rfl
theorem mBool_true (k : String) : mBool k true = [(k, .bool true)] := rfl
theorem mNum_none (k : String) : mNum k none = [] := rfl
theorem mNum_some (k : String) (q : Rat) : mNum k (some q) = [(k, .num q)] := rfl
theorem mInt_none (k : String) : mInt k none = [] := rfl
theorem mInt_some (k : String) (i : Int) : mInt k (some i) = [(k, .num i)] := rfl
theorem mem_none (k : String) : mem k none = [] := rfl
theorem mem_some (k : String) (j : Json) : mem k (some j) = [(k, j)] := rfl
theorem mNonEmptyList_none (k : String) : mNonEmptyList k none = [] := rfl


theorem mFinish_obj {M ms : List (String × Json)} (h : mFinish M = .ok (.obj ms)) : ms = M := by
  unfold mFinish at h
  split at h
  · cases h
  · cases h
  · cases h; rfl

/-! ## boolean schemas -/

theorem marshalStep_empty (st : Store) (rec : MRec) (id : NodeId) (h : st.get? id = some emptyNode) :
    marshalStep st rec id = .ok (.bool true) := by
  rw [marshalStep_eq, h]
  rfl

theorem marshalStep_false (st : Store) (rec : MRec) (id inner : NodeId)
    (h : st.get? id = some { emptyNode with not := some inner })
    (hi : st.get? inner = some emptyNode) (hrec : rec inner = .ok (.bool true)) :
    marshalStep st rec id = .ok (.bool false) := by
  rw [marshalStep_eq, h]
  have e : mOne st rec "not" (some inner) = .ok [("not", .bool true)] := by
    simp only [mOne, mSchema, hi, hrec, Res.bind_ok]
  dsimp only [emptyNode]
  rw [if_neg (by simp [marshalChecksOk, basicChecksOk, hasDup]), if_neg (by simp)]
  unfold marshalNode marshalParts
  dsimp only
  simp only [mOne_none, mMany_none, mManyNN_none, mKeyed_none, mPropsField_none, mDeps_none,
    mItemsField_none, e, Res.bind_ok]
  unfold mMembers
  dsimp only
  simp only [mTyp, mVocab, mDepReq, mRequired, mExtra, sortKV, mStr_empty, mBool_false, mNum_none, mInt_none,
    mem_none, mNonEmptyList_none, Option.map_none, Option.getD_none, List.map_nil, List.foldr_nil,
    bne_self_eq_false, Bool.false_eq_true, if_false, List.append_nil, List.nil_append]
  rfl

theorem unmarshal_true (st : Store) : unmarshal (.bool true) st = .ok (st.alloc emptyNode) := rfl
theorem unmarshal_false (st : Store) : unmarshal (.bool false) st = .ok (allocFalse st) := rfl

theorem marshal_alloc_empty (st : Store) : marshal (st.alloc emptyNode).2 (st.alloc emptyNode).1 = .ok (.bool true) := by
  show marshalStep (st.push emptyNode) _ st.size = _
  exact marshalStep_empty _ _ _ (get?_push_size _ _)

theorem marshal_allocFalse (st : Store) : marshal (allocFalse st).2 (allocFalse st).1 = .ok (.bool false) := by
  show marshalStep ((st.push emptyNode).push { emptyNode with not := some st.size })
    (marshalFuel ((st.push emptyNode).push { emptyNode with not := some st.size })
      (((st.push emptyNode).push { emptyNode with not := some st.size }).size + 1)) (st.push emptyNode).size = _
  have hi : Store.get? ((st.push emptyNode).push { emptyNode with not := some st.size }) st.size = some emptyNode := by
    rw [get?_push_lt _ (by rw [Array.size_push]; exact Nat.lt_succ_self _), get?_push_size]
  refine marshalStep_false _ _ _ st.size (get?_push_size _ _) hi ?_
  exact marshalStep_empty _ _ _ hi

/-! ## the keys of the emitted object -/

/-- a member list that is empty or the single member `k` -/
def KeyIn (k : String) (l : List (String × Json)) : Prop := l = [] ∨ ∃ j, l = [(k, j)]

theorem keys_sub {k : String} {l : List (String × Json)} (h : KeyIn k l) : (l.map (·.1)).Sublist [k] := by
  rcases h with rfl | ⟨j, rfl⟩
  · exact List.nil_sublist _
  · exact List.Sublist.refl _

theorem keyIn_mem (k : String) (v : Option Json) : KeyIn k (mem k v) := by
  cases v with
  | none => exact Or.inl rfl
  | some j => exact Or.inr ⟨j, rfl⟩

theorem keyIn_mStr (k s : String) : KeyIn k (mStr k s) := by
  unfold mStr; split
  · exact Or.inl rfl
  · exact Or.inr ⟨_, rfl⟩

theorem keyIn_mBool (k : String) (b : Bool) : KeyIn k (mBool k b) := by
  cases b
  · exact Or.inl rfl
  · exact Or.inr ⟨_, rfl⟩

theorem keyIn_mNum (k : String) (q : Option Rat) : KeyIn k (mNum k q) := keyIn_mem k _
theorem keyIn_mInt (k : String) (q : Option Int) : KeyIn k (mInt k q) := keyIn_mem k _

theorem keyIn_mTyp (n : Node) : KeyIn "type" (mTyp n) := by
  unfold mTyp; split
  · exact Or.inr ⟨_, rfl⟩
  · split
    · exact Or.inr ⟨_, rfl⟩
    · exact Or.inl rfl

theorem keyIn_mVocab (n : Node) : KeyIn "$vocabulary" (mVocab n) := by
  unfold mVocab; split
  · exact Or.inr ⟨_, rfl⟩
  · exact Or.inl rfl

theorem keyIn_mDepReq (n : Node) : KeyIn "dependentRequired" (mDepReq n) := by
  unfold mDepReq; split
  · exact Or.inr ⟨_, rfl⟩
  · exact Or.inl rfl

theorem keyIn_mRequired (n : Node) : KeyIn "required" (mRequired n) := by
  unfold mRequired; split
  · exact Or.inr ⟨_, rfl⟩
  · exact Or.inl rfl

theorem keyIn_mNonEmptyList (k : String) (l : Option (List Json)) : KeyIn k (mNonEmptyList k l) := by
  unfold mNonEmptyList; split
  · exact Or.inr ⟨_, rfl⟩
  · exact Or.inl rfl

theorem keyIn_mOne {st : Store} {rec : MRec} {k : String} {c : Option NodeId} {l : List (String × Json)}
    (h : mOne st rec k c = .ok l) : KeyIn k l := by
  cases c with
  | none => cases h; exact Or.inl rfl
  | some x =>
    simp only [mOne] at h
    obtain ⟨j, _, h2⟩ := Res.bind_eq_ok h
    cases h2
    exact Or.inr ⟨j, rfl⟩

theorem keyIn_mMany {st : Store} {rec : MRec} {k : String} {c : Option (List NodeId)} {l : List (String × Json)}
    (h : mMany st rec k c = .ok l) : KeyIn k l := by
  unfold mMany at h
  split at h
  · cases h; exact Or.inl rfl
  · cases h; exact Or.inl rfl
  · obtain ⟨j, _, h2⟩ := Res.bind_eq_ok h
    cases h2
    exact Or.inr ⟨_, rfl⟩

theorem keyIn_mManyNN {st : Store} {rec : MRec} {k : String} {c : Option (List NodeId)} {l : List (String × Json)}
    (h : mManyNN st rec k c = .ok l) : KeyIn k l := by
  unfold mManyNN at h
  split at h
  · cases h; exact Or.inl rfl
  · obtain ⟨j, _, h2⟩ := Res.bind_eq_ok h
    cases h2
    exact Or.inr ⟨_, rfl⟩

theorem keyIn_mKeyed {st : Store} {rec : MRec} {k : String} {c : Option (List (String × NodeId))}
    {l : List (String × Json)} (h : mKeyed st rec k c = .ok l) : KeyIn k l := by
  unfold mKeyed at h
  split at h
  · cases h; exact Or.inl rfl
  · cases h; exact Or.inl rfl
  · obtain ⟨j, _, h2⟩ := Res.bind_eq_ok h
    cases h2
    exact Or.inr ⟨_, rfl⟩

theorem keyIn_mPropsField {st : Store} {rec : MRec} {c : Option (List (String × NodeId))} {o : List String}
    {l : List (String × Json)} (h : mPropsField st rec c o = .ok l) : KeyIn "properties" l := by
  unfold mPropsField at h
  split at h
  · obtain ⟨j, _, h2⟩ := Res.bind_eq_ok h
    cases h2
    exact Or.inr ⟨_, rfl⟩
  · cases h; exact Or.inl rfl

theorem keyIn_mItemsField {st : Store} {rec : MRec} {c : Option NodeId} {a : Option (List NodeId)}
    {l : List (String × Json)} (h : mItemsField st rec c a = .ok l) : KeyIn "items" l := by
  unfold mItemsField at h
  split at h
  · exact keyIn_mOne h
  · obtain ⟨j, _, h2⟩ := Res.bind_eq_ok h
    cases h2
    exact Or.inr ⟨_, rfl⟩
  · cases h; exact Or.inl rfl

/-- the tagged / wrapper names in emission order, written as the append chain the member list has -/
def emittedNames : List String :=
  (((((((((((((((((((((((((((((((((((((((((((((((((((((((((((["type"] ++ ["properties"]) ++ ["dependencies"]) ++ ["items"]) ++ ["enum"]) ++ ["anyOf"]) ++ ["oneOf"]) ++ ["$vocabulary"]) ++ ["$id"]) ++ ["$schema"]) ++ ["$ref"]) ++ ["$comment"]) ++ ["$defs"]) ++ ["definitions"]) ++ ["$anchor"]) ++ ["$dynamicAnchor"]) ++ ["$dynamicRef"]) ++ ["title"]) ++ ["description"]) ++ ["default"]) ++ ["deprecated"]) ++ ["readOnly"]) ++ ["writeOnly"]) ++ ["examples"]) ++ ["const"]) ++ ["multipleOf"]) ++ ["minimum"]) ++ ["maximum"]) ++ ["exclusiveMinimum"]) ++ ["exclusiveMaximum"]) ++ ["minLength"]) ++ ["maxLength"]) ++ ["pattern"]) ++ ["prefixItems"]) ++ ["minItems"]) ++ ["maxItems"]) ++ ["additionalItems"]) ++ ["uniqueItems"]) ++ ["contains"]) ++ ["minContains"]) ++ ["maxContains"]) ++ ["unevaluatedItems"]) ++ ["minProperties"]) ++ ["maxProperties"]) ++ ["required"]) ++ ["dependentRequired"]) ++ ["patternProperties"]) ++ ["additionalProperties"]) ++ ["propertyNames"]) ++ ["unevaluatedProperties"]) ++ ["allOf"]) ++ ["not"]) ++ ["if"]) ++ ["then"]) ++ ["else"]) ++ ["dependentSchemas"]) ++ ["contentEncoding"]) ++ ["contentMediaType"]) ++ ["contentSchema"]) ++ ["format"])

theorem emittedNames_eq : emittedNames = ["type", "properties", "dependencies", "items", "enum", "anyOf", "oneOf", "$vocabulary", "$id", "$schema", "$ref", "$comment", "$defs", "definitions", "$anchor", "$dynamicAnchor", "$dynamicRef", "title", "description", "default", "deprecated", "readOnly", "writeOnly", "examples", "const", "multipleOf", "minimum", "maximum", "exclusiveMinimum", "exclusiveMaximum", "minLength", "maxLength", "pattern", "prefixItems", "minItems", "maxItems", "additionalItems", "uniqueItems", "contains", "minContains", "maxContains", "unevaluatedItems", "minProperties", "maxProperties", "required", "dependentRequired", "patternProperties", "additionalProperties", "propertyNames", "unevaluatedProperties", "allOf", "not", "if", "then", "else", "dependentSchemas", "contentEncoding", "contentMediaType", "contentSchema", "format"] := rfl

theorem keys_mMembers_sub (n : Node) (props : List (String × Json)) (deps : Option Json)
    (items defs definitions prefixItems additionalItems contains unevaluatedItems patternProperties additionalProperties propertyNames unevaluatedProperties allOf anyOf oneOf not_ if_ then_ else_ dependentSchemas contentSchema : List (String × Json))
    (hprops : KeyIn "properties" props) (hitems : KeyIn "items" items) (hdefs : KeyIn "$defs" defs) (hdefinitions : KeyIn "definitions" definitions) (hprefixItems : KeyIn "prefixItems" prefixItems) (hadditionalItems : KeyIn "additionalItems" additionalItems) (hcontains : KeyIn "contains" contains) (hunevaluatedItems : KeyIn "unevaluatedItems" unevaluatedItems) (hpatternProperties : KeyIn "patternProperties" patternProperties) (hadditionalProperties : KeyIn "additionalProperties" additionalProperties) (hpropertyNames : KeyIn "propertyNames" propertyNames) (hunevaluatedProperties : KeyIn "unevaluatedProperties" unevaluatedProperties) (hallOf : KeyIn "allOf" allOf) (hanyOf : KeyIn "anyOf" anyOf) (honeOf : KeyIn "oneOf" oneOf) (hnot_ : KeyIn "not" not_) (hif_ : KeyIn "if" if_) (hthen_ : KeyIn "then" then_) (helse_ : KeyIn "else" else_) (hdependentSchemas : KeyIn "dependentSchemas" dependentSchemas) (hcontentSchema : KeyIn "contentSchema" contentSchema) :
    ((mMembers n props deps items defs definitions prefixItems additionalItems contains unevaluatedItems patternProperties additionalProperties propertyNames unevaluatedProperties allOf anyOf oneOf not_ if_ then_ else_ dependentSchemas contentSchema).map (·.1)).Sublist (emittedNames ++ (mExtra n).map (·.1)) := by
  unfold mMembers emittedNames
  simp only [List.map_append]
  refine List.Sublist.append ?_ (List.Sublist.refl _)
  refine List.Sublist.append ?_ (keys_sub (keyIn_mStr _ _))
  refine List.Sublist.append ?_ (keys_sub hcontentSchema)
  refine List.Sublist.append ?_ (keys_sub (keyIn_mStr _ _))
  refine List.Sublist.append ?_ (keys_sub (keyIn_mStr _ _))
  refine List.Sublist.append ?_ (keys_sub hdependentSchemas)
  refine List.Sublist.append ?_ (keys_sub helse_)
  refine List.Sublist.append ?_ (keys_sub hthen_)
  refine List.Sublist.append ?_ (keys_sub hif_)
  refine List.Sublist.append ?_ (keys_sub hnot_)
  refine List.Sublist.append ?_ (keys_sub hallOf)
  refine List.Sublist.append ?_ (keys_sub hunevaluatedProperties)
  refine List.Sublist.append ?_ (keys_sub hpropertyNames)
  refine List.Sublist.append ?_ (keys_sub hadditionalProperties)
  refine List.Sublist.append ?_ (keys_sub hpatternProperties)
  refine List.Sublist.append ?_ (keys_sub (keyIn_mDepReq n))
  refine List.Sublist.append ?_ (keys_sub (keyIn_mRequired n))
  refine List.Sublist.append ?_ (keys_sub (keyIn_mInt _ _))
  refine List.Sublist.append ?_ (keys_sub (keyIn_mInt _ _))
  refine List.Sublist.append ?_ (keys_sub hunevaluatedItems)
  refine List.Sublist.append ?_ (keys_sub (keyIn_mInt _ _))
  refine List.Sublist.append ?_ (keys_sub (keyIn_mInt _ _))
  refine List.Sublist.append ?_ (keys_sub hcontains)
  refine List.Sublist.append ?_ (keys_sub (keyIn_mBool _ _))
  refine List.Sublist.append ?_ (keys_sub hadditionalItems)
  refine List.Sublist.append ?_ (keys_sub (keyIn_mInt _ _))
  refine List.Sublist.append ?_ (keys_sub (keyIn_mInt _ _))
  refine List.Sublist.append ?_ (keys_sub hprefixItems)
  refine List.Sublist.append ?_ (keys_sub (keyIn_mStr _ _))
  refine List.Sublist.append ?_ (keys_sub (keyIn_mInt _ _))
  refine List.Sublist.append ?_ (keys_sub (keyIn_mInt _ _))
  refine List.Sublist.append ?_ (keys_sub (keyIn_mNum _ _))
  refine List.Sublist.append ?_ (keys_sub (keyIn_mNum _ _))
  refine List.Sublist.append ?_ (keys_sub (keyIn_mNum _ _))
  refine List.Sublist.append ?_ (keys_sub (keyIn_mNum _ _))
  refine List.Sublist.append ?_ (keys_sub (keyIn_mNum _ _))
  refine List.Sublist.append ?_ (keys_sub (keyIn_mem _ _))
  refine List.Sublist.append ?_ (keys_sub (keyIn_mNonEmptyList _ _))
  refine List.Sublist.append ?_ (keys_sub (keyIn_mBool _ _))
  refine List.Sublist.append ?_ (keys_sub (keyIn_mBool _ _))
  refine List.Sublist.append ?_ (keys_sub (keyIn_mBool _ _))
  refine List.Sublist.append ?_ (keys_sub (keyIn_mem _ _))
  refine List.Sublist.append ?_ (keys_sub (keyIn_mStr _ _))
  refine List.Sublist.append ?_ (keys_sub (keyIn_mStr _ _))
  refine List.Sublist.append ?_ (keys_sub (keyIn_mStr _ _))
  refine List.Sublist.append ?_ (keys_sub (keyIn_mStr _ _))
  refine List.Sublist.append ?_ (keys_sub (keyIn_mStr _ _))
  refine List.Sublist.append ?_ (keys_sub hdefinitions)
  refine List.Sublist.append ?_ (keys_sub hdefs)
  refine List.Sublist.append ?_ (keys_sub (keyIn_mStr _ _))
  refine List.Sublist.append ?_ (keys_sub (keyIn_mStr _ _))
  refine List.Sublist.append ?_ (keys_sub (keyIn_mStr _ _))
  refine List.Sublist.append ?_ (keys_sub (keyIn_mStr _ _))
  refine List.Sublist.append ?_ (keys_sub (keyIn_mVocab n))
  refine List.Sublist.append ?_ (keys_sub honeOf)
  refine List.Sublist.append ?_ (keys_sub hanyOf)
  refine List.Sublist.append ?_ (keys_sub (keyIn_mem _ _))
  refine List.Sublist.append ?_ (keys_sub hitems)
  refine List.Sublist.append ?_ (keys_sub (keyIn_mem _ deps))
  refine List.Sublist.append ?_ (keys_sub hprops)
  exact keys_sub (keyIn_mTyp n)

theorem marshalNode_obj_keys {st : Store} {rec : MRec} {n : Node} {ms : List (String × Json)}
    (h : marshalNode st rec n = .ok (.obj ms)) :
    (ms.map (·.1)).Sublist (emittedNames ++ (mExtra n).map (·.1)) := by
  unfold marshalNode marshalParts at h
  obtain ⟨props, e_props, h0⟩ := Res.bind_eq_ok h
  obtain ⟨deps, e_deps, h1⟩ := Res.bind_eq_ok h0
  obtain ⟨items, e_items, h2⟩ := Res.bind_eq_ok h1
  obtain ⟨defs, e_defs, h3⟩ := Res.bind_eq_ok h2
  obtain ⟨definitions, e_definitions, h4⟩ := Res.bind_eq_ok h3
  obtain ⟨prefixItems, e_prefixItems, h5⟩ := Res.bind_eq_ok h4
  obtain ⟨additionalItems, e_additionalItems, h6⟩ := Res.bind_eq_ok h5
  obtain ⟨contains, e_contains, h7⟩ := Res.bind_eq_ok h6
  obtain ⟨unevaluatedItems, e_unevaluatedItems, h8⟩ := Res.bind_eq_ok h7
  obtain ⟨patternProperties, e_patternProperties, h9⟩ := Res.bind_eq_ok h8
  obtain ⟨additionalProperties, e_additionalProperties, h10⟩ := Res.bind_eq_ok h9
  obtain ⟨propertyNames, e_propertyNames, h11⟩ := Res.bind_eq_ok h10
  obtain ⟨unevaluatedProperties, e_unevaluatedProperties, h12⟩ := Res.bind_eq_ok h11
  obtain ⟨allOf, e_allOf, h13⟩ := Res.bind_eq_ok h12
  obtain ⟨anyOf, e_anyOf, h14⟩ := Res.bind_eq_ok h13
  obtain ⟨oneOf, e_oneOf, h15⟩ := Res.bind_eq_ok h14
  obtain ⟨not_, e_not_, h16⟩ := Res.bind_eq_ok h15
  obtain ⟨if_, e_if_, h17⟩ := Res.bind_eq_ok h16
  obtain ⟨then_, e_then_, h18⟩ := Res.bind_eq_ok h17
  obtain ⟨else_, e_else_, h19⟩ := Res.bind_eq_ok h18
  obtain ⟨dependentSchemas, e_dependentSchemas, h20⟩ := Res.bind_eq_ok h19
  obtain ⟨contentSchema, e_contentSchema, h21⟩ := Res.bind_eq_ok h20
  rw [mFinish_obj h21]
  exact keys_mMembers_sub n props deps items defs definitions prefixItems additionalItems contains unevaluatedItems patternProperties additionalProperties propertyNames unevaluatedProperties allOf anyOf oneOf not_ if_ then_ else_ dependentSchemas contentSchema (keyIn_mPropsField e_props) (keyIn_mItemsField e_items) (keyIn_mKeyed e_defs) (keyIn_mKeyed e_definitions) (keyIn_mMany e_prefixItems) (keyIn_mOne e_additionalItems) (keyIn_mOne e_contains) (keyIn_mOne e_unevaluatedItems) (keyIn_mKeyed e_patternProperties) (keyIn_mOne e_additionalProperties) (keyIn_mOne e_propertyNames) (keyIn_mOne e_unevaluatedProperties) (keyIn_mMany e_allOf) (keyIn_mManyNN e_anyOf) (keyIn_mManyNN e_oneOf) (keyIn_mOne e_not_) (keyIn_mOne e_if_) (keyIn_mOne e_then_) (keyIn_mOne e_else_) (keyIn_mKeyed e_dependentSchemas) (keyIn_mOne e_contentSchema)

/-! ## `$vocabulary`: only nil is omitted -/

theorem mFinish_of_mem {M : List (String × Json)} {j : Json} {e : String × Json} (he : e ∈ M) (hne : e.1 ≠ "not")
    (h : mFinish M = .ok j) : j = .obj M := by
  rw [mFinish_other (M := M)] at h
  · cases h; rfl
  · intro h0; rw [h0] at he; cases he
  · intro h0
    rw [h0, List.mem_singleton] at he
    exact hne (by rw [he])

theorem mVocab_some {n : Node} {vs : List (String × Bool)} (hv : n.vocabulary = some vs) :
    mVocab n = [("$vocabulary", Json.obj (sortKV (vs.map fun (k, b) => (k, Json.bool b))))] := by
  unfold mVocab
  rw [hv]

/-- a non-nil Vocabulary, empty or not, is written: the wrapper struct of MarshalJSON holds it as an `any` -/
theorem marshalNode_vocab {st : Store} {rec : MRec} {n : Node} {j : Json} {vs : List (String × Bool)}
    (hv : n.vocabulary = some vs) (h : marshalNode st rec n = .ok j) :
    ∃ ms, j = .obj ms ∧ ("$vocabulary", Json.obj (sortKV (vs.map fun (k, b) => (k, Json.bool b)))) ∈ ms := by
  unfold marshalNode marshalParts at h
  obtain ⟨props, -, h0⟩ := Res.bind_eq_ok h
  obtain ⟨deps, -, h1⟩ := Res.bind_eq_ok h0
  obtain ⟨items, -, h2⟩ := Res.bind_eq_ok h1
  obtain ⟨defs, -, h3⟩ := Res.bind_eq_ok h2
  obtain ⟨definitions, -, h4⟩ := Res.bind_eq_ok h3
  obtain ⟨prefixItems, -, h5⟩ := Res.bind_eq_ok h4
  obtain ⟨additionalItems, -, h6⟩ := Res.bind_eq_ok h5
  obtain ⟨contains, -, h7⟩ := Res.bind_eq_ok h6
  obtain ⟨unevaluatedItems, -, h8⟩ := Res.bind_eq_ok h7
  obtain ⟨patternProperties, -, h9⟩ := Res.bind_eq_ok h8
  obtain ⟨additionalProperties, -, h10⟩ := Res.bind_eq_ok h9
  obtain ⟨propertyNames, -, h11⟩ := Res.bind_eq_ok h10
  obtain ⟨unevaluatedProperties, -, h12⟩ := Res.bind_eq_ok h11
  obtain ⟨allOf, -, h13⟩ := Res.bind_eq_ok h12
  obtain ⟨anyOf, -, h14⟩ := Res.bind_eq_ok h13
  obtain ⟨oneOf, -, h15⟩ := Res.bind_eq_ok h14
  obtain ⟨not_, -, h16⟩ := Res.bind_eq_ok h15
  obtain ⟨if_, -, h17⟩ := Res.bind_eq_ok h16
  obtain ⟨then_, -, h18⟩ := Res.bind_eq_ok h17
  obtain ⟨else_, -, h19⟩ := Res.bind_eq_ok h18
  obtain ⟨dependentSchemas, -, h20⟩ := Res.bind_eq_ok h19
  obtain ⟨contentSchema, -, h21⟩ := Res.bind_eq_ok h20
  have hm : ("$vocabulary", Json.obj (sortKV (vs.map fun (k, b) => (k, Json.bool b)))) ∈
      mMembers n props deps items defs definitions prefixItems additionalItems contains unevaluatedItems patternProperties additionalProperties propertyNames unevaluatedProperties allOf anyOf oneOf not_ if_ then_ else_ dependentSchemas contentSchema := by
    unfold mMembers
    simp only [List.mem_append, mVocab_some hv, List.mem_singleton, true_or, or_true]
  exact ⟨_, mFinish_of_mem hm (show "$vocabulary" ≠ "not" by decide) h21, hm⟩

theorem emittedNames_nodup : emittedNames.Nodup := by
  rw [emittedNames_eq]; decide

theorem emittedNames_struct : ∀ k, k ∈ emittedNames → k ∈ structNames := by
  rw [emittedNames_eq]; decide

theorem structNames_iff_knownKeys : ∀ k, k ∈ structNames ↔ k ∈ knownKeys := by
  intro k
  constructor
  · intro h
    have : ∀ a, a ∈ structNames → a ∈ knownKeys := by decide
    exact this k h
  · intro h
    have : ∀ a, a ∈ knownKeys → a ∈ structNames := by decide
    exact this k h

theorem map_sortJson_keys : ∀ l : List (String × Json),
    (l.map fun (k, v) => (k, sortJson v)).map (·.1) = l.map (·.1)
  | [] => rfl
  | (k, v) :: l => by
    simp only [List.map_cons, map_sortJson_keys l]

theorem keys_mExtra_perm (n : Node) : ((mExtra n).map (·.1)).Perm ((n.extra.getD []).map (·.1)) := by
  unfold mExtra
  refine ((sortKV_perm _).map _).trans ?_
  rw [map_sortJson_keys]

theorem marshalStep_obj_keys_nodup {st : Store} {rec : MRec} {id : NodeId} {n : Node} {ms : List (String × Json)}
    (hn : st.get? id = some n) (h : marshalStep st rec id = .ok (.obj ms))
    (hx : ((n.extra.getD []).map (·.1)).Nodup) : (ms.map (·.1)).Nodup := by
  rw [marshalStep_eq, hn] at h
  dsimp only at h
  by_cases h1 : (!marshalChecksOk n) = true
  · rw [if_pos h1] at h; cases h
  · rw [if_neg h1] at h
    by_cases h2 : ((n.extra.getD []).any fun e => structNames.contains e.1) = true
    · rw [if_pos h2] at h; cases h
    · rw [if_neg h2] at h
      refine (marshalNode_obj_keys h).nodup
        (List.nodup_append.2 ⟨emittedNames_nodup, (keys_mExtra_perm n).nodup_iff.2 hx, ?_⟩)
      intro a ha b hb hab
      subst hab
      have hb' := (keys_mExtra_perm n).mem_iff.1 hb
      obtain ⟨e, he, rfl⟩ := List.mem_map.1 hb'
      apply h2
      rw [List.any_eq_true]
      exact ⟨e, he, by simpa using emittedNames_struct _ ha⟩

/-! ## Extra -/

theorem map_sortJson_id : ∀ l : List (String × Json), (∀ e, e ∈ l → sortJson e.2 = e.2) →
    (l.map fun (k, v) => (k, sortJson v)) = l
  | [], _ => rfl
  | (k, v) :: l, h => by
    have h1 : sortJson v = v := h (k, v) List.mem_cons_self
    simp only [List.map_cons, h1, map_sortJson_id l (fun e he => h e (List.mem_cons_of_mem _ he))]

theorem marshalStep_extra (st : Store) (rec : MRec) (id : NodeId) (es : List (String × Json))
    (hn : st.get? id = some { extra := some es }) (hne : es ≠ [])
    (hk : ∀ e, e ∈ es → e.1 ∉ structNames) (hs : ∀ e, e ∈ es → sortJson e.2 = e.2) :
    marshalStep st rec id = .ok (.obj (sortKV es)) := by
  rw [marshalStep_eq, hn]
  have hE : mExtra { extra := some es } = sortKV es := by
    unfold mExtra
    dsimp only [Option.getD]
    rw [map_sortJson_id es hs]
  have hany : ((es.any fun e => structNames.contains e.1) = true) → False := by
    intro h
    rw [List.any_eq_true] at h
    obtain ⟨e, he, hc⟩ := h
    exact hk e he (by simpa using hc)
  dsimp only [Option.getD_some]
  rw [if_neg (by simp [marshalChecksOk, basicChecksOk, hasDup]), if_neg hany]
  unfold marshalNode marshalParts
  dsimp only
  simp only [mOne_none, mMany_none, mManyNN_none, mKeyed_none, mPropsField_none, mDeps_none,
    mItemsField_none, Res.bind_ok]
  unfold mMembers
  dsimp only
  simp only [mTyp, mVocab, mDepReq, mRequired, mStr_empty, mBool_false, mNum_none, mInt_none,
    mem_none, mNonEmptyList_none, Option.map_none,
    bne_self_eq_false, Bool.false_eq_true, if_false, List.append_nil, List.nil_append, hE]
  have hp := sortKV_perm es
  apply mFinish_other
  · intro h0
    rw [h0] at hp
    exact hne hp.symm.eq_nil
  · intro h0
    rw [h0] at hp
    exact hk ("not", .bool true) (hp.mem_iff.1 List.mem_cons_self) (by decide)

def addExtra (m : Node) (e : String × Json) : Node := { m with extra := some ((m.extra.getD []) ++ [e]) }

theorem setField_unknown (rec : URec) (n : Node) (st : Store) (k : String) (v : Json)
    (hk : k ∉ knownKeys) : setField rec n st k v = .ok (addExtra n (k, v), st) := by
  unfold setField
  split
  all_goals first
    | rfl
    | exact absurd (by decide) hk

/-- members whose keys are no keyword and (H_D4) no case variant of one all land in `Extra` -/
theorem setFields_unknown (rec : URec) : ∀ (l : List (String × Json)) (m : Node) (st : Store),
    (∀ e, e ∈ l → e.1 ∉ knownKeys) → (∀ e, e ∈ l → isFoldedKey e.1 = false) →
    setFields rec l m st = .ok (l.foldl addExtra m, st)
  | [], _, _, _, _ => rfl
  | (k, v) :: l, m, st, h, hf => by
    simp only [setFields, setMember_eq_setField rec m st v
        (canonKey_of_not_mem (h (k, v) List.mem_cons_self) (hf (k, v) List.mem_cons_self)),
      setField_unknown rec m st k v (h (k, v) List.mem_cons_self), Res.bind_ok, List.foldl_cons]
    exact setFields_unknown rec l _ st (fun e he => h e (List.mem_cons_of_mem _ he))
      (fun e he => hf e (List.mem_cons_of_mem _ he))

theorem foldl_addExtra : ∀ (l : List (String × Json)) (m : Node), l ≠ [] →
    l.foldl addExtra m = { m with extra := some ((m.extra.getD []) ++ l) }
  | [], _, h => absurd rfl h
  | [e], _, _ => rfl
  | e :: e' :: l, m, _ => by
    rw [List.foldl_cons, foldl_addExtra (e' :: l) (addExtra m e) (by simp)]
    simp [addExtra]

theorem unmarshalStep_extra (rec : URec) (l : List (String × Json)) (st : Store) (hne : l ≠ [])
    (hk : ∀ e, e ∈ l → e.1 ∉ knownKeys) (hf : ∀ e, e ∈ l → isFoldedKey e.1 = false) :
    unmarshalStep rec (.obj l) st = .ok (st.alloc { extra := some l }) := by
  simp only [unmarshalStep, setFields_unknown rec l emptyNode st hk hf, Res.bind_ok, foldl_addExtra l emptyNode hne]
  rfl

end Go
end JSV
