/-
  Helper lemmas for C16 (embedded fields): `forTypeE` only allocates (plus rewrites of nodes it has just allocated
  itself), and everything it returns is fresh.  The structure is that of JSV/Proofs/InfStore.lean; new are the
  override insertion (`insertOverrideProps`: clones) and the loop over `VisibleFields` with `skipPath`.
-/
import JSV.Model.InferEmb
import JSV.Proofs.InfStore
namespace JSV
namespace Go

def IRecEInv (rec : IRecE) : Prop :=
  ∀ T seen st r st', rec T seen st = .ok (r, st') → StepInv st r st'

/-- what one piece of the struct loop does to the node under construction and to the store: the store is extended,
    fresh stays fresh, the node's children stay fresh -/
def LoopInv (n : Node) (st : Store) (n' : Node) (st' : Store) : Prop :=
  Ext st st' ∧ ∀ s0, s0 ≤ st.size →
    (FreshAbove s0 st → FreshAbove s0 st') ∧ ((∀ x, x ∈ n.children → s0 ≤ x) → ∀ x, x ∈ n'.children → s0 ≤ x)

theorem LoopInv.refl (n : Node) (st : Store) : LoopInv n st n st :=
  ⟨Ext.refl _, fun _ _ => ⟨id, id⟩⟩

theorem LoopInv.trans {n n1 n2 : Node} {st st1 st2 : Store} (h1 : LoopInv n st n1 st1) (h2 : LoopInv n1 st1 n2 st2) :
    LoopInv n st n2 st2 :=
  ⟨h1.1.trans h2.1, fun s0 hs =>
    ⟨fun hf => (h2.2 s0 (Nat.le_trans hs h1.1.1)).1 ((h1.2 s0 hs).1 hf),
     fun hc => (h2.2 s0 (Nat.le_trans hs h1.1.1)).2 ((h1.2 s0 hs).2 hc)⟩⟩

/-- `if s.Properties == nil { s.Properties = make(…) }` adds no child -/
theorem LoopInv.ensure {n n' : Node} {st st' : Store}
    (h : LoopInv (if n.properties.isNone = true then ({ n with properties := some [] } : Node) else n) st n' st') :
    LoopInv n st n' st' := by
  refine ⟨h.1, fun s0 hs => ⟨(h.2 s0 hs).1, fun hc => (h.2 s0 hs).2 fun x hx => ?_⟩⟩
  split at hx
  · rcases mem_children_setProps (n := n) (p := some []) (po := n.propertyOrder) (rq := n.required) hx with h | ⟨k, hk⟩
    · exact hc x h
    · simp at hk
  · exact hc x hx

/-! ## the override's properties -/

theorem insertOverrideProps_inv : ∀ (l : List (String × NodeId)) (n : Node) (st : Store) (n' : Node) (st' : Store),
    insertOverrideProps l n st = .ok (n', st') → LoopInv n st n' st'
  | [], n, st, n', st', h => by
    simp only [insertOverrideProps] at h
    cases h
    exact LoopInv.refl _ _
  | (name, pid) :: rest, n, st, n', st', h => by
    simp only [insertOverrideProps] at h
    split at h
    · exact insertOverrideProps_inv rest _ _ _ _ h
    · obtain ⟨⟨cid, st1⟩, hc, h⟩ := Res.bind_eq_ok h
      have h2 := insertOverrideProps_inv rest _ _ _ _ h
      have hext : Ext st st1 := cloneFuel_ext _ hc
      refine LoopInv.trans ⟨hext, fun s0 hs => ?_⟩ h2
      obtain ⟨hcid, hfr⟩ := cloneFuel_fresh s0 _ hs hc
      refine ⟨hfr, fun hch x hx => ?_⟩
      rcases mem_children_setProps (n := n) (p := some ((n.properties.getD []) ++ [(name, cid)]))
          (po := some ((n.propertyOrder.getD []) ++ [name])) (rq := n.required) hx with h | ⟨k, hk⟩
      · exact hch x h
      · simp only [Option.getD_some, List.mem_append, List.mem_singleton, Prod.mk.injEq] at hk
        rcases hk with hk | ⟨_, rfl⟩
        · exact hch x (mem_children_props hk)
        · exact hcid

/-! ## one field -/

theorem fieldStepE_inv {rec : IRecE} (hrec : IRecEInv rec) {seen : List String} {goName tag : String} {ex : Bool}
    {ft : GoTypeE} {n : Node} {st : Store} {n' : Node} {st' : Store}
    (h : fieldStepE rec seen goName tag ex ft n st = .ok (n', st')) : LoopInv n st n' st' := by
  unfold fieldStepE at h
  simp only at h
  split at h
  · cases h
    exact LoopInv.refl _ _
  · obtain ⟨⟨fs, st1⟩, hfs, h⟩ := Res.bind_eq_ok h
    obtain ⟨he1, hid1, hf1⟩ := hrec _ _ _ _ _ hfs
    simp only at h
    split at h
    · -- skipped field
      cases h
      exact ⟨he1, fun s0 hs => ⟨hf1 s0 hs, id⟩⟩
    · rename_i fid
      obtain ⟨hfid, hfidlt⟩ := hid1 fid rfl
      -- the node after the field has been added
      have hnew : ∀ (rq : Option (List String)) (s0 : Nat), s0 ≤ st.size → (∀ x, x ∈ n.children → s0 ≤ x) →
          ∀ x, x ∈ ({ n with properties := some ((n.properties.getD []).filter (·.1 != (fieldJSONInfoE goName tag ex).name) ++ [((fieldJSONInfoE goName tag ex).name, fid)]),
                               propertyOrder := some ((n.propertyOrder.getD []) ++ [(fieldJSONInfoE goName tag ex).name]),
                               required := rq } : Node).children → s0 ≤ x := by
        intro rq s0 hs hc x hx
        rcases mem_children_setProps hx with h | ⟨k, hk⟩
        · exact hc x h
        · simp only [Option.getD_some, List.mem_append, List.mem_filter, List.mem_singleton, Prod.mk.injEq] at hk
          rcases hk with ⟨hk, _⟩ | ⟨_, rfl⟩
          · exact hc x (mem_children_props hk)
          · exact Nat.le_trans hs hfid
      split at h
      · split at h
        · cases h
        · split at h
          · cases h
          · -- description written to the field's node
            rename_i d _ _ _
            have he2 : Ext st (setDescriptionE st1 fid d) ∧
                ∀ s0, s0 ≤ st.size → FreshAbove s0 st → FreshAbove s0 (setDescriptionE st1 fid d) := by
              unfold setDescriptionE
              split
              · rename_i fn hfn
                exact ⟨he1.set! hfid _, fun s0 hs hf => (hf1 s0 hs hf).set! hfn rfl⟩
              · exact ⟨he1, hf1⟩
            cases h
            exact ⟨he2.1, fun s0 hs => ⟨he2.2 s0 hs, hnew _ s0 hs⟩⟩
      · cases h
        exact ⟨he1, fun s0 hs => ⟨hf1 s0 hs, hnew _ s0 hs⟩⟩

/-! ## the loop over the visible fields -/

theorem structLoopE_inv (opts : IOpts) {rec : IRecE} (hrec : IRecEInv rec) (seen : List String) :
    ∀ (fields : List VField) (skip : Option (List Nat)) (n : Node) (st : Store) (n' : Node) (st' : Store),
      structLoopE opts rec seen fields skip n st = .ok (n', st') → LoopInv n st n' st'
  | [], skip, n, st, n', st', h => by
    simp only [structLoopE] at h
    cases h
    exact LoopInv.refl _ _
  | f :: rest, skip, n, st, n', st', h => by
    simp only [structLoopE] at h
    refine LoopInv.ensure ?_
    split at h
    · -- an anonymous field
      split at h
      · split at h
        · cases h
        · split at h
          · cases h
          · obtain ⟨⟨n1, st1⟩, h1, h⟩ := Res.bind_eq_ok h
            exact (insertOverrideProps_inv _ _ _ _ _ h1).trans (structLoopE_inv opts hrec seen rest _ _ _ _ _ h)
      · exact structLoopE_inv opts hrec seen rest _ _ _ _ _ h
    · split at h
      · exact structLoopE_inv opts hrec seen rest _ _ _ _ _ h
      · obtain ⟨⟨n1, st1⟩, h1, h⟩ := Res.bind_eq_ok h
        exact (fieldStepE_inv hrec h1).trans (structLoopE_inv opts hrec seen rest _ _ _ _ _ h)

/-! ## the invariant of `forTypeE` -/

theorem inferStepE_inv (opts : IOpts) (rec : IRecE) (hrec : IRecEInv rec) : IRecEInv (inferStepE opts rec) := by
  intro t0 seen st r st' h
  unfold inferStepE at h
  generalize stripPtrsE t0 = p at h
  obtain ⟨t, an⟩ := p
  simp only at h
  split at h
  · cases h
  · rename_i seen' hseen
    split at h
    · -- the type table: a clone, whose root is rewritten
      rename_i sid hsid
      obtain ⟨⟨cid, stc⟩, hc, h⟩ := Res.bind_eq_ok h
      simp only at h
      split at h
      · cases h
      · rename_i cn hcn
        cases h
        have hext := cloneFuel_ext _ hc
        have hfr := fun s0 hs => cloneFuel_fresh s0 _ hs hc
        have hcid := (hfr st.size (Nat.le_refl _)).1
        refine ⟨hext.set! hcid _, fun id hid => ?_, fun s0 hs hf => ?_⟩
        · cases hid
          rw [size_set!]
          exact ⟨hcid, lt_size_of_get? hcn⟩
        · refine ((hfr s0 hs).2 hf).set! hcn ?_
          split
          · split
            · rfl
            · split <;> rfl
          · rfl
    · split at h
      · cases h
      · cases h
      · cases h
      · -- basic kinds
        split at h
        · cases h
          refine (StepInv.refl st).alloc _ fun x hx => ?_
          rw [addNull_children, children_basicNode] at hx
          cases hx
        · split at h
          · cases h; exact StepInv.refl _
          · cases h
      · -- maps
        split at h
        · split at h
          · cases h; exact StepInv.refl _
          · cases h
        · obtain ⟨⟨es, st1⟩, he, h⟩ := Res.bind_eq_ok h
          have h1 := hrec _ _ _ _ _ he
          simp only at h
          split at h
          · cases h; exact ⟨h1.1, fun _ hid => (by cases hid), h1.2.2⟩
          · rename_i eid
            cases h
            refine h1.alloc _ fun x hx => ?_
            rw [addNull_children] at hx
            have : x = eid := by simpa [Node.children, Node.childFields, sortByKey] using hx
            subst this
            exact (h1.2.1 _ rfl).1
      · -- slices
        obtain ⟨⟨es, st1⟩, he, h⟩ := Res.bind_eq_ok h
        have h1 := hrec _ _ _ _ _ he
        simp only at h
        split at h
        · cases h; exact ⟨h1.1, fun _ hid => (by cases hid), h1.2.2⟩
        · rename_i eid
          cases h
          refine h1.alloc _ fun x hx => ?_
          rw [addNull_children] at hx
          have : x = eid := by
            split at hx <;> simpa [Node.children, Node.childFields, sortByKey] using hx
          subst this
          exact (h1.2.1 _ rfl).1
      · -- arrays
        obtain ⟨⟨es, st1⟩, he, h⟩ := Res.bind_eq_ok h
        have h1 := hrec _ _ _ _ _ he
        simp only at h
        split at h
        · cases h; exact ⟨h1.1, fun _ hid => (by cases hid), h1.2.2⟩
        · rename_i eid
          cases h
          refine h1.alloc _ fun x hx => ?_
          rw [addNull_children] at hx
          have : x = eid := by simpa [Node.children, Node.childFields, sortByKey] using hx
          subst this
          exact (h1.2.1 _ rfl).1
      · -- structs
        simp only [Store.alloc] at h
        obtain ⟨⟨n, st1⟩, hl, h⟩ := Res.bind_eq_ok h
        simp only at h
        cases h
        obtain ⟨hext, hr⟩ := structLoopE_inv opts hrec _ _ _ _ _ _ _ hl
        have he0 : Ext st ((st.push emptyNode).push { emptyNode with not := some st.size }) :=
          (Ext.push _ _).trans (Ext.push _ _)
        have hsz0 : ((st.push emptyNode).push { emptyNode with not := some st.size }).size = st.size + 2 := by
          rw [Array.size_push, Array.size_push]
        rw [Array.size_push] at hl hr
        refine ⟨he0.trans (hext.trans (Ext.push _ _)), fun id hid => ?_, fun s0 hs hf => ?_⟩
        · cases hid
          rw [Array.size_push]
          exact ⟨Nat.le_trans he0.1 hext.1, Nat.lt_succ_self _⟩
        · have hf0 : FreshAbove s0 ((st.push emptyNode).push { emptyNode with not := some st.size }) := by
            refine (hf.push emptyNode fun x hx => ?_).push _ fun x hx => ?_
            · cases hx
            · have : x = st.size := by simpa [Node.children, Node.childFields, sortByKey, emptyNode] using hx
              subst this
              exact hs
          obtain ⟨h1, h2⟩ := hr s0 (by simp only [Array.size_push]; omega)
          refine (h1 hf0).push _ fun x hx => ?_
          rw [addNull_children] at hx
          refine h2 (fun y hy => ?_) x ?_
          · have : y = st.size + 1 := by simpa [Node.children, Node.childFields, sortByKey] using hy
            rw [this]; omega
          · split at hx
            · split at hx
              · exact hx
              · exact hx
            · exact hx

theorem inferFuelE_inv (opts : IOpts) : ∀ fuel, IRecEInv (inferFuelE opts fuel)
  | 0 => fun _ _ _ _ _ h => by cases h
  | fuel + 1 => inferStepE_inv opts _ (inferFuelE_inv opts fuel)

end Go
end JSV
