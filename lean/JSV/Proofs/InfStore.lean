/-
  Helper lemmas for C16 / C04 / C09: `forType` only allocates (plus rewrites of nodes it has just
  allocated itself), and everything it returns is fresh.
-/
import JSV.Model.Infer
import JSV.Proofs.MshClone
namespace JSV
namespace Go

/-! ## `set!` on the store -/

theorem get?_set!_ne {st : Store} {i j : NodeId} (n : Node) (h : i ≠ j) :
    Store.get? (st.set! i n) j = st.get? j := by
  unfold Store.get?
  rw [Array.set!_eq_setIfInBounds, Array.getElem?_setIfInBounds_ne h]

theorem get?_set!_self {st : Store} {i : NodeId} (n : Node) (h : i < st.size) :
    Store.get? (st.set! i n) i = some n := by
  unfold Store.get?
  rw [Array.set!_eq_setIfInBounds, Array.getElem?_setIfInBounds_self_of_lt h]

theorem size_set! (st : Store) (i : NodeId) (n : Node) : (st.set! i n).size = st.size := by
  rw [Array.set!_eq_setIfInBounds, Array.size_setIfInBounds]

theorem Ext.set! {st0 st : Store} (h : Ext st0 st) {i : NodeId} (hi : st0.size ≤ i) (n : Node) :
    Ext st0 (st.set! i n) := by
  refine ⟨by rw [size_set!]; exact h.1, fun j hj => ?_⟩
  rw [get?_set!_ne n (Nat.ne_of_gt (Nat.lt_of_lt_of_le hj hi)), h.2 j hj]

theorem FreshAbove.push {s0 : Nat} {st : Store} (hf : FreshAbove s0 st) (n : Node)
    (hn : ∀ x, x ∈ n.children → s0 ≤ x) : FreshAbove s0 (st.push n) := by
  intro i m hi hm x hx
  by_cases hlt : i < st.size
  · rw [get?_push_lt _ hlt] at hm
    exact hf i m hi hm x hx
  · have h2 : i < (st.push n).size := lt_size_of_get? hm
    rw [Array.size_push] at h2
    have hi' : i = st.size := by omega
    subst hi'
    rw [get?_push_size] at hm
    cases hm
    exact hn x hx

theorem FreshAbove.set! {s0 : Nat} {st : Store} (hf : FreshAbove s0 st) {i : NodeId} {n n' : Node}
    (hn : st.get? i = some n) (hc : n'.children = n.children) : FreshAbove s0 (st.set! i n') := by
  intro j m hj hm x hx
  by_cases hij : i = j
  · subst hij
    rw [get?_set!_self _ (lt_size_of_get? hn)] at hm
    cases hm
    rw [hc] at hx
    exact hf i n hj hn x hx
  · rw [get?_set!_ne _ hij] at hm
    exact hf j m hj hm x hx

/-! ## the invariant of `forType` -/

theorem addNull_children (an : Bool) (n : Node) : (addNull an n).children = n.children := by
  unfold addNull
  split <;> rfl

theorem mem_children_setProps {n : Node} {p : Option (List (String × NodeId))} {po rq : Option (List String)} {x : NodeId}
    (h : x ∈ ({ n with properties := p, propertyOrder := po, required := rq } : Node).children) :
    x ∈ n.children ∨ ∃ k, (k, x) ∈ p.getD [] := by
  rw [mem_children_iff] at h
  obtain ⟨f, hf, hx⟩ := h
  simp only [Node.childFields, List.mem_cons, List.not_mem_nil, or_false] at hf
  rcases hf with rfl | rfl | rfl | rfl | rfl | rfl | rfl | rfl | rfl | rfl | rfl | rfl | rfl | rfl | rfl | rfl | rfl | rfl | rfl | rfl | rfl | rfl | rfl
  all_goals first
    | (right; cases p <;> simp [ChildField.ids] at hx ⊢; exact hx)
    | (left; rw [mem_children_iff]; exact ⟨_, by simp [Node.childFields], hx⟩)

theorem mem_children_props {n : Node} {k : String} {x : NodeId} (h : (k, x) ∈ n.properties.getD []) : x ∈ n.children := by
  rw [mem_children_iff]
  refine ⟨.keyed "properties" n.properties, by simp [Node.childFields], ?_⟩
  simp only [ChildField.ids, List.mem_map]
  exact ⟨(k, x), h, rfl⟩

def StepInv (st : Store) (r : Option NodeId) (st' : Store) : Prop :=
  Ext st st' ∧ (∀ id, r = some id → st.size ≤ id ∧ id < st'.size) ∧
  ∀ s0, s0 ≤ st.size → FreshAbove s0 st → FreshAbove s0 st'

def IRecInv (rec : IRec) : Prop :=
  ∀ T seen st r st', rec T seen st = .ok (r, st') → StepInv st r st'

theorem StepInv.refl (st : Store) : StepInv st none st :=
  ⟨Ext.refl st, fun _ h => (by cases h), fun _ _ h => h⟩

/-- allocate a node whose children are fresh, after a step -/
theorem StepInv.alloc {st st1 : Store} {r : Option NodeId} (h : StepInv st r st1) (n : Node)
    (hn : ∀ x, x ∈ n.children → st.size ≤ x) : StepInv st (some st1.size) (st1.push n) := by
  obtain ⟨he, _, hf⟩ := h
  refine ⟨he.trans (Ext.push _ _), fun id hid => ?_, fun s0 hs hfr => ?_⟩
  · cases hid
    rw [Array.size_push]
    exact ⟨he.1, Nat.lt_succ_self _⟩
  · exact (hf s0 hs hfr).push n fun x hx => Nat.le_trans hs (hn x hx)

/-- the struct loop: the store is extended, fresh stays fresh, the node's children stay fresh -/
theorem structLoop_inv {rec : IRec} (hrec : IRecInv rec) (seen : List String) :
    ∀ (fields : List (String × String × GoType)) (n : Node) (st : Store) (n' : Node) (st' : Store),
      structLoop rec seen fields n st = .ok (n', st') →
      Ext st st' ∧ ∀ s0, s0 ≤ st.size →
        (FreshAbove s0 st → FreshAbove s0 st') ∧ ((∀ x, x ∈ n.children → s0 ≤ x) → ∀ x, x ∈ n'.children → s0 ≤ x) := by
  intro fields
  induction fields with
  | nil =>
    intro n st n' st' h
    simp only [structLoop] at h
    cases h
    exact ⟨Ext.refl _, fun s0 _ => ⟨id, id⟩⟩
  | cons f rest ih =>
    obtain ⟨goName, tag, ft⟩ := f
    intro n st n' st' h
    simp only [structLoop] at h
    -- the node after `properties` has been made non-nil
    generalize hn1 : (if n.properties.isNone = true then ({ n with properties := some [] } : Node) else n) = n1 at h
    have hch1 : ∀ x, x ∈ n1.children → x ∈ n.children := by
      intro x hx
      subst hn1
      split at hx
      · rcases mem_children_setProps (n := n) (p := some []) (po := n.propertyOrder) (rq := n.required) hx with h | ⟨k, hk⟩
        · exact h
        · simp at hk
      · exact hx
    split at h
    · obtain ⟨he, hr⟩ := ih _ _ _ _ h
      exact ⟨he, fun s0 hs => ⟨(hr s0 hs).1, fun hc => (hr s0 hs).2 fun x hx => hc x (hch1 x hx)⟩⟩
    · obtain ⟨⟨fs, st1⟩, hfs, h⟩ := Res.bind_eq_ok h
      obtain ⟨he1, hid1, hf1⟩ := hrec _ _ _ _ _ hfs
      simp only at h
      split at h
      · -- skipped field
        obtain ⟨he, hr⟩ := ih _ _ _ _ h
        exact ⟨he1.trans he, fun s0 hs => ⟨fun hf => (hr s0 (Nat.le_trans hs he1.1)).1 (hf1 s0 hs hf),
          fun hc => (hr s0 (Nat.le_trans hs he1.1)).2 fun x hx => hc x (hch1 x hx)⟩⟩
      · rename_i fid
        obtain ⟨hfid, hfidlt⟩ := hid1 fid rfl
        -- the node after the field has been added
        have hnew : ∀ (rq : Option (List String)) (s0 : Nat), s0 ≤ st.size → (∀ x, x ∈ n.children → s0 ≤ x) →
            ∀ x, x ∈ ({ n1 with properties := some ((n1.properties.getD []).filter (·.1 != (fieldJSONInfo goName tag).name) ++ [((fieldJSONInfo goName tag).name, fid)]),
                                 propertyOrder := some ((n1.propertyOrder.getD []) ++ [(fieldJSONInfo goName tag).name]),
                                 required := rq } : Node).children → s0 ≤ x := by
          intro rq s0 hs hc x hx
          rcases mem_children_setProps hx with h | ⟨k, hk⟩
          · exact hc x (hch1 x h)
          · simp only [Option.getD_some, List.mem_append, List.mem_filter, List.mem_singleton, Prod.mk.injEq] at hk
            rcases hk with ⟨hk, _⟩ | ⟨_, rfl⟩
            · exact hc x (hch1 x (mem_children_props hk))
            · exact Nat.le_trans hs hfid
        split at h
        · cases h
        · split at h
          · cases h
          · -- description written to the field's node
            have he2 : ∀ d : String, (Ext st (match Store.get? st1 fid with
                | some fn => Array.set! st1 fid { fn with description := d }
                | none => st1)) ∧ ∀ s0, s0 ≤ st.size → FreshAbove s0 st → FreshAbove s0 (match Store.get? st1 fid with
                | some fn => Array.set! st1 fid { fn with description := d }
                | none => st1) := by
              intro d
              split
              · rename_i fn hfn
                exact ⟨he1.set! hfid _, fun s0 hs hf => (hf1 s0 hs hf).set! hfn rfl⟩
              · exact ⟨he1, hf1⟩
            obtain ⟨he, hr⟩ := ih _ _ _ _ h
            exact ⟨(he2 _).1.trans he, fun s0 hs => ⟨fun hf => (hr s0 (Nat.le_trans hs (he2 _).1.1)).1 ((he2 _).2 s0 hs hf),
              fun hc => (hr s0 (Nat.le_trans hs (he2 _).1.1)).2 (hnew _ s0 hs hc)⟩⟩
        · obtain ⟨he, hr⟩ := ih _ _ _ _ h
          exact ⟨he1.trans he, fun s0 hs => ⟨fun hf => (hr s0 (Nat.le_trans hs he1.1)).1 (hf1 s0 hs hf),
            fun hc => (hr s0 (Nat.le_trans hs he1.1)).2 (hnew _ s0 hs hc)⟩⟩


theorem children_basicNode (ty : String) (mn mx : Option Rat) :
    ({ type := ty, minimum := mn, maximum := mx } : Node).children = [] := rfl

theorem inferStep_inv (opts : IOpts) (rec : IRec) (hrec : IRecInv rec) : IRecInv (inferStep opts rec) := by
  intro t0 seen st r st' h
  unfold inferStep at h
  generalize stripPtrs t0 = p at h
  obtain ⟨t, an⟩ := p
  simp only at h
  split at h
  · cases h
  · rename_i seen' hseen
    split at h
    · -- the type table: a clone, whose root is rewritten
      rename_i sid hsid
      obtain ⟨⟨cid, stc⟩, hc, h⟩ := Res.bind_eq_ok h
      simp only at h
      split at h
      · cases h
      · rename_i cn hcn
        cases h
        have hext := cloneFuel_ext _ hc
        have hfr := fun s0 hs => cloneFuel_fresh s0 _ hs hc
        have hcid := (hfr st.size (Nat.le_refl _)).1
        refine ⟨hext.set! hcid _, fun id hid => ?_, fun s0 hs hf => ?_⟩
        · cases hid
          rw [size_set!]
          exact ⟨hcid, lt_size_of_get? hcn⟩
        · refine ((hfr s0 hs).2 hf).set! hcn ?_
          split
          · split
            · rfl
            · split <;> rfl
          · rfl
    · split at h
      · cases h
      · cases h
      · cases h
      · -- basic kinds
        split at h
        · cases h
          refine (StepInv.refl st).alloc _ fun x hx => ?_
          rw [addNull_children, children_basicNode] at hx
          cases hx
        · split at h
          · cases h; exact StepInv.refl _
          · cases h
      · -- maps
        split at h
        · split at h
          · cases h; exact StepInv.refl _
          · cases h
        · obtain ⟨⟨es, st1⟩, he, h⟩ := Res.bind_eq_ok h
          have h1 := hrec _ _ _ _ _ he
          simp only at h
          split at h
          · cases h; exact ⟨h1.1, fun _ hid => (by cases hid), h1.2.2⟩
          · rename_i eid
            cases h
            refine h1.alloc _ fun x hx => ?_
            rw [addNull_children] at hx
            have : x = eid := by simpa [Node.children, Node.childFields, sortByKey] using hx
            subst this
            exact (h1.2.1 _ rfl).1
      · -- slices
        obtain ⟨⟨es, st1⟩, he, h⟩ := Res.bind_eq_ok h
        have h1 := hrec _ _ _ _ _ he
        simp only at h
        split at h
        · cases h; exact ⟨h1.1, fun _ hid => (by cases hid), h1.2.2⟩
        · rename_i eid
          cases h
          refine h1.alloc _ fun x hx => ?_
          rw [addNull_children] at hx
          have : x = eid := by
            split at hx <;> simpa [Node.children, Node.childFields, sortByKey] using hx
          subst this
          exact (h1.2.1 _ rfl).1
      · -- arrays
        obtain ⟨⟨es, st1⟩, he, h⟩ := Res.bind_eq_ok h
        have h1 := hrec _ _ _ _ _ he
        simp only at h
        split at h
        · cases h; exact ⟨h1.1, fun _ hid => (by cases hid), h1.2.2⟩
        · rename_i eid
          cases h
          refine h1.alloc _ fun x hx => ?_
          rw [addNull_children] at hx
          have : x = eid := by simpa [Node.children, Node.childFields, sortByKey] using hx
          subst this
          exact (h1.2.1 _ rfl).1
      · -- structs
        simp only [Store.alloc] at h
        obtain ⟨⟨n, st1⟩, hl, h⟩ := Res.bind_eq_ok h
        simp only at h
        cases h
        obtain ⟨hext, hr⟩ := structLoop_inv hrec _ _ _ _ _ _ hl
        have he0 : Ext st ((st.push emptyNode).push { emptyNode with not := some st.size }) :=
          (Ext.push _ _).trans (Ext.push _ _)
        have hsz0 : ((st.push emptyNode).push { emptyNode with not := some st.size }).size = st.size + 2 := by
          rw [Array.size_push, Array.size_push]
        rw [Array.size_push] at hl hr
        refine ⟨he0.trans (hext.trans (Ext.push _ _)), fun id hid => ?_, fun s0 hs hf => ?_⟩
        · cases hid
          rw [Array.size_push]
          exact ⟨Nat.le_trans he0.1 hext.1, Nat.lt_succ_self _⟩
        · have hf0 : FreshAbove s0 ((st.push emptyNode).push { emptyNode with not := some st.size }) := by
            refine (hf.push emptyNode fun x hx => ?_).push _ fun x hx => ?_
            · cases hx
            · have : x = st.size := by simpa [Node.children, Node.childFields, sortByKey, emptyNode] using hx
              subst this
              exact hs
          obtain ⟨h1, h2⟩ := hr s0 (by simp only [Array.size_push]; omega)
          refine (h1 hf0).push _ fun x hx => ?_
          rw [addNull_children] at hx
          refine h2 (fun y hy => ?_) x ?_
          · have : y = st.size + 1 := by simpa [Node.children, Node.childFields, sortByKey] using hy
            rw [this]; omega
          · split at hx
            · split at hx
              · exact hx
              · exact hx
            · exact hx


theorem inferFuel_inv (opts : IOpts) : ∀ fuel, IRecInv (inferFuel opts fuel)
  | 0 => fun _ _ _ _ _ h => by cases h
  | fuel + 1 => inferStep_inv opts _ (inferFuel_inv opts fuel)

end Go
end JSV
