/-
  Helper lemmas for C03, the converse of soundness (first part): without a Loader a successful
  Schema.Resolve has called nothing (`log = []`), reads the document under `topDraft`, and every
  `$ref` / `$dynamicRef` of `root.all()` designates a subschema — so a reference that designates
  nothing makes Resolve fail.
-/
import JSV.Spec.WellFormed
import JSV.Proofs.ResDraft
import JSV.Proofs.ResNoFuel
import JSV.Proofs.ResNoPanic
namespace JSV
namespace Go
namespace RComp
open RInv Uri Spec RDraft

/-! ### no Loader: nothing is logged -/

theorem resolveRef_noloader (env : Env) (recDoc : ResolveDoc) (hl : env.loader = none) (root : NodeId)
    (s : RState) (id : NodeId) (ref : String) (o : RefOut) (s' : RState)
    (h : resolveRef env recDoc root s id ref = .ok (o, s')) : s'.log = s.log := by
  obtain ⟨d, _, hc⟩ := resolveRef_cases env recDoc root s id ref o s' h
  rcases hc with rfl | ⟨r, rfl⟩ | ⟨u, tbl, r, a2, _, htbl, _⟩
  · rfl
  · exact (mergeKnown_same _ _ _).1
  · rw [hl] at htbl; simp at htbl

theorem resolveRefsLoop_noloader (env : Env) (recDoc : ResolveDoc) (hl : env.loader = none) (root : NodeId)
    (ids : List NodeId) (s s' : RState) (h : resolveRefsLoop env recDoc root ids s = .ok s') :
    s'.log = s.log :=
  resolveRefsLoop_pres env recDoc root (fun a => a.log = s.log)
    (fun a id f ha => by rw [(updInfo_same a id f).1]; exact ha)
    (fun a id ref o b ha hr => by rw [resolveRef_noloader env recDoc hl root a id ref o b hr]; exact ha)
    ids s s' h rfl

theorem beforeURIs_same (root : NodeId) (baseURI : Url) (draft : Draft) (fresh : List (NodeId × Info))
    (s : RState) : SameLL s (beforeURIs root baseURI draft fresh s) := by
  unfold beforeURIs
  have := updInfo_same (({ s with infos := s.infos ++ fresh } : RState).setDoc
    { root := root, draft := draft, uris := [(Uri.toString baseURI, root)], known := fresh.map (·.1) }) root
    (fun i => { i with uri := some baseURI })
  exact this

theorem resolveDocStep_noloader (env : Env) (recDoc : ResolveDoc) (hl : env.loader = none) (root : NodeId)
    (baseURI : Url) (inherit : Draft) (s s' : RState)
    (h : resolveDocStep env recDoc root baseURI inherit s = .ok s') : s'.log = s.log := by
  obtain ⟨rn, fresh, sB, _, _, hB, hC⟩ := resolveDocStep_unfold env recDoc root baseURI inherit s s' h
  have h1 := (resolveURIsLoop_spec _ _ _ _ _ _ _ hB).1
  have h2 := beforeURIs_same root baseURI (docDraft env rn inherit) fresh s
  rw [resolveRefsLoop_noloader env recDoc hl root _ _ _ hC]
  show sB.log = s.log
  rw [h1.1, h2.1]

/-- without a Loader a successful Schema.Resolve has an empty call log -/
theorem resolve_log_noloader (env : Env) (hl : env.loader = none) (fuel : Nat) (root : NodeId) (base : String)
    (rs : Resolved) (h : resolve env fuel root base = .ok rs) : rs.log = [] := by
  obtain ⟨s, b, d, _, hs, _, _, _, hlog, _⟩ := resolve_ok' env fuel root base rs h
  rw [hlog]
  cases fuel with
  | zero => simp [resolveDoc] at hs
  | succ fuel => exact resolveDocStep_noloader env _ hl root b .d2020 {} s hs

/-! ### the draft of the top document -/

theorem topDraft_eq (env : Env) (root : NodeId) (rn : Node) (h : env.st.get? root = some rn) :
    topDraft env root = docDraft env rn .d2020 := by
  unfold topDraft docDraft
  rw [h]

/-- without a Loader, Schema.Resolve reads the document under `topDraft` -/
theorem resolve_draft_noloader (env : Env) (hl : env.loader = none) (fuel : Nat) (root : NodeId) (base : String)
    (rs : Resolved) (h : resolve env fuel root base = .ok rs) : rs.draft = topDraft env root := by
  obtain ⟨s, b, d, _, hs, hd, _, hdr, _, _⟩ := resolve_ok' env fuel root base rs h
  have hall := resolveDoc_all env (topDraft env root)
    (by intro tbl k r htbl; rw [hl] at htbl; simp at htbl) fuel root b .d2020 {} s hs
    (by intro rn hrn; exact (topDraft_eq env root rn hrn).symm) (allDraft_init _)
  rw [hdr]
  exact hall d (doc?_mem s root d hd)

/-! ### soundness for `$dynamicRef` too, nothing loaded -/

/-- every `$ref` and `$dynamicRef` of `ids` designates something (the targets resolveRef returned) -/
theorem resolveRefsLoop_designate (env : Env) (recDoc : ResolveDoc) (hrec : RecSpec env recDoc) (D : Doc)
    (hst : D.st = env.st) (ret : Url) :
    ∀ ids s s', resolveRefsLoop env recDoc D.root ids s = .ok s' → s'.log = s.log →
      StaticInv D ret s → s.draftOf D.root = D.draft → (∀ id ∈ ids, D.Has id) → D.RefsDesignate ret ids := by
  intro ids
  induction ids with
  | nil => intro s s' _ _ _ _ _ id hid; simp at hid
  | cons id rest ih =>
    intro s s' h hlog hinv hdraft hids
    rw [resolveRefsLoop] at h
    split at h
    · simp at h
    · rename_i n hn
      simp only at h
      rw [bind_eq_ok] at h
      obtain ⟨s1, h1, h⟩ := h
      rw [bind_eq_ok] at h
      obtain ⟨s2, h2, h⟩ := h
      have hid : D.Has id := hids id (by simp)
      have g1 : Ext s s1 ∧ (s1.log = s.log → Frozen s s1 ∧
          (n.ref ≠ "" → ∃ t, D.Designates ret id n.ref t)) := by
        split at h1
        · rw [bind_eq_ok] at h1
          obtain ⟨⟨o, sa⟩, hr, h1⟩ := h1
          simp only [Res.ok.injEq] at h1
          subst h1
          refine ⟨(resolveRef_spec env recDoc hrec _ _ _ _ _ _ hr).1.trans (updInfo_same _ _ _).ext, ?_⟩
          intro hl
          rw [(updInfo_same _ _ _).1] at hl
          obtain ⟨_, hfr, hdes⟩ := resolveRef_local env recDoc hrec D hst ret s id n.ref o sa hinv hid hr hl
          exact ⟨hfr.trans (frozen_updInfo _ _ _ (fun _ => rfl)), fun _ => ⟨_, hdes⟩⟩
        · rename_i hne
          simp only [Res.ok.injEq] at h1
          subst h1
          exact ⟨Ext.refl _, fun _ => ⟨Frozen.refl _, fun h => absurd (by simpa using h) hne⟩⟩
      have g2 : Ext s1 s2 ∧ (s2.log = s1.log → StaticInv D ret s1 → s1.draftOf D.root = D.draft → Frozen s1 s2 ∧
          (D.draft = .d2020 → n.dynamicRef ≠ "" → ∃ t, D.Designates ret id n.dynamicRef t)) := by
        split at h2
        · rw [bind_eq_ok] at h2
          obtain ⟨⟨o, sb⟩, hr, h2⟩ := h2
          simp only [Res.ok.injEq] at h2
          subst h2
          refine ⟨(resolveRef_spec env recDoc hrec _ _ _ _ _ _ hr).1.trans (updInfo_same _ _ _).ext, ?_⟩
          intro hl hinv1 _
          rw [(updInfo_same _ _ _).1] at hl
          obtain ⟨_, hfr, hdes⟩ := resolveRef_local env recDoc hrec D hst ret s1 id n.dynamicRef o sb hinv1 hid hr hl
          exact ⟨hfr.trans (frozen_updInfo _ _ _ (fun _ => rfl)), fun _ _ => ⟨_, hdes⟩⟩
        · rename_i hne
          simp only [Res.ok.injEq] at h2
          subst h2
          exact ⟨Ext.refl _, fun _ _ hdr1 => ⟨Frozen.refl _, fun h20 h =>
            absurd (by rw [hdr1, h20]; simpa using h) hne⟩⟩
      have e3 : Ext s2 s' := (resolveRefsLoop_spec env recDoc hrec _ _ _ _ h).1
      obtain ⟨hl1, hl23⟩ := log_squeeze g1.1 (g2.1.trans e3) hlog
      obtain ⟨hl2, hl3⟩ := log_squeeze g2.1 e3 hl23
      obtain ⟨f1, r1⟩ := g1.2 hl1
      have hinv1 := staticInv_frozen D ret f1 hinv
      have hdraft1 : s1.draftOf D.root = D.draft := by rw [← hdraft]; exact draftOf_frozen f1 D.root
      obtain ⟨f2, r2⟩ := g2.2 hl2 hinv1 hdraft1
      have hinv2 := staticInv_frozen D ret f2 hinv1
      have hdraft2 : s2.draftOf D.root = D.draft := by rw [← hdraft1]; exact draftOf_frozen f2 D.root
      have ok3 := ih s2 s' h hl3 hinv2 hdraft2 (fun x hx => hids x (List.mem_cons_of_mem _ hx))
      intro x hx n' hn'
      rcases List.mem_cons.mp hx with hx | hx
      · subst hx
        rw [hst, hn] at hn'
        simp only [Option.some.injEq] at hn'
        subst hn'
        exact ⟨r1, r2⟩
      · exact ok3 x hx n' hn'


/-! ### the state between resolveURIs and resolveRefs -/

/-- what resolveURIs established, in the state resolveRefs starts from (as in `resolveDocStep_local`) -/
theorem staticInv_afterURIs (env : Env) (root : NodeId) (baseURI : Url) (draft : Draft)
    (fresh : List (NodeId × Info)) (s sB : RState)
    (hfresh : checkStructure env.st (env.st.size + 2) [(root, "")] [] = .ok fresh)
    (hB : resolveURIsLoop env draft root (env.st.size + 2) [(root, root)]
      (beforeURIs root baseURI draft fresh s) = .ok sB)
    (hsound : Sound ⟨env.st, draft, root⟩ s.infos)
    (hloaded : ∀ e ∈ s.loaded, Doc.Identifies ⟨env.st, draft, root⟩ baseURI e.1 e.2) :
    StaticInv ⟨env.st, draft, root⟩ baseURI (afterURIs root baseURI sB) ∧
    (∃ dB, sB.doc? root = some dB ∧ dB.draft = draft) ∧ sB.log = s.log ∧ sB.loaded = s.loaded := by
  let D : Doc := ⟨env.st, draft, root⟩
  have huniq : UniqueLineage D := tree_uniqueLineage D _ (checkStructure_tree env.st _ root fresh hfresh)
  have hB' : resolveURIsLoop env D.draft D.root (env.st.size + 2) [(D.root, D.root)] _ = .ok sB := hB
  have hrootmem := checkStructure_root_mem env.st _ root fresh hfresh
  obtain ⟨hdone, hsnd, huris⟩ := resolveURIs_desig env D rfl baseURI huniq _ _ _ (by
    obtain ⟨⟨r', info⟩, hm, he⟩ := List.mem_map.mp hrootmem
    simp only at he
    subst he
    have hsome : (lookupNat r' (s.infos ++ fresh)).isSome = true :=
      lookupNat_isSome_of_mem r' info _ (List.mem_append_right _ hm)
    show ∃ i, lookupNat r' (RState.updInfo _ r' _).infos = some i ∧ i.uri = some baseURI
    rw [updInfo_infos_lookup, if_pos rfl, setDoc_infos]
    cases h0 : lookupNat r' (s.infos ++ fresh) with
    | none => rw [h0] at hsome; simp at hsome
    | some i0 => exact ⟨_, rfl, rfl⟩) hB'
  have hnil : ∀ e ∈ fresh, e.2.anchors = [] :=
    checkStructure_forall env.st (fun i => i.anchors = []) (fun _ => rfl) _ _ _ _ hfresh
      (fun _ he => absurd he (by simp))
  have hsB : Sound D sB.infos := by
    apply hsnd
    refine sound_updInfo D _ root _ ?_ ?_
    · intro _ _ he; exact Or.inl he
    · rw [setDoc_infos]
      exact sound_append_fresh D _ _ hsound hnil
  have huB : UrisId D baseURI sB := by
    apply huris
    intro d hd e he
    unfold beforeURIs at hd
    rw [doc?_of_docs_eq (updInfo_docs _ _ _), doc?_setDoc, if_pos (rfl : root = D.root)] at hd
    simp only [Option.some.injEq] at hd
    subst hd
    simp only [List.mem_singleton] at he
    subst he
    exact Or.inl ⟨rfl, rfl⟩
  have hdB : ∃ dB, sB.doc? root = some dB ∧ dB.draft = draft := by
    have := resolveURIsLoop_draftKept _ _ _ _ _ _ _ hB root
      { root := root, draft := draft, uris := [(Uri.toString baseURI, root)], known := fresh.map (·.1) }
      (by unfold beforeURIs; rw [doc?_of_docs_eq (updInfo_docs _ _ _), doc?_setDoc]; simp)
    exact this
  have sameB : sB.log = s.log ∧ sB.loaded = s.loaded := by
    have h0 := (resolveURIsLoop_spec _ _ _ _ _ _ _ hB).1
    exact (beforeURIs_same root baseURI draft fresh s).trans h0
  have hrootId : D.Identifies baseURI (rootUriOf sB root) root := by
    obtain ⟨⟨i, r0, hi, hb0, hr0, _⟩, r, ⟨i', hi', hb'⟩, ir, lr, hir, hlr, hur⟩ :=
      hdone root (ResourceRoot.has (resourceRoot_root D))
    rw [hi] at hi'
    simp only [Option.some.injEq] at hi'
    subst hi'
    rw [hb0] at hb'
    simp only [Option.some.injEq] at hb'
    subst hb'
    have hr0' : r0 = root := by
      obtain ⟨l0, hl0, hn0⟩ := hr0
      have : l0 = [] := huniq l0 [] root hl0 (by show isLineage env.st root [] root = true; simp [isLineage])
      subst this
      exact hn0.symm
    subst hr0'
    refine Or.inr ⟨resourceRoot_root D, baseUriAlong D baseURI lr, ⟨lr, hlr, rfl⟩, ?_⟩
    unfold rootUriOf
    rw [hir]
    simp only [hur, Option.map_some, Option.getD_some]
  refine ⟨⟨huniq, hdone, hsB, UrisId.of_docs_eq rfl huB, ?_⟩, hdB, sameB⟩
  intro e he
  have he' : e ∈ (sB.loaded.filter fun e => e.1 != Uri.toString baseURI && e.1 != rootUriOf sB root) ++
      [(Uri.toString baseURI, root), (rootUriOf sB root, root)] := he
  rcases List.mem_append.mp he' with h1 | h1
  · have := (List.mem_filter.mp h1).1
    rw [sameB.2] at this
    exact hloaded e this
  · simp only [List.mem_cons, List.mem_nil_iff, or_false] at h1
    rcases h1 with h1 | h1
    · subst h1; exact Or.inl ⟨rfl, rfl⟩
    · subst h1; exact hrootId

/-- without a Loader: after a successful Schema.Resolve every `$ref` and (2020-12) every `$dynamicRef` of `root.all()`
    designates a subschema of the document, read under `topDraft`, with the parsed BaseURI option as retrieval URI -/
theorem resolve_designates_noloader (env : Env) (hl : env.loader = none) (fuel : Nat) (root : NodeId)
    (base : String) (rs : Resolved) (h : resolve env fuel root base = .ok rs) :
    ∃ b, retrievalOf base = .ok b ∧
      (topDoc env root).RefsDesignate b (allNodes env.st (env.st.size + 2) [root]) := by
  obtain ⟨s, b, d, hb, hs, _, _, _, _, _⟩ := resolve_ok' env fuel root base rs h
  refine ⟨b, hb, ?_⟩
  cases fuel with
  | zero => simp [resolveDoc] at hs
  | succ fuel =>
    have hs' : resolveDocStep env (resolveDoc env fuel) root b .d2020 {} = .ok s := hs
    obtain ⟨rn, fresh, sB, hrn, hfresh, hB, hC⟩ := resolveDocStep_unfold env _ root b .d2020 {} s hs'
    have hdr : docDraft env rn .d2020 = topDraft env root := (topDraft_eq env root rn hrn).symm
    rw [hdr] at hB
    obtain ⟨hinv, ⟨dB, hdB, hdBdr⟩, _, _⟩ := staticInv_afterURIs env root b (topDraft env root) fresh {} sB hfresh hB
      (sound_nil _) (fun e he => absurd he (by simp))
    have hdraftOf : (afterURIs root b sB).draftOf (topDoc env root).root = (topDoc env root).draft := by
      show (match sB.doc? root with | some d => d.draft | none => Draft.d2020) = topDraft env root
      rw [hdB]; exact hdBdr
    exact resolveRefsLoop_designate env _ (resolveDoc_spec env fuel) (topDoc env root) rfl b _ _ _ hC
      (resolveRefsLoop_noloader env _ hl root _ _ _ hC) hinv hdraftOf
      (allNodes_has (topDoc env root) _ _ (by
        intro w hw
        rw [List.mem_singleton.mp hw]
        exact ResourceRoot.has (resourceRoot_root (topDoc env root))))

end RComp
end Go
end JSV
