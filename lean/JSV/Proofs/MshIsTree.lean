/-
  What UnmarshalJSON allocates is a tree: checkStructure accepts the schema read back.

  `unmarshalFuel` allocates one fresh node per JSON value it decodes into a `Schema`, after the nodes of the members:
  every call returns a node whose whole subtree lies in the interval of ids `[size before, size after)`, so the
  subtrees of two members occupy disjoint intervals, and a member that OVERWRITES a field set by an earlier one (an
  exact key and a case variant of it, `canonKey` / `setMember`) only turns the earlier subtree into garbage.

  The only way not to get a tree is a `null` ELEMENT of a schema list or schema map: it is decoded into a nil pointer
  (`nilId`), which checkStructure refuses.  So the statement comes in two halves:
  * `unmarshalFuel_tree` — for EVERY JSON value: in the store where the nil elements of lists / maps are dropped
    (`patch`), checkStructure accepts the result, and registers only new nodes;
  * `cs_unpatch` — if every node below the result exists (`Full`, e.g. from `TreeEq.full`) in a store smaller than
    `nilId`, there is no nil element below it and checkStructure accepts it in the store itself.
-/
import JSV.Proofs.MshTree
import JSV.Proofs.ResIsoClone
namespace JSV
namespace Go
namespace UTree
open RPerm (Sub)
open RIso (InIv fieldEntries)

/-! ### the store without nil elements -/

def dropL (l : List NodeId) : List NodeId := l.filter (· != nilId)

def dropE (l : List (String × NodeId)) : List (String × NodeId) := l.filter (·.2 != nilId)

/-- a schema-bearing field without the nil elements of its list / map -/
def dropF : ChildField → ChildField
  | .one k c => .one k c
  | .many k cs => .many k (cs.map dropL)
  | .keyed k cs => .keyed k (cs.map dropE)

def dropN (n : Node) : Node := setChildFields n (n.childFields.map dropF)

/-- every node without the nil elements of its schema lists and schema maps -/
def patch (s : Store) : Store := s.map dropN

theorem childFields_dropN (n : Node) : (dropN n).childFields = n.childFields.map dropF := rfl

/-- the entries checkStructure pushes for a field once its nil elements are dropped -/
def gE (p : String) (f : ChildField) : List (NodeId × String) := fieldEntries p (dropF f)

theorem childEntries_dropN (n : Node) (p : String) : childEntries (dropN n) p = n.childFields.flatMap (gE p) := by
  rw [RIso.childEntries_eq, childFields_dropN, List.flatMap_map]
  rfl

theorem patch_size (s : Store) : (patch s).size = s.size := Array.size_map

theorem patch_get? (s : Store) (i : NodeId) : (patch s).get? i = (s.get? i).map dropN := by
  unfold patch Store.get?
  exact Array.getElem?_map

theorem patch_ext {s s' : Store} (he : Ext s s') : Ext (patch s) (patch s') := by
  refine ⟨by rw [patch_size, patch_size]; exact he.1, fun i hi => ?_⟩
  rw [patch_size] at hi
  rw [patch_get?, patch_get?, he.2 i hi]

theorem patch_push (s : Store) (n : Node) : patch (s.push n) = (patch s).push (dropN n) := by
  unfold patch
  exact Array.map_push

/-! ### replacing one field of a node whose children form a tree -/

theorem sub_app {S : Store} {w1 w2 : List (NodeId × String)} {D1 D2 : List (NodeId × Info)} (h1 : Sub S w1 D1)
    (h2 : Sub S w2 D2) (hd : ∀ x ∈ D2.map (·.1), x ∉ D1.map (·.1)) : Sub S (w1 ++ w2) (D1 ++ D2) :=
  (RPerm.sub_append_iff _ _ _ _).mpr ⟨D1, D2, rfl, h1, h2, hd⟩

/-- `fs.flatMap g` registers `D`, all in `[lo, mid)`; the `i`-th field is replaced by one whose entries register
    what the old field registered and nodes of `[mid, hi)`: the new list registers nodes of `D` and of `[mid, hi)` -/
theorem sub_set {S : Store} {g : ChildField → List (NodeId × String)} {lo mid hi : Nat} {f' : ChildField} :
    ∀ (fs : List ChildField) (i : Nat) (D : List (NodeId × Info)),
      (∀ f, fs[i]? = some f → ∀ Df, Sub S (g f) Df → InIv lo mid Df →
        ∃ Df', Sub S (g f') Df' ∧ ∀ k ∈ Df'.map (·.1), k ∈ Df.map (·.1) ∨ (mid ≤ k ∧ k < hi)) →
      Sub S (fs.flatMap g) D → InIv lo mid D →
      ∃ D', Sub S ((fs.set i f').flatMap g) D' ∧ ∀ k ∈ D'.map (·.1), k ∈ D.map (·.1) ∨ (mid ≤ k ∧ k < hi)
  | [], i, D, _, h, _ => ⟨D, by simpa using h, fun k hk => Or.inl hk⟩
  | f :: fs, 0, D, hf, h, hi => by
    rw [List.flatMap_cons] at h
    obtain ⟨D1, D2, rfl, h1, h2, hd⟩ := (RPerm.sub_append_iff _ _ _ _).mp h
    have hi1 : InIv lo mid D1 := fun k hk => hi k (by rw [List.map_append, List.mem_append]; exact Or.inl hk)
    have hi2 : InIv lo mid D2 := fun k hk => hi k (by rw [List.map_append, List.mem_append]; exact Or.inr hk)
    obtain ⟨Df', h1', hk'⟩ := hf f rfl D1 h1 hi1
    refine ⟨Df' ++ D2, ?_, ?_⟩
    · rw [List.set_cons_zero, List.flatMap_cons]
      refine sub_app h1' h2 fun x hx hx' => ?_
      rcases hk' x hx' with hk | hk
      · exact hd x hx hk
      · have := (hi2 x hx).2
        omega
    · intro k hk
      rw [List.map_append, List.mem_append] at hk ⊢
      rcases hk with hk | hk
      · rcases hk' k hk with h' | h'
        · exact Or.inl (Or.inl h')
        · exact Or.inr h'
      · exact Or.inl (Or.inr hk)
  | f :: fs, i + 1, D, hf, h, hi => by
    rw [List.flatMap_cons] at h
    obtain ⟨D1, D2, rfl, h1, h2, hd⟩ := (RPerm.sub_append_iff _ _ _ _).mp h
    have hi1 : InIv lo mid D1 := fun k hk => hi k (by rw [List.map_append, List.mem_append]; exact Or.inl hk)
    have hi2 : InIv lo mid D2 := fun k hk => hi k (by rw [List.map_append, List.mem_append]; exact Or.inr hk)
    obtain ⟨D2', h2', hk'⟩ := sub_set fs i D2 (fun f0 hf0 => hf f0 (by rw [List.getElem?_cons_succ]; exact hf0)) h2 hi2
    refine ⟨D1 ++ D2', ?_, ?_⟩
    · rw [List.set_cons_succ, List.flatMap_cons]
      refine sub_app h1 h2' fun x hx hx' => ?_
      rcases hk' x hx with hk | hk
      · exact hd x hk hx'
      · have := (hi1 x hx').2
        omega
    · intro k hk
      rw [List.map_append, List.mem_append] at hk ⊢
      rcases hk with hk | hk
      · exact Or.inl (Or.inl hk)
      · rcases hk' k hk with h' | h'
        · exact Or.inl (Or.inr h')
        · exact Or.inr h'

/-- the children recorded in a field list form a tree (nil elements aside) inside `[lo, s.size)` -/
def NIF (p : String) (s : Store) (lo : Nat) (fs : List ChildField) : Prop :=
  ∃ D, Sub (patch s) (fs.flatMap (gE p)) D ∧ InIv lo s.size D

/-- what holds of the node under construction -/
def NI (p : String) (s : Store) (lo : Nat) (n : Node) : Prop := NIF p s lo n.childFields

theorem NIF.ext {p : String} {s s' : Store} {lo : Nat} {fs : List ChildField} (h : NIF p s lo fs) (he : Ext s s') :
    NIF p s' lo fs := by
  obtain ⟨D, hs, hi⟩ := h
  exact ⟨D, RIso.sub_ext (patch_ext he) hs, hi.mono (Nat.le_refl _) he.1⟩

/-- a field is replaced by one whose children were allocated later -/
theorem NIF.set {p : String} {s s' : Store} {lo : Nat} {fs : List ChildField} (h : NIF p s lo fs) (hlo : lo ≤ s.size)
    (he : Ext s s') (i : Nat) {f' : ChildField}
    (hf : ∃ D', Sub (patch s') (gE p f') D' ∧ InIv s.size s'.size D') : NIF p s' lo (fs.set i f') := by
  obtain ⟨D, hs, hi⟩ := h
  obtain ⟨D', hs', hi'⟩ := hf
  obtain ⟨D'', h1, h2⟩ := sub_set (hi := s'.size) (f' := f') fs i D
    (fun _ _ _ _ _ => ⟨D', hs', fun k hk => Or.inr (hi' k hk)⟩) (RIso.sub_ext (patch_ext he) hs) hi
  refine ⟨D'', h1, fun k hk => ?_⟩
  rcases h2 k hk with h' | h'
  · have := hi k h'
    have := he.1
    omega
  · omega

/-! ### the traversal -/

/-- what is assumed of the recursive call: the node it returns is the root of a tree (nil elements aside) made of
    the nodes the call has allocated -/
def RecU (rec : URec) : Prop :=
  ∀ v s c s' p, rec v s = .ok (c, s') → Ext s s' ∧ ∃ D, Sub (patch s') [(c, p)] D ∧ InIv s.size s'.size D

theorem elems_cases {rec : URec} {x : Json} {rest : List Json} {s : Store} {l' : List NodeId} {s' : Store}
    (h : decSchemaElems rec (x :: rest) s = .ok (l', s')) :
    (∃ ids, decSchemaElems rec rest s = .ok (ids, s') ∧ l' = nilId :: ids) ∨
      ∃ c s1 ids, rec x s = .ok (c, s1) ∧ decSchemaElems rec rest s1 = .ok (ids, s') ∧ l' = c :: ids := by
  cases x
  case null =>
    simp only [decSchemaElems] at h
    obtain ⟨⟨ids, s1⟩, h1, h2⟩ := Res.bind_eq_ok h
    cases h2
    exact Or.inl ⟨ids, h1, rfl⟩
  all_goals
    simp only [decSchemaElems] at h
    obtain ⟨⟨c, s1⟩, h1, h2⟩ := Res.bind_eq_ok h
    obtain ⟨⟨ids, s2⟩, h3, h4⟩ := Res.bind_eq_ok h2
    cases h4
    exact Or.inr ⟨c, s1, ids, h1, h3, rfl⟩

theorem entries_cases {rec : URec} {k : String} {x : Json} {rest : List (String × Json)} {s : Store}
    {l' : List (String × NodeId)} {s' : Store} (h : decSchemaEntries rec ((k, x) :: rest) s = .ok (l', s')) :
    (∃ es, decSchemaEntries rec rest s = .ok (es, s') ∧ l' = (k, nilId) :: es) ∨
      ∃ c s1 es, rec x s = .ok (c, s1) ∧ decSchemaEntries rec rest s1 = .ok (es, s') ∧ l' = (k, c) :: es := by
  cases x
  case null =>
    simp only [decSchemaEntries] at h
    obtain ⟨⟨es, s1⟩, h1, h2⟩ := Res.bind_eq_ok h
    cases h2
    exact Or.inl ⟨es, h1, rfl⟩
  all_goals
    simp only [decSchemaEntries] at h
    obtain ⟨⟨c, s1⟩, h1, h2⟩ := Res.bind_eq_ok h
    obtain ⟨⟨es, s2⟩, h3, h4⟩ := Res.bind_eq_ok h2
    cases h4
    exact Or.inr ⟨c, s1, es, h1, h3, rfl⟩

theorem dropL_cons_nil (l : List NodeId) : dropL (nilId :: l) = dropL l := by
  simp [dropL]

theorem dropL_cons_ne {c : NodeId} (hc : c ≠ nilId) (l : List NodeId) : dropL (c :: l) = c :: dropL l := by
  simp [dropL, hc]

theorem dropE_cons_nil (k : String) (l : List (String × NodeId)) : dropE ((k, nilId) :: l) = dropE l := by
  simp [dropE]

theorem dropE_cons_ne {c : NodeId} (hc : c ≠ nilId) (k : String) (l : List (String × NodeId)) :
    dropE ((k, c) :: l) = (k, c) :: dropE l := by
  simp [dropE, hc]

section
variable {rec : URec} (hrec : RecU rec)
include hrec

theorem elems_tree (h : NodeId × Nat → NodeId × String) (g : Nat → String) (hh : ∀ c i, h (c, i) = (c, g i)) :
    ∀ (xs : List Json) (k : Nat) (s : Store) (l' : List NodeId) (s' : Store),
      decSchemaElems rec xs s = .ok (l', s') →
      Ext s s' ∧ ∃ D, Sub (patch s') (((dropL l').zipIdx k).map h) D ∧ InIv s.size s'.size D
  | [], k, s, l', s', hc => by
    simp only [decSchemaElems] at hc
    cases hc
    exact ⟨Ext.refl _, [], RPerm.sub_nil _, RIso.inIv_nil _ _⟩
  | x :: xs, k, s, l', s', hc => by
    rcases elems_cases hc with ⟨ids, h1, rfl⟩ | ⟨c, s1, ids, h1, h3, rfl⟩
    · rw [dropL_cons_nil]
      exact elems_tree h g hh xs k s ids s' h1
    · obtain ⟨e1, D1, hs1, hi1⟩ := hrec x s c s1 (g k) h1
      by_cases hcn : c = nilId
      · subst hcn
        rw [dropL_cons_nil]
        obtain ⟨e2, D2, hs2, hi2⟩ := elems_tree h g hh xs k s1 ids s' h3
        exact ⟨e1.trans e2, D2, hs2, hi2.mono e1.1 (Nat.le_refl _)⟩
      · rw [dropL_cons_ne hcn, List.zipIdx_cons, List.map_cons, hh]
        obtain ⟨e2, D2, hs2, hi2⟩ := elems_tree h g hh xs (k + 1) s1 ids s' h3
        refine ⟨e1.trans e2, D1 ++ D2, ?_, hi1.append hi2 e1.1 e2.1⟩
        exact (RPerm.sub_cons_iff _ _ _ _).mpr
          ⟨D1, D2, rfl, RIso.sub_ext (patch_ext e2) hs1, hs2, hi1.disjoint hi2⟩

theorem entries_tree (h : String × NodeId → NodeId × String) (g : String → String) (hh : ∀ k c, h (k, c) = (c, g k)) :
    ∀ (xs : List (String × Json)) (s : Store) (l' : List (String × NodeId)) (s' : Store),
      decSchemaEntries rec xs s = .ok (l', s') →
      Ext s s' ∧ ∃ D, Sub (patch s') ((dropE l').map h) D ∧ InIv s.size s'.size D
  | [], s, l', s', hc => by
    simp only [decSchemaEntries] at hc
    cases hc
    exact ⟨Ext.refl _, [], RPerm.sub_nil _, RIso.inIv_nil _ _⟩
  | (k, x) :: xs, s, l', s', hc => by
    rcases entries_cases hc with ⟨es, h1, rfl⟩ | ⟨c, s1, es, h1, h3, rfl⟩
    · rw [dropE_cons_nil]
      exact entries_tree h g hh xs s es s' h1
    · obtain ⟨e1, D1, hs1, hi1⟩ := hrec x s c s1 (g k) h1
      obtain ⟨e2, D2, hs2, hi2⟩ := entries_tree h g hh xs s1 es s' h3
      by_cases hcn : c = nilId
      · subst hcn
        rw [dropE_cons_nil]
        exact ⟨e1.trans e2, D2, hs2, hi2.mono e1.1 (Nat.le_refl _)⟩
      · rw [dropE_cons_ne hcn, List.map_cons, hh]
        refine ⟨e1.trans e2, D1 ++ D2, ?_, hi1.append hi2 e1.1 e2.1⟩
        exact (RPerm.sub_cons_iff _ _ _ _).mpr
          ⟨D1, D2, rfl, RIso.sub_ext (patch_ext e2) hs1, hs2, hi1.disjoint hi2⟩

end

section
variable {rec : URec} (hrec : RecU rec)
include hrec

theorem ptr_tree (p key : String) {v : Json} {s : Store} {c : Option NodeId} {s' : Store}
    (h : decSchemaPtr rec v s = .ok (c, s')) :
    Ext s s' ∧ ∃ D, Sub (patch s') (gE p (.one key c)) D ∧ InIv s.size s'.size D := by
  have hnn : ∀ (x : NodeId × Store), rec v s = .ok x → (.ok (some x.1, x.2) : Res (Option NodeId × Store)) = .ok (c, s') →
      Ext s s' ∧ ∃ D, Sub (patch s') (gE p (.one key c)) D ∧ InIv s.size s'.size D := by
    intro x h1 h2
    cases h2
    exact hrec v s x.1 x.2 _ h1
  cases v
  case null =>
    cases h
    exact ⟨Ext.refl _, [], RPerm.sub_nil _, RIso.inIv_nil _ _⟩
  all_goals
    simp only [decSchemaPtr] at h
    obtain ⟨x, h1, h2⟩ := Res.bind_eq_ok h
    exact hnn x h1 h2

theorem list_tree (p key : String) {v : Json} {s : Store} {c : Option (List NodeId)} {s' : Store}
    (h : decSchemaList rec v s = .ok (c, s')) :
    Ext s s' ∧ ∃ D, Sub (patch s') (gE p (.many key c)) D ∧ InIv s.size s'.size D := by
  cases v
  case null =>
    cases h
    exact ⟨Ext.refl _, [], RPerm.sub_nil _, RIso.inIv_nil _ _⟩
  case arr xs =>
    simp only [decSchemaList] at h
    obtain ⟨⟨l', s1⟩, h1, h2⟩ := Res.bind_eq_ok h
    cases h2
    exact elems_tree hrec _ (fun i => p ++ "/" ++ key ++ "/" ++ toString i) (fun _ _ => rfl) xs 0 s l' _ h1
  all_goals cases h

theorem map_tree (p key : String) {v : Json} {s : Store} {c : Option (List (String × NodeId))} {s' : Store}
    (h : decSchemaMap rec v s = .ok (c, s')) :
    Ext s s' ∧ ∃ D, Sub (patch s') (gE p (.keyed key c)) D ∧ InIv s.size s'.size D := by
  cases v
  case null =>
    cases h
    exact ⟨Ext.refl _, [], RPerm.sub_nil _, RIso.inIv_nil _ _⟩
  case obj kvs =>
    simp only [decSchemaMap] at h
    obtain ⟨⟨l', s1⟩, h1, h2⟩ := Res.bind_eq_ok h
    cases h2
    exact entries_tree hrec _ (fun k => p ++ "/" ++ key ++ "/" ++ Pointer.escapeSegment k) (fun _ _ => rfl) kvs s l' _ h1
  all_goals cases h

end

/-! ### one member -/

theorem sf_same {α : Type} {p : String} {s : Store} {lo : Nat} {n n' : Node} {s' : Store} (hni : NI p s lo n)
    {x : Res α} {upd : α → Node} (h : Res.bind x (fun a => .ok (upd a, s)) = .ok (n', s'))
    (hupd : ∀ a, (upd a).childFields = n.childFields) : Ext s s' ∧ NI p s' lo n' := by
  obtain ⟨a, _, h2⟩ := Res.bind_eq_ok h
  cases h2
  refine ⟨Ext.refl _, ?_⟩
  unfold NI
  rw [hupd]
  exact hni

theorem sf_pure {p : String} {s : Store} {lo : Nat} {n m n' : Node} {s' : Store} (hni : NI p s lo n)
    (h : (.ok (m, s) : Res (Node × Store)) = .ok (n', s')) (hupd : m.childFields = n.childFields) :
    Ext s s' ∧ NI p s' lo n' := by
  cases h
  refine ⟨Ext.refl _, ?_⟩
  unfold NI
  rw [hupd]
  exact hni

section
variable {rec : URec} (hrec : RecU rec)
include hrec

theorem sf_one {p : String} {s : Store} {lo : Nat} {n n' : Node} {s' : Store} {v : Json} (hni : NI p s lo n)
    (hlo : lo ≤ s.size) (i : Nat) (key : String) {upd : Option NodeId → Node}
    (h : Res.bind (decSchemaPtr rec v s) (fun r => .ok (upd r.1, r.2)) = .ok (n', s'))
    (hupd : ∀ c, (upd c).childFields = n.childFields.set i (.one key c)) :
    Ext s s' ∧ NI p s' lo n' := by
  obtain ⟨⟨c, s1⟩, h1, h2⟩ := Res.bind_eq_ok h
  cases h2
  obtain ⟨e, hD⟩ := ptr_tree hrec p key h1
  refine ⟨e, ?_⟩
  unfold NI
  rw [hupd]
  exact NIF.set hni hlo e i hD

theorem sf_many {p : String} {s : Store} {lo : Nat} {n n' : Node} {s' : Store} {v : Json} (hni : NI p s lo n)
    (hlo : lo ≤ s.size) (i : Nat) (key : String) {upd : Option (List NodeId) → Node}
    (h : Res.bind (decSchemaList rec v s) (fun r => .ok (upd r.1, r.2)) = .ok (n', s'))
    (hupd : ∀ c, (upd c).childFields = n.childFields.set i (.many key c)) :
    Ext s s' ∧ NI p s' lo n' := by
  obtain ⟨⟨c, s1⟩, h1, h2⟩ := Res.bind_eq_ok h
  cases h2
  obtain ⟨e, hD⟩ := list_tree hrec p key h1
  refine ⟨e, ?_⟩
  unfold NI
  rw [hupd]
  exact NIF.set hni hlo e i hD

theorem sf_keyed {p : String} {s : Store} {lo : Nat} {n n' : Node} {s' : Store} {v : Json} (hni : NI p s lo n)
    (hlo : lo ≤ s.size) (i : Nat) (key : String) {upd : Option (List (String × NodeId)) → Node}
    (h : Res.bind (decSchemaMap rec v s) (fun r => .ok (upd r.1, r.2)) = .ok (n', s'))
    (hupd : ∀ c, (upd c).childFields = n.childFields.set i (.keyed key c)) :
    Ext s s' ∧ NI p s' lo n' := by
  obtain ⟨⟨c, s1⟩, h1, h2⟩ := Res.bind_eq_ok h
  cases h2
  obtain ⟨e, hD⟩ := map_tree hrec p key h1
  refine ⟨e, ?_⟩
  unfold NI
  rw [hupd]
  exact NIF.set hni hlo e i hD

/-- "items": the schema form and the array form set one field and clear the other -/
theorem sf_items {p : String} {s : Store} {lo : Nat} {n n' : Node} {s' : Store} {v : Json} (hni : NI p s lo n)
    (hlo : lo ≤ s.size) (h : setField rec n s "items" v = .ok (n', s')) : Ext s s' ∧ NI p s' lo n' := by
  have hone : ∀ (w : Json), (setField rec n s "items" w =
        Res.bind (rec w s) fun r => .ok ({ n with items := some r.1, itemsArray := none }, r.2)) →
      setField rec n s "items" w = .ok (n', s') → Ext s s' ∧ NI p s' lo n' := by
    intro w e0 h0
    rw [e0] at h0
    obtain ⟨x, h1, h2⟩ := Res.bind_eq_ok h0
    cases h2
    obtain ⟨e, hD⟩ := hrec w s x.1 x.2 (p ++ "/" ++ "items") h1
    refine ⟨e, ?_⟩
    have h13 : NIF p s lo (n.childFields.set 13 (.many "items" none)) :=
      NIF.set hni hlo (Ext.refl _) 13 ⟨[], RPerm.sub_nil _, RIso.inIv_nil _ _⟩
    exact NIF.set (f' := .one "items" (some x.1)) h13 hlo e 12 hD
  cases v
  case arr xs =>
    have e0 : setField rec n s "items" (.arr xs) =
        Res.bind (decSchemaElems rec xs s) fun r => .ok ({ n with itemsArray := some r.1, items := none }, r.2) := rfl
    rw [e0] at h
    obtain ⟨⟨ids, s1⟩, h1, h2⟩ := Res.bind_eq_ok h
    cases h2
    obtain ⟨e, hD⟩ := elems_tree hrec (fun (ci : NodeId × Nat) => (ci.1, p ++ "/" ++ "items" ++ "/" ++ toString ci.2))
      (fun i => p ++ "/" ++ "items" ++ "/" ++ toString i) (fun _ _ => rfl) xs 0 s ids s1 h1
    refine ⟨e, ?_⟩
    have h12 : NIF p s lo (n.childFields.set 12 (.one "items" none)) :=
      NIF.set hni hlo (Ext.refl _) 12 ⟨[], RPerm.sub_nil _, RIso.inIv_nil _ _⟩
    exact NIF.set (f' := .many "items" (some ids)) h12 hlo e 13 hD
  case null => exact hone _ rfl h
  case bool b => exact hone _ rfl h
  case num q => exact hone _ rfl h
  case str t => exact hone _ rfl h
  case obj kvs => exact hone _ rfl h

end

/-! ### "dependencies": schema-form entries are appended one by one -/

theorem getD_map_dropE (cs : Option (List (String × NodeId))) : (cs.map dropE).getD [] = dropE (cs.getD []) := by
  cases cs <;> rfl

theorem gE_keyed_snoc (p key : String) (cs : Option (List (String × NodeId))) (k : String) (c : NodeId) :
    gE p (.keyed key (some (cs.getD [] ++ [(k, c)]))) =
      gE p (.keyed key cs) ++ if c = nilId then [] else [(c, p ++ "/" ++ key ++ "/" ++ Pointer.escapeSegment k)] := by
  unfold gE dropF fieldEntries
  simp only [Option.map_some, Option.getD_some, getD_map_dropE]
  unfold dropE
  rw [List.filter_append, List.map_append]
  congr 1
  by_cases hc : c = nilId
  · simp [hc]
  · simp [hc]

theorem ni_dep {p : String} {s s1 : Store} {lo : Nat} {n : Node} {k : String} {c : NodeId} (hni : NI p s lo n)
    (hlo : lo ≤ s.size) (he : Ext s s1)
    (hc : ∃ D', Sub (patch s1) [(c, p ++ "/" ++ "dependencies" ++ "/" ++ Pointer.escapeSegment k)] D' ∧
      InIv s.size s1.size D') :
    NI p s1 lo { n with dependencySchemas := some (n.dependencySchemas.getD [] ++ [(k, c)]) } := by
  obtain ⟨D, hs, hi⟩ := hni
  obtain ⟨D', hs', hi'⟩ := hc
  have hcf : ({ n with dependencySchemas := some (n.dependencySchemas.getD [] ++ [(k, c)]) } : Node).childFields =
      n.childFields.set 8 (.keyed "dependencies" (some (n.dependencySchemas.getD [] ++ [(k, c)]))) := rfl
  obtain ⟨D'', h1, h2⟩ := sub_set (S := patch s1) (g := gE p) (lo := lo) (mid := s.size) (hi := s1.size)
    (f' := .keyed "dependencies" (some (n.dependencySchemas.getD [] ++ [(k, c)]))) n.childFields 8 D
    (by
      intro f hf Df hsf hif
      have h8 : n.childFields[8]? = some (.keyed "dependencies" n.dependencySchemas) := rfl
      rw [h8] at hf
      cases hf
      rw [gE_keyed_snoc]
      by_cases hcn : c = nilId
      · rw [if_pos hcn, List.append_nil]
        exact ⟨Df, hsf, fun x hx => Or.inl hx⟩
      · rw [if_neg hcn]
        refine ⟨Df ++ D', sub_app hsf hs' (hif.disjoint hi'), fun x hx => ?_⟩
        rw [List.map_append, List.mem_append] at hx
        rcases hx with hx | hx
        · exact Or.inl hx
        · exact Or.inr (hi' x hx))
    (RIso.sub_ext (patch_ext he) hs) hi
  refine ⟨D'', by rw [hcf]; exact h1, fun x hx => ?_⟩
  rcases h2 x hx with h' | h'
  · have := hi x h'
    have := he.1
    omega
  · omega

theorem deps_cases {rec : URec} {k : String} {x : Json} {rest : List (String × Json)} {n : Node} {s : Store}
    {r : Node × Store} (h : decDependencies rec ((k, x) :: rest) n s = .ok r) :
    (∃ sl, decDependencies rec rest
        { n with dependencyStrings := some ((n.dependencyStrings.getD []) ++ [(k, sl)]) } s = .ok r) ∨
      ∃ c s1, rec x s = .ok (c, s1) ∧ decDependencies rec rest
        { n with dependencySchemas := some ((n.dependencySchemas.getD []) ++ [(k, c)]) } s1 = .ok r := by
  cases x
  case arr xs =>
    simp only [decDependencies] at h
    obtain ⟨sl, _, h2⟩ := Res.bind_eq_ok h
    exact Or.inl ⟨sl, h2⟩
  all_goals
    simp only [decDependencies] at h
    obtain ⟨⟨c, s1⟩, h1, h2⟩ := Res.bind_eq_ok h
    exact Or.inr ⟨c, s1, h1, h2⟩

section
variable {rec : URec} (hrec : RecU rec)
include hrec

theorem deps_tree (p : String) (lo : Nat) : ∀ (kvs : List (String × Json)) (n : Node) (s : Store) (n' : Node) (s' : Store),
    NI p s lo n → lo ≤ s.size → decDependencies rec kvs n s = .ok (n', s') → Ext s s' ∧ NI p s' lo n'
  | [], n, s, n', s', hni, _, h => by
    simp only [decDependencies] at h
    cases h
    exact ⟨Ext.refl _, hni⟩
  | (k, x) :: rest, n, s, n', s', hni, hlo, h => by
    rcases deps_cases h with ⟨sl, h1⟩ | ⟨c, s1, h1, h2⟩
    · have hni' : NI p s lo { n with dependencyStrings := some ((n.dependencyStrings.getD []) ++ [(k, sl)]) } := hni
      exact deps_tree p lo rest _ s n' s' hni' hlo h1
    · obtain ⟨e1, hD⟩ := hrec x s c s1 (p ++ "/" ++ "dependencies" ++ "/" ++ Pointer.escapeSegment k) h1
      obtain ⟨e2, hn2⟩ := deps_tree p lo rest _ s1 n' s' (ni_dep hni hlo e1 hD) (Nat.le_trans hlo e1.1) h2
      exact ⟨e1.trans e2, hn2⟩

theorem sf_deps {p : String} {s : Store} {lo : Nat} {n n' : Node} {s' : Store} {v : Json} (hni : NI p s lo n)
    (hlo : lo ≤ s.size) (h : setField rec n s "dependencies" v = .ok (n', s')) : Ext s s' ∧ NI p s' lo n' := by
  cases v
  case null =>
    have e0 : setField rec n s "dependencies" .null = .ok (n, s) := rfl
    rw [e0] at h
    cases h
    exact ⟨Ext.refl _, hni⟩
  case obj kvs =>
    have e0 : setField rec n s "dependencies" (.obj kvs) = decDependencies rec kvs n s := rfl
    rw [e0] at h
    exact deps_tree hrec p lo kvs n s n' s' hni hlo h
  case bool b => exact nomatch (show (Res.err : Res (Node × Store)) = .ok (n', s') from h)
  case num q => exact nomatch (show (Res.err : Res (Node × Store)) = .ok (n', s') from h)
  case str t => exact nomatch (show (Res.err : Res (Node × Store)) = .ok (n', s') from h)
  case arr xs => exact nomatch (show (Res.err : Res (Node × Store)) = .ok (n', s') from h)

end

section
variable {rec : URec} (hrec : RecU rec)
include hrec

/-- one keyword: the children recorded in the node still form a tree -/
theorem setField_tree {p : String} {s : Store} {lo : Nat} {n n' : Node} {s' : Store} {k : String} {v : Json}
    (hni : NI p s lo n) (hlo : lo ≤ s.size) (h : setField rec n s k v = .ok (n', s')) :
    Ext s s' ∧ NI p s' lo n' := by
  unfold setField at h
  split at h
  · exact sf_same hni h (fun _ => rfl)  -- $id
  · exact sf_same hni h (fun _ => rfl)  -- $schema
  · exact sf_same hni h (fun _ => rfl)  -- $ref
  · exact sf_same hni h (fun _ => rfl)  -- $comment
  · exact sf_keyed hrec hni hlo 0 "$defs" (upd := fun c => { n with defs := c }) h (fun _ => rfl)  -- $defs
  · exact sf_keyed hrec hni hlo 7 "definitions" (upd := fun c => { n with definitions := c }) h (fun _ => rfl)  -- definitions
  · exact sf_same hni h (fun _ => rfl)  -- $anchor
  · exact sf_same hni h (fun _ => rfl)  -- $dynamicAnchor
  · exact sf_same hni h (fun _ => rfl)  -- $dynamicRef
  · exact sf_same hni h (fun _ => rfl)  -- $vocabulary
  · exact sf_same hni h (fun _ => rfl)  -- title
  · exact sf_same hni h (fun _ => rfl)  -- description
  · exact sf_pure hni h rfl  -- default
  · exact sf_same hni h (fun _ => rfl)  -- deprecated
  · exact sf_same hni h (fun _ => rfl)  -- readOnly
  · exact sf_same hni h (fun _ => rfl)  -- writeOnly
  · exact sf_same hni h (fun _ => rfl)  -- examples
  · exact sf_same hni h (fun _ => rfl)  -- enum
  · exact sf_pure hni h rfl  -- const
  · exact sf_same hni h (fun _ => rfl)  -- multipleOf
  · exact sf_same hni h (fun _ => rfl)  -- minimum
  · exact sf_same hni h (fun _ => rfl)  -- maximum
  · exact sf_same hni h (fun _ => rfl)  -- exclusiveMinimum
  · exact sf_same hni h (fun _ => rfl)  -- exclusiveMaximum
  · exact sf_same hni h (fun _ => rfl)  -- minLength
  · exact sf_same hni h (fun _ => rfl)  -- maxLength
  · exact sf_same hni h (fun _ => rfl)  -- pattern
  · exact sf_many hrec hni hlo 17 "prefixItems" (upd := fun c => { n with prefixItems := c }) h (fun _ => rfl)  -- prefixItems
  · exact sf_same hni h (fun _ => rfl)  -- minItems
  · exact sf_same hni h (fun _ => rfl)  -- maxItems
  · exact sf_one hrec hni hlo 1 "additionalItems" (upd := fun c => { n with additionalItems := c }) h (fun _ => rfl)  -- additionalItems
  · exact sf_same hni h (fun _ => rfl)  -- uniqueItems
  · exact sf_one hrec hni hlo 5 "contains" (upd := fun c => { n with contains := c }) h (fun _ => rfl)  -- contains
  · exact sf_same hni h (fun _ => rfl)  -- minContains
  · exact sf_same hni h (fun _ => rfl)  -- maxContains
  · exact sf_one hrec hni hlo 21 "unevaluatedItems" (upd := fun c => { n with unevaluatedItems := c }) h (fun _ => rfl)  -- unevaluatedItems
  · exact sf_same hni h (fun _ => rfl)  -- minProperties
  · exact sf_same hni h (fun _ => rfl)  -- maxProperties
  · exact sf_same hni h (fun _ => rfl)  -- required
  · exact sf_same hni h (fun _ => rfl)  -- dependentRequired
  · exact sf_keyed hrec hni hlo 18 "properties" (upd := fun c => { n with properties := c }) h (fun _ => rfl)  -- properties
  · exact sf_keyed hrec hni hlo 16 "patternProperties" (upd := fun c => { n with patternProperties := c }) h (fun _ => rfl)  -- patternProperties
  · exact sf_one hrec hni hlo 2 "additionalProperties" (upd := fun c => { n with additionalProperties := c }) h (fun _ => rfl)  -- additionalProperties
  · exact sf_one hrec hni hlo 19 "propertyNames" (upd := fun c => { n with propertyNames := c }) h (fun _ => rfl)  -- propertyNames
  · exact sf_one hrec hni hlo 22 "unevaluatedProperties" (upd := fun c => { n with unevaluatedProperties := c }) h (fun _ => rfl)  -- unevaluatedProperties
  · exact sf_many hrec hni hlo 3 "allOf" (upd := fun c => { n with allOf := c }) h (fun _ => rfl)  -- allOf
  · exact sf_many hrec hni hlo 4 "anyOf" (upd := fun c => { n with anyOf := c }) h (fun _ => rfl)  -- anyOf
  · exact sf_many hrec hni hlo 15 "oneOf" (upd := fun c => { n with oneOf := c }) h (fun _ => rfl)  -- oneOf
  · exact sf_one hrec hni hlo 14 "not" (upd := fun c => { n with not := c }) h (fun _ => rfl)  -- not
  · exact sf_one hrec hni hlo 11 "if" (upd := fun c => { n with if_ := c }) h (fun _ => rfl)  -- if
  · exact sf_one hrec hni hlo 20 "then" (upd := fun c => { n with then_ := c }) h (fun _ => rfl)  -- then
  · exact sf_one hrec hni hlo 10 "else" (upd := fun c => { n with else_ := c }) h (fun _ => rfl)  -- else
  · exact sf_keyed hrec hni hlo 9 "dependentSchemas" (upd := fun c => { n with dependentSchemas := c }) h (fun _ => rfl)  -- dependentSchemas
  · exact sf_same hni h (fun _ => rfl)  -- contentEncoding
  · exact sf_same hni h (fun _ => rfl)  -- contentMediaType
  · exact sf_one hrec hni hlo 6 "contentSchema" (upd := fun c => { n with contentSchema := c }) h (fun _ => rfl)  -- contentSchema
  · exact sf_same hni h (fun _ => rfl)  -- format
  · split at h  -- type
    · exact sf_pure hni h rfl
    · exact sf_same hni h (fun _ => rfl)
    · cases h
  · exact sf_items hrec hni hlo h  -- items
  · exact sf_deps hrec hni hlo h  -- dependencies
  · exact sf_pure hni h rfl  -- unknown key: Extra

/-- one object member: a case variant of a keyword is decoded into the keyword's field and also kept in Extra -/
theorem setMember_tree {p : String} {s : Store} {lo : Nat} {n n' : Node} {s' : Store} {k : String} {v : Json}
    (hni : NI p s lo n) (hlo : lo ≤ s.size) (h : setMember rec n s k v = .ok (n', s')) :
    Ext s s' ∧ NI p s' lo n' := by
  unfold setMember at h
  split at h
  · exact setField_tree hrec hni hlo h
  · obtain ⟨⟨n1, s1⟩, h1, h2⟩ := Res.bind_eq_ok h
    have h3 := setField_tree hrec hni hlo h1
    cases h2
    exact h3

theorem setFields_tree (p : String) (lo : Nat) : ∀ (kvs : List (String × Json)) (n : Node) (s : Store) (n' : Node)
    (s' : Store), NI p s lo n → lo ≤ s.size → setFields rec kvs n s = .ok (n', s') → Ext s s' ∧ NI p s' lo n'
  | [], n, s, n', s', hni, _, h => by
    simp only [setFields] at h
    cases h
    exact ⟨Ext.refl _, hni⟩
  | (k, v) :: rest, n, s, n', s', hni, hlo, h => by
    simp only [setFields] at h
    obtain ⟨⟨n1, s1⟩, h1, h2⟩ := Res.bind_eq_ok h
    obtain ⟨e1, hn1⟩ := setMember_tree hrec hni hlo h1
    obtain ⟨e2, hn2⟩ := setFields_tree p lo rest n1 s1 n' s' hn1 (Nat.le_trans hlo e1.1) h2
    exact ⟨e1.trans e2, hn2⟩

end

/-- a node whose children form a tree of nodes of `[lo, s.size)` is allocated: it is the root of a tree of nodes of
    `[lo, s.size + 1)` -/
theorem alloc_tree {p : String} {s : Store} {lo : Nat} {n : Node} (hni : NI p s lo n) (hlo : lo ≤ s.size) :
    ∃ D, Sub (patch (s.push n)) [(s.size, p)] D ∧ InIv lo (s.push n).size D := by
  obtain ⟨D0, hs, hi⟩ := hni
  have hsz : (s.push n).size = s.size + 1 := Array.size_push _
  refine ⟨(s.size, RPerm.infoOf p) :: D0, ?_, ?_⟩
  · refine (RPerm.sub_single_iff _ _ _ _).mpr ⟨dropN n, D0, ?_, rfl, ?_, ?_⟩
    · rw [patch_get?, get?_push_size]
      rfl
    · rw [childEntries_dropN]
      exact RIso.sub_ext (patch_ext (Ext.push s n)) hs
    · intro hm
      have := (hi _ hm).2
      omega
  · intro k hk
    rw [List.map_cons, List.mem_cons] at hk
    rcases hk with hk | hk
    · subst hk
      dsimp only
      omega
    · have := hi k hk
      omega

theorem ni_empty (p : String) (s : Store) (lo : Nat) : NI p s lo emptyNode :=
  ⟨[], RPerm.sub_nil _, RIso.inIv_nil _ _⟩

/-- `false` / `null`: `&Schema{Not: &Schema{}}` -/
theorem allocFalse_tree (p : String) (s : Store) :
    Ext s (allocFalse s).2 ∧ ∃ D, Sub (patch (allocFalse s).2) [((allocFalse s).1, p)] D ∧
      InIv s.size (allocFalse s).2.size D := by
  have e1 : Ext s (s.push emptyNode) := Ext.push _ _
  have hsz : (s.push emptyNode).size = s.size + 1 := Array.size_push _
  obtain ⟨D1, hs1, hi1⟩ := alloc_tree (p := p ++ "/" ++ "not") (ni_empty _ s s.size) (Nat.le_refl _)
  have hni : NI p (s.push emptyNode) s.size { emptyNode with not := some s.size } := ⟨D1, hs1, hi1⟩
  obtain ⟨D, hs, hi⟩ := alloc_tree hni e1.1
  refine ⟨e1.trans (Ext.push _ _), D, ?_, hi⟩
  have e : allocFalse s = ((s.push emptyNode).size, (s.push emptyNode).push { emptyNode with not := some s.size }) := rfl
  rw [e]
  exact hs

theorem unmarshalStep_tree {rec : URec} (hrec : RecU rec) : RecU (unmarshalStep rec) := by
  intro v s c s' p h
  unfold unmarshalStep at h
  split at h
  · cases h
    exact ⟨Ext.push _ _, alloc_tree (ni_empty p s s.size) (Nat.le_refl _)⟩
  · cases h
    exact allocFalse_tree p s
  · cases h
    exact allocFalse_tree p s
  · obtain ⟨⟨n, s1⟩, h1, h2⟩ := Res.bind_eq_ok h
    cases h2
    obtain ⟨e1, hn1⟩ := setFields_tree hrec p s.size _ emptyNode s n s1 (ni_empty p s s.size) (Nat.le_refl _) h1
    exact ⟨e1.trans (Ext.push _ _), alloc_tree hn1 e1.1⟩
  · cases h

/-- **what UnmarshalJSON allocates is a tree** (nil elements aside): in the store without the nil elements of schema
    lists and schema maps, checkStructure accepts the node returned — under any initial path — and registers only
    nodes allocated by the call.  For EVERY JSON value: duplicate keys, case variants of keywords overwriting a field
    set earlier, the "items" and "dependencies" unions, boolean schemas. -/
theorem unmarshalFuel_tree : ∀ fuel, RecU (unmarshalFuel fuel)
  | 0 => fun _ _ _ _ _ h => by cases h
  | fuel + 1 => unmarshalStep_tree (unmarshalFuel_tree fuel)

/-! ### back to the store itself -/

theorem dropL_eq_self {l : List NodeId} (h : ∀ x, x ∈ l → x ≠ nilId) : dropL l = l := by
  unfold dropL
  rw [List.filter_eq_self]
  intro x hx
  simpa using h x hx

theorem dropE_eq_self {l : List (String × NodeId)} (h : ∀ x, x ∈ l.map (·.2) → x ≠ nilId) : dropE l = l := by
  unfold dropE
  rw [List.filter_eq_self]
  intro x hx
  simpa using h x.2 (List.mem_map.2 ⟨x, hx, rfl⟩)

theorem dropF_eq_self {f : ChildField} (h : ∀ x, x ∈ f.ids → x ≠ nilId) : dropF f = f := by
  cases f with
  | one k c => rfl
  | many k cs =>
    cases cs with
    | none => rfl
    | some l => exact congrArg (fun l' => ChildField.many k (some l')) (dropL_eq_self (l := l) h)
  | keyed k cs =>
    cases cs with
    | none => rfl
    | some l => exact congrArg (fun l' => ChildField.keyed k (some l')) (dropE_eq_self (l := l) h)

/-- a node without nil element is not changed -/
theorem dropN_eq_self {n : Node} (h : ∀ x, x ∈ n.children → x ≠ nilId) : dropN n = n := by
  have hm : n.childFields.map dropF = n.childFields := by
    conv => rhs; rw [← List.map_id n.childFields]
    exact List.map_congr_left fun f hf => dropF_eq_self fun x hx => h x (mem_children_iff.2 ⟨f, hf, hx⟩)
  unfold dropN
  rw [hm]
  rfl

/-- below nodes that exist with all their descendants (`Full`), in a store smaller than `nilId`, there is no nil
    element: checkStructure does in the store what it does in the store without nil elements -/
theorem cs_unpatch {s : Store} (hsz : s.size ≤ nilId) : ∀ (f : Nat) (w : List (NodeId × String))
    (acc res : List (NodeId × Info)), (∀ e, e ∈ w → ∃ d, Full s d e.1) →
    checkStructure (patch s) f w acc = .ok res → checkStructure s f w acc = .ok res := by
  intro f
  induction f with
  | zero => intro w acc res _ h; rw [RPerm.cs_zero] at h; cases h
  | succ f ih =>
    intro w acc res hw h
    cases w with
    | nil => rw [RPerm.cs_nil] at h ⊢; exact h
    | cons e w =>
      obtain ⟨id, path⟩ := e
      obtain ⟨n', hn', hid, hrest⟩ := (RPerm.cs_cons_ok _ _ _ _ _ _ _).mp h
      obtain ⟨d, hd⟩ := hw (id, path) List.mem_cons_self
      cases d with
      | zero => exact hd.elim
      | succ d =>
        obtain ⟨n, hn, hch⟩ := hd
        have hnn : ∀ x, x ∈ n.children → x ≠ nilId := fun x hx heq => by
          have h2 : x < s.size := Full.lt_size (hch x hx)
          rw [heq] at h2
          exact absurd h2 (Nat.not_lt.2 hsz)
        rw [patch_get?, hn, Option.map_some, dropN_eq_self hnn] at hn'
        have hnn' : n' = n := (Option.some.inj hn').symm
        rw [hnn'] at hrest
        refine (RPerm.cs_cons_ok _ _ _ _ _ _ _).mpr ⟨n, hn, hid, ih _ _ _ (fun e he => ?_) hrest⟩
        rcases List.mem_append.1 he with he | he
        · have h1 : e.1 ∈ (childEntries n path).map (·.1) := List.mem_map.2 ⟨e, he, rfl⟩
          rw [RIso.childEntries_fst, List.mem_flatMap] at h1
          obtain ⟨fl, hfl, hx⟩ := h1
          exact ⟨d, hch e.1 (mem_children_iff.2 ⟨fl, hfl, hx⟩)⟩
        · exact hw e (List.mem_cons_of_mem _ he)

/-- **`unmarshal_is_tree`**, on the model's entry point: if every node below the schema read back exists (no `null`
    element of a schema list / map was decoded into a nil pointer) and the store is smaller than the nil id,
    checkStructure accepts the schema read back, and every schema it registers is a new node -/
theorem unmarshal_checkStructure (j : Json) (st : Store) (id : NodeId) (st' : Store) (p : String) (d : Nat)
    (h : unmarshal j st = .ok (id, st')) (hfull : Full st' d id) (hsz : st'.size ≤ nilId) :
    ∃ f fresh, checkStructure st' f [(id, p)] [] = .ok fresh ∧ InIv st.size st'.size fresh := by
  obtain ⟨_, D, ⟨f, hf⟩, hi⟩ := unmarshalFuel_tree (j.size + 1) j st id st' p h
  exact ⟨f, D, cs_unpatch hsz f _ _ _ (fun e he => by
    rw [List.mem_singleton] at he
    subst he
    exact ⟨d, hfull⟩) hf, hi⟩

end UTree
end Go
end JSV
