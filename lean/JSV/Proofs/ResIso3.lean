/-
  Resolve commutes with a renaming of schema node ids (part 3: the node relations of C20 / C05 are `RNode`; the
  one-to-one relation between two trees that look alike).
-/
import JSV.Proofs.ResIso2
import JSV.Proofs.MshTree
namespace JSV
namespace Go
namespace RIso
open RInv

/-! ### from `NodeRel` (a shallow copy with related schema-valued fields) to `RNode` -/

theorem listRel_flatMap {α β γ δ} {S : α → β → Prop} {T : γ → δ → Prop} {f : α → List γ} {g : β → List δ}
    (hfg : ∀ a b, S a b → ListRel T (f a) (g b)) : ∀ {l₁ l₂}, ListRel S l₁ l₂ → ListRel T (l₁.flatMap f) (l₂.flatMap g)
  | _, _, .nil => .nil
  | _, _, .cons h1 h2 => by
    rw [List.flatMap_cons, List.flatMap_cons]
    exact listRel_append (hfg _ _ h1) (listRel_flatMap hfg h2)

theorem listRel_zipIdx {R : NodeId → NodeId → Prop} : ∀ {l₁ l₂ : List NodeId}, ListRel R l₁ l₂ → ∀ k : Nat,
    ListRel (fun p q => R p.1 q.1 ∧ p.2 = q.2) (l₁.zipIdx k) (l₂.zipIdx k)
  | _, _, .nil, _ => .nil
  | _, _, .cons h1 h2, k => by
    rw [List.zipIdx_cons, List.zipIdx_cons]
    exact .cons ⟨h1, rfl⟩ (listRel_zipIdx h2 (k + 1))

theorem sortByKey_rel {R : NodeId → NodeId → Prop} {l l' : List (String × NodeId)} (h : ListRel (KeyRel R) l l') :
    ListRel (KeyRel R) (sortByKey l) (sortByKey l') := by
  rw [RPerm.sortByKey_eq_sortKV, RPerm.sortByKey_eq_sortKV]
  exact sortKV_rel h

theorem optRel_toList {R : NodeId → NodeId → Prop} : ∀ {c c' : Option NodeId}, OptRel R c c' →
    ListRel R c.toList c'.toList
  | none, none, _ => .nil
  | some _, some _, h => .cons h .nil
  | none, some _, h => h.elim
  | some _, none, h => h.elim

theorem children_fieldRel {R : NodeId → NodeId → Prop} {n n' : Node}
    (h : ListRel (FieldRel R) n.childFields n'.childFields) : ListRel R n.children n'.children := by
  unfold Node.children
  refine listRel_flatMap (fun f f' hf => ?_) h
  cases hf with
  | one hr => exact optRel_toList hr
  | many hr => exact getD_rel hr
  | keyed hr => exact ListRel.map_snd (sortByKey_rel (getD_rel hr))

theorem entries_fieldRel {R : NodeId → NodeId → Prop} {n n' : Node}
    (h : ListRel (FieldRel R) n.childFields n'.childFields) (path : String) :
    ListRel (EntRel R) (childEntries n path) (childEntries n' path) := by
  unfold childEntries
  refine listRel_flatMap (fun f f' hf => ?_) h
  cases hf with
  | one hr =>
    rename_i k c c'
    cases c with
    | none =>
      cases c' with
      | none => exact .nil
      | some _ => exact hr.elim
    | some x =>
      cases c' with
      | none => exact hr.elim
      | some y => exact .cons ⟨hr, rfl⟩ .nil
  | many hr =>
    refine listRel_map (fun p q hpq => ?_) (listRel_zipIdx (getD_rel hr) 0)
    obtain ⟨c, i⟩ := p
    obtain ⟨c', i'⟩ := q
    obtain ⟨h1, h2⟩ := hpq
    dsimp only at h1 h2 ⊢
    subst h2
    exact ⟨h1, rfl⟩
  | keyed hr =>
    refine listRel_map (fun p q hpq => ?_) (getD_rel hr)
    obtain ⟨k, c⟩ := p
    obtain ⟨k', c'⟩ := q
    obtain ⟨h1, h2⟩ := hpq
    dsimp only at h1 h2 ⊢
    subst h1
    exact ⟨h2, rfl⟩

theorem find_field_rel {R : NodeId → NodeId → Prop} (name : String) : ∀ {fs fs' : List ChildField},
    ListRel (FieldRel R) fs fs' →
      OptRel (FieldRel R)
        (fs.find? fun f => match f with
          | .one j _ => j == name | .many j _ => j == name | .keyed j _ => j == name)
        (fs'.find? fun f => match f with
          | .one j _ => j == name | .many j _ => j == name | .keyed j _ => j == name)
  | _, _, .nil => trivial
  | _, _, .cons (a := f) (b := f') h1 h2 => by
    rw [List.find?_cons, List.find?_cons]
    cases h1 with
    | one hr =>
      dsimp only
      split
      · exact .one hr
      · exact find_field_rel name h2
    | many hr =>
      dsimp only
      split
      · exact .many hr
      · exact find_field_rel name h2
    | keyed hr =>
      dsimp only
      split
      · exact .keyed hr
      · exact find_field_rel name h2

theorem all_keys_rel {R : NodeId → NodeId → Prop} (p : String → Bool) : ∀ {l l' : List (String × NodeId)},
    ListRel (KeyRel R) l l' → (l.all fun x => p x.1) = (l'.all fun x => p x.1)
  | _, _, .nil => rfl
  | _, _, .cons (a := a) (b := b) h1 h2 => by
    have hk : a.1 = b.1 := h1.1
    simp only [List.all_cons, hk, all_keys_rel p h2]

/-- checkLocal reads the environment through `reOk` only -/
theorem checkLocalOk_reOk {env₁ env₂ : Env} (hre : env₁.reOk = env₂.reOk) (n : Node) :
    checkLocalOk env₁ n = checkLocalOk env₂ n := by
  unfold checkLocalOk
  rw [hre]

/-- checkLocal sees only the shape and the keys of the schema-valued fields -/
theorem checkLocalOk_nodeRel {R : NodeId → NodeId → Prop} (env : Env) {n n' : Node} (h : NodeRel R n n') :
    checkLocalOk env n' = checkLocalOk env n := by
  obtain ⟨fs', hrel, rfl⟩ := h
  have hbc : basicChecksOk (setChildFields n fs') = basicChecksOk n := marshalChecksOk_congr hrel
  obtain ⟨c0, c1, c2, c3, c4, c5, c6, c7, c8, c9, c10, c11, c12, c13, c14, c15, c16, c17, c18, c19, c20, c21, c22, rfl,
    r0, r1, r2, r3, r4, r5, r6, r7, r8, r9, r10, r11, r12, r13, r14, r15, r16, r17, r18, r19, r20, r21, r22⟩ :=
    childFields_inv hrel
  unfold checkLocalOk
  rw [hbc]
  congr 1
  exact (all_keys_rel (fun k => env.reOk k) (getD_rel r16)).symm

theorem field_nodeRel {R : NodeId → NodeId → Prop} {st₁ st₂ : Store} (hnil₁ : st₁.get? 1000000000 = none)
    (hnil₂ : st₂.get? 1000000000 = none) {n n' : Node} (h : NodeRel R n n') (name : String) :
    OptRel (CurRel R st₁ st₂) (Pointer.lookupField n name) (Pointer.lookupField n' name) := by
  obtain ⟨fs', hrel, rfl⟩ := h
  have hcf : (setChildFields n fs').childFields = fs' := childFields_set hrel
  have hfind := find_field_rel name hrel
  rw [← hcf] at hfind
  obtain ⟨c0, c1, c2, c3, c4, c5, c6, c7, c8, c9, c10, c11, c12, c13, c14, c15, c16, c17, c18, c19, c20, c21, c22, rfl,
    r0, r1, r2, r3, r4, r5, r6, r7, r8, r9, r10, r11, r12, r13, r14, r15, r16, r17, r18, r19, r20, r21, r22⟩ :=
    childFields_inv hrel
  unfold Pointer.lookupField
  by_cases c1' : (name == "type") = true
  · simp only [c1', if_true]; trivial
  · simp only [c1']
    by_cases c2' : (name == "items") = true
    · simp only [c2', if_true]
      show OptRel _ (match n.items with
        | some c => some (Pointer.Cursor.node c)
        | none => some (.nodes (n.itemsArray.getD [])))
        (match c12 with
        | some c => some (Pointer.Cursor.node c)
        | none => some (.nodes (c13.getD [])))
      cases hi : n.items with
      | none =>
        cases c12 with
        | none => exact (getD_rel r13 : ListRel R _ _)
        | some _ => rw [hi] at r12; exact r12.elim
      | some x =>
        cases c12 with
        | none => rw [hi] at r12; exact r12.elim
        | some y => rw [hi] at r12; exact Or.inl r12
    · simp only [c2']
      by_cases c3' : (name == "dependencies") = true
      · simp only [c3', if_true]
        exact fun k => lookup_rel k (getD_rel r8)
      · simp only [c3']
        generalize List.find? _ n.childFields = r at hfind
        generalize List.find? _ (Node.childFields _) = r' at hfind
        cases r with
        | none =>
          cases r' with
          | none =>
            dsimp only
            generalize (Generated.schemaFields.any fun f => f.2.2.1 == name) = bb
            cases bb <;> exact True.intro
          | some y => exact hfind.elim
        | some x =>
          cases r' with
          | none => exact hfind.elim
          | some y =>
            cases hfind with
            | one hr =>
              rename_i k c c'
              cases c with
              | none =>
                cases c' with
                | none => exact Or.inr ⟨hnil₁, hnil₂⟩
                | some _ => exact hr.elim
              | some a =>
                cases c' with
                | none => exact hr.elim
                | some b => exact Or.inl hr
            | many hr => exact (getD_rel hr : ListRel R _ _)
            | keyed hr => exact fun k => lookup_rel k (getD_rel hr)

/-- a schema object and a shallow copy of it whose schema-valued fields have the same shape with `R`-related members
    (`Go.NodeRel`: what `cloneStep` and the round trip produce) look alike to the resolver -/
theorem RNode.of_nodeRel {R : NodeId → NodeId → Prop} {env₁ env₂ : Env} (hre : env₁.reOk = env₂.reOk)
    (hnil₁ : env₁.st.get? 1000000000 = none) (hnil₂ : env₂.st.get? 1000000000 = none) {n n' : Node}
    (h : NodeRel R n n') : RNode R env₁ env₂ n n' := by
  have hf := field_nodeRel hnil₁ hnil₂ h
  have hl := checkLocalOk_nodeRel env₁ h
  obtain ⟨fs', hrel, rfl⟩ := h
  have hcf : (setChildFields n fs').childFields = fs' := childFields_set hrel
  have hrel' : ListRel (FieldRel R) n.childFields (setChildFields n fs').childFields := by rw [hcf]; exact hrel
  exact {
    id := rfl
    schema := rfl
    ref := rfl
    anchor := rfl
    dynamicAnchor := rfl
    dynamicRef := rfl
    localOk := fun h => by rw [← checkLocalOk_reOk hre, hl]; exact h
    children := children_fieldRel hrel'
    entries := entries_fieldRel hrel'
    field := hf }

/-! ### the one-to-one relation between two trees that look alike

  `S` (what `cloneFuel_sim` / the round trip give: the subtree of `b` is a copy of the subtree of `a`) is not
  one-to-one — two equal leaves are `S`-related to each other's copies.  When checkStructure accepts both roots, the
  POSITIONS at which it registers the schemas pair them one-to-one, and paired schemas have paired children. -/

/-- `S`-related ids are both nil, or hold a schema object and a shallow copy of it with `S`-related members -/
def TreeSim (S : NodeId → NodeId → Prop) (st₁ st₂ : Store) : Prop :=
  ∀ a b, S a b → OptRel (NodeRel S) (st₁.get? a) (st₂.get? b)

theorem mem_zip_append {α β} {l₁ r₁ : List α} {l₂ r₂ : List β} (h : l₁.length = l₂.length) (p : α × β) :
    p ∈ List.zip (l₁ ++ r₁) (l₂ ++ r₂) ↔ p ∈ List.zip l₁ l₂ ∨ p ∈ List.zip r₁ r₂ := by
  rw [List.zip_append h, List.mem_append]

theorem zip_biu : ∀ {l₁ l₂ : List NodeId}, l₁.Nodup → l₂.Nodup → ∀ {a b a' b' : NodeId},
    (a, b) ∈ List.zip l₁ l₂ → (a', b') ∈ List.zip l₁ l₂ → (a = a' ↔ b = b')
  | [], _, _, _, _, _, _, _, h, _ => by simp at h
  | _ :: _, [], _, _, _, _, _, _, h, _ => by simp at h
  | x :: xs, y :: ys, hn₁, hn₂, a, b, a', b', h, h' => by
    rw [List.zip_cons_cons, List.mem_cons] at h h'
    rw [List.nodup_cons] at hn₁ hn₂
    rcases h with h | h
    · rcases h' with h' | h'
      · cases h; cases h'; exact ⟨fun _ => rfl, fun _ => rfl⟩
      · cases h
        have hm := List.of_mem_zip h'
        exact ⟨fun e => absurd (e ▸ hm.1) hn₁.1, fun e => absurd (e ▸ hm.2) hn₂.1⟩
    · rcases h' with h' | h'
      · cases h'
        have hm := List.of_mem_zip h
        exact ⟨fun e => absurd (e ▸ hm.1) hn₁.1, fun e => absurd (e ▸ hm.2) hn₂.1⟩
      · exact zip_biu hn₁.2 hn₂.2 h h'

theorem NodeRel.fields {R : NodeId → NodeId → Prop} {n n' : Node} (h : NodeRel R n n') :
    ListRel (FieldRel R) n.childFields n'.childFields := by
  obtain ⟨fs', hrel, rfl⟩ := h
  rw [childFields_set hrel]
  exact hrel

theorem listRel_length {α β} {S : α → β → Prop} {l₁ : List α} {l₂ : List β} (h : ListRel S l₁ l₂) :
    l₁.length = l₂.length := h.length_eq

/-- two accepted runs of checkStructure on worklists that look alike: the entries of the worklists end up at the same
    positions of the two results, and so do the children of every pair of schemas registered at the same position -/
theorem cs_zip {S : NodeId → NodeId → Prop} {st₁ st₂ : Store} (hS : TreeSim S st₁ st₂) :
    ∀ (f₁ f₂ : Nat) (w₁ w₂ : List (NodeId × String)) (acc₁ acc₂ res₁ res₂ : List (NodeId × Info)),
      ListRel (EntRel S) w₁ w₂ → acc₁.length = acc₂.length →
      checkStructure st₁ f₁ w₁ acc₁ = .ok res₁ → checkStructure st₂ f₂ w₂ acc₂ = .ok res₂ →
      (∀ p, p ∈ List.zip (w₁.map (·.1)) (w₂.map (·.1)) → p ∈ List.zip (res₁.map (·.1)) (res₂.map (·.1))) ∧
      (∀ p, p ∈ List.zip (res₁.map (·.1)) (res₂.map (·.1)) → p ∈ List.zip (acc₁.map (·.1)) (acc₂.map (·.1)) ∨
        ∀ q, q ∈ List.zip (kids st₁ p.1) (kids st₂ p.2) → q ∈ List.zip (res₁.map (·.1)) (res₂.map (·.1))) := by
  intro f₁
  induction f₁ with
  | zero => intro f₂ w₁ w₂ acc₁ acc₂ res₁ res₂ _ _ h; rw [RPerm.cs_zero] at h; cases h
  | succ f₁ ih =>
    intro f₂ w₁ w₂ acc₁ acc₂ res₁ res₂ hw hlen h₁ h₂
    cases f₂ with
    | zero => rw [RPerm.cs_zero] at h₂; cases h₂
    | succ f₂ =>
      cases hw with
      | nil =>
        rw [RPerm.cs_nil] at h₁ h₂
        cases h₁
        cases h₂
        exact ⟨fun p hp => by simp at hp, fun p hp => Or.inl hp⟩
      | cons hh ht =>
        rename_i e₁ e₂ w₁' w₂'
        obtain ⟨a, p⟩ := e₁
        obtain ⟨b, p'⟩ := e₂
        have hp : p = p' := hh.2
        subst hp
        have hab : S a b := hh.1
        obtain ⟨n₁, hn₁, _, hrest₁⟩ := (RPerm.cs_cons_ok _ _ _ _ _ _ _).mp h₁
        obtain ⟨n₂, hn₂, _, hrest₂⟩ := (RPerm.cs_cons_ok _ _ _ _ _ _ _).mp h₂
        have hnr := hS a b hab
        rw [hn₁, hn₂] at hnr
        have hce : ListRel (EntRel S) (childEntries n₁ p) (childEntries n₂ p) := entries_fieldRel (NodeRel.fields hnr) p
        have hcelen : ((childEntries n₁ p).map (·.1)).length = ((childEntries n₂ p).map (·.1)).length := by
          rw [List.length_map, List.length_map]; exact hce.length_eq
        have hlen' : (acc₁ ++ [(a, RPerm.infoOf p)]).length = (acc₂ ++ [(b, RPerm.infoOf p)]).length := by
          rw [List.length_append, List.length_append, hlen]; rfl
        obtain ⟨A', B'⟩ := ih f₂ _ _ _ _ res₁ res₂ (listRel_append hce ht) hlen' hrest₁ hrest₂
        obtain ⟨D₁, hD₁, _⟩ := RPerm.cs_extends st₁ f₁ _ _ res₁ hrest₁
        obtain ⟨D₂, hD₂, _⟩ := RPerm.cs_extends st₂ f₂ _ _ res₂ hrest₂
        have hmlen : (acc₁.map (·.1)).length = (acc₂.map (·.1)).length := by
          rw [List.length_map, List.length_map, hlen]
        have hzacc : ∀ q, q ∈ List.zip ((acc₁ ++ [(a, RPerm.infoOf p)]).map (·.1))
            ((acc₂ ++ [(b, RPerm.infoOf p)]).map (·.1)) → q ∈ List.zip (res₁.map (·.1)) (res₂.map (·.1)) := by
          intro q hq
          have e₁ : res₁.map (·.1) = (acc₁ ++ [(a, RPerm.infoOf p)]).map (·.1) ++ D₁.map (·.1) := by
            rw [hD₁, List.map_append]
          have e₂ : res₂.map (·.1) = (acc₂ ++ [(b, RPerm.infoOf p)]).map (·.1) ++ D₂.map (·.1) := by
            rw [hD₂, List.map_append]
          rw [e₁, e₂, mem_zip_append (by rw [List.length_map, List.length_map, hlen'])]
          exact Or.inl hq
        have hself : ((a, b) : NodeId × NodeId) ∈ List.zip ((acc₁ ++ [(a, RPerm.infoOf p)]).map (·.1))
            ((acc₂ ++ [(b, RPerm.infoOf p)]).map (·.1)) := by
          rw [List.map_append, List.map_append, mem_zip_append hmlen]
          exact Or.inr (by simp)
        have hkids : ∀ q, q ∈ List.zip ((childEntries n₁ p).map (·.1)) ((childEntries n₂ p).map (·.1)) →
            q ∈ List.zip (res₁.map (·.1)) (res₂.map (·.1)) := by
          intro q hq
          apply A'
          rw [List.map_append, List.map_append, mem_zip_append hcelen]
          exact Or.inl hq
        refine ⟨?_, ?_⟩
        · intro q hq
          rw [List.map_cons, List.map_cons, List.zip_cons_cons, List.mem_cons] at hq
          rcases hq with hq | hq
          · rw [hq]; exact hzacc _ hself
          · apply A'
            rw [List.map_append, List.map_append, mem_zip_append hcelen]
            exact Or.inr hq
        · intro q hq
          rcases B' q hq with h | h
          · rw [List.map_append, List.map_append, mem_zip_append hmlen] at h
            rcases h with h | h
            · exact Or.inl h
            · have hq' : q = (a, b) := by simpa using h
              subst hq'
              refine Or.inr fun q' hq' => hkids q' ?_
              have e1 : kids st₁ a = (childEntries n₁ p).map (·.1) := by
                unfold kids; rw [hn₁]; exact childEntries_ids n₁ "" p
              have e2 : kids st₂ b = (childEntries n₂ p).map (·.1) := by
                unfold kids; rw [hn₂]; exact childEntries_ids n₂ "" p
              rw [← e1, ← e2]
              exact hq'
          · exact Or.inr h

/-! #### strengthening `NodeRel S` by the pairing of the children -/

theorem listRel_and_zip {α β} {S : α → β → Prop} {Z : α × β → Prop} : ∀ {l : List α} {l' : List β}, ListRel S l l' →
    (∀ q, q ∈ List.zip l l' → Z q) → ListRel (fun a b => S a b ∧ Z (a, b)) l l'
  | _, _, .nil, _ => .nil
  | _, _, .cons h1 h2, hz =>
    .cons ⟨h1, hz _ (by simp)⟩ (listRel_and_zip h2 fun q hq => hz q (by simp [hq]))

theorem keyed_and_zip {S : NodeId → NodeId → Prop} {Z : NodeId × NodeId → Prop} :
    ∀ {l l' : List (String × NodeId)}, ListRel (KeyRel S) l l' →
      (∀ q, q ∈ List.zip (l.map (·.2)) (l'.map (·.2)) → Z q) → ListRel (KeyRel fun a b => S a b ∧ Z (a, b)) l l'
  | _, _, .nil, _ => .nil
  | _, _, .cons h1 h2, hz =>
    .cons ⟨h1.1, h1.2, hz _ (by simp)⟩ (keyed_and_zip h2 fun q hq => hz q (by simp [hq]))

theorem optRel_and {α β} {S T : α → β → Prop} : ∀ {o : Option α} {o' : Option β}, OptRel S o o' →
    (∀ a b, o = some a → o' = some b → T a b) → OptRel (fun a b => S a b ∧ T a b) o o'
  | none, none, _, _ => trivial
  | some a, some b, h, ht => ⟨h, ht a b rfl rfl⟩
  | none, some _, h, _ => h.elim
  | some _, none, h, _ => h.elim

theorem fieldRel_and_zip {S : NodeId → NodeId → Prop} {Z : NodeId × NodeId → Prop} : ∀ {f f' : ChildField},
    FieldRel S f f' → (∀ q, q ∈ List.zip f.ids f'.ids → Z q) → FieldRel (fun a b => S a b ∧ Z (a, b)) f f'
  | _, _, .one (c := c) (c' := c') hr, hz => by
    refine .one (optRel_and hr fun a b ha hb => ?_)
    subst ha; subst hb
    exact hz (a, b) (by simp [ChildField.ids])
  | _, _, .many (cs := cs) (cs' := cs') hr, hz => by
    refine .many ?_
    cases cs with
    | none =>
      cases cs' with
      | none => trivial
      | some _ => exact hr.elim
    | some l =>
      cases cs' with
      | none => exact hr.elim
      | some l' => exact listRel_and_zip (hr : ListRel S l l') hz
  | _, _, .keyed (cs := cs) (cs' := cs') hr, hz => by
    refine .keyed ?_
    cases cs with
    | none =>
      cases cs' with
      | none => trivial
      | some _ => exact hr.elim
    | some l =>
      cases cs' with
      | none => exact hr.elim
      | some l' => exact keyed_and_zip (hr : ListRel (KeyRel S) l l') hz

theorem fields_and_zip {S : NodeId → NodeId → Prop} {Z : NodeId × NodeId → Prop} : ∀ {fs fs' : List ChildField},
    ListRel (FieldRel S) fs fs' → (∀ q, q ∈ List.zip (fs.flatMap ChildField.ids) (fs'.flatMap ChildField.ids) → Z q) →
      ListRel (FieldRel fun a b => S a b ∧ Z (a, b)) fs fs'
  | _, _, .nil, _ => .nil
  | _, _, .cons (a := f) (b := f') h1 h2, hz => by
    have hl : f.ids.length = f'.ids.length := (FieldRel.ids_rel h1).length_eq
    refine .cons (fieldRel_and_zip h1 fun q hq => hz q ?_) (fields_and_zip h2 fun q hq => hz q ?_)
    · rw [List.flatMap_cons, List.flatMap_cons, mem_zip_append hl]; exact Or.inl hq
    · rw [List.flatMap_cons, List.flatMap_cons, mem_zip_append hl]; exact Or.inr hq

theorem zipIdx_map_fst' (f : NodeId × Nat → NodeId × String) (hf : ∀ p, (f p).1 = p.1) : ∀ (l : List NodeId) (k : Nat),
    ((l.zipIdx k).map f).map (·.1) = l
  | [], _ => rfl
  | x :: r, k => by
    rw [List.zipIdx_cons, List.map_cons, List.map_cons, zipIdx_map_fst' f hf r (k + 1), hf]

theorem keyed_map_fst' (f : String × NodeId → NodeId × String) (hf : ∀ p, (f p).1 = p.2) :
    ∀ (l : List (String × NodeId)), (l.map f).map (·.1) = l.map (·.2)
  | [] => rfl
  | x :: r => by
    rw [List.map_cons, List.map_cons, List.map_cons, keyed_map_fst' f hf r, hf]

theorem childEntries_fst (n : Node) (path : String) :
    (childEntries n path).map (·.1) = n.childFields.flatMap ChildField.ids := by
  unfold childEntries
  rw [List.map_flatMap]
  congr 1
  funext f
  cases f with
  | one j x => cases x <;> rfl
  | many j x => exact zipIdx_map_fst' _ (fun p => by obtain ⟨c, i⟩ := p; rfl) _ 0
  | keyed j x => exact keyed_map_fst' _ (fun p => by obtain ⟨k, c⟩ := p; rfl) _

theorem NodeRel.and_zip {S : NodeId → NodeId → Prop} {Z : NodeId × NodeId → Prop} {n n' : Node} (h : NodeRel S n n')
    (hz : ∀ q, q ∈ List.zip ((childEntries n "").map (·.1)) ((childEntries n' "").map (·.1)) → Z q) :
    NodeRel (fun a b => S a b ∧ Z (a, b)) n n' := by
  have hf := NodeRel.fields h
  obtain ⟨fs', hrel, rfl⟩ := h
  have hcf : (setChildFields n fs').childFields = fs' := childFields_set hrel
  rw [childEntries_fst, childEntries_fst] at hz
  rw [hcf] at hz hf
  exact ⟨fs', fields_and_zip hf hz, rfl⟩

/-- no Loader, or a Loader that hands out no document (it may fail, or return nil): the resolution is self-contained -/
def NoDocs (env : Env) : Prop := ∀ t key l, env.loader = some t → Json.lookup key t ≠ some (.doc l)

/-- the pairing of two accepted trees that look alike: `S`-related schemas registered by checkStructure at the same
    position -/
def PairR (S : NodeId → NodeId → Prop) (fresh₁ fresh₂ : List (NodeId × Info)) (a b : NodeId) : Prop :=
  S a b ∧ (a, b) ∈ List.zip (fresh₁.map (·.1)) (fresh₂.map (·.1))

section
variable {S : NodeId → NodeId → Prop} {st₁ st₂ : Store} (hS : TreeSim S st₁ st₂) {r₁ r₂ : NodeId} (hr : S r₁ r₂)
  {f₁ f₂ : Nat} {fresh₁ fresh₂ : List (NodeId × Info)}
  (hcs₁ : checkStructure st₁ f₁ [(r₁, "")] [] = .ok fresh₁) (hcs₂ : checkStructure st₂ f₂ [(r₂, "")] [] = .ok fresh₂)
include hS hr hcs₁ hcs₂

theorem pairR_root : PairR S fresh₁ fresh₂ r₁ r₂ :=
  ⟨hr, (cs_zip hS f₁ f₂ [(r₁, "")] [(r₂, "")] [] [] fresh₁ fresh₂ (.cons ⟨hr, rfl⟩ .nil) rfl hcs₁ hcs₂).1 _
    (by simp)⟩

omit hS hr in
theorem pairR_biu : BiU (PairR S fresh₁ fresh₂) := by
  have hnd₁ : (fresh₁.map (·.1)).Nodup := checkStructure_nodup st₁ _ _ _ _ hcs₁ (by simp [ids])
  have hnd₂ : (fresh₂.map (·.1)).Nodup := checkStructure_nodup st₂ _ _ _ _ hcs₂ (by simp [ids])
  intro a b a' b' h h'
  exact zip_biu hnd₁ hnd₂ h.2 h'.2

/-- paired schemas hold a schema object and a shallow copy of it with PAIRED members -/
theorem pairR_nodeRel : ∀ a b, PairR S fresh₁ fresh₂ a b →
    OptRel (NodeRel (PairR S fresh₁ fresh₂)) (st₁.get? a) (st₂.get? b) := by
  obtain ⟨_, B⟩ := cs_zip hS f₁ f₂ [(r₁, "")] [(r₂, "")] [] [] fresh₁ fresh₂ (.cons ⟨hr, rfl⟩ .nil) rfl hcs₁ hcs₂
  intro a b hab
  have hnr := hS a b hab.1
  cases hn₁ : st₁.get? a with
  | none =>
    cases hn₂ : st₂.get? b with
    | none => trivial
    | some _ => rw [hn₁, hn₂] at hnr; exact hnr.elim
  | some n₁ =>
    cases hn₂ : st₂.get? b with
    | none => rw [hn₁, hn₂] at hnr; exact hnr.elim
    | some n₂ =>
      rw [hn₁, hn₂] at hnr
      rcases B _ hab.2 with h | h
      · simp at h
      · have e1 : kids st₁ a = (childEntries n₁ "").map (·.1) := by unfold kids; rw [hn₁]
        have e2 : kids st₂ b = (childEntries n₂ "").map (·.1) := by unfold kids; rw [hn₂]
        rw [e1, e2] at h
        exact NodeRel.and_zip (Z := fun q => q ∈ List.zip (fresh₁.map (·.1)) (fresh₂.map (·.1))) hnr h

end

/-- **two trees that look alike correspond one-to-one.**  If `S` relates the two stores structurally (`TreeSim`) and
    checkStructure accepts both roots, then the pairing `PairR` is a simulation of resolver environments (`EnvRel`)
    — for a self-contained resolution: the same Loader on both sides, handing out no document. -/
theorem envRel_of_trees {S : NodeId → NodeId → Prop} {env₁ env₂ : Env} (hS : TreeSim S env₁.st env₂.st)
    (hre : env₁.reOk = env₂.reOk) (hd7 : env₁.draft7URIs = env₂.draft7URIs) (hl : env₂.loader = env₁.loader)
    (hnd : NoDocs env₁) (hnil₁ : env₁.st.get? 1000000000 = none) (hnil₂ : env₂.st.get? 1000000000 = none)
    {r₁ r₂ : NodeId} (hr : S r₁ r₂) {f₁ f₂ : Nat} {fresh₁ fresh₂ : List (NodeId × Info)}
    (hcs₁ : checkStructure env₁.st f₁ [(r₁, "")] [] = .ok fresh₁)
    (hcs₂ : checkStructure env₂.st f₂ [(r₂, "")] [] = .ok fresh₂) :
    EnvRel (PairR S fresh₁ fresh₂) env₁ env₂ := by
  refine ⟨pairR_biu hcs₁ hcs₂, ?_, ?_, hd7⟩
  · intro a b hab
    have hnr := pairR_nodeRel hS hr hcs₁ hcs₂ a b hab
    cases hn₁ : env₁.st.get? a with
    | none =>
      cases hn₂ : env₂.st.get? b with
      | none => trivial
      | some _ => rw [hn₁, hn₂] at hnr; exact hnr.elim
    | some n₁ =>
      cases hn₂ : env₂.st.get? b with
      | none => rw [hn₁, hn₂] at hnr; exact hnr.elim
      | some n₂ =>
        rw [hn₁, hn₂] at hnr
        exact RNode.of_nodeRel hre hnil₁ hnil₂ hnr
  · intro t₁ ht₁
    exact ⟨t₁, by rw [hl, ht₁], fun key l₁ hk => absurd hk (hnd t₁ key l₁ ht₁)⟩

end RIso
end Go
end JSV
