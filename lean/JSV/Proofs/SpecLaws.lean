/-
  Algebraic laws of the validity relation (`Spec.evalFuel`): helper lemmas.
  The theorems themselves are in `Props/C01.lean` (validity), `Props/C07.lean` (annotations), `Props/C02.lean` (draft-07).

  A law speaks of the CONTENT of a schema object: `Laws.keywords n` is the node with everything the validity relation
  never reads (`$id`, `$schema`, `$anchor`, `$defs`, `title`, `default`, `format`, …) erased, so that
  `keywords n = { allOf := some [t] }` says "the only validation keyword of `n` is `allOf: [t]`".

  Parts: this file (absent keywords, schema objects with one keyword, transfer to the evaluator); SpecLawsCongr
  (replacing the content of one schema object by an equivalent one, anywhere in a schema); SpecLawsScope (the dynamic
  scope); SpecLawsSplit (adjacent keywords are a conjunction); SpecLawsLoc (instance locations).
-/
import JSV.Proofs.InvPerm5
import JSV.Proofs.Refine
namespace JSV
namespace Laws
open Go GoVal Refine _root_.JSV.Inv
set_option linter.unusedSimpArgs false

/-! ## the keywords of a schema object -/

/-- the node with every field that `Spec.evalStep` does not read reset to its default -/
def keywords (n : Node) : Node :=
  { ref := n.ref, dynamicRef := n.dynamicRef,
    dependencySchemas := n.dependencySchemas, dependencyStrings := n.dependencyStrings,
    type := n.type, types := n.types, enum := n.enum, const := n.const,
    multipleOf := n.multipleOf, minimum := n.minimum, maximum := n.maximum,
    exclusiveMinimum := n.exclusiveMinimum, exclusiveMaximum := n.exclusiveMaximum,
    minLength := n.minLength, maxLength := n.maxLength, pattern := n.pattern,
    prefixItems := n.prefixItems, items := n.items, itemsArray := n.itemsArray,
    minItems := n.minItems, maxItems := n.maxItems, additionalItems := n.additionalItems,
    uniqueItems := n.uniqueItems, contains := n.contains, minContains := n.minContains, maxContains := n.maxContains,
    unevaluatedItems := n.unevaluatedItems,
    minProperties := n.minProperties, maxProperties := n.maxProperties, required := n.required,
    dependentRequired := n.dependentRequired, properties := n.properties, patternProperties := n.patternProperties,
    additionalProperties := n.additionalProperties, propertyNames := n.propertyNames,
    unevaluatedProperties := n.unevaluatedProperties,
    allOf := n.allOf, anyOf := n.anyOf, oneOf := n.oneOf, not := n.not,
    if_ := n.if_, then_ := n.then_, else_ := n.else_, dependentSchemas := n.dependentSchemas }

/-- the Spec reads a schema object through its keywords only -/
theorem specBody_keywords (env : Spec.Env) (rec : Spec.Rec) (scope : List NodeId) (s : NodeId) (j : Json) (n : Node) :
    specBody env rec scope s j (keywords n) = specBody env rec scope s j n := rfl

theorem keywords_idem (n : Node) : keywords (keywords n) = keywords n := rfl

/-- one unit of fuel at a schema object of the store -/
theorem evalFuel_succ (env : Spec.Env) (fuel : Nat) (scope : List NodeId) (s : NodeId) (j : Json) (n : Node)
    (hn : env.st.get? s = some n) :
    Spec.evalFuel env (fuel + 1) scope s j = specBody env (Spec.evalFuel env fuel) scope s j (keywords n) := by
  show Spec.evalStep env (Spec.evalFuel env fuel) scope s j = _
  rw [evalStep_unfold, hn, specBody_keywords]

/-- … of which only the keywords matter -/
theorem evalFuel_succ_of (env : Spec.Env) (fuel : Nat) (scope : List NodeId) (s : NodeId) (j : Json) (n k : Node)
    (hn : env.st.get? s = some n) (hk : keywords n = k) :
    Spec.evalFuel env (fuel + 1) scope s j = specBody env (Spec.evalFuel env fuel) scope s j k := by
  rw [evalFuel_succ env fuel scope s j n hn, hk]

/-! ## absent keywords -/

section absent
variable (env : Spec.Env) (sub : NodeId → Json → Spec.Out) (n : Node) (j : Json)

theorem kwRef_absent (s : NodeId) (h : n.ref = "") : Spec.kwRef env sub s n j = some (some {}) := by
  simp [Spec.kwRef, Spec.inPlace, h]

theorem kwDynamicRef_absent (scope : List NodeId) (s : NodeId) (h : n.dynamicRef = "") :
    Spec.kwDynamicRef env sub scope s n j = some (some {}) := by
  simp [Spec.kwDynamicRef, h]

theorem vocab_dynamicRef_absent (d : Draft) (h : n.dynamicRef = "") : (Spec.vocab d n).dynamicRef = "" := by
  cases d <;> simp [Spec.vocab, h]

theorem kwDynamicRef_vocab_absent (d : Draft) (scope : List NodeId) (s : NodeId) (h : n.dynamicRef = "") :
    Spec.kwDynamicRef env sub scope s (Spec.vocab d n) j = some (some {}) :=
  kwDynamicRef_absent env sub (Spec.vocab d n) j scope s (vocab_dynamicRef_absent n d h)

theorem kwAllOf_absent (h : n.allOf = none) : Spec.kwAllOf sub n j = some (some {}) := by
  simp [Spec.kwAllOf, h]

theorem kwAnyOf_absent (h : n.anyOf = none) : Spec.kwAnyOf sub n j = some (some {}) := by
  simp [Spec.kwAnyOf, h]

theorem kwOneOf_absent (h : n.oneOf = none) : Spec.kwOneOf sub n j = some (some {}) := by
  simp [Spec.kwOneOf, h]

theorem kwNot_absent (h : n.not = none) : Spec.kwNot sub n j = some (some {}) := by
  simp [Spec.kwNot, h]

theorem kwIf_absent (h : n.if_ = none) : Spec.kwIf sub n j = some (some {}) := by
  simp [Spec.kwIf, h]

theorem arrayShape_absent (h1 : n.prefixItems = none) (h2 : n.items = none) (h3 : n.itemsArray = none) :
    Spec.arrayShape env n = ([], none) := by
  unfold Spec.arrayShape
  cases env.draft <;> simp [h1, h2, h3]

theorem kwItems_absent (h1 : n.prefixItems = none) (h2 : n.items = none) (h3 : n.itemsArray = none) :
    Spec.kwItems env sub n j = some (some {}) := by
  unfold Spec.kwItems
  cases j <;> simp [arrayShape_absent env n h1 h2 h3, Spec.sequence, Spec.allHold, Spec.indices]

theorem kwContains_absent (h : n.contains = none) : Spec.kwContains sub n j = some (some {}) := by
  unfold Spec.kwContains
  cases j <;> simp [h]

theorem kwContains_vocab_absent (d : Draft) (h : n.contains = none) :
    Spec.kwContains sub (Spec.vocab d n) j = some (some {}) := kwContains_absent sub (Spec.vocab d n) j h

theorem filterMap_none {α β : Type} (l : List α) : l.filterMap (fun _ => (none : Option β)) = [] := by
  induction l <;> simp_all

theorem flatMap_nil_fun {α β : Type} (l : List α) : l.flatMap (fun _ => ([] : List β)) = [] := by
  induction l <;> simp_all

theorem kwProps_absent (h1 : n.properties = none) (h2 : n.patternProperties = none)
    (h3 : n.additionalProperties = none) : Spec.kwProps env sub n j = some (some {}) := by
  unfold Spec.kwProps
  cases j <;> simp [h1, h2, h3, Spec.sequence, Spec.allHold, filterMap_none, flatMap_nil_fun]

theorem kwPropertyNames_absent (h : n.propertyNames = none) : Spec.kwPropertyNames sub n j = some (some {}) := by
  unfold Spec.kwPropertyNames
  cases j <;> simp [h]

theorem kwDependentSchemas_absent (h1 : n.dependencySchemas = none) (h2 : n.dependentSchemas = none) :
    Spec.kwDependentSchemas env sub n j = some (some {}) := by
  unfold Spec.kwDependentSchemas
  cases j <;> cases env.draft <;> simp [h1, h2, Spec.sequence, Spec.conj, Spec.Ev.unions]

theorem kwUnevaluatedItems_absent (ev : Spec.Ev) (h : n.unevaluatedItems = none) :
    Spec.kwUnevaluatedItems sub n j ev = some (some {}) := by
  unfold Spec.kwUnevaluatedItems
  cases j <;> simp [h]

theorem kwUnevaluatedProps_absent (ev : Spec.Ev) (h : n.unevaluatedProperties = none) :
    Spec.kwUnevaluatedProps sub n j ev = some (some {}) := by
  unfold Spec.kwUnevaluatedProps
  cases j <;> simp [h]

theorem typeOk_absent (h1 : n.type = "") (h2 : n.types = none) : Spec.typeOk n j = true := by
  simp [Spec.typeOk, h1, h2]

theorem enumOk_absent (h : n.enum = none) : Spec.enumOk n j = true := by simp [Spec.enumOk, h]

theorem constOk_absent (h : n.const = none) : Spec.constOk n j = true := by simp [Spec.constOk, h]

theorem numericOk_absent (h1 : n.multipleOf = none) (h2 : n.minimum = none) (h3 : n.maximum = none)
    (h4 : n.exclusiveMinimum = none) (h5 : n.exclusiveMaximum = none) : Spec.numericOk n j = true := by
  unfold Spec.numericOk
  cases j <;> simp [h1, h2, h3, h4, h5]

theorem stringOk_absent (h1 : n.minLength = none) (h2 : n.maxLength = none) (h3 : n.pattern = "") :
    Spec.stringOk env n j = true := by
  unfold Spec.stringOk
  cases j <;> simp [h1, h2, h3]

theorem arrayLimitsOk_absent (h1 : n.minItems = none) (h2 : n.maxItems = none) (h3 : n.uniqueItems = false) :
    Spec.arrayLimitsOk n j = true := by
  unfold Spec.arrayLimitsOk
  cases j <;> simp [h1, h2, h3]

theorem objectLimitsOk_absent (h1 : n.minProperties = none) (h2 : n.maxProperties = none) (h3 : n.required = none)
    (h4 : n.dependencyStrings = none) (h5 : n.dependentRequired = none) : Spec.objectLimitsOk env n j = true := by
  unfold Spec.objectLimitsOk
  cases j <;> cases env.draft <;> simp [h1, h2, h3, h4, h5]

end absent

/-- the schema object has no assertion keyword (`type`, `enum`, `const`, the numeric, string, array and object limits) -/
structure NoAsserts (n : Node) : Prop where
  type : n.type = ""
  types : n.types = none
  enum : n.enum = none
  const : n.const = none
  multipleOf : n.multipleOf = none
  minimum : n.minimum = none
  maximum : n.maximum = none
  exclusiveMinimum : n.exclusiveMinimum = none
  exclusiveMaximum : n.exclusiveMaximum = none
  minLength : n.minLength = none
  maxLength : n.maxLength = none
  pattern : n.pattern = ""
  minItems : n.minItems = none
  maxItems : n.maxItems = none
  uniqueItems : n.uniqueItems = false
  minProperties : n.minProperties = none
  maxProperties : n.maxProperties = none
  required : n.required = none
  dependencyStrings : n.dependencyStrings = none
  dependentRequired : n.dependentRequired = none

/-- … and neither `unevaluatedItems` nor `unevaluatedProperties` -/
structure NoUneval (n : Node) : Prop where
  items : n.unevaluatedItems = none
  props : n.unevaluatedProperties = none

/-- blanking the keywords of later drafts keeps that -/
theorem NoUneval.vocab {n : Node} (h : NoUneval n) (d : Draft) : NoUneval (Spec.vocab d n) :=
  ⟨by simp [Spec.vocab, h.items], by simp [Spec.vocab, h.props]⟩

theorem assertsOf_absent (env : Spec.Env) (n : Node) (j : Json) (h : NoAsserts n) : assertsOf env n j = true := by
  unfold assertsOf
  rw [typeOk_absent n j h.type h.types, enumOk_absent n j h.enum, constOk_absent n j h.const,
    numericOk_absent n j h.multipleOf h.minimum h.maximum h.exclusiveMinimum h.exclusiveMaximum,
    stringOk_absent env n j h.minLength h.maxLength h.pattern,
    arrayLimitsOk_absent n j h.minItems h.maxItems h.uniqueItems,
    objectLimitsOk_absent env n j h.minProperties h.maxProperties h.required h.dependencyStrings h.dependentRequired]
  rfl

/-! ## conjunction of two outcomes -/

/-- both defined, and then the conjunction (evaluated sets united) -/
def oconj2 (a b : Spec.Out) : Spec.Out :=
  match a, b with
  | some r1, some r2 => some (conj2 r1 r2)
  | _, _ => none

theorem union_empty_right (e : Spec.Ev) : e.union {} = e := by simp [Spec.Ev.union]

@[simp] theorem conj2_empty_left (r : Spec.R) : conj2 (some {}) r = r := by
  cases r <;> simp [conj2, union_empty_left]

@[simp] theorem conj2_empty_right (r : Spec.R) : conj2 r (some {}) = r := by
  cases r <;> simp [conj2, union_empty_right]

@[simp] theorem oconj2_empty_left (a : Spec.Out) : oconj2 (some (some {})) a = a := by
  cases a <;> simp [oconj2]

@[simp] theorem oconj2_empty_right (a : Spec.Out) : oconj2 a (some (some {})) = a := by
  cases a <;> simp [oconj2]

@[simp] theorem oconj2_none_left (a : Spec.Out) : oconj2 none a = none := rfl
@[simp] theorem oconj2_none_right (a : Spec.Out) : oconj2 a none = none := by cases a <;> rfl
@[simp] theorem oconj2_some (r1 r2 : Spec.R) : oconj2 (some r1) (some r2) = some (conj2 r1 r2) := rfl

/-- all defined, and then their conjunction -/
def seqConj (l : List Spec.Out) : Spec.Out := (Spec.sequence l).map Spec.conj

@[simp] theorem seqConj_nil : seqConj [] = some (some {}) := rfl

@[simp] theorem seqConj_cons (a : Spec.Out) (l : List Spec.Out) : seqConj (a :: l) = oconj2 a (seqConj l) := by
  unfold seqConj
  cases a with
  | none => simp [Spec.sequence]
  | some r =>
    cases h : Spec.sequence l with
    | none => simp [Spec.sequence, h]
    | some rs => simp [Spec.sequence, h, conj_cons]

/-- a schema object without assertion keywords and without `unevaluated*` (and, under draft-07, without `$ref`): it
    is valid iff its twelve applicator keywords are, and evaluates their union -/
theorem specBody_plain (env : Spec.Env) (rec : Spec.Rec) (scope : List NodeId) (s : NodeId) (j : Json) (n : Node)
    (ha : NoAsserts n) (hu : NoUneval n) (h7 : (env.draft == .d7 && n.ref != "") = false) :
    specBody env rec scope s j n = seqConj (kwList env rec scope s j n) := by
  unfold specBody seqConj
  rw [h7]
  simp only [Bool.false_eq_true, if_false]
  have e1 : Spec.kwUnevaluatedItems (rec (scope ++ [s])) (Spec.vocab env.draft n) j = fun _ => some (some {}) :=
    funext fun ev => kwUnevaluatedItems_absent _ _ j ev (hu.vocab _).items
  have e2 : Spec.kwUnevaluatedProps (rec (scope ++ [s])) (Spec.vocab env.draft n) j = fun _ => some (some {}) :=
    funext fun ev => kwUnevaluatedProps_absent _ _ j ev (hu.vocab _).props
  rw [e1, e2, assertsOf_absent env n j ha]
  cases Spec.sequence (kwList env rec scope s j n) with
  | none => rfl
  | some rs =>
    simp only [specTail, Option.map_some]
    cases Spec.conj rs with
    | none => rfl
    | some ev0 => simp [conj_cons, conj_nil]

/-! ## schema objects with one applicator keyword -/

/-- reduce `specBody` of a literal node without assertion keywords / `unevaluated*` to its one applicator keyword -/
macro "plain_node" : tactic => `(tactic| (
  rw [specBody_plain _ _ _ _ _ _ (by constructor <;> rfl) (by constructor <;> rfl) (by simp)]
  simp [kwList, kwRef_absent, kwDynamicRef_absent, kwDynamicRef_vocab_absent, kwAllOf_absent, kwAnyOf_absent, kwOneOf_absent, kwNot_absent,
    kwIf_absent, kwItems_absent, kwContains_absent, kwContains_vocab_absent, kwProps_absent, kwPropertyNames_absent, kwDependentSchemas_absent]))

section
variable (env : Spec.Env) (rec : Spec.Rec) (scope : List NodeId) (s : NodeId) (j : Json)

theorem specBody_empty : specBody env rec scope s j {} = some (some {}) := by plain_node

theorem specBody_allOf (ss : List NodeId) :
    specBody env rec scope s j { allOf := some ss } = Spec.kwAllOf (rec (scope ++ [s])) { allOf := some ss } j := by
  plain_node

theorem specBody_anyOf (ss : List NodeId) :
    specBody env rec scope s j { anyOf := some ss } = Spec.kwAnyOf (rec (scope ++ [s])) { anyOf := some ss } j := by
  plain_node

theorem specBody_oneOf (ss : List NodeId) :
    specBody env rec scope s j { oneOf := some ss } = Spec.kwOneOf (rec (scope ++ [s])) { oneOf := some ss } j := by
  plain_node

theorem specBody_not (t : NodeId) :
    specBody env rec scope s j { not := some t } = Spec.kwNot (rec (scope ++ [s])) { not := some t } j := by
  plain_node

theorem specBody_if (c : NodeId) (t e : Option NodeId) :
    specBody env rec scope s j { if_ := some c, then_ := t, else_ := e }
      = Spec.kwIf (rec (scope ++ [s])) { if_ := some c, then_ := t, else_ := e } j := by
  plain_node

theorem specBody_ref (r : String) (hd : env.draft = .d2020) :
    specBody env rec scope s j { ref := r } = Spec.kwRef env (rec (scope ++ [s])) s { ref := r } j := by
  rw [specBody_plain _ _ _ _ _ _ (by constructor <;> rfl) (by constructor <;> rfl) (by simp [hd])]
  simp [kwList, kwDynamicRef_absent, kwDynamicRef_vocab_absent, kwAllOf_absent, kwAnyOf_absent, kwOneOf_absent, kwNot_absent,
    kwIf_absent, kwItems_absent, kwContains_absent, kwContains_vocab_absent, kwProps_absent, kwPropertyNames_absent, kwDependentSchemas_absent]

theorem specBody_props (ps pp : Option (List (String × NodeId))) (ap : Option NodeId) :
    specBody env rec scope s j { properties := ps, patternProperties := pp, additionalProperties := ap }
      = Spec.kwProps env (rec (scope ++ [s])) { properties := ps, patternProperties := pp, additionalProperties := ap } j := by
  plain_node
end

/-! ## the in-place applicators on short lists -/

section kw
variable (sub : NodeId → Json → Spec.Out) (n : Node) (j : Json)

theorem kwAllOf_single (t : NodeId) (h : n.allOf = some [t]) : Spec.kwAllOf sub n j = sub t j := by
  have : Spec.kwAllOf sub n j = seqConj [sub t j] := by simp [Spec.kwAllOf, h, seqConj]
  rw [this]; simp

/-- two branches: the conjunction of their outcomes -/
theorem kwAllOf_pair (t1 t2 : NodeId) (h : n.allOf = some [t1, t2]) :
    Spec.kwAllOf sub n j = oconj2 (sub t1 j) (sub t2 j) := by
  have : Spec.kwAllOf sub n j = seqConj [sub t1 j, sub t2 j] := by simp [Spec.kwAllOf, h, seqConj]
  rw [this]; simp

theorem kwAllOf_nil (h : n.allOf = some []) : Spec.kwAllOf sub n j = some (some {}) := by
  simp [Spec.kwAllOf, h, Spec.sequence, conj_nil]

theorem kwAnyOf_single (t : NodeId) (h : n.anyOf = some [t]) : Spec.kwAnyOf sub n j = sub t j := by
  simp only [Spec.kwAnyOf, h, List.map_cons, List.map_nil]
  cases sub t j with
  | none => rfl
  | some r => cases r <;> simp [Spec.sequence, Spec.validCount, Spec.validUnion, unions_cons, unions_nil, union_empty_right]

theorem kwAnyOf_nil (h : n.anyOf = some []) : Spec.kwAnyOf sub n j = some none := by
  simp [Spec.kwAnyOf, h, Spec.sequence, Spec.validCount]

theorem kwOneOf_single (t : NodeId) (h : n.oneOf = some [t]) : Spec.kwOneOf sub n j = sub t j := by
  simp only [Spec.kwOneOf, h, List.map_cons, List.map_nil]
  cases sub t j with
  | none => rfl
  | some r => cases r <;> simp [Spec.sequence, Spec.validCount, Spec.validUnion, unions_cons, unions_nil, union_empty_right]

theorem kwOneOf_nil (h : n.oneOf = some []) : Spec.kwOneOf sub n j = some none := by
  simp [Spec.kwOneOf, h, Spec.sequence, Spec.validCount]

/-- the same branch twice: never exactly one -/
theorem kwOneOf_double (t : NodeId) (h : n.oneOf = some [t, t]) :
    Spec.kwOneOf sub n j = (sub t j).map fun _ => none := by
  simp only [Spec.kwOneOf, h, List.map_cons, List.map_nil]
  cases sub t j with
  | none => rfl
  | some r => cases r <;> simp [Spec.sequence, Spec.validCount]

theorem kwNot_eq (t : NodeId) (h : n.not = some t) :
    Spec.kwNot sub n j = (sub t j).map fun r => if r.isSome then none else some {} := by
  simp [Spec.kwNot, h]

end kw




/-! ## `if` / `then` / `else` -/

section kwif
variable (sub : NodeId → Json → Spec.Out) (n : Node) (j : Json) (c : NodeId)

/-- the condition holds: the conjunction of `if` and `then` -/
theorem kwIf_true (t : NodeId) (evc : Spec.Ev) (hc : n.if_ = some c) (ht : n.then_ = some t)
    (h : sub c j = some (some evc)) :
    Spec.kwIf sub n j = (sub t j).map fun rt => rt.map fun evt => evc.union evt := by
  simp [Spec.kwIf, hc, ht, h]

/-- the condition fails: `else` (nothing of `if` is kept) -/
theorem kwIf_false (e : NodeId) (hc : n.if_ = some c) (he : n.else_ = some e) (h : sub c j = some none) :
    Spec.kwIf sub n j = sub e j := by
  simp only [Spec.kwIf, hc, he, h, Option.isSome_none, Bool.false_eq_true, if_false, Option.getD_none]
  cases sub e j with
  | none => rfl
  | some r => cases r <;> simp [union_empty_left]

/-- no `then`: a condition that holds accepts, keeping what the condition evaluated -/
theorem kwIf_true_no_then (evc : Spec.Ev) (hc : n.if_ = some c) (ht : n.then_ = none) (h : sub c j = some (some evc)) :
    Spec.kwIf sub n j = some (some evc) := by
  simp [Spec.kwIf, hc, ht, h]

/-- no `else`: a condition that fails accepts, evaluating nothing -/
theorem kwIf_false_no_else (hc : n.if_ = some c) (he : n.else_ = none) (h : sub c j = some none) :
    Spec.kwIf sub n j = some (some {}) := by
  simp [Spec.kwIf, hc, he, h]

/-- `if` alone never rejects -/
theorem kwIf_alone (hc : n.if_ = some c) (ht : n.then_ = none) (he : n.else_ = none) :
    Spec.kwIf sub n j = (sub c j).map fun rc => some (rc.getD {}) := by
  simp only [Spec.kwIf, hc, ht, he]
  cases sub c j with
  | none => rfl
  | some rc => cases rc <;> rfl

/-- the verdict of `if c then t else e` is that of `(c ∧ t) ∨ (¬c ∧ e)` -/
theorem kwIf_verdict (t e : NodeId) (rc rt re : Spec.R) (hc : n.if_ = some c) (ht : n.then_ = some t)
    (he : n.else_ = some e) (h1 : sub c j = some rc) (h2 : sub t j = some rt) (h3 : sub e j = some re) :
    (Spec.kwIf sub n j).map (·.isSome) = some ((rc.isSome && rt.isSome) || (!rc.isSome && re.isSome)) := by
  cases rc with
  | none => rw [kwIf_false sub n j c e hc he h1, h3]; simp
  | some evc => rw [kwIf_true sub n j c t evc hc ht h1, h2]; cases rt <;> simp

end kwif

/-! ## schema objects with assertion keywords only -/

/-- no keyword that applies a subschema -/
structure NoApplicators (n : Node) : Prop where
  ref : n.ref = ""
  dynamicRef : n.dynamicRef = ""
  allOf : n.allOf = none
  anyOf : n.anyOf = none
  oneOf : n.oneOf = none
  not : n.not = none
  if_ : n.if_ = none
  prefixItems : n.prefixItems = none
  items : n.items = none
  itemsArray : n.itemsArray = none
  contains : n.contains = none
  properties : n.properties = none
  patternProperties : n.patternProperties = none
  additionalProperties : n.additionalProperties = none
  propertyNames : n.propertyNames = none
  dependencySchemas : n.dependencySchemas = none
  dependentSchemas : n.dependentSchemas = none

/-- a schema object with assertion keywords only: valid iff the assertions hold, nothing evaluated, no fuel needed
    beyond the one unit, the scope is immaterial -/
theorem specBody_assertion_node (env : Spec.Env) (rec : Spec.Rec) (scope : List NodeId) (s : NodeId) (j : Json) (n : Node)
    (hn : NoApplicators n) (hu : NoUneval n) :
    specBody env rec scope s j n = some (if assertsOf env n j = true then some {} else none) := by
  unfold specBody
  have h7 : (env.draft == .d7 && n.ref != "") = false := by simp [hn.ref]
  rw [h7]
  simp only [Bool.false_eq_true, if_false]
  have e1 : Spec.kwUnevaluatedItems (rec (scope ++ [s])) (Spec.vocab env.draft n) j = fun _ => some (some {}) :=
    funext fun ev => kwUnevaluatedItems_absent _ _ j ev (hu.vocab _).items
  have e2 : Spec.kwUnevaluatedProps (rec (scope ++ [s])) (Spec.vocab env.draft n) j = fun _ => some (some {}) :=
    funext fun ev => kwUnevaluatedProps_absent _ _ j ev (hu.vocab _).props
  have hl : Spec.sequence (kwList env rec scope s j n) = some (List.replicate 12 (some {})) := by
    simp [kwList, kwRef_absent _ _ n j s hn.ref, kwDynamicRef_vocab_absent _ _ n j _ _ s hn.dynamicRef,
      kwAllOf_absent _ n j hn.allOf, kwAnyOf_absent _ n j hn.anyOf, kwOneOf_absent _ n j hn.oneOf,
      kwNot_absent _ n j hn.not, kwIf_absent _ n j hn.if_, kwItems_absent _ _ n j hn.prefixItems hn.items hn.itemsArray,
      kwContains_absent _ (Spec.vocab env.draft n) j hn.contains,
      kwProps_absent _ _ n j hn.properties hn.patternProperties hn.additionalProperties,
      kwPropertyNames_absent _ n j hn.propertyNames,
      kwDependentSchemas_absent _ _ n j hn.dependencySchemas hn.dependentSchemas, Spec.sequence, List.replicate]
  rw [hl, e1, e2]
  have hc : Spec.conj (List.replicate 12 (some ({} : Spec.Ev))) = some {} := by
    simp [List.replicate, conj_cons, conj_nil]
  simp only [specTail, hc]
  cases assertsOf env n j <;> simp [conj_cons, conj_nil]

/-! ## transfer to the evaluator -/

/-- the stack extended by a schema object of the store still has resolution records -/
theorem stack_snoc (env : VEnv) (hwf : EnvWF env) (stack : List NodeId)
    (hstack : ∀ x, x ∈ stack → (env.info? x).isSome = true) (s : NodeId) (n : Node) (hn : env.st.get? s = some n) :
    ∀ x, x ∈ stack ++ [s] → (env.info? x).isSome = true := by
  intro x hx
  rcases List.mem_append.1 hx with h | h
  · exact hstack x h
  · have : x = s := by simpa using h
    subst this; exact hwf.info_total x n hn

/-- whenever the Spec decides, the evaluator's verdict is the Spec's -/
theorem go_verdict (env : VEnv) (hwf : EnvWF env) (hst : StoreWF env.st) (fuel : Nat) (stack : List NodeId)
    (hstack : ∀ x, x ∈ stack → (env.info? x).isSome = true) (s : NodeId) (j : Json) (hj : Json.WF j = true) (r : Spec.R)
    (h : Spec.evalFuel (specEnvOf env) fuel stack s j = some r) :
    (Go.validateFuel env fuel stack (GoVal.ofJson j) s).verdict = some r.isSome := by
  have hrel := Refine.validate_refines_spec env hwf hst fuel stack hstack s j hj
  rw [h] at hrel
  cases r with
  | none => simp only [Rel] at hrel; rw [hrel]; rfl
  | some ev => obtain ⟨a, ha, _⟩ := hrel; rw [ha]; rfl

/-- … and its annotations stand for the Spec's evaluated sets -/
theorem go_anns (env : VEnv) (hwf : EnvWF env) (hst : StoreWF env.st) (fuel : Nat) (stack : List NodeId)
    (hstack : ∀ x, x ∈ stack → (env.info? x).isSome = true) (s : NodeId) (j : Json) (hj : Json.WF j = true) (ev : Spec.Ev)
    (h : Spec.evalFuel (specEnvOf env) fuel stack s j = some (some ev)) :
    ∃ a, Go.validateFuel env fuel stack (GoVal.ofJson j) s = .ok a ∧ AnnsMatch j a ev := by
  have hrel := Refine.validate_refines_spec env hwf hst fuel stack hstack s j hj
  rw [h] at hrel
  exact hrel

/-- annotations that stand for the empty evaluated sets -/
theorem AnnsMatch_empty_iff (j : Json) (a : Anns) :
    AnnsMatch j a {} ↔ (∀ k, k ∈ keysOf j → γprop a k = false) ∧ (∀ i, i < lenOf j → γitem a i = false) := by
  unfold AnnsMatch
  simp


/-- two applications on which the Spec returns the same defined outcome: the evaluator returns the same verdict, and
    annotations that stand for the same sets of properties / items of the instance -/
theorem go_same (env : VEnv) (hwf : EnvWF env) (hst : StoreWF env.st) (f1 f2 : Nat) (st1 st2 : List NodeId)
    (h1 : ∀ x, x ∈ st1 → (env.info? x).isSome = true) (h2 : ∀ x, x ∈ st2 → (env.info? x).isSome = true)
    (s1 s2 : NodeId) (j : Json) (hj : Json.WF j = true)
    (heq : Spec.evalFuel (specEnvOf env) f1 st1 s1 j = Spec.evalFuel (specEnvOf env) f2 st2 s2 j)
    (hdef : (Spec.evalFuel (specEnvOf env) f2 st2 s2 j).isSome = true) :
    (Go.validateFuel env f1 st1 (GoVal.ofJson j) s1).verdict = (Go.validateFuel env f2 st2 (GoVal.ofJson j) s2).verdict ∧
    ∀ a1 a2, Go.validateFuel env f1 st1 (GoVal.ofJson j) s1 = .ok a1 →
      Go.validateFuel env f2 st2 (GoVal.ofJson j) s2 = .ok a2 →
      (∀ k, k ∈ keysOf j → γprop a1 k = γprop a2 k) ∧ (∀ i, i < lenOf j → γitem a1 i = γitem a2 i) := by
  cases hr : Spec.evalFuel (specEnvOf env) f2 st2 s2 j with
  | none => rw [hr] at hdef; cases hdef
  | some r =>
    rw [hr] at heq
    refine ⟨?_, ?_⟩
    · rw [go_verdict env hwf hst f1 st1 h1 s1 j hj r heq, go_verdict env hwf hst f2 st2 h2 s2 j hj r hr]
    · intro a1 a2 e1 e2
      cases r with
      | none =>
        have := go_verdict env hwf hst f1 st1 h1 s1 j hj none heq
        rw [e1] at this; cases this
      | some ev =>
        obtain ⟨b1, hb1, m1⟩ := go_anns env hwf hst f1 st1 h1 s1 j hj ev heq
        obtain ⟨b2, hb2, m2⟩ := go_anns env hwf hst f2 st2 h2 s2 j hj ev hr
        rw [e1] at hb1; rw [e2] at hb2
        cases hb1; cases hb2
        exact ⟨fun k hk => by rw [m1.1 k hk, m2.1 k hk], fun i hi => by rw [m1.2 i hi, m2.2 i hi]⟩

end Laws
end JSV
