/-
  C15 helper file: hasDefaults is sound, what is inserted is declared, idempotence.
-/
import JSV.Proofs.Dfl
namespace JSV
namespace C15
open JSV Go Json

/-! ## hasDefaults -/

theorem hasDefaultsFuel_mono (st : Store) : ∀ f id, hasDefaultsFuel st f id = true → hasDefaultsFuel st (f + 1) id = true := by
  intro f
  induction f with
  | zero => intro id h; simp [hasDefaultsFuel] at h
  | succ f ih =>
    intro id h
    rw [hasDefaultsFuel] at h ⊢
    cases hn : st.get? id with
    | none => rw [hn] at h; simp at h
    | some n =>
      rw [hn] at h
      simp only [Bool.or_eq_true, List.any_eq_true, Bool.and_eq_true] at h ⊢
      rcases h with h | ⟨x, hx, h1, h2⟩
      · exact Or.inl h
      · exact Or.inr ⟨x, hx, h1, ih _ h2⟩

/-- unfolding of the (repaired) predicate: a default here, or a non-required property that has defaults -/
theorem hasDefaults_cases (st : Store) (id : NodeId) (h : hasDefaults st id = true) :
    ∃ n, st.get? id = some n ∧ (n.default.isSome = true ∨
      ∃ p c, (p, c) ∈ n.properties.getD [] ∧ (n.required.getD []).contains p = false ∧ hasDefaults st c = true) := by
  unfold hasDefaults at h
  rw [hasDefaultsFuel] at h
  cases hn : st.get? id with
  | none => rw [hn] at h; simp at h
  | some n =>
    rw [hn] at h
    refine ⟨n, rfl, ?_⟩
    simp only [Bool.or_eq_true, List.any_eq_true, Bool.and_eq_true] at h
    rcases h with h | ⟨⟨p, c⟩, hx, h1, h2⟩
    · exact Or.inl h
    · refine Or.inr ⟨p, c, hx, by simpa using h1, ?_⟩
      exact hasDefaultsFuel_mono st _ _ h2

theorem defaultsLoop_nonempty (st : Store) (rec : DRec) (req : List String) :
    ∀ (props : List (String × NodeId)) (kvs kvs' : List (String × Json)),
      defaultsLoop st rec req props kvs = .ok kvs' →
      (kvs ≠ [] ∨ ∃ p c, (p, c) ∈ props ∧ req.contains p = false ∧ hasDefaults st c = true) → kvs' ≠ [] := by
  intro props
  induction props with
  | nil =>
    intro kvs kvs' h hc
    simp only [defaultsLoop, Res.ok.injEq] at h
    subst h
    rcases hc with hc | ⟨p, c, hm, _⟩
    · exact hc
    · simp at hm
  | cons q rest ih =>
    intro kvs kvs' h hc
    obtain ⟨prop, sub⟩ := q
    rw [defaultsLoop] at h
    split at h
    · next hreq =>
      refine ih _ _ h ?_
      rcases hc with hc | ⟨p, c, hm, hr, hd⟩
      · exact Or.inl hc
      · rcases List.mem_cons.1 hm with hm | hm
        · cases hm; rw [hreq] at hr; cases hr
        · exact Or.inr ⟨p, c, hm, hr, hd⟩
    · split at h
      · cases h
      · next sn hsn =>
        split at h
        · obtain ⟨v, _, h⟩ := bind_eq_ok.1 h
          exact ih _ _ h (Or.inl (setKey_ne_nil _ _ _))
        · obtain ⟨v, _, h⟩ := bind_eq_ok.1 h
          exact ih _ _ h (Or.inl (setKey_ne_nil _ _ _))
        · next hl hd =>
          split at h
          · obtain ⟨v, _, h⟩ := bind_eq_ok.1 h
            exact ih _ _ h (Or.inl (setKey_ne_nil _ _ _))
          · next hnd =>
            refine ih _ _ h ?_
            rcases hc with hc | ⟨p, c, hm, hr, hd'⟩
            · exact Or.inl hc
            · rcases List.mem_cons.1 hm with hm | hm
              · cases hm; exact absurd hd' hnd
              · exact Or.inr ⟨p, c, hm, hr, hd'⟩

/-- the recursive call on `{}` under a schema that "has defaults" but no default of its own gives a non-empty object -/
def RecSound (st : Store) (rec : DRec) : Prop :=
  ∀ s sn o, hasDefaults st s = true → st.get? s = some sn → sn.default = none → rec s (.obj []) = .ok o →
    ∃ kvs, o = .obj kvs ∧ kvs ≠ []

theorem applyDefaultsFuel_sound (env : VEnv) (fuel : Nat) : RecSound env.st (applyDefaultsFuel env fuel) := by
  intro s sn o hh hsn hd h
  cases fuel with
  | zero => simp [applyDefaultsFuel] at h
  | succ fuel =>
    simp only [applyDefaultsFuel, applyDefaultsStep, hsn] at h
    split at h
    · cases h
    · obtain ⟨kvs', hl, h⟩ := bind_eq_ok.1 h
      cases h
      refine ⟨kvs', rfl, defaultsLoop_nonempty _ _ _ _ _ _ hl (Or.inr ?_)⟩
      obtain ⟨n, hn, hc⟩ := hasDefaults_cases _ _ hh
      rw [hsn] at hn
      cases hn
      rcases hc with hc | hc
      · rw [hd] at hc; cases hc
      · exact hc

/-! ## what is inserted is declared -/

theorem defaultsLoop_inserted (st : Store) (rec : DRec) (req : List String) (hext : RecExt rec) (hs : RecSound st rec) :
    ∀ (props : List (String × NodeId)) (kvs kvs' : List (String × Json)),
      defaultsLoop st rec req props kvs = .ok kvs' →
      ∀ k v', Json.lookup k kvs = none → Json.lookup k kvs' = some v' →
        ∃ sub sn, (k, sub) ∈ props ∧ req.contains k = false ∧ st.get? sub = some sn ∧
          ((∃ d, sn.default = some d ∧ ExtP d v') ∨
           (sn.default = none ∧ hasDefaults st sub = true ∧ ∃ o, v' = .obj o ∧ o ≠ [])) := by
  intro props
  induction props with
  | nil =>
    intro kvs kvs' h k v' hn hs'
    simp only [defaultsLoop, Res.ok.injEq] at h
    subst h
    rw [hn] at hs'; cases hs'
  | cons q rest ih =>
    intro kvs kvs' h k v' hn hs'
    obtain ⟨prop, sub⟩ := q
    have lift : (∃ sub sn, (k, sub) ∈ rest ∧ req.contains k = false ∧ st.get? sub = some sn ∧
          ((∃ d, sn.default = some d ∧ ExtP d v') ∨
           (sn.default = none ∧ hasDefaults st sub = true ∧ ∃ o, v' = .obj o ∧ o ≠ []))) →
        ∃ sub' sn, (k, sub') ∈ (prop, sub) :: rest ∧ req.contains k = false ∧ st.get? sub' = some sn ∧
          ((∃ d, sn.default = some d ∧ ExtP d v') ∨
           (sn.default = none ∧ hasDefaults st sub' = true ∧ ∃ o, v' = .obj o ∧ o ≠ [])) := by
      rintro ⟨s, sn, hm, r⟩
      exact ⟨s, sn, List.mem_cons_of_mem _ hm, r⟩
    rw [defaultsLoop] at h
    split at h
    · exact lift (ih _ _ h k v' hn hs')
    · next hreq =>
      have hreq' : req.contains prop = false := by simpa using hreq
      split at h
      · cases h
      · next sn hsn =>
        -- the common part: after `setKey prop v`, a key that was absent is either `prop` or still absent
        have key : ∀ v, defaultsLoop st rec req rest (setKey prop v kvs) = .ok kvs' →
            (k = prop → ∃ v'', Json.lookup k kvs' = some v'' ∧ ExtP v v'') ∧
            (k ≠ prop → Json.lookup k (setKey prop v kvs) = none) := by
          intro v hl
          refine ⟨?_, ?_⟩
          · intro hk
            have : Json.lookup k (setKey prop v kvs) = some v := by rw [lookup_setKey, if_pos hk.symm]
            exact ExtPObj_lookup (defaultsLoop_ext st rec req hext _ _ _ hl) this
          · intro hk
            rw [lookup_setKey, if_neg (fun h => hk h.symm)]; exact hn
        split at h
        · next d hl hd =>
          obtain ⟨v, hv, h⟩ := bind_eq_ok.1 h
          by_cases hk : k = prop
          · obtain ⟨v'', h1, h2⟩ := (key v h).1 hk
            rw [hs'] at h1; cases h1
            subst hk
            exact ⟨sub, sn, List.mem_cons_self, hreq', hsn, Or.inl ⟨d, hd, ExtP_trans _ _ _ (hext _ _ _ hv) h2⟩⟩
          · exact lift (ih _ _ h k v' ((key v h).2 hk) hs')
        · next cur _ hl =>
          obtain ⟨v, hv, h⟩ := bind_eq_ok.1 h
          have hk : k ≠ prop := by rintro rfl; rw [hn] at hl; cases hl
          exact lift (ih _ _ h k v' ((key v h).2 hk) hs')
        · next hl hd =>
          split at h
          · next hhd =>
            obtain ⟨v, hv, h⟩ := bind_eq_ok.1 h
            by_cases hk : k = prop
            · obtain ⟨v'', h1, h2⟩ := (key v h).1 hk
              rw [hs'] at h1; cases h1
              subst hk
              obtain ⟨o, rfl, ho⟩ := hs sub sn v hhd hsn hd hv
              obtain ⟨o', rfl, ho'⟩ := ExtP_obj.1 h2
              refine ⟨sub, sn, List.mem_cons_self, hreq', hsn, Or.inr ⟨hd, hhd, o', rfl, ?_⟩⟩
              intro he
              subst he
              have := ExtPObj_length ho'
              cases o with
              | nil => exact ho rfl
              | cons _ _ => simp at this
            · exact lift (ih _ _ h k v' ((key v h).2 hk) hs')
          · exact lift (ih _ _ h k v' hn hs')

/-! ## idempotence -/

/-- the loop over the remaining properties does not touch other keys -/
theorem defaultsLoop_other (st : Store) (rec : DRec) (req : List String) (p : String) :
    ∀ (props : List (String × NodeId)) (kvs kvs' : List (String × Json)),
      defaultsLoop st rec req props kvs = .ok kvs' → p ∉ props.map (·.1) → Json.lookup p kvs' = Json.lookup p kvs := by
  intro props
  induction props with
  | nil =>
    intro kvs kvs' h _
    simp only [defaultsLoop, Res.ok.injEq] at h
    subst h; rfl
  | cons q rest ih =>
    intro kvs kvs' h hp
    obtain ⟨prop, sub⟩ := q
    simp only [List.map_cons, List.mem_cons, not_or] at hp
    obtain ⟨hne, hp⟩ := hp
    have hset : ∀ v, Json.lookup p (setKey prop v kvs) = Json.lookup p kvs := by
      intro v; rw [lookup_setKey, if_neg (fun h => hne h.symm)]
    rw [defaultsLoop] at h
    split at h
    · exact ih _ _ h hp
    · split at h
      · cases h
      · split at h
        · obtain ⟨v, _, h⟩ := bind_eq_ok.1 h
          rw [ih _ _ h hp, hset]
        · obtain ⟨v, _, h⟩ := bind_eq_ok.1 h
          rw [ih _ _ h hp, hset]
        · split at h
          · obtain ⟨v, _, h⟩ := bind_eq_ok.1 h
            rw [ih _ _ h hp, hset]
          · exact ih _ _ h hp

def RecIdem (rec : DRec) : Prop := ∀ s c o, rec s c = .ok o → rec s o = .ok o

theorem defaultsLoop_idem (st : Store) (rec : DRec) (req : List String) (hid : RecIdem rec) :
    ∀ (props : List (String × NodeId)) (kvs kvs' : List (String × Json)),
      (props.map (·.1)).Nodup → defaultsLoop st rec req props kvs = .ok kvs' →
      defaultsLoop st rec req props kvs' = .ok kvs' := by
  intro props
  induction props with
  | nil => intro kvs kvs' _ _; simp [defaultsLoop]
  | cons q rest ih =>
    intro kvs kvs' hnd h
    obtain ⟨prop, sub⟩ := q
    simp only [List.map_cons, List.nodup_cons] at hnd
    obtain ⟨hp, hnd⟩ := hnd
    -- after the first pass stored `v` under `prop`, the second pass finds it and leaves it alone
    have again : ∀ v sn, st.get? sub = some sn → req.contains prop = false → rec sub v = .ok v →
        defaultsLoop st rec req rest (setKey prop v kvs) = .ok kvs' →
        defaultsLoop st rec req ((prop, sub) :: rest) kvs' = .ok kvs' := by
      intro v sn hsn hreq hv hl
      have hlook : Json.lookup prop kvs' = some v := by
        rw [defaultsLoop_other st rec req prop _ _ _ hl hp, lookup_setKey, if_pos rfl]
      rw [defaultsLoop]
      simp only [hreq, Bool.false_eq_true, if_false, hsn, hlook]
      rw [hv, Res.bind_ok, setKey_same _ _ _ hlook]
      exact ih _ _ hnd hl
    rw [defaultsLoop] at h
    split at h
    · next hreq =>
      rw [defaultsLoop]
      simp only [hreq, if_true]
      exact ih _ _ hnd h
    · next hreq =>
      have hreq' : req.contains prop = false := by simpa using hreq
      split at h
      · cases h
      · next sn hsn =>
        split at h
        · obtain ⟨v, hv, h⟩ := bind_eq_ok.1 h
          exact again v sn hsn hreq' (hid _ _ _ hv) h
        · obtain ⟨v, hv, h⟩ := bind_eq_ok.1 h
          exact again v sn hsn hreq' (hid _ _ _ hv) h
        · next hl hd =>
          split at h
          · obtain ⟨v, hv, h⟩ := bind_eq_ok.1 h
            exact again v sn hsn hreq' (hid _ _ _ hv) h
          · next hnd' =>
            have hlook : Json.lookup prop kvs' = none := by
              rw [defaultsLoop_other st rec req prop _ _ _ h hp]; exact hl
            rw [defaultsLoop]
            simp only [hreq', Bool.false_eq_true, if_false, hsn, hlook, hd, hnd']
            exact ih _ _ hnd h

/-- property names of every schema object are pairwise distinct (they are the keys of a Go map) -/
def PropsNodup (st : Store) : Prop :=
  ∀ id n, st.get? id = some n → ((n.properties.getD []).map (·.1)).Nodup

theorem applyDefaultsFuel_idem (env : VEnv) (hst : PropsNodup env.st) : ∀ fuel, RecIdem (applyDefaultsFuel env fuel) := by
  intro fuel
  induction fuel with
  | zero => intro s c o h; simp [applyDefaultsFuel] at h
  | succ fuel ih =>
    intro s c o h
    simp only [applyDefaultsFuel, applyDefaultsStep] at h ⊢
    split at h
    · cases h
    · next n hn =>
      split at h
      · cases h
      · next i hi =>
        split at h
        · next kvs =>
          obtain ⟨kvs', hl, h⟩ := bind_eq_ok.1 h
          cases h
          simp only []
          rw [defaultsLoop_idem env.st _ _ ih _ _ _ (hst s n hn) hl]
          rfl
        · next hno =>
          cases h
          split
          · next kvs => exact absurd rfl (hno kvs)
          · rfl

/-! ## fuel monotonicity, sizes -/

theorem defaultsLoop_congr (st : Store) (rec rec' : DRec) (req : List String)
    (hrr : ∀ s c o, rec s c = .ok o → rec' s c = .ok o) :
    ∀ (props : List (String × NodeId)) (kvs kvs' : List (String × Json)),
      defaultsLoop st rec req props kvs = .ok kvs' → defaultsLoop st rec' req props kvs = .ok kvs' := by
  intro props
  induction props with
  | nil => intro kvs kvs' h; simpa [defaultsLoop] using h
  | cons q rest ih =>
    intro kvs kvs' h
    obtain ⟨prop, sub⟩ := q
    rw [defaultsLoop] at h ⊢
    split at h
    · next hreq => simp only [hreq, if_true]; exact ih _ _ h
    · next hreq =>
      simp only [hreq]
      split at h
      · cases h
      · next sn hsn =>
        try simp only [hsn]
        split at h
        · next d hl hd =>
          obtain ⟨v, hv, h⟩ := bind_eq_ok.1 h
          try simp only [hl, hd]
          rw [hrr _ _ _ hv, Res.bind_ok]
          exact ih _ _ h
        · next cur _ hl =>
          obtain ⟨v, hv, h⟩ := bind_eq_ok.1 h
          try simp only [hl]
          rw [hrr _ _ _ hv, Res.bind_ok]
          exact ih _ _ h
        · next hl hd =>
          try simp only [hl, hd]
          split at h
          · next hhd =>
            obtain ⟨v, hv, h⟩ := bind_eq_ok.1 h
            try simp only [hhd, if_true]
            rw [hrr _ _ _ hv, Res.bind_ok]
            exact ih _ _ h
          · next hhd =>
            try simp only [hhd]
            exact ih _ _ h

theorem applyDefaultsFuel_mono (env : VEnv) : ∀ fuel s c o,
    applyDefaultsFuel env fuel s c = .ok o → applyDefaultsFuel env (fuel + 1) s c = .ok o := by
  intro fuel
  induction fuel with
  | zero => intro s c o h; simp [applyDefaultsFuel] at h
  | succ fuel ih =>
    intro s c o h
    rw [applyDefaultsFuel] at h ⊢
    unfold applyDefaultsStep at h ⊢
    split at h
    · cases h
    · next n hn =>
      split at h
      · cases h
      · next i hi =>
        try simp only []
        split at h
        · next kvs =>
          obtain ⟨kvs', hl, h⟩ := bind_eq_ok.1 h
          cases h
          try simp only []
          rw [defaultsLoop_congr env.st _ _ _ ih _ _ _ hl]
          rfl
        · next hno =>
          cases h
          rfl

theorem applyDefaultsFuel_mono_le (env : VEnv) (f f' : Nat) (hle : f ≤ f') (s : NodeId) (c o : Json)
    (h : applyDefaultsFuel env f s c = .ok o) : applyDefaultsFuel env f' s c = .ok o := by
  induction hle with
  | refl => exact h
  | step _ ih => exact applyDefaultsFuel_mono env _ s c o ih

theorem sizeObj_le_of_ExtPObj : ∀ {kx ky : List (String × Json)},
    (∀ k v, (k, v) ∈ kx → ∀ b, ExtP v b → Json.size v ≤ Json.size b) →
    ExtPObj kx ky → Json.sizeObj kx ≤ Json.sizeObj ky
  | [], _, _, _ => by simp [Json.sizeObj]
  | (k, v) :: rest, ky, ih, h => by
    simp only [ExtPObj] at h
    obtain ⟨v', ry, rfl, hv, hr⟩ := h
    simp only [Json.sizeObj]
    have h1 := ih k v List.mem_cons_self v' hv
    have h2 := sizeObj_le_of_ExtPObj (fun k' w hm => ih k' w (List.mem_cons_of_mem _ hm)) hr
    omega

theorem size_le_of_ExtP : ∀ a b, ExtP a b → Json.size a ≤ Json.size b := by
  intro a
  induction a using Json.induct with
  | null => intro b h; simp only [ExtP] at h; subst h; exact Nat.le_refl _
  | bool x => intro b h; simp only [ExtP] at h; subst h; exact Nat.le_refl _
  | num x => intro b h; simp only [ExtP] at h; subst h; exact Nat.le_refl _
  | str x => intro b h; simp only [ExtP] at h; subst h; exact Nat.le_refl _
  | arr x _ => intro b h; simp only [ExtP] at h; subst h; exact Nat.le_refl _
  | obj kx ih =>
    intro b h
    obtain ⟨ky, rfl, h'⟩ := ExtP_obj.1 h
    simp only [Json.size]
    have := sizeObj_le_of_ExtPObj ih h'
    omega

end C15
end JSV
