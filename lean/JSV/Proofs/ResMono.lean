/-
  Helper lemmas for C03: more fuel never changes an outcome that is not `.fuel`
  (information order `⊑` of JSV/Basic/Res.lean, open recursion on the loader callback).
-/
import JSV.Model.Resolve
namespace JSV
namespace Go
namespace RInv
open Uri

theorem le_trans' {α} {x y z : Res α} (h1 : x ⊑ y) (h2 : y ⊑ z) : x ⊑ z := by
  rcases h1 with h | h
  · exact Or.inl h
  · subst h; exact h2

def RecLe (r1 r2 : ResolveDoc) : Prop := ∀ root base draft s, r1 root base draft s ⊑ r2 root base draft s

theorem resolveRef_mono (env : Env) (r1 r2 : ResolveDoc) (h : RecLe r1 r2)
    (root : NodeId) (s : RState) (id : NodeId) (ref : String) :
    resolveRef env r1 root s id ref ⊑ resolveRef env r2 root s id ref := by
  unfold resolveRef
  apply Res.bind_mono (Res.le_refl _)
  intro refURI0
  split
  · exact Res.le_refl _
  split
  · exact Res.le_refl _
  split
  · exact Res.le_refl _
  split
  · simp only
    apply Res.bind_mono
    · split
      · exact Res.le_refl _
      · split
        · exact Res.le_refl _
        · split
          · exact Res.le_refl _
          · split
            · exact Res.le_refl _
            · exact Res.le_refl _
            · exact Res.le_refl _
            · exact Res.bind_mono (h _ _ _ _) (fun _ => Res.le_refl _)
    · intro _; exact Res.le_refl _
  · exact Res.le_refl _

theorem resolveRefsLoop_mono (env : Env) (r1 r2 : ResolveDoc) (h : RecLe r1 r2) (root : NodeId) :
    ∀ ids s, resolveRefsLoop env r1 root ids s ⊑ resolveRefsLoop env r2 root ids s := by
  intro ids
  induction ids with
  | nil => intro s; exact Res.le_refl _
  | cons id rest ih =>
    intro s
    rw [resolveRefsLoop, resolveRefsLoop]
    split
    · exact Res.le_refl _
    · simp only
      apply Res.bind_mono
      · split
        · exact Res.bind_mono (resolveRef_mono env r1 r2 h _ _ _ _) (fun _ => Res.le_refl _)
        · exact Res.le_refl _
      · intro s1
        apply Res.bind_mono
        · split
          · exact Res.bind_mono (resolveRef_mono env r1 r2 h _ _ _ _) (fun _ => Res.le_refl _)
          · exact Res.le_refl _
        · intro s2; exact ih s2

theorem resolveDocStep_mono (env : Env) (r1 r2 : ResolveDoc) (h : RecLe r1 r2) :
    RecLe (resolveDocStep env r1) (resolveDocStep env r2) := by
  intro root base draft s
  unfold resolveDocStep
  split
  · exact Res.le_refl _
  split
  · exact Res.le_refl _
  simp only
  apply Res.bind_mono (Res.le_refl _)
  intro fresh
  split
  · exact Res.le_refl _
  apply Res.bind_mono (Res.le_refl _)
  intro sB
  exact resolveRefsLoop_mono env r1 r2 h _ _ _

theorem resolveDoc_mono_succ (env : Env) : ∀ fuel, RecLe (resolveDoc env fuel) (resolveDoc env (fuel + 1)) := by
  intro fuel
  induction fuel with
  | zero => intro root base draft s; exact Res.fuel_le _
  | succ fuel ih => exact resolveDocStep_mono env _ _ ih

theorem resolveDoc_mono (env : Env) (f f' : Nat) (h : f ≤ f') : RecLe (resolveDoc env f) (resolveDoc env f') := by
  induction h with
  | refl => intro _ _ _ _; exact Res.le_refl _
  | step _ ih => intro a b c d; exact le_trans' (ih a b c d) (resolveDoc_mono_succ env _ a b c d)

theorem resolve_mono (env : Env) (f f' : Nat) (h : f ≤ f') (root : NodeId) (base : String) :
    resolve env f root base ⊑ resolve env f' root base := by
  unfold resolve
  simp only
  apply Res.bind_mono (Res.le_refl _)
  intro b
  apply Res.bind_mono (resolveDoc_mono env f f' h _ _ _ _)
  intro s
  exact Res.le_refl _

end RInv
end Go
end JSV
