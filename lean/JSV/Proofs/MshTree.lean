/-
  C05: the Marshal / Unmarshal round trip of whole schema trees.

  * `nodeOK` / `nodeOrd` / `nodeWF` / `treeAll`: decidable well-formedness of the subtree below a node;
  * `normNode`: the node-local normal form UnmarshalJSON produces (nil-vs-empty, key order of maps, the order of
    "properties", Extra), `TreeEq`: structural equality of two trees up to `normNode` at every node;
  * `sf_one`, `sf_many`, `sf_manyNN`, `sf_keyed`, `sf_props`, `sf_items`, `sf_deps`: one schema-valued member of the
    emitted object read back by `setFields` (given, for each child, what the induction hypothesis says: `ChildRT`);
    `sf_enum`, `sf_const`, `sf_default`, `sf_examples`, `sf_vocab`, `sf_depReq`: the remaining non-scalar members;
  * `node_chain` (generated): all members of one node, in emission order; `rt_main`: the induction over the tree;
  * `marshalNode_norm`, `TreeEq.marshal_eq`: equal trees marshal identically; `marshalFuel_stable_full`;
  * `roundtrip_tree_eq_core`, `roundtrip_tree_core`: the statements used by JSV/Props/C05.lean.
-/
import JSV.Proofs.MshScalar
import JSV.Proofs.MshCloneOk
import JSV.Proofs.TotUnmarshal
namespace JSV
namespace Go

/-! ## sorting an already sorted list -/

def headLe {α : Type} (e : String × α) : List (String × α) → Bool
  | [] => true
  | x :: _ => decide (e.1 ≤ x.1)

/-- ascending keys (adjacent form, decidable) -/
def sortedB {α : Type} : List (String × α) → Bool
  | [] => true
  | a :: l => headLe a l && sortedB l

theorem insertKV_of_headLe {α} (e : String × α) (l : List (String × α)) (h : headLe e l = true) :
    insertKV e l = e :: l := by
  cases l with
  | nil => rfl
  | cons x xs =>
    simp only [headLe, decide_eq_true_eq] at h
    simp only [insertKV]
    rw [if_pos h]

theorem sortKV_of_sortedB {α} : ∀ (l : List (String × α)), sortedB l = true → sortKV l = l
  | [], _ => rfl
  | a :: l, h => by
    simp only [sortedB, Bool.and_eq_true] at h
    show insertKV a (sortKV l) = a :: l
    rw [sortKV_of_sortedB l h.2]
    exact insertKV_of_headLe a l h.1

theorem headLe_of_forall {α} (e : String × α) (l : List (String × α)) (h : ∀ x, x ∈ l → e.1 ≤ x.1) :
    headLe e l = true := by
  cases l with
  | nil => rfl
  | cons x xs => simp only [headLe, decide_eq_true_eq]; exact h x List.mem_cons_self

theorem sortedB_of_pairwise {α} : ∀ (l : List (String × α)), l.Pairwise (fun a b => a.1 ≤ b.1) → sortedB l = true
  | [], _ => rfl
  | a :: l, h => by
    rw [List.pairwise_cons] at h
    simp only [sortedB, Bool.and_eq_true]
    exact ⟨headLe_of_forall a l h.1, sortedB_of_pairwise l h.2⟩

theorem sortKV_idem {α} (l : List (String × α)) : sortKV (sortKV l) = sortKV l :=
  sortKV_of_sortedB _ (sortedB_of_pairwise _ (sortKV_sorted l))

def strHeadLe (e : String) : List String → Bool
  | [] => true
  | x :: _ => decide (e ≤ x)

def strsSortedB : List String → Bool
  | [] => true
  | a :: l => strHeadLe a l && strsSortedB l

theorem insertStr_of_headLe (e : String) (l : List String) (h : strHeadLe e l = true) :
    insertStr e l = e :: l := by
  cases l with
  | nil => rfl
  | cons x xs =>
    simp only [strHeadLe, decide_eq_true_eq] at h
    simp only [insertStr]
    rw [if_pos h]

theorem sortStrings_of_sortedB : ∀ (l : List String), strsSortedB l = true → sortStrings l = l
  | [], _ => rfl
  | a :: l, h => by
    simp only [strsSortedB, Bool.and_eq_true] at h
    show insertStr a (sortStrings l) = a :: l
    rw [sortStrings_of_sortedB l h.2]
    exact insertStr_of_headLe a l h.1

mutual
  /-- the form encoding/json writes a decoded `any` in: object keys ascending at every depth -/
  def jsonSorted : Json → Bool
    | .arr xs => jsonSortedList xs
    | .obj kvs => sortedB kvs && jsonSortedObj kvs
    | _ => true
  def jsonSortedList : List Json → Bool
    | [] => true
    | x :: xs => jsonSorted x && jsonSortedList xs
  def jsonSortedObj : List (String × Json) → Bool
    | [] => true
    | (_, v) :: rest => jsonSorted v && jsonSortedObj rest
end

mutual
  theorem sortJson_of_sorted : ∀ (j : Json), jsonSorted j = true → sortJson j = j
    | .arr xs, h => by
      simp only [jsonSorted] at h
      simp only [sortJson, sortJsonList_of_sorted xs h]
    | .obj kvs, h => by
      simp only [jsonSorted, Bool.and_eq_true] at h
      simp only [sortJson, sortJsonObj_of_sorted kvs h.2, sortKV_of_sortedB kvs h.1]
    | .null, _ => rfl
    | .bool _, _ => rfl
    | .num _, _ => rfl
    | .str _, _ => rfl
  theorem sortJsonList_of_sorted : ∀ (xs : List Json), jsonSortedList xs = true → sortJsonList xs = xs
    | [], _ => rfl
    | x :: xs, h => by
      simp only [jsonSortedList, Bool.and_eq_true] at h
      simp only [sortJsonList, sortJson_of_sorted x h.1, sortJsonList_of_sorted xs h.2]
  theorem sortJsonObj_of_sorted : ∀ (kvs : List (String × Json)), jsonSortedObj kvs = true → sortJsonObj kvs = kvs
    | [], _ => rfl
    | (k, v) :: rest, h => by
      simp only [jsonSortedObj, Bool.and_eq_true] at h
      simp only [sortJsonObj, sortJson_of_sorted v h.1, sortJsonObj_of_sorted rest h.2]
end

/-! ## well-formedness of a node and of the tree below it -/

/-- the value is inside the window of the `integer` helper -/
def int32B (o : Option Int) : Bool :=
  match o with
  | none => true
  | some i => decide ((-2147483648 : Int) ≤ i) && decide (i ≤ 2147483647)

theorem int32B_sound {o : Option Int} (h : int32B o = true) : InInt32 o := by
  intro i hi
  subst hi
  simp only [int32B, Bool.and_eq_true, decide_eq_true_eq] at h
  exact h

/-- a `map[string]*Schema` with `omitempty`: empty comes back nil, otherwise in ascending key order -/
def normMap (m : Option (List (String × NodeId))) : Option (List (String × NodeId)) :=
  match m with
  | some (e :: es) => some (sortKV (e :: es))
  | _ => none

/-- a non-schema map with `omitempty` (dependentRequired): empty comes back nil, otherwise in ascending key order -/
def normKV {α : Type} (m : Option (List (String × α))) : Option (List (String × α)) :=
  match m with
  | some (e :: es) => some (sortKV (e :: es))
  | _ => none

/-- `$vocabulary` is written through the wrapper struct of MarshalJSON (`Vocabulary any`): only nil is omitted, so
    there is no nil-vs-empty normal form for it — a non-nil map comes back non-nil, in ascending key order (the empty
    map as the empty map) -/
def normVocab (m : Option (List (String × Bool))) : Option (List (String × Bool)) := m.map sortKV

theorem normVocab_none : normVocab none = none := rfl
theorem normVocab_nil : normVocab (some []) = some [] := rfl
theorem normVocab_isSome (m : Option (List (String × Bool))) : (normVocab m).isSome = m.isSome := by
  cases m <;> rfl

/-- `examples` (omitempty): empty comes back nil -/
def normJL (l : Option (List Json)) : Option (List Json) :=
  match l with
  | some (x :: xs) => some (x :: xs)
  | _ => none

/-- DependencyStrings as it comes back: ascending keys, nil lists as empty lists, the empty map as nil -/
def normDepStrs (m : Option (List (String × Option (List String)))) : Option (List (String × Option (List String))) :=
  match m with
  | some (e :: es) => some (sortKV ((e :: es).map fun e => (e.1, some (e.2.getD []))))
  | _ => none

def optSorted (o : Option Json) : Bool :=
  match o with
  | some v => jsonSorted v
  | none => true

/-- the local side conditions of the round trip (decidable):
    * MarshalJSON's own checks pass (`basicChecks`: not both `type` and `types`, not both `$defs` and
      `definitions`, not both `items` and `itemsArray`, no duplicate in PropertyOrder, the two dependency maps
      disjoint) and no Extra key is a struct name (marshalStructWithMap);
    * no Extra key is a case variant of a keyword (H_D4), Extra values are in the form encoding/json writes;
    * the eight integer keywords are inside the int32 window of the `integer` helper;
    * the values of `enum`, `const`, `examples` are in the form encoding/json writes (they were decoded into Go maps:
      object keys ascending at every depth). -/
def nodeOK (n : Node) : Bool :=
  marshalChecksOk n &&
  !((n.extra.getD []).any fun e => structNames.contains e.1) &&
  ((n.extra.getD []).all fun e => !isFoldedKey e.1 && jsonSorted e.2) &&
  int32B n.minLength && int32B n.maxLength && int32B n.minItems && int32B n.maxItems &&
  int32B n.minContains && int32B n.maxContains && int32B n.minProperties && int32B n.maxProperties &&
  jsonSortedList (n.enum.getD []) && optSorted n.const && jsonSortedList (n.examples.getD [])

/-- representation conditions for "marshals again to the same JSON":
    * "properties" is written in ascending key order (PropertyOrder, which is `json:"-"` and does not come back,
      does not change the order in which the members are emitted);
    * DependencySchemas is enumerated in ascending key order (the list order of a map field is its iteration order,
      which does not influence what is written, only which failing child is reported first) -/
def nodeOrd (n : Node) : Bool :=
  strsSortedB (orderedKeys (n.properties.getD []) (n.propertyOrder.getD [])) &&
  sortedB (n.dependencySchemas.getD [])

/-- every node of the tree below `a` (through `Node.children`) exists — no nil child — and satisfies `P`;
    the tree is at most `d` deep, hence finite and acyclic -/
def treeAll (P : Node → Bool) (st : Store) : Nat → NodeId → Bool
  | 0, _ => false
  | d + 1, a =>
    match st.get? a with
    | some n => P n && n.children.all (treeAll P st d)
    | none => false

theorem treeAll_succ {P : Node → Bool} {st : Store} {d : Nat} {a : NodeId} (h : treeAll P st (d + 1) a = true) :
    ∃ n, st.get? a = some n ∧ P n = true ∧ ∀ x, x ∈ n.children → treeAll P st d x = true := by
  simp only [treeAll] at h
  cases hn : st.get? a with
  | none => rw [hn] at h; cases h
  | some n =>
    rw [hn] at h
    simp only [Bool.and_eq_true, List.all_eq_true] at h
    exact ⟨n, rfl, h.1, h.2⟩

theorem treeAll_get {P : Node → Bool} {st : Store} : ∀ {d : Nat} {a : NodeId}, treeAll P st d a = true →
    ∃ n, st.get? a = some n
  | 0, _, h => by cases h
  | _ + 1, _, h => by
    obtain ⟨n, hn, -, -⟩ := treeAll_succ h
    exact ⟨n, hn⟩

theorem treeAll_imp {P P' : Node → Bool} (hP : ∀ n, P n = true → P' n = true) {st : Store} :
    ∀ {d : Nat} {a : NodeId}, treeAll P st d a = true → treeAll P' st d a = true
  | 0, _, h => by cases h
  | d + 1, a, h => by
    obtain ⟨n, hn, hp, hc⟩ := treeAll_succ h
    simp only [treeAll, hn, Bool.and_eq_true, List.all_eq_true]
    exact ⟨hP n hp, fun x hx => treeAll_imp hP (hc x hx)⟩

theorem treeAll_mono {P : Node → Bool} {st : Store} :
    ∀ {d : Nat} {a : NodeId}, treeAll P st d a = true → treeAll P st (d + 1) a = true
  | 0, _, h => by cases h
  | d + 1, a, h => by
    obtain ⟨n, hn, hp, hc⟩ := treeAll_succ h
    simp only [treeAll, hn, Bool.and_eq_true, List.all_eq_true]
    exact ⟨hp, fun x hx => treeAll_mono (hc x hx)⟩

/-! ## the node-local normal form and equality of trees up to it -/

/-- a `[]*Schema` with `omitempty`: empty comes back nil -/
def normList (l : Option (List NodeId)) : Option (List NodeId) :=
  match l with
  | some (x :: xs) => some (x :: xs)
  | _ => none

/-- the entries of "properties" in the order orderedProperties writes them -/
def propEntries (ps : List (String × NodeId)) (order : List String) : List (String × NodeId) :=
  (orderedKeys ps order).filterMap fun k => (Json.lookup k ps).map fun v => (k, v)

def normProps (ps : Option (List (String × NodeId))) (order : List String) : Option (List (String × NodeId)) :=
  ps.map fun l => propEntries l order

/-- what UnmarshalJSON ∘ MarshalJSON makes of one node (children aside) -/
def normNode (n : Node) : Node :=
  { n with
    required := normReq n.required, extra := normExtra n.extra, propertyOrder := none,
    properties := normProps n.properties (n.propertyOrder.getD []),
    defs := normMap n.defs, definitions := normMap n.definitions,
    patternProperties := normMap n.patternProperties, dependentSchemas := normMap n.dependentSchemas,
    prefixItems := normList n.prefixItems, allOf := normList n.allOf,
    dependencySchemas := normMap n.dependencySchemas, dependencyStrings := normDepStrs n.dependencyStrings,
    vocabulary := normVocab n.vocabulary, dependentRequired := normKV n.dependentRequired,
    examples := normJL n.examples }

/-- `TreeEq st st' d a b`: the tree below `b` in `st'` is the tree below `a` in `st` up to `normNode` at every
    node: same scalar keywords, same Extra (as a map), schema-valued keywords pointing to equal subtrees,
    maps in ascending key order, "properties" in emission order; depth at most `d` -/
def TreeEq (st st' : Store) : Nat → NodeId → NodeId → Prop
  | 0, _, _ => False
  | d + 1, a, b => ∃ n n', st.get? a = some n ∧ st'.get? b = some n' ∧ NodeRel (TreeEq st st' d) (normNode n) n'

theorem TreeEq.mono_right {st st' st'' : Store} (he : Ext st' st'') :
    ∀ (d : Nat) (a b : NodeId), TreeEq st st' d a b → TreeEq st st'' d a b
  | 0, _, _, h => h
  | d + 1, _, _, ⟨n, n', ha, hb, hr⟩ => ⟨n, n', ha, he.get? hb, NodeRel.imp (TreeEq.mono_right he d) hr⟩

/-- every node of the tree below `a` exists; depth at most `d` -/
def Full (st : Store) : Nat → NodeId → Prop
  | 0, _ => False
  | d + 1, a => ∃ n, st.get? a = some n ∧ ∀ x, x ∈ n.children → Full st d x

theorem Full.mono {st : Store} : ∀ {d : Nat} {a : NodeId}, Full st d a → Full st (d + 1) a
  | 0, _, h => h.elim
  | _ + 1, _, ⟨n, hn, hc⟩ => ⟨n, hn, fun x hx => Full.mono (hc x hx)⟩

theorem Full.mono_le {st : Store} {d k : Nat} {a : NodeId} (h : Full st d a) (hk : d ≤ k) : Full st k a := by
  induction hk with
  | refl => exact h
  | step _ ih => exact Full.mono ih

theorem Full.ext {st st' : Store} (he : Ext st st') : ∀ {d : Nat} {a : NodeId}, Full st d a → Full st' d a
  | 0, _, h => h.elim
  | _ + 1, _, ⟨n, hn, hc⟩ => ⟨n, he.get? hn, fun x hx => Full.ext he (hc x hx)⟩

theorem Full.lt_size {st : Store} : ∀ {d : Nat} {a : NodeId}, Full st d a → a < st.size
  | 0, _, h => h.elim
  | _ + 1, _, ⟨_, hn, _⟩ => lt_size_of_get? hn

/-- the children of a node written by `setChildFields` are the ids of the list -/
theorem children_of_rel {R : NodeId → NodeId → Prop} {n0 : Node} {fs' : List ChildField}
    (h : ListRel (FieldRel R) n0.childFields fs') {x : NodeId} (hx : x ∈ (setChildFields n0 fs').children) :
    ∃ a, R a x := by
  obtain ⟨f', hf', hxf⟩ := mem_children_iff.1 hx
  rw [childFields_set h] at hf'
  obtain ⟨f, _, hrel⟩ := ListRel.mem_right h hf'
  obtain ⟨a, _, hr⟩ := ListRel.mem_right (FieldRel.ids_rel hrel) hxf
  exact ⟨a, hr⟩

theorem TreeEq.full {st st' : Store} : ∀ {d : Nat} {a b : NodeId}, TreeEq st st' d a b → Full st' d b
  | 0, _, _, h => h.elim
  | d + 1, _, _, ⟨_, n', _, hb, fs', hrel, hn'⟩ => by
    refine ⟨n', hb, fun x hx => ?_⟩
    rw [hn'] at hx
    obtain ⟨a, hr⟩ := children_of_rel hrel hx
    exact TreeEq.full hr

/-! ## the JSON a schema is written as -/

/-- MarshalJSON writes a (non-nil) schema as a boolean or an object -/
def IsSchemaJson : Json → Prop
  | .bool _ => True
  | .obj _ => True
  | _ => False

theorem mFinish_isSchemaJson {M : List (String × Json)} {j : Json} (h : mFinish M = .ok j) : IsSchemaJson j := by
  unfold mFinish at h
  split at h <;> cases h <;> trivial

theorem decSchemaPtr_of {rec : URec} {j : Json} (hj : IsSchemaJson j) (st : Store) :
    decSchemaPtr rec j st = Res.bind (rec j st) fun r => .ok (some r.1, r.2) := by
  cases j <;> first | exact hj.elim | rfl

theorem decSchemaElems_cons_of {rec : URec} {j : Json} (hj : IsSchemaJson j) (rest : List Json) (st : Store) :
    decSchemaElems rec (j :: rest) st =
      Res.bind (rec j st) fun r => Res.bind (decSchemaElems rec rest r.2) fun r' => .ok (r.1 :: r'.1, r'.2) := by
  cases j <;> first | exact hj.elim | rfl

theorem decSchemaEntries_cons_of {rec : URec} {j : Json} (hj : IsSchemaJson j) (k : String)
    (rest : List (String × Json)) (st : Store) :
    decSchemaEntries rec ((k, j) :: rest) st =
      Res.bind (rec j st) fun r => Res.bind (decSchemaEntries rec rest r.2) fun r' => .ok ((k, r.1) :: r'.1, r'.2) := by
  cases j <;> first | exact hj.elim | rfl

theorem setField_items_of {rec : URec} {j : Json} (hj : IsSchemaJson j) (m : Node) (st : Store) :
    setField rec m st "items" j =
      Res.bind (rec j st) fun r => .ok ({ m with items := some r.1, itemsArray := none }, r.2) := by
  cases j <;> first | exact hj.elim | rfl

theorem size_le_of_mem_arr {js : List Json} {j : Json} {G : Nat} (hj : j ∈ js) (h : Json.size (.arr js) ≤ G) :
    Json.size j ≤ G := by
  have h1 := C10.size_le_sizeList hj
  simp only [Json.size] at h
  omega

theorem size_le_of_mem_obj {es : List (String × Json)} {e : String × Json} {G : Nat} (he : e ∈ es)
    (h : Json.size (.obj es) ≤ G) : Json.size e.2 ≤ G := by
  have h1 := C10.size_le_sizeObj (k := e.1) (v := e.2) he
  simp only [Json.size] at h
  omega

/-! ## one schema-valued member read back -/

/-- what the induction hypothesis of the round trip says of a child `x`: it is a node, what it is written as is a
    boolean or an object, and (if the fuel of `urec` covers it) reading that back allocates a `Q`-related schema -/
def ChildRT (st : Store) (mrec : MRec) (urec : URec) (G : Nat) (Q : Store → NodeId → NodeId → Prop) (x : NodeId) : Prop :=
  (∃ n, st.get? x = some n) ∧ ∀ j, mrec x = .ok j → IsSchemaJson j ∧
    (Json.size j ≤ G → ∀ st2, ∃ x' st2', urec j st2 = .ok (x', st2') ∧ Ext st2 st2' ∧ Q st2' x x')

section
variable {st : Store} {mrec : MRec} {urec : URec} {G : Nat} {Q : Store → NodeId → NodeId → Prop}

theorem ChildRT.mSchema {x : NodeId} (h : ChildRT st mrec urec G Q x) : mSchema st mrec x = mrec x := by
  obtain ⟨⟨n, hn⟩, -⟩ := h
  unfold Go.mSchema
  rw [hn]

theorem rt_elems (hQ : ∀ s s' x y, Ext s s' → Q s x y → Q s' x y) :
    ∀ (l : List NodeId) (js : List Json), (∀ x, x ∈ l → ChildRT st mrec urec G Q x) →
    mSchemaList st mrec l = .ok js → (∀ j, j ∈ js → Json.size j ≤ G) → ∀ st2,
    ∃ l' st2', decSchemaElems urec js st2 = .ok (l', st2') ∧ Ext st2 st2' ∧ ListRel (Q st2') l l'
  | [], js, _, h, _, st2 => by
    cases h
    exact ⟨[], st2, rfl, Ext.refl _, .nil⟩
  | x :: l, js, hc, h, hs, st2 => by
    simp only [mSchemaList] at h
    obtain ⟨j, h1, h2⟩ := Res.bind_eq_ok h
    obtain ⟨js', h3, h4⟩ := Res.bind_eq_ok h2
    cases h4
    have hx := hc x List.mem_cons_self
    rw [hx.mSchema] at h1
    obtain ⟨hsj, hrt⟩ := hx.2 j h1
    obtain ⟨x', s1, hu, he1, hq⟩ := hrt (hs j List.mem_cons_self) st2
    obtain ⟨l', s2, hu2, he2, hr⟩ := rt_elems hQ l js' (fun y hy => hc y (List.mem_cons_of_mem _ hy)) h3
      (fun j' hj' => hs j' (List.mem_cons_of_mem _ hj')) s1
    refine ⟨x' :: l', s2, ?_, he1.trans he2, .cons (hQ _ _ _ _ he2 hq) hr⟩
    rw [decSchemaElems_cons_of hsj, hu]
    simp only [Res.bind_ok, hu2]

theorem rt_entries (hQ : ∀ s s' x y, Ext s s' → Q s x y → Q s' x y) :
    ∀ (l : List (String × NodeId)) (es : List (String × Json)), (∀ e, e ∈ l → ChildRT st mrec urec G Q e.2) →
    mSchemaEntries st mrec l = .ok es → (∀ e, e ∈ es → Json.size e.2 ≤ G) → ∀ st2,
    ∃ l' st2', decSchemaEntries urec es st2 = .ok (l', st2') ∧ Ext st2 st2' ∧ ListRel (KeyRel (Q st2')) l l'
  | [], es, _, h, _, st2 => by
    cases h
    exact ⟨[], st2, rfl, Ext.refl _, .nil⟩
  | (k, x) :: l, es, hc, h, hs, st2 => by
    simp only [mSchemaEntries] at h
    obtain ⟨j, h1, h2⟩ := Res.bind_eq_ok h
    obtain ⟨es', h3, h4⟩ := Res.bind_eq_ok h2
    cases h4
    have hx := hc (k, x) List.mem_cons_self
    rw [hx.mSchema] at h1
    obtain ⟨hsj, hrt⟩ := hx.2 j h1
    obtain ⟨x', s1, hu, he1, hq⟩ := hrt (hs (k, j) List.mem_cons_self) st2
    obtain ⟨l', s2, hu2, he2, hr⟩ := rt_entries hQ l es' (fun y hy => hc y (List.mem_cons_of_mem _ hy)) h3
      (fun e' he' => hs e' (List.mem_cons_of_mem _ he')) s1
    refine ⟨(k, x') :: l', s2, ?_, he1.trans he2, .cons ⟨rfl, hQ _ _ _ _ he2 hq⟩ hr⟩
    rw [decSchemaEntries_cons_of hsj, hu]
    simp only [Res.bind_ok, hu2]

/-- an optional `*Schema` member -/
theorem sf_one (_hQ : ∀ s s' x y, Ext s s' → Q s x y → Q s' x y) {K : String} {upd : Node → Option NodeId → Node}
    (hset : ∀ m s v, setField urec m s K v = Res.bind (decSchemaPtr urec v s) fun r => .ok (upd m r.1, r.2))
    (hK : canonKey K = K) {c : Option NodeId} {piece : List (String × Json)}
    (hc : ∀ x, x ∈ c.toList → ChildRT st mrec urec G Q x)
    (hp : mOne st mrec K c = .ok piece) (hG : ∀ e, e ∈ piece → Json.size e.2 ≤ G) (st2 : Store) :
    ∃ c' st2', Ext st2 st2' ∧ OptRel (Q st2') c c' ∧
      ∀ (m : Node) (rest : List (String × Json)), upd m none = m →
        setFields urec (piece ++ rest) m st2 = setFields urec rest (upd m c') st2' := by
  cases c with
  | none =>
    cases hp
    exact ⟨none, st2, Ext.refl _, trivial, fun m rest hm => by rw [hm]; rfl⟩
  | some x =>
    simp only [mOne] at hp
    obtain ⟨j, h1, h2⟩ := Res.bind_eq_ok hp
    cases h2
    have hx := hc x (by simp)
    rw [hx.mSchema] at h1
    obtain ⟨hsj, hrt⟩ := hx.2 j h1
    obtain ⟨x', s1, hu, he1, hq⟩ := hrt (hG (K, j) List.mem_cons_self) st2
    refine ⟨some x', s1, he1, hq, fun m rest _ => ?_⟩
    simp only [List.cons_append, List.nil_append, setFields, setMember_eq_setField urec _ _ _ hK, hset,
      decSchemaPtr_of hsj, hu, Res.bind_ok]

/-- a `[]*Schema` written as an array -/
theorem rt_list_member (hQ : ∀ s s' x y, Ext s s' → Q s x y → Q s' x y) {K : String}
    {upd : Node → Option (List NodeId) → Node}
    (hset : ∀ m s v, setField urec m s K v = Res.bind (decSchemaList urec v s) fun r => .ok (upd m r.1, r.2))
    (hK : canonKey K = K) {l : List NodeId} {js : List Json}
    (hc : ∀ x, x ∈ l → ChildRT st mrec urec G Q x)
    (hp : mSchemaList st mrec l = .ok js) (hG : Json.size (.arr js) ≤ G) (st2 : Store) :
    ∃ l' st2', Ext st2 st2' ∧ ListRel (Q st2') l l' ∧
      ∀ (m : Node) (rest : List (String × Json)),
        setFields urec ((K, .arr js) :: rest) m st2 = setFields urec rest (upd m (some l')) st2' := by
  obtain ⟨l', s1, hu, he, hr⟩ := rt_elems hQ l js hc hp (fun j hj => size_le_of_mem_arr hj hG) st2
  refine ⟨l', s1, he, hr, fun m rest => ?_⟩
  simp only [setFields, setMember_eq_setField urec _ _ _ hK, hset, decSchemaList, hu, Res.bind_ok]

/-- a `[]*Schema` member with `omitempty` (prefixItems, allOf) -/
theorem sf_many (hQ : ∀ s s' x y, Ext s s' → Q s x y → Q s' x y) {K : String}
    {upd : Node → Option (List NodeId) → Node}
    (hset : ∀ m s v, setField urec m s K v = Res.bind (decSchemaList urec v s) fun r => .ok (upd m r.1, r.2))
    (hK : canonKey K = K) {c : Option (List NodeId)} {piece : List (String × Json)}
    (hc : ∀ x, x ∈ c.getD [] → ChildRT st mrec urec G Q x)
    (hp : mMany st mrec K c = .ok piece) (hG : ∀ e, e ∈ piece → Json.size e.2 ≤ G) (st2 : Store) :
    ∃ c' st2', Ext st2 st2' ∧ OptRel (ListRel (Q st2')) (normList c) c' ∧
      ∀ (m : Node) (rest : List (String × Json)), upd m none = m →
        setFields urec (piece ++ rest) m st2 = setFields urec rest (upd m c') st2' := by
  cases c with
  | none =>
    cases hp
    exact ⟨none, st2, Ext.refl _, trivial, fun m rest hm => by rw [hm]; rfl⟩
  | some l =>
    cases l with
    | nil =>
      cases hp
      exact ⟨none, st2, Ext.refl _, trivial, fun m rest hm => by rw [hm]; rfl⟩
    | cons x xs =>
      simp only [mMany] at hp
      obtain ⟨js, h1, h2⟩ := Res.bind_eq_ok hp
      cases h2
      obtain ⟨l', s1, he, hr, hs⟩ := rt_list_member hQ hset hK hc h1 (hG (K, .arr js) List.mem_cons_self) st2
      exact ⟨some l', s1, he, hr, fun m rest _ => hs m rest⟩

/-- a `[]*Schema` member that is only omitted when nil (anyOf, oneOf: they go through the wrapper struct) -/
theorem sf_manyNN (hQ : ∀ s s' x y, Ext s s' → Q s x y → Q s' x y) {K : String}
    {upd : Node → Option (List NodeId) → Node}
    (hset : ∀ m s v, setField urec m s K v = Res.bind (decSchemaList urec v s) fun r => .ok (upd m r.1, r.2))
    (hK : canonKey K = K) {c : Option (List NodeId)} {piece : List (String × Json)}
    (hc : ∀ x, x ∈ c.getD [] → ChildRT st mrec urec G Q x)
    (hp : mManyNN st mrec K c = .ok piece) (hG : ∀ e, e ∈ piece → Json.size e.2 ≤ G) (st2 : Store) :
    ∃ c' st2', Ext st2 st2' ∧ OptRel (ListRel (Q st2')) c c' ∧
      ∀ (m : Node) (rest : List (String × Json)), upd m none = m →
        setFields urec (piece ++ rest) m st2 = setFields urec rest (upd m c') st2' := by
  cases c with
  | none =>
    cases hp
    exact ⟨none, st2, Ext.refl _, trivial, fun m rest hm => by rw [hm]; rfl⟩
  | some l =>
    simp only [mManyNN] at hp
    obtain ⟨js, h1, h2⟩ := Res.bind_eq_ok hp
    cases h2
    obtain ⟨l', s1, he, hr, hs⟩ := rt_list_member hQ hset hK hc h1 (hG (K, .arr js) List.mem_cons_self) st2
    exact ⟨some l', s1, he, hr, fun m rest _ => hs m rest⟩

/-- a `map[string]*Schema` written as an object -/
theorem rt_map_member (hQ : ∀ s s' x y, Ext s s' → Q s x y → Q s' x y) {K : String}
    {upd : Node → Option (List (String × NodeId)) → Node}
    (hset : ∀ m s v, setField urec m s K v = Res.bind (decSchemaMap urec v s) fun r => .ok (upd m r.1, r.2))
    (hK : canonKey K = K) {l : List (String × NodeId)} {es : List (String × Json)}
    (hc : ∀ e, e ∈ l → ChildRT st mrec urec G Q e.2)
    (hp : mSchemaEntries st mrec l = .ok es) (hG : Json.size (.obj es) ≤ G) (st2 : Store) :
    ∃ l' st2', Ext st2 st2' ∧ ListRel (KeyRel (Q st2')) l l' ∧
      ∀ (m : Node) (rest : List (String × Json)),
        setFields urec ((K, .obj es) :: rest) m st2 = setFields urec rest (upd m (some l')) st2' := by
  obtain ⟨l', s1, hu, he, hr⟩ := rt_entries hQ l es hc hp (fun e he => size_le_of_mem_obj he hG) st2
  refine ⟨l', s1, he, hr, fun m rest => ?_⟩
  simp only [setFields, setMember_eq_setField urec _ _ _ hK, hset, decSchemaMap, hu, Res.bind_ok]

/-- a `map[string]*Schema` member with `omitempty`, keys ascending -/
theorem sf_keyed (hQ : ∀ s s' x y, Ext s s' → Q s x y → Q s' x y) {K : String}
    {upd : Node → Option (List (String × NodeId)) → Node}
    (hset : ∀ m s v, setField urec m s K v = Res.bind (decSchemaMap urec v s) fun r => .ok (upd m r.1, r.2))
    (hK : canonKey K = K) {c : Option (List (String × NodeId))} {piece : List (String × Json)}
    (hc : ∀ e, e ∈ c.getD [] → ChildRT st mrec urec G Q e.2)
    (hp : mKeyed st mrec K c = .ok piece) (hG : ∀ e, e ∈ piece → Json.size e.2 ≤ G) (st2 : Store) :
    ∃ c' st2', Ext st2 st2' ∧ OptRel (ListRel (KeyRel (Q st2'))) (normMap c) c' ∧
      ∀ (m : Node) (rest : List (String × Json)), upd m none = m →
        setFields urec (piece ++ rest) m st2 = setFields urec rest (upd m c') st2' := by
  cases c with
  | none =>
    cases hp
    exact ⟨none, st2, Ext.refl _, trivial, fun m rest hm => by rw [hm]; rfl⟩
  | some l =>
    cases l with
    | nil =>
      cases hp
      exact ⟨none, st2, Ext.refl _, trivial, fun m rest hm => by rw [hm]; rfl⟩
    | cons x xs =>
      simp only [mKeyed, mSchemaMap] at hp
      obtain ⟨j, h1, h2⟩ := Res.bind_eq_ok hp
      cases h2
      obtain ⟨es, h3, h4⟩ := Res.bind_eq_ok h1
      cases h4
      obtain ⟨l', s1, he, hr, hs⟩ := rt_map_member hQ hset hK
        (fun e he => hc e ((sortKV_perm _).mem_iff.1 he)) h3 (hG (K, .obj es) List.mem_cons_self) st2
      exact ⟨some l', s1, he, hr, fun m rest _ => hs m rest⟩

theorem mem_propEntries {ps : List (String × NodeId)} {order : List String} {e : String × NodeId}
    (he : e ∈ propEntries ps order) : e ∈ ps := by
  unfold propEntries at he
  obtain ⟨k, _, hk⟩ := List.mem_filterMap.1 he
  cases hv : Json.lookup k ps with
  | none => rw [hv] at hk; cases hk
  | some v =>
    rw [hv] at hk
    cases hk
    exact Json.mem_of_lookup hv

/-- "properties", written through orderedProperties -/
theorem sf_props (hQ : ∀ s s' x y, Ext s s' → Q s x y → Q s' x y)
    {c : Option (List (String × NodeId))} {order : List String} {piece : List (String × Json)}
    (hc : ∀ e, e ∈ c.getD [] → ChildRT st mrec urec G Q e.2)
    (hp : mPropsField st mrec c order = .ok piece) (hG : ∀ e, e ∈ piece → Json.size e.2 ≤ G) (st2 : Store) :
    ∃ c' st2', Ext st2 st2' ∧ OptRel (ListRel (KeyRel (Q st2'))) (normProps c order) c' ∧
      ∀ (m : Node) (rest : List (String × Json)), ({ m with properties := none } : Node) = m →
        setFields urec (piece ++ rest) m st2 = setFields urec rest { m with properties := c' } st2' := by
  cases c with
  | none =>
    cases hp
    exact ⟨none, st2, Ext.refl _, trivial, fun m rest hm => by rw [hm]; rfl⟩
  | some l =>
    simp only [mPropsField, mProperties] at hp
    obtain ⟨j, h1, h2⟩ := Res.bind_eq_ok hp
    cases h2
    obtain ⟨es, h3, h4⟩ := Res.bind_eq_ok h1
    cases h4
    obtain ⟨l', s1, he, hr, hs⟩ := rt_map_member (K := "properties") (upd := fun m c => { m with properties := c }) hQ
      (fun _ _ _ => rfl) (by decide)
      (fun e he => hc e (mem_propEntries he)) h3 (hG ("properties", .obj es) List.mem_cons_self) st2
    exact ⟨some l', s1, he, hr, fun m rest _ => hs m rest⟩

/-- the "items" union: one schema or an array of schemas -/
theorem sf_items (hQ : ∀ s s' x y, Ext s s' → Q s x y → Q s' x y)
    {it : Option NodeId} {ia : Option (List NodeId)} {piece : List (String × Json)}
    (hI : (it.isSome && ia.isSome) = false)
    (hc1 : ∀ x, x ∈ it.toList → ChildRT st mrec urec G Q x) (hc2 : ∀ x, x ∈ ia.getD [] → ChildRT st mrec urec G Q x)
    (hp : mItemsField st mrec it ia = .ok piece) (hG : ∀ e, e ∈ piece → Json.size e.2 ≤ G) (st2 : Store) :
    ∃ it' ia' st2', Ext st2 st2' ∧ OptRel (Q st2') it it' ∧ OptRel (ListRel (Q st2')) ia ia' ∧
      ∀ (m : Node) (rest : List (String × Json)), ({ m with items := none, itemsArray := none } : Node) = m →
        setFields urec (piece ++ rest) m st2 = setFields urec rest { m with items := it', itemsArray := ia' } st2' := by
  cases it with
  | some x =>
    have hia : ia = none := by
      cases ia with
      | none => rfl
      | some _ => simp at hI
    subst hia
    simp only [mItemsField, mOne] at hp
    obtain ⟨j, h1, h2⟩ := Res.bind_eq_ok hp
    cases h2
    have hx := hc1 x (by simp)
    rw [hx.mSchema] at h1
    obtain ⟨hsj, hrt⟩ := hx.2 j h1
    obtain ⟨x', s1, hu, he1, hq⟩ := hrt (hG ("items", j) List.mem_cons_self) st2
    refine ⟨some x', none, s1, he1, hq, trivial, fun m rest _ => ?_⟩
    simp only [List.cons_append, List.nil_append, setFields, setMember_eq_setField urec _ _ _ (show canonKey "items" = "items" by decide),
      setField_items_of hsj, hu, Res.bind_ok]
  | none =>
    cases ia with
    | none =>
      cases hp
      exact ⟨none, none, st2, Ext.refl _, trivial, trivial, fun m rest hm => by rw [hm]; rfl⟩
    | some l =>
      simp only [mItemsField] at hp
      obtain ⟨js, h1, h2⟩ := Res.bind_eq_ok hp
      cases h2
      obtain ⟨l', s1, hu, he, hr⟩ := rt_elems hQ l js hc2 h1
        (fun j hj => size_le_of_mem_arr hj (hG ("items", .arr js) List.mem_cons_self)) st2
      refine ⟨none, some l', s1, he, trivial, hr, fun m rest _ => ?_⟩
      have e : setField urec m st2 "items" (.arr js) =
          Res.bind (decSchemaElems urec js st2) fun r => .ok ({ m with itemsArray := some r.1, items := none }, r.2) := rfl
      simp only [List.cons_append, List.nil_append, setFields, setMember_eq_setField urec _ _ _ (show canonKey "items" = "items" by decide),
        e, hu, Res.bind_ok]

end


/-! ## sorting commutes with key-preserving maps, filters and relations -/

theorem sortKV_cons_ne_nil {α} (e : String × α) (es : List (String × α)) : sortKV (e :: es) ≠ [] := by
  intro h0
  have hp := sortKV_perm (e :: es)
  rw [h0] at hp
  exact absurd hp.symm.eq_nil (by simp)

theorem insertKV_listRel {α β : Type} {S : String × α → String × β → Prop} (hk : ∀ a b, S a b → a.1 = b.1)
    {e : String × α} {e' : String × β} (he : S e e') :
    ∀ {l : List (String × α)} {l' : List (String × β)}, ListRel S l l' → ListRel S (insertKV e l) (insertKV e' l')
  | _, _, .nil => .cons he .nil
  | _, _, .cons (a := a) (b := b) h1 h2 => by
    simp only [insertKV]
    rw [← hk _ _ he, ← hk _ _ h1]
    split
    · exact .cons he (.cons h1 h2)
    · exact .cons h1 (insertKV_listRel hk he h2)

theorem sortKV_listRel {α β : Type} {S : String × α → String × β → Prop} (hk : ∀ a b, S a b → a.1 = b.1) :
    ∀ {l : List (String × α)} {l' : List (String × β)}, ListRel S l l' → ListRel S (sortKV l) (sortKV l')
  | _, _, .nil => .nil
  | _, _, .cons h1 h2 => insertKV_listRel hk h1 (sortKV_listRel hk h2)

theorem ListRel.append {α β : Type} {R : α → β → Prop} : ∀ {a : List α} {b : List β} {c : List α} {d : List β},
    ListRel R a b → ListRel R c d → ListRel R (a ++ c) (b ++ d)
  | _, _, _, _, .nil, h => h
  | _, _, _, _, .cons h1 h2, h => .cons h1 (ListRel.append h2 h)

theorem ListRel.map_map {α β γ δ : Type} {R : γ → δ → Prop} (f : α → γ) (g : β → δ) {S : α → β → Prop}
    (h : ∀ a b, S a b → R (f a) (g b)) : ∀ {l : List α} {l' : List β}, ListRel S l l' → ListRel R (l.map f) (l'.map g)
  | _, _, .nil => .nil
  | _, _, .cons h1 h2 => .cons (h _ _ h1) (ListRel.map_map f g h h2)

theorem ListRel.refl_map {α γ δ : Type} {R : γ → δ → Prop} (f : α → γ) (g : α → δ) (h : ∀ a, R (f a) (g a)) :
    ∀ (l : List α), ListRel R (l.map f) (l.map g)
  | [] => .nil
  | a :: l => .cons (h a) (ListRel.refl_map f g h l)

section
variable {α β : Type} (f : String × α → Option (String × β)) (hf : ∀ a b, f a = some b → b.1 = a.1)
include hf

theorem headLe_filterMap {e' : String × β} {l : List (String × α)} (h : ∀ x, x ∈ l → e'.1 ≤ x.1) :
    headLe e' (l.filterMap f) = true := by
  refine headLe_of_forall _ _ fun b hb => ?_
  obtain ⟨a, ha, hab⟩ := List.mem_filterMap.1 hb
  rw [hf a b hab]
  exact h a ha

theorem filterMap_insertKV_some {e : String × α} {e' : String × β} (he : f e = some e') :
    ∀ (l : List (String × α)), l.Pairwise (fun a b => a.1 ≤ b.1) →
      (insertKV e l).filterMap f = insertKV e' (l.filterMap f)
  | [], _ => by
    simp only [insertKV, List.filterMap_cons, he, List.filterMap_nil]
  | x :: xs, h => by
    rw [List.pairwise_cons] at h
    have hke : e'.1 = e.1 := hf e e' he
    simp only [insertKV]
    split
    · next hle =>
      rw [List.filterMap_cons, he]
      refine (insertKV_of_headLe e' _ (headLe_filterMap f hf fun a ha => ?_)).symm
      rw [hke]
      rcases List.mem_cons.1 ha with rfl | ha
      · exact hle
      · exact String.le_trans hle (h.1 a ha)
    · next hnle =>
      have ih := filterMap_insertKV_some he xs h.2
      cases hx : f x with
      | none => simp only [List.filterMap_cons, hx, ih]
      | some x' =>
        have hkx : x'.1 = x.1 := hf x x' hx
        simp only [List.filterMap_cons, hx, ih, insertKV]
        rw [if_neg (by rw [hke, hkx]; exact hnle)]

omit hf in
theorem filterMap_insertKV_none {e : String × α} (he : f e = none) :
    ∀ (l : List (String × α)), (insertKV e l).filterMap f = l.filterMap f
  | [] => by simp only [insertKV, List.filterMap_cons, he, List.filterMap_nil]
  | x :: xs => by
    have ih := filterMap_insertKV_none he xs
    simp only [insertKV]
    split
    · rw [List.filterMap_cons, he]
    · cases hx : f x with
      | none => simp only [List.filterMap_cons, hx, ih]
      | some x' => simp only [List.filterMap_cons, hx, ih]

/-- the entries of a key-sorted list selected (and relabelled) by `f` are the key-sorted selected entries -/
theorem filterMap_sortKV : ∀ (l : List (String × α)), (sortKV l).filterMap f = sortKV (l.filterMap f)
  | [] => rfl
  | a :: l => by
    show (insertKV a (sortKV l)).filterMap f = _
    cases ha : f a with
    | none =>
      rw [filterMap_insertKV_none f ha, filterMap_sortKV l, List.filterMap_cons, ha]
    | some a' =>
      rw [filterMap_insertKV_some f hf ha _ (sortKV_sorted l), filterMap_sortKV l, List.filterMap_cons, ha]
      rfl

end

theorem sortKV_append {α : Type} (a c : List (String × α)) : sortKV (a ++ c) = a.foldr insertKV (sortKV c) := by
  unfold sortKV
  rw [List.foldr_append]

theorem sortKV_append_sortKV {α : Type} (a c : List (String × α)) : sortKV (a ++ sortKV c) = sortKV (a ++ c) := by
  rw [sortKV_append, sortKV_append, sortKV_idem]

/-! ## the draft-07 "dependencies" union -/

/-- an entry of the merged "dependencies" map before it is written: a schema or a string list -/
abbrev DepSrc := String × (NodeId ⊕ List String)

def selSchema (e : DepSrc) : Option (String × NodeId) :=
  match e.2 with
  | .inl x => some (e.1, x)
  | .inr _ => none

def selStrs (e : DepSrc) : Option (String × Option (List String)) :=
  match e.2 with
  | .inl _ => none
  | .inr l => some (e.1, some l)

theorem selSchema_key (a : DepSrc) (b : String × NodeId) (h : selSchema a = some b) : b.1 = a.1 := by
  obtain ⟨k, v⟩ := a
  cases v with
  | inl x => cases h; rfl
  | inr l => cases h

theorem selStrs_key (a : DepSrc) (b : String × Option (List String)) (h : selStrs a = some b) : b.1 = a.1 := by
  obtain ⟨k, v⟩ := a
  cases v with
  | inl x => cases h
  | inr l => cases h; rfl

def tagSchema (e : String × NodeId) : DepSrc := (e.1, .inl e.2)
def tagStrs (e : String × Option (List String)) : DepSrc := (e.1, .inr (e.2.getD []))

theorem filterMap_selSchema_tagSchema : ∀ (l : List (String × NodeId)), (l.map tagSchema).filterMap selSchema = l
  | [] => rfl
  | (k, x) :: l => by
    simp only [List.map_cons, List.filterMap_cons, tagSchema, selSchema, filterMap_selSchema_tagSchema l]

theorem filterMap_selSchema_tagStrs : ∀ (l : List (String × Option (List String))),
    (l.map tagStrs).filterMap selSchema = []
  | [] => rfl
  | (k, x) :: l => by
    simp only [List.map_cons, List.filterMap_cons, tagStrs, selSchema, filterMap_selSchema_tagStrs l]

theorem filterMap_selStrs_tagSchema : ∀ (l : List (String × NodeId)), (l.map tagSchema).filterMap selStrs = []
  | [] => rfl
  | (k, x) :: l => by
    simp only [List.map_cons, List.filterMap_cons, tagSchema, selStrs, filterMap_selStrs_tagSchema l]

theorem filterMap_selStrs_tagStrs : ∀ (l : List (String × Option (List String))),
    (l.map tagStrs).filterMap selStrs = l.map fun e => (e.1, some (e.2.getD []))
  | [] => rfl
  | (k, x) :: l => by
    simp only [List.map_cons, List.filterMap_cons, tagStrs, selStrs, filterMap_selStrs_tagStrs l]

/-- appending what decDependencies collected to a (possibly nil) map field -/
def optApp {α : Type} (o : Option (List α)) (l : List α) : Option (List α) :=
  match l with
  | [] => o
  | _ :: _ => some (o.getD [] ++ l)

theorem optApp_snoc {α : Type} (o : Option (List α)) (x : α) : ∀ (l : List α),
    optApp (some (o.getD [] ++ [x])) l = optApp o (x :: l)
  | [] => rfl
  | y :: l => by
    simp only [optApp, Option.getD_some, List.append_assoc, List.cons_append, List.nil_append]

theorem decDependencies_cons_schema {rec : URec} {j : Json} (hj : IsSchemaJson j) (k : String)
    (rest : List (String × Json)) (m : Node) (st : Store) :
    decDependencies rec ((k, j) :: rest) m st =
      Res.bind (rec j st) fun r =>
        decDependencies rec rest { m with dependencySchemas := some ((m.dependencySchemas.getD []) ++ [(k, r.1)]) } r.2 := by
  cases j <;> first | exact hj.elim | rfl

theorem decDependencies_cons_strs (rec : URec) (k : String) (l : List String)
    (rest : List (String × Json)) (m : Node) (st : Store) :
    decDependencies rec ((k, strs l) :: rest) m st =
      decDependencies rec rest { m with dependencyStrings := some ((m.dependencyStrings.getD []) ++ [(k, some l)]) } st := by
  have e := decStrList_strs l
  unfold strs at e ⊢
  simp only [decDependencies, e, Res.bind_ok]

section
variable {st : Store} {mrec : MRec} {urec : URec} {G : Nat} {Q : Store → NodeId → NodeId → Prop}

/-- an entry of the merged map and the member it is written as -/
def DepRel (st : Store) (mrec : MRec) (a : DepSrc) (b : String × Json) : Prop :=
  a.1 = b.1 ∧
    match a.2 with
    | .inl x => mSchema st mrec x = .ok b.2
    | .inr l => b.2 = strs l

theorem entries_depRel : ∀ (l : List (String × NodeId)) (es : List (String × Json)),
    mSchemaEntries st mrec l = .ok es → ListRel (DepRel st mrec) (l.map tagSchema) es
  | [], es, h => by
    cases h
    exact .nil
  | (k, x) :: l, es, h => by
    simp only [mSchemaEntries] at h
    obtain ⟨j, h1, h2⟩ := Res.bind_eq_ok h
    obtain ⟨es', h3, h4⟩ := Res.bind_eq_ok h2
    cases h4
    exact .cons ⟨rfl, h1⟩ (entries_depRel l es' h3)

theorem rt_deps (hQ : ∀ s s' x y, Ext s s' → Q s x y → Q s' x y) :
    ∀ (src : List DepSrc) (L : List (String × Json)), ListRel (DepRel st mrec) src L →
    (∀ e, e ∈ src.filterMap selSchema → ChildRT st mrec urec G Q e.2) → (∀ e, e ∈ L → Json.size e.2 ≤ G) →
    ∀ (st2 : Store),
    ∃ S' st2', Ext st2 st2' ∧ ListRel (KeyRel (Q st2')) (src.filterMap selSchema) S' ∧
      ∀ (m : Node), decDependencies urec L m st2 =
        .ok ({ m with dependencySchemas := optApp m.dependencySchemas S',
                      dependencyStrings := optApp m.dependencyStrings (src.filterMap selStrs) }, st2')
  | [], L, h, _, _, st2 => by
    cases h.nil_inv
    exact ⟨[], st2, Ext.refl _, .nil, fun _ => rfl⟩
  | (k, .inl x) :: src, L, h, hc, hs, st2 => by
    obtain ⟨⟨k', j⟩, L', rfl, ⟨hk, hj⟩, hl⟩ := h.cons_inv
    have hk' : k = k' := hk
    subst hk'
    have hj' : mSchema st mrec x = .ok j := hj
    have hx : ChildRT st mrec urec G Q x := hc (k, x) (by simp [selSchema])
    rw [hx.mSchema] at hj'
    obtain ⟨hsj, hrt⟩ := hx.2 j hj'
    obtain ⟨x', s1, hu, he1, hq⟩ := hrt (hs (k, j) List.mem_cons_self) st2
    obtain ⟨S'', s2, he2, hr, hd⟩ := rt_deps hQ src L' hl
      (fun e he => hc e (by simp only [List.filterMap_cons, selSchema]; exact List.mem_cons_of_mem _ he))
      (fun e he => hs e (List.mem_cons_of_mem _ he)) s1
    refine ⟨(k, x') :: S'', s2, he1.trans he2, ?_, fun m => ?_⟩
    · simp only [List.filterMap_cons, selSchema]
      exact .cons ⟨rfl, hQ _ _ _ _ he2 hq⟩ hr
    · rw [decDependencies_cons_schema hsj, hu]
      simp only [Res.bind_ok]
      rw [hd]
      dsimp only
      rw [optApp_snoc]
      rfl
  | (k, .inr l) :: src, L, h, hc, hs, st2 => by
    obtain ⟨⟨k', j⟩, L', rfl, ⟨hk, hj⟩, hl⟩ := h.cons_inv
    have hk' : k = k' := hk
    subst hk'
    have hj' : j = strs l := hj
    subst hj'
    obtain ⟨S'', s2, he2, hr, hd⟩ := rt_deps hQ src L' hl
      (fun e he => hc e (by simp only [List.filterMap_cons, selSchema]; exact he))
      (fun e he => hs e (List.mem_cons_of_mem _ he)) st2
    refine ⟨S'', s2, he2, ?_, fun m => ?_⟩
    · simp only [List.filterMap_cons, selSchema]
      exact hr
    · rw [decDependencies_cons_strs, hd]
      dsimp only
      simp only [List.filterMap_cons, selStrs]
      rw [optApp_snoc]

theorem normMap_of_nil {c : Option (List (String × NodeId))} (h : c.getD [] = []) : normMap c = none := by
  cases c with
  | none => rfl
  | some l =>
    cases l with
    | nil => rfl
    | cons _ _ => cases h

theorem normDepStrs_of_nil {c : Option (List (String × Option (List String)))} (h : c.getD [] = []) :
    normDepStrs c = none := by
  cases c with
  | none => rfl
  | some l =>
    cases l with
    | nil => rfl
    | cons _ _ => cases h

theorem optApp_none_sortKV_map (c : Option (List (String × Option (List String)))) :
    optApp none (sortKV ((c.getD []).map fun e => (e.1, some (e.2.getD [])))) = normDepStrs c := by
  cases c with
  | none => rfl
  | some l =>
    cases l with
    | nil => rfl
    | cons a as =>
      show optApp none (sortKV ((a.1, some (a.2.getD [])) :: as.map fun e => (e.1, some (e.2.getD [])))) = _
      cases hT : sortKV ((a.1, some (a.2.getD [])) :: as.map fun e => (e.1, some (e.2.getD []))) with
      | nil => exact absurd hT (sortKV_cons_ne_nil _ _)
      | cons y ys =>
        show some ([] ++ y :: ys) = normDepStrs (some (a :: as))
        rw [List.nil_append, ← hT]
        rfl

theorem optRel_optApp_normMap {R : NodeId → NodeId → Prop} (c : Option (List (String × NodeId)))
    {S' : List (String × NodeId)} (hr : ListRel (KeyRel R) (sortKV (c.getD [])) S') :
    OptRel (ListRel (KeyRel R)) (normMap c) (optApp none S') := by
  cases c with
  | none => cases hr.nil_inv; trivial
  | some l =>
    cases l with
    | nil => cases hr.nil_inv; trivial
    | cons a as =>
      cases S' with
      | nil =>
        have := hr.length_eq
        have h0 : sortKV (a :: as) = [] := List.length_eq_zero_iff.1 this
        exact absurd h0 (sortKV_cons_ne_nil _ _)
      | cons y ys => exact hr

/-- the "dependencies" member: DependencySchemas and DependencyStrings merged into one object -/
theorem sf_deps (hQ : ∀ s s' x y, Ext s s' → Q s x y → Q s' x y)
    {dsch : Option (List (String × NodeId))} {dstrs : Option (List (String × Option (List String)))}
    {deps : Option Json}
    (hcl : depClash (dsch.getD []) (dstrs.getD []) = false)
    (hc : ∀ e, e ∈ dsch.getD [] → ChildRT st mrec urec G Q e.2)
    (hp : mDeps st mrec dsch dstrs = .ok deps) (hG : ∀ e, e ∈ mem "dependencies" deps → Json.size e.2 ≤ G)
    (st2 : Store) :
    ∃ c' st2', Ext st2 st2' ∧ OptRel (ListRel (KeyRel (Q st2'))) (normMap dsch) c' ∧
      ∀ (m : Node) (rest : List (String × Json)),
        ({ m with dependencySchemas := none, dependencyStrings := none } : Node) = m →
        setFields urec (mem "dependencies" deps ++ rest) m st2 =
          setFields urec rest { m with dependencySchemas := c', dependencyStrings := normDepStrs dstrs } st2' := by
  unfold mDeps at hp
  dsimp only at hp
  split at hp
  · next h0 =>
    cases hp
    have hl : (dsch.getD []).length + (dstrs.getD []).length = 0 := by simpa using h0
    have h1 : dsch.getD [] = [] := List.length_eq_zero_iff.1 (by omega)
    have h2 : dstrs.getD [] = [] := List.length_eq_zero_iff.1 (by omega)
    rw [normMap_of_nil h1, normDepStrs_of_nil h2]
    exact ⟨none, st2, Ext.refl _, trivial, fun m rest hm => by rw [hm]; rfl⟩
  · obtain ⟨es, h1, h2⟩ := Res.bind_eq_ok hp
    cases h2
    have hkeys := mSchemaEntries_keys h1
    have hfil : es.filter (fun e => !((dstrs.getD []).any fun d => d.1 == e.1)) = es := by
      refine List.filter_eq_self.2 fun e he => ?_
      have hk : e.1 ∈ (dsch.getD []).map (·.1) := by
        rw [← hkeys]
        exact List.mem_map.2 ⟨e, he, rfl⟩
      obtain ⟨a, ha, hae⟩ := List.mem_map.1 hk
      cases hb : ((dstrs.getD []).any fun d => d.1 == e.1) with
      | false => rfl
      | true =>
        have : depClash (dsch.getD []) (dstrs.getD []) = true := by
          unfold depClash
          refine List.any_eq_true.2 ⟨a, ha, ?_⟩
          rw [← hae] at hb
          exact hb
        rw [hcl] at this
        cases this
    rw [hfil] at hG
    have hrel0 : ListRel (DepRel st mrec) ((dsch.getD []).map tagSchema ++ (dstrs.getD []).map tagStrs)
        (es ++ (dstrs.getD []).map fun (k, l) => (k, strs (l.getD []))) :=
      ListRel.append (entries_depRel _ _ h1) (ListRel.refl_map _ _ (fun _ => ⟨rfl, rfl⟩) _)
    have hrel := sortKV_listRel (fun _ _ h => h.1) hrel0
    have hS : (sortKV ((dsch.getD []).map tagSchema ++ (dstrs.getD []).map tagStrs)).filterMap selSchema =
        sortKV (dsch.getD []) := by
      rw [filterMap_sortKV selSchema selSchema_key, List.filterMap_append, filterMap_selSchema_tagSchema,
        filterMap_selSchema_tagStrs, List.append_nil]
    have hT : (sortKV ((dsch.getD []).map tagSchema ++ (dstrs.getD []).map tagStrs)).filterMap selStrs =
        sortKV ((dstrs.getD []).map fun e => (e.1, some (e.2.getD []))) := by
      rw [filterMap_sortKV selStrs selStrs_key, List.filterMap_append, filterMap_selStrs_tagSchema,
        filterMap_selStrs_tagStrs, List.nil_append]
    have hsz : Json.size (.obj (sortKV (es ++ (dstrs.getD []).map fun (k, l) => (k, strs (l.getD []))))) ≤ G :=
      hG ("dependencies", _) List.mem_cons_self
    obtain ⟨S', s1, he, hr, hd⟩ := rt_deps hQ _ _ hrel
      (fun e he => by
        rw [hS] at he
        exact hc e ((sortKV_perm _).mem_iff.1 he))
      (fun e he => size_le_of_mem_obj he hsz) st2
    rw [hS] at hr
    refine ⟨optApp none S', s1, he, optRel_optApp_normMap dsch hr, fun m rest hm => ?_⟩
    have hm1 : m.dependencySchemas = none := (congrArg Node.dependencySchemas hm).symm
    have hm2 : m.dependencyStrings = none := (congrArg Node.dependencyStrings hm).symm
    have e : setField urec m st2 "dependencies" (.obj (sortKV (es ++ (dstrs.getD []).map fun (k, l) => (k, strs (l.getD []))))) =
        decDependencies urec (sortKV (es ++ (dstrs.getD []).map fun (k, l) => (k, strs (l.getD [])))) m st2 := rfl
    rw [hfil]
    simp only [mem, List.cons_append, List.nil_append, setFields,
      setMember_eq_setField urec _ _ _ (show canonKey "dependencies" = "dependencies" by decide), e, hd, Res.bind_ok,
      hm1, hm2, hT, optApp_none_sortKV_map]

end



/-! ## the `any`-typed and the non-schema map-typed members -/

theorem insertKV_map_val {α β : Type} (F : String × α → String × β) (hF : ∀ e, (F e).1 = e.1) (e : String × α) :
    ∀ (l : List (String × α)), insertKV (F e) (l.map F) = (insertKV e l).map F
  | [] => rfl
  | x :: xs => by
    simp only [List.map_cons, insertKV, hF]
    split
    · rfl
    · simp only [List.map_cons, insertKV_map_val F hF e xs]

/-- sorting by key commutes with a map that keeps the keys -/
theorem sortKV_map_val {α β : Type} (F : String × α → String × β) (hF : ∀ e, (F e).1 = e.1) :
    ∀ (l : List (String × α)), sortKV (l.map F) = (sortKV l).map F
  | [] => rfl
  | a :: l => by
    show insertKV (F a) (sortKV (l.map F)) = (insertKV a (sortKV l)).map F
    rw [sortKV_map_val F hF l, insertKV_map_val F hF]

theorem sf_enum (urec : URec) (N m : Node) (st : Store) (rest : List (String × Json))
    (hs : jsonSortedList (N.enum.getD []) = true) (hm : ({ m with enum := none } : Node) = m) :
    setFields urec (mem "enum" (N.enum.map fun l => sortJson (.arr l)) ++ rest) m st =
      setFields urec rest { m with enum := N.enum } st := by
  cases h : N.enum with
  | none => exact (congrArg (fun x => setFields urec rest x st) hm).symm
  | some l =>
    rw [h] at hs
    have e1 : sortJson (.arr l) = .arr l := by
      simp only [sortJson, sortJsonList_of_sorted l hs]
    have e2 : setField urec m st "enum" (.arr l) = .ok ({ m with enum := some l }, st) := rfl
    simp only [Option.map_some, e1, mem, List.cons_append, List.nil_append,
      setFields_cons_canon urec _ _ _ _ (show canonKey "enum" = "enum" by decide), e2, Res.bind_ok]

theorem sf_const (urec : URec) (N m : Node) (st : Store) (rest : List (String × Json))
    (hs : optSorted N.const = true) (hm : ({ m with const := none } : Node) = m) :
    setFields urec (mem "const" (N.const.map sortJson) ++ rest) m st =
      setFields urec rest { m with const := N.const } st := by
  cases h : N.const with
  | none => exact (congrArg (fun x => setFields urec rest x st) hm).symm
  | some v =>
    rw [h] at hs
    have e1 : sortJson v = v := sortJson_of_sorted v hs
    have e2 : setField urec m st "const" v = .ok ({ m with const := some v }, st) := rfl
    simp only [Option.map_some, e1, mem, List.cons_append, List.nil_append,
      setFields_cons_canon urec _ _ _ _ (show canonKey "const" = "const" by decide), e2, Res.bind_ok]

theorem sf_default (urec : URec) (N m : Node) (st : Store) (rest : List (String × Json))
    (hm : ({ m with default := none } : Node) = m) :
    setFields urec (mem "default" N.default ++ rest) m st = setFields urec rest { m with default := N.default } st := by
  cases h : N.default with
  | none => exact (congrArg (fun x => setFields urec rest x st) hm).symm
  | some v =>
    have e2 : setField urec m st "default" v = .ok ({ m with default := some v }, st) := rfl
    simp only [mem, List.cons_append, List.nil_append,
      setFields_cons_canon urec _ _ _ _ (show canonKey "default" = "default" by decide), e2, Res.bind_ok]

theorem sf_examples (urec : URec) (N m : Node) (st : Store) (rest : List (String × Json))
    (hs : jsonSortedList (N.examples.getD []) = true) (hm : ({ m with examples := none } : Node) = m) :
    setFields urec (mNonEmptyList "examples" N.examples ++ rest) m st =
      setFields urec rest { m with examples := normJL N.examples } st := by
  cases h : N.examples with
  | none => exact (congrArg (fun x => setFields urec rest x st) hm).symm
  | some l =>
    cases l with
    | nil => exact (congrArg (fun x => setFields urec rest x st) hm).symm
    | cons x xs =>
      rw [h] at hs
      have e1 : sortJson (.arr (x :: xs)) = .arr (x :: xs) := by
        simp only [sortJson, sortJsonList_of_sorted (x :: xs) hs]
      have e2 : setField urec m st "examples" (.arr (x :: xs)) = .ok ({ m with examples := some (x :: xs) }, st) := rfl
      simp only [mNonEmptyList, e1, List.cons_append, List.nil_append,
        setFields_cons_canon urec _ _ _ _ (show canonKey "examples" = "examples" by decide), e2, Res.bind_ok, normJL]

theorem foldr_boolMap {F : String × Json → Res (List (String × Bool)) → Res (List (String × Bool))}
    (hF : ∀ k b acc, F (k, .bool b) (.ok acc) = .ok ((k, b) :: acc)) :
    ∀ l : List (String × Bool), List.foldr F (.ok []) (l.map fun x => (x.1, Json.bool x.2)) = .ok l
  | [] => rfl
  | (k, b) :: l => by
    rw [List.map_cons, List.foldr_cons, foldr_boolMap hF l, hF]

theorem decBoolMap_bools (l : List (String × Bool)) :
    decBoolMap (.obj (l.map fun x => (x.1, Json.bool x.2))) = .ok (some l) := by
  unfold decBoolMap
  dsimp only
  rw [foldr_boolMap (fun _ _ _ => rfl)]
  rfl

theorem sf_vocab (urec : URec) (N m : Node) (st : Store) (rest : List (String × Json))
    (hm : ({ m with vocabulary := none } : Node) = m) :
    setFields urec (mVocab N ++ rest) m st = setFields urec rest { m with vocabulary := normVocab N.vocabulary } st := by
  unfold mVocab
  cases h : N.vocabulary with
  | none => exact (congrArg (fun x => setFields urec rest x st) hm).symm
  | some l =>
    dsimp only
    rw [sortKV_map_val (fun x : String × Bool => (x.1, Json.bool x.2)) (fun _ => rfl)]
    have e2 : ∀ v', setField urec m st "$vocabulary" v' =
        Res.bind (decBoolMap v') fun r => .ok ({ m with vocabulary := r }, st) := fun _ => rfl
    simp only [List.cons_append, List.nil_append,
      setFields_cons_canon urec _ _ _ _ (show canonKey "$vocabulary" = "$vocabulary" by decide), e2,
      decBoolMap_bools, Res.bind_ok, normVocab, Option.map_some]

theorem decStrList_optStrs (l : Option (List String)) : decStrList (optStrs l) = .ok l := by
  cases l with
  | none => rfl
  | some l => exact decStrList_strs l

theorem foldr_strListMap {F : String × Json → Res (List (String × Option (List String))) → Res (List (String × Option (List String)))}
    (hF : ∀ k v acc, F (k, v) (.ok acc) = Res.bind (decStrList v) fun sl => .ok ((k, sl) :: acc)) :
    ∀ l : List (String × Option (List String)),
      List.foldr F (.ok []) (l.map fun x => (x.1, optStrs x.2)) = .ok l
  | [] => rfl
  | (k, v) :: l => by
    rw [List.map_cons, List.foldr_cons, foldr_strListMap hF l, hF, decStrList_optStrs]
    rfl

theorem decStrListMap_optStrs (l : List (String × Option (List String))) :
    decStrListMap (.obj (l.map fun x => (x.1, optStrs x.2))) = .ok (some l) := by
  unfold decStrListMap
  dsimp only
  rw [foldr_strListMap (fun _ _ _ => rfl)]
  rfl

theorem sf_depReq (urec : URec) (N m : Node) (st : Store) (rest : List (String × Json))
    (hm : ({ m with dependentRequired := none } : Node) = m) :
    setFields urec (mDepReq N ++ rest) m st =
      setFields urec rest { m with dependentRequired := normKV N.dependentRequired } st := by
  unfold mDepReq
  cases h : N.dependentRequired with
  | none => exact (congrArg (fun x => setFields urec rest x st) hm).symm
  | some l =>
    cases l with
    | nil => exact (congrArg (fun x => setFields urec rest x st) hm).symm
    | cons v vs =>
      dsimp only
      rw [sortKV_map_val (fun x : String × Option (List String) => (x.1, optStrs x.2)) (fun _ => rfl)]
      have e2 : ∀ v', setField urec m st "dependentRequired" v' =
          Res.bind (decStrListMap v') fun r => .ok ({ m with dependentRequired := r }, st) := fun _ => rfl
      simp only [List.cons_append, List.nil_append,
        setFields_cons_canon urec _ _ _ _ (show canonKey "dependentRequired" = "dependentRequired" by decide), e2,
        decStrListMap_optStrs, Res.bind_ok, normKV]



/-! ## helpers for the per-node chain -/

theorem nodeOK_unpack {n : Node} (h : nodeOK n = true) :
    (n.type != "" && n.types.isSome) = false ∧ (n.items.isSome && n.itemsArray.isSome) = false ∧
    depClash (n.dependencySchemas.getD []) (n.dependencyStrings.getD []) = false ∧
    (∀ e, e ∈ n.extra.getD [] → e.1 ∉ knownKeys) ∧ (∀ e, e ∈ n.extra.getD [] → isFoldedKey e.1 = false) ∧
    (∀ e, e ∈ n.extra.getD [] → sortJson e.2 = e.2) ∧
    InInt32 n.minLength ∧ InInt32 n.maxLength ∧ InInt32 n.minItems ∧ InInt32 n.maxItems ∧
    InInt32 n.minContains ∧ InInt32 n.maxContains ∧ InInt32 n.minProperties ∧ InInt32 n.maxProperties ∧
    jsonSortedList (n.enum.getD []) = true ∧ optSorted n.const = true ∧ jsonSortedList (n.examples.getD []) = true := by
  simp only [nodeOK, Bool.and_eq_true, Bool.not_eq_true', List.all_eq_true] at h
  obtain ⟨⟨⟨⟨⟨⟨⟨⟨⟨⟨⟨⟨⟨hchk, hx⟩, hxe⟩, h1⟩, h2⟩, h3⟩, h4⟩, h5⟩, h6⟩, h7⟩, h8⟩, hEn⟩, hC⟩, hEx⟩ := h
  have hb : basicChecksOk n = true := hchk
  rw [basicChecksOk_eq] at hb
  simp only [Bool.and_eq_true, Bool.not_eq_true'] at hb
  refine ⟨hb.1.1.1.1, hb.1.1.2, hb.2, ?_, fun e he => (hxe e he).1, fun e he => sortJson_of_sorted _ (hxe e he).2,
    int32B_sound h1, int32B_sound h2, int32B_sound h3, int32B_sound h4, int32B_sound h5, int32B_sound h6,
    int32B_sound h7, int32B_sound h8, hEn, hC, hEx⟩
  intro e he hc
  have : ((n.extra.getD []).any fun e => structNames.contains e.1) = true :=
    List.any_eq_true.2 ⟨e, he, List.contains_iff_mem.2 ((structNames_iff_knownKeys _).2 hc)⟩
  rw [hx] at this
  cases this

theorem nodeOK_checks {n : Node} (h : nodeOK n = true) :
    marshalChecksOk n = true ∧ ((n.extra.getD []).any fun e => structNames.contains e.1) = false := by
  simp only [nodeOK, Bool.and_eq_true, Bool.not_eq_true'] at h
  obtain ⟨⟨⟨⟨⟨⟨⟨⟨⟨⟨⟨⟨⟨hchk, hx⟩, -⟩, -⟩, -⟩, -⟩, -⟩, -⟩, -⟩, -⟩, -⟩, -⟩, -⟩, -⟩ := h
  exact ⟨hchk, hx⟩

theorem child_one {n : Node} {k : String} {c : Option NodeId} (hf : ChildField.one k c ∈ n.childFields)
    {x : NodeId} (hx : x ∈ c.toList) : x ∈ n.children :=
  mem_children_iff.2 ⟨_, hf, hx⟩

theorem child_many {n : Node} {k : String} {c : Option (List NodeId)} (hf : ChildField.many k c ∈ n.childFields)
    {x : NodeId} (hx : x ∈ c.getD []) : x ∈ n.children :=
  mem_children_iff.2 ⟨_, hf, hx⟩

theorem child_keyed {n : Node} {k : String} {c : Option (List (String × NodeId))}
    (hf : ChildField.keyed k c ∈ n.childFields) {e : String × NodeId} (he : e ∈ c.getD []) : e.2 ∈ n.children :=
  mem_children_iff.2 ⟨_, hf, List.mem_map.2 ⟨e, he, rfl⟩⟩

section
variable {Q : Store → NodeId → NodeId → Prop}

theorem lift_one (hQ : ∀ s s' x y, Ext s s' → Q s x y → Q s' x y) {s s' : Store} (he : Ext s s')
    {c c' : Option NodeId} (h : OptRel (Q s) c c') : OptRel (Q s') c c' :=
  OptRel.imp (fun a b => hQ s s' a b he) h

theorem lift_many (hQ : ∀ s s' x y, Ext s s' → Q s x y → Q s' x y) {s s' : Store} (he : Ext s s')
    {c c' : Option (List NodeId)} (h : OptRel (ListRel (Q s)) c c') : OptRel (ListRel (Q s')) c c' :=
  OptRel.imp (fun _ _ => ListRel.imp (fun a b => hQ s s' a b he)) h

theorem lift_keyed (hQ : ∀ s s' x y, Ext s s' → Q s x y → Q s' x y) {s s' : Store} (he : Ext s s')
    {c c' : Option (List (String × NodeId))} (h : OptRel (ListRel (KeyRel (Q s))) c c') :
    OptRel (ListRel (KeyRel (Q s'))) c c' :=
  OptRel.imp (fun _ _ => ListRel.imp (KeyRel.imp (fun a b => hQ s s' a b he))) h

end

theorem optRel_none_of {α β : Type} {R : α → β → Prop} {c : Option α} (h : c = none) : OptRel R c none := by
  subst h
  trivial


set_option linter.unusedSimpArgs false

/-! ## all members of one node (generated chain) -/

/-- the members of a node in emission order, given the marshalled schema-valued members, as a right-nested
    append; `tail` is Extra -/
def treeMembers (n : Node) (props : List (String × Json)) (deps : Option Json) (items defs definitions prefixItems additionalItems contains unevaluatedItems patternProperties additionalProperties propertyNames unevaluatedProperties allOf anyOf oneOf not_ if_ then_ else_ dependentSchemas contentSchema : List (String × Json)) (tail : List (String × Json)) : List (String × Json) :=
  mTyp n ++ (props ++ (mem "dependencies" deps ++ (items ++ (mem "enum" (n.enum.map fun l => sortJson (.arr l)) ++ (anyOf ++ (oneOf ++ (mVocab n ++ (mStr "$id" n.id ++ (mStr "$schema" n.schema ++ (mStr "$ref" n.ref ++ (mStr "$comment" n.comment ++ (defs ++ (definitions ++ (mStr "$anchor" n.anchor ++ (mStr "$dynamicAnchor" n.dynamicAnchor ++ (mStr "$dynamicRef" n.dynamicRef ++ (mStr "title" n.title ++ (mStr "description" n.description ++ (mem "default" n.default ++ (mBool "deprecated" n.deprecated ++ (mBool "readOnly" n.readOnly ++ (mBool "writeOnly" n.writeOnly ++ (mNonEmptyList "examples" n.examples ++ (mem "const" (n.const.map sortJson) ++ (mNum "multipleOf" n.multipleOf ++ (mNum "minimum" n.minimum ++ (mNum "maximum" n.maximum ++ (mNum "exclusiveMinimum" n.exclusiveMinimum ++ (mNum "exclusiveMaximum" n.exclusiveMaximum ++ (mInt "minLength" n.minLength ++ (mInt "maxLength" n.maxLength ++ (mStr "pattern" n.pattern ++ (prefixItems ++ (mInt "minItems" n.minItems ++ (mInt "maxItems" n.maxItems ++ (additionalItems ++ (mBool "uniqueItems" n.uniqueItems ++ (contains ++ (mInt "minContains" n.minContains ++ (mInt "maxContains" n.maxContains ++ (unevaluatedItems ++ (mInt "minProperties" n.minProperties ++ (mInt "maxProperties" n.maxProperties ++ (mRequired n ++ (mDepReq n ++ (patternProperties ++ (additionalProperties ++ (propertyNames ++ (unevaluatedProperties ++ (allOf ++ (not_ ++ (if_ ++ (then_ ++ (else_ ++ (dependentSchemas ++ (mStr "contentEncoding" n.contentEncoding ++ (mStr "contentMediaType" n.contentMediaType ++ (contentSchema ++ (mStr "format" n.format ++ (tail))))))))))))))))))))))))))))))))))))))))))))))))))))))))))))

theorem mMembers_tree (n : Node) (props : List (String × Json)) (deps : Option Json) (items defs definitions prefixItems additionalItems contains unevaluatedItems patternProperties additionalProperties propertyNames unevaluatedProperties allOf anyOf oneOf not_ if_ then_ else_ dependentSchemas contentSchema : List (String × Json)) :
    mMembers n props deps items defs definitions prefixItems additionalItems contains unevaluatedItems patternProperties additionalProperties propertyNames unevaluatedProperties allOf anyOf oneOf not_ if_ then_ else_ dependentSchemas contentSchema = treeMembers n props deps items defs definitions prefixItems additionalItems contains unevaluatedItems patternProperties additionalProperties propertyNames unevaluatedProperties allOf anyOf oneOf not_ if_ then_ else_ dependentSchemas contentSchema (mExtra n) := by
  unfold mMembers treeMembers
  simp only [List.append_assoc]

/-- the node UnmarshalJSON builds from the members of `n`, given the rebuilt children -/
def finalNode (n : Node) (c_props : Option (List (String × NodeId))) (c_deps : Option (List (String × NodeId))) (c_items : Option NodeId) (c_itemsArray : Option (List NodeId)) (c_anyOf : Option (List NodeId)) (c_oneOf : Option (List NodeId)) (c_defs : Option (List (String × NodeId))) (c_definitions : Option (List (String × NodeId))) (c_prefixItems : Option (List NodeId)) (c_additionalItems : Option NodeId) (c_contains : Option NodeId) (c_unevaluatedItems : Option NodeId) (c_patternProperties : Option (List (String × NodeId))) (c_additionalProperties : Option NodeId) (c_propertyNames : Option NodeId) (c_unevaluatedProperties : Option NodeId) (c_allOf : Option (List NodeId)) (c_not_ : Option NodeId) (c_if_ : Option NodeId) (c_then_ : Option NodeId) (c_else_ : Option NodeId) (c_dependentSchemas : Option (List (String × NodeId))) (c_contentSchema : Option NodeId) : Node :=
  { type := n.type, types := n.types, id := n.id, schema := n.schema, ref := n.ref, comment := n.comment, anchor := n.anchor, dynamicAnchor := n.dynamicAnchor, dynamicRef := n.dynamicRef, title := n.title, description := n.description, deprecated := n.deprecated, readOnly := n.readOnly, writeOnly := n.writeOnly, multipleOf := n.multipleOf, minimum := n.minimum, maximum := n.maximum, exclusiveMinimum := n.exclusiveMinimum, exclusiveMaximum := n.exclusiveMaximum, minLength := n.minLength, maxLength := n.maxLength, pattern := n.pattern, minItems := n.minItems, maxItems := n.maxItems, uniqueItems := n.uniqueItems, minContains := n.minContains, maxContains := n.maxContains, minProperties := n.minProperties, maxProperties := n.maxProperties, contentEncoding := n.contentEncoding, contentMediaType := n.contentMediaType, format := n.format, required := normReq n.required, extra := normExtra n.extra, enum := n.enum, const := n.const, default := n.default, examples := normJL n.examples, vocabulary := normVocab n.vocabulary, dependentRequired := normKV n.dependentRequired, dependencyStrings := normDepStrs n.dependencyStrings, properties := c_props, dependencySchemas := c_deps, items := c_items, itemsArray := c_itemsArray, anyOf := c_anyOf, oneOf := c_oneOf, defs := c_defs, definitions := c_definitions, prefixItems := c_prefixItems, additionalItems := c_additionalItems, contains := c_contains, unevaluatedItems := c_unevaluatedItems, patternProperties := c_patternProperties, additionalProperties := c_additionalProperties, propertyNames := c_propertyNames, unevaluatedProperties := c_unevaluatedProperties, allOf := c_allOf, not := c_not_, if_ := c_if_, then_ := c_then_, else_ := c_else_, dependentSchemas := c_dependentSchemas, contentSchema := c_contentSchema }

theorem finalNode_eq (n : Node) (c_props : Option (List (String × NodeId))) (c_deps : Option (List (String × NodeId))) (c_items : Option NodeId) (c_itemsArray : Option (List NodeId)) (c_anyOf : Option (List NodeId)) (c_oneOf : Option (List NodeId)) (c_defs : Option (List (String × NodeId))) (c_definitions : Option (List (String × NodeId))) (c_prefixItems : Option (List NodeId)) (c_additionalItems : Option NodeId) (c_contains : Option NodeId) (c_unevaluatedItems : Option NodeId) (c_patternProperties : Option (List (String × NodeId))) (c_additionalProperties : Option NodeId) (c_propertyNames : Option NodeId) (c_unevaluatedProperties : Option NodeId) (c_allOf : Option (List NodeId)) (c_not_ : Option NodeId) (c_if_ : Option NodeId) (c_then_ : Option NodeId) (c_else_ : Option NodeId) (c_dependentSchemas : Option (List (String × NodeId))) (c_contentSchema : Option NodeId) :
    finalNode n c_props c_deps c_items c_itemsArray c_anyOf c_oneOf c_defs c_definitions c_prefixItems c_additionalItems c_contains c_unevaluatedItems c_patternProperties c_additionalProperties c_propertyNames c_unevaluatedProperties c_allOf c_not_ c_if_ c_then_ c_else_ c_dependentSchemas c_contentSchema =
      setChildFields (normNode n) [.keyed "$defs" c_defs, .one "additionalItems" c_additionalItems, .one "additionalProperties" c_additionalProperties, .many "allOf" c_allOf, .many "anyOf" c_anyOf, .one "contains" c_contains, .one "contentSchema" c_contentSchema, .keyed "definitions" c_definitions, .keyed "dependencies" c_deps, .keyed "dependentSchemas" c_dependentSchemas, .one "else" c_else_, .one "if" c_if_, .one "items" c_items, .many "items" c_itemsArray, .one "not" c_not_, .many "oneOf" c_oneOf, .keyed "patternProperties" c_patternProperties, .many "prefixItems" c_prefixItems, .keyed "properties" c_props, .one "propertyNames" c_propertyNames, .one "then" c_then_, .one "unevaluatedItems" c_unevaluatedItems, .one "unevaluatedProperties" c_unevaluatedProperties] := by
  cases n
  rfl

theorem node_chain {st : Store} {mrec : MRec} {urec : URec} {G : Nat} {Q : Store → NodeId → NodeId → Prop}
    (hQ : ∀ s s' x y, Ext s s' → Q s x y → Q s' x y) (n : Node) (hok : nodeOK n = true)
    (hch : ∀ x, x ∈ n.children → ChildRT st mrec urec G Q x)
    {props : List (String × Json)} {deps : Option Json} {items defs definitions prefixItems additionalItems contains unevaluatedItems patternProperties additionalProperties propertyNames unevaluatedProperties allOf anyOf oneOf not_ if_ then_ else_ dependentSchemas contentSchema : List (String × Json)}
    (e_props : mPropsField st mrec n.properties (n.propertyOrder.getD []) = .ok props)
    (e_deps : mDeps st mrec n.dependencySchemas n.dependencyStrings = .ok deps)
    (e_items : mItemsField st mrec n.items n.itemsArray = .ok items)
    (e_defs : mKeyed st mrec "$defs" n.defs = .ok defs)
    (e_definitions : mKeyed st mrec "definitions" n.definitions = .ok definitions)
    (e_prefixItems : mMany st mrec "prefixItems" n.prefixItems = .ok prefixItems)
    (e_additionalItems : mOne st mrec "additionalItems" n.additionalItems = .ok additionalItems)
    (e_contains : mOne st mrec "contains" n.contains = .ok contains)
    (e_unevaluatedItems : mOne st mrec "unevaluatedItems" n.unevaluatedItems = .ok unevaluatedItems)
    (e_patternProperties : mKeyed st mrec "patternProperties" n.patternProperties = .ok patternProperties)
    (e_additionalProperties : mOne st mrec "additionalProperties" n.additionalProperties = .ok additionalProperties)
    (e_propertyNames : mOne st mrec "propertyNames" n.propertyNames = .ok propertyNames)
    (e_unevaluatedProperties : mOne st mrec "unevaluatedProperties" n.unevaluatedProperties = .ok unevaluatedProperties)
    (e_allOf : mMany st mrec "allOf" n.allOf = .ok allOf)
    (e_anyOf : mManyNN st mrec "anyOf" n.anyOf = .ok anyOf)
    (e_oneOf : mManyNN st mrec "oneOf" n.oneOf = .ok oneOf)
    (e_not_ : mOne st mrec "not" n.not = .ok not_)
    (e_if_ : mOne st mrec "if" n.if_ = .ok if_)
    (e_then_ : mOne st mrec "then" n.then_ = .ok then_)
    (e_else_ : mOne st mrec "else" n.else_ = .ok else_)
    (e_dependentSchemas : mKeyed st mrec "dependentSchemas" n.dependentSchemas = .ok dependentSchemas)
    (e_contentSchema : mOne st mrec "contentSchema" n.contentSchema = .ok contentSchema)
    (hG : ∀ e, e ∈ treeMembers n props deps items defs definitions prefixItems additionalItems contains unevaluatedItems patternProperties additionalProperties propertyNames unevaluatedProperties allOf anyOf oneOf not_ if_ then_ else_ dependentSchemas contentSchema (mExtra n) → Json.size e.2 ≤ G) (st2 : Store) :
    ∃ N s, setFields urec (treeMembers n props deps items defs definitions prefixItems additionalItems contains unevaluatedItems patternProperties additionalProperties propertyNames unevaluatedProperties allOf anyOf oneOf not_ if_ then_ else_ dependentSchemas contentSchema (mExtra n)) emptyNode st2 = .ok (N, s) ∧ Ext st2 s ∧
      NodeRel (Q s) (normNode n) N := by
  obtain ⟨hT, hI, hcl, hk, hf, hsj, hw_minLength, hw_maxLength, hw_minItems, hw_maxItems, hw_minContains, hw_maxContains, hw_minProperties, hw_maxProperties, hsEnum, hsConst, hsEx⟩ := nodeOK_unpack hok
  obtain ⟨c_props, s1, x1, r_props, h_props⟩ := sf_props hQ (c := n.properties)
    (fun e he => hch e.2 (child_keyed (k := "properties") (by simp only [Node.childFields, List.mem_cons, true_or, or_true]) he)) e_props
    (fun e he => hG e (by unfold treeMembers; simp only [List.mem_append, he, true_or, or_true])) st2
  obtain ⟨c_deps, s2, x2, r_deps, h_deps⟩ := sf_deps hQ (dsch := n.dependencySchemas) (dstrs := n.dependencyStrings) hcl
    (fun e he => hch e.2 (child_keyed (k := "dependencies") (by simp only [Node.childFields, List.mem_cons, true_or, or_true]) he)) e_deps
    (fun e he => hG e (by unfold treeMembers; simp only [List.mem_append, he, true_or, or_true])) s1
  obtain ⟨c_items, c_itemsArray, s3, x3, r_items, r_itemsArray, h_items⟩ := sf_items hQ (it := n.items) (ia := n.itemsArray) hI
    (fun x hx => hch x (child_one (k := "items") (by simp only [Node.childFields, List.mem_cons, true_or, or_true]) hx))
    (fun x hx => hch x (child_many (k := "items") (by simp only [Node.childFields, List.mem_cons, true_or, or_true]) hx)) e_items
    (fun e he => hG e (by unfold treeMembers; simp only [List.mem_append, he, true_or, or_true])) s2
  obtain ⟨c_anyOf, s4, x4, r_anyOf, h_anyOf⟩ := sf_manyNN hQ (K := "anyOf") (upd := fun m c => { m with anyOf := c })
    (fun _ _ _ => rfl) (by decide) (c := n.anyOf)
    (fun x hx => hch x (child_many (k := "anyOf") (by simp only [Node.childFields, List.mem_cons, true_or, or_true]) hx)) e_anyOf
    (fun e he => hG e (by unfold treeMembers; simp only [List.mem_append, he, true_or, or_true])) s3
  obtain ⟨c_oneOf, s5, x5, r_oneOf, h_oneOf⟩ := sf_manyNN hQ (K := "oneOf") (upd := fun m c => { m with oneOf := c })
    (fun _ _ _ => rfl) (by decide) (c := n.oneOf)
    (fun x hx => hch x (child_many (k := "oneOf") (by simp only [Node.childFields, List.mem_cons, true_or, or_true]) hx)) e_oneOf
    (fun e he => hG e (by unfold treeMembers; simp only [List.mem_append, he, true_or, or_true])) s4
  obtain ⟨c_defs, s6, x6, r_defs, h_defs⟩ := sf_keyed hQ (K := "$defs") (upd := fun m c => { m with defs := c })
    (fun _ _ _ => rfl) (by decide) (c := n.defs)
    (fun e he => hch e.2 (child_keyed (k := "$defs") (by simp only [Node.childFields, List.mem_cons, true_or, or_true]) he)) e_defs
    (fun e he => hG e (by unfold treeMembers; simp only [List.mem_append, he, true_or, or_true])) s5
  obtain ⟨c_definitions, s7, x7, r_definitions, h_definitions⟩ := sf_keyed hQ (K := "definitions") (upd := fun m c => { m with definitions := c })
    (fun _ _ _ => rfl) (by decide) (c := n.definitions)
    (fun e he => hch e.2 (child_keyed (k := "definitions") (by simp only [Node.childFields, List.mem_cons, true_or, or_true]) he)) e_definitions
    (fun e he => hG e (by unfold treeMembers; simp only [List.mem_append, he, true_or, or_true])) s6
  obtain ⟨c_prefixItems, s8, x8, r_prefixItems, h_prefixItems⟩ := sf_many hQ (K := "prefixItems") (upd := fun m c => { m with prefixItems := c })
    (fun _ _ _ => rfl) (by decide) (c := n.prefixItems)
    (fun x hx => hch x (child_many (k := "prefixItems") (by simp only [Node.childFields, List.mem_cons, true_or, or_true]) hx)) e_prefixItems
    (fun e he => hG e (by unfold treeMembers; simp only [List.mem_append, he, true_or, or_true])) s7
  obtain ⟨c_additionalItems, s9, x9, r_additionalItems, h_additionalItems⟩ := sf_one hQ (K := "additionalItems") (upd := fun m c => { m with additionalItems := c })
    (fun _ _ _ => rfl) (by decide) (c := n.additionalItems)
    (fun x hx => hch x (child_one (k := "additionalItems") (by simp only [Node.childFields, List.mem_cons, true_or, or_true]) hx)) e_additionalItems
    (fun e he => hG e (by unfold treeMembers; simp only [List.mem_append, he, true_or, or_true])) s8
  obtain ⟨c_contains, s10, x10, r_contains, h_contains⟩ := sf_one hQ (K := "contains") (upd := fun m c => { m with contains := c })
    (fun _ _ _ => rfl) (by decide) (c := n.contains)
    (fun x hx => hch x (child_one (k := "contains") (by simp only [Node.childFields, List.mem_cons, true_or, or_true]) hx)) e_contains
    (fun e he => hG e (by unfold treeMembers; simp only [List.mem_append, he, true_or, or_true])) s9
  obtain ⟨c_unevaluatedItems, s11, x11, r_unevaluatedItems, h_unevaluatedItems⟩ := sf_one hQ (K := "unevaluatedItems") (upd := fun m c => { m with unevaluatedItems := c })
    (fun _ _ _ => rfl) (by decide) (c := n.unevaluatedItems)
    (fun x hx => hch x (child_one (k := "unevaluatedItems") (by simp only [Node.childFields, List.mem_cons, true_or, or_true]) hx)) e_unevaluatedItems
    (fun e he => hG e (by unfold treeMembers; simp only [List.mem_append, he, true_or, or_true])) s10
  obtain ⟨c_patternProperties, s12, x12, r_patternProperties, h_patternProperties⟩ := sf_keyed hQ (K := "patternProperties") (upd := fun m c => { m with patternProperties := c })
    (fun _ _ _ => rfl) (by decide) (c := n.patternProperties)
    (fun e he => hch e.2 (child_keyed (k := "patternProperties") (by simp only [Node.childFields, List.mem_cons, true_or, or_true]) he)) e_patternProperties
    (fun e he => hG e (by unfold treeMembers; simp only [List.mem_append, he, true_or, or_true])) s11
  obtain ⟨c_additionalProperties, s13, x13, r_additionalProperties, h_additionalProperties⟩ := sf_one hQ (K := "additionalProperties") (upd := fun m c => { m with additionalProperties := c })
    (fun _ _ _ => rfl) (by decide) (c := n.additionalProperties)
    (fun x hx => hch x (child_one (k := "additionalProperties") (by simp only [Node.childFields, List.mem_cons, true_or, or_true]) hx)) e_additionalProperties
    (fun e he => hG e (by unfold treeMembers; simp only [List.mem_append, he, true_or, or_true])) s12
  obtain ⟨c_propertyNames, s14, x14, r_propertyNames, h_propertyNames⟩ := sf_one hQ (K := "propertyNames") (upd := fun m c => { m with propertyNames := c })
    (fun _ _ _ => rfl) (by decide) (c := n.propertyNames)
    (fun x hx => hch x (child_one (k := "propertyNames") (by simp only [Node.childFields, List.mem_cons, true_or, or_true]) hx)) e_propertyNames
    (fun e he => hG e (by unfold treeMembers; simp only [List.mem_append, he, true_or, or_true])) s13
  obtain ⟨c_unevaluatedProperties, s15, x15, r_unevaluatedProperties, h_unevaluatedProperties⟩ := sf_one hQ (K := "unevaluatedProperties") (upd := fun m c => { m with unevaluatedProperties := c })
    (fun _ _ _ => rfl) (by decide) (c := n.unevaluatedProperties)
    (fun x hx => hch x (child_one (k := "unevaluatedProperties") (by simp only [Node.childFields, List.mem_cons, true_or, or_true]) hx)) e_unevaluatedProperties
    (fun e he => hG e (by unfold treeMembers; simp only [List.mem_append, he, true_or, or_true])) s14
  obtain ⟨c_allOf, s16, x16, r_allOf, h_allOf⟩ := sf_many hQ (K := "allOf") (upd := fun m c => { m with allOf := c })
    (fun _ _ _ => rfl) (by decide) (c := n.allOf)
    (fun x hx => hch x (child_many (k := "allOf") (by simp only [Node.childFields, List.mem_cons, true_or, or_true]) hx)) e_allOf
    (fun e he => hG e (by unfold treeMembers; simp only [List.mem_append, he, true_or, or_true])) s15
  obtain ⟨c_not_, s17, x17, r_not_, h_not_⟩ := sf_one hQ (K := "not") (upd := fun m c => { m with not := c })
    (fun _ _ _ => rfl) (by decide) (c := n.not)
    (fun x hx => hch x (child_one (k := "not") (by simp only [Node.childFields, List.mem_cons, true_or, or_true]) hx)) e_not_
    (fun e he => hG e (by unfold treeMembers; simp only [List.mem_append, he, true_or, or_true])) s16
  obtain ⟨c_if_, s18, x18, r_if_, h_if_⟩ := sf_one hQ (K := "if") (upd := fun m c => { m with if_ := c })
    (fun _ _ _ => rfl) (by decide) (c := n.if_)
    (fun x hx => hch x (child_one (k := "if") (by simp only [Node.childFields, List.mem_cons, true_or, or_true]) hx)) e_if_
    (fun e he => hG e (by unfold treeMembers; simp only [List.mem_append, he, true_or, or_true])) s17
  obtain ⟨c_then_, s19, x19, r_then_, h_then_⟩ := sf_one hQ (K := "then") (upd := fun m c => { m with then_ := c })
    (fun _ _ _ => rfl) (by decide) (c := n.then_)
    (fun x hx => hch x (child_one (k := "then") (by simp only [Node.childFields, List.mem_cons, true_or, or_true]) hx)) e_then_
    (fun e he => hG e (by unfold treeMembers; simp only [List.mem_append, he, true_or, or_true])) s18
  obtain ⟨c_else_, s20, x20, r_else_, h_else_⟩ := sf_one hQ (K := "else") (upd := fun m c => { m with else_ := c })
    (fun _ _ _ => rfl) (by decide) (c := n.else_)
    (fun x hx => hch x (child_one (k := "else") (by simp only [Node.childFields, List.mem_cons, true_or, or_true]) hx)) e_else_
    (fun e he => hG e (by unfold treeMembers; simp only [List.mem_append, he, true_or, or_true])) s19
  obtain ⟨c_dependentSchemas, s21, x21, r_dependentSchemas, h_dependentSchemas⟩ := sf_keyed hQ (K := "dependentSchemas") (upd := fun m c => { m with dependentSchemas := c })
    (fun _ _ _ => rfl) (by decide) (c := n.dependentSchemas)
    (fun e he => hch e.2 (child_keyed (k := "dependentSchemas") (by simp only [Node.childFields, List.mem_cons, true_or, or_true]) he)) e_dependentSchemas
    (fun e he => hG e (by unfold treeMembers; simp only [List.mem_append, he, true_or, or_true])) s20
  obtain ⟨c_contentSchema, s22, x22, r_contentSchema, h_contentSchema⟩ := sf_one hQ (K := "contentSchema") (upd := fun m c => { m with contentSchema := c })
    (fun _ _ _ => rfl) (by decide) (c := n.contentSchema)
    (fun x hx => hch x (child_one (k := "contentSchema") (by simp only [Node.childFields, List.mem_cons, true_or, or_true]) hx)) e_contentSchema
    (fun e he => hG e (by unfold treeMembers; simp only [List.mem_append, he, true_or, or_true])) s21
  have X22 : Ext s22 s22 := Ext.refl _
  have X21 : Ext s21 s22 := x22.trans X22
  have X20 : Ext s20 s22 := x21.trans X21
  have X19 : Ext s19 s22 := x20.trans X20
  have X18 : Ext s18 s22 := x19.trans X19
  have X17 : Ext s17 s22 := x18.trans X18
  have X16 : Ext s16 s22 := x17.trans X17
  have X15 : Ext s15 s22 := x16.trans X16
  have X14 : Ext s14 s22 := x15.trans X15
  have X13 : Ext s13 s22 := x14.trans X14
  have X12 : Ext s12 s22 := x13.trans X13
  have X11 : Ext s11 s22 := x12.trans X12
  have X10 : Ext s10 s22 := x11.trans X11
  have X9 : Ext s9 s22 := x10.trans X10
  have X8 : Ext s8 s22 := x9.trans X9
  have X7 : Ext s7 s22 := x8.trans X8
  have X6 : Ext s6 s22 := x7.trans X7
  have X5 : Ext s5 s22 := x6.trans X6
  have X4 : Ext s4 s22 := x5.trans X5
  have X3 : Ext s3 s22 := x4.trans X4
  have X2 : Ext s2 s22 := x3.trans X3
  have X1 : Ext s1 s22 := x2.trans X2
  have X0 : Ext st2 s22 := x1.trans X1
  refine ⟨finalNode n c_props c_deps c_items c_itemsArray c_anyOf c_oneOf c_defs c_definitions c_prefixItems c_additionalItems c_contains c_unevaluatedItems c_patternProperties c_additionalProperties c_propertyNames c_unevaluatedProperties c_allOf c_not_ c_if_ c_then_ c_else_ c_dependentSchemas c_contentSchema, s22, ?_, X0, ?_⟩
  · unfold treeMembers
    refine (sf_typ urec n emptyNode st2 _ hT rfl rfl).trans ?_
    dsimp only [emptyNode]
    refine (h_props _ _ rfl).trans ?_
    dsimp only
    refine (h_deps _ _ rfl).trans ?_
    dsimp only
    refine (h_items _ _ rfl).trans ?_
    dsimp only
    refine (sf_enum urec n _ s3 _ hsEnum rfl).trans ?_
    dsimp only
    refine (h_anyOf _ _ rfl).trans ?_
    dsimp only
    refine (h_oneOf _ _ rfl).trans ?_
    dsimp only
    refine (sf_vocab urec n _ s5 _ rfl).trans ?_
    dsimp only
    refine (sf_str_gen (K := "$id") (upd := fun m s => { m with id := s }) (fun _ _ _ => rfl) (by decide) _ s5 n.id _ rfl).trans ?_
    dsimp only
    refine (sf_str_gen (K := "$schema") (upd := fun m s => { m with schema := s }) (fun _ _ _ => rfl) (by decide) _ s5 n.schema _ rfl).trans ?_
    dsimp only
    refine (sf_str_gen (K := "$ref") (upd := fun m s => { m with ref := s }) (fun _ _ _ => rfl) (by decide) _ s5 n.ref _ rfl).trans ?_
    dsimp only
    refine (sf_str_gen (K := "$comment") (upd := fun m s => { m with comment := s }) (fun _ _ _ => rfl) (by decide) _ s5 n.comment _ rfl).trans ?_
    dsimp only
    refine (h_defs _ _ rfl).trans ?_
    dsimp only
    refine (h_definitions _ _ rfl).trans ?_
    dsimp only
    refine (sf_str_gen (K := "$anchor") (upd := fun m s => { m with anchor := s }) (fun _ _ _ => rfl) (by decide) _ s7 n.anchor _ rfl).trans ?_
    dsimp only
    refine (sf_str_gen (K := "$dynamicAnchor") (upd := fun m s => { m with dynamicAnchor := s }) (fun _ _ _ => rfl) (by decide) _ s7 n.dynamicAnchor _ rfl).trans ?_
    dsimp only
    refine (sf_str_gen (K := "$dynamicRef") (upd := fun m s => { m with dynamicRef := s }) (fun _ _ _ => rfl) (by decide) _ s7 n.dynamicRef _ rfl).trans ?_
    dsimp only
    refine (sf_str_gen (K := "title") (upd := fun m s => { m with title := s }) (fun _ _ _ => rfl) (by decide) _ s7 n.title _ rfl).trans ?_
    dsimp only
    refine (sf_str_gen (K := "description") (upd := fun m s => { m with description := s }) (fun _ _ _ => rfl) (by decide) _ s7 n.description _ rfl).trans ?_
    dsimp only
    refine (sf_default urec n _ s7 _ rfl).trans ?_
    dsimp only
    refine (sf_bool_gen (K := "deprecated") (upd := fun m s => { m with deprecated := s }) (fun _ _ => rfl) (by decide) _ s7 n.deprecated _ rfl).trans ?_
    dsimp only
    refine (sf_bool_gen (K := "readOnly") (upd := fun m s => { m with readOnly := s }) (fun _ _ => rfl) (by decide) _ s7 n.readOnly _ rfl).trans ?_
    dsimp only
    refine (sf_bool_gen (K := "writeOnly") (upd := fun m s => { m with writeOnly := s }) (fun _ _ => rfl) (by decide) _ s7 n.writeOnly _ rfl).trans ?_
    dsimp only
    refine (sf_examples urec n _ s7 _ hsEx rfl).trans ?_
    dsimp only
    refine (sf_const urec n _ s7 _ hsConst rfl).trans ?_
    dsimp only
    refine (sf_num_gen (K := "multipleOf") (upd := fun m s => { m with multipleOf := s }) (fun _ _ _ => rfl) (by decide) _ s7 n.multipleOf _ rfl).trans ?_
    dsimp only
    refine (sf_num_gen (K := "minimum") (upd := fun m s => { m with minimum := s }) (fun _ _ _ => rfl) (by decide) _ s7 n.minimum _ rfl).trans ?_
    dsimp only
    refine (sf_num_gen (K := "maximum") (upd := fun m s => { m with maximum := s }) (fun _ _ _ => rfl) (by decide) _ s7 n.maximum _ rfl).trans ?_
    dsimp only
    refine (sf_num_gen (K := "exclusiveMinimum") (upd := fun m s => { m with exclusiveMinimum := s }) (fun _ _ _ => rfl) (by decide) _ s7 n.exclusiveMinimum _ rfl).trans ?_
    dsimp only
    refine (sf_num_gen (K := "exclusiveMaximum") (upd := fun m s => { m with exclusiveMaximum := s }) (fun _ _ _ => rfl) (by decide) _ s7 n.exclusiveMaximum _ rfl).trans ?_
    dsimp only
    refine (sf_int_gen (K := "minLength") (upd := fun m s => { m with minLength := s }) (fun _ _ _ => rfl) (by decide) _ s7 n.minLength _ hw_minLength rfl).trans ?_
    dsimp only
    refine (sf_int_gen (K := "maxLength") (upd := fun m s => { m with maxLength := s }) (fun _ _ _ => rfl) (by decide) _ s7 n.maxLength _ hw_maxLength rfl).trans ?_
    dsimp only
    refine (sf_str_gen (K := "pattern") (upd := fun m s => { m with pattern := s }) (fun _ _ _ => rfl) (by decide) _ s7 n.pattern _ rfl).trans ?_
    dsimp only
    refine (h_prefixItems _ _ rfl).trans ?_
    dsimp only
    refine (sf_int_gen (K := "minItems") (upd := fun m s => { m with minItems := s }) (fun _ _ _ => rfl) (by decide) _ s8 n.minItems _ hw_minItems rfl).trans ?_
    dsimp only
    refine (sf_int_gen (K := "maxItems") (upd := fun m s => { m with maxItems := s }) (fun _ _ _ => rfl) (by decide) _ s8 n.maxItems _ hw_maxItems rfl).trans ?_
    dsimp only
    refine (h_additionalItems _ _ rfl).trans ?_
    dsimp only
    refine (sf_bool_gen (K := "uniqueItems") (upd := fun m s => { m with uniqueItems := s }) (fun _ _ => rfl) (by decide) _ s9 n.uniqueItems _ rfl).trans ?_
    dsimp only
    refine (h_contains _ _ rfl).trans ?_
    dsimp only
    refine (sf_int_gen (K := "minContains") (upd := fun m s => { m with minContains := s }) (fun _ _ _ => rfl) (by decide) _ s10 n.minContains _ hw_minContains rfl).trans ?_
    dsimp only
    refine (sf_int_gen (K := "maxContains") (upd := fun m s => { m with maxContains := s }) (fun _ _ _ => rfl) (by decide) _ s10 n.maxContains _ hw_maxContains rfl).trans ?_
    dsimp only
    refine (h_unevaluatedItems _ _ rfl).trans ?_
    dsimp only
    refine (sf_int_gen (K := "minProperties") (upd := fun m s => { m with minProperties := s }) (fun _ _ _ => rfl) (by decide) _ s11 n.minProperties _ hw_minProperties rfl).trans ?_
    dsimp only
    refine (sf_int_gen (K := "maxProperties") (upd := fun m s => { m with maxProperties := s }) (fun _ _ _ => rfl) (by decide) _ s11 n.maxProperties _ hw_maxProperties rfl).trans ?_
    dsimp only
    refine (sf_required urec n _ s11 _ rfl).trans ?_
    dsimp only
    refine (sf_depReq urec n _ s11 _ rfl).trans ?_
    dsimp only
    refine (h_patternProperties _ _ rfl).trans ?_
    dsimp only
    refine (h_additionalProperties _ _ rfl).trans ?_
    dsimp only
    refine (h_propertyNames _ _ rfl).trans ?_
    dsimp only
    refine (h_unevaluatedProperties _ _ rfl).trans ?_
    dsimp only
    refine (h_allOf _ _ rfl).trans ?_
    dsimp only
    refine (h_not_ _ _ rfl).trans ?_
    dsimp only
    refine (h_if_ _ _ rfl).trans ?_
    dsimp only
    refine (h_then_ _ _ rfl).trans ?_
    dsimp only
    refine (h_else_ _ _ rfl).trans ?_
    dsimp only
    refine (h_dependentSchemas _ _ rfl).trans ?_
    dsimp only
    refine (sf_str_gen (K := "contentEncoding") (upd := fun m s => { m with contentEncoding := s }) (fun _ _ _ => rfl) (by decide) _ s21 n.contentEncoding _ rfl).trans ?_
    dsimp only
    refine (sf_str_gen (K := "contentMediaType") (upd := fun m s => { m with contentMediaType := s }) (fun _ _ _ => rfl) (by decide) _ s21 n.contentMediaType _ rfl).trans ?_
    dsimp only
    refine (h_contentSchema _ _ rfl).trans ?_
    dsimp only
    refine (sf_str_gen (K := "format") (upd := fun m s => { m with format := s }) (fun _ _ _ => rfl) (by decide) _ s22 n.format _ rfl).trans ?_
    dsimp only
    rw [mExtra_eq n hsj, setFields_unknown urec _ _ _ (fun e he => hk e ((sortKV_perm _).mem_iff.1 he))
      (fun e he => hf e ((sortKV_perm _).mem_iff.1 he)), foldl_addExtra_norm _ rfl]
    rfl
  · refine ⟨[.keyed "$defs" c_defs, .one "additionalItems" c_additionalItems, .one "additionalProperties" c_additionalProperties, .many "allOf" c_allOf, .many "anyOf" c_anyOf, .one "contains" c_contains, .one "contentSchema" c_contentSchema, .keyed "definitions" c_definitions, .keyed "dependencies" c_deps, .keyed "dependentSchemas" c_dependentSchemas, .one "else" c_else_, .one "if" c_if_, .one "items" c_items, .many "items" c_itemsArray, .one "not" c_not_, .many "oneOf" c_oneOf, .keyed "patternProperties" c_patternProperties, .many "prefixItems" c_prefixItems, .keyed "properties" c_props, .one "propertyNames" c_propertyNames, .one "then" c_then_, .one "unevaluatedItems" c_unevaluatedItems, .one "unevaluatedProperties" c_unevaluatedProperties], ?_,
      finalNode_eq n c_props c_deps c_items c_itemsArray c_anyOf c_oneOf c_defs c_definitions c_prefixItems c_additionalItems c_contains c_unevaluatedItems c_patternProperties c_additionalProperties c_propertyNames c_unevaluatedProperties c_allOf c_not_ c_if_ c_then_ c_else_ c_dependentSchemas c_contentSchema⟩
    unfold Node.childFields
    exact .cons (.keyed (lift_keyed hQ X6 r_defs))
      (.cons (.one (lift_one hQ X9 r_additionalItems))
      (.cons (.one (lift_one hQ X13 r_additionalProperties))
      (.cons (.many (lift_many hQ X16 r_allOf))
      (.cons (.many (lift_many hQ X4 r_anyOf))
      (.cons (.one (lift_one hQ X10 r_contains))
      (.cons (.one (lift_one hQ X22 r_contentSchema))
      (.cons (.keyed (lift_keyed hQ X7 r_definitions))
      (.cons (.keyed (lift_keyed hQ X2 r_deps))
      (.cons (.keyed (lift_keyed hQ X21 r_dependentSchemas))
      (.cons (.one (lift_one hQ X20 r_else_))
      (.cons (.one (lift_one hQ X18 r_if_))
      (.cons (.one (lift_one hQ X3 r_items))
      (.cons (.many (lift_many hQ X3 r_itemsArray))
      (.cons (.one (lift_one hQ X17 r_not_))
      (.cons (.many (lift_many hQ X5 r_oneOf))
      (.cons (.keyed (lift_keyed hQ X12 r_patternProperties))
      (.cons (.many (lift_many hQ X8 r_prefixItems))
      (.cons (.keyed (lift_keyed hQ X1 r_props))
      (.cons (.one (lift_one hQ X14 r_propertyNames))
      (.cons (.one (lift_one hQ X19 r_then_))
      (.cons (.one (lift_one hQ X11 r_unevaluatedItems))
      (.cons (.one (lift_one hQ X15 r_unevaluatedProperties))
      (.nil)))))))))))))))))))))))

/-! ## inversion of a successful marshalNode (generated) -/

theorem marshalNode_inv {st : Store} {mrec : MRec} {n : Node} {j : Json}
    (h : marshalNode st mrec n = .ok j) :
    ∃ (props : List (String × Json)) (deps : Option Json) (items defs definitions prefixItems additionalItems contains unevaluatedItems patternProperties additionalProperties propertyNames unevaluatedProperties allOf anyOf oneOf not_ if_ then_ else_ dependentSchemas contentSchema : List (String × Json)),
      mPropsField st mrec n.properties (n.propertyOrder.getD []) = .ok props ∧
      mDeps st mrec n.dependencySchemas n.dependencyStrings = .ok deps ∧
      mItemsField st mrec n.items n.itemsArray = .ok items ∧
      mKeyed st mrec "$defs" n.defs = .ok defs ∧
      mKeyed st mrec "definitions" n.definitions = .ok definitions ∧
      mMany st mrec "prefixItems" n.prefixItems = .ok prefixItems ∧
      mOne st mrec "additionalItems" n.additionalItems = .ok additionalItems ∧
      mOne st mrec "contains" n.contains = .ok contains ∧
      mOne st mrec "unevaluatedItems" n.unevaluatedItems = .ok unevaluatedItems ∧
      mKeyed st mrec "patternProperties" n.patternProperties = .ok patternProperties ∧
      mOne st mrec "additionalProperties" n.additionalProperties = .ok additionalProperties ∧
      mOne st mrec "propertyNames" n.propertyNames = .ok propertyNames ∧
      mOne st mrec "unevaluatedProperties" n.unevaluatedProperties = .ok unevaluatedProperties ∧
      mMany st mrec "allOf" n.allOf = .ok allOf ∧
      mManyNN st mrec "anyOf" n.anyOf = .ok anyOf ∧
      mManyNN st mrec "oneOf" n.oneOf = .ok oneOf ∧
      mOne st mrec "not" n.not = .ok not_ ∧
      mOne st mrec "if" n.if_ = .ok if_ ∧
      mOne st mrec "then" n.then_ = .ok then_ ∧
      mOne st mrec "else" n.else_ = .ok else_ ∧
      mKeyed st mrec "dependentSchemas" n.dependentSchemas = .ok dependentSchemas ∧
      mOne st mrec "contentSchema" n.contentSchema = .ok contentSchema ∧
      mFinish (treeMembers n props deps items defs definitions prefixItems additionalItems contains unevaluatedItems patternProperties additionalProperties propertyNames unevaluatedProperties allOf anyOf oneOf not_ if_ then_ else_ dependentSchemas contentSchema (mExtra n)) = .ok j := by
  unfold marshalNode marshalParts at h
  obtain ⟨props, e_props, h0⟩ := Res.bind_eq_ok h
  obtain ⟨deps, e_deps, h1⟩ := Res.bind_eq_ok h0
  obtain ⟨items, e_items, h2⟩ := Res.bind_eq_ok h1
  obtain ⟨defs, e_defs, h3⟩ := Res.bind_eq_ok h2
  obtain ⟨definitions, e_definitions, h4⟩ := Res.bind_eq_ok h3
  obtain ⟨prefixItems, e_prefixItems, h5⟩ := Res.bind_eq_ok h4
  obtain ⟨additionalItems, e_additionalItems, h6⟩ := Res.bind_eq_ok h5
  obtain ⟨contains, e_contains, h7⟩ := Res.bind_eq_ok h6
  obtain ⟨unevaluatedItems, e_unevaluatedItems, h8⟩ := Res.bind_eq_ok h7
  obtain ⟨patternProperties, e_patternProperties, h9⟩ := Res.bind_eq_ok h8
  obtain ⟨additionalProperties, e_additionalProperties, h10⟩ := Res.bind_eq_ok h9
  obtain ⟨propertyNames, e_propertyNames, h11⟩ := Res.bind_eq_ok h10
  obtain ⟨unevaluatedProperties, e_unevaluatedProperties, h12⟩ := Res.bind_eq_ok h11
  obtain ⟨allOf, e_allOf, h13⟩ := Res.bind_eq_ok h12
  obtain ⟨anyOf, e_anyOf, h14⟩ := Res.bind_eq_ok h13
  obtain ⟨oneOf, e_oneOf, h15⟩ := Res.bind_eq_ok h14
  obtain ⟨not_, e_not_, h16⟩ := Res.bind_eq_ok h15
  obtain ⟨if_, e_if_, h17⟩ := Res.bind_eq_ok h16
  obtain ⟨then_, e_then_, h18⟩ := Res.bind_eq_ok h17
  obtain ⟨else_, e_else_, h19⟩ := Res.bind_eq_ok h18
  obtain ⟨dependentSchemas, e_dependentSchemas, h20⟩ := Res.bind_eq_ok h19
  obtain ⟨contentSchema, e_contentSchema, h21⟩ := Res.bind_eq_ok h20
  rw [mMembers_tree] at h21
  exact ⟨props, deps, items, defs, definitions, prefixItems, additionalItems, contains, unevaluatedItems, patternProperties, additionalProperties, propertyNames, unevaluatedProperties, allOf, anyOf, oneOf, not_, if_, then_, else_, dependentSchemas, contentSchema, e_props, e_deps, e_items, e_defs, e_definitions, e_prefixItems, e_additionalItems, e_contains, e_unevaluatedItems, e_patternProperties, e_additionalProperties, e_propertyNames, e_unevaluatedProperties, e_allOf, e_anyOf, e_oneOf, e_not_, e_if_, e_then_, e_else_, e_dependentSchemas, e_contentSchema, h21⟩


/-! ## the induction over the tree -/

theorem size_lt_of_mem_obj {es : List (String × Json)} {e : String × Json} (he : e ∈ es) :
    Json.size e.2 < Json.size (.obj es) := by
  have h1 := C10.size_le_sizeObj (k := e.1) (v := e.2) he
  simp only [Json.size]
  omega

/-- what the round trip says of the rebuilt schema `x'` in store `s`: its tree equals the tree of `x` up to the normal
    forms, and it was allocated after all of its descendants (so its depth is at most `x' + 1`) -/
def RTQ (st : Store) (f : Nat) (s : Store) (x x' : NodeId) : Prop := TreeEq st s f x x' ∧ Full s (x' + 1) x'

theorem RTQ.mono (st : Store) (f : Nat) : ∀ s s' x y, Ext s s' → RTQ st f s x y → RTQ st f s' x y :=
  fun _ _ _ _ he h => ⟨TreeEq.mono_right he _ _ _ h.1, Full.ext he h.2⟩

theorem rt_finish {st : Store} {f : Nat} {id : NodeId} {n : Node} (hn : st.get? id = some n) {st2 s : Store} {N : Node}
    (hext : Ext st2 s) (hrel : NodeRel (RTQ st f s) (normNode n) N) :
    Ext st2 (s.push N) ∧ RTQ st (f + 1) (s.push N) id s.size := by
  refine ⟨hext.trans (Ext.push s N), ⟨n, N, hn, get?_push_size _ _, ?_⟩, ⟨N, get?_push_size _ _, ?_⟩⟩
  · exact NodeRel.imp (fun a b h => TreeEq.mono_right (Ext.push _ _) _ _ _ h.1) hrel
  · intro x hx
    obtain ⟨fs', hl, rfl⟩ := hrel
    obtain ⟨a, hq⟩ := children_of_rel hl hx
    have hlt : x < s.size := hq.2.lt_size
    exact Full.ext (Ext.push _ _) (hq.2.mono_le hlt)

theorem setFields_not_true (g : Nat) (st2 : Store) :
    setFields (unmarshalFuel (g + 1)) [("not", Json.bool true)] emptyNode st2 =
      .ok ({ emptyNode with not := some st2.size }, st2.push emptyNode) := by
  rw [setFields_cons_canon _ _ _ _ _ (show canonKey "not" = "not" by decide)]
  rfl

/-- the round trip of the tree below `id`, for every fuel of MarshalJSON that suffices and every fuel of
    UnmarshalJSON that covers the size of the document -/
theorem rt_main (st : Store) : ∀ (f d : Nat) (id : NodeId) (j : Json),
    treeAll nodeOK st d id = true → marshalFuel st f id = .ok j →
    IsSchemaJson j ∧ ∀ (g : Nat) (st2 : Store), Json.size j ≤ g →
      ∃ id' st2', unmarshalFuel g j st2 = .ok (id', st2') ∧ Ext st2 st2' ∧ RTQ st f st2' id id' := by
  intro f
  induction f with
  | zero => intro d id j _ h; cases h
  | succ f ih =>
    intro d id j hd hj
    cases d with
    | zero => cases hd
    | succ d =>
      obtain ⟨n, hn, hok, hcd⟩ := treeAll_succ hd
      change marshalStep st (marshalFuel st f) id = .ok j at hj
      rw [marshalStep_eq, hn] at hj
      dsimp only at hj
      obtain ⟨hchk, hany⟩ := nodeOK_checks hok
      rw [if_neg (by rw [hchk]; decide), if_neg (by rw [hany]; decide)] at hj
      obtain ⟨props, deps, items, defs, definitions, prefixItems, additionalItems, contains, unevaluatedItems, patternProperties, additionalProperties, propertyNames, unevaluatedProperties, allOf, anyOf, oneOf, not_, if_, then_, else_, dependentSchemas, contentSchema, e_props, e_deps, e_items, e_defs, e_definitions, e_prefixItems, e_additionalItems, e_contains, e_unevaluatedItems, e_patternProperties, e_additionalProperties, e_propertyNames, e_unevaluatedProperties, e_allOf, e_anyOf, e_oneOf, e_not_, e_if_, e_then_, e_else_, e_dependentSchemas, e_contentSchema, hfin⟩ := marshalNode_inv hj
      refine ⟨mFinish_isSchemaJson hfin, fun g st2 hg => ?_⟩
      have hch : ∀ (g' : Nat) x, x ∈ n.children →
          ChildRT st (marshalFuel st f) (unmarshalFuel g') g' (RTQ st f) x := by
        intro g' x hx
        have hxd := hcd x hx
        refine ⟨treeAll_get hxd, fun jx hjx => ?_⟩
        obtain ⟨h1, h2⟩ := ih d x jx hxd hjx
        exact ⟨h1, fun hs st2 => h2 g' st2 hs⟩
      have chain := fun (g' : Nat) (st2 : Store) hG =>
        node_chain (G := g') (RTQ.mono st f) n hok (hch g') e_props e_deps e_items e_defs e_definitions e_prefixItems e_additionalItems e_contains e_unevaluatedItems e_patternProperties e_additionalProperties e_propertyNames e_unevaluatedProperties e_allOf e_anyOf e_oneOf e_not_ e_if_ e_then_ e_else_ e_dependentSchemas e_contentSchema hG st2
      obtain ⟨g', rfl⟩ : ∃ g', g = g' + 1 := ⟨g - 1, by have := C10.size_pos j; omega⟩
      generalize treeMembers n props deps items defs definitions prefixItems additionalItems contains unevaluatedItems patternProperties additionalProperties propertyNames unevaluatedProperties allOf anyOf oneOf not_ if_ then_ else_ dependentSchemas contentSchema (mExtra n) = M at hfin chain
      unfold mFinish at hfin
      split at hfin
      · cases hfin
        obtain ⟨N, s, hset, hext, hrel⟩ := chain g' st2 (fun e he => by cases he)
        simp only [setFields] at hset
        cases hset
        obtain ⟨h1, h2⟩ := rt_finish hn hext hrel
        exact ⟨_, _, rfl, h1, h2⟩
      · cases hfin
        obtain ⟨N, s, hset, hext, hrel⟩ := chain (g' + 1) st2 (fun e he => by
          simp only [List.mem_singleton] at he
          subst he
          simp only [Json.size]
          omega)
        rw [setFields_not_true] at hset
        cases hset
        obtain ⟨h1, h2⟩ := rt_finish hn hext hrel
        exact ⟨_, _, rfl, h1, h2⟩
      · cases hfin
        obtain ⟨N, s, hset, hext, hrel⟩ := chain g' st2 (fun e he => by
          have := size_lt_of_mem_obj he
          omega)
        obtain ⟨h1, h2⟩ := rt_finish hn hext hrel
        refine ⟨_, _, ?_, h1, h2⟩
        show unmarshalStep (unmarshalFuel g') (.obj _) st2 = _
        simp only [unmarshalStep, hset, Res.bind_ok]
        rfl


/-! ## the normal form of a node is written like the node -/

section
variable {st : Store} {rec : MRec}

theorem mMany_norm (k : String) : ∀ (c : Option (List NodeId)), mMany st rec k (normList c) = mMany st rec k c
  | none => rfl
  | some [] => rfl
  | some (_ :: _) => rfl

theorem mKeyed_norm (k : String) : ∀ (c : Option (List (String × NodeId))),
    mKeyed st rec k (normMap c) = mKeyed st rec k c
  | none => rfl
  | some [] => rfl
  | some (e :: es) => by
    show mKeyed st rec k (some (sortKV (e :: es))) = _
    cases h : sortKV (e :: es) with
    | nil => exact absurd h (sortKV_cons_ne_nil e es)
    | cons x xs =>
      simp only [mKeyed, mSchemaMap]
      rw [← h, sortKV_idem]

theorem orderedKeys_nil {α} (ps : List (String × α)) : orderedKeys ps [] = sortStrings (ps.map (·.1)) := by
  unfold orderedKeys
  simp only [List.filter_nil, List.nil_append]
  congr 1
  exact List.filter_eq_self.2 fun _ _ => rfl

theorem keys_propEntries (ps : List (String × NodeId)) (order : List String) :
    (propEntries ps order).map (·.1) = orderedKeys ps order :=
  filterMap_lookup_keys _ fun _ hk => orderedKeys_isSome hk

theorem lookup_filterMap_lookup {α} {ps : List (String × α)} : ∀ (ks : List String),
    (∀ k, k ∈ ks → (Json.lookup k ps).isSome = true) → ∀ k, k ∈ ks →
    Json.lookup k (ks.filterMap fun k => (Json.lookup k ps).map fun v => (k, v)) = Json.lookup k ps
  | [], _, _, hk => by cases hk
  | k0 :: ks, h, k, hk => by
    have h0 := h k0 List.mem_cons_self
    cases hv : Json.lookup k0 ps with
    | none => rw [hv] at h0; cases h0
    | some v =>
      simp only [List.filterMap_cons, hv, Option.map_some, Json.lookup_cons]
      by_cases hkk : k0 = k
      · rw [if_pos hkk, ← hkk, hv]
      · rw [if_neg hkk]
        rcases List.mem_cons.1 hk with rfl | hk'
        · exact absurd rfl hkk
        · exact lookup_filterMap_lookup ks (fun k' hk' => h k' (List.mem_cons_of_mem _ hk')) k hk'

theorem filterMap_congr_mem {α β} {f g : α → Option β} : ∀ (l : List α), (∀ a, a ∈ l → f a = g a) →
    l.filterMap f = l.filterMap g
  | [], _ => rfl
  | a :: l, h => by
    simp only [List.filterMap_cons, h a List.mem_cons_self,
      filterMap_congr_mem l fun b hb => h b (List.mem_cons_of_mem _ hb)]

theorem propEntries_norm (ps : List (String × NodeId)) (order : List String)
    (hord : strsSortedB (orderedKeys ps order) = true) :
    propEntries (propEntries ps order) [] = propEntries ps order := by
  have hk : orderedKeys (propEntries ps order) [] = orderedKeys ps order := by
    rw [orderedKeys_nil, keys_propEntries, sortStrings_of_sortedB _ hord]
  show (orderedKeys (propEntries ps order) []).filterMap _ = _
  rw [hk]
  show _ = (orderedKeys ps order).filterMap _
  refine filterMap_congr_mem _ fun k hk' => ?_
  have : Json.lookup k (propEntries ps order) = Json.lookup k ps :=
    lookup_filterMap_lookup _ (fun _ h => orderedKeys_isSome h) k hk'
  rw [this]

theorem mPropsField_norm (order : List String) : ∀ (c : Option (List (String × NodeId))),
    strsSortedB (orderedKeys (c.getD []) order) = true →
    mPropsField st rec (normProps c order) [] = mPropsField st rec c order
  | none, _ => rfl
  | some ps, hord => by
    show mPropsField st rec (some (propEntries ps order)) [] = _
    simp only [mPropsField]
    have e : ∀ l o, mProperties st rec l o =
        Res.bind (mSchemaEntries st rec (propEntries l o)) fun es => .ok (.obj es) := fun _ _ => rfl
    rw [e, e, propEntries_norm ps order hord]

end

theorem mRequired_norm (n : Node) : mRequired (normNode n) = mRequired n := by
  unfold mRequired
  show (match normReq n.required with | some (x :: xs) => [("required", strs (x :: xs))] | _ => []) = _
  cases n.required with
  | none => rfl
  | some l =>
    cases l with
    | nil => rfl
    | cons x xs => rfl

theorem mem_normExtra {ex : Option (List (String × Json))} {e : String × Json}
    (he : e ∈ (normExtra ex).getD []) : e ∈ ex.getD [] := by
  cases ex with
  | none => exact he
  | some l =>
    cases l with
    | nil => exact he
    | cons a as => exact (sortKV_perm _).mem_iff.1 he

theorem mExtra_norm (n : Node) (hsj : ∀ e, e ∈ n.extra.getD [] → sortJson e.2 = e.2) :
    mExtra (normNode n) = mExtra n := by
  unfold mExtra
  show sortKV (((normExtra n.extra).getD []).map fun (k, v) => (k, sortJson v)) = _
  rw [map_sortJson_id _ (fun e he => hsj e (mem_normExtra he)), map_sortJson_id _ hsj]
  cases n.extra with
  | none => rfl
  | some l =>
    cases l with
    | nil => rfl
    | cons a as => exact sortKV_idem _

theorem mExamples_norm (n : Node) : mNonEmptyList "examples" (normNode n).examples = mNonEmptyList "examples" n.examples := by
  show mNonEmptyList "examples" (normJL n.examples) = _
  cases n.examples with
  | none => rfl
  | some l =>
    cases l with
    | nil => rfl
    | cons x xs => rfl

theorem mVocab_norm (n : Node) : mVocab (normNode n) = mVocab n := by
  unfold mVocab
  show (match normVocab n.vocabulary with
    | some vs => [("$vocabulary", Json.obj (sortKV (vs.map fun (k, b) => (k, Json.bool b))))]
    | none => []) = _
  cases n.vocabulary with
  | none => rfl
  | some l =>
    show [("$vocabulary", Json.obj (sortKV ((sortKV l).map fun (k, b) => (k, Json.bool b))))] = _
    rw [← sortKV_map_val (fun x : String × Bool => (x.1, Json.bool x.2)) (fun _ => rfl), sortKV_idem]

theorem mDepReq_norm (n : Node) : mDepReq (normNode n) = mDepReq n := by
  unfold mDepReq
  show (match normKV n.dependentRequired with
    | some (v :: vs) => [("dependentRequired", Json.obj (sortKV ((v :: vs).map fun (k, l) => (k, optStrs l))))]
    | _ => []) = _
  cases n.dependentRequired with
  | none => rfl
  | some l =>
    cases l with
    | nil => rfl
    | cons v vs =>
      show (match some (sortKV (v :: vs)) with
        | some (v :: vs) => [("dependentRequired", Json.obj (sortKV ((v :: vs).map fun (k, l) => (k, optStrs l))))]
        | _ => []) = _
      cases hs : sortKV (v :: vs) with
      | nil => exact absurd hs (sortKV_cons_ne_nil _ _)
      | cons y ys =>
        dsimp only
        rw [← hs, ← sortKV_map_val (fun x : String × Option (List String) => (x.1, optStrs x.2)) (fun _ => rfl), sortKV_idem]

theorem any_key_iff {α : Type} {l : List (String × α)} {k : String} :
    (l.any fun d => d.1 == k) = true ↔ k ∈ l.map (·.1) := by
  rw [List.any_eq_true, List.mem_map]
  constructor
  · rintro ⟨d, hd, hk⟩
    exact ⟨d, hd, by simpa using hk⟩
  · rintro ⟨d, hd, hk⟩
    exact ⟨d, hd, by simpa using hk⟩

theorem any_key_perm {α β : Type} {l : List (String × α)} {l' : List (String × β)}
    (h : (l.map (·.1)).Perm (l'.map (·.1))) (k : String) :
    (l.any fun d => d.1 == k) = (l'.any fun d => d.1 == k) := by
  rw [Bool.eq_iff_iff, any_key_iff, any_key_iff]
  exact h.mem_iff

theorem keys_normDepStrs_perm (D : List (String × Option (List String))) :
    ((sortKV (D.map fun e => (e.1, some (e.2.getD [])))).map (·.1)).Perm (D.map (·.1)) := by
  refine ((sortKV_perm _).map _).trans ?_
  rw [List.map_map]
  exact List.Perm.refl _

theorem getD_normDepStrs (dstrs : Option (List (String × Option (List String)))) :
    (normDepStrs dstrs).getD [] = sortKV ((dstrs.getD []).map fun e => (e.1, some (e.2.getD []))) := by
  cases dstrs with
  | none => rfl
  | some l =>
    cases l with
    | nil => rfl
    | cons _ _ => rfl

theorem getD_normMap_perm (dsch : Option (List (String × NodeId))) : ((normMap dsch).getD []).Perm (dsch.getD []) := by
  cases dsch with
  | none => exact List.Perm.refl _
  | some l =>
    cases l with
    | nil => exact List.Perm.refl _
    | cons _ _ => exact sortKV_perm _

theorem getD_normMap_sorted (dsch : Option (List (String × NodeId))) (hs : sortedB (dsch.getD []) = true) :
    (normMap dsch).getD [] = dsch.getD [] := by
  cases dsch with
  | none => rfl
  | some l =>
    cases l with
    | nil => rfl
    | cons a as => exact sortKV_of_sortedB _ hs

section
variable {st : Store} {rec : MRec}

theorem mDeps_norm (dsch : Option (List (String × NodeId))) (dstrs : Option (List (String × Option (List String))))
    (hs : sortedB (dsch.getD []) = true) :
    mDeps st rec (normMap dsch) (normDepStrs dstrs) = mDeps st rec dsch dstrs := by
  unfold mDeps
  dsimp only
  rw [getD_normMap_sorted dsch hs, getD_normDepStrs]
  have hlen : (sortKV ((dstrs.getD []).map fun e => (e.1, some (e.2.getD [])))).length = (dstrs.getD []).length := by
    rw [(sortKV_perm _).length_eq, List.length_map]
  rw [hlen]
  have hP : ∀ k : String, ((sortKV ((dstrs.getD []).map fun e => (e.1, some (e.2.getD [])))).any fun d => d.1 == k) =
      ((dstrs.getD []).any fun d => d.1 == k) := fun k => any_key_perm (keys_normDepStrs_perm _) k
  have hF : (sortKV ((dstrs.getD []).map fun e => (e.1, some (e.2.getD [])))).map
        (fun x : String × Option (List String) => (x.1, strs (x.2.getD []))) =
      sortKV ((dstrs.getD []).map fun x : String × Option (List String) => (x.1, strs (x.2.getD []))) := by
    rw [← sortKV_map_val (fun x : String × Option (List String) => (x.1, strs (x.2.getD []))) (fun _ => rfl),
      List.map_map]
    rfl
  simp only [hP, hF, sortKV_append_sortKV]

end

theorem mMembers_norm (n : Node) (hsj : ∀ e, e ∈ n.extra.getD [] → sortJson e.2 = e.2) (props : List (String × Json))
    (deps : Option Json)
    (items defs definitions prefixItems additionalItems contains unevaluatedItems patternProperties additionalProperties propertyNames unevaluatedProperties allOf anyOf oneOf not_ if_ then_ else_ dependentSchemas contentSchema : List (String × Json)) :
    mMembers (normNode n) props deps items defs definitions prefixItems additionalItems contains unevaluatedItems patternProperties additionalProperties propertyNames unevaluatedProperties allOf anyOf oneOf not_ if_ then_ else_ dependentSchemas contentSchema =
    mMembers n props deps items defs definitions prefixItems additionalItems contains unevaluatedItems patternProperties additionalProperties propertyNames unevaluatedProperties allOf anyOf oneOf not_ if_ then_ else_ dependentSchemas contentSchema := by
  unfold mMembers
  rw [mRequired_norm, mExtra_norm n hsj, mVocab_norm, mDepReq_norm, mExamples_norm]
  rfl

/-- the normal form of a node marshals to what the node marshals to (same store, same children) -/
theorem marshalNode_norm (st : Store) (rec : MRec) (n : Node) (hok : nodeOK n = true) (hord : nodeOrd n = true) :
    marshalNode st rec (normNode n) = marshalNode st rec n := by
  obtain ⟨-, -, -, -, -, hsj, -⟩ := nodeOK_unpack hok
  simp only [nodeOrd, Bool.and_eq_true] at hord
  unfold marshalNode
  show marshalParts (normNode n)
    (mPropsField st rec (normProps n.properties (n.propertyOrder.getD [])) [])
    (mDeps st rec (normMap n.dependencySchemas) (normDepStrs n.dependencyStrings))
    (mItemsField st rec n.items n.itemsArray)
    (mKeyed st rec "$defs" (normMap n.defs))
    (mKeyed st rec "definitions" (normMap n.definitions))
    (mMany st rec "prefixItems" (normList n.prefixItems))
    (mOne st rec "additionalItems" n.additionalItems)
    (mOne st rec "contains" n.contains)
    (mOne st rec "unevaluatedItems" n.unevaluatedItems)
    (mKeyed st rec "patternProperties" (normMap n.patternProperties))
    (mOne st rec "additionalProperties" n.additionalProperties)
    (mOne st rec "propertyNames" n.propertyNames)
    (mOne st rec "unevaluatedProperties" n.unevaluatedProperties)
    (mMany st rec "allOf" (normList n.allOf))
    (mManyNN st rec "anyOf" n.anyOf)
    (mManyNN st rec "oneOf" n.oneOf)
    (mOne st rec "not" n.not)
    (mOne st rec "if" n.if_)
    (mOne st rec "then" n.then_)
    (mOne st rec "else" n.else_)
    (mKeyed st rec "dependentSchemas" (normMap n.dependentSchemas))
    (mOne st rec "contentSchema" n.contentSchema) = _
  rw [mPropsField_norm _ _ hord.1, mDeps_norm _ _ hord.2, mKeyed_norm, mKeyed_norm, mKeyed_norm, mKeyed_norm, mMany_norm, mMany_norm]
  unfold marshalParts
  simp only [mMembers_norm n hsj]

theorem normMap_isSome {c : Option (List (String × NodeId))} (h : (normMap c).isSome = true) : c.isSome = true := by
  cases c with
  | none => exact h
  | some _ => rfl

theorem depClash_norm {dsch : Option (List (String × NodeId))} {dstrs : Option (List (String × Option (List String)))}
    (h : depClash (dsch.getD []) (dstrs.getD []) = false) :
    depClash ((normMap dsch).getD []) ((normDepStrs dstrs).getD []) = false := by
  cases hb : depClash ((normMap dsch).getD []) ((normDepStrs dstrs).getD []) with
  | false => rfl
  | true =>
    unfold depClash at hb
    obtain ⟨⟨k, x⟩, ha, hany⟩ := List.any_eq_true.1 hb
    have hany' : (((normDepStrs dstrs).getD []).any fun d => d.1 == k) = true := hany
    rw [getD_normDepStrs, any_key_perm (keys_normDepStrs_perm _) k] at hany'
    have : depClash (dsch.getD []) (dstrs.getD []) = true := by
      unfold depClash
      exact List.any_eq_true.2 ⟨(k, x), (getD_normMap_perm dsch).mem_iff.1 ha, hany'⟩
    rw [h] at this
    cases this

theorem marshalChecksOk_norm {n : Node} (h : marshalChecksOk n = true) : marshalChecksOk (normNode n) = true := by
  unfold marshalChecksOk at h ⊢
  rw [basicChecksOk_eq] at h ⊢
  simp only [Bool.and_eq_true, Bool.not_eq_true'] at h ⊢
  obtain ⟨⟨⟨⟨h1, h2⟩, h3⟩, _⟩, h5⟩ := h
  refine ⟨⟨⟨⟨h1, ?_⟩, h3⟩, rfl⟩, depClash_norm h5⟩
  show ((normMap n.defs).isSome && (normMap n.definitions).isSome) = false
  cases hb : ((normMap n.defs).isSome && (normMap n.definitions).isSome) with
  | false => rfl
  | true =>
    rw [Bool.and_eq_true] at hb
    rw [normMap_isSome hb.1, normMap_isSome hb.2] at h2
    cases h2

theorem extraAny_norm {n : Node} (h : ((n.extra.getD []).any fun e => structNames.contains e.1) = false) :
    (((normNode n).extra.getD []).any fun e => structNames.contains e.1) = false := by
  cases hb : (((normNode n).extra.getD []).any fun e => structNames.contains e.1) with
  | false => rfl
  | true =>
    obtain ⟨e, he, hc⟩ := List.any_eq_true.1 hb
    have : ((n.extra.getD []).any fun e => structNames.contains e.1) = true :=
      List.any_eq_true.2 ⟨e, mem_normExtra he, hc⟩
    rw [h] at this
    cases this

/-! ## the children of the normal form are children of the node -/

theorem ListRel.mem_left {α β} {R : α → β → Prop} : ∀ {l l'}, ListRel R l l' → ∀ {a}, a ∈ l → ∃ b, b ∈ l' ∧ R a b
  | _, _, .nil, _, ha => by cases ha
  | _, _, .cons h1 h2, a, ha => by
    rcases List.mem_cons.1 ha with rfl | ha
    · exact ⟨_, List.mem_cons_self, h1⟩
    · obtain ⟨b, hb, hr⟩ := ListRel.mem_left h2 ha
      exact ⟨b, List.mem_cons_of_mem _ hb, hr⟩

/-- every id of the first field is an id of the second -/
def IdsSub (f' f : ChildField) : Prop := ∀ x, x ∈ f'.ids → x ∈ f.ids

theorem idsSub_refl (f : ChildField) : IdsSub f f := fun _ h => h

theorem idsSub_normMap (k : String) (c : Option (List (String × NodeId))) :
    IdsSub (.keyed k (normMap c)) (.keyed k c) := by
  intro x hx
  cases c with
  | none => exact hx
  | some l =>
    cases l with
    | nil => exact hx
    | cons a as => exact ((sortKV_perm _).map _).mem_iff.1 hx

theorem idsSub_normList (k : String) (c : Option (List NodeId)) : IdsSub (.many k (normList c)) (.many k c) := by
  intro x hx
  cases c with
  | none => exact hx
  | some l =>
    cases l with
    | nil => exact hx
    | cons a as => exact hx

theorem idsSub_normProps (k : String) (c : Option (List (String × NodeId))) (order : List String) :
    IdsSub (.keyed k (normProps c order)) (.keyed k c) := by
  intro x hx
  cases c with
  | none => exact hx
  | some l =>
    obtain ⟨e, he, rfl⟩ := List.mem_map.1 hx
    exact List.mem_map.2 ⟨e, mem_propEntries he, rfl⟩

theorem normNode_childFields_sub (n : Node) : ListRel IdsSub (normNode n).childFields n.childFields := by
  unfold Node.childFields
  exact .cons (idsSub_normMap _ _) (.cons (idsSub_refl _) (.cons (idsSub_refl _) (.cons (idsSub_normList _ _)
    (.cons (idsSub_refl _) (.cons (idsSub_refl _) (.cons (idsSub_refl _) (.cons (idsSub_normMap _ _)
    (.cons (idsSub_normMap _ _) (.cons (idsSub_normMap _ _) (.cons (idsSub_refl _) (.cons (idsSub_refl _)
    (.cons (idsSub_refl _) (.cons (idsSub_refl _) (.cons (idsSub_refl _) (.cons (idsSub_refl _)
    (.cons (idsSub_normMap _ _) (.cons (idsSub_normList _ _) (.cons (idsSub_normProps _ _ _)
    (.cons (idsSub_refl _) (.cons (idsSub_refl _) (.cons (idsSub_refl _) (.cons (idsSub_refl _) .nil))))))))))))))))))))))

theorem normNode_ids_sub {n : Node} {f' : ChildField} (hf' : f' ∈ (normNode n).childFields) {x : NodeId}
    (hx : x ∈ f'.ids) : x ∈ n.children := by
  obtain ⟨f, hf, hs⟩ := ListRel.mem_left (normNode_childFields_sub n) hf'
  exact mem_children_iff.2 ⟨f, hf, hs x hx⟩

/-! ## adding a fact about the left ids to a relation -/

theorem ListRel.imp_mem {α β} {R S : α → β → Prop} : ∀ {l l'}, ListRel R l l' →
    (∀ a, a ∈ l → ∀ b, R a b → S a b) → ListRel S l l'
  | _, _, .nil, _ => .nil
  | _, _, .cons h1 h2, h => .cons (h _ List.mem_cons_self _ h1)
      (ListRel.imp_mem h2 fun a ha b hr => h a (List.mem_cons_of_mem _ ha) b hr)

theorem FieldRel.and_left {R : NodeId → NodeId → Prop} {P : NodeId → Prop} : ∀ {f f'}, FieldRel R f f' →
    (∀ x, x ∈ f.ids → P x) → FieldRel (fun x y => P x ∧ R x y) f f'
  | _, _, .one (c := none) (c' := none) _, _ => .one trivial
  | _, _, .one (c := some x) (c' := some _) h, hp => .one ⟨hp x (by simp [ChildField.ids]), h⟩
  | _, _, .one (c := none) (c' := some _) h, _ => h.elim
  | _, _, .one (c := some _) (c' := none) h, _ => h.elim
  | _, _, .many (cs := none) (cs' := none) _, _ => .many trivial
  | _, _, .many (cs := some _) (cs' := some _) h, hp =>
    .many (ListRel.imp_mem (R := R) h fun a ha _ hr => ⟨hp a ha, hr⟩)
  | _, _, .many (cs := none) (cs' := some _) h, _ => h.elim
  | _, _, .many (cs := some _) (cs' := none) h, _ => h.elim
  | _, _, .keyed (cs := none) (cs' := none) _, _ => .keyed trivial
  | _, _, .keyed (cs := some l) (cs' := some _) h, hp =>
    .keyed (ListRel.imp_mem (R := KeyRel R) h fun a ha _ hr =>
      ⟨hr.1, hp a.2 (List.mem_map.2 ⟨a, ha, rfl⟩), hr.2⟩)
  | _, _, .keyed (cs := none) (cs' := some _) h, _ => h.elim
  | _, _, .keyed (cs := some _) (cs' := none) h, _ => h.elim

/-! ## equal trees marshal identically -/

/-- the well-formedness the second MarshalJSON needs: `nodeOK` and "properties" written in ascending order -/
def nodeWF (n : Node) : Bool := nodeOK n && nodeOrd n

theorem TreeEq.get_right {st st' : Store} : ∀ {d : Nat} {a b : NodeId}, TreeEq st st' d a b → ∃ n', st'.get? b = some n'
  | 0, _, _, h => h.elim
  | _ + 1, _, _, ⟨_, n', _, hb, _⟩ => ⟨n', hb⟩

theorem TreeEq.marshal_eq {st st' : Store} : ∀ (f d d' : Nat) (a b : NodeId),
    treeAll nodeWF st d a = true → TreeEq st st' d' a b → marshalFuel st f a = marshalFuel st' f b := by
  intro f
  induction f with
  | zero => intro _ _ _ _ _ _; rfl
  | succ f ih =>
    intro d d' a b hd he
    cases d with
    | zero => cases hd
    | succ d =>
    cases d' with
    | zero => exact he.elim
    | succ d' =>
      obtain ⟨n, hn, hwf, hcd⟩ := treeAll_succ hd
      obtain ⟨n0, n', ha, hb, fs', hrel, rfl⟩ := he
      have hnn : n0 = n := by
        rw [hn] at ha
        cases ha
        rfl
      subst hnn
      simp only [nodeWF, Bool.and_eq_true] at hwf
      obtain ⟨hok, hord⟩ := hwf
      obtain ⟨hchk, hany⟩ := nodeOK_checks hok
      show marshalStep st (marshalFuel st f) a = marshalStep st' (marshalFuel st' f) b
      rw [marshalStep_eq, marshalStep_eq, hn, hb]
      dsimp only
      have hchk' : marshalChecksOk (setChildFields (normNode n0) fs') = true := by
        rw [marshalChecksOk_congr hrel]
        exact marshalChecksOk_norm hchk
      have hany' : (((setChildFields (normNode n0) fs').extra.getD []).any fun e => structNames.contains e.1) = false :=
        extraAny_norm hany
      rw [if_neg (by rw [hchk]; decide), if_neg (by rw [hany]; decide), if_neg (by rw [hchk']; decide),
        if_neg (by rw [hany']; decide)]
      have hrel' : ListRel (FieldRel fun x y => treeAll nodeWF st d x = true ∧ TreeEq st st' d' x y)
          (normNode n0).childFields fs' :=
        ListRel.imp_mem hrel fun f hf f' hr => FieldRel.and_left hr fun x hx => hcd x (normNode_ids_sub hf hx)
      have hm : ∀ x y, (treeAll nodeWF st d x = true ∧ TreeEq st st' d' x y) →
          mSchema st (marshalFuel st f) x = mSchema st' (marshalFuel st' f) y := by
        rintro x y ⟨hx, hxy⟩
        obtain ⟨m, hm⟩ := treeAll_get hx
        obtain ⟨m', hm'⟩ := hxy.get_right
        unfold mSchema
        rw [hm, hm']
        exact ih d d' x y hx hxy
      rw [← marshalNode_congr hm hrel', marshalNode_norm st _ n0 hok hord]

/-! ## marshalFuel is stable from the depth of a full tree on -/

theorem marshalFuel_stable_full {st : Store} :
    ∀ (d : Nat) (a : NodeId), Full st d a → ∀ f f', d ≤ f → d ≤ f' → marshalFuel st f a = marshalFuel st f' a := by
  intro d
  induction d with
  | zero => intro a hg; exact hg.elim
  | succ d ih =>
    intro a hg f f' hf hf'
    obtain ⟨f0, rfl⟩ : ∃ f0, f = f0 + 1 := ⟨f - 1, by omega⟩
    obtain ⟨f0', rfl⟩ : ∃ f0, f' = f0 + 1 := ⟨f' - 1, by omega⟩
    show marshalStep st _ a = marshalStep st _ a
    rw [marshalStep_eq, marshalStep_eq]
    obtain ⟨n, hn, hch⟩ := hg
    rw [hn]
    dsimp only
    have hm : ∀ x y, (y = x ∧ Full st d x) →
        mSchema st (marshalFuel st f0) x = mSchema st (marshalFuel st f0') y := by
      rintro x y ⟨rfl, hx⟩
      unfold mSchema
      cases st.get? y with
      | none => rfl
      | some _ => exact ih y hx f0 f0' (by omega) (by omega)
    have hrel : ListRel (FieldRel fun x y => y = x ∧ Full st d x) n.childFields n.childFields :=
      ListRel.refl_of _ fun f hf => FieldRel.refl_of f fun x hx =>
        ⟨rfl, hch x (mem_children_iff.2 ⟨f, hf, hx⟩)⟩
    have h := marshalNode_congr hm hrel
    have hset : setChildFields n n.childFields = n := rfl
    rw [hset] at h
    rw [h]

/-! ## the round trip of a tree -/

theorem fuel_arith (a b c : Nat) (hlt : c < b) (hle : ¬ a + 2 ≤ b + 2) : c + 1 ≤ b + 2 ∧ c + 1 ≤ a + 2 := by
  omega


/-- `roundtrip_tree` for a tree of depth at most `d`: what MarshalJSON writes for the tree below `id`, UnmarshalJSON
    reads back (into any store `st₂`) as a tree equal up to the normal forms … -/
theorem roundtrip_tree_eq_core (st : Store) (d : Nat) (id : NodeId) (j : Json) (st₂ : Store)
    (hwf : treeAll nodeOK st d id = true) (hj : marshal st id = .ok j) :
    ∃ id' st₂', unmarshal j st₂ = .ok (id', st₂') ∧ Ext st₂ st₂' ∧ TreeEq st st₂' (st.size + 2) id id' ∧
      Full st₂' (id' + 1) id' := by
  obtain ⟨_, H⟩ := rt_main st (st.size + 2) d id j hwf hj
  obtain ⟨id', st₂', hu, hext, hte, hfull⟩ := H (Json.size j + 1) st₂ (Nat.le_succ _)
  exact ⟨id', st₂', hu, hext, hte, hfull⟩

/-- … and which (if "properties" is written in ascending key order everywhere) marshals again to the same JSON -/
theorem roundtrip_tree_core (st : Store) (d : Nat) (id : NodeId) (j : Json) (st₂ : Store)
    (hwf : treeAll nodeWF st d id = true) (hj : marshal st id = .ok j) :
    ∃ id' st₂', unmarshal j st₂ = .ok (id', st₂') ∧ TreeEq st st₂' (st.size + 2) id id' ∧
      marshal st₂' id' = .ok j := by
  have hok : treeAll nodeOK st d id = true :=
    treeAll_imp (fun n hn => by simp only [nodeWF, Bool.and_eq_true] at hn; exact hn.1) hwf
  obtain ⟨id', st₂', hu, -, hte, hfull⟩ := roundtrip_tree_eq_core st d id j st₂ hok hj
  refine ⟨id', st₂', hu, hte, ?_⟩
  have h1 : marshalFuel st₂' (st.size + 2) id' = .ok j := by
    rw [← TreeEq.marshal_eq (st.size + 2) d (st.size + 2) id id' hwf hte]
    exact hj
  have hlt := hfull.lt_size
  show marshalFuel st₂' (st₂'.size + 2) id' = .ok j
  by_cases hle : st.size + 2 ≤ st₂'.size + 2
  · rw [marshalFuel_stable_full (st.size + 2) id' hte.full (st₂'.size + 2) (st.size + 2) hle (Nat.le_refl _)]
    exact h1
  · rw [marshalFuel_stable_full (id' + 1) id' hfull (st₂'.size + 2) (st.size + 2)
      (fuel_arith st.size st₂'.size id' hlt hle).1 (fuel_arith st.size st₂'.size id' hlt hle).2]
    exact h1



end Go
end JSV
