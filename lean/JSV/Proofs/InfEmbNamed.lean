/-
  Declared (named) types in non-embedded positions of a type with embedded fields: `forTypeE` on a type whose declared
  types are transparent (`EncJsonEmb.NamedOkE`) is `forTypeE` on the erased type (`EncJsonEmb.eraseE`), and typing and
  json.Marshal (`HasTypeE`, `encodeE`) do not see the difference.  The embedded-field analogue of JSV/Proofs/InfNamed.lean.
-/
import JSV.Proofs.InfEmbSound
import JSV.Proofs.InfNamed
namespace JSV
namespace Go
open EncJsonEmb EncJson

/-! ## the four shapes of the type of an embedded struct -/

/-- `t` is the type of an embedded struct with the fields `fs` (by value or by pointer, declared or not) -/
inductive EmbIs : GoTypeE → List (FieldE GoTypeE) → Prop
  | ptrNamed (n : String) (fs : List (FieldE GoTypeE)) : EmbIs (.ptr (.named n (.struct fs))) fs
  | ptrStruct (fs : List (FieldE GoTypeE)) : EmbIs (.ptr (.struct fs)) fs
  | named (n : String) (fs : List (FieldE GoTypeE)) : EmbIs (.named n (.struct fs)) fs
  | struct (fs : List (FieldE GoTypeE)) : EmbIs (.struct fs) fs

/-- … or it is none of them, and every function on embedded types takes its default -/
structure EmbNot (t : GoTypeE) : Prop where
  erase : eraseEmbE t = t
  fields : ∀ idx, embFields idx t = []
  cands : ∀ idx, embCandidates idx t = []
  hasType : ∀ v, HasTypeEmbE t v = False
  encode : ∀ all idx v, encodeEmbE all idx t v = []
  namedOk : ∀ opts seen, namedOkEmbE opts seen t = true
  decodeFind : ∀ all m idx k v, decodableEmbFindE all m idx t k v = none

theorem embIs_or_not (t : GoTypeE) : (∃ fs, EmbIs t fs) ∨ EmbNot t := by
  cases t with
  | ptr e =>
    cases e with
    | named nm u =>
      cases u with
      | struct fs => exact Or.inl ⟨fs, .ptrNamed nm fs⟩
      | _ => exact Or.inr ⟨rfl, fun _ => rfl, fun _ => rfl, fun _ => rfl, fun _ _ _ => rfl, fun _ _ => rfl, fun _ _ _ _ _ => rfl⟩
    | struct fs => exact Or.inl ⟨fs, .ptrStruct fs⟩
    | _ => exact Or.inr ⟨rfl, fun _ => rfl, fun _ => rfl, fun _ => rfl, fun _ _ _ => rfl, fun _ _ => rfl, fun _ _ _ _ _ => rfl⟩
  | named nm u =>
    cases u with
    | struct fs => exact Or.inl ⟨fs, .named nm fs⟩
    | _ => exact Or.inr ⟨rfl, fun _ => rfl, fun _ => rfl, fun _ => rfl, fun _ _ _ => rfl, fun _ _ => rfl, fun _ _ _ _ _ => rfl⟩
  | struct fs => exact Or.inl ⟨fs, .struct fs⟩
  | _ => exact Or.inr ⟨rfl, fun _ => rfl, fun _ => rfl, fun _ => rfl, fun _ _ _ => rfl, fun _ _ => rfl, fun _ _ _ _ _ => rfl⟩

theorem EmbIs.wt_lt {t : GoTypeE} {fs : List (FieldE GoTypeE)} (h : EmbIs t fs) : wtFs fs < EncJsonEmb.wt t := by
  cases h <;> simp only [EncJsonEmb.wt] <;> omega

theorem EmbIs.erase {t : GoTypeE} {fs : List (FieldE GoTypeE)} (h : EmbIs t fs) : EmbIs (eraseEmbE t) (eraseFieldsE fs) := by
  cases h
  · exact .ptrNamed _ _
  · exact .ptrStruct _
  · exact .named _ _
  · exact .struct _

theorem EmbIs.fields {t : GoTypeE} {fs : List (FieldE GoTypeE)} (h : EmbIs t fs) (idx : List Nat) :
    embFields idx t = allFields idx 0 fs := by
  cases h <;> rfl

theorem EmbIs.namedOk {t : GoTypeE} {fs : List (FieldE GoTypeE)} (h : EmbIs t fs) (opts : IOpts) (seen : List String) :
    namedOkEmbE opts seen t = namedOkFieldsE opts seen fs := by
  cases h <;> rfl

theorem typeNameE_eraseEmbE (t : GoTypeE) : typeNameE (eraseEmbE t) = typeNameE t := by
  rcases embIs_or_not t with ⟨fs, h⟩ | h
  · cases h <;> rfl
  · rw [h.erase]

/-! ## the walk and the visible fields of the erased struct -/

/-- a field of the walk with its type erased -/
def eraseV (f : VField) : VField :=
  { index := f.index, goName := f.goName, tag := f.tag, exported := f.exported, anonymous := f.anonymous,
    type := if f.anonymous then eraseEmbE f.type else eraseE f.type }

theorem allFields_erase : ∀ (n : Nat) (fs : List (FieldE GoTypeE)) (pre : List Nat) (i : Nat), wtFs fs ≤ n →
    allFields pre i (eraseFieldsE fs) = (allFields pre i fs).map eraseV := by
  intro n
  induction n with
  | zero =>
    intro fs pre i h
    cases fs with
    | nil => rfl
    | cons f rest => simp only [wtFs] at h; omega
  | succ n ih =>
    intro fs pre i h
    cases fs with
    | nil => rfl
    | cons f rest =>
      simp only [wtFs] at h
      simp only [eraseFieldsE, allFields, List.map_cons, List.map_append]
      congr 1
      rw [ih rest pre (i + 1) (by omega)]
      congr 1
      cases he : f.embedded with
      | false => simp
      | true =>
        simp only [if_true]
        rcases embIs_or_not f.type with ⟨fs', hf⟩ | hf
        · rw [hf.erase.fields, hf.fields, ih fs' _ 0 (by have := hf.wt_lt; omega)]
        · rw [hf.erase, hf.fields]
          rfl

theorem isVisible_erase (all : List VField) (f : VField) : isVisible (all.map eraseV) (eraseV f) = isVisible all f := by
  unfold isVisible
  rw [List.all_map]
  rfl

theorem visibleFields_erase (fs : List (FieldE GoTypeE)) : visibleFields (eraseFieldsE fs) = (visibleFields fs).map eraseV := by
  unfold visibleFields
  rw [allFields_erase _ fs [] 0 (Nat.le_refl _), List.filter_map]
  congr 1
  refine List.filter_congr fun f _ => ?_
  exact isVisible_erase _ f

theorem allFields_namedOk (opts : IOpts) (seen : List String) : ∀ (n : Nat) (fs : List (FieldE GoTypeE)) (pre : List Nat)
    (i : Nat), wtFs fs ≤ n → namedOkFieldsE opts seen fs = true →
    ∀ f, f ∈ allFields pre i fs → f.anonymous = false → NamedOkE opts seen f.type = true := by
  intro n
  induction n with
  | zero =>
    intro fs pre i h _ f hf
    cases fs with
    | nil => simp [allFields] at hf
    | cons g rest => simp only [wtFs] at h; omega
  | succ n ih =>
    intro fs pre i h hok f hf ha
    cases fs with
    | nil => simp [allFields] at hf
    | cons g rest =>
      simp only [wtFs] at h
      simp only [namedOkFieldsE, Bool.and_eq_true] at hok
      simp only [allFields, List.mem_cons, List.mem_append] at hf
      rcases hf with rfl | hf | hf
      · simp only at ha ⊢
        simpa [ha] using hok.1
      · cases he : g.embedded with
        | false => simp [he] at hf
        | true =>
          simp only [he, if_true] at hf hok
          rcases embIs_or_not g.type with ⟨fs', hg⟩ | hg
          · rw [hg.fields] at hf
            exact ih fs' _ 0 (by have := hg.wt_lt; omega) (by rw [← hg.namedOk]; exact hok.1) f hf ha
          · rw [hg.fields] at hf
            cases hf
      · exact ih rest pre (i + 1) (by omega) hok.2 f hf ha

/-! ## the struct loop and the step -/

theorem overrideOf_eraseEmbE (opts : IOpts) (st : Store) (t : GoTypeE) : overrideOf opts st (eraseEmbE t) = overrideOf opts st t := by
  unfold overrideOf
  rw [typeNameE_eraseEmbE]

/-- the struct loop on the erased visible fields, if the recursive calls agree -/
theorem structLoopE_erase (opts : IOpts) {rec : IRecE} {seen seen' : List String} :
    ∀ (vfs : List VField) (skip : Option (List Nat)) (n : Node) (st : Store),
      (∀ f, f ∈ vfs → f.anonymous = false → ∀ st, rec f.type seen st = rec (eraseE f.type) seen' st) →
      structLoopE opts rec seen vfs skip n st = structLoopE opts rec seen' (vfs.map eraseV) skip n st := by
  intro vfs
  induction vfs with
  | nil => intro _ _ _ _; rfl
  | cons f rest ih =>
    intro skip n st hf
    have hf' : ∀ g, g ∈ rest → g.anonymous = false → ∀ st, rec g.type seen st = rec (eraseE g.type) seen' st :=
      fun g hg => hf g (List.mem_cons_of_mem _ hg)
    simp only [List.map_cons, structLoopE]
    cases ha : f.anonymous with
    | true =>
      simp only [eraseV, ha, if_true, overrideOf_eraseEmbE]
      split
      · split
        · rfl
        · split
          · rfl
          · refine Res.bind_congr fun r => ?_
            exact ih _ _ _ hf'
      · exact ih _ _ _ hf'
    | false =>
      simp only [eraseV, ha, Bool.false_eq_true, if_false]
      split
      · exact ih _ _ _ hf'
      · have hstep : ∀ n st, fieldStepE rec seen f.goName f.tag f.exported f.type n st =
            fieldStepE rec seen' f.goName f.tag f.exported (eraseE f.type) n st := by
          intro n st
          unfold fieldStepE
          simp only [hf f List.mem_cons_self ha]
        rw [hstep]
        refine Res.bind_congr fun r => ?_
        exact ih _ _ _ hf'

theorem stripPtrsE_nonptr : ∀ {t : GoTypeE}, (∀ e, t ≠ .ptr e) → stripPtrsE t = (t, false)
  | .ptr e, h => absurd rfl (h e)
  | .basic _, _ => rfl
  | .named _ _, _ => rfl
  | .ref _, _ => rfl
  | .slice _, _ => rfl
  | .array _ _, _ => rfl
  | .map _ _, _ => rfl
  | .struct _, _ => rfl

theorem stripPtrsE_not_ptr : ∀ (T : GoTypeE) (e : GoTypeE), (stripPtrsE T).1 ≠ .ptr e
  | .ptr e', e => by simp only [stripPtrsE]; exact stripPtrsE_not_ptr e' e
  | .basic _, _ => fun h => nomatch h
  | .named _ _, _ => fun h => nomatch h
  | .ref _, _ => fun h => nomatch h
  | .slice _, _ => fun h => nomatch h
  | .array _ _, _ => fun h => nomatch h
  | .map _ _, _ => fun h => nomatch h
  | .struct _, _ => fun h => nomatch h

theorem stripPtrsE_erase : ∀ (T : GoTypeE), (∀ e, eraseE (stripPtrsE T).1 ≠ .ptr e) →
    stripPtrsE (eraseE T) = (eraseE (stripPtrsE T).1, (stripPtrsE T).2)
  | .ptr e, h => by
    simp only [stripPtrsE] at h
    simp only [eraseE, stripPtrsE]
    rw [stripPtrsE_erase e h]
  | .basic _, h => stripPtrsE_nonptr h
  | .named _ _, h => stripPtrsE_nonptr h
  | .ref _, h => stripPtrsE_nonptr h
  | .slice _, h => stripPtrsE_nonptr h
  | .array _ _, h => stripPtrsE_nonptr h
  | .map _ _, h => stripPtrsE_nonptr h
  | .struct _, h => stripPtrsE_nonptr h

theorem stripPtrsE_namedOk (opts : IOpts) : ∀ (T : GoTypeE) (seen : List String),
    NamedOkE opts seen T = NamedOkE opts seen (stripPtrsE T).1
  | .ptr e, seen => by simp only [NamedOkE, stripPtrsE]; exact stripPtrsE_namedOk opts e seen
  | .basic _, _ => rfl
  | .named _ _, _ => rfl
  | .ref _, _ => rfl
  | .slice _, _ => rfl
  | .array _ _, _ => rfl
  | .map _ _, _ => rfl
  | .struct _, _ => rfl

/-- `*T` or `T` -/
def wrapPtrE (an : Bool) (u : GoTypeE) : GoTypeE := if an then .ptr u else u

theorem stripPtrsE_wrapPtrE {u : GoTypeE} (h : ∀ e, u ≠ .ptr e) (an : Bool) : stripPtrsE (wrapPtrE an u) = (u, an) := by
  cases an
  · exact stripPtrsE_nonptr h
  · show ((stripPtrsE u).1, true) = _
    rw [stripPtrsE_nonptr h]

/-- a declared type without a table entry: its underlying type, with the name entered into `seen` -/
theorem inferStepE_named_transparent {opts : IOpts} {rec : IRecE} {t0 u : GoTypeE} {nm : String} {an : Bool}
    {seen : List String} {st : Store} (h : stripPtrsE t0 = (.named nm u, an)) (hseen : seen.contains nm = false)
    (hs : Json.lookup nm opts.schemas = none) (hsh : namedShapeE u = true) :
    inferStepE opts rec t0 seen st = inferStepE opts rec (wrapPtrE an u) (nm :: seen) st := by
  have h2 : stripPtrsE (wrapPtrE an u) = (u, an) := stripPtrsE_wrapPtrE (by cases u <;> simp_all [namedShapeE]) an
  unfold inferStepE
  rw [h, h2]
  cases u <;> simp_all [namedShapeE, typeNameE]

/-- what is assumed of the recursive call -/
def RecEraseE (opts : IOpts) (rec : IRecE) : Prop :=
  ∀ T seen seen' st, NamedOkE opts seen T = true → rec T seen st = rec (eraseE T) seen' st

theorem inferStepE_erase_shape {opts : IOpts} {rec : IRecE} (hrec : RecEraseE opts rec) {T T' t : GoTypeE} {an : Bool}
    {seen seen' : List String} {st : Store} (hs : stripPtrsE T = (t, an)) (hs' : stripPtrsE T' = (eraseE t, an))
    (hsh : namedShapeE t = true) (hok : NamedOkE opts seen t = true) :
    inferStepE opts rec T seen st = inferStepE opts rec T' seen' st := by
  cases t with
  | ptr e => simp [namedShapeE] at hsh
  | ref n => simp [namedShapeE] at hsh
  | named n u => simp [namedShapeE] at hsh
  | basic kind =>
    simp only [eraseE] at hs'
    rw [inferStepE_basic hs, inferStepE_basic hs']
  | slice e =>
    simp only [eraseE] at hs'
    simp only [NamedOkE] at hok
    rw [inferStepE_slice hs, inferStepE_slice hs', hrec e seen seen' st hok]
  | array len e =>
    simp only [eraseE] at hs'
    simp only [NamedOkE] at hok
    rw [inferStepE_array hs, inferStepE_array hs', hrec e seen seen' st hok]
  | map keyKind e =>
    simp only [eraseE] at hs'
    simp only [NamedOkE] at hok
    rw [inferStepE_map hs, inferStepE_map hs', hrec e seen seen' st hok]
  | struct fs =>
    simp only [eraseE] at hs'
    simp only [NamedOkE] at hok
    rw [inferStepE_struct hs, inferStepE_struct hs', visibleFields_erase]
    rw [structLoopE_erase opts (visibleFields fs) none _ _
      (fun f hf ha st1 => hrec _ _ _ _ (allFields_namedOk opts seen _ fs [] 0 (Nat.le_refl _) hok f (mem_visibleFields hf) ha))]

theorem inferStepE_erase (opts : IOpts) {rec : IRecE} (hrec : RecEraseE opts rec) : RecEraseE opts (inferStepE opts rec) := by
  intro T seen seen' st hok
  rw [stripPtrsE_namedOk] at hok
  have hnp := stripPtrsE_not_ptr T
  have hse := stripPtrsE_erase T
  generalize hs : stripPtrsE T = p at hok hnp hse
  obtain ⟨t, an⟩ := p
  simp only at hok hnp hse
  cases t with
  | ptr e => exact absurd rfl (hnp e)
  | ref n => simp [NamedOkE] at hok
  | basic kind => exact inferStepE_erase_shape hrec hs (hse (fun e h => by simp [eraseE] at h)) rfl hok
  | slice e => exact inferStepE_erase_shape hrec hs (hse (fun e h => by simp [eraseE] at h)) rfl hok
  | array len e => exact inferStepE_erase_shape hrec hs (hse (fun e h => by simp [eraseE] at h)) rfl hok
  | map keyKind e => exact inferStepE_erase_shape hrec hs (hse (fun e h => by simp [eraseE] at h)) rfl hok
  | struct fs => exact inferStepE_erase_shape hrec hs (hse (fun e h => by simp [eraseE] at h)) rfl hok
  | named n u =>
    simp only [NamedOkE, Bool.and_eq_true, Bool.not_eq_true'] at hok
    obtain ⟨⟨⟨hseen, hnone⟩, hsh⟩, hu⟩ := hok
    have hnone' : Json.lookup n opts.schemas = none := by
      cases hl : Json.lookup n opts.schemas with
      | none => rfl
      | some x => rw [hl] at hnone; cases hnone
    have hup : ∀ e, u ≠ .ptr e := by cases u <;> simp_all [namedShapeE]
    have hue : ∀ e, eraseE u ≠ .ptr e := by cases u <;> simp_all [namedShapeE, eraseE]
    rw [inferStepE_named_transparent hs hseen hnone' hsh]
    have hs' := hse (fun e h => by simp only [eraseE] at h; exact hue e h)
    simp only [eraseE] at hs'
    exact inferStepE_erase_shape hrec (stripPtrsE_wrapPtrE hup an) hs' hsh hu

theorem inferFuelE_erase (opts : IOpts) : ∀ fuel, RecEraseE opts (inferFuelE opts fuel)
  | 0 => fun _ _ _ _ _ => rfl
  | fuel + 1 => inferStepE_erase opts (inferFuelE_erase opts fuel)

/-- **`forTypeE` does not see transparent declared types**: the same outcome, the same schema, the same store -/
theorem forTypeE_erase (opts : IOpts) (fuel : Nat) (T : GoTypeE) (st : Store) (hok : NamedOkE opts [] T = true) :
    forTypeE opts fuel T st = forTypeE opts fuel (eraseE T) st :=
  inferFuelE_erase opts fuel T [] [] st hok

end Go

namespace EncJsonEmb
open Go EncJson

/-! ## the encoding/json side: classification, candidates, dominance -/

theorem isStructE_eraseEmbE (t : GoTypeE) : isStructE (derefE (eraseEmbE t)) = isStructE (derefE t) := by
  rcases embIs_or_not t with ⟨fs, h⟩ | h
  · cases h <;> rfl
  · rw [h.erase]

/-- the field with its type erased, as `eraseFieldsE` builds it -/
def eraseF (f : FieldE GoTypeE) : FieldE GoTypeE :=
  { goName := f.goName, tag := f.tag, exported := f.exported, embedded := f.embedded,
    type := if f.embedded then eraseEmbE f.type else eraseE f.type }

theorem eraseFieldsE_cons (f : FieldE GoTypeE) (rest : List (FieldE GoTypeE)) :
    eraseFieldsE (f :: rest) = eraseF f :: eraseFieldsE rest := rfl

theorem classify_eraseF (f : FieldE GoTypeE) : classify (eraseF f) = classify f := by
  unfold classify eraseF
  cases he : f.embedded with
  | false => simp
  | true => simp only [if_true, isStructE_eraseEmbE]

/-- what dominance looks at -/
def tkey (t : TField) : List Nat × String × Bool × Bool × Bool := (t.index, t.name, t.tagged, t.omitempty, t.omitzero)

theorem isDominant_key {all all' : List TField} {f f' : TField} (ha : all'.map tkey = all.map tkey) (hf : tkey f' = tkey f) :
    isDominant all' f' = isDominant all f := by
  have key : ∀ (l : List TField) (g : TField), isDominant l g =
      (l.map tkey).all fun o => o.1 == (tkey g).1 || o.2.1 != (tkey g).2.1 ||
        (decide ((tkey g).1.length < o.1.length) || ((tkey g).1.length == o.1.length && (tkey g).2.2.1 && !o.2.2.1)) := by
    intro l g
    unfold isDominant
    rw [List.all_map]
    rfl
  rw [key, key, ha, hf]

theorem tkey_mkTField_eraseF (idx : List Nat) (f : FieldE GoTypeE) : tkey (mkTField idx (eraseF f)) = tkey (mkTField idx f) := rfl

theorem _root_.JSV.Go.EmbIs.cands {t : GoTypeE} {fs : List (FieldE GoTypeE)} (h : EmbIs t fs) (idx : List Nat) :
    embCandidates idx t = candidates idx 0 fs := by
  cases h <;> rfl

theorem candidates_erase_key : ∀ (n : Nat) (fs : List (FieldE GoTypeE)) (pre : List Nat) (i : Nat), wtFs fs ≤ n →
    (candidates pre i (eraseFieldsE fs)).map tkey = (candidates pre i fs).map tkey := by
  intro n
  induction n with
  | zero =>
    intro fs pre i h
    cases fs with
    | nil => rfl
    | cons f rest => simp only [wtFs] at h; omega
  | succ n ih =>
    intro fs pre i h
    cases fs with
    | nil => rfl
    | cons f rest =>
      simp only [wtFs] at h
      rw [eraseFieldsE_cons]
      simp only [candidates, List.map_append, classify_eraseF]
      rw [ih rest pre (i + 1) (by omega)]
      congr 1
      cases hc : classify f with
      | ignored => rfl
      | leaf => rfl
      | descend =>
        simp only
        have he : f.embedded = true := by
          unfold classify at hc
          cases he : f.embedded with
          | true => rfl
          | false => rw [he] at hc; simp only [Bool.false_eq_true, if_false] at hc; split at hc <;> (try split at hc) <;> cases hc
        have ht : (eraseF f).type = eraseEmbE f.type := by simp [eraseF, he]
        rw [ht]
        rcases embIs_or_not f.type with ⟨fs', hf⟩ | hf
        · rw [hf.erase.cands, hf.cands, ih fs' _ 0 (by have := hf.wt_lt; omega)]
        · rw [hf.erase]

/-! ## typing -/

/-- the type of an embedded field, erased, given the statement for the fields of the embedded struct -/
theorem hasTypeE_eraseEmbE_of (t : GoTypeE)
    (hfs : ∀ fs, EmbIs t fs → ∀ vs, HasTypeFieldsE (eraseFieldsE fs) vs ↔ HasTypeFieldsE fs vs) (v : GoValue) :
    (HasTypeE (eraseEmbE t) v ↔ HasTypeE t v) ∧ (HasTypeEmbE (eraseEmbE t) v ↔ HasTypeEmbE t v) := by
  rcases embIs_or_not t with ⟨fs, h⟩ | h
  · have H := hfs fs h
    cases h with
    | ptrNamed n fs =>
      refine ⟨?_, ?_⟩
      · simp only [eraseEmbE, HasTypeE]
        cases v with
        | ptr w => cases w with
          | struct vs => exact H vs
          | _ => exact Iff.rfl
        | _ => exact Iff.rfl
      · simp only [eraseEmbE, HasTypeEmbE]
        cases v with
        | ptr w => cases w with
          | struct vs => exact H vs
          | _ => exact Iff.rfl
        | _ => exact Iff.rfl
    | ptrStruct fs =>
      refine ⟨?_, ?_⟩
      · simp only [eraseEmbE, HasTypeE]
        cases v with
        | ptr w => cases w with
          | struct vs => exact H vs
          | _ => exact Iff.rfl
        | _ => exact Iff.rfl
      · simp only [eraseEmbE, HasTypeEmbE]
        cases v with
        | ptr w => cases w with
          | struct vs => exact H vs
          | _ => exact Iff.rfl
        | _ => exact Iff.rfl
    | named n fs =>
      refine ⟨?_, ?_⟩
      · simp only [eraseEmbE, HasTypeE]
        cases v with
        | struct vs => exact H vs
        | _ => exact Iff.rfl
      · simp only [eraseEmbE, HasTypeEmbE]
        cases v with
        | struct vs => exact H vs
        | _ => exact Iff.rfl
    | struct fs =>
      refine ⟨?_, ?_⟩
      · simp only [eraseEmbE, HasTypeE]
        cases v with
        | struct vs => exact H vs
        | _ => exact Iff.rfl
      · simp only [eraseEmbE, HasTypeEmbE]
        cases v with
        | struct vs => exact H vs
        | _ => exact Iff.rfl
  · rw [h.erase]
    exact ⟨Iff.rfl, Iff.rfl⟩

theorem hasTypeE_erase_aux : ∀ (n : Nat),
    (∀ T : GoTypeE, wt T ≤ n → ∀ v, HasTypeE (eraseE T) v ↔ HasTypeE T v) ∧
    (∀ fs : List (FieldE GoTypeE), wtFs fs ≤ n → ∀ vs, HasTypeFieldsE (eraseFieldsE fs) vs ↔ HasTypeFieldsE fs vs) := by
  intro n
  induction n with
  | zero =>
    constructor
    · intro T h v
      cases T with
      | basic k => exact Iff.rfl
      | ref k => exact Iff.rfl
      | _ => simp only [wt] at h; omega
    · intro fs h vs
      cases fs with
      | nil => exact Iff.rfl
      | cons f rest => simp only [wtFs] at h; omega
  | succ n ih =>
    constructor
    · intro T h v
      cases T with
      | basic k => exact Iff.rfl
      | ref k => exact Iff.rfl
      | named k u =>
        simp only [wt] at h
        simp only [eraseE, HasTypeE]
        exact ih.1 u (by omega) v
      | ptr e =>
        simp only [wt] at h
        simp only [eraseE, HasTypeE]
        cases v with
        | ptr w => exact ih.1 e (by omega) w
        | _ => exact Iff.rfl
      | slice e =>
        simp only [wt] at h
        simp only [eraseE, HasTypeE]
        cases v with
        | slice vs => exact forall_congr' fun w => imp_congr_right fun _ => ih.1 e (by omega) w
        | _ => exact Iff.rfl
      | array k e =>
        simp only [wt] at h
        simp only [eraseE, HasTypeE]
        cases v with
        | array vs => exact and_congr_right fun _ => forall_congr' fun w => imp_congr_right fun _ => ih.1 e (by omega) w
        | _ => exact Iff.rfl
      | map k e =>
        simp only [wt] at h
        simp only [eraseE, HasTypeE]
        cases v with
        | map kvs => exact and_congr_right fun _ => forall_congr' fun p => imp_congr_right fun _ => ih.1 e (by omega) p.2
        | _ => exact Iff.rfl
      | struct fs =>
        simp only [wt] at h
        simp only [eraseE, HasTypeE]
        cases v with
        | struct vs => exact ih.2 fs (by omega) vs
        | _ => exact Iff.rfl
    · intro fs h vs
      cases fs with
      | nil => exact Iff.rfl
      | cons f rest =>
        simp only [wtFs] at h
        rw [eraseFieldsE_cons]
        simp only [HasTypeFieldsE, classify_eraseF]
        cases vs with
        | nil => exact Iff.rfl
        | cons v vs' =>
          simp only
          refine and_congr ?_ (ih.2 rest (by omega) vs')
          have hemb := hasTypeE_eraseEmbE_of f.type
            (fun fs' hf => ih.2 fs' (by have := hf.wt_lt; omega)) v
          cases hc : classify f with
          | ignored => exact Iff.rfl
          | leaf =>
            simp only
            cases he : f.embedded with
            | true => simpa [eraseF, he] using hemb.1
            | false => simpa [eraseF, he] using ih.1 f.type (by omega) v
          | descend =>
            simp only
            have he : f.embedded = true := by
              unfold classify at hc
              cases he : f.embedded with
              | true => rfl
              | false => rw [he] at hc; simp only [Bool.false_eq_true, if_false] at hc; split at hc <;> (try split at hc) <;> cases hc
            simpa [eraseF, he] using hemb.2

/-- typing does not see declared types in non-embedded positions -/
theorem hasTypeE_erase (T : GoTypeE) (v : GoValue) : HasTypeE (eraseE T) v ↔ HasTypeE T v :=
  (hasTypeE_erase_aux (wt T)).1 T (Nat.le_refl _) v

/-! ## json.Marshal -/

theorem classify_descend_embedded {f : FieldE GoTypeE} (hc : classify f = .descend) : f.embedded = true := by
  unfold classify at hc
  cases he : f.embedded with
  | true => rfl
  | false => rw [he] at hc; simp only [Bool.false_eq_true, if_false] at hc; split at hc <;> (try split at hc) <;> cases hc

/-- the type of an embedded field, erased, given the statement for the fields of the embedded struct -/
theorem encodeE_eraseEmbE_of (t : GoTypeE) (all all' : List TField) (idx : List Nat)
    (hfs : ∀ fs, EmbIs t fs → ∀ vs, encodeFieldsE all' idx 0 (eraseFieldsE fs) vs = encodeFieldsE all idx 0 fs vs)
    (hst : ∀ fs, EmbIs t fs → ∀ v, encodeE (.struct (eraseFieldsE fs)) v = encodeE (.struct fs) v) (v : GoValue) :
    encodeE (eraseEmbE t) v = encodeE t v ∧ encodeEmbE all' idx (eraseEmbE t) v = encodeEmbE all idx t v := by
  rcases embIs_or_not t with ⟨fs, h⟩ | h
  · have H := hfs fs h
    have S := hst fs h
    cases h with
    | ptrNamed n fs =>
      refine ⟨?_, ?_⟩
      · simp only [eraseEmbE, encodeE]
        cases v with
        | ptr w => exact S w
        | _ => rfl
      · simp only [eraseEmbE, encodeEmbE]
        cases v with
        | ptr w => cases w with
          | struct vs => exact H vs
          | _ => rfl
        | _ => rfl
    | ptrStruct fs =>
      refine ⟨?_, ?_⟩
      · simp only [eraseEmbE, encodeE]
        cases v with
        | ptr w => exact S w
        | _ => rfl
      · simp only [eraseEmbE, encodeEmbE]
        cases v with
        | ptr w => cases w with
          | struct vs => exact H vs
          | _ => rfl
        | _ => rfl
    | named n fs =>
      refine ⟨?_, ?_⟩
      · simp only [eraseEmbE, encodeE]
        exact S v
      · simp only [eraseEmbE, encodeEmbE]
        cases v with
        | struct vs => exact H vs
        | _ => rfl
    | struct fs =>
      refine ⟨S v, ?_⟩
      simp only [eraseEmbE, encodeEmbE]
      cases v with
      | struct vs => exact H vs
      | _ => rfl
  · rw [h.erase]
    exact ⟨rfl, by rw [h.encode, h.encode]⟩

theorem encodeE_erase_aux : ∀ (n : Nat),
    (∀ T : GoTypeE, wt T ≤ n → ∀ v, encodeE (eraseE T) v = encodeE T v) ∧
    (∀ fs : List (FieldE GoTypeE), wtFs fs ≤ n → ∀ (all all' : List TField) (pre : List Nat) (i : Nat) (vs : List GoValue),
      all'.map tkey = all.map tkey → encodeFieldsE all' pre i (eraseFieldsE fs) vs = encodeFieldsE all pre i fs vs) := by
  intro n
  induction n with
  | zero =>
    constructor
    · intro T h v
      cases T with
      | basic k => rfl
      | ref k => rfl
      | _ => simp only [wt] at h; omega
    · intro fs h all all' pre i vs _
      cases fs with
      | nil => rfl
      | cons f rest => simp only [wtFs] at h; omega
  | succ n ih =>
    have hstruct : ∀ fs : List (FieldE GoTypeE), wtFs fs ≤ n → ∀ v, encodeE (.struct (eraseFieldsE fs)) v = encodeE (.struct fs) v := by
      intro fs h v
      simp only [encodeE]
      cases v with
      | struct vs =>
        simp only
        rw [ih.2 fs h _ _ [] 0 vs (candidates_erase_key _ fs [] 0 (Nat.le_refl _))]
      | _ => rfl
    constructor
    · intro T h v
      cases T with
      | basic k => rfl
      | ref k => rfl
      | named k u =>
        simp only [wt] at h
        simp only [eraseE, encodeE]
        exact ih.1 u (by omega) v
      | ptr e =>
        simp only [wt] at h
        simp only [eraseE, encodeE]
        cases v with
        | ptr w => exact ih.1 e (by omega) w
        | _ => rfl
      | slice e =>
        simp only [wt] at h
        simp only [eraseE, encodeE]
        cases v with
        | slice vs =>
          simp only
          congr 1
          exact List.map_congr_left fun w _ => ih.1 e (by omega) w
        | _ => rfl
      | array k e =>
        simp only [wt] at h
        simp only [eraseE, encodeE]
        cases v with
        | array vs =>
          simp only
          congr 1
          exact List.map_congr_left fun w _ => ih.1 e (by omega) w
        | _ => rfl
      | map k e =>
        simp only [wt] at h
        simp only [eraseE, encodeE]
        cases v with
        | map kvs =>
          simp only
          congr 1
          exact List.map_congr_left fun p _ => by rw [ih.1 e (by omega) p.2]
        | _ => rfl
      | struct fs =>
        simp only [wt] at h
        simp only [eraseE]
        exact hstruct fs (by omega) v
    · intro fs h all all' pre i vs hk
      cases fs with
      | nil => rfl
      | cons f rest =>
        simp only [wtFs] at h
        rw [eraseFieldsE_cons]
        simp only [encodeFieldsE, classify_eraseF]
        cases vs with
        | nil => rfl
        | cons v vs' =>
          simp only
          rw [ih.2 rest (by omega) all all' pre (i + 1) vs' hk]
          congr 1
          have hemb := encodeE_eraseEmbE_of f.type all all' (pre ++ [i])
            (fun fs' hf vs => ih.2 fs' (by have := hf.wt_lt; omega) all all' _ 0 vs hk)
            (fun fs' hf v => hstruct fs' (by have := hf.wt_lt; omega) v) v
          cases hc : classify f with
          | ignored => rfl
          | leaf =>
            simp only
            rw [isDominant_key hk (tkey_mkTField_eraseF (pre ++ [i]) f)]
            have hty : encodeE (eraseF f).type v = encodeE f.type v := by
              cases he : f.embedded with
              | true => simpa [eraseF, he] using hemb.1
              | false => simpa [eraseF, he] using ih.1 f.type (by omega) v
            rw [hty]
            rfl
          | descend =>
            simp only
            have he := classify_descend_embedded hc
            have ht : (eraseF f).type = eraseEmbE f.type := by simp [eraseF, he]
            rw [ht]
            exact hemb.2

/-- json.Marshal does not see declared types in non-embedded positions -/
theorem encodeE_erase (T : GoTypeE) (v : GoValue) : encodeE (eraseE T) v = encodeE T v :=
  (encodeE_erase_aux (wt T)).1 T (Nat.le_refl _) v

/-! ## depth, and the side condition on embedded types -/

theorem depthE_eraseEmbE_of (t : GoTypeE)
    (hfs : ∀ fs, EmbIs t fs → depthFieldsE (eraseFieldsE fs) ≤ depthFieldsE fs) : depthE (eraseEmbE t) ≤ depthE t := by
  rcases embIs_or_not t with ⟨fs, h⟩ | h
  · have H := hfs fs h
    cases h <;> simp only [eraseEmbE, depthE] <;> omega
  · rw [h.erase]
    exact Nat.le_refl _

theorem depthE_erase_aux : ∀ (n : Nat),
    (∀ T : GoTypeE, wt T ≤ n → depthE (eraseE T) ≤ depthE T) ∧
    (∀ fs : List (FieldE GoTypeE), wtFs fs ≤ n → depthFieldsE (eraseFieldsE fs) ≤ depthFieldsE fs) := by
  intro n
  induction n with
  | zero =>
    constructor
    · intro T h
      cases T with
      | basic k => exact Nat.le_refl _
      | ref k => exact Nat.le_refl _
      | _ => simp only [wt] at h; omega
    · intro fs h
      cases fs with
      | nil => exact Nat.le_refl _
      | cons f rest => simp only [wtFs] at h; omega
  | succ n ih =>
    constructor
    · intro T h
      cases T with
      | basic k => exact Nat.le_refl _
      | ref k => exact Nat.le_refl _
      | named k u => simp only [wt] at h; simp only [eraseE, depthE]; have := ih.1 u (by omega); omega
      | ptr e => simp only [wt] at h; simp only [eraseE, depthE]; exact ih.1 e (by omega)
      | slice e => simp only [wt] at h; simp only [eraseE, depthE]; have := ih.1 e (by omega); omega
      | array k e => simp only [wt] at h; simp only [eraseE, depthE]; have := ih.1 e (by omega); omega
      | map k e => simp only [wt] at h; simp only [eraseE, depthE]; have := ih.1 e (by omega); omega
      | struct fs => simp only [wt] at h; simp only [eraseE, depthE]; have := ih.2 fs (by omega); omega
    · intro fs h
      cases fs with
      | nil => exact Nat.le_refl _
      | cons f rest =>
        simp only [wtFs] at h
        rw [eraseFieldsE_cons]
        simp only [depthFieldsE]
        have h2 := ih.2 rest (by omega)
        have h1 : depthE (eraseF f).type ≤ depthE f.type := by
          cases he : f.embedded with
          | true =>
            have := depthE_eraseEmbE_of f.type (fun fs' hf => ih.2 fs' (by have := hf.wt_lt; omega))
            simpa [eraseF, he] using this
          | false => simpa [eraseF, he] using ih.1 f.type (by omega)
        omega

theorem depthE_erase_le (T : GoTypeE) : depthE (eraseE T) ≤ depthE T :=
  (depthE_erase_aux (wt T)).1 T (Nat.le_refl _)

theorem embNotInTable_eraseEmbE_of (opts : IOpts) (t : GoTypeE)
    (hfs : ∀ fs, EmbIs t fs → EmbNotInTableFs opts fs → EmbNotInTableFs opts (eraseFieldsE fs))
    (h : EmbNotInTable opts t) : EmbNotInTable opts (eraseEmbE t) := by
  rcases embIs_or_not t with ⟨fs, hf⟩ | hf
  · have H := hfs fs hf
    cases hf <;> simp only [eraseEmbE, EmbNotInTable] at h ⊢ <;> exact H h
  · rw [hf.erase]
    exact h

theorem embNotInTable_erase_aux (opts : IOpts) : ∀ (n : Nat),
    (∀ T : GoTypeE, wt T ≤ n → EmbNotInTable opts T → EmbNotInTable opts (eraseE T)) ∧
    (∀ fs : List (FieldE GoTypeE), wtFs fs ≤ n → EmbNotInTableFs opts fs → EmbNotInTableFs opts (eraseFieldsE fs)) := by
  intro n
  induction n with
  | zero =>
    constructor
    · intro T h hn
      cases T with
      | basic k => exact hn
      | ref k => exact hn
      | _ => simp only [wt] at h; omega
    · intro fs h hn
      cases fs with
      | nil => exact hn
      | cons f rest => simp only [wtFs] at h; omega
  | succ n ih =>
    constructor
    · intro T h hn
      cases T with
      | basic k => exact hn
      | ref k => exact hn
      | named k u => simp only [wt] at h; simp only [EmbNotInTable] at hn; simp only [eraseE]; exact ih.1 u (by omega) hn
      | ptr e => simp only [wt] at h; simp only [EmbNotInTable] at hn; simp only [eraseE, EmbNotInTable]; exact ih.1 e (by omega) hn
      | slice e => simp only [wt] at h; simp only [EmbNotInTable] at hn; simp only [eraseE, EmbNotInTable]; exact ih.1 e (by omega) hn
      | array k e => simp only [wt] at h; simp only [EmbNotInTable] at hn; simp only [eraseE, EmbNotInTable]; exact ih.1 e (by omega) hn
      | map k e => simp only [wt] at h; simp only [EmbNotInTable] at hn; simp only [eraseE, EmbNotInTable]; exact ih.1 e (by omega) hn
      | struct fs => simp only [wt] at h; simp only [EmbNotInTable] at hn; simp only [eraseE, EmbNotInTable]; exact ih.2 fs (by omega) hn
    · intro fs h hn
      cases fs with
      | nil => exact hn
      | cons f rest =>
        simp only [wtFs] at h
        simp only [EmbNotInTableFs] at hn
        rw [eraseFieldsE_cons]
        simp only [EmbNotInTableFs]
        refine ⟨fun he => ?_, ?_, ih.2 rest (by omega) hn.2.2⟩
        · have he' : f.embedded = true := he
          have ht : (eraseF f).type = eraseEmbE f.type := by simp [eraseF, he']
          rw [ht, typeNameE_eraseEmbE]
          exact hn.1 he'
        · cases he : f.embedded with
          | true =>
            have := embNotInTable_eraseEmbE_of opts f.type
              (fun fs' hf => ih.2 fs' (by have := hf.wt_lt; omega)) hn.2.1
            simpa [eraseF, he] using this
          | false => simpa [eraseF, he] using ih.1 f.type (by omega) hn.2.1

theorem embNotInTable_erase (opts : IOpts) (T : GoTypeE) (h : EmbNotInTable opts T) : EmbNotInTable opts (eraseE T) :=
  (embNotInTable_erase_aux opts (wt T)).1 T (Nat.le_refl _) h

/-! ## the strict decoder -/

theorem _root_.JSV.Go.EmbIs.decodable {t : GoTypeE} {fs : List (FieldE GoTypeE)} (h : EmbIs t fs) (j : Json) :
    decodableE t j = decodableE (.struct fs) j := by
  cases h <;> simp only [decodableE]

theorem _root_.JSV.Go.EmbIs.decodableFind {t : GoTypeE} {fs : List (FieldE GoTypeE)} (h : EmbIs t fs) (all : List TField)
    (m : String → String → Bool) (idx : List Nat) (k : String) (v : Json) :
    decodableEmbFindE all m idx t k v = decodableFindE all m idx 0 fs k v := by
  cases h <;> rfl

/-- the type of an embedded field, erased, given the statement for the fields of the embedded struct -/
theorem decodableE_eraseEmbE_of (t : GoTypeE) (all all' : List TField) (m : String → String → Bool) (idx : List Nat)
    (hfs : ∀ fs, EmbIs t fs → ∀ k v, decodableFindE all' m idx 0 (eraseFieldsE fs) k v = decodableFindE all m idx 0 fs k v)
    (hst : ∀ fs, EmbIs t fs → ∀ j, decodableE (.struct (eraseFieldsE fs)) j = decodableE (.struct fs) j) :
    (∀ j, decodableE (eraseEmbE t) j = decodableE t j) ∧
    ∀ k v, decodableEmbFindE all' m idx (eraseEmbE t) k v = decodableEmbFindE all m idx t k v := by
  rcases embIs_or_not t with ⟨fs, h⟩ | h
  · refine ⟨fun j => ?_, fun k v => ?_⟩
    · rw [h.erase.decodable, h.decodable, hst fs h]
    · rw [h.erase.decodableFind, h.decodableFind, hfs fs h]
  · rw [h.erase]
    exact ⟨fun _ => rfl, fun k v => by rw [h.decodeFind, h.decodeFind]⟩

theorem decodableE_erase_aux : ∀ (n : Nat),
    (∀ T : GoTypeE, wt T ≤ n → ∀ j, decodableE (eraseE T) j = decodableE T j) ∧
    (∀ fs : List (FieldE GoTypeE), wtFs fs ≤ n → ∀ (all all' : List TField) (m : String → String → Bool) (pre : List Nat)
      (i : Nat) (k : String) (v : Json), all'.map tkey = all.map tkey →
      decodableFindE all' m pre i (eraseFieldsE fs) k v = decodableFindE all m pre i fs k v) := by
  intro n
  induction n with
  | zero =>
    constructor
    · intro T h j
      cases T with
      | basic k => rfl
      | ref k => rfl
      | _ => simp only [wt] at h; omega
    · intro fs h all all' m pre i k v _
      cases fs with
      | nil => rfl
      | cons f rest => simp only [wtFs] at h; omega
  | succ n ih =>
    have hstruct : ∀ fs : List (FieldE GoTypeE), wtFs fs ≤ n → ∀ j, decodableE (.struct (eraseFieldsE fs)) j = decodableE (.struct fs) j := by
      intro fs h j
      simp only [decodableE]
      cases j with
      | obj kvs =>
        simp only
        refine List.all_congr rfl fun p => ?_
        rw [ih.2 fs h _ _ _ [] 0 p.1 p.2 (candidates_erase_key _ fs [] 0 (Nat.le_refl _)),
          ih.2 fs h _ _ _ [] 0 p.1 p.2 (candidates_erase_key _ fs [] 0 (Nat.le_refl _))]
      | _ => rfl
    constructor
    · intro T h j
      cases T with
      | basic k => rfl
      | ref k => rfl
      | named k u =>
        simp only [wt] at h
        simp only [eraseE, decodableE]
        exact ih.1 u (by omega) j
      | ptr e =>
        simp only [wt] at h
        simp only [eraseE, decodableE]
        exact ih.1 e (by omega) j
      | slice e =>
        simp only [wt] at h
        simp only [eraseE, decodableE]
        cases j with
        | arr xs => exact List.all_congr rfl fun x => ih.1 e (by omega) x
        | _ => rfl
      | array k e =>
        simp only [wt] at h
        simp only [eraseE, decodableE]
        cases j with
        | arr xs => exact List.all_congr rfl fun x => ih.1 e (by omega) x
        | _ => rfl
      | map k e =>
        simp only [wt] at h
        simp only [eraseE, decodableE]
        cases j with
        | obj kvs =>
          simp only
          congr 1
          exact List.all_congr rfl fun p => ih.1 e (by omega) p.2
        | _ => rfl
      | struct fs =>
        simp only [wt] at h
        simp only [eraseE]
        exact hstruct fs (by omega) j
    · intro fs h all all' m pre i k v hk
      cases fs with
      | nil => rfl
      | cons f rest =>
        simp only [wtFs] at h
        rw [eraseFieldsE_cons]
        simp only [decodableFindE, classify_eraseF]
        rw [ih.2 rest (by omega) all all' m pre (i + 1) k v hk]
        have hemb := decodableE_eraseEmbE_of f.type all all' m (pre ++ [i])
          (fun fs' hf k v => ih.2 fs' (by have := hf.wt_lt; omega) all all' m _ 0 k v hk)
          (fun fs' hf j => hstruct fs' (by have := hf.wt_lt; omega) j)
        cases hc : classify f with
        | ignored => rfl
        | leaf =>
          simp only
          rw [isDominant_key hk (tkey_mkTField_eraseF (pre ++ [i]) f)]
          have hty : decodableE (eraseF f).type v = decodableE f.type v := by
            cases he : f.embedded with
            | true => simpa [eraseF, he] using hemb.1 v
            | false => simpa [eraseF, he] using ih.1 f.type (by omega) v
          rw [hty]
          rfl
        | descend =>
          simp only
          have he := classify_descend_embedded hc
          have ht : (eraseF f).type = eraseEmbE f.type := by simp [eraseF, he]
          rw [ht, hemb.2 k v]

/-- the strict decoder does not see declared types in non-embedded positions -/
theorem decodableE_erase (T : GoTypeE) (j : Json) : decodableE (eraseE T) j = decodableE T j :=
  (decodableE_erase_aux (wt T)).1 T (Nat.le_refl _) j

/-! ## encoding/json's field list -/

theorem filter_map_key {α κ : Type} (k : α → κ) (q : κ → Bool) : ∀ (l' l : List α), l'.map k = l.map k →
    (l'.filter fun x => q (k x)).map k = (l.filter fun x => q (k x)).map k
  | [], [], _ => rfl
  | [], _ :: _, h => by simp at h
  | _ :: _, [], h => by simp at h
  | x' :: l', x :: l, h => by
    simp only [List.map_cons, List.cons.injEq] at h
    have ih := filter_map_key k q l' l h.2
    simp only [List.filter_cons, h.1]
    split
    · simp only [List.map_cons, h.1, ih]
    · exact ih

/-- dominance as a function of the keys -/
def domKey (ks : List (List Nat × String × Bool × Bool × Bool)) (kx : List Nat × String × Bool × Bool × Bool) : Bool :=
  ks.all fun o => o.1 == kx.1 || o.2.1 != kx.2.1 ||
    (decide (kx.1.length < o.1.length) || (kx.1.length == o.1.length && kx.2.2.1 && !o.2.2.1))

theorem isDominant_eq_domKey (all : List TField) (x : TField) : isDominant all x = domKey (all.map tkey) (tkey x) := by
  unfold isDominant domKey
  rw [List.all_map]
  rfl

theorem typeFields_erase_key (fs : List (FieldE GoTypeE)) :
    (typeFields (eraseFieldsE fs)).map tkey = (typeFields fs).map tkey := by
  unfold typeFields
  have hk := candidates_erase_key _ fs [] 0 (Nat.le_refl _)
  have h1 : isDominant (candidates [] 0 (eraseFieldsE fs)) = fun x => domKey ((candidates [] 0 fs).map tkey) (tkey x) :=
    funext fun x => by rw [isDominant_eq_domKey, hk]
  have h2 : isDominant (candidates [] 0 fs) = fun x => domKey ((candidates [] 0 fs).map tkey) (tkey x) :=
    funext fun x => isDominant_eq_domKey _ x
  rw [h1, h2]
  exact filter_map_key tkey (domKey ((candidates [] 0 fs).map tkey)) _ _ hk

/-- the JSON names json.Marshal emits, and the always-written ones, do not depend on declared types in non-embedded
    positions -/
theorem fieldNames_erase (fs : List (FieldE GoTypeE)) :
    fieldNames (eraseFieldsE fs) = fieldNames fs ∧ alwaysFieldNames (eraseFieldsE fs) = alwaysFieldNames fs := by
  have hk := typeFields_erase_key fs
  constructor
  · unfold fieldNames
    have : ∀ l : List TField, l.map (·.name) = (l.map tkey).map (·.2.1) := fun l => by rw [List.map_map]; rfl
    rw [this, this, hk]
  · unfold alwaysFieldNames
    have h1 := filter_map_key tkey (fun kx => !kx.2.2.2.1 && !kx.2.2.2.2) _ _ hk
    have : ∀ l : List TField, l.map (·.name) = (l.map tkey).map (·.2.1) := fun l => by rw [List.map_map]; rfl
    rw [this, this]
    exact congrArg (List.map (·.2.1)) h1

end EncJsonEmb

namespace Go
open EncJsonEmb EncJson

theorem noOverride_erase {opts : IOpts} {fs : List (FieldE GoTypeE)} (h : NoOverride opts (visibleFields fs)) :
    NoOverride opts (visibleFields (eraseFieldsE fs)) := by
  rw [visibleFields_erase]
  intro f hf ha
  obtain ⟨g, hg, rfl⟩ := List.mem_map.1 hf
  have ha' : g.anonymous = true := ha
  have : (eraseV g).type = eraseEmbE g.type := by simp [eraseV, ha']
  rw [this, typeNameE_eraseEmbE]
  exact h g hg ha'

end Go
end JSV
