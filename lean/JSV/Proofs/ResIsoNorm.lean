/-
  The normal forms of the JSON round trip (`Go.normNode`) are invisible to Resolve.

  As in JSV/Proofs/IsoValid.lean for validation, in three steps:
  (1) the nil-vs-empty normalisations and the fields Resolve does not read (`Iso.preNorm`): the same ids, `RNode Eq`
      — an instance of the simulation along a renaming (`RIso.resolve_rel`) with the identity as renaming;
  (2) the eight maps in the order they come back (ascending keys; "properties" in emission order): a permutation of
      the entry lists at fixed ids — `RPerm.resolve_rel`, the lemma behind C14;
  (3) the tree read back is a copy, node by node, of the normalised original (`Go.TreeEq`): `RIso.resolve_trees`.
-/
import JSV.Proofs.ResIso4
namespace JSV
namespace Go
namespace RIso
open RInv

/-! ### step (1): nil vs empty -/

/-- the same field up to nil vs empty -/
def FieldEqv : ChildField → ChildField → Prop
  | .one j c, .one j' c' => j = j' ∧ c = c'
  | .many j cs, .many j' cs' => j = j' ∧ cs.getD [] = cs'.getD []
  | .keyed j cs, .keyed j' cs' => j = j' ∧ cs.getD [] = cs'.getD []
  | _, _ => False

theorem flatMap_eqv {β : Type} {g : ChildField → List β} (hg : ∀ f f', FieldEqv f f' → g f = g f') :
    ∀ {fs fs' : List ChildField}, ListRel FieldEqv fs fs' → fs.flatMap g = fs'.flatMap g
  | _, _, .nil => rfl
  | _, _, .cons h1 h2 => by rw [List.flatMap_cons, List.flatMap_cons, hg _ _ h1, flatMap_eqv hg h2]

theorem children_eqv {n n' : Node} (h : ListRel FieldEqv n.childFields n'.childFields) : n.children = n'.children := by
  unfold Node.children
  refine flatMap_eqv (fun f f' hf => ?_) h
  cases f <;> cases f' <;> first | exact hf.elim | skip
  · obtain ⟨rfl, rfl⟩ := hf; rfl
  · obtain ⟨rfl, e⟩ := hf; exact e
  · obtain ⟨rfl, e⟩ := hf
    show (sortByKey _).map _ = (sortByKey _).map _
    rw [e]

theorem entries_eqv {n n' : Node} (h : ListRel FieldEqv n.childFields n'.childFields) (path : String) :
    childEntries n path = childEntries n' path := by
  unfold childEntries
  refine flatMap_eqv (fun f f' hf => ?_) h
  cases f <;> cases f' <;> first | exact hf.elim | skip
  · obtain ⟨rfl, rfl⟩ := hf; rfl
  · obtain ⟨rfl, e⟩ := hf
    dsimp only
    rw [e]
  · obtain ⟨rfl, e⟩ := hf
    dsimp only
    rw [e]

theorem find_field_eqv (name : String) : ∀ {fs fs' : List ChildField}, ListRel FieldEqv fs fs' →
    OptRel FieldEqv
      (fs.find? fun f => match f with
        | .one j _ => j == name | .many j _ => j == name | .keyed j _ => j == name)
      (fs'.find? fun f => match f with
        | .one j _ => j == name | .many j _ => j == name | .keyed j _ => j == name)
  | _, _, .nil => trivial
  | _, _, .cons (a := f) (b := f') h1 h2 => by
    rw [List.find?_cons, List.find?_cons]
    cases f <;> cases f' <;> first | exact h1.elim | skip
    all_goals
      have hj := h1.1
      subst hj
      dsimp only
      split
      · exact h1
      · exact find_field_eqv name h2

theorem listRel_eq_refl {α} : ∀ (l : List α), ListRel Eq l l
  | [] => .nil
  | _ :: l => .cons rfl (listRel_eq_refl l)

theorem optRel_eq_refl {α} : ∀ (o : Option α), OptRel Eq o o
  | none => trivial
  | some _ => rfl

theorem emptyKV_isSome {α : Type} (m : Option (List (String × α))) (h : (Iso.emptyKV m).isSome = true) :
    m.isSome = true := by
  cases m with
  | none => cases h
  | some _ => rfl

theorem normKV_isSome {α : Type} (m : Option (List (String × α))) (h : (normKV m).isSome = true) :
    m.isSome = true := by
  cases m with
  | none => cases h
  | some _ => rfl

theorem depNil_keys_any (m : Option (List (String × Option (List String)))) (k : String) :
    (((Iso.depNil m).getD []).any fun x => x.1 == k) = ((m.getD []).any fun x => x.1 == k) := by
  cases m with
  | none => rfl
  | some l =>
    cases l with
    | nil => rfl
    | cons e es =>
      show (((e :: es).map fun e => (e.1, some (e.2.getD []))).any fun x => x.1 == k) = _
      rw [List.any_map]
      rfl

theorem preNorm_fields (n : Node) : ListRel FieldEqv n.childFields (Iso.preNorm n).childFields := by
  unfold Node.childFields
  repeat' apply ListRel.cons
  all_goals first
    | exact .nil
    | exact ⟨rfl, rfl⟩
    | exact ⟨rfl, (Iso.emptyKV_getD _).symm⟩
    | exact ⟨rfl, (Iso.normList_getD _).symm⟩

/-- checkLocal: the normal forms only remove reasons to fail (`$defs: {}` beside `definitions` ↦ nil; the test on
    `$vocabulary` is a test of presence, which `normVocab` keeps: `normVocab_isSome`) -/
theorem checkLocalOk_preNorm (env : Env) (n : Node) (h : checkLocalOk env n = true) :
    checkLocalOk env (Iso.preNorm n) = true := by
  unfold checkLocalOk basicChecksOk at h ⊢
  simp only [Bool.and_eq_true] at h ⊢
  obtain ⟨⟨⟨⟨⟨⟨⟨h1, h2⟩, h3⟩, _⟩, h5⟩, h6⟩, h7⟩, h8⟩ := h
  refine ⟨⟨⟨⟨⟨⟨⟨h1, ?_⟩, h3⟩, rfl⟩, ?_⟩, ?_⟩, h7⟩, ?_⟩
  · show (!((Iso.emptyKV n.defs).isSome && (Iso.emptyKV n.definitions).isSome)) = true
    cases e1 : (Iso.emptyKV n.defs).isSome with
    | false => rfl
    | true =>
      cases e2 : (Iso.emptyKV n.definitions).isSome with
      | false => rfl
      | true => rw [emptyKV_isSome _ e1, emptyKV_isSome _ e2] at h2; exact h2
  · show (!(((Iso.emptyKV n.dependencySchemas).getD []).any fun x =>
      ((Iso.depNil n.dependencyStrings).getD []).any fun x' => x'.1 == x.1)) = true
    rw [Iso.emptyKV_getD]
    have : (fun (x : String × NodeId) => ((Iso.depNil n.dependencyStrings).getD []).any fun x' => x'.1 == x.1) =
        (fun (x : String × NodeId) => (n.dependencyStrings.getD []).any fun x' => x'.1 == x.1) := by
      funext x
      exact depNil_keys_any _ _
    rw [this]
    exact h5
  · show (!((normVocab n.vocabulary).isSome && n.schema != "https://json-schema.org/draft/2020-12/schema")) = true
    rw [normVocab_isSome]
    exact h6
  · show (((Iso.emptyKV n.patternProperties).getD []).all fun x => env.reOk x.1) = true
    rw [Iso.emptyKV_getD]
    exact h8

theorem field_preNorm (st₁ st₂ : Store) (n : Node) (name : String) :
    OptRel (CurRel Eq st₁ st₂) (Pointer.lookupField n name) (Pointer.lookupField (Iso.preNorm n) name) := by
  have hfind := find_field_eqv name (preNorm_fields n)
  unfold Pointer.lookupField
  by_cases c1 : (name == "type") = true
  · simp only [c1, if_true]; trivial
  · simp only [c1]
    by_cases c2 : (name == "items") = true
    · simp only [c2, if_true]
      show OptRel _ (match n.items with
        | some c => some (Pointer.Cursor.node c)
        | none => some (.nodes (n.itemsArray.getD [])))
        (match n.items with
        | some c => some (Pointer.Cursor.node c)
        | none => some (.nodes (n.itemsArray.getD [])))
      cases n.items with
      | none => exact listRel_eq_refl _
      | some c => exact Or.inl rfl
    · simp only [c2]
      by_cases c3 : (name == "dependencies") = true
      · simp only [c3, if_true]
        show ∀ k, OptRel Eq (Json.lookup k (n.dependencySchemas.getD []))
          (Json.lookup k ((Iso.emptyKV n.dependencySchemas).getD []))
        rw [Iso.emptyKV_getD]
        exact fun k => optRel_eq_refl _
      · simp only [c3]
        generalize List.find? _ n.childFields = r at hfind
        generalize List.find? _ (Node.childFields _) = r' at hfind
        cases r with
        | none =>
          cases r' with
          | none =>
            dsimp only
            generalize (Generated.schemaFields.any fun f => f.2.2.1 == name) = bb
            cases bb <;> exact True.intro
          | some y => exact hfind.elim
        | some x =>
          cases r' with
          | none => exact hfind.elim
          | some y =>
            cases x <;> cases y <;> first | exact hfind.elim | skip
            · obtain ⟨rfl, rfl⟩ := hfind
              rename_i j c
              cases c with
              | none => exact Or.inl rfl
              | some a => exact Or.inl rfl
            · obtain ⟨rfl, e⟩ := hfind
              show ListRel Eq _ _
              rw [e]
              exact listRel_eq_refl _
            · obtain ⟨rfl, e⟩ := hfind
              show ∀ k, OptRel Eq (Json.lookup k _) (Json.lookup k _)
              rw [e]
              exact fun k => optRel_eq_refl _

/-- a schema object and its `Iso.preNorm` look alike to the resolver -/
theorem rnode_preNorm (env₁ env₂ : Env) (hre : env₁.reOk = env₂.reOk) (n : Node) :
    RNode Eq env₁ env₂ n (Iso.preNorm n) where
  id := rfl
  schema := rfl
  ref := rfl
  anchor := rfl
  dynamicAnchor := rfl
  dynamicRef := rfl
  localOk := fun h => by rw [← checkLocalOk_reOk hre]; exact checkLocalOk_preNorm env₁ n h
  children := by rw [← children_eqv (preNorm_fields n)]; exact listRel_eq_refl _
  entries := fun path => by
    rw [← entries_eqv (preNorm_fields n) path]
    exact ListRel.refl_of _ fun _ _ => ⟨rfl, rfl⟩
  field := field_preNorm _ _ n

/-- `Iso.preNorm` at every schema object of the store: a simulation of resolver environments along the identity -/
theorem envRel_preNorm (env : Env) : EnvRel Eq env { env with st := env.st.map Iso.preNorm } where
  biu := fun a b a' b' h h' => by subst h; subst h'; exact Iff.rfl
  node := fun a b h => by
    subst h
    show OptRel _ (env.st.get? a) (Store.get? (env.st.map Iso.preNorm) a)
    rw [Iso.get?_map]
    cases env.st.get? a with
    | none => trivial
    | some n => exact rnode_preNorm env { env with st := env.st.map Iso.preNorm } rfl n
  loader := fun t₁ ht₁ => ⟨t₁, ht₁, fun key l₁ hk => ⟨l₁, hk, rfl⟩⟩
  draft7 := rfl

/-! ### step (2): the maps in the order they come back -/

theorem filterMap_self {α : Type} (ps : List (String × α)) : ∀ (l : List (String × α)),
    (∀ e, e ∈ l → Json.lookup e.1 ps = some e.2) →
    (l.map (·.1)).filterMap (fun k => (Json.lookup k ps).map fun v => (k, v)) = l
  | [], _ => rfl
  | e :: l, h => by
    rw [List.map_cons, List.filterMap_cons, h e List.mem_cons_self]
    dsimp only [Option.map_some]
    rw [filterMap_self ps l fun e' he' => h e' (List.mem_cons_of_mem _ he')]

theorem orderedKeys_nodup {ps : List (String × NodeId)} {order : List String} (hn : (ps.map (·.1)).Nodup)
    (ho : order.Nodup) : (orderedKeys ps order).Nodup := by
  rw [orderedKeys_blocks, List.nodup_append]
  refine ⟨ho.filter _, ((sortStrings_perm' _).nodup_iff).2 (hn.filter _), ?_⟩
  intro a ha b hb hab
  subst hab
  have h1 := (mem_listedKeys.1 ha).1
  have h2 := (mem_restKeys.1 ((sortStrings_perm' _).mem_iff.1 hb)).2
  exact h2 h1

/-- orderedProperties emits every property exactly once -/
theorem propEntries_perm {ps : List (String × NodeId)} {order : List String} (hn : (ps.map (·.1)).Nodup)
    (ho : order.Nodup) : (propEntries ps order).Perm ps := by
  have hk : (orderedKeys ps order).Perm (ps.map (·.1)) := by
    rw [List.perm_ext_iff_of_nodup (orderedKeys_nodup hn ho) hn]
    intro k
    exact ⟨fun h => lookup_isSome_iff_mem_keys.1 (orderedKeys_isSome h), fun h => Iso.mem_orderedKeys h⟩
  have h1 := hk.filterMap (fun k => (Json.lookup k ps).map fun v => (k, v))
  have h2 := filterMap_self ps ps fun e he => Json.lookup_of_mem_nodup hn he
  unfold propEntries
  rw [h2] at h1
  exact h1

/-- what the round trip makes of one node, when its PropertyOrder has no duplicate (else only step (1)) -/
def normT (n : Node) : Node := if hasDup (n.propertyOrder.getD []) then Iso.preNorm n else normNode n

theorem permNode_pre_normT (n : Node) (hn : ((n.properties.getD []).map (·.1)).Nodup) :
    Inv.permNode (Iso.preNorm n) (normT n) := by
  unfold normT
  split
  · exact Inv.permNode.refl _
  · rename_i hd
    have ho : (n.propertyOrder.getD []).Nodup := by
      cases h : hasDup (n.propertyOrder.getD []) with
      | true => exact absurd h hd
      | false =>
        refine Classical.not_not.1 fun hnn => ?_
        have := hasDup_iff.2 hnn
        rw [h] at this
        cases this
    refine ⟨normProps n.properties (n.propertyOrder.getD []), normMap n.patternProperties, normMap n.defs,
      normMap n.definitions, normMap n.dependencySchemas, normDepStrs n.dependencyStrings, normKV n.dependentRequired,
      normMap n.dependentSchemas, ?_, Iso.optPerm_emptyKV_normMap _, Iso.optPerm_emptyKV_normMap _,
      Iso.optPerm_emptyKV_normMap _, Iso.optPerm_emptyKV_normMap _, Iso.optPerm_depNil _, Iso.optPerm_emptyKV_normKV _,
      Iso.optPerm_emptyKV_normMap _, rfl⟩
    show Inv.optPerm n.properties (normProps n.properties (n.propertyOrder.getD []))
    cases hp : n.properties with
    | none => trivial
    | some l =>
      rw [hp] at hn
      exact (propEntries_perm hn ho).symm

/-- the keys of every schema-valued map of every schema object are distinct (they are Go maps) -/
theorem permStore_pre_normT (st : Store) (hst : RPerm.StoreKeysNodup st) :
    Inv.permStore (st.map Iso.preNorm) (st.map normT) := by
  refine ⟨by rw [Array.size_map, Array.size_map], fun i => ?_⟩
  rw [Iso.get?_map, Iso.get?_map]
  cases hn : st.get? i with
  | none => trivial
  | some n =>
    refine permNode_pre_normT n ?_
    cases hp : n.properties with
    | none => exact List.nodup_nil
    | some l => exact hst i n hn "properties" l (by rw [← hp]; simp [Node.childFields])

theorem emptyKV_eq_some {α : Type} {m : Option (List (String × α))} {kvs : List (String × α)}
    (h : Iso.emptyKV m = some kvs) : m = some kvs := by
  cases m with
  | none => cases h
  | some l =>
    cases l with
    | nil => cases h
    | cons e es => exact h

theorem storeKeysNodup_preNorm {st : Store} (hst : RPerm.StoreKeysNodup st) :
    RPerm.StoreKeysNodup (st.map Iso.preNorm) := by
  intro i m hm j kvs hmem
  rw [Iso.get?_map] at hm
  cases hn : st.get? i with
  | none => rw [hn] at hm; cases hm
  | some n =>
    rw [hn] at hm
    cases hm
    have h0 := hst i n hn
    simp only [Node.childFields, List.mem_cons, ChildField.keyed.injEq, List.not_mem_nil, or_false,
      reduceCtorEq, false_or] at hmem
    rcases hmem with ⟨rfl, e⟩ | ⟨rfl, e⟩ | ⟨rfl, e⟩ | ⟨rfl, e⟩ | ⟨rfl, e⟩ | ⟨rfl, e⟩
    · exact h0 "$defs" kvs (by rw [← emptyKV_eq_some e.symm]; simp [Node.childFields])
    · exact h0 "definitions" kvs (by rw [← emptyKV_eq_some e.symm]; simp [Node.childFields])
    · exact h0 "dependencies" kvs (by rw [← emptyKV_eq_some e.symm]; simp [Node.childFields])
    · exact h0 "dependentSchemas" kvs (by rw [← emptyKV_eq_some e.symm]; simp [Node.childFields])
    · exact h0 "patternProperties" kvs (by rw [← emptyKV_eq_some e.symm]; simp [Node.childFields])
    · exact h0 "properties" kvs (by
        have : n.properties = some kvs := e.symm
        rw [← this]; simp [Node.childFields])

/-! ### step (3): the tree read back -/

/-- no duplicate in PropertyOrder (one of MarshalJSON's own checks) -/
def orderOK (n : Node) : Bool := !hasDup (n.propertyOrder.getD [])

/-- MarshalJSON's own checks include it -/
theorem orderOK_of_nodeOK (n : Node) (h : nodeOK n = true) : orderOK n = true := by
  simp only [nodeOK, Bool.and_eq_true] at h
  have hm : basicChecksOk n = true := h.1.1.1.1.1.1.1.1.1.1.1.1.1
  rw [basicChecksOk_eq] at hm
  simp only [Bool.and_eq_true] at hm
  exact hm.1.2

/-- `b` (in `st'`) is the tree read back from the tree below `a` (in `st`), at some depth; no schema object below `a`
    has a duplicate in its PropertyOrder -/
def TreeEqS (st st' : Store) (a b : NodeId) : Prop := ∃ d, TreeEq st st' d a b ∧ treeAll orderOK st d a = true

theorem treeEqS_treeSim (st st' : Store) : TreeSim (TreeEqS st st') (st.map normT) st' := by
  rintro a b ⟨d, hte, hok⟩
  cases d with
  | zero => exact hte.elim
  | succ d =>
    obtain ⟨n, n', ha, hb, hrel⟩ := hte
    obtain ⟨n0, hn0, hp, hc⟩ := treeAll_succ hok
    rw [ha] at hn0
    cases hn0
    rw [Iso.get?_map, ha, hb]
    have hnt : normT n = normNode n := by
      unfold normT
      have : hasDup (n.propertyOrder.getD []) = false := by
        unfold orderOK at hp
        cases h : hasDup (n.propertyOrder.getD []) with
        | false => rfl
        | true => rw [h] at hp; cases hp
      rw [this]
      rfl
    show NodeRel (TreeEqS st st') (normT n) n'
    rw [hnt]
    have hrel' := Iso.nodeRel_and_left (P := fun x => treeAll orderOK st d x = true) hrel
      (fun f hf' x hx => hc x (normNode_ids_sub hf' hx))
    exact NodeRel.imp (fun x y hxy => ⟨d, hxy.2, hxy.1⟩) hrel'

/-! ### the three steps together -/

theorem storeWF_of_keysNodup {st : Store} (hk : RPerm.StoreKeysNodup st) : Refine.StoreWF st := by
  intro s n hn
  rw [Json.nodupKeys_iff]
  cases hp : n.properties with
  | none => exact List.nodup_nil
  | some l => exact hk s n hn "properties" l (by rw [← hp]; simp [Node.childFields])

/-- **Resolve commutes with the JSON round trip** (self-contained resolution).  `b` in `st'` is the tree read back from
    the tree below `a` in `st` (`Go.TreeEq`: `Go.normNode` at every node, rebuilt children); the maps of `st` have
    distinct keys; no PropertyOrder below `a` has a duplicate.  If `Resolve` of `a` returns normally and checkStructure
    accepts `b`, then `Resolve` of `b` returns normally with the same draft and Loader log, and every instance (without
    duplicate keys) gets Spec results from `a` and from `b` that agree up to the order in which evaluated property names
    are listed (`Inv.OutSim`: undefined together, invalid together, valid together with the same evaluated sets). -/
theorem treeEq_resolves (st st' : Store) (env : Env) (hnd : NoDocs env) (hk : RPerm.StoreKeysNodup st)
    (hs : st.size ≤ 1000000000) (hs' : st'.size ≤ 1000000000) {a b : NodeId} {d : Nat} (hte : TreeEq st st' d a b)
    (hok : treeAll orderOK st d a = true) (fuel : Nat) (base : String) {rs₀ : Resolved}
    (h₀ : resolve { env with st := st } fuel a base = .ok rs₀) {f₃ : Nat} {fresh₃ : List (NodeId × Info)}
    (hcs₃ : checkStructure st' f₃ [(b, "")] [] = .ok fresh₃) :
    ∃ rs₃, resolve { env with st := st' } fuel b base = .ok rs₃ ∧ rs₀.draft = rs₃.draft ∧ rs₀.log = rs₃.log ∧
      ∀ (reMatch : String → String → Bool) (vfuel : Nat) (j : Json), Json.WF j = true →
        Inv.OutSim (Spec.evalFuel (specOf st rs₀ reMatch) vfuel [] a j)
          (Spec.evalFuel (specOf st' rs₃ reMatch) vfuel [] b j) := by
  -- step (1)
  obtain ⟨rs₁, h₁, hres₀₁⟩ := resolve_rel (envRel_preNorm { env with st := st }) fuel (r₁ := a) (r₂ := a) rfl base rs₀ h₀
  -- step (2)
  have hP := RPerm.resolve_rel { env with st := st.map Iso.preNorm } (st.map normT) (permStore_pre_normT st hk)
    (storeKeysNodup_preNorm hk) fuel a base
  have h₁' : resolve { env with st := st.map Iso.preNorm } fuel a base = .ok rs₁ := h₁
  rw [h₁'] at hP
  cases h₂ : resolve { env with st := st.map normT } fuel a base with
  | fuel => exact absurd hP (by rw [show resolve _ fuel a base = Res.fuel from h₂]; exact fun h => h)
  | panic => exact absurd hP (by rw [show resolve _ fuel a base = Res.panic from h₂]; exact fun h => h)
  | err => exact absurd hP (by rw [show resolve _ fuel a base = Res.err from h₂]; exact fun h => h)
  | ok rs₂ =>
    have hP' : RPerm.ResolvedRel rs₁ rs₂ := by
      rw [show resolve _ fuel a base = Res.ok rs₂ from h₂] at hP
      exact hP
    obtain ⟨hroot₁₂, hdraft₁₂, hlog₁₂, hinfos₁₂⟩ := hP'
    -- step (3)
    obtain ⟨R, rs₃, h₃, _, hab, _, hnode, hres₂₃⟩ :=
      resolve_trees (S := TreeEqS st st') (env₁ := { env with st := st.map normT }) (env₂ := { env with st := st' })
        (treeEqS_treeSim st st') rfl rfl rfl hnd
        (get?_eq_none_iff.2 (by rw [Array.size_map]; exact hs)) (get?_eq_none_iff.2 hs')
        (r₁ := a) (r₂ := b) ⟨d, hte, hok⟩ fuel base h₂ hcs₃
    refine ⟨rs₃, h₃, ?_, ?_, ?_⟩
    · rw [hres₀₁.draft, ← hdraft₁₂, hres₂₃.draft]
    · rw [hres₀₁.log, ← hlog₁₂, hres₂₃.log]
    · intro reMatch vfuel j hj
      -- V0: nil vs empty
      have hn₀ : ∀ x y, x = y → OptRel (Iso.NodeSim Eq) (st.get? x) (Store.get? (st.map Iso.preNorm) y) := by
        intro x y hxy
        subst hxy
        rw [Iso.get?_map]
        cases st.get? x with
        | none => trivial
        | some n => exact Iso.preNorm_invisible n
      have V0 := Iso.evalFuel_sim (envSim_of_resolved hres₀₁ hn₀ reMatch) vfuel .nil (rfl : a = a) j
      -- V1: the order of the maps
      have V1 := Inv.evalFuel_sim (specOf (st.map Iso.preNorm) rs₁ reMatch) (st.map Iso.preNorm) (st.map normT)
        (permStore_pre_normT st hk) (Iso.storeWF_preNorm (storeWF_of_keysNodup hk)) vfuel [] a j j
        (Inv.permJson_refl j) hj
      -- V2: the renaming
      have hres₁₃ : ResolvedRel R rs₁ rs₃ := by
        refine ⟨?_, ?_, ?_, ?_⟩
        · rw [← hroot₁₂]; exact hres₂₃.root
        · rw [← hdraft₁₂]; exact hres₂₃.draft
        · rw [← hlog₁₂]; exact hres₂₃.log
        · intro x y hxy
          rw [← hinfos₁₂ x]
          exact hres₂₃.infos x y hxy
      have hn₂ : ∀ x y, R x y → OptRel (Iso.NodeSim R) (Store.get? (st.map normT) x) (st'.get? y) := by
        intro x y hxy
        have := hnode x y hxy
        cases e1 : Store.get? (st.map normT) x with
        | none =>
          cases e2 : st'.get? y with
          | none => trivial
          | some _ => rw [e1, e2] at this; exact this.elim
        | some n₁ =>
          cases e2 : st'.get? y with
          | none => rw [e1, e2] at this; exact this.elim
          | some n₂ => rw [e1, e2] at this; exact Iso.NodeSim.of_nodeRel this
      have V2 := Iso.evalFuel_sim (envSim_of_resolved hres₁₃ hn₂ reMatch) vfuel .nil hab j
      rw [V0, ← V2]
      exact V1

end RIso
end Go
end JSV
