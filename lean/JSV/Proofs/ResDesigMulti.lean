/-
  Helper lemmas for C03, continued: resolutions that load other documents.  Under the model's
  freshness assumption (no schema object shared between the root document and the loader documents),
  the invariants of ResDesig.lean hold for every document at every point where references are resolved.
-/
import JSV.Proofs.ResDesigRefs
namespace JSV
namespace Go
namespace RInv
open Uri Spec

/-! ### reachability -/

/-- `b` is a subschema of the document under `r` (`Doc.Has`, which does not depend on the draft) -/
def Reach (st : Store) (r b : NodeId) : Prop := ∃ l, isLineage st r l b = true

theorem reach_root (st : Store) (r : NodeId) : Reach st r r := ⟨[], by simp [isLineage]⟩

theorem reach_child (st : Store) (r p c : NodeId) (hp : Reach st r p) (hc : isChild st p c = true) :
    Reach st r c := by
  obtain ⟨l, hl⟩ := hp
  exact ⟨l ++ [c], isLineage_snoc _ _ _ _ _ hl hc⟩

theorem entries_sub_children (n : Node) (path : String) (c : NodeId) (q : String)
    (h : (c, q) ∈ childEntries n path) : c ∈ n.children := by
  unfold childEntries at h
  rw [List.mem_flatMap] at h
  obtain ⟨f, hf, h⟩ := h
  unfold Node.children
  rw [List.mem_flatMap]
  refine ⟨f, hf, ?_⟩
  cases f with
  | one j x =>
    cases x with
    | none => simp at h
    | some c' =>
      simp only [List.mem_singleton, Prod.mk.injEq] at h
      simp [h.1]
  | many j x =>
    simp only [List.mem_map] at h
    obtain ⟨⟨c', i⟩, hm, heq⟩ := h
    simp only [Prod.mk.injEq] at heq
    obtain ⟨hi, hc⟩ := List.mem_zipIdx' hm
    simp only
    rw [← heq.1, hc]
    exact List.getElem_mem _
  | keyed j x =>
    simp only [List.mem_map] at h
    obtain ⟨⟨k, c'⟩, hm, heq⟩ := h
    simp only [Prod.mk.injEq] at heq
    simp only [List.mem_map]
    exact ⟨(k, c'), (mem_sortByKey _ _).mpr hm, heq.1⟩

theorem checkStructure_reach (st : Store) (root : NodeId) : ∀ fuel work acc res,
    checkStructure st fuel work acc = .ok res →
    (∀ w ∈ work, Reach st root w.1) → (∀ e ∈ acc, Reach st root e.1) → ∀ e ∈ res, Reach st root e.1 := by
  intro fuel
  induction fuel with
  | zero => intro work acc res h; simp [checkStructure] at h
  | succ fuel ih =>
    intro work acc res h hwork hacc
    cases work with
    | nil => simp [checkStructure] at h; subst h; exact hacc
    | cons w work =>
      obtain ⟨id, path⟩ := w
      rw [checkStructure] at h
      split at h
      · simp at h
      · rename_i n hn
        split at h
        · simp at h
        · have hid : Reach st root id := hwork (id, path) (by simp)
          apply ih _ _ _ h
          · intro w hw
            rcases List.mem_append.mp hw with hw | hw
            · obtain ⟨c, q⟩ := w
              exact reach_child st root id c hid
                ((isChild_iff _ _ _).mpr ⟨n, hn, entries_sub_children n path c q hw⟩)
            · exact hwork w (List.mem_cons_of_mem _ hw)
          · intro e he
            rcases List.mem_append.mp he with he | he
            · exact hacc e he
            · simp only [List.mem_singleton] at he
              subst he; exact hid

theorem checkStructure_ids_reach (st : Store) (fuel : Nat) (root : NodeId) (fresh : List (NodeId × Info))
    (h : checkStructure st fuel [(root, "")] [] = .ok fresh) : ∀ id ∈ ids fresh, Reach st root id := by
  intro id hid
  obtain ⟨e, he, rfl⟩ := List.mem_map.mp hid
  exact checkStructure_reach st root fuel _ _ _ h
    (by intro w hw; simp only [List.mem_singleton] at hw; subst hw; exact reach_root st root)
    (fun _ he => absurd he (by simp)) e he

/-! ### resolveURIs touches only the document it runs on -/

theorem uriStep_shapes (draft : Draft) (root : NodeId) (s : RState) (id base : NodeId) (n : Node) (bi : Info)
    (s1 : RState) (base1 : NodeId) (h : uriStep draft root s id base n bi = .ok (s1, base1)) :
    (base1 = base ∧ (s1 = s ∨ ∃ a, s1 = setAnchor s base id a false)) ∨
    (base1 = id ∧ ∃ u, s1 = newUriState root s id u) := by
  cases draft with
  | d2020 =>
    rcases uriStep_d2020 _ _ _ _ _ _ _ _ h with ⟨_, h1, h2⟩ | ⟨_, h2, idURI, bu, _, _, h1⟩
    · exact Or.inl ⟨h2, Or.inl h1⟩
    · exact Or.inr ⟨h2, _, h1⟩
  | d7 =>
    rcases uriStep_d7 _ _ _ _ _ _ _ _ h with ⟨_, h1, h2⟩ | ⟨_, _, _, h1, h2⟩ | ⟨_, _, _, h2, idURI, bu, _, _, h1⟩
    · exact Or.inl ⟨h2, Or.inl h1⟩
    · exact Or.inl ⟨h2, Or.inr ⟨_, h1⟩⟩
    · exact Or.inr ⟨h2, _, h1⟩

theorem updInfo_lookup_ne (s : RState) (k : NodeId) (f : Info → Info) (x : NodeId) (h : x ≠ k) :
    lookupNat x (s.updInfo k f).infos = lookupNat x s.infos := by
  rw [updInfo_infos_lookup, if_neg (fun e => h e.symm)]

theorem setAnchor_lookup_ne (s : RState) (b t : NodeId) (a : String) (dyn : Bool) (x : NodeId) (h : x ≠ b) :
    lookupNat x (setAnchor s b t a dyn).infos = lookupNat x s.infos := by
  rw [setAnchor_eq]; split
  · rfl
  · exact updInfo_lookup_ne _ _ _ _ h

theorem newUriState_lookup_ne (root : NodeId) (s : RState) (id : NodeId) (u : Url) (x : NodeId) (h : x ≠ id) :
    lookupNat x (newUriState root s id u).infos = lookupNat x s.infos := by
  rw [newUriState_infos]; exact updInfo_lookup_ne _ _ _ _ h

theorem newUriState_doc_ne (root : NodeId) (s : RState) (id : NodeId) (u : Url) (r : NodeId) (h : r ≠ root) :
    (newUriState root s id u).doc? r = s.doc? r := by
  unfold newUriState
  simp only
  split
  · rename_i d hd
    have hroot : d.root = root := doc?_root _ _ _ hd
    rw [doc?_setDoc]
    simp only [hroot]
    rw [if_neg (fun e => h e.symm)]
    exact doc?_of_docs_eq (updInfo_docs _ _ _) r
  · exact doc?_of_docs_eq (updInfo_docs _ _ _) r

theorem postStep_lookup_ne (draft : Draft) (s : RState) (id base : NodeId) (n : Node) (x : NodeId)
    (h1 : x ≠ id) (h2 : x ≠ base) :
    lookupNat x (postStep draft s id base n).infos = lookupNat x s.infos := by
  unfold postStep
  simp only
  split
  · rw [setAnchor_lookup_ne _ _ _ _ _ _ h2, setAnchor_lookup_ne _ _ _ _ _ _ h2, updInfo_lookup_ne _ _ _ _ h1]
  · exact updInfo_lookup_ne _ _ _ _ h1

theorem resolveURIsLoop_frame (env : Env) (D : Doc) (hst : D.st = env.st) :
    ∀ fuel work s s', resolveURIsLoop env D.draft D.root fuel work s = .ok s' →
      (∀ w ∈ work, D.Has w.1 ∧ D.Has w.2) →
      (∀ k, ¬ D.Has k → lookupNat k s'.infos = lookupNat k s.infos) ∧
      (∀ r, r ≠ D.root → s'.doc? r = s.doc? r) := by
  intro fuel
  induction fuel with
  | zero => intro work s s' h; simp [resolveURIsLoop] at h
  | succ fuel ih =>
    intro work s s' h hwork
    cases work with
    | nil => simp [resolveURIsLoop] at h; subst h; exact ⟨fun _ _ => rfl, fun _ _ => rfl⟩
    | cons w work =>
      obtain ⟨id, base⟩ := w
      obtain ⟨n, i0, bi, s1, base1, hn, _, _, hstep, hrest⟩ := resolveURIsLoop_unfold env _ _ _ _ _ _ _ _ h
      rw [← hst] at hn
      obtain ⟨hid, hbase⟩ := hwork (id, base) (by simp)
      have hshape := uriStep_shapes _ _ _ _ _ _ _ _ _ hstep
      have hb1 : D.Has base1 := by
        rcases hshape with ⟨e, _⟩ | ⟨e, _⟩ <;> rw [e]
        · exact hbase
        · exact hid
      obtain ⟨f1, f2⟩ := ih _ _ _ hrest (by
        intro w hw
        rcases List.mem_append.mp hw with hw | hw
        · obtain ⟨c, hc, rfl⟩ := List.mem_map.mp hw
          exact ⟨has_child D id c hid ((isChild_iff _ _ _).mpr ⟨n, hn, hc⟩), hb1⟩
        · exact hwork w (List.mem_cons_of_mem _ hw))
      constructor
      · intro k hk
        have k1 : k ≠ id := fun e => hk (e ▸ hid)
        have k2 : k ≠ base := fun e => hk (e ▸ hbase)
        have k3 : k ≠ base1 := fun e => hk (e ▸ hb1)
        rw [f1 k hk, postStep_lookup_ne _ _ _ _ _ _ k1 k3]
        rcases hshape with ⟨_, rfl | ⟨a, rfl⟩⟩ | ⟨_, u, rfl⟩
        · rfl
        · exact setAnchor_lookup_ne _ _ _ _ _ _ k2
        · exact newUriState_lookup_ne _ _ _ _ _ k1
      · intro r hr
        rw [f2 r hr, doc?_of_docs_eq (postStep_docs _ _ _ _ _) r]
        rcases hshape with ⟨_, rfl | ⟨a, rfl⟩⟩ | ⟨_, u, rfl⟩
        · rfl
        · exact doc?_of_docs_eq (setAnchor_docs _ _ _ _ _) r
        · exact newUriState_doc_ne _ _ _ _ _ hr

/-! ### the invariant of one document and of all documents -/

/-- what resolveURIs established for the document `D` (`ret` = its retrieval URI) -/
structure DocInv (D : Doc) (ret : Url) (s : RState) : Prop where
  uniq : UniqueLineage D
  done : ∀ p, D.Has p → Done D s.infos p ∧ ∃ r, HasBase s.infos p r ∧ UriDone D ret s.infos r
  sound : Sound D s.infos
  uris : UrisId D ret s

theorem StaticInv.docInv {D : Doc} {ret : Url} {s : RState} (h : StaticInv D ret s) : DocInv D ret s :=
  ⟨h.uniq, h.done, h.sound, h.uris⟩

theorem docInv_frozen (D : Doc) (ret : Url) {s s' : RState} (h : Frozen s s') (hs : DocInv D ret s) :
    DocInv D ret s' :=
  ⟨hs.uniq,
    fun p hp =>
      let ⟨h1, r, h2, h3⟩ := hs.done p hp
      ⟨done_frozen D h p h1, r, hasBase_frozen h p r h2, uriDone_frozen D ret h r h3⟩,
    sound_frozen D h hs.sound, urisId_frozen D ret h hs.uris⟩

def Registered (s : RState) (r : NodeId) : Prop := (s.doc? r).isSome = true

/-- nothing that existed is changed: info objects and documents are only added -/
structure Extends (s s' : RState) : Prop where
  infos : ∀ id, (lookupNat id s.infos).isSome = true → lookupNat id s'.infos = lookupNat id s.infos
  docs : ∀ r, Registered s r → s'.doc? r = s.doc? r

theorem Extends.refl (s : RState) : Extends s s := ⟨fun _ _ => rfl, fun _ _ => rfl⟩

theorem Extends.trans {a b c : RState} (h1 : Extends a b) (h2 : Extends b c) : Extends a c := by
  constructor
  · intro id hid
    have e1 := h1.infos id hid
    rw [h2.infos id (by rw [e1]; exact hid), e1]
  · intro r hr
    have e1 := h1.docs r hr
    have : Registered b r := by unfold Registered; rw [e1]; exact hr
    rw [h2.docs r this, e1]

theorem done_lookup_isSome {D : Doc} {infos : List (NodeId × Info)} {p : NodeId} (h : Done D infos p) :
    (lookupNat p infos).isSome = true := by
  obtain ⟨i, _, hi, _⟩ := h
  rw [hi]; rfl

theorem docInv_extends (D : Doc) (ret : Url) {s s' : RState} (h : Extends s s') (hreg : Registered s D.root)
    (hs : DocInv D ret s) : DocInv D ret s' := by
  have hlook : ∀ p, D.Has p → lookupNat p s'.infos = lookupNat p s.infos :=
    fun p hp => h.infos p (done_lookup_isSome (hs.done p hp).1)
  refine ⟨hs.uniq, ?_, ?_, ?_⟩
  · intro p hp
    obtain ⟨⟨i, r, hi, hb, hr, hreg'⟩, r', ⟨i', hi', hb'⟩, ir, lr, hir, hlr, hur⟩ := hs.done p hp
    have hrH : D.Has r := by
      -- the base is a schema of the document: it carries the resource-root lineage
      obtain ⟨l, hl, hn⟩ := hr
      obtain ⟨l', hl', _⟩ := baseUriAlong_nearest D ret l p hl
      rw [hn] at hl'
      exact ⟨l', hl'⟩
    refine ⟨⟨i, r, by rw [hlook p hp]; exact hi, hb, hr, ?_⟩, r', ⟨i', by rw [hlook p hp]; exact hi', hb'⟩,
      ir, lr, ?_, hlr, hur⟩
    · intro n hn e he
      obtain ⟨ri, hri, hl⟩ := hreg' n hn e he
      exact ⟨ri, by rw [hlook r hrH]; exact hri, hl⟩
    · rw [hlook r' ⟨lr, hlr⟩]; exact hir
  · intro b i hi hb e he
    rw [hlook b hb] at hi
    exact hs.sound b i hi hb e he
  · intro d hd e he
    rw [h.docs D.root hreg] at hd
    exact hs.uris d hd e he

/-- the model's assumption on the Loader: its documents share no schema object with the root document
    or with each other -/
def LoaderFresh (env : Env) (top : NodeId) : Prop :=
  ∀ tbl, env.loader = some tbl →
    (∀ k r, Json.lookup k tbl = some (.doc r) → ∀ b, Reach env.st r b → ¬ Reach env.st top b) ∧
    (∀ k1 k2 r1 r2, k1 ≠ k2 → Json.lookup k1 tbl = some (.doc r1) → Json.lookup k2 tbl = some (.doc r2) →
      ∀ b, Reach env.st r1 b → ¬ Reach env.st r2 b)

/-- `r` is the root document or a Loader document -/
def IsDocRoot (env : Env) (top : NodeId) (key : String) (r : NodeId) : Prop :=
  r = top ∨ ∃ tbl, env.loader = some tbl ∧ Json.lookup key tbl = some (.doc r)

/-- the invariant at every point where references are resolved; `rets r` = retrieval URI of document `r` -/
structure GInv (env : Env) (top : NodeId) (rets : NodeId → Url) (s : RState) : Prop where
  docs : ∀ r d, s.doc? r = some d → DocInv ⟨env.st, d.draft, r⟩ (rets r) s
  reg : ∀ r, Registered s r → r = top ∨ ∃ tbl k, env.loader = some tbl ∧
    Json.lookup k tbl = some (.doc r) ∧ (Json.lookup k s.loaded).isSome = true ∧ k = Uri.toString (rets r)
  dom : ∀ id, (lookupNat id s.infos).isSome = true → ∃ r, Registered s r ∧ Reach env.st r id
  loaded : ∀ e ∈ s.loaded, ∃ d, s.doc? e.2 = some d ∧ (⟨env.st, d.draft, e.2⟩ : Doc).Identifies (rets e.2) e.1 e.2

theorem Frozen.registered {s s' : RState} (h : Frozen s s') (r : NodeId) : Registered s' r ↔ Registered s r := by
  unfold Registered
  have := h.2.1 r
  cases h1 : s'.doc? r <;> cases h2 : s.doc? r <;> simp_all

theorem gInv_frozen (env : Env) (top : NodeId) (rets : NodeId → Url) {s s' : RState} (h : Frozen s s')
    (hg : GInv env top rets s) : GInv env top rets s' := by
  refine ⟨?_, ?_, ?_, ?_⟩
  · intro r d' hd'
    obtain ⟨d, hd, _, hdr⟩ := h.doc_rev r d' hd'
    rw [hdr]
    exact docInv_frozen _ _ h (hg.docs r d hd)
  · intro r hr
    rcases hg.reg r ((h.registered r).mp hr) with h1 | ⟨tbl, k, h1, h2, h3, h4⟩
    · exact Or.inl h1
    · exact Or.inr ⟨tbl, k, h1, h2, by rw [h.2.2]; exact h3, h4⟩
  · intro id hid
    have := h.1 id
    have hid' : (lookupNat id s.infos).isSome = true := by
      cases h1 : lookupNat id s'.infos <;> cases h2 : lookupNat id s.infos <;> simp_all
    obtain ⟨r, hr, hreach⟩ := hg.dom id hid'
    exact ⟨r, (h.registered r).mpr hr, hreach⟩
  · intro e he
    rw [h.2.2] at he
    obtain ⟨d, hd, hI⟩ := hg.loaded e he
    obtain ⟨d', hd', _, hdr⟩ := h.doc e.2 d hd
    exact ⟨d', hd', by rw [hdr]; exact hI⟩

/-- info objects keep base / uri / anchors, documents keep uris / draft; both may be added -/
structure Grow (s s' : RState) : Prop where
  infos : ∀ id, (lookupNat id s.infos).isSome = true →
    (lookupNat id s'.infos).map fixedOf = (lookupNat id s.infos).map fixedOf
  docs : ∀ r, Registered s r →
    (s'.doc? r).map (fun d => (d.uris, d.draft)) = (s.doc? r).map (fun d => (d.uris, d.draft))

theorem Grow.refl (s : RState) : Grow s s := ⟨fun _ _ => rfl, fun _ _ => rfl⟩

theorem Grow.registered {s s' : RState} (h : Grow s s') (r : NodeId) (hr : Registered s r) : Registered s' r := by
  have := h.docs r hr
  unfold Registered at hr ⊢
  cases h1 : s'.doc? r <;> cases h2 : s.doc? r <;> simp_all

theorem Grow.isSome {s s' : RState} (h : Grow s s') (id : NodeId) (hid : (lookupNat id s.infos).isSome = true) :
    (lookupNat id s'.infos).isSome = true := by
  have := h.infos id hid
  cases h1 : lookupNat id s'.infos <;> cases h2 : lookupNat id s.infos <;> simp_all

theorem Grow.trans {a b c : RState} (h1 : Grow a b) (h2 : Grow b c) : Grow a c :=
  ⟨fun id hid => (h2.infos id (h1.isSome id hid)).trans (h1.infos id hid),
   fun r hr => (h2.docs r (h1.registered r hr)).trans (h1.docs r hr)⟩

theorem Frozen.grow {s s' : RState} (h : Frozen s s') : Grow s s' := ⟨fun id _ => h.1 id, fun r _ => h.2.1 r⟩
theorem Extends.grow {s s' : RState} (h : Extends s s') : Grow s s' :=
  ⟨fun id hid => by rw [h.infos id hid], fun r hr => by rw [h.docs r hr]⟩

theorem Grow.doc {s s' : RState} (h : Grow s s') (r : NodeId) (d : DocRes) (hd : s.doc? r = some d) :
    ∃ d', s'.doc? r = some d' ∧ d'.uris = d.uris ∧ d'.draft = d.draft := by
  have := h.docs r (by unfold Registered; rw [hd]; rfl)
  rw [hd] at this
  cases h' : s'.doc? r with
  | none => rw [h'] at this; simp at this
  | some d' =>
    rw [h'] at this
    simp only [Option.map_some, Option.some.injEq, Prod.mk.injEq] at this
    exact ⟨d', rfl, this.1, this.2⟩

/-! ### designation across documents -/

/-- `$ref: ref` in schema `id` of document `D` designates `t`: as `Doc.Designates`, except that the
    fragment-less URI may also identify the root of another resolved document (`rets r` = its
    retrieval URI), inside which the fragment then selects -/
def GDesig (env : Env) (rets : NodeId → Url) (s : RState) (D : Doc) (id : NodeId) (ref : String)
    (t : NodeId) : Prop :=
  ∃ bu refURI, D.BaseUri (rets D.root) id bu ∧ Uri.parse ref = .ok refURI ∧
    ((∃ r, D.Identifies (rets D.root) (Uri.toString (Uri.dropFragment (Uri.resolveReference bu refURI))) r ∧
        D.FragTarget r (Uri.resolveReference bu refURI).fragment t) ∨
     (∃ r d', s.doc? r = some d' ∧
        (⟨env.st, d'.draft, r⟩ : Doc).Identifies (rets r)
          (Uri.toString (Uri.dropFragment (Uri.resolveReference bu refURI))) r ∧
        (⟨env.st, d'.draft, r⟩ : Doc).FragTarget r (Uri.resolveReference bu refURI).fragment t))

/-- the retrieval URIs of the documents registered so far are kept -/
def Agree (s : RState) (rets rets' : NodeId → Url) : Prop := ∀ r, Registered s r → rets' r = rets r

theorem gDesig_grow (env : Env) {rets rets' : NodeId → Url} {s s' : RState} (hgrow : Grow s s')
    (hag : Agree s rets rets') (D : Doc) (hD : Registered s D.root) (id : NodeId) (ref : String) (t : NodeId)
    (h : GDesig env rets s D id ref t) : GDesig env rets' s' D id ref t := by
  obtain ⟨bu, refURI, hb, hp, h⟩ := h
  refine ⟨bu, refURI, by rw [hag D.root hD]; exact hb, hp, ?_⟩
  rcases h with ⟨r, h1, h2⟩ | ⟨r, d', hd', h1, h2⟩
  · exact Or.inl ⟨r, by rw [hag D.root hD]; exact h1, h2⟩
  · obtain ⟨d'', hd'', _, hdr⟩ := hgrow.doc r d' hd'
    refine Or.inr ⟨r, d'', hd'', ?_, ?_⟩
    · rw [hdr, hag r (by unfold Registered; rw [hd']; rfl)]; exact h1
    · rw [hdr]; exact h2

/-- schema `id`, if it carries a `$ref`, has a recorded target, and it is the designated one; the same
    for the initial (lexical) target of a `$dynamicRef` -/
def RefOkG (env : Env) (rets : NodeId → Url) (s : RState) (D : Doc) (id : NodeId) : Prop :=
  ∀ n, D.st.get? id = some n →
    (n.ref ≠ "" →
      ∃ info t, lookupNat id s.infos = some info ∧ info.resolvedRef = some t ∧ GDesig env rets s D id n.ref t) ∧
    (D.draft = .d2020 → n.dynamicRef ≠ "" →      -- `$dynamicRef` is a keyword of 2020-12 documents only
      ∃ info t, lookupNat id s.infos = some info ∧ info.resolvedDynamicRef = some t ∧
        GDesig env rets s D id n.dynamicRef t)

/-- what the open-recursion callback must satisfy -/
def RecG (env : Env) (top : NodeId) (recDoc : ResolveDoc) : Prop :=
  ∀ lroot base dr s s' rets, recDoc lroot base dr s = .ok s' →
    GInv env top rets s → s.doc? lroot = none →
    (∀ r, Registered s r → ∀ b, Reach env.st r b → ¬ Reach env.st lroot b) →
    IsDocRoot env top (Uri.toString base) lroot →
    ∃ rets', Agree s rets rets' ∧ rets' lroot = base ∧ GInv env top rets' s' ∧ Extends s s' ∧
      ∃ d, s'.doc? lroot = some d ∧
        ∀ id ∈ allNodes env.st (env.st.size + 2) [lroot], RefOkG env rets' s' ⟨env.st, d.draft, lroot⟩ id

theorem mergeKnown_doc_ne (s : RState) (a b r : NodeId) (h : r ≠ a) : (mergeKnown s a b).doc? r = s.doc? r := by
  unfold mergeKnown
  split
  · rename_i d l hd hl
    rw [doc?_setDoc]
    simp only
    have : d.root = a := doc?_root _ _ _ hd
    rw [this, if_neg (fun e => h e.symm)]
  · rfl

theorem resolveRef_G (env : Env) (top : NodeId) (recDoc : ResolveDoc) (hrec : RecG env top recDoc)
    (hfresh : LoaderFresh env top) (rets : NodeId → Url) (s : RState) (root id : NodeId) (ref : String)
    (o : RefOut) (s' : RState) (hg : GInv env top rets s) (hid : Reach env.st root id)
    (h : resolveRef env recDoc root s id ref = .ok (o, s')) :
    ∃ rets' d, Agree s rets rets' ∧ GInv env top rets' s' ∧ Grow s s' ∧
      (∀ k, (lookupNat k s.infos).isSome = true → lookupNat k s'.infos = lookupNat k s.infos) ∧
      (∀ r, r ≠ root → Registered s r → s'.doc? r = s.doc? r) ∧
      s.doc? root = some d ∧ GDesig env rets' s' ⟨env.st, d.draft, root⟩ id ref o.target := by
  obtain ⟨refURI0, info, base, bInfo, bu, d, r, hp, hinfo, hbase, hbInfo, hbu, hd, hloc, hfrag⟩ :=
    resolveRef_unfold env recDoc root s id ref o s' h
  have hD := hg.docs root d hd
  have hregRoot : Registered s root := by unfold Registered; rw [hd]; rfl
  have hBU : (⟨env.st, d.draft, root⟩ : Doc).BaseUri (rets root) id bu :=
    (done_baseUri ⟨env.st, d.draft, root⟩ (rets root) s.infos hD.uniq id (hD.done id hid) info bInfo base bu
      (info?_lookup _ _ _ _ hinfo) hbase (info?_lookup _ _ _ _ hbInfo) hbu).2
  unfold Located at hloc
  simp only at hloc
  rcases hloc with ⟨hl, rfl⟩ | ⟨hl1, hl2, rfl⟩ | ⟨hl1, hl2, tbl, s2, htbl, hltbl, hdoc, rfl⟩
  · -- found in the document's own `uris`
    have hI := hD.uris d hd _ (lookup_mem _ _ _ hl)
    refine ⟨rets, d, fun _ _ => rfl, hg, Grow.refl _, fun _ _ => rfl, fun _ _ _ => rfl, hd,
      bu, refURI0, hBU, hp, Or.inl ⟨r, hI, ?_⟩⟩
    exact tableFrag_desig env ⟨env.st, d.draft, root⟩ rfl _ _ _ _ _ hD.sound (identifies_has _ _ _ _ hI) hfrag
  · -- found in the cache
    have hfr := frozen_mergeKnown s root r
    have hg' := gInv_frozen env top rets hfr hg
    obtain ⟨dr, hdr, hI⟩ := hg.loaded _ (lookup_mem _ _ _ hl2)
    obtain ⟨dr', hdr', _, hdraft⟩ := hfr.doc r dr hdr
    refine ⟨rets, d, fun _ _ => rfl, hg', hfr.grow, fun _ _ => by rw [mergeKnown_infos],
      fun x hx _ => mergeKnown_doc_ne s root r x hx, hd, bu, refURI0, hBU, hp, Or.inr ⟨r, dr', hdr', ?_, ?_⟩⟩
    · rw [hdraft]; exact hI
    · exact tableFrag_desig env ⟨env.st, dr'.draft, r⟩ rfl _ _ _ _ _ (hg'.docs r dr' hdr').sound
        (reach_root env.st r) hfrag
  · -- loaded now
    have hfr0 : Frozen s { s with log := s.log ++ [Uri.toString (Uri.dropFragment (Uri.resolveReference bu refURI0))] } :=
      ⟨fun _ => rfl, fun _ => rfl, rfl⟩
    have hg0 := gInv_frozen env top rets hfr0 hg
    have hdisj : ∀ x, Registered s x → ∀ b, Reach env.st x b → ¬ Reach env.st r b := by
      intro x hx b hb hb'
      rcases hg.reg x hx with rfl | ⟨tbl', k', ht', hk', hl', _⟩
      · exact (hfresh tbl htbl).1 _ r hltbl b hb' hb
      · rw [htbl] at ht'
        simp only [Option.some.injEq] at ht'
        subst ht'
        have hne : k' ≠ Uri.toString (Uri.dropFragment (Uri.resolveReference bu refURI0)) := by
          intro e; rw [e, hl2] at hl'; simp at hl'
        exact (hfresh tbl htbl).2 k' _ x r hne hk' hltbl b hb hb'
    have hnone : s.doc? r = none := by
      cases hc : s.doc? r with
      | none => rfl
      | some dd =>
        exact absurd (reach_root env.st r) (hdisj r (by unfold Registered; rw [hc]; rfl) r (reach_root env.st r))
    obtain ⟨rets', hag, hret, hg2, hext, d2, hd2, _⟩ :=
      hrec r _ d.draft _ s2 rets hdoc hg0 hnone hdisj (Or.inr ⟨tbl, htbl, hltbl⟩)
    have hfr := frozen_mergeKnown s2 root r
    have hg' := gInv_frozen env top rets' hfr hg2
    obtain ⟨d2', hd2', _, hdraft⟩ := hfr.doc r d2 hd2
    refine ⟨rets', d, hag, hg', hfr0.grow.trans (hext.grow.trans hfr.grow), ?_, ?_, hd, bu, refURI0,
      by rw [hag root hregRoot]; exact hBU, hp, Or.inr ⟨r, d2', hd2', ?_, ?_⟩⟩
    · intro k hk
      rw [mergeKnown_infos]; exact hext.infos k hk
    · intro x hx hxr
      rw [mergeKnown_doc_ne _ _ _ _ hx]; exact hext.docs x hxr
    · exact Or.inl ⟨rfl, by rw [hret]⟩
    · exact tableFrag_desig env ⟨env.st, d2'.draft, r⟩ rfl _ _ _ _ _ (hg'.docs r d2' hd2').sound
        (reach_root env.st r) hfrag

theorem agree_trans {a b : RState} {r0 r1 r2 : NodeId → Url} (h1 : Agree a r0 r1) (h2 : Agree b r1 r2)
    (hreg : ∀ r, Registered a r → Registered b r) : Agree a r0 r2 :=
  fun r hr => (h2 r (hreg r hr)).trans (h1 r hr)

/-- resolveRef followed by recording something in the info of `id` -/
theorem refStep_G (env : Env) (top : NodeId) (recDoc : ResolveDoc) (hrec : RecG env top recDoc)
    (hfresh : LoaderFresh env top) (rets : NodeId → Url) (s : RState) (root id : NodeId) (ref : String)
    (o : RefOut) (sa : RState) (hg : GInv env top rets s) (hid : Reach env.st root id)
    (h : resolveRef env recDoc root s id ref = .ok (o, sa)) (f : Info → Info) (hf : ∀ i, fixedOf (f i) = fixedOf i) :
    ∃ rets' d, Agree s rets rets' ∧ GInv env top rets' (sa.updInfo id f) ∧ Grow s (sa.updInfo id f) ∧
      (∀ k, k ≠ id → (lookupNat k s.infos).isSome = true →
        lookupNat k (sa.updInfo id f).infos = lookupNat k s.infos) ∧
      (∀ r, r ≠ root → Registered s r → (sa.updInfo id f).doc? r = s.doc? r) ∧
      s.doc? root = some d ∧
      lookupNat id (sa.updInfo id f).infos = (lookupNat id s.infos).map f ∧
      GDesig env rets' (sa.updInfo id f) ⟨env.st, d.draft, root⟩ id ref o.target := by
  obtain ⟨rets', d, hag, hg', hgrow, hkeep, hdocs, hd, hdes⟩ :=
    resolveRef_G env top recDoc hrec hfresh rets s root id ref o sa hg hid h
  have hfr := frozen_updInfo sa id f hf
  have hidS : (lookupNat id s.infos).isSome = true :=
    done_lookup_isSome ((hg.docs root d hd).done id hid).1
  refine ⟨rets', d, hag, gInv_frozen env top rets' hfr hg', hgrow.trans hfr.grow, ?_, ?_, hd, ?_, ?_⟩
  · intro k hk hks
    rw [updInfo_lookup_ne _ _ _ _ hk]; exact hkeep k hks
  · intro r hr hreg
    rw [doc?_of_docs_eq (updInfo_docs _ _ _) r]; exact hdocs r hr hreg
  · rw [updInfo_infos_lookup, if_pos rfl, hkeep id hidS]
  · exact gDesig_grow env hfr.grow (fun _ _ => rfl) ⟨env.st, d.draft, root⟩
      (hgrow.registered root (by unfold Registered; rw [hd]; rfl)) id ref o.target hdes

theorem resolveRefsLoop_G (env : Env) (top : NodeId) (recDoc : ResolveDoc) (hrec : RecG env top recDoc)
    (hfresh : LoaderFresh env top) (root : NodeId) :
    ∀ ids s s' rets d, resolveRefsLoop env recDoc root ids s = .ok s' → GInv env top rets s →
      s.doc? root = some d → (∀ id ∈ ids, Reach env.st root id) →
      ∃ rets', Agree s rets rets' ∧ GInv env top rets' s' ∧ Grow s s' ∧
        (∀ k, k ∉ ids → (lookupNat k s.infos).isSome = true → lookupNat k s'.infos = lookupNat k s.infos) ∧
        (∀ r, r ≠ root → Registered s r → s'.doc? r = s.doc? r) ∧
        ∀ id ∈ ids, RefOkG env rets' s' ⟨env.st, d.draft, root⟩ id := by
  intro ids
  induction ids with
  | nil =>
    intro s s' rets d h hg _ _
    simp [resolveRefsLoop] at h; subst h
    exact ⟨rets, fun _ _ => rfl, hg, Grow.refl _, fun _ _ _ => rfl, fun _ _ _ => rfl, fun _ h => absurd h (by simp)⟩
  | cons id rest ih =>
    intro s s' rets d h hg hd hids
    rw [resolveRefsLoop] at h
    split at h
    · simp at h
    · rename_i n hn
      simp only at h
      rw [bind_eq_ok] at h
      obtain ⟨s1, h1, h⟩ := h
      rw [bind_eq_ok] at h
      obtain ⟨s2, h2, h⟩ := h
      have hid : Reach env.st root id := hids id (by simp)
      -- `$ref`
      have g1 : ∃ rets1, Agree s rets rets1 ∧ GInv env top rets1 s1 ∧ Grow s s1 ∧
          (∀ k, k ≠ id → (lookupNat k s.infos).isSome = true → lookupNat k s1.infos = lookupNat k s.infos) ∧
          (∀ r, r ≠ root → Registered s r → s1.doc? r = s.doc? r) ∧
          (n.ref ≠ "" → ∃ info t, lookupNat id s1.infos = some info ∧ info.resolvedRef = some t ∧
            GDesig env rets1 s1 ⟨env.st, d.draft, root⟩ id n.ref t) := by
        split at h1
        · rw [bind_eq_ok] at h1
          obtain ⟨⟨o, sa⟩, hr, h1⟩ := h1
          simp only [Res.ok.injEq] at h1
          subst h1
          obtain ⟨rets1, d1, a1, a2, a3, a4, a5, a6, a7, a8⟩ :=
            refStep_G env top recDoc hrec hfresh rets s root id n.ref o sa hg hid hr
              (fun i => { i with resolvedRef := some o.target }) (fun _ => rfl)
          rw [hd] at a6
          simp only [Option.some.injEq] at a6
          subst a6
          refine ⟨rets1, a1, a2, a3, a4, a5, fun _ => ?_⟩
          have hidS : (lookupNat id s.infos).isSome = true :=
            done_lookup_isSome ((hg.docs root d hd).done id hid).1
          cases h0 : lookupNat id s.infos with
          | none => rw [h0] at hidS; simp at hidS
          | some i0 =>
            rw [h0] at a7
            exact ⟨_, o.target, a7, rfl, a8⟩
        · rename_i hne
          simp only [Res.ok.injEq] at h1
          subst h1
          exact ⟨rets, fun _ _ => rfl, hg, Grow.refl _, fun _ _ _ => rfl, fun _ _ _ => rfl,
            fun h => absurd (by simpa using h) hne⟩
      obtain ⟨rets1, ag1, hg1, gr1, k1, dc1, r1⟩ := g1
      obtain ⟨d1, hd1, _, hdr1⟩ := gr1.doc root d hd
      -- `$dynamicRef`
      have g2 : ∃ rets2, Agree s1 rets1 rets2 ∧ GInv env top rets2 s2 ∧ Grow s1 s2 ∧
          (∀ k, k ≠ id → (lookupNat k s1.infos).isSome = true → lookupNat k s2.infos = lookupNat k s1.infos) ∧
          (∀ r, r ≠ root → Registered s1 r → s2.doc? r = s1.doc? r) ∧
          (∀ i t, lookupNat id s1.infos = some i → i.resolvedRef = some t →
            ∃ i', lookupNat id s2.infos = some i' ∧ i'.resolvedRef = some t) ∧
          (d.draft = .d2020 → n.dynamicRef ≠ "" →
            ∃ info t, lookupNat id s2.infos = some info ∧ info.resolvedDynamicRef = some t ∧
            GDesig env rets2 s2 ⟨env.st, d.draft, root⟩ id n.dynamicRef t) := by
        split at h2
        · rw [bind_eq_ok] at h2
          obtain ⟨⟨o, sb⟩, hr, h2⟩ := h2
          simp only [Res.ok.injEq] at h2
          subst h2
          obtain ⟨rets2, d2, a1, a2, a3, a4, a5, a6, a7, a8⟩ :=
            refStep_G env top recDoc hrec hfresh rets1 s1 root id n.dynamicRef o sb hg1 hid hr
              (fun i => { i with resolvedDynamicRef := some o.target, dynamicRefAnchor := o.dynFrag }) (fun _ => rfl)
          rw [hd1] at a6
          simp only [Option.some.injEq] at a6
          subst a6
          rw [hdr1] at a8
          have hidS : (lookupNat id s1.infos).isSome = true :=
            done_lookup_isSome ((hg1.docs root d1 hd1).done id hid).1
          refine ⟨rets2, a1, a2, a3, a4, a5, ?_, fun _ _ => ?_⟩
          · intro i t hi ht
            rw [hi] at a7
            exact ⟨_, a7, ht⟩
          · cases h0 : lookupNat id s1.infos with
            | none => rw [h0] at hidS; simp at hidS
            | some i0 =>
              rw [h0] at a7
              exact ⟨_, o.target, a7, rfl, a8⟩
        · rename_i hne
          simp only [Res.ok.injEq] at h2
          subst h2
          exact ⟨rets1, fun _ _ => rfl, hg1, Grow.refl _, fun _ _ _ => rfl, fun _ _ _ => rfl,
            fun i t hi ht => ⟨i, hi, ht⟩, fun h20 h => absurd (by
              have : s1.draftOf root = .d2020 := by unfold RState.draftOf; rw [hd1]; exact hdr1.trans h20
              simpa [this] using h) hne⟩
      obtain ⟨rets2, ag2, hg2, gr2, k2, dc2, r2, r2d⟩ := g2
      obtain ⟨d2, hd2, _, hdr2⟩ := gr2.doc root d1 hd1
      obtain ⟨rets3, ag3, hg3, gr3, k3, dc3, ok3⟩ :=
        ih s2 s' rets2 d2 h hg2 hd2 (fun x hx => hids x (List.mem_cons_of_mem _ hx))
      have hD2 : (⟨env.st, d2.draft, root⟩ : Doc) = ⟨env.st, d.draft, root⟩ := by rw [hdr2, hdr1]
      rw [hD2] at ok3
      refine ⟨rets3, agree_trans (agree_trans ag1 ag2 gr1.registered) ag3 (fun r hr => gr2.registered r (gr1.registered r hr)),
        hg3, gr1.trans (gr2.trans gr3), ?_, ?_, ?_⟩
      · intro k hk hks
        have hk1 : k ≠ id := fun e => hk (by rw [e]; simp)
        have hk2 : k ∉ rest := fun e => hk (List.mem_cons_of_mem _ e)
        have e1 := k1 k hk1 hks
        have e2 := k2 k hk1 (by rw [e1]; exact hks)
        rw [k3 k hk2 (by rw [e2, e1]; exact hks), e2, e1]
      · intro r hr hreg
        have e1 := dc1 r hr hreg
        have e2 := dc2 r hr (gr1.registered r hreg)
        rw [dc3 r hr (gr2.registered r (gr1.registered r hreg)), e2, e1]
      · intro x hx
        by_cases hxr : x ∈ rest
        · exact ok3 x hxr
        · have hxid : x = id := (List.mem_cons.mp hx).resolve_right hxr
          subst hxid
          intro n' hn'
          have hn'' : env.st.get? x = some n' := hn'
          rw [hn] at hn''
          simp only [Option.some.injEq] at hn''
          subst hn''
          constructor
          · intro hne
            obtain ⟨info, t, hi, ht, hdes⟩ := r1 hne
            obtain ⟨i2, hi2, ht2⟩ := r2 info t hi ht
            have e3 := k3 x hxr (by rw [hi2]; rfl)
            refine ⟨i2, t, by rw [e3]; exact hi2, ht2, ?_⟩
            exact gDesig_grow env (gr2.trans gr3) (agree_trans ag2 ag3 gr2.registered) ⟨env.st, d.draft, root⟩
              (gr1.registered root (by unfold Registered; rw [hd]; rfl)) x n.ref t hdes
          · intro h20 hne
            obtain ⟨i2, t, hi2, ht2, hdes⟩ := r2d h20 hne
            have e3 := k3 x hxr (by rw [hi2]; rfl)
            refine ⟨i2, t, by rw [e3]; exact hi2, ht2, ?_⟩
            exact gDesig_grow env gr3 ag3 ⟨env.st, d.draft, root⟩
              (gr2.registered root (gr1.registered root (by unfold Registered; rw [hd]; rfl))) x n.dynamicRef t hdes

/-! ### resolver.resolve on a fresh document -/

theorem docInv_of_eq (D : Doc) (ret : Url) {s s' : RState} (hi : s'.infos = s.infos) (hd : s'.docs = s.docs)
    (h : DocInv D ret s) : DocInv D ret s' :=
  ⟨h.uniq, by rw [hi]; exact h.done, by rw [hi]; exact h.sound, UrisId.of_docs_eq hd h.uris⟩

theorem resolveDocStep_G (env : Env) (top : NodeId) (recDoc : ResolveDoc) (hrec : RecG env top recDoc)
    (hfresh : LoaderFresh env top) : RecG env top (resolveDocStep env recDoc) := by
  intro lroot baseURI inherit s s' rets h hg hnone hdisj hkey
  unfold resolveDocStep at h
  split at h
  · simp at h
  split at h
  · simp at h
  rename_i rn hrn
  simp only at h
  rw [bind_eq_ok] at h
  obtain ⟨fresh, hcs, h⟩ := h
  split at h
  · simp at h
  rw [bind_eq_ok] at h
  obtain ⟨sB, hB, h⟩ := h
  generalize hdr : (if (rn.schema == "") = true then inherit else detectDraft env rn.schema) = draft at hB h
  let D : Doc := ⟨env.st, draft, lroot⟩
  have huniq : UniqueLineage D := tree_uniqueLineage D _ (checkStructure_tree env.st _ lroot fresh hcs)
  have hB' : resolveURIsLoop env D.draft D.root (env.st.size + 2) [(D.root, D.root)] _ = .ok sB := hB
  have hrootmem := checkStructure_root_mem env.st _ lroot fresh hcs
  -- the schemas of the new document have no info yet
  have hnoInfo : ∀ b, Reach env.st lroot b → lookupNat b s.infos = none := by
    intro b hb
    cases hc : lookupNat b s.infos with
    | none => rfl
    | some i =>
      obtain ⟨r, hr, hrb⟩ := hg.dom b (by rw [hc]; rfl)
      exact absurd hb (hdisj r hr b hrb)
  have hnotReach : ∀ id, (lookupNat id s.infos).isSome = true → ¬ Reach env.st lroot id := by
    intro id hid hr
    rw [hnoInfo id hr] at hid; simp at hid
  obtain ⟨hdone, hsnd, huris⟩ := resolveURIs_desig env D rfl baseURI huniq _ _ _ (by
    obtain ⟨⟨r', info⟩, hm, he⟩ := List.mem_map.mp hrootmem
    simp only at he
    subst he
    have hsome : (lookupNat r' (s.infos ++ fresh)).isSome = true :=
      lookupNat_isSome_of_mem r' info _ (List.mem_append_right _ hm)
    show ∃ i, lookupNat r' (RState.updInfo _ r' _).infos = some i ∧ i.uri = some baseURI
    rw [updInfo_infos_lookup, if_pos rfl, setDoc_infos]
    cases h0 : lookupNat r' (s.infos ++ fresh) with
    | none => rw [h0] at hsome; simp at hsome
    | some i0 => exact ⟨_, rfl, rfl⟩) hB'
  have hallHas : ∀ w ∈ [lroot], D.Has w := by
    intro w hw
    rw [List.mem_singleton.mp hw]
    exact reach_root env.st lroot
  obtain ⟨f1, f2⟩ := resolveURIsLoop_frame env D rfl _ _ _ _ hB' (by
    intro w hw
    rw [List.mem_singleton.mp hw]
    exact ⟨reach_root env.st lroot, reach_root env.st lroot⟩)
  have hnil : ∀ e ∈ fresh, e.2.anchors = [] :=
    checkStructure_forall env.st (fun i => i.anchors = []) (fun _ => rfl) _ _ _ _ hcs
      (fun _ he => absurd he (by simp))
  have hsB : Sound D sB.infos := by
    apply hsnd
    refine sound_updInfo D _ lroot _ ?_ ?_
    · intro _ _ he; exact Or.inl he
    · rw [setDoc_infos]
      refine sound_append_fresh D _ _ ?_ hnil
      intro b i hi hb
      rw [hnoInfo b hb] at hi; simp at hi
  have huB : UrisId D baseURI sB := by
    apply huris
    intro d hd e he
    rw [doc?_of_docs_eq (updInfo_docs _ _ _), doc?_setDoc, if_pos (rfl : lroot = D.root)] at hd
    simp only [Option.some.injEq] at hd
    subst hd
    simp only [List.mem_singleton] at he
    subst he
    exact Or.inl ⟨rfl, rfl⟩
  have hdB : ∃ dB, sB.doc? lroot = some dB ∧ dB.draft = draft := by
    have := resolveURIsLoop_draftKept _ _ _ _ _ _ _ hB lroot
      { root := lroot, draft := draft, uris := [(Uri.toString baseURI, lroot)], known := fresh.map (·.1) }
      (by rw [doc?_of_docs_eq (updInfo_docs _ _ _), doc?_setDoc]; simp)
    exact this
  obtain ⟨dB, hdB, hdrB⟩ := hdB
  have sameB : sB.log = s.log ∧ sB.loaded = s.loaded := by
    have h0 := (resolveURIsLoop_spec _ _ _ _ _ _ _ hB).1
    have := (SameLL.trans (setDoc_same _ _) (updInfo_same _ _ _)).trans h0
    exact this
  have hDB : DocInv D baseURI sB := ⟨huniq, hdone, hsB, huB⟩
  -- what existed before is untouched
  have hextB : Extends s sB := by
    constructor
    · intro id hid
      have hnr := hnotReach id hid
      have hne : id ≠ lroot := fun e => hnr (e ▸ reach_root env.st lroot)
      rw [f1 id hnr, updInfo_lookup_ne _ _ _ _ hne, setDoc_infos]
      exact lookupNat_append_of_isSome _ _ _ hid
    · intro r hr
      have hne : r ≠ lroot := by
        intro e; rw [e] at hr; unfold Registered at hr; rw [hnone] at hr; simp at hr
      rw [f2 r hne, doc?_of_docs_eq (updInfo_docs _ _ _), doc?_setDoc]
      simp only
      rw [if_neg (fun e => hne e.symm)]
      rfl
  have hdocB : ∀ r, r ≠ lroot → sB.doc? r = s.doc? r := by
    intro r hne
    rw [f2 r hne, doc?_of_docs_eq (updInfo_docs _ _ _), doc?_setDoc]
    simp only
    rw [if_neg (fun e => hne e.symm)]
    rfl
  have hrootId : D.Identifies baseURI (rootUriOf sB lroot) lroot := by
    obtain ⟨⟨i, r0, hi, hb0, hr0, _⟩, r, ⟨i', hi', hb'⟩, ir, lr, hir, hlr, hur⟩ := hdone lroot (reach_root env.st lroot)
    rw [hi] at hi'
    simp only [Option.some.injEq] at hi'
    subst hi'
    rw [hb0] at hb'
    simp only [Option.some.injEq] at hb'
    subst hb'
    have hr0' : r0 = lroot := by
      obtain ⟨l0, hl0, hn0⟩ := hr0
      have : l0 = [] := huniq l0 [] lroot hl0 (by show isLineage env.st lroot [] lroot = true; simp [isLineage])
      subst this
      exact hn0.symm
    subst hr0'
    refine Or.inr ⟨resourceRoot_root D, baseUriAlong D baseURI lr, ⟨lr, hlr, rfl⟩, ?_⟩
    unfold rootUriOf
    rw [hir]
    simp only [hur, Option.map_some, Option.getD_some]
  let rets' : NodeId → Url := fun x => if x = lroot then baseURI else rets x
  have hrets_ne : ∀ r, r ≠ lroot → rets' r = rets r := fun r hne => by simp only [rets', if_neg hne]
  have hrets_eq : rets' lroot = baseURI := by simp only [rets', if_true]
  have hregNe : ∀ r, Registered s r → r ≠ lroot := by
    intro r hr e; rw [e] at hr; unfold Registered at hr; rw [hnone] at hr; simp at hr
  have hupd := loaded_update sB.loaded (Uri.toString baseURI) (rootUriOf sB lroot) lroot
  have hgC : GInv env top rets' { sB with loaded :=
      (sB.loaded.filter fun e => e.1 != Uri.toString baseURI && e.1 != rootUriOf sB lroot) ++
        [(Uri.toString baseURI, lroot), (rootUriOf sB lroot, lroot)] } := by
    refine ⟨?_, ?_, ?_, ?_⟩
    · intro r d hd
      have hd' : sB.doc? r = some d := hd
      by_cases hr : r = lroot
      · subst hr
        rw [hdB] at hd'
        simp only [Option.some.injEq] at hd'
        subst hd'
        rw [hrets_eq, hdrB]
        exact docInv_of_eq (s := sB) D baseURI rfl rfl hDB
      · rw [hdocB r hr] at hd'
        rw [hrets_ne r hr]
        exact docInv_of_eq (s := sB) _ _ rfl rfl
          (docInv_extends _ _ hextB (by unfold Registered; rw [hd']; rfl) (hg.docs r d hd'))
    · intro r hr
      have hr' : (sB.doc? r).isSome = true := hr
      by_cases hrl : r = lroot
      · subst hrl
        rcases hkey with h1 | ⟨tbl, h1, h2⟩
        · exact Or.inl h1
        · exact Or.inr ⟨tbl, _, h1, h2, hupd.1, by rw [hrets_eq]⟩
      · rw [hdocB r hrl] at hr'
        rcases hg.reg r hr' with h1 | ⟨tbl, k, h1, h2, h3, h4⟩
        · exact Or.inl h1
        · exact Or.inr ⟨tbl, k, h1, h2, hupd.2 k (by rw [sameB.2]; exact h3), by rw [hrets_ne r hrl]; exact h4⟩
    · intro id hid
      have hid' : (lookupNat id sB.infos).isSome = true := hid
      by_cases hs : (lookupNat id s.infos).isSome = true
      · obtain ⟨r, hr, hrb⟩ := hg.dom id hs
        refine ⟨r, ?_, hrb⟩
        show (sB.doc? r).isSome = true
        rw [hextB.docs r hr]; exact hr
      · refine ⟨lroot, by show (sB.doc? lroot).isSome = true; rw [hdB]; rfl, ?_⟩
        apply Classical.byContradiction
        intro hnr
        have hne : id ≠ lroot := fun e => hnr (e ▸ reach_root env.st lroot)
        have hnone' : lookupNat id s.infos = none := by
          cases hc : lookupNat id s.infos with
          | none => rfl
          | some v => rw [hc] at hs; simp at hs
        rw [f1 id hnr, updInfo_lookup_ne _ _ _ _ hne, setDoc_infos] at hid'
        have hl : lookupNat id (s.infos ++ fresh) = lookupNat id fresh := lookupNat_append_none _ _ _ hnone'
        rw [hl] at hid'
        cases hf : lookupNat id fresh with
        | none => rw [hf] at hid'; simp at hid'
        | some v =>
          exact hnr (checkStructure_ids_reach env.st _ lroot fresh hcs id
            (List.mem_map.mpr ⟨(id, v), lookupNat_mem _ _ _ hf, rfl⟩))
    · intro e he
      have he' : e ∈ (sB.loaded.filter _) ++ [(_, lroot), (_, lroot)] := he
      rcases List.mem_append.mp he' with h1 | h1
      · have hmem := (List.mem_filter.mp h1).1
        rw [sameB.2] at hmem
        obtain ⟨d, hd, hI⟩ := hg.loaded e hmem
        have hreg : Registered s e.2 := by unfold Registered; rw [hd]; rfl
        refine ⟨d, ?_, by rw [hrets_ne _ (hregNe _ hreg)]; exact hI⟩
        show sB.doc? e.2 = some d
        rw [hextB.docs _ hreg]; exact hd
      · simp only [List.mem_cons, List.mem_nil_iff, or_false] at h1
        rcases h1 with h1 | h1
        · subst h1
          refine ⟨dB, hdB, ?_⟩
          rw [hrets_eq]
          exact Or.inl ⟨rfl, rfl⟩
        · subst h1
          refine ⟨dB, hdB, ?_⟩
          rw [hrets_eq, hdrB]
          exact hrootId
  obtain ⟨rets'', ag, hg', gr, keep, dkeep, hok⟩ :=
    resolveRefsLoop_G env top recDoc hrec hfresh lroot _ _ s' rets' dB h hgC hdB
      (allNodes_has D _ _ hallHas)
  have hregC : ∀ r, Registered s r → (sB.doc? r).isSome = true := by
    intro r hr; rw [hextB.docs r hr]; exact hr
  obtain ⟨d', hd', _, hdr'⟩ := gr.doc lroot dB hdB
  refine ⟨rets'', ?_, ?_, hg', ?_, d', hd', ?_⟩
  · intro r hr
    rw [ag r (hregC r hr), hrets_ne r (hregNe r hr)]
  · rw [ag lroot (by show (sB.doc? lroot).isSome = true; rw [hdB]; rfl), hrets_eq]
  · constructor
    · intro id hid
      have hnr := hnotReach id hid
      have hnotAll : id ∉ allNodes env.st (env.st.size + 2) [lroot] := by
        intro hmem
        exact hnr (allNodes_has D _ _ hallHas id hmem)
      have e1 := hextB.infos id hid
      rw [keep id hnotAll (by show (lookupNat id sB.infos).isSome = true; rw [e1]; exact hid)]
      exact e1
    · intro r hr
      rw [dkeep r (hregNe r hr) (hregC r hr)]
      exact hextB.docs r hr
  · rw [hdr']; exact hok

theorem resolveDoc_G (env : Env) (top : NodeId) (hfresh : LoaderFresh env top) :
    ∀ fuel, RecG env top (resolveDoc env fuel) := by
  intro fuel
  induction fuel with
  | zero => intro lroot base dr s s' rets h; simp [resolveDoc] at h
  | succ fuel ih => exact resolveDocStep_G env top _ ih hfresh

theorem gInv_init (env : Env) (top : NodeId) (rets : NodeId → Url) : GInv env top rets {} := by
  refine ⟨?_, ?_, ?_, ?_⟩
  · intro r d h; simp [RState.doc?] at h
  · intro r h; simp [Registered, RState.doc?] at h
  · intro id h; simp [lookupNat] at h
  · intro e he; simp at he

/-- Schema.Resolve under the freshness assumption: the final state satisfies the invariant of all
    documents, and every `$ref` of `root.all()` has the designated target (and, in a 2020-12 document, every
    `$dynamicRef`: under draft-07 it is an unknown keyword, left unresolved) -/
theorem resolve_G (env : Env) (fuel : Nat) (root : NodeId) (base : String) (rs : Resolved)
    (hfresh : LoaderFresh env root) (h : resolve env fuel root base = .ok rs) :
    ∃ s b d rets, retrievalOf base = .ok b ∧ rets root = b ∧ s.doc? root = some d ∧ rs.draft = d.draft ∧
      GInv env root rets s ∧
      ∀ id ∈ allNodes env.st (env.st.size + 2) [root], ∀ n, env.st.get? id = some n →
        (n.ref ≠ "" → ∃ info t, lookupNat id rs.infos = some info ∧ info.resolvedRef = some t ∧
          GDesig env rets s ⟨env.st, rs.draft, root⟩ id n.ref t) ∧
        (rs.draft = .d2020 → n.dynamicRef ≠ "" →
          ∃ info t, lookupNat id rs.infos = some info ∧ info.resolvedDynamicRef = some t ∧
          GDesig env rets s ⟨env.st, rs.draft, root⟩ id n.dynamicRef t) := by
  obtain ⟨s, b, d, hb, hs, hd, _, hdr, _, hinfos⟩ := resolve_ok' env fuel root base rs h
  obtain ⟨rets, _, hret, hg, _, d', hd', hok⟩ :=
    resolveDoc_G env root hfresh fuel root b .d2020 {} s (fun _ => b) hs (gInv_init env root _)
      (by simp [RState.doc?]) (by intro r hr; simp [Registered, RState.doc?] at hr) (Or.inl rfl)
  rw [hd] at hd'
  simp only [Option.some.injEq] at hd'
  subst hd'
  refine ⟨s, b, d, rets, hb, hret, hd, hdr, hg, ?_⟩
  intro id hid n hn
  have hlook : lookupNat id rs.infos = lookupNat id s.infos := by
    cases fuel with
    | zero => simp [resolveDoc] at hs
    | succ fuel =>
      obtain ⟨hdocs, fresh, hfr⟩ :=
        resolveDocStep_docs env _ (resolveDoc_docs env fuel) _ _ _ _ _ hs (docsOk_init env)
      have hknown : d.known.contains id = true :=
        hdocs root d hd fresh hfr id (allNodes_sub_checkStructure env.st _ _ root fresh hfr id hid)
      rw [hinfos, lookupNat_filter_key id (fun x => d.known.contains x) s.infos hknown]
  obtain ⟨h1, h2⟩ := hok id hid n hn
  constructor
  · intro hne
    obtain ⟨info, t, hi, ht, hdes⟩ := h1 hne
    exact ⟨info, t, by rw [hlook]; exact hi, ht, by rw [hdr]; exact hdes⟩
  · intro h20 hne
    obtain ⟨info, t, hi, ht, hdes⟩ := h2 (hdr.symm.trans h20) hne
    exact ⟨info, t, by rw [hlook]; exact hi, ht, by rw [hdr]; exact hdes⟩

/-! ### in the words of the Spec -/

/-- the documents registered in a state, with their retrieval URIs -/
def docsOf (env : Env) (rets : NodeId → Url) (s : RState) : List (Doc × Url) :=
  s.docs.map fun d => (⟨env.st, d.draft, d.root⟩, rets d.root)

theorem gDesig_among (env : Env) (rets : NodeId → Url) (s : RState) (D : Doc) (id : NodeId) (ref : String)
    (t : NodeId) (h : GDesig env rets s D id ref t) :
    DesignatesAmong (docsOf env rets s) D (rets D.root) id ref t := by
  obtain ⟨bu, refURI, hb, hp, h⟩ := h
  refine ⟨bu, refURI, hb, hp, ?_⟩
  rcases h with h | ⟨r, d', hd', h1, h2⟩
  · exact Or.inl h
  · have hroot : d'.root = r := doc?_root _ _ _ hd'
    have hmem : d' ∈ s.docs := List.mem_of_find?_eq_some hd'
    refine Or.inr ⟨(⟨env.st, d'.draft, d'.root⟩, rets d'.root), List.mem_map.mpr ⟨d', hmem, rfl⟩, ?_, ?_⟩
    · simp only; rw [hroot]; exact h1
    · simp only; rw [hroot]; exact h2

theorem docsOf_spec (env : Env) (top : NodeId) (rets : NodeId → Url) (s : RState) (hg : GInv env top rets s) :
    ∀ e ∈ docsOf env rets s, e.1.st = env.st ∧ ((e.1.root = top ∧ e.2 = rets top) ∨
      ∃ tbl, env.loader = some tbl ∧ Json.lookup (Uri.toString e.2) tbl = some (.doc e.1.root)) := by
  intro e he
  obtain ⟨d, hd, rfl⟩ := List.mem_map.mp he
  refine ⟨rfl, ?_⟩
  have hreg : Registered s d.root := by
    unfold Registered RState.doc?
    rw [List.find?_isSome]
    exact ⟨d, hd, by simp⟩
  rcases hg.reg d.root hreg with h1 | ⟨tbl, k, h1, h2, _, h4⟩
  · left; simp only; rw [h1]; exact ⟨rfl, rfl⟩
  · right; exact ⟨tbl, h1, by rw [← h4]; exact h2⟩

/-- a set of schemas closed under children contains everything reachable from its members (for
    checking `LoaderFresh` on concrete universes) -/
theorem reach_sub_closed (st : Store) (V : List NodeId) (r b : NodeId) (hr : r ∈ V)
    (hcl : (V.all fun p => match st.get? p with
      | some n => n.children.all fun c => V.contains c
      | none => true) = true)
    (h : Reach st r b) : b ∈ V := by
  obtain ⟨l, hl⟩ := h
  refine closed_has st (· ∈ V) ?_ l r b hr hl
  intro p hp c hc
  obtain ⟨n, hn, hcn⟩ := (isChild_iff st p c).mp hc
  rw [List.all_eq_true] at hcl
  have := hcl p hp
  rw [hn] at this
  simp only [List.all_eq_true, List.contains_eq_mem, decide_eq_true_eq] at this
  exact this c hcn

end RInv
end Go
end JSV
