/-
  Refinement proof, part 2: the induction hypothesis at a fixed stack, `$ref`, `$dynamicRef`, and the
  in-place applicators allOf / anyOf / oneOf / not / if-then-else / dependentSchemas.
-/
import JSV.Proofs.RefineBase
namespace JSV
namespace Refine
open Go GoVal

/-- every schema on the dynamic scope has a resolution record -/
def StackOK (env : VEnv) (stack : List NodeId) : Prop := ∀ x, x ∈ stack → (env.info? x).isSome = true

/-- the induction hypothesis, at a fixed stack -/
def SubRel (sub : NodeId → Json → Spec.Out) (rec : Go.Rec) (stack : List NodeId) : Prop :=
  ∀ s j g, Json.WF j = true → strip g = ofJson j → Rel j (sub s j) (rec stack g s)

theorem sequence_cons_eq_some {α} {o : Option α} {l : List (Option α)} {rs : List α}
    (h : Spec.sequence (o :: l) = some rs) :
    ∃ r rs', o = some r ∧ Spec.sequence l = some rs' ∧ rs = r :: rs' := by
  have := sequence_eq_some.1 h
  cases rs with
  | nil => simp at this
  | cons r rs' =>
    simp only [List.map_cons, List.cons.injEq] at this
    exact ⟨r, rs', this.1, sequence_eq_some.2 this.2, rfl⟩

def invalidCount (rs : List Spec.R) : Nat := (rs.filter Option.isNone).length

theorem invalidCount_cons (r : Spec.R) (rs : List Spec.R) :
    invalidCount (r :: rs) = (if r.isSome then 0 else 1) + invalidCount rs := by
  cases r <;> simp [invalidCount] <;> omega

theorem valid_add_invalid (rs : List Spec.R) : Spec.validCount rs + invalidCount rs = rs.length := by
  induction rs with
  | nil => rfl
  | cons r rs ih => rw [validCount_cons, invalidCount_cons]; cases r <;> simp <;> omega

theorem sequence_length {α} {l : List (Option α)} {rs : List α} (h : Spec.sequence l = some rs) :
    rs.length = l.length := by
  rw [sequence_eq_some.1 h, List.length_map]

section
variable {sub : NodeId → Json → Spec.Out} {rec : Go.Rec} {stack : List NodeId}
variable (H : SubRel sub rec stack) {j : Json} (hj : Json.WF j = true)
include H hj

theorem rec_invalid {s : NodeId} (h : sub s j = some none) : rec stack (ofJson j) s = .err := by
  have := H s j (ofJson j) hj (strip_ofJson j)
  rw [h] at this
  exact this

theorem rec_valid {s : NodeId} {ev : Spec.Ev} (h : sub s j = some (some ev)) :
    ∃ a, rec stack (ofJson j) s = .ok a ∧ AnnsMatch j a ev := by
  have := H s j (ofJson j) hj (strip_ofJson j)
  rw [h] at this
  exact this

theorem mustValid_blk {s : NodeId} {r : Spec.R} (anns : Anns) (h : sub s j = some r) :
    Blk j anns r (mustValid rec stack (ofJson j) s anns) := by
  unfold mustValid
  cases r with
  | none => rw [rec_invalid H hj h]; rfl
  | some ev =>
    obtain ⟨a, ha, hm⟩ := rec_valid H hj h
    rw [ha]
    exact ⟨anns.merge a, rfl, Ext_merge anns hm⟩

theorem tryValid_invalid {s : NodeId} (anns : Anns) (c : Bool) (h : sub s j = some none) :
    tryValid rec stack (ofJson j) s anns c = .ok (false, anns) := by
  unfold tryValid; rw [rec_invalid H hj h]

theorem tryValid_valid {s : NodeId} {ev : Spec.Ev} (anns : Anns) (h : sub s j = some (some ev)) :
    ∃ a', tryValid rec stack (ofJson j) s anns true = .ok (true, a') ∧ Ext j anns a' ev := by
  obtain ⟨a, ha, hm⟩ := rec_valid H hj h
  unfold tryValid; rw [ha]
  exact ⟨anns.merge a, rfl, Ext_merge anns hm⟩

theorem tryValid_valid_nocollect {s : NodeId} {ev : Spec.Ev} (anns : Anns) (h : sub s j = some (some ev)) :
    tryValid rec stack (ofJson j) s anns false = .ok (true, anns) := by
  obtain ⟨a, ha, _⟩ := rec_valid H hj h
  unfold tryValid; rw [ha]; rfl

/-! ### allOf -/

theorem allOfLoop_blk : ∀ (ss : List NodeId) (rs : List Spec.R) (anns : Anns),
    Spec.sequence (ss.map fun t => sub t j) = some rs →
    Blk j anns (Spec.conj rs) (allOfLoop rec stack (ofJson j) ss anns)
  | [], rs, anns, h => by
    have : rs = [] := by simpa [Spec.sequence] using h.symm
    subst this
    exact Blk_ok j anns
  | s :: ss, rs, anns, h => by
    obtain ⟨r, rs', h1, h2, rfl⟩ := sequence_cons_eq_some h
    rw [conj_cons, allOfLoop]
    exact Blk_bind (mustValid_blk H hj anns h1) (fun a1 => allOfLoop_blk ss rs' a1 h2)

theorem bAllOf_blk (n : Node) (anns : Anns) {r : Spec.R} (h : Spec.kwAllOf sub n j = some r) :
    Blk j anns r (bAllOf rec stack n (ofJson j) anns) := by
  unfold Spec.kwAllOf at h
  unfold bAllOf
  cases hn : n.allOf with
  | none => rw [hn] at h; simp only [Option.some.injEq] at h; subst h; exact Blk_ok j anns
  | some ss =>
    rw [hn] at h
    simp only [Option.map_eq_some_iff] at h
    obtain ⟨rs, h1, rfl⟩ := h
    exact allOfLoop_blk H hj ss rs anns h1

/-! ### anyOf -/

theorem anyOfLoop_spec : ∀ (ss : List NodeId) (rs : List Spec.R) (anns : Anns) (nerr : Nat),
    Spec.sequence (ss.map fun t => sub t j) = some rs →
    ∃ a', anyOfLoop rec stack (ofJson j) ss anns nerr = .ok (a', nerr + invalidCount rs) ∧
      Ext j anns a' (Spec.validUnion rs)
  | [], rs, anns, nerr, h => by
    have : rs = [] := by simpa [Spec.sequence] using h.symm
    subst this
    exact ⟨anns, rfl, Ext_refl j anns⟩
  | s :: ss, rs, anns, nerr, h => by
    obtain ⟨r, rs', h1, h2, rfl⟩ := sequence_cons_eq_some h
    rw [anyOfLoop]
    cases r with
    | none =>
      rw [tryValid_invalid H hj anns true h1]
      simp only [Res.bind_ok]
      obtain ⟨a', ha, hx⟩ := anyOfLoop_spec ss rs' anns (nerr + 1) h2
      refine ⟨a', ?_, ?_⟩
      · rw [invalidCount_cons]; simp only [Bool.false_eq_true, if_false] at ha ⊢
        rw [ha]; simp only [Option.isSome_none, Bool.false_eq_true, if_false]; congr 2; omega
      · rw [validUnion_cons_none]; exact hx
    | some e =>
      obtain ⟨a1, ht, hx1⟩ := tryValid_valid H hj anns h1
      rw [ht]
      simp only [Res.bind_ok]
      obtain ⟨a', ha, hx⟩ := anyOfLoop_spec ss rs' a1 nerr h2
      refine ⟨a', ?_, ?_⟩
      · rw [invalidCount_cons]; simp only [if_true] at ha ⊢
        rw [ha]; simp
      · rw [validUnion_cons_some]; exact Ext_trans hx1 hx

theorem bAnyOf_blk (n : Node) (anns : Anns) {r : Spec.R} (h : Spec.kwAnyOf sub n j = some r) :
    Blk j anns r (bAnyOf rec stack n (ofJson j) anns) := by
  unfold Spec.kwAnyOf at h
  unfold bAnyOf
  cases hn : n.anyOf with
  | none => rw [hn] at h; simp only [Option.some.injEq] at h; subst h; exact Blk_ok j anns
  | some ss =>
    rw [hn] at h
    simp only [Option.map_eq_some_iff] at h
    obtain ⟨rs, h1, rfl⟩ := h
    obtain ⟨a', ha, hx⟩ := anyOfLoop_spec H hj ss rs anns 0 h1
    simp only
    rw [ha]
    simp only [Res.bind_ok, Nat.zero_add]
    have hl : rs.length = ss.length := by rw [sequence_length h1, List.length_map]
    have hv := valid_add_invalid rs
    by_cases hc : Spec.validCount rs > 0
    · have : (invalidCount rs == ss.length) = false := by
        rw [beq_eq_false_iff_ne]; omega
      simp only [this, hc, if_true, Bool.false_eq_true, if_false]
      exact ⟨a', rfl, hx⟩
    · have : (invalidCount rs == ss.length) = true := by
        rw [beq_iff_eq]; omega
      simp only [this, hc, if_true, if_false]
      rfl

/-! ### oneOf -/

theorem oneOfLoop_spec : ∀ (ss : List NodeId) (rs : List Spec.R) (anns : Anns) (found : Bool),
    Spec.sequence (ss.map fun t => sub t j) = some rs →
    (2 ≤ (if found then 1 else 0) + Spec.validCount rs → oneOfLoop rec stack (ofJson j) ss anns found = .err) ∧
    ((if found then 1 else 0) + Spec.validCount rs ≤ 1 →
      ∃ a', oneOfLoop rec stack (ofJson j) ss anns found
          = .ok (a', decide ((if found then 1 else 0) + Spec.validCount rs = 1)) ∧
        Ext j anns a' (Spec.validUnion rs))
  | [], rs, anns, found, h => by
    have : rs = [] := by simpa [Spec.sequence] using h.symm
    subst this
    constructor
    · intro h2; cases found <;> simp [Spec.validCount] at h2
    · intro _; refine ⟨anns, ?_, Ext_refl j anns⟩
      cases found <;> simp [oneOfLoop, Spec.validCount]
  | s :: ss, rs, anns, found, h => by
    obtain ⟨r, rs', h1, h2, rfl⟩ := sequence_cons_eq_some h
    rw [oneOfLoop, validCount_cons]
    cases r with
    | none =>
      rw [tryValid_invalid H hj anns true h1]
      simp only [Res.bind_ok, Bool.false_eq_true, if_false, Option.isSome_none, Nat.zero_add]
      have ih := oneOfLoop_spec ss rs' anns found h2
      rw [validUnion_cons_none]
      exact ih
    | some e =>
      obtain ⟨a1, ht, hx1⟩ := tryValid_valid H hj anns h1
      rw [ht]
      simp only [Res.bind_ok, if_true, Option.isSome_some]
      cases found with
      | true =>
        simp only [if_true]
        constructor
        · intro _; trivial
        · intro h3; omega
      | false =>
        simp only [Bool.false_eq_true, if_false, Nat.zero_add]
        have ih := oneOfLoop_spec ss rs' a1 true h2
        simp only [if_true] at ih
        constructor
        · intro h3; exact ih.1 h3
        · intro h3
          obtain ⟨a', ha, hx⟩ := ih.2 h3
          refine ⟨a', ha, ?_⟩
          rw [validUnion_cons_some]; exact Ext_trans hx1 hx

theorem bOneOf_blk (n : Node) (anns : Anns) {r : Spec.R} (h : Spec.kwOneOf sub n j = some r) :
    Blk j anns r (bOneOf rec stack n (ofJson j) anns) := by
  unfold Spec.kwOneOf at h
  unfold bOneOf
  cases hn : n.oneOf with
  | none => rw [hn] at h; simp only [Option.some.injEq] at h; subst h; exact Blk_ok j anns
  | some ss =>
    rw [hn] at h
    simp only [Option.map_eq_some_iff] at h
    obtain ⟨rs, h1, rfl⟩ := h
    have hs := oneOfLoop_spec H hj ss rs anns false h1
    simp only [Bool.false_eq_true, if_false, Nat.zero_add] at hs
    simp only
    by_cases hc : 2 ≤ Spec.validCount rs
    · rw [hs.1 hc]
      have : (Spec.validCount rs == 1) = false := by rw [beq_eq_false_iff_ne]; omega
      simp only [this, Bool.false_eq_true, if_false]
      rfl
    · obtain ⟨a', ha, hx⟩ := hs.2 (by omega)
      rw [ha]
      simp only [Res.bind_ok]
      by_cases h1 : Spec.validCount rs = 1
      · simp only [h1, decide_true, if_true, beq_self_eq_true]
        exact ⟨a', rfl, hx⟩
      · have : (Spec.validCount rs == 1) = false := by rw [beq_eq_false_iff_ne]; exact h1
        simp only [h1, decide_false, this, Bool.false_eq_true, if_false]
        rfl

/-! ### not -/

theorem bNot_blk (n : Node) (anns : Anns) {r : Spec.R} (h : Spec.kwNot sub n j = some r) :
    Blk j anns r (bNot rec stack n (ofJson j) anns) := by
  unfold Spec.kwNot at h
  unfold bNot
  cases hn : n.not with
  | none => rw [hn] at h; simp only [Option.some.injEq] at h; subst h; exact Blk_ok j anns
  | some t =>
    rw [hn] at h
    simp only [Option.map_eq_some_iff] at h
    obtain ⟨r', h1, rfl⟩ := h
    simp only
    cases r' with
    | none =>
      rw [tryValid_invalid H hj anns false h1]
      simp only [Res.bind_ok, Option.isSome_none, Bool.false_eq_true, if_false]
      exact Blk_ok j anns
    | some e =>
      rw [tryValid_valid_nocollect H hj anns h1]
      simp only [Res.bind_ok, Option.isSome_some, if_true]
      rfl

/-! ### if / then / else -/

theorem bIf_blk (n : Node) (anns : Anns) {r : Spec.R} (h : Spec.kwIf sub n j = some r) :
    Blk j anns r (bIf rec stack n (ofJson j) anns) := by
  unfold Spec.kwIf at h
  unfold bIf
  cases hn : n.if_ with
  | none => rw [hn] at h; simp only [Option.some.injEq] at h; subst h; exact Blk_ok j anns
  | some c =>
    rw [hn] at h
    simp only at h ⊢
    cases hc : sub c j with
    | none => rw [hc] at h; simp at h
    | some rc =>
      rw [hc] at h
      simp only at h
      cases rc with
      | none =>
        rw [tryValid_invalid H hj anns true hc]
        simp only [Res.bind_ok, Option.isSome_none, Bool.false_eq_true, if_false, Option.getD_none] at h ⊢
        cases he : n.else_ with
        | none =>
          rw [he] at h; simp only [Option.some.injEq] at h; subst h
          exact Blk_ok j anns
        | some b =>
          rw [he] at h
          simp only [Option.map_eq_some_iff] at h
          obtain ⟨rb, hb, rfl⟩ := h
          have := mustValid_blk H hj anns hb
          cases rb with
          | none => exact this
          | some eb =>
            obtain ⟨a', ha, hx⟩ := this
            exact ⟨a', ha, Ext_trans (Ext_refl j anns) hx⟩
      | some ec =>
        obtain ⟨a1, ht, hx1⟩ := tryValid_valid H hj anns hc
        rw [ht]
        simp only [Res.bind_ok, Option.isSome_some, if_true, Option.getD_some] at h ⊢
        cases he : n.then_ with
        | none =>
          rw [he] at h; simp only [Option.some.injEq] at h; subst h
          exact ⟨a1, rfl, hx1⟩
        | some b =>
          rw [he] at h
          simp only [Option.map_eq_some_iff] at h
          obtain ⟨rb, hb, rfl⟩ := h
          have := mustValid_blk H hj a1 hb
          cases rb with
          | none => exact this
          | some eb =>
            obtain ⟨a', ha, hx⟩ := this
            exact ⟨a', ha, Ext_trans hx1 hx⟩

/-! ### $ref -/

omit H hj in
theorem bRef_noref (env : VEnv) (n : Node) (info : Option Info) (hr : n.ref = "") :
    bRef env rec stack n info (ofJson j) = .ok ({}, false) := by
  unfold bRef; simp [hr]

theorem bRef_spec (env : VEnv) {s : NodeId} {i : Info} (hinfo : env.info? s = some i) (n : Node) (hr : n.ref ≠ "")
    {r : Spec.R} (h : Spec.kwRef (specEnvOf env) sub s n j = some r) :
    ∃ m : Res Anns, Blk j {} r m ∧ bRef env rec stack n (some i) (ofJson j) =
      Res.bind m (fun anns => if env.draft == .d7 then .ok ({}, true) else .ok (anns, false)) := by
  unfold Spec.kwRef Spec.inPlace at h
  simp only [specEnvOf, hinfo, Option.bind_some] at h
  have hr' : (n.ref != "") = true := by simp [hr]
  rw [hr'] at h
  simp only [if_true] at h
  cases ht : i.resolvedRef with
  | none => rw [ht] at h; simp at h
  | some t =>
    rw [ht] at h
    simp only at h
    refine ⟨mustValid rec stack (ofJson j) t {}, mustValid_blk H hj {} h, ?_⟩
    unfold bRef
    simp only [hr', if_true, ht]

/-! ### $dynamicRef -/

/-- the block under 2020-12 (where the keyword is in force) -/
theorem bDynamicRef_blk2020 (env : VEnv) (hd20 : env.draft = .d2020) {s : NodeId} {i : Info}
    (hinfo : env.info? s = some i) (n : Node) (anns : Anns)
    (hlookup : ∀ name, dynLookup env name stack = .ok (Spec.dynTarget (specEnvOf env) stack name))
    {r : Spec.R} (h : Spec.kwDynamicRef (specEnvOf env) sub stack s n j = some r) :
    Blk j anns r (bDynamicRef env rec stack n (some i) (ofJson j) anns) := by
  unfold Spec.kwDynamicRef at h
  unfold bDynamicRef
  rw [hd20]
  by_cases hd : n.dynamicRef = ""
  · have hd' : (n.dynamicRef != "") = false := by simp [hd]
    rw [hd'] at h ⊢
    simp only [Bool.false_and, Bool.false_eq_true, if_false, Option.some.injEq] at h ⊢
    subst h
    exact Blk_ok j anns
  · have hd' : (n.dynamicRef != "") = true := by simp [hd]
    rw [hd'] at h ⊢
    simp only [Bool.true_and, beq_d2020_d2020, if_true] at h ⊢
    have e1 : (specEnvOf env).dynInitial s = i.resolvedDynamicRef := by simp [specEnvOf, hinfo]
    have e2 : (specEnvOf env).dynName s = i.dynamicRefAnchor := by simp [specEnvOf, hinfo]
    rw [e1, e2] at h
    cases hi : i.resolvedDynamicRef with
    | none => rw [hi] at h; simp at h
    | some initial =>
      rw [hi] at h
      simp only at h ⊢
      by_cases ha : i.dynamicRefAnchor = ""
      · have ha' : (i.dynamicRefAnchor == "") = true := by simp [ha]
        rw [ha'] at h ⊢
        simp only [if_true] at h ⊢
        exact mustValid_blk H hj anns h
      · have ha' : (i.dynamicRefAnchor == "") = false := by simp [ha]
        rw [ha'] at h ⊢
        simp only [Bool.false_eq_true, if_false] at h ⊢
        rw [hlookup]
        simp only [Res.bind_ok]
        exact mustValid_blk H hj anns h

/-- the block under either draft: the Spec reads the node through the vocabulary of the draft -/
theorem bDynamicRef_blk (env : VEnv) {s : NodeId} {i : Info}
    (hinfo : env.info? s = some i) (n : Node) (anns : Anns)
    (hlookup : ∀ name, dynLookup env name stack = .ok (Spec.dynTarget (specEnvOf env) stack name))
    {r : Spec.R} (h : Spec.kwDynamicRef (specEnvOf env) sub stack s (Spec.vocab env.draft n) j = some r) :
    Blk j anns r (bDynamicRef env rec stack n (some i) (ofJson j) anns) := by
  cases hd : env.draft with
  | d7 =>
    rw [hd, kwDynamicRef_d7] at h
    rw [bDynamicRef_d7 env hd]
    simp only [Option.some.injEq] at h
    subst h
    exact Blk_ok j anns
  | d2020 =>
    rw [hd, vocab_d2020] at h
    exact bDynamicRef_blk2020 H hj env hd hinfo n anns hlookup h

/-! ### dependentSchemas -/

omit H hj in
theorem hasProperty_ofJsonObj (kvs : List (String × Json)) (k : String) :
    hasProperty (ofJsonObj kvs) k = (Json.lookup k kvs).isSome := by
  unfold hasProperty; rw [lookup_ofJsonObj]; simp

theorem depSchemasLoop_blk (kvs : List (String × Json)) :
    ∀ (ds : List (String × NodeId)) (rs : List Spec.R) (anns : Anns),
    Spec.sequence ((ds.filter fun p => (Json.lookup p.1 kvs).isSome).map fun p => sub p.2 j) = some rs →
    Blk j anns (Spec.conj rs) (depSchemasLoop rec stack (ofJson j) (ofJsonObj kvs) ds anns)
  | [], rs, anns, h => by
    have : rs = [] := by simpa [Spec.sequence] using h.symm
    subst this
    exact Blk_ok j anns
  | (k, t) :: ds, rs, anns, h => by
    rw [depSchemasLoop, hasProperty_ofJsonObj]
    by_cases hk : (Json.lookup k kvs).isSome = true
    · rw [List.filter_cons_of_pos (by simpa using hk), List.map_cons] at h
      obtain ⟨r, rs', h1, h2, rfl⟩ := sequence_cons_eq_some h
      rw [conj_cons, if_pos hk]
      exact Blk_bind (mustValid_blk H hj anns h1) (fun a1 => depSchemasLoop_blk kvs ds rs' a1 h2)
    · rw [List.filter_cons_of_neg (by simpa using hk)] at h
      rw [if_neg hk]
      exact depSchemasLoop_blk kvs ds rs anns h

end

theorem dynLookup_eq (env : VEnv) (hwf : EnvWF env) (name : String) : ∀ stack, StackOK env stack →
    dynLookup env name stack = .ok (Spec.dynTarget (specEnvOf env) stack name)
  | [], _ => by simp [dynLookup, Spec.dynTarget]
  | s :: rest, h => by
    have hs : (env.info? s).isSome = true := h s (by simp)
    obtain ⟨si, hsi⟩ := Option.isSome_iff_exists.1 hs
    obtain ⟨b, bi, hb, hbi⟩ := hwf.base_total s si hsi
    have ih := dynLookup_eq env hwf name rest (fun x hx => h x (by simp [hx]))
    unfold Spec.dynTarget at ih ⊢
    have e1 : (specEnvOf env).resource s = some b := by simp [specEnvOf, hsi, hb]
    have e2 : (specEnvOf env).dynDecl b name = (match Json.lookup name bi.anchors with
        | some a => if a.dynamic then some a.schema else none
        | none => none) := by
      simp only [specEnvOf, hbi, Option.bind_some]
      cases Json.lookup name bi.anchors <;> rfl
    rw [dynLookup, List.findSome?_cons]
    simp only [hsi, hb, hbi, e1, e2]
    cases hl : Json.lookup name bi.anchors with
    | none => simpa using ih
    | some a => cases hd : a.dynamic <;> simp [hd, ih]

end Refine
end JSV
