/-
  The clone of a tree is a tree: if checkStructure accepts `root`, it accepts the clone of `root`.

  `cloneFuel` allocates one fresh node per visit, after the clones of the children: the clones of two siblings occupy
  disjoint intervals of ids, and the copy itself comes after both.  So the clone of a subtree that checkStructure
  accepts on its own (`RPerm.Sub`) is accepted on its own, with all its schemas in the interval allocated by the call.
-/
import JSV.Proofs.ResIso4
namespace JSV
namespace Go
namespace RIso
open RInv
open RPerm (Sub)

/-! ### checkStructure on a larger store -/

theorem cs_ext {s s' : Store} (he : Ext s s') : ∀ (f : Nat) (w : List (NodeId × String)) (acc res : List (NodeId × Info)),
    checkStructure s f w acc = .ok res → checkStructure s' f w acc = .ok res := by
  intro f
  induction f with
  | zero => intro w acc res h; rw [RPerm.cs_zero] at h; cases h
  | succ f ih =>
    intro w acc res h
    cases w with
    | nil => rw [RPerm.cs_nil] at h ⊢; exact h
    | cons e w =>
      obtain ⟨id, path⟩ := e
      obtain ⟨n, hn, hid, hrest⟩ := (RPerm.cs_cons_ok _ _ _ _ _ _ _).mp h
      exact (RPerm.cs_cons_ok _ _ _ _ _ _ _).mpr ⟨n, he.get? hn, hid, ih _ _ _ hrest⟩

theorem sub_ext {s s' : Store} (he : Ext s s') {w : List (NodeId × String)} {D : List (NodeId × Info)}
    (h : Sub s w D) : Sub s' w D := by
  obtain ⟨f, hf⟩ := h
  exact ⟨f, cs_ext he f w [] D hf⟩

/-- all registered schemas lie in `[lo, hi)` -/
def InIv (lo hi : Nat) (D : List (NodeId × Info)) : Prop := ∀ k, k ∈ D.map (·.1) → lo ≤ k ∧ k < hi

theorem InIv.mono {lo hi lo' hi' : Nat} {D : List (NodeId × Info)} (h : InIv lo hi D) (h1 : lo' ≤ lo) (h2 : hi ≤ hi') :
    InIv lo' hi' D := fun k hk => ⟨Nat.le_trans h1 (h k hk).1, Nat.lt_of_lt_of_le (h k hk).2 h2⟩

theorem InIv.append {lo mid hi : Nat} {D₁ D₂ : List (NodeId × Info)} (h₁ : InIv lo mid D₁) (h₂ : InIv mid hi D₂)
    (hlm : lo ≤ mid) (hmh : mid ≤ hi) : InIv lo hi (D₁ ++ D₂) := by
  intro k hk
  rw [List.map_append, List.mem_append] at hk
  rcases hk with hk | hk
  · exact (h₁.mono (Nat.le_refl _) hmh) k hk
  · exact (h₂.mono hlm (Nat.le_refl _)) k hk

theorem InIv.disjoint {lo mid hi : Nat} {D₁ D₂ : List (NodeId × Info)} (h₁ : InIv lo mid D₁) (h₂ : InIv mid hi D₂) :
    ∀ x ∈ D₂.map (·.1), x ∉ D₁.map (·.1) := by
  intro x hx hx'
  have a := (h₂ x hx).1
  have b := (h₁ x hx').2
  omega

theorem inIv_nil (lo hi : Nat) : InIv lo hi [] := fun _ hk => by simp at hk

/-! ### the entries checkStructure pushes for one field -/

def fieldEntries (path : String) : ChildField → List (NodeId × String)
  | .one j (some c) => [(c, path ++ "/" ++ j)]
  | .one _ none => []
  | .many j cs => (cs.getD []).zipIdx.map fun (c, i) => (c, path ++ "/" ++ j ++ "/" ++ toString i)
  | .keyed j cs => (cs.getD []).map fun (k, c) => (c, path ++ "/" ++ j ++ "/" ++ Pointer.escapeSegment k)

theorem childEntries_eq (n : Node) (path : String) :
    childEntries n path = n.childFields.flatMap (fieldEntries path) := by
  unfold childEntries
  congr 1

/-! ### the traversal -/

/-- what is assumed of the recursive call: the clone of a subtree accepted on its own is accepted on its own, inside
    the interval of ids the call allocates -/
def RecTree (st0 : Store) (rec : CRec) : Prop :=
  ∀ x s x' s' p D, Ext st0 s → Sub st0 [(x, p)] D → rec x s = .ok (x', s') →
    Ext s s' ∧ ∃ D', Sub s' [(x', p)] D' ∧ InIv s.size s'.size D'

section
variable {st0 : Store} {rec : CRec} (hrec : RecTree st0 rec)
include hrec

theorem cloneIds_tree (h : NodeId × Nat → NodeId × String) (g : Nat → String) (hh : ∀ c i, h (c, i) = (c, g i)) :
    ∀ (l : List NodeId) (k : Nat) (s : Store) (l' : List NodeId) (s' : Store) (D : List (NodeId × Info)),
      Ext st0 s → Sub st0 ((l.zipIdx k).map h) D → cloneIds rec l s = .ok (l', s') →
      Ext s s' ∧ ∃ D', Sub s' ((l'.zipIdx k).map h) D' ∧ InIv s.size s'.size D'
  | [], k, s, l', s', D, _, _, hc => by
    simp only [cloneIds] at hc
    cases hc
    exact ⟨Ext.refl _, [], RPerm.sub_nil _, inIv_nil _ _⟩
  | x :: xs, k, s, l', s', D, he, hsub, hc => by
    simp only [cloneIds] at hc
    obtain ⟨⟨x', s1⟩, h1, h2⟩ := Res.bind_eq_ok hc
    obtain ⟨⟨xs', s2⟩, h3, h4⟩ := Res.bind_eq_ok h2
    cases h4
    rw [List.zipIdx_cons, List.map_cons, hh] at hsub ⊢
    obtain ⟨D1, D2, _, hs1, hs2, _⟩ := (RPerm.sub_cons_iff _ _ _ _).mp hsub
    obtain ⟨e1, D1', hs1', hi1⟩ := hrec x s x' s1 (g k) D1 he hs1 h1
    obtain ⟨e2, D2', hs2', hi2⟩ := cloneIds_tree h g hh xs (k + 1) s1 xs' s2 D2 (he.trans e1) hs2 h3
    refine ⟨e1.trans e2, D1' ++ D2', ?_, hi1.append hi2 e1.1 e2.1⟩
    exact (RPerm.sub_cons_iff _ _ _ _).mpr ⟨D1', D2', rfl, sub_ext e2 hs1', hs2', hi1.disjoint hi2⟩

theorem cloneEntries_tree (h : String × NodeId → NodeId × String) (g : String → String)
    (hh : ∀ k c, h (k, c) = (c, g k)) :
    ∀ (l : List (String × NodeId)) (s : Store) (l' : List (String × NodeId)) (s' : Store) (D : List (NodeId × Info)),
      Ext st0 s → Sub st0 (l.map h) D → cloneEntries rec l s = .ok (l', s') →
      Ext s s' ∧ ∃ D', Sub s' (l'.map h) D' ∧ InIv s.size s'.size D'
  | [], s, l', s', D, _, _, hc => by
    simp only [cloneEntries] at hc
    cases hc
    exact ⟨Ext.refl _, [], RPerm.sub_nil _, inIv_nil _ _⟩
  | (k, x) :: xs, s, l', s', D, he, hsub, hc => by
    simp only [cloneEntries] at hc
    obtain ⟨⟨x', s1⟩, h1, h2⟩ := Res.bind_eq_ok hc
    obtain ⟨⟨xs', s2⟩, h3, h4⟩ := Res.bind_eq_ok h2
    cases h4
    rw [List.map_cons, hh] at hsub ⊢
    obtain ⟨D1, D2, _, hs1, hs2, _⟩ := (RPerm.sub_cons_iff _ _ _ _).mp hsub
    obtain ⟨e1, D1', hs1', hi1⟩ := hrec x s x' s1 (g k) D1 he hs1 h1
    obtain ⟨e2, D2', hs2', hi2⟩ := cloneEntries_tree h g hh xs s1 xs' s2 D2 (he.trans e1) hs2 h3
    refine ⟨e1.trans e2, D1' ++ D2', ?_, hi1.append hi2 e1.1 e2.1⟩
    exact (RPerm.sub_cons_iff _ _ _ _).mpr ⟨D1', D2', rfl, sub_ext e2 hs1', hs2', hi1.disjoint hi2⟩

theorem cloneField_tree (path : String) {f : ChildField} {s : Store} {f' : ChildField} {s' : Store}
    {D : List (NodeId × Info)} (he : Ext st0 s) (hsub : Sub st0 (fieldEntries path f) D)
    (hc : cloneField rec f s = .ok (f', s')) :
    Ext s s' ∧ ∃ D', Sub s' (fieldEntries path f') D' ∧ InIv s.size s'.size D' := by
  cases f with
  | one k c =>
    simp only [cloneField] at hc
    obtain ⟨⟨c', s1⟩, h1, h2⟩ := Res.bind_eq_ok hc
    cases h2
    cases c with
    | none =>
      simp only [cloneOpt] at h1
      cases h1
      exact ⟨Ext.refl _, [], RPerm.sub_nil _, inIv_nil _ _⟩
    | some x =>
      simp only [cloneOpt] at h1
      obtain ⟨⟨x', s2⟩, h3, h4⟩ := Res.bind_eq_ok h1
      cases h4
      exact hrec x s x' _ _ D he hsub h3
  | many k cs =>
    simp only [cloneField] at hc
    obtain ⟨⟨c', s1⟩, h1, h2⟩ := Res.bind_eq_ok hc
    cases h2
    cases cs with
    | none =>
      simp only [cloneList] at h1
      cases h1
      exact ⟨Ext.refl _, [], RPerm.sub_nil _, inIv_nil _ _⟩
    | some l =>
      simp only [cloneList] at h1
      obtain ⟨⟨l', s2⟩, h3, h4⟩ := Res.bind_eq_ok h1
      cases h4
      exact cloneIds_tree hrec _ (fun i => path ++ "/" ++ k ++ "/" ++ toString i) (fun _ _ => rfl) l 0 s l' _ D he
        hsub h3
  | keyed k cs =>
    simp only [cloneField] at hc
    obtain ⟨⟨c', s1⟩, h1, h2⟩ := Res.bind_eq_ok hc
    cases h2
    cases cs with
    | none =>
      simp only [cloneMap] at h1
      cases h1
      exact ⟨Ext.refl _, [], RPerm.sub_nil _, inIv_nil _ _⟩
    | some l =>
      simp only [cloneMap] at h1
      obtain ⟨⟨l', s2⟩, h3, h4⟩ := Res.bind_eq_ok h1
      cases h4
      exact cloneEntries_tree hrec _ (fun key => path ++ "/" ++ k ++ "/" ++ Pointer.escapeSegment key)
        (fun _ _ => rfl) l s l' _ D he hsub h3

theorem cloneFields_tree (path : String) : ∀ (fs : List ChildField) (s : Store) (fs' : List ChildField) (s' : Store)
    (D : List (NodeId × Info)), Ext st0 s → Sub st0 (fs.flatMap (fieldEntries path)) D →
    cloneFields rec fs s = .ok (fs', s') →
    Ext s s' ∧ ∃ D', Sub s' (fs'.flatMap (fieldEntries path)) D' ∧ InIv s.size s'.size D'
  | [], s, fs', s', D, _, _, hc => by
    simp only [cloneFields] at hc
    cases hc
    exact ⟨Ext.refl _, [], RPerm.sub_nil _, inIv_nil _ _⟩
  | f :: fs, s, fs', s', D, he, hsub, hc => by
    simp only [cloneFields] at hc
    obtain ⟨⟨f', s1⟩, h1, h2⟩ := Res.bind_eq_ok hc
    obtain ⟨⟨fs'', s2⟩, h3, h4⟩ := Res.bind_eq_ok h2
    cases h4
    rw [List.flatMap_cons] at hsub ⊢
    obtain ⟨D1, D2, _, hs1, hs2, _⟩ := (RPerm.sub_append_iff _ _ _ _).mp hsub
    obtain ⟨e1, D1', hs1', hi1⟩ := cloneField_tree hrec path he hs1 h1
    obtain ⟨e2, D2', hs2', hi2⟩ := cloneFields_tree path fs s1 fs'' s2 D2 (he.trans e1) hs2 h3
    refine ⟨e1.trans e2, D1' ++ D2', ?_, hi1.append hi2 e1.1 e2.1⟩
    exact (RPerm.sub_append_iff _ _ _ _).mpr ⟨D1', D2', rfl, sub_ext e2 hs1', hs2', hi1.disjoint hi2⟩

end

theorem cloneFuel_tree (st0 : Store) : ∀ fc, RecTree st0 (cloneFuel fc)
  | 0 => fun _ _ _ _ _ _ _ _ h => by cases h
  | fc + 1 => by
    intro x s x' s' p D he hsub hc
    change cloneStep (cloneFuel fc) x s = _ at hc
    obtain ⟨n, D0, hn, _, hsub0, _⟩ := (RPerm.sub_single_iff _ _ _ _).mp hsub
    have hns : s.get? x = some n := he.get? hn
    obtain ⟨fs', s'', h1, rfl, rfl⟩ := cloneStep_some hns hc
    rw [childEntries_eq] at hsub0
    obtain ⟨e1, D0', hs0', hi0⟩ := cloneFields_tree (cloneFuel_tree st0 fc) p n.childFields s fs' s'' D0 he hsub0 h1
    have hshape := (cloneFields_inv (cloneInv_ext (fun _ _ _ _ h' => cloneFuel_ext _ h')) trivial
      (fun _ _ _ _ => trivial) h1).2
    have hcf : (setChildFields n fs').childFields = fs' := childFields_set hshape
    have epush : Ext s'' (s''.push (setChildFields n fs')) := Ext.push _ _
    refine ⟨e1.trans epush, (s''.size, RPerm.infoOf p) :: D0', ?_, ?_⟩
    · refine (RPerm.sub_single_iff _ _ _ _).mpr ⟨setChildFields n fs', D0', get?_push_size _ _, rfl, ?_, ?_⟩
      · rw [childEntries_eq, hcf]
        exact sub_ext epush hs0'
      · intro hm
        have := (hi0 _ hm).2
        omega
    · intro k hk
      rw [List.map_cons, List.mem_cons] at hk
      have hsz : (s''.push (setChildFields n fs')).size = s''.size + 1 := Array.size_push _
      rcases hk with hk | hk
      · subst hk
        have := e1.1
        dsimp only
        omega
      · have := hi0 k hk
        omega

/-- **the clone of a tree is a tree**: if checkStructure accepts `root`, it accepts the clone of `root` — under the
    same initial path, with some amount of fuel — and every schema of the clone is a new node -/
theorem clone_checkStructure (st : Store) (root c : NodeId) (st' : Store) (p : String) (f : Nat)
    (fresh : List (NodeId × Info)) (hcs : checkStructure st f [(root, p)] [] = .ok fresh)
    (h : clone st root = .ok (c, st')) :
    ∃ f' fresh', checkStructure st' f' [(c, p)] [] = .ok fresh' ∧ InIv st.size st'.size fresh' := by
  obtain ⟨_, D', ⟨f', hf'⟩, hi⟩ := cloneFuel_tree st (st.size + 2) root st c st' p fresh (Ext.refl st) ⟨f, hcs⟩ h
  exact ⟨f', D', hf', hi⟩

end RIso
end Go
end JSV
