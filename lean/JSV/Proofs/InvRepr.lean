/-
  C08 helpers: every block of the evaluator uses the instance only through jsonType / jsonNumber / stringOf /
  equalValue / its elements / its key-value list / recursive calls.  Two instances that agree on these get the same
  result from every block (congruence lemmas), and two representations of one JSON value agree on them.
-/
import JSV.Proofs.RefineBase
import JSV.Props.C12
namespace JSV
namespace Inv
open Go GoVal

/-- the recursive call cannot tell `x` from `y` -/
def RecEq (rec : Go.Rec) (x y : GoVal) : Prop := ∀ stk t, rec stk x t = rec stk y t

theorem RecEq.refl (rec : Go.Rec) (x : GoVal) : RecEq rec x x := fun _ _ => rfl

/-- element-wise relation of two lists of the same length -/
def All₂ {α β : Type} (R : α → β → Prop) : List α → List β → Prop
  | [], [] => True
  | a :: as, b :: bs => R a b ∧ All₂ R as bs
  | _, _ => False

theorem All₂.length {α β : Type} {R : α → β → Prop} : ∀ {xs : List α} {ys : List β}, All₂ R xs ys → xs.length = ys.length
  | [], [], _ => rfl
  | _ :: xs, _ :: ys, h => by simp [All₂.length (xs := xs) (ys := ys) h.2]
  | [], _ :: _, h => h.elim
  | _ :: _, [], h => h.elim

theorem All₂.drop {α β : Type} {R : α → β → Prop} : ∀ (k : Nat) {xs : List α} {ys : List β}, All₂ R xs ys →
    All₂ R (xs.drop k) (ys.drop k)
  | 0, _, _, h => h
  | _ + 1, [], [], _ => trivial
  | k + 1, _ :: xs, _ :: ys, h => by simpa using All₂.drop k (xs := xs) (ys := ys) h.2
  | _ + 1, [], _ :: _, h => h.elim
  | _ + 1, _ :: _, [], h => h.elim

/-- same key, indistinguishable values -/
def KV (rec : Go.Rec) (p q : String × GoVal) : Prop := p.1 = q.1 ∧ RecEq rec p.2 q.2

section
variable {rec : Go.Rec}

/-! ## applications of a subschema -/

theorem tryValid_congr {x y : GoVal} (h : RecEq rec x y) (stack : List NodeId) (s : NodeId) (anns : Anns) (c : Bool) :
    tryValid rec stack x s anns c = tryValid rec stack y s anns c := by
  unfold tryValid; rw [h stack s]

theorem mustValid_congr {x y : GoVal} (h : RecEq rec x y) (stack : List NodeId) (s : NodeId) (anns : Anns) :
    mustValid rec stack x s anns = mustValid rec stack y s anns := by
  unfold mustValid; rw [h stack s]

theorem mustValidChild_congr {x y : GoVal} (h : RecEq rec x y) (stack : List NodeId) (s : NodeId) :
    mustValidChild rec stack x s = mustValidChild rec stack y s := by
  unfold mustValidChild; rw [h stack s]

/-! ## in-place applicators -/

theorem bRef_congr {x y : GoVal} (h : RecEq rec x y) (env : VEnv) (stack : List NodeId) (n : Node) (info : Option Info) :
    bRef env rec stack n info x = bRef env rec stack n info y := by
  unfold bRef; simp only [mustValid_congr h]

theorem bDynamicRef_congr {x y : GoVal} (h : RecEq rec x y) (env : VEnv) (stack : List NodeId) (n : Node)
    (info : Option Info) (anns : Anns) :
    bDynamicRef env rec stack n info x anns = bDynamicRef env rec stack n info y anns := by
  unfold bDynamicRef; simp only [mustValid_congr h]

theorem allOfLoop_congr {x y : GoVal} (h : RecEq rec x y) (stack : List NodeId) : ∀ (ss : List NodeId) (anns : Anns),
    allOfLoop rec stack x ss anns = allOfLoop rec stack y ss anns
  | [], _ => rfl
  | s :: ss, anns => by
    simp only [allOfLoop, mustValid_congr h]
    congr 1; funext a; exact allOfLoop_congr h stack ss a

theorem bAllOf_congr {x y : GoVal} (h : RecEq rec x y) (stack : List NodeId) (n : Node) (anns : Anns) :
    bAllOf rec stack n x anns = bAllOf rec stack n y anns := by
  unfold bAllOf; simp only [allOfLoop_congr h]

theorem anyOfLoop_congr {x y : GoVal} (h : RecEq rec x y) (stack : List NodeId) :
    ∀ (ss : List NodeId) (anns : Anns) (nerr : Nat),
    anyOfLoop rec stack x ss anns nerr = anyOfLoop rec stack y ss anns nerr
  | [], _, _ => rfl
  | s :: ss, anns, nerr => by
    simp only [anyOfLoop, tryValid_congr h]
    congr 1; funext p; exact anyOfLoop_congr h stack ss _ _

theorem bAnyOf_congr {x y : GoVal} (h : RecEq rec x y) (stack : List NodeId) (n : Node) (anns : Anns) :
    bAnyOf rec stack n x anns = bAnyOf rec stack n y anns := by
  unfold bAnyOf; simp only [anyOfLoop_congr h]

theorem oneOfLoop_congr {x y : GoVal} (h : RecEq rec x y) (stack : List NodeId) :
    ∀ (ss : List NodeId) (anns : Anns) (found : Bool),
    oneOfLoop rec stack x ss anns found = oneOfLoop rec stack y ss anns found
  | [], _, _ => rfl
  | s :: ss, anns, found => by
    simp only [oneOfLoop, tryValid_congr h]
    congr 1; funext p
    simp only [oneOfLoop_congr h stack ss]

theorem bOneOf_congr {x y : GoVal} (h : RecEq rec x y) (stack : List NodeId) (n : Node) (anns : Anns) :
    bOneOf rec stack n x anns = bOneOf rec stack n y anns := by
  unfold bOneOf; simp only [oneOfLoop_congr h]

theorem bNot_congr {x y : GoVal} (h : RecEq rec x y) (stack : List NodeId) (n : Node) (anns : Anns) :
    bNot rec stack n x anns = bNot rec stack n y anns := by
  unfold bNot; simp only [tryValid_congr h]

theorem bIf_congr {x y : GoVal} (h : RecEq rec x y) (stack : List NodeId) (n : Node) (anns : Anns) :
    bIf rec stack n x anns = bIf rec stack n y anns := by
  unfold bIf; simp only [tryValid_congr h, mustValid_congr h]

/-! ## arrays -/

theorem prefixLoop_congr (stack : List NodeId) : ∀ (ss : List NodeId) (xs ys : List GoVal), All₂ (RecEq rec) xs ys →
    prefixLoop rec stack ss xs = prefixLoop rec stack ss ys
  | [], _, _, _ => by simp only [prefixLoop]
  | _ :: _, [], [], _ => rfl
  | s :: ss, x :: xs, y :: ys, h => by
    simp only [prefixLoop, mustValidChild_congr h.1, prefixLoop_congr stack ss xs ys h.2]
  | _ :: _, [], _ :: _, h => h.elim
  | _ :: _, _ :: _, [], h => h.elim

theorem eachItem_congr (stack : List NodeId) (s : NodeId) : ∀ (xs ys : List GoVal), All₂ (RecEq rec) xs ys →
    eachItem rec stack s xs = eachItem rec stack s ys
  | [], [], _ => rfl
  | x :: xs, y :: ys, h => by
    simp only [eachItem, mustValidChild_congr h.1, eachItem_congr stack s xs ys h.2]
  | [], _ :: _, h => h.elim
  | _ :: _, [], h => h.elim

theorem containsLoop_congr (stack : List NodeId) (s : NodeId) : ∀ (xs ys : List GoVal), All₂ (RecEq rec) xs ys →
    ∀ (i : Nat) (anns : Anns) (cnt : Nat),
    containsLoop rec stack s xs i anns cnt = containsLoop rec stack s ys i anns cnt
  | [], [], _, _, _, _ => rfl
  | x :: xs, y :: ys, h, i, anns, cnt => by
    simp only [containsLoop, h.1 stack s, containsLoop_congr stack s xs ys h.2]
  | [], _ :: _, h, _, _, _ => h.elim
  | _ :: _, [], h, _, _, _ => h.elim

theorem unevalItemsLoop_congr (stack : List NodeId) (s : NodeId) (anns : Anns) :
    ∀ (xs ys : List GoVal), All₂ (RecEq rec) xs ys → ∀ (i : Nat),
    unevalItemsLoop rec stack s anns xs i = unevalItemsLoop rec stack s anns ys i
  | [], [], _, _ => rfl
  | x :: xs, y :: ys, h, i => by
    simp only [unevalItemsLoop, mustValidChild_congr h.1, unevalItemsLoop_congr stack s anns xs ys h.2]
  | [], _ :: _, h, _ => h.elim
  | _ :: _, [], h, _ => h.elim

theorem bItems_congr (env : VEnv) (stack : List NodeId) (n : Node) {xs ys : List GoVal} (h : All₂ (RecEq rec) xs ys)
    (anns : Anns) : bItems env rec stack n xs anns = bItems env rec stack n ys anns := by
  have hl : xs.length = ys.length := h.length
  have e1 : ∀ ss, prefixLoop rec stack ss xs = prefixLoop rec stack ss ys := fun ss => prefixLoop_congr stack ss xs ys h
  have e2 : ∀ s, eachItem rec stack s xs = eachItem rec stack s ys := fun s => eachItem_congr stack s xs ys h
  have e3 : ∀ s k, eachItem rec stack s (xs.drop k) = eachItem rec stack s (ys.drop k) :=
    fun s k => eachItem_congr stack s _ _ (h.drop k)
  unfold bItems
  simp only [e1, e2, e3, hl]

theorem bContains_congr (d : Draft) (stack : List NodeId) (n : Node) {xs ys : List GoVal} (h : All₂ (RecEq rec) xs ys)
    (anns : Anns) : bContains d rec stack n xs anns = bContains d rec stack n ys anns := by
  unfold bContains
  simp only [containsLoop_congr stack _ xs ys h]

theorem bArrayLimits_congr (d : Draft) (n : Node) {xs ys : List GoVal} (hl : xs.length = ys.length) (cnt : Nat) :
    bArrayLimits d n xs cnt = bArrayLimits d n ys cnt := by
  unfold bArrayLimits
  simp only [hl]

theorem bUnevaluatedItems_congr (d : Draft) (stack : List NodeId) (n : Node) {xs ys : List GoVal}
    (h : All₂ (RecEq rec) xs ys) (anns : Anns) :
    bUnevaluatedItems d rec stack n xs anns = bUnevaluatedItems d rec stack n ys anns := by
  unfold bUnevaluatedItems
  simp only [unevalItemsLoop_congr stack _ anns xs ys h]

theorem bArray_list_congr (env : VEnv) (stack : List NodeId) (n : Node) {xs ys : List GoVal} (h : All₂ (RecEq rec) xs ys)
    (hu : uniqueItems env.hash xs = uniqueItems env.hash ys) (anns : Anns) :
    bArray env rec stack n (.list xs) anns = bArray env rec stack n (.list ys) anns := by
  simp only [bArray, bItems_congr env stack n h, bContains_congr env.draft stack n h, bArrayLimits_congr env.draft n h.length,
    bUnevaluatedItems_congr env.draft stack n h, bUnique, hu]

/-! ## objects -/

theorem lookup_congr {kvs1 kvs2 : List (String × GoVal)} (k : String) : All₂ (KV rec) kvs1 kvs2 →
    (match Json.lookup k kvs1, Json.lookup k kvs2 with
     | none, none => True
     | some a, some b => RecEq rec a b
     | _, _ => False) := by
  induction kvs1 generalizing kvs2 with
  | nil => cases kvs2 with
    | nil => intro _; simp
    | cons _ _ => intro h; exact h.elim
  | cons p ps ih =>
    cases kvs2 with
    | nil => intro h; exact h.elim
    | cons q qs =>
      intro h
      obtain ⟨k1, v1⟩ := p
      obtain ⟨k2, v2⟩ := q
      have hk : k1 = k2 := h.1.1
      subst hk
      simp only [Json.lookup_cons]
      by_cases hk : k1 = k
      · simp only [hk, if_true]; exact h.1.2
      · simp only [hk, if_false]; exact ih h.2

theorem hasProperty_congr {kvs1 kvs2 : List (String × GoVal)} (h : All₂ (KV rec) kvs1 kvs2) :
    hasProperty kvs1 = hasProperty kvs2 := by
  funext p
  unfold hasProperty
  have := lookup_congr p h
  cases h1 : Json.lookup p kvs1 <;> cases h2 : Json.lookup p kvs2 <;> simp_all

theorem allPresent_congr {kvs1 kvs2 : List (String × GoVal)} (h : All₂ (KV rec) kvs1 kvs2) :
    allPresent kvs1 = allPresent kvs2 := by
  funext ps
  unfold allPresent
  rw [hasProperty_congr h]

theorem propertiesLoop_congr (stack : List NodeId) {kvs1 kvs2 : List (String × GoVal)} (h : All₂ (KV rec) kvs1 kvs2) :
    ∀ (props : List (String × NodeId)) (ev : List String),
    propertiesLoop rec stack kvs1 props ev = propertiesLoop rec stack kvs2 props ev
  | [], _ => rfl
  | (prop, sub) :: rest, ev => by
    simp only [propertiesLoop]
    have := lookup_congr prop h
    cases h1 : Json.lookup prop kvs1 <;> cases h2 : Json.lookup prop kvs2
    · exact propertiesLoop_congr stack h rest ev
    · rw [h1, h2] at this; exact this.elim
    · rw [h1, h2] at this; exact this.elim
    · rw [h1, h2] at this
      simp only [mustValidChild_congr this, propertiesLoop_congr stack h rest]

theorem patternsLoop_congr (env : VEnv) (stack : List NodeId) (prop : String) {x y : GoVal} (h : RecEq rec x y) :
    ∀ (pats : List (String × NodeId)) (hit : Bool),
    patternsLoop env rec stack prop x pats hit = patternsLoop env rec stack prop y pats hit
  | [], _ => rfl
  | (re, sub) :: rest, hit => by
    simp only [patternsLoop, mustValidChild_congr h, patternsLoop_congr env stack prop h rest]

theorem patternPropsLoop_congr (env : VEnv) (stack : List NodeId) (pats : List (String × NodeId)) :
    ∀ (kvs1 kvs2 : List (String × GoVal)), All₂ (KV rec) kvs1 kvs2 → ∀ (ev : List String),
    patternPropsLoop env rec stack pats kvs1 ev = patternPropsLoop env rec stack pats kvs2 ev
  | [], [], _, _ => rfl
  | (k1, v1) :: r1, (k2, v2) :: r2, h, ev => by
    have hk : k1 = k2 := h.1.1
    subst hk
    simp only [patternPropsLoop, patternsLoop_congr env stack k1 h.1.2, patternPropsLoop_congr env stack pats r1 r2 h.2]
  | [], _ :: _, h, _ => h.elim
  | _ :: _, [], h, _ => h.elim

theorem additionalLoop_congr (stack : List NodeId) (ap : NodeId) :
    ∀ (kvs1 kvs2 : List (String × GoVal)), All₂ (KV rec) kvs1 kvs2 → ∀ (ev : List String),
    additionalLoop rec stack ap kvs1 ev = additionalLoop rec stack ap kvs2 ev
  | [], [], _, _ => rfl
  | (k1, v1) :: r1, (k2, v2) :: r2, h, ev => by
    have hk : k1 = k2 := h.1.1
    subst hk
    simp only [additionalLoop, mustValidChild_congr h.1.2, additionalLoop_congr stack ap r1 r2 h.2]
  | [], _ :: _, h, _ => h.elim
  | _ :: _, [], h, _ => h.elim

theorem propertyNamesLoop_congr (stack : List NodeId) (pn : NodeId) :
    ∀ (kvs1 kvs2 : List (String × GoVal)), All₂ (KV rec) kvs1 kvs2 →
    propertyNamesLoop rec stack pn kvs1 = propertyNamesLoop rec stack pn kvs2
  | [], [], _ => rfl
  | (k1, v1) :: r1, (k2, v2) :: r2, h => by
    have hk : k1 = k2 := h.1.1
    subst hk
    simp only [propertyNamesLoop, propertyNamesLoop_congr stack pn r1 r2 h.2]
  | [], _ :: _, h => h.elim
  | _ :: _, [], h => h.elim

theorem unevalPropsLoop_congr (stack : List NodeId) (u : NodeId) (anns : Anns) :
    ∀ (kvs1 kvs2 : List (String × GoVal)), All₂ (KV rec) kvs1 kvs2 →
    unevalPropsLoop rec stack u anns kvs1 = unevalPropsLoop rec stack u anns kvs2
  | [], [], _ => rfl
  | (k1, v1) :: r1, (k2, v2) :: r2, h => by
    have hk : k1 = k2 := h.1.1
    subst hk
    simp only [unevalPropsLoop, mustValidChild_congr h.1.2, unevalPropsLoop_congr stack u anns r1 r2 h.2]
  | [], _ :: _, h => h.elim
  | _ :: _, [], h => h.elim

theorem depRequiredLoop_congr {kvs1 kvs2 : List (String × GoVal)} (h : All₂ (KV rec) kvs1 kvs2) :
    ∀ ds : List (String × Option (List String)), depRequiredLoop kvs1 ds = depRequiredLoop kvs2 ds
  | [] => rfl
  | (d, reqs) :: rest => by
    simp only [depRequiredLoop, hasProperty_congr h, allPresent_congr h, depRequiredLoop_congr h rest]

theorem depSchemasLoop_congr (stack : List NodeId) {x y : GoVal} (hxy : RecEq rec x y)
    {kvs1 kvs2 : List (String × GoVal)} (h : All₂ (KV rec) kvs1 kvs2) :
    ∀ (ds : List (String × NodeId)) (anns : Anns),
    depSchemasLoop rec stack x kvs1 ds anns = depSchemasLoop rec stack y kvs2 ds anns
  | [], _ => rfl
  | (d, s) :: rest, anns => by
    simp only [depSchemasLoop, hasProperty_congr h, mustValid_congr hxy, depSchemasLoop_congr stack hxy h rest]

theorem bProps_congr (env : VEnv) (stack : List NodeId) (n : Node) (info : Option Info)
    {kvs1 kvs2 : List (String × GoVal)} (h : All₂ (KV rec) kvs1 kvs2) :
    bProps env rec stack n info kvs1 = bProps env rec stack n info kvs2 := by
  unfold bProps
  simp only [propertiesLoop_congr stack h, patternPropsLoop_congr env stack _ kvs1 kvs2 h,
    additionalLoop_congr stack _ kvs1 kvs2 h]

theorem bObjectLimits_congr (n : Node) (info : Option Info) {kvs1 kvs2 : List (String × GoVal)}
    (h : All₂ (KV rec) kvs1 kvs2) : bObjectLimits n info kvs1 = bObjectLimits n info kvs2 := by
  unfold bObjectLimits
  simp only [h.length, allPresent_congr h]

theorem bDependencies_congr (env : VEnv) (stack : List NodeId) (n : Node) {x y : GoVal} (hxy : RecEq rec x y)
    {kvs1 kvs2 : List (String × GoVal)} (h : All₂ (KV rec) kvs1 kvs2) (anns : Anns) :
    bDependencies env rec stack n x kvs1 anns = bDependencies env rec stack n y kvs2 anns := by
  unfold bDependencies
  simp only [depRequiredLoop_congr h, depSchemasLoop_congr stack hxy h]

theorem bUnevaluatedProps_congr (d : Draft) (stack : List NodeId) (n : Node) {kvs1 kvs2 : List (String × GoVal)}
    (h : All₂ (KV rec) kvs1 kvs2) (anns : Anns) :
    bUnevaluatedProps d rec stack n kvs1 anns = bUnevaluatedProps d rec stack n kvs2 anns := by
  unfold bUnevaluatedProps
  simp only [unevalPropsLoop_congr stack _ anns kvs1 kvs2 h]

theorem bObject_map_congr (env : VEnv) (stack : List NodeId) (n : Node) (info : Option Info)
    {kvs1 kvs2 : List (String × GoVal)} (h : All₂ (KV rec) kvs1 kvs2)
    (hxy : RecEq rec (.map kvs1) (.map kvs2)) (anns : Anns) :
    bObject env rec stack n info (.map kvs1) anns = bObject env rec stack n info (.map kvs2) anns := by
  simp only [bObject, bProps_congr env stack n info h, propertyNamesLoop_congr stack _ kvs1 kvs2 h,
    bObjectLimits_congr n info h, bDependencies_congr env stack n hxy h, bUnevaluatedProps_congr env.draft stack n h]

end

end Inv
end JSV
