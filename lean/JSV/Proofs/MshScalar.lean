/-
  C05: the scalar fragment of the Marshal / Unmarshal round trip (generated chain of per-keyword steps).
-/
import JSV.Proofs.MshRound
namespace JSV
namespace Go

/-- the members a Schema without subschemas / any-typed / map-typed keywords can have, in emission order -/
def scalarMembers (N : Node) : List (String × Json) :=
  mTyp N ++ (mStr "$id" N.id ++ (mStr "$schema" N.schema ++ (mStr "$ref" N.ref ++ (mStr "$comment" N.comment ++ (mStr "$anchor" N.anchor ++ (mStr "$dynamicAnchor" N.dynamicAnchor ++ (mStr "$dynamicRef" N.dynamicRef ++ (mStr "title" N.title ++ (mStr "description" N.description ++ (mBool "deprecated" N.deprecated ++ (mBool "readOnly" N.readOnly ++ (mBool "writeOnly" N.writeOnly ++ (mNum "multipleOf" N.multipleOf ++ (mNum "minimum" N.minimum ++ (mNum "maximum" N.maximum ++ (mNum "exclusiveMinimum" N.exclusiveMinimum ++ (mNum "exclusiveMaximum" N.exclusiveMaximum ++ (mInt "minLength" N.minLength ++ (mInt "maxLength" N.maxLength ++ (mStr "pattern" N.pattern ++ (mInt "minItems" N.minItems ++ (mInt "maxItems" N.maxItems ++ (mBool "uniqueItems" N.uniqueItems ++ (mInt "minContains" N.minContains ++ (mInt "maxContains" N.maxContains ++ (mInt "minProperties" N.minProperties ++ (mInt "maxProperties" N.maxProperties ++ (mRequired N ++ (mStr "contentEncoding" N.contentEncoding ++ (mStr "contentMediaType" N.contentMediaType ++ (mStr "format" N.format ++ ([]))))))))))))))))))))))))))))))))

/-- all the other fields (but Extra) are zero -/
def ScalarOnly (n : Node) : Prop :=
  { n with defs := none, definitions := none, dependencySchemas := none, dependencyStrings := none, vocabulary := none, default := none, examples := none, enum := none, const := none, prefixItems := none, items := none, itemsArray := none, additionalItems := none, contains := none, unevaluatedItems := none, dependentRequired := none, properties := none, patternProperties := none, additionalProperties := none, propertyNames := none, unevaluatedProperties := none, allOf := none, anyOf := none, oneOf := none, not := none, if_ := none, then_ := none, else_ := none, dependentSchemas := none, contentSchema := none, propertyOrder := none } = n

/-- `required: []` is omitted by MarshalJSON (omitempty), so an empty non-nil slice comes back nil -/
def normReq (r : Option (List String)) : Option (List String) :=
  match r with
  | some (x :: xs) => some (x :: xs)
  | _ => none

/-- Extra comes back in ascending key order (a Go map has no order), and an empty non-nil map as nil -/
def normExtra (ex : Option (List (String × Json))) : Option (List (String × Json)) :=
  match ex with
  | some (e :: es) => some (sortKV (e :: es))
  | _ => none

/-- the `integer` helper accepts the value -/
def InInt32 (o : Option Int) : Prop := ∀ i, o = some i → (-2147483648 : Int) ≤ i ∧ i ≤ 2147483647

/-! ## generic steps of setFields over one optional member -/

theorem setFields_nil_append (urec : URec) (rest : List (String × Json)) (m : Node) (st : Store) :
    setFields urec ([] ++ rest) m st = setFields urec rest m st := rfl

theorem sf_str_gen {urec : URec} {K : String} {upd : Node → String → Node}
    (hset : ∀ m st s, setField urec m st K (.str s) = .ok (upd m s, st))
    (hK : canonKey K = K)
    (m : Node) (st : Store) (s : String) (rest : List (String × Json)) (hm : upd m "" = m) :
    setFields urec (mStr K s ++ rest) m st = setFields urec rest (upd m s) st := by
  unfold mStr
  split
  · next h =>
    have hs : s = "" := by simpa using h
    subst hs
    rw [hm]
    rfl
  · simp only [List.cons_append, List.nil_append, setFields, setMember_eq_setField urec _ _ _ hK, hset, Res.bind_ok]

theorem sf_bool_gen {urec : URec} {K : String} {upd : Node → Bool → Node}
    (hset : ∀ m st, setField urec m st K (.bool true) = .ok (upd m true, st))
    (hK : canonKey K = K)
    (m : Node) (st : Store) (b : Bool) (rest : List (String × Json)) (hm : upd m false = m) :
    setFields urec (mBool K b ++ rest) m st = setFields urec rest (upd m b) st := by
  cases b with
  | false => rw [hm]; rfl
  | true =>
    simp only [mBool_true, List.cons_append, List.nil_append, setFields, setMember_eq_setField urec _ _ _ hK, hset,
      Res.bind_ok]

theorem sf_num_gen {urec : URec} {K : String} {upd : Node → Option Rat → Node}
    (hset : ∀ m st q, setField urec m st K (.num q) = .ok (upd m (some q), st))
    (hK : canonKey K = K)
    (m : Node) (st : Store) (o : Option Rat) (rest : List (String × Json)) (hm : upd m none = m) :
    setFields urec (mNum K o ++ rest) m st = setFields urec rest (upd m o) st := by
  cases o with
  | none => rw [hm]; rfl
  | some q =>
    simp only [mNum_some, List.cons_append, List.nil_append, setFields, setMember_eq_setField urec _ _ _ hK, hset,
      Res.bind_ok]

theorem decInteger_int (i : Int) (h : (-2147483648 : Int) ≤ i ∧ i ≤ 2147483647) :
    decInteger (.num (i : Rat)) = .ok (some i) := by
  have hc : ((i : Rat).den == 1 && decide ((-2147483648 : Int) ≤ (i : Rat).num) &&
      decide ((i : Rat).num ≤ 2147483647)) = true := by
    rw [Rat.den_intCast, Rat.num_intCast]
    simp [h.1, h.2]
  unfold decInteger
  dsimp only
  rw [if_pos hc]
  rfl

theorem sf_int_gen {urec : URec} {K : String} {upd : Node → Option Int → Node}
    (hset : ∀ m st q, setField urec m st K (.num q) = Res.bind (decInteger (.num q)) fun i => .ok (upd m i, st))
    (hK : canonKey K = K)
    (m : Node) (st : Store) (o : Option Int) (rest : List (String × Json)) (hw : InInt32 o)
    (hm : upd m none = m) :
    setFields urec (mInt K o ++ rest) m st = setFields urec rest (upd m o) st := by
  cases o with
  | none => rw [hm]; rfl
  | some i =>
    simp only [mInt_some, List.cons_append, List.nil_append, setFields, setMember_eq_setField urec _ _ _ hK, hset,
      decInteger_int i (hw i rfl), Res.bind_ok]

theorem foldr_strs {F : Json → Res (List String) → Res (List String)}
    (hF : ∀ s acc, F (.str s) (.ok acc) = .ok (s :: acc)) :
    ∀ l : List String, List.foldr F (.ok []) (l.map Json.str) = .ok l
  | [] => rfl
  | a :: l => by
    rw [List.map_cons, List.foldr_cons, foldr_strs hF l, hF]

theorem decStrList_strs (l : List String) : decStrList (strs l) = .ok (some l) := by
  unfold decStrList strs
  dsimp only
  rw [foldr_strs (fun _ _ => rfl)]
  rfl

theorem sf_typ (urec : URec) (N m : Node) (st : Store) (rest : List (String × Json))
    (hT : (N.type != "" && N.types.isSome) = false) (h1 : { m with type := "" } = m) (h2 : { m with types := none } = m) :
    setFields urec (mTyp N ++ rest) m st = setFields urec rest { m with type := N.type, types := N.types } st := by
  unfold mTyp
  split
  · next h =>
    have hts : N.types = none := by
      rw [h] at hT
      cases ht : N.types with
      | none => rfl
      | some l => rw [ht] at hT; simp at hT
    rw [hts]
    rfl
  · next h =>
    have hty : N.type = "" := by simpa using h
    rw [hty]
    split
    · next ts hts =>
      rw [hts]
      show setFields urec (("type", strs ts) :: rest) m st = _
      have : setField urec m st "type" (strs ts) = Res.bind (decStrList (strs ts)) fun l => .ok ({ m with types := l, type := "" }, st) := rfl
      rw [setFields_cons_canon urec _ _ _ _ (by decide), this, decStrList_strs]
      rfl
    · next hts =>
      rw [hts]
      have e : ({ m with type := "", types := none } : Node) = { ({ m with types := none } : Node) with type := "" } := rfl
      rw [e, h2, h1]
      rfl

theorem sf_required (urec : URec) (N m : Node) (st : Store) (rest : List (String × Json))
    (hm : { m with required := none } = m) :
    setFields urec (mRequired N ++ rest) m st = setFields urec rest { m with required := normReq N.required } st := by
  unfold mRequired normReq
  split
  · next x xs hx =>
    rw [hx]
    show setFields urec (("required", strs (x :: xs)) :: rest) m st = _
    have : setField urec m st "required" (strs (x :: xs)) =
        Res.bind (decStrList (strs (x :: xs))) fun l => .ok ({ m with required := l }, st) := rfl
    rw [setFields_cons_canon urec _ _ _ _ (by decide), this, decStrList_strs]
    rfl
  · next hx =>
    have : (match N.required with | some (x :: xs) => some (x :: xs) | _ => none) = (none : Option (List String)) := by
      split
      · next x xs hx' => exact absurd hx' (hx x xs)
      · rfl
    rw [this, hm]
    rfl


/-- the scalar node with the given field values -/
def scalarNode (v_type : String) (v_id : String) (v_schema : String) (v_ref : String) (v_comment : String) (v_anchor : String) (v_dynamicAnchor : String) (v_dynamicRef : String) (v_title : String) (v_description : String) (v_deprecated : Bool) (v_readOnly : Bool) (v_writeOnly : Bool) (v_multipleOf : Option Rat) (v_minimum : Option Rat) (v_maximum : Option Rat) (v_exclusiveMinimum : Option Rat) (v_exclusiveMaximum : Option Rat) (v_minLength : Option Int) (v_maxLength : Option Int) (v_pattern : String) (v_minItems : Option Int) (v_maxItems : Option Int) (v_uniqueItems : Bool) (v_minContains : Option Int) (v_maxContains : Option Int) (v_minProperties : Option Int) (v_maxProperties : Option Int) (v_required : Option (List String)) (v_contentEncoding : String) (v_contentMediaType : String) (v_format : String) (v_types : Option (List String)) (v_extra : Option (List (String × Json))) : Node :=
  { type := v_type, id := v_id, schema := v_schema, ref := v_ref, comment := v_comment, anchor := v_anchor, dynamicAnchor := v_dynamicAnchor, dynamicRef := v_dynamicRef, title := v_title, description := v_description, deprecated := v_deprecated, readOnly := v_readOnly, writeOnly := v_writeOnly, multipleOf := v_multipleOf, minimum := v_minimum, maximum := v_maximum, exclusiveMinimum := v_exclusiveMinimum, exclusiveMaximum := v_exclusiveMaximum, minLength := v_minLength, maxLength := v_maxLength, pattern := v_pattern, minItems := v_minItems, maxItems := v_maxItems, uniqueItems := v_uniqueItems, minContains := v_minContains, maxContains := v_maxContains, minProperties := v_minProperties, maxProperties := v_maxProperties, required := v_required, contentEncoding := v_contentEncoding, contentMediaType := v_contentMediaType, format := v_format, types := v_types, extra := v_extra }

/-- … and what UnmarshalJSON rebuilds from its members -/
def scalarNode' (v_type : String) (v_id : String) (v_schema : String) (v_ref : String) (v_comment : String) (v_anchor : String) (v_dynamicAnchor : String) (v_dynamicRef : String) (v_title : String) (v_description : String) (v_deprecated : Bool) (v_readOnly : Bool) (v_writeOnly : Bool) (v_multipleOf : Option Rat) (v_minimum : Option Rat) (v_maximum : Option Rat) (v_exclusiveMinimum : Option Rat) (v_exclusiveMaximum : Option Rat) (v_minLength : Option Int) (v_maxLength : Option Int) (v_pattern : String) (v_minItems : Option Int) (v_maxItems : Option Int) (v_uniqueItems : Bool) (v_minContains : Option Int) (v_maxContains : Option Int) (v_minProperties : Option Int) (v_maxProperties : Option Int) (v_required : Option (List String)) (v_contentEncoding : String) (v_contentMediaType : String) (v_format : String) (v_types : Option (List String)) : Node :=
  { type := v_type, id := v_id, schema := v_schema, ref := v_ref, comment := v_comment, anchor := v_anchor, dynamicAnchor := v_dynamicAnchor, dynamicRef := v_dynamicRef, title := v_title, description := v_description, deprecated := v_deprecated, readOnly := v_readOnly, writeOnly := v_writeOnly, multipleOf := v_multipleOf, minimum := v_minimum, maximum := v_maximum, exclusiveMinimum := v_exclusiveMinimum, exclusiveMaximum := v_exclusiveMaximum, minLength := v_minLength, maxLength := v_maxLength, pattern := v_pattern, minItems := v_minItems, maxItems := v_maxItems, uniqueItems := v_uniqueItems, minContains := v_minContains, maxContains := v_maxContains, minProperties := v_minProperties, maxProperties := v_maxProperties, required := normReq v_required, contentEncoding := v_contentEncoding, contentMediaType := v_contentMediaType, format := v_format, types := v_types }

theorem setFields_scalarMembers (urec : URec) (st : Store) (v_type : String) (v_id : String) (v_schema : String) (v_ref : String) (v_comment : String) (v_anchor : String) (v_dynamicAnchor : String) (v_dynamicRef : String) (v_title : String) (v_description : String) (v_deprecated : Bool) (v_readOnly : Bool) (v_writeOnly : Bool) (v_multipleOf : Option Rat) (v_minimum : Option Rat) (v_maximum : Option Rat) (v_exclusiveMinimum : Option Rat) (v_exclusiveMaximum : Option Rat) (v_minLength : Option Int) (v_maxLength : Option Int) (v_pattern : String) (v_minItems : Option Int) (v_maxItems : Option Int) (v_uniqueItems : Bool) (v_minContains : Option Int) (v_maxContains : Option Int) (v_minProperties : Option Int) (v_maxProperties : Option Int) (v_required : Option (List String)) (v_contentEncoding : String) (v_contentMediaType : String) (v_format : String) (v_types : Option (List String)) (v_extra : Option (List (String × Json)))
    (hT : (v_type != "" && v_types.isSome) = false) (hw_minLength : InInt32 v_minLength) (hw_maxLength : InInt32 v_maxLength) (hw_minItems : InInt32 v_minItems) (hw_maxItems : InInt32 v_maxItems) (hw_minContains : InInt32 v_minContains) (hw_maxContains : InInt32 v_maxContains) (hw_minProperties : InInt32 v_minProperties) (hw_maxProperties : InInt32 v_maxProperties) :
    setFields urec (scalarMembers (scalarNode v_type v_id v_schema v_ref v_comment v_anchor v_dynamicAnchor v_dynamicRef v_title v_description v_deprecated v_readOnly v_writeOnly v_multipleOf v_minimum v_maximum v_exclusiveMinimum v_exclusiveMaximum v_minLength v_maxLength v_pattern v_minItems v_maxItems v_uniqueItems v_minContains v_maxContains v_minProperties v_maxProperties v_required v_contentEncoding v_contentMediaType v_format v_types v_extra)) emptyNode st = .ok (scalarNode' v_type v_id v_schema v_ref v_comment v_anchor v_dynamicAnchor v_dynamicRef v_title v_description v_deprecated v_readOnly v_writeOnly v_multipleOf v_minimum v_maximum v_exclusiveMinimum v_exclusiveMaximum v_minLength v_maxLength v_pattern v_minItems v_maxItems v_uniqueItems v_minContains v_maxContains v_minProperties v_maxProperties v_required v_contentEncoding v_contentMediaType v_format v_types, st) := by
  unfold scalarMembers
  refine (sf_typ urec (scalarNode v_type v_id v_schema v_ref v_comment v_anchor v_dynamicAnchor v_dynamicRef v_title v_description v_deprecated v_readOnly v_writeOnly v_multipleOf v_minimum v_maximum v_exclusiveMinimum v_exclusiveMaximum v_minLength v_maxLength v_pattern v_minItems v_maxItems v_uniqueItems v_minContains v_maxContains v_minProperties v_maxProperties v_required v_contentEncoding v_contentMediaType v_format v_types v_extra) emptyNode st _ hT rfl rfl).trans ?_
  dsimp only [scalarNode, emptyNode]
  refine (sf_str_gen (K := "$id") (upd := fun m s => { m with id := s }) (fun _ _ _ => rfl) (by decide) _ st v_id _ rfl).trans ?_
  dsimp only [scalarNode]
  refine (sf_str_gen (K := "$schema") (upd := fun m s => { m with schema := s }) (fun _ _ _ => rfl) (by decide) _ st v_schema _ rfl).trans ?_
  dsimp only [scalarNode]
  refine (sf_str_gen (K := "$ref") (upd := fun m s => { m with ref := s }) (fun _ _ _ => rfl) (by decide) _ st v_ref _ rfl).trans ?_
  dsimp only [scalarNode]
  refine (sf_str_gen (K := "$comment") (upd := fun m s => { m with comment := s }) (fun _ _ _ => rfl) (by decide) _ st v_comment _ rfl).trans ?_
  dsimp only [scalarNode]
  refine (sf_str_gen (K := "$anchor") (upd := fun m s => { m with anchor := s }) (fun _ _ _ => rfl) (by decide) _ st v_anchor _ rfl).trans ?_
  dsimp only [scalarNode]
  refine (sf_str_gen (K := "$dynamicAnchor") (upd := fun m s => { m with dynamicAnchor := s }) (fun _ _ _ => rfl) (by decide) _ st v_dynamicAnchor _ rfl).trans ?_
  dsimp only [scalarNode]
  refine (sf_str_gen (K := "$dynamicRef") (upd := fun m s => { m with dynamicRef := s }) (fun _ _ _ => rfl) (by decide) _ st v_dynamicRef _ rfl).trans ?_
  dsimp only [scalarNode]
  refine (sf_str_gen (K := "title") (upd := fun m s => { m with title := s }) (fun _ _ _ => rfl) (by decide) _ st v_title _ rfl).trans ?_
  dsimp only [scalarNode]
  refine (sf_str_gen (K := "description") (upd := fun m s => { m with description := s }) (fun _ _ _ => rfl) (by decide) _ st v_description _ rfl).trans ?_
  dsimp only [scalarNode]
  refine (sf_bool_gen (K := "deprecated") (upd := fun m s => { m with deprecated := s }) (fun _ _ => rfl) (by decide) _ st v_deprecated _ rfl).trans ?_
  dsimp only [scalarNode]
  refine (sf_bool_gen (K := "readOnly") (upd := fun m s => { m with readOnly := s }) (fun _ _ => rfl) (by decide) _ st v_readOnly _ rfl).trans ?_
  dsimp only [scalarNode]
  refine (sf_bool_gen (K := "writeOnly") (upd := fun m s => { m with writeOnly := s }) (fun _ _ => rfl) (by decide) _ st v_writeOnly _ rfl).trans ?_
  dsimp only [scalarNode]
  refine (sf_num_gen (K := "multipleOf") (upd := fun m s => { m with multipleOf := s }) (fun _ _ _ => rfl) (by decide) _ st v_multipleOf _ rfl).trans ?_
  dsimp only [scalarNode]
  refine (sf_num_gen (K := "minimum") (upd := fun m s => { m with minimum := s }) (fun _ _ _ => rfl) (by decide) _ st v_minimum _ rfl).trans ?_
  dsimp only [scalarNode]
  refine (sf_num_gen (K := "maximum") (upd := fun m s => { m with maximum := s }) (fun _ _ _ => rfl) (by decide) _ st v_maximum _ rfl).trans ?_
  dsimp only [scalarNode]
  refine (sf_num_gen (K := "exclusiveMinimum") (upd := fun m s => { m with exclusiveMinimum := s }) (fun _ _ _ => rfl) (by decide) _ st v_exclusiveMinimum _ rfl).trans ?_
  dsimp only [scalarNode]
  refine (sf_num_gen (K := "exclusiveMaximum") (upd := fun m s => { m with exclusiveMaximum := s }) (fun _ _ _ => rfl) (by decide) _ st v_exclusiveMaximum _ rfl).trans ?_
  dsimp only [scalarNode]
  refine (sf_int_gen (K := "minLength") (upd := fun m s => { m with minLength := s }) (fun _ _ _ => rfl) (by decide) _ st v_minLength _ hw_minLength rfl).trans ?_
  dsimp only [scalarNode]
  refine (sf_int_gen (K := "maxLength") (upd := fun m s => { m with maxLength := s }) (fun _ _ _ => rfl) (by decide) _ st v_maxLength _ hw_maxLength rfl).trans ?_
  dsimp only [scalarNode]
  refine (sf_str_gen (K := "pattern") (upd := fun m s => { m with pattern := s }) (fun _ _ _ => rfl) (by decide) _ st v_pattern _ rfl).trans ?_
  dsimp only [scalarNode]
  refine (sf_int_gen (K := "minItems") (upd := fun m s => { m with minItems := s }) (fun _ _ _ => rfl) (by decide) _ st v_minItems _ hw_minItems rfl).trans ?_
  dsimp only [scalarNode]
  refine (sf_int_gen (K := "maxItems") (upd := fun m s => { m with maxItems := s }) (fun _ _ _ => rfl) (by decide) _ st v_maxItems _ hw_maxItems rfl).trans ?_
  dsimp only [scalarNode]
  refine (sf_bool_gen (K := "uniqueItems") (upd := fun m s => { m with uniqueItems := s }) (fun _ _ => rfl) (by decide) _ st v_uniqueItems _ rfl).trans ?_
  dsimp only [scalarNode]
  refine (sf_int_gen (K := "minContains") (upd := fun m s => { m with minContains := s }) (fun _ _ _ => rfl) (by decide) _ st v_minContains _ hw_minContains rfl).trans ?_
  dsimp only [scalarNode]
  refine (sf_int_gen (K := "maxContains") (upd := fun m s => { m with maxContains := s }) (fun _ _ _ => rfl) (by decide) _ st v_maxContains _ hw_maxContains rfl).trans ?_
  dsimp only [scalarNode]
  refine (sf_int_gen (K := "minProperties") (upd := fun m s => { m with minProperties := s }) (fun _ _ _ => rfl) (by decide) _ st v_minProperties _ hw_minProperties rfl).trans ?_
  dsimp only [scalarNode]
  refine (sf_int_gen (K := "maxProperties") (upd := fun m s => { m with maxProperties := s }) (fun _ _ _ => rfl) (by decide) _ st v_maxProperties _ hw_maxProperties rfl).trans ?_
  dsimp only [scalarNode]
  refine (sf_required urec (scalarNode v_type v_id v_schema v_ref v_comment v_anchor v_dynamicAnchor v_dynamicRef v_title v_description v_deprecated v_readOnly v_writeOnly v_multipleOf v_minimum v_maximum v_exclusiveMinimum v_exclusiveMaximum v_minLength v_maxLength v_pattern v_minItems v_maxItems v_uniqueItems v_minContains v_maxContains v_minProperties v_maxProperties v_required v_contentEncoding v_contentMediaType v_format v_types v_extra) _ st _ rfl).trans ?_
  dsimp only [scalarNode]
  refine (sf_str_gen (K := "contentEncoding") (upd := fun m s => { m with contentEncoding := s }) (fun _ _ _ => rfl) (by decide) _ st v_contentEncoding _ rfl).trans ?_
  dsimp only [scalarNode]
  refine (sf_str_gen (K := "contentMediaType") (upd := fun m s => { m with contentMediaType := s }) (fun _ _ _ => rfl) (by decide) _ st v_contentMediaType _ rfl).trans ?_
  dsimp only [scalarNode]
  refine (sf_str_gen (K := "format") (upd := fun m s => { m with format := s }) (fun _ _ _ => rfl) (by decide) _ st v_format _ rfl).trans ?_
  dsimp only [scalarNode]
  rfl

theorem setFields_append (urec : URec) : ∀ (l₁ l₂ : List (String × Json)) (m : Node) (st : Store),
    setFields urec (l₁ ++ l₂) m st = Res.bind (setFields urec l₁ m st) fun r => setFields urec l₂ r.1 r.2
  | [], _, _, _ => rfl
  | (k, v) :: l₁, l₂, m, st => by
    simp only [List.cons_append, setFields, Res.bind_assoc]
    exact Res.bind_congr fun r => setFields_append urec l₁ l₂ r.1 r.2

theorem mExtra_eq (N : Node) (hs : ∀ e, e ∈ N.extra.getD [] → sortJson e.2 = e.2) :
    mExtra N = sortKV (N.extra.getD []) := by
  unfold mExtra
  rw [map_sortJson_id _ hs]

theorem foldl_addExtra_norm (m : Node) (hm : { m with extra := none } = m) (ex : Option (List (String × Json))) :
    (sortKV (ex.getD [])).foldl addExtra m = { m with extra := normExtra ex } := by
  cases ex with
  | none => exact hm.symm
  | some l =>
    cases l with
    | nil => exact hm.symm
    | cons e es =>
      have hne : sortKV (e :: es) ≠ [] := by
        intro h0
        have hp := sortKV_perm (e :: es)
        rw [h0] at hp
        exact absurd hp.symm.eq_nil (by simp)
      show (sortKV (e :: es)).foldl addExtra m = { m with extra := some (sortKV (e :: es)) }
      rw [foldl_addExtra _ _ hne, ← hm]
      rfl

theorem marshalStep_scalar (st : Store) (mrec : MRec) (id : NodeId) (v_type : String) (v_id : String) (v_schema : String) (v_ref : String) (v_comment : String) (v_anchor : String) (v_dynamicAnchor : String) (v_dynamicRef : String) (v_title : String) (v_description : String) (v_deprecated : Bool) (v_readOnly : Bool) (v_writeOnly : Bool) (v_multipleOf : Option Rat) (v_minimum : Option Rat) (v_maximum : Option Rat) (v_exclusiveMinimum : Option Rat) (v_exclusiveMaximum : Option Rat) (v_minLength : Option Int) (v_maxLength : Option Int) (v_pattern : String) (v_minItems : Option Int) (v_maxItems : Option Int) (v_uniqueItems : Bool) (v_minContains : Option Int) (v_maxContains : Option Int) (v_minProperties : Option Int) (v_maxProperties : Option Int) (v_required : Option (List String)) (v_contentEncoding : String) (v_contentMediaType : String) (v_format : String) (v_types : Option (List String)) (v_extra : Option (List (String × Json)))
    (hT : (v_type != "" && v_types.isSome) = false)
    (hx : ∀ e, e ∈ v_extra.getD [] → e.1 ∉ structNames)
    (hn : st.get? id = some (scalarNode v_type v_id v_schema v_ref v_comment v_anchor v_dynamicAnchor v_dynamicRef v_title v_description v_deprecated v_readOnly v_writeOnly v_multipleOf v_minimum v_maximum v_exclusiveMinimum v_exclusiveMaximum v_minLength v_maxLength v_pattern v_minItems v_maxItems v_uniqueItems v_minContains v_maxContains v_minProperties v_maxProperties v_required v_contentEncoding v_contentMediaType v_format v_types v_extra)) :
    marshalStep st mrec id = mFinish (scalarMembers (scalarNode v_type v_id v_schema v_ref v_comment v_anchor v_dynamicAnchor v_dynamicRef v_title v_description v_deprecated v_readOnly v_writeOnly v_multipleOf v_minimum v_maximum v_exclusiveMinimum v_exclusiveMaximum v_minLength v_maxLength v_pattern v_minItems v_maxItems v_uniqueItems v_minContains v_maxContains v_minProperties v_maxProperties v_required v_contentEncoding v_contentMediaType v_format v_types v_extra) ++ mExtra (scalarNode v_type v_id v_schema v_ref v_comment v_anchor v_dynamicAnchor v_dynamicRef v_title v_description v_deprecated v_readOnly v_writeOnly v_multipleOf v_minimum v_maximum v_exclusiveMinimum v_exclusiveMaximum v_minLength v_maxLength v_pattern v_minItems v_maxItems v_uniqueItems v_minContains v_maxContains v_minProperties v_maxProperties v_required v_contentEncoding v_contentMediaType v_format v_types v_extra)) := by
  rw [marshalStep_eq, hn]
  have hany : (((v_extra.getD []).any fun e => structNames.contains e.1) = true) → False := by
    intro h
    rw [List.any_eq_true] at h
    obtain ⟨e, he, hc⟩ := h
    exact hx e he (by simpa using hc)
  dsimp only [scalarNode]
  rw [if_neg (by simp [marshalChecksOk, basicChecksOk, hasDup, hT]), if_neg hany]
  unfold marshalNode marshalParts
  dsimp only
  simp only [mOne_none, mMany_none, mManyNN_none, mKeyed_none, mPropsField_none, mDeps_none,
    mItemsField_none, Res.bind_ok]
  refine congrArg mFinish ?_
  unfold mMembers scalarMembers
  dsimp only
  simp only [mVocab, mDepReq, mem_none, mNonEmptyList_none, Option.map_none,
    List.append_nil, List.append_assoc]

theorem scalar_roundtrip (st : Store) (mrec : MRec) (urec : URec) (id : NodeId) (st2 : Store) (j : Json)
    (v_type : String) (v_id : String) (v_schema : String) (v_ref : String) (v_comment : String) (v_anchor : String) (v_dynamicAnchor : String) (v_dynamicRef : String) (v_title : String) (v_description : String) (v_deprecated : Bool) (v_readOnly : Bool) (v_writeOnly : Bool) (v_multipleOf : Option Rat) (v_minimum : Option Rat) (v_maximum : Option Rat) (v_exclusiveMinimum : Option Rat) (v_exclusiveMaximum : Option Rat) (v_minLength : Option Int) (v_maxLength : Option Int) (v_pattern : String) (v_minItems : Option Int) (v_maxItems : Option Int) (v_uniqueItems : Bool) (v_minContains : Option Int) (v_maxContains : Option Int) (v_minProperties : Option Int) (v_maxProperties : Option Int) (v_required : Option (List String)) (v_contentEncoding : String) (v_contentMediaType : String) (v_format : String) (v_types : Option (List String)) (v_extra : Option (List (String × Json)))
    (hT : (v_type != "" && v_types.isSome) = false) (hw_minLength : InInt32 v_minLength) (hw_maxLength : InInt32 v_maxLength) (hw_minItems : InInt32 v_minItems) (hw_maxItems : InInt32 v_maxItems) (hw_minContains : InInt32 v_minContains) (hw_maxContains : InInt32 v_maxContains) (hw_minProperties : InInt32 v_minProperties) (hw_maxProperties : InInt32 v_maxProperties)
    (hk : ∀ e, e ∈ v_extra.getD [] → e.1 ∉ knownKeys)
    (hf : ∀ e, e ∈ v_extra.getD [] → isFoldedKey e.1 = false)
    (hsj : ∀ e, e ∈ v_extra.getD [] → sortJson e.2 = e.2)
    (hn : st.get? id = some (scalarNode v_type v_id v_schema v_ref v_comment v_anchor v_dynamicAnchor v_dynamicRef v_title v_description v_deprecated v_readOnly v_writeOnly v_multipleOf v_minimum v_maximum v_exclusiveMinimum v_exclusiveMaximum v_minLength v_maxLength v_pattern v_minItems v_maxItems v_uniqueItems v_minContains v_maxContains v_minProperties v_maxProperties v_required v_contentEncoding v_contentMediaType v_format v_types v_extra))
    (hj : marshalStep st mrec id = .ok j) :
    unmarshalStep urec j st2 = .ok (st2.alloc { scalarNode' v_type v_id v_schema v_ref v_comment v_anchor v_dynamicAnchor v_dynamicRef v_title v_description v_deprecated v_readOnly v_writeOnly v_multipleOf v_minimum v_maximum v_exclusiveMinimum v_exclusiveMaximum v_minLength v_maxLength v_pattern v_minItems v_maxItems v_uniqueItems v_minContains v_maxContains v_minProperties v_maxProperties v_required v_contentEncoding v_contentMediaType v_format v_types with extra := normExtra v_extra }) := by
  rw [marshalStep_scalar st mrec id v_type v_id v_schema v_ref v_comment v_anchor v_dynamicAnchor v_dynamicRef v_title v_description v_deprecated v_readOnly v_writeOnly v_multipleOf v_minimum v_maximum v_exclusiveMinimum v_exclusiveMaximum v_minLength v_maxLength v_pattern v_minItems v_maxItems v_uniqueItems v_minContains v_maxContains v_minProperties v_maxProperties v_required v_contentEncoding v_contentMediaType v_format v_types v_extra hT
    (fun e he hc => hk e he ((structNames_iff_knownKeys _).1 hc)) hn,
    mExtra_eq _ hsj] at hj
  have chain : ∀ urec : URec, setFields urec (scalarMembers (scalarNode v_type v_id v_schema v_ref v_comment v_anchor v_dynamicAnchor v_dynamicRef v_title v_description v_deprecated v_readOnly v_writeOnly v_multipleOf v_minimum v_maximum v_exclusiveMinimum v_exclusiveMaximum v_minLength v_maxLength v_pattern v_minItems v_maxItems v_uniqueItems v_minContains v_maxContains v_minProperties v_maxProperties v_required v_contentEncoding v_contentMediaType v_format v_types v_extra) ++
      sortKV ((scalarNode v_type v_id v_schema v_ref v_comment v_anchor v_dynamicAnchor v_dynamicRef v_title v_description v_deprecated v_readOnly v_writeOnly v_multipleOf v_minimum v_maximum v_exclusiveMinimum v_exclusiveMaximum v_minLength v_maxLength v_pattern v_minItems v_maxItems v_uniqueItems v_minContains v_maxContains v_minProperties v_maxProperties v_required v_contentEncoding v_contentMediaType v_format v_types v_extra).extra.getD [])) emptyNode st2 =
      .ok ({ scalarNode' v_type v_id v_schema v_ref v_comment v_anchor v_dynamicAnchor v_dynamicRef v_title v_description v_deprecated v_readOnly v_writeOnly v_multipleOf v_minimum v_maximum v_exclusiveMinimum v_exclusiveMaximum v_minLength v_maxLength v_pattern v_minItems v_maxItems v_uniqueItems v_minContains v_maxContains v_minProperties v_maxProperties v_required v_contentEncoding v_contentMediaType v_format v_types with extra := normExtra v_extra }, st2) := by
    intro urec
    rw [setFields_append, setFields_scalarMembers urec st2 v_type v_id v_schema v_ref v_comment v_anchor v_dynamicAnchor v_dynamicRef v_title v_description v_deprecated v_readOnly v_writeOnly v_multipleOf v_minimum v_maximum v_exclusiveMinimum v_exclusiveMaximum v_minLength v_maxLength v_pattern v_minItems v_maxItems v_uniqueItems v_minContains v_maxContains v_minProperties v_maxProperties v_required v_contentEncoding v_contentMediaType v_format v_types v_extra hT hw_minLength hw_maxLength hw_minItems hw_maxItems hw_minContains hw_maxContains hw_minProperties hw_maxProperties, Res.bind_ok]
    show setFields urec (sortKV (v_extra.getD [])) (scalarNode' v_type v_id v_schema v_ref v_comment v_anchor v_dynamicAnchor v_dynamicRef v_title v_description v_deprecated v_readOnly v_writeOnly v_multipleOf v_minimum v_maximum v_exclusiveMinimum v_exclusiveMaximum v_minLength v_maxLength v_pattern v_minItems v_maxItems v_uniqueItems v_minContains v_maxContains v_minProperties v_maxProperties v_required v_contentEncoding v_contentMediaType v_format v_types) st2 = _
    rw [setFields_unknown urec _ _ _ (fun e he => hk e ((sortKV_perm _).mem_iff.1 he))
        (fun e he => hf e ((sortKV_perm _).mem_iff.1 he)),
      foldl_addExtra_norm _ rfl]
  generalize scalarMembers (scalarNode v_type v_id v_schema v_ref v_comment v_anchor v_dynamicAnchor v_dynamicRef v_title v_description v_deprecated v_readOnly v_writeOnly v_multipleOf v_minimum v_maximum v_exclusiveMinimum v_exclusiveMaximum v_minLength v_maxLength v_pattern v_minItems v_maxItems v_uniqueItems v_minContains v_maxContains v_minProperties v_maxProperties v_required v_contentEncoding v_contentMediaType v_format v_types v_extra) ++ sortKV ((scalarNode v_type v_id v_schema v_ref v_comment v_anchor v_dynamicAnchor v_dynamicRef v_title v_description v_deprecated v_readOnly v_writeOnly v_multipleOf v_minimum v_maximum v_exclusiveMinimum v_exclusiveMaximum v_minLength v_maxLength v_pattern v_minItems v_maxItems v_uniqueItems v_minContains v_maxContains v_minProperties v_maxProperties v_required v_contentEncoding v_contentMediaType v_format v_types v_extra).extra.getD []) = M at hj chain
  unfold mFinish at hj
  split at hj
  · cases hj
    have h0 := chain urec
    simp only [setFields] at h0
    have h1 := Res.ok.inj h0
    rw [← (Prod.mk.inj h1).1]
    rfl
  · have h0 := chain (fun _ _ => .err)
    exact absurd h0 (by intro h; cases h)
  · cases hj
    simp only [unmarshalStep, chain urec, Res.bind_ok]


theorem scalarNode_of_scalarOnly {n : Node} (hs : ScalarOnly n) : scalarNode n.type n.id n.schema n.ref n.comment n.anchor n.dynamicAnchor n.dynamicRef n.title n.description n.deprecated n.readOnly n.writeOnly n.multipleOf n.minimum n.maximum n.exclusiveMinimum n.exclusiveMaximum n.minLength n.maxLength n.pattern n.minItems n.maxItems n.uniqueItems n.minContains n.maxContains n.minProperties n.maxProperties n.required n.contentEncoding n.contentMediaType n.format n.types n.extra = n := hs

theorem scalarNode'_eq (n : Node) (hs : ScalarOnly n) :
    ({ scalarNode' n.type n.id n.schema n.ref n.comment n.anchor n.dynamicAnchor n.dynamicRef n.title n.description n.deprecated n.readOnly n.writeOnly n.multipleOf n.minimum n.maximum n.exclusiveMinimum n.exclusiveMaximum n.minLength n.maxLength n.pattern n.minItems n.maxItems n.uniqueItems n.minContains n.maxContains n.minProperties n.maxProperties n.required n.contentEncoding n.contentMediaType n.format n.types with extra := normExtra n.extra } : Node) =
      { n with required := normReq n.required, extra := normExtra n.extra } := by
  have e := scalarNode_of_scalarOnly hs
  rw [← e]
  rfl

theorem scalarOnly_roundtrip (st : Store) (mrec : MRec) (urec : URec) (id : NodeId) (st2 : Store) (j : Json)
    (n : Node) (hs : ScalarOnly n) (hT : (n.type != "" && n.types.isSome) = false)
    (hw_minLength : InInt32 n.minLength) (hw_maxLength : InInt32 n.maxLength) (hw_minItems : InInt32 n.minItems) (hw_maxItems : InInt32 n.maxItems) (hw_minContains : InInt32 n.minContains) (hw_maxContains : InInt32 n.maxContains) (hw_minProperties : InInt32 n.minProperties) (hw_maxProperties : InInt32 n.maxProperties)
    (hk : ∀ e, e ∈ n.extra.getD [] → e.1 ∉ knownKeys)
    (hf : ∀ e, e ∈ n.extra.getD [] → isFoldedKey e.1 = false)
    (hsj : ∀ e, e ∈ n.extra.getD [] → sortJson e.2 = e.2)
    (hn : st.get? id = some n) (hj : marshalStep st mrec id = .ok j) :
    unmarshalStep urec j st2 =
      .ok (st2.alloc { n with required := normReq n.required, extra := normExtra n.extra }) := by
  rw [← scalarNode'_eq n hs]
  refine scalar_roundtrip st mrec urec id st2 j n.type n.id n.schema n.ref n.comment n.anchor n.dynamicAnchor n.dynamicRef n.title n.description n.deprecated n.readOnly n.writeOnly n.multipleOf n.minimum n.maximum n.exclusiveMinimum n.exclusiveMaximum n.minLength n.maxLength n.pattern n.minItems n.maxItems n.uniqueItems n.minContains n.maxContains n.minProperties n.maxProperties n.required n.contentEncoding n.contentMediaType n.format n.types n.extra hT hw_minLength hw_maxLength hw_minItems hw_maxItems hw_minContains hw_maxContains hw_minProperties hw_maxProperties hk hf hsj ?_ hj
  rw [scalarNode_of_scalarOnly hs]
  exact hn

end Go
end JSV
