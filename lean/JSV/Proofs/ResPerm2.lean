/-
  Helper lemmas for C14 (Resolve), continued: the pointer walk, Schema.all and the resolver proper on a store whose
  maps are listed in another order.  checkStructure registers the schemas in another order (ResPerm.lean), so the
  resolver states are related (`SRel`: the same tables as maps), not equal.
-/
import JSV.Proofs.ResPerm
import JSV.Proofs.ResDesig
namespace JSV
namespace Go
namespace RPerm
open Inv RInv

/-! ### two computations that end the same way -/

def ResRel {α β : Type} (R : α → β → Prop) : Res α → Res β → Prop
  | .ok a, .ok b => R a b
  | .err, .err => True
  | .panic, .panic => True
  | .fuel, .fuel => True
  | _, _ => False

theorem ResRel.bind {α β γ δ : Type} {R : α → β → Prop} {Q : γ → δ → Prop} {x : Res α} {y : Res β}
    {f : α → Res γ} {g : β → Res δ} (h : ResRel R x y) (hf : ∀ a b, R a b → ResRel Q (f a) (g b)) :
    ResRel Q (x.bind f) (y.bind g) := by
  cases x <;> cases y <;> simp only [ResRel] at h <;> first | exact h.elim | trivial | exact hf _ _ h

theorem ResRel.refl {α : Type} {R : α → α → Prop} (hR : ∀ a, R a a) (x : Res α) : ResRel R x x := by
  cases x <;> simp only [ResRel]; exact hR _

theorem ResRel.eq {α : Type} {x y : Res α} (h : ResRel (· = ·) x y) : y = x := by
  cases x <;> cases y <;> simp only [ResRel] at h <;> first | exact h.elim | rfl | (rw [h])

theorem ResRel.mono {α β : Type} {R Q : α → β → Prop} {x : Res α} {y : Res β} (h : ResRel R x y)
    (hRQ : ∀ a b, R a b → Q a b) : ResRel Q x y := by
  cases x <;> cases y <;> simp only [ResRel] at h ⊢ <;> first | exact h | exact hRQ _ _ h

/-! ### the pointer walk -/

def FRel : ChildField → ChildField → Prop
  | .one j c, .one j' c' => j' = j ∧ c' = c
  | .many j c, .many j' c' => j' = j ∧ c' = c
  | .keyed j c, .keyed j' c' => j' = j ∧ optPerm c c' ∧ ∀ kvs, c = some kvs → (kvs.map (·.1)).Nodup
  | _, _ => False

theorem childFields_rel {a b : Node} (h : permNode a b) (hn : KeysNodup a) :
    All₂ FRel a.childFields b.childFields := by
  obtain ⟨p, pp, d, df, ds, dst, dr, dsc, h1, h2, h3, h4, h5, h6, h7, h8, rfl⟩ := h
  unfold Node.childFields
  simp only [All₂, FRel]
  repeat' constructor
  all_goals first
    | exact h1 | exact h2 | exact h3 | exact h4 | exact h5 | exact h8
    | (intro kvs e; apply hn "properties" kvs; rw [← e]; simp [Node.childFields]; done)
    | (intro kvs e; apply hn "patternProperties" kvs; rw [← e]; simp [Node.childFields]; done)
    | (intro kvs e; apply hn "$defs" kvs; rw [← e]; simp [Node.childFields]; done)
    | (intro kvs e; apply hn "definitions" kvs; rw [← e]; simp [Node.childFields]; done)
    | (intro kvs e; apply hn "dependencies" kvs; rw [← e]; simp [Node.childFields]; done)
    | (intro kvs e; apply hn "dependentSchemas" kvs; rw [← e]; simp [Node.childFields]; done)

def CurRel : Pointer.Cursor → Pointer.Cursor → Prop
  | .node a, .node b => b = a
  | .nodes a, .nodes b => b = a
  | .nodeMap a, .nodeMap b => a.Perm b ∧ (a.map (·.1)).Nodup
  | .dead, .dead => True
  | _, _ => False

def OptRel {α β : Type} (R : α → β → Prop) : Option α → Option β → Prop
  | some a, some b => R a b
  | none, none => True
  | _, _ => False

theorem find?_rel {α : Type} {R : α → α → Prop} (p : α → Bool) (hp : ∀ a b, R a b → p b = p a) :
    ∀ (l l' : List α), All₂ R l l' → OptRel R (l.find? p) (l'.find? p)
  | [], [], _ => trivial
  | [], _ :: _, h => h.elim
  | _ :: _, [], h => h.elim
  | a :: l, b :: l', h => by
    rw [List.find?_cons, List.find?_cons, hp a b h.1]
    cases p a
    · exact find?_rel p hp l l' h.2
    · exact h.1

theorem optPerm_getD_nodup {a b : Option (List (String × NodeId))} (h : optPerm a b)
    (hn : ∀ kvs, a = some kvs → (kvs.map (·.1)).Nodup) :
    (a.getD []).Perm (b.getD []) ∧ ((a.getD []).map (·.1)).Nodup := by
  refine ⟨h.getD, ?_⟩
  cases a with
  | none => simp
  | some x => exact hn x rfl

theorem lookupField_rel {a b : Node} (h : permNode a b) (hn : KeysNodup a) (name : String) :
    OptRel CurRel (Pointer.lookupField a name) (Pointer.lookupField b name) := by
  have hf := childFields_rel h hn
  have hfind := find?_rel (R := FRel) (fun f => match f with
      | .one j _ => j == name | .many j _ => j == name | .keyed j _ => j == name)
    (by
      intro x y hxy
      cases x <;> cases y <;> simp only [FRel] at hxy <;> first | exact hxy.elim | (rw [hxy.1])) _ _ hf
  obtain ⟨p, pp, d, df, ds, dst, dr, dsc, h1, h2, h3, h4, h5, h6, h7, h8, rfl⟩ := h
  unfold Pointer.lookupField
  by_cases c1 : (name == "type") = true
  · simp only [c1, if_true]; trivial
  · simp only [c1]
    by_cases c2 : (name == "items") = true
    · simp only [c2, if_true]
      cases a.items with
      | some c => exact rfl
      | none => exact rfl
    · simp only [c2]
      by_cases c3 : (name == "dependencies") = true
      · simp only [c3, if_true]
        exact optPerm_getD_nodup h5 (fun kvs e => hn "dependencies" kvs (by rw [← e]; simp [Node.childFields]))
      · simp only [c3]
        generalize List.find? _ a.childFields = r at hfind
        generalize List.find? _ (Node.childFields _) = r' at hfind
        cases r with
        | none =>
          cases r' with
          | none =>
            simp only
            generalize (Generated.schemaFields.any fun f => f.2.2.1 == name) = bb
            cases bb <;> exact True.intro
          | some y => exact hfind.elim
        | some x =>
          cases r' with
          | none => exact hfind.elim
          | some y =>
            cases x <;> cases y <;> simp only [OptRel, FRel] at hfind <;> try exact hfind.elim
            · rename_i j c j' c'
              obtain ⟨_, rfl⟩ := hfind
              cases c' <;> exact rfl
            · rename_i j c j' c'
              obtain ⟨_, rfl⟩ := hfind
              exact rfl
            · rename_i j c j' c'
              exact optPerm_getD_nodup hfind.2.1 hfind.2.2

theorem step_rel (st st' : Store) (hst : permStore st st') (hn : StoreKeysNodup st) (strict : Bool)
    (c c' : Pointer.Cursor) (hc : CurRel c c') (seg : String) :
    ResRel CurRel (Pointer.step st strict c seg) (Pointer.step st' strict c' seg) := by
  cases c with
  | node x =>
    cases c' with
    | node x' =>
      have e : x' = x := hc
      subst e
      unfold Pointer.step
      simp only
      cases h1 : st.get? x' with
      | none =>
        have := hst.2 x'
        rw [h1] at this
        cases h2 : st'.get? x' with
        | none => exact True.intro
        | some n' => rw [h2] at this; exact this.elim
      | some n =>
        obtain ⟨n', h2, hp⟩ := permStore_get' hst h1
        rw [h2]
        simp only
        have := lookupField_rel hp (hn x' n h1) seg
        cases e1 : Pointer.lookupField n seg <;> cases e2 : Pointer.lookupField n' seg <;> rw [e1, e2] at this <;>
          first | exact this.elim | exact True.intro | exact this
    | nodes _ => exact hc.elim
    | nodeMap _ => exact hc.elim
    | dead => exact hc.elim
  | nodes xs =>
    cases c' with
    | nodes xs' =>
      have e : xs' = xs := hc
      subst e
      unfold Pointer.step
      simp only
      cases Pointer.arrayIndex strict seg xs'.length with
      | none => exact True.intro
      | some i =>
        simp only
        cases xs'[i]? with
        | none => exact True.intro
        | some c => exact rfl
    | node _ => exact hc.elim
    | nodeMap _ => exact hc.elim
    | dead => exact hc.elim
  | nodeMap kvs =>
    cases c' with
    | nodeMap kvs' =>
      have hc' : kvs.Perm kvs' ∧ (kvs.map (·.1)).Nodup := hc
      unfold Pointer.step
      simp only
      rw [← lookup_eq_of_perm hc'.1 hc'.2 seg]
      cases Json.lookup seg kvs with
      | none => exact True.intro
      | some c => exact rfl
    | node _ => exact hc.elim
    | nodes _ => exact hc.elim
    | dead => exact hc.elim
  | dead =>
    cases c' with
    | dead => exact True.intro
    | node _ => exact hc.elim
    | nodes _ => exact hc.elim
    | nodeMap _ => exact hc.elim

theorem walk_rel (st st' : Store) (hst : permStore st st') (hn : StoreKeysNodup st) (strict : Bool) :
    ∀ (segs : List String) (c c' : Pointer.Cursor), CurRel c c' →
      ResRel CurRel (Pointer.walk st strict c segs) (Pointer.walk st' strict c' segs) := by
  intro segs
  induction segs with
  | nil => intro c c' hc; exact hc
  | cons seg rest ih =>
    intro c c' hc
    unfold Pointer.walk
    exact (step_rel st st' hst hn strict c c' hc seg).bind (fun a b hab => ih a b hab)

theorem permStore_isNone {st st' : Store} (hst : permStore st st') (id : NodeId) :
    (st'.get? id).isNone = (st.get? id).isNone := by
  have := hst.2 id
  cases h1 : st.get? id <;> cases h2 : st'.get? id <;> rw [h1, h2] at this <;> first | exact this.elim | rfl

/-- dereferenceJSONPointer does not see the order of the maps -/
theorem dereference_perm (st st' : Store) (hst : permStore st st') (hn : StoreKeysNodup st) (strict nie : Bool)
    (root : NodeId) (ptr : String) :
    Pointer.dereference st' strict nie root ptr = Pointer.dereference st strict nie root ptr := by
  apply ResRel.eq
  unfold Pointer.dereference
  refine (ResRel.refl (R := (· = ·)) (fun _ => rfl) (Pointer.parse ptr)).bind ?_
  intro segs _ e
  subst e
  refine (walk_rel st st' hst hn strict segs (.node root) (.node root) rfl).bind ?_
  intro c c' hc
  cases c with
  | node x =>
    cases c' with
    | node x' =>
      have e : x' = x := hc
      subst e
      simp only
      rw [permStore_isNone hst]
      split
      · exact True.intro
      · exact rfl
    | nodes _ => exact hc.elim
    | nodeMap _ => exact hc.elim
    | dead => exact hc.elim
  | nodes xs =>
    cases c' with
    | nodes _ => exact True.intro
    | node _ => exact hc.elim
    | nodeMap _ => exact hc.elim
    | dead => exact hc.elim
  | nodeMap kvs =>
    cases c' with
    | nodeMap _ => exact True.intro
    | node _ => exact hc.elim
    | nodes _ => exact hc.elim
    | dead => exact hc.elim
  | dead =>
    cases c' with
    | dead => exact True.intro
    | node _ => exact hc.elim
    | nodes _ => exact hc.elim
    | nodeMap _ => exact hc.elim

/-! ### Schema.all -/

theorem allNodes_perm (st st' : Store) (hst : permStore st st') (hn : StoreKeysNodup st) :
    ∀ fuel work, allNodes st' fuel work = allNodes st fuel work := by
  intro fuel
  induction fuel with
  | zero => intro work; rfl
  | succ fuel ih =>
    intro work
    cases work with
    | nil => rfl
    | cons id work =>
      rw [allNodes, allNodes]
      cases h1 : st.get? id with
      | none =>
        have := hst.2 id
        rw [h1] at this
        cases h2 : st'.get? id with
        | none => exact ih work
        | some n' => rw [h2] at this; exact this.elim
      | some n =>
        obtain ⟨n', h2, hp⟩ := permStore_get' hst h1
        rw [h2]
        simp only
        rw [children_perm hp (hn id n h1), ih]

/-! ### related resolver states -/

/-- the same Resolved, `resolvedInfos` having the same domain -/
def DRel (d d' : DocRes) : Prop :=
  d'.root = d.root ∧ d'.draft = d.draft ∧ d'.uris = d.uris ∧ ∀ x, x ∈ d'.known ↔ x ∈ d.known

/-- the same resolver state, the table of info objects read as a map -/
structure SRel (s s' : RState) : Prop where
  infos : ∀ id, lookupNat id s'.infos = lookupNat id s.infos
  docs : All₂ DRel s.docs s'.docs
  loaded : s'.loaded = s.loaded
  log : s'.log = s.log

theorem DRel.refl (d : DocRes) : DRel d d := ⟨rfl, rfl, rfl, fun _ => Iff.rfl⟩

theorem SRel.refl (s : RState) : SRel s s :=
  ⟨fun _ => rfl, All₂.refl (fun d _ => DRel.refl d), rfl, rfl⟩

theorem DRel.contains {d d' : DocRes} (h : DRel d d') (x : NodeId) : d'.known.contains x = d.known.contains x := by
  rw [Bool.eq_iff_iff]
  simp only [List.contains_eq_mem, decide_eq_true_eq]
  exact h.2.2.2 x

theorem SRel.doc? {s s' : RState} (h : SRel s s') (r : NodeId) : OptRel DRel (s.doc? r) (s'.doc? r) := by
  unfold RState.doc?
  exact find?_rel (R := DRel) (fun d => d.root == r) (fun a b hab => by simp only [hab.1]) _ _ h.docs

theorem SRel.draftOf {s s' : RState} (h : SRel s s') (r : NodeId) : s'.draftOf r = s.draftOf r := by
  have := h.doc? r
  unfold RState.draftOf
  cases h1 : s.doc? r <;> cases h2 : s'.doc? r <;> rw [h1, h2] at this <;>
    first | exact this.elim | rfl | exact this.2.1

theorem SRel.info? {s s' : RState} (h : SRel s s') (root id : NodeId) : s'.info? root id = s.info? root id := by
  have := h.doc? root
  unfold RState.info?
  cases h1 : s.doc? root <;> cases h2 : s'.doc? root <;> rw [h1, h2] at this <;>
    first | exact this.elim | rfl | (simp only; rw [DRel.contains this, h.infos])

theorem SRel.updInfo {s s' : RState} (h : SRel s s') (id : NodeId) (f : Info → Info) :
    SRel (s.updInfo id f) (s'.updInfo id f) := by
  refine ⟨?_, ?_, ?_, ?_⟩
  · intro k
    rw [updInfo_infos_lookup, updInfo_infos_lookup, h.infos]
  · rw [updInfo_docs, updInfo_docs]; exact h.docs
  · rw [(updInfo_same s id f).2, (updInfo_same s' id f).2]; exact h.loaded
  · rw [(updInfo_same s id f).1, (updInfo_same s' id f).1]; exact h.log

theorem SRel.setAnchor {s s' : RState} (h : SRel s s') (b t : NodeId) (a : String) (dyn : Bool) :
    SRel (setAnchor s b t a dyn) (setAnchor s' b t a dyn) := by
  rw [setAnchor_eq, setAnchor_eq]
  split
  · exact h
  · exact h.updInfo _ _

theorem all2_any_root : ∀ (l l' : List DocRes), All₂ DRel l l' → ∀ r, l'.any (·.root == r) = l.any (·.root == r)
  | [], [], _, _ => rfl
  | [], _ :: _, h, _ => h.elim
  | _ :: _, [], h, _ => h.elim
  | a :: l, b :: l', h, r => by
    rw [List.any_cons, List.any_cons, all2_any_root l l' h.2 r, h.1.1]

theorem SRel.setDoc {s s' : RState} (h : SRel s s') {d d' : DocRes} (hd : DRel d d') :
    SRel (s.setDoc d) (s'.setDoc d') := by
  refine ⟨h.infos, ?_, h.loaded, h.log⟩
  unfold RState.setDoc
  simp only
  rw [all2_any_root _ _ h.docs, hd.1]
  split
  · refine All₂.map _ _ ?_ h.docs
    intro a b hab
    rw [hab.1]
    split
    · exact hd
    · exact hab
  · exact All₂.append h.docs ⟨hd, True.intro⟩

theorem SRel.mergeKnown {s s' : RState} (h : SRel s s') (a b : NodeId) :
    SRel (mergeKnown s a b) (mergeKnown s' a b) := by
  have ha := h.doc? a
  have hb := h.doc? b
  unfold Go.mergeKnown
  cases h1 : s.doc? a <;> cases h2 : s'.doc? a <;> rw [h1, h2] at ha <;> try exact ha.elim
  · exact h
  · rename_i d d'
    cases h3 : s.doc? b <;> cases h4 : s'.doc? b <;> rw [h3, h4] at hb <;> try exact hb.elim
    · exact h
    · rename_i l l'
      simp only
      apply h.setDoc
      refine ⟨ha.1, ha.2.1, ha.2.2.1, ?_⟩
      intro x
      simp only [List.mem_append, List.mem_filter, List.contains_eq_mem, Bool.not_eq_true',
        decide_eq_false_iff_not, ha.2.2.2 x, hb.2.2.2 x]

/-! ### resolveURIs -/

theorem uriStep_node_eq (draft : Draft) (root : NodeId) (s : RState) (id base : NodeId) (n n' : Node) (bi : Info)
    (h1 : n'.id = n.id) (h2 : n'.ref = n.ref) :
    uriStep draft root s id base n' bi = uriStep draft root s id base n bi := by
  unfold uriStep
  rw [h1, h2]

/-- the same step, the same base for the children -/
def StepRel (a b : RState × NodeId) : Prop := SRel a.1 b.1 ∧ b.2 = a.2

theorem uriStep_rel (draft : Draft) (root : NodeId) {s s' : RState} (h : SRel s s') (id base : NodeId) (n : Node)
    (bi : Info) : ResRel StepRel (uriStep draft root s id base n bi) (uriStep draft root s' id base n bi) := by
  unfold uriStep
  simp only
  split
  · refine (ResRel.refl (R := (· = ·)) (fun _ => rfl) (Uri.parse n.id)).bind ?_
    intro idURI _ e
    subst e
    split
    · exact True.intro
    · split
      · exact ⟨h.setAnchor _ _ _ _, rfl⟩
      · cases bi.uri with
        | none => exact True.intro
        | some bu =>
          simp only
          split
          · exact True.intro
          · refine ⟨?_, rfl⟩
            have h1 := h.updInfo id (fun i => { i with uri := some (Uri.resolveReference bu idURI) })
            have hd := h1.doc? root
            cases e1 : (s.updInfo id fun i => { i with uri := some (Uri.resolveReference bu idURI) }).doc? root <;>
              cases e2 : (s'.updInfo id fun i => { i with uri := some (Uri.resolveReference bu idURI) }).doc? root <;>
              rw [e1, e2] at hd <;> try exact hd.elim
            · exact h1
            · simp only
              apply h1.setDoc
              exact ⟨hd.1, hd.2.1, by simp only [hd.2.2.1], hd.2.2.2⟩
  · exact ⟨h, rfl⟩

theorem postStep_rel (draft : Draft) {s s' : RState} (h : SRel s s') (id base : NodeId) (n n' : Node)
    (h1 : n'.anchor = n.anchor) (h2 : n'.dynamicAnchor = n.dynamicAnchor) :
    SRel (postStep draft s id base n) (postStep draft s' id base n') := by
  unfold postStep
  simp only
  rw [h1, h2]
  split
  · exact ((h.updInfo _ _).setAnchor _ _ _ _).setAnchor _ _ _ _
  · exact h.updInfo _ _

theorem resolveURIsLoop_cons (env : Env) (draft : Draft) (root : NodeId) (fuel : Nat) (id base : NodeId)
    (work : List (NodeId × NodeId)) (s : RState) :
    resolveURIsLoop env draft root (fuel + 1) ((id, base) :: work) s =
      match env.st.get? id, lookupNat id s.infos, lookupNat base s.infos with
      | some n, some _, some bi =>
        Res.bind (uriStep draft root s id base n bi) fun (s1, base1) =>
          resolveURIsLoop env draft root fuel ((n.children.map fun c => (c, base1)) ++ work)
            (postStep draft s1 id base1 n)
      | _, _, _ => .panic := by
  rw [resolveURIsLoop]; rfl

theorem permNode_fields {a b : Node} (h : permNode a b) :
    b.id = a.id ∧ b.ref = a.ref ∧ b.anchor = a.anchor ∧ b.dynamicAnchor = a.dynamicAnchor ∧
    b.dynamicRef = a.dynamicRef ∧ b.schema = a.schema := by
  obtain ⟨p, pp, d, df, ds, dst, dr, dsc, _, _, _, _, _, _, _, _, rfl⟩ := h
  exact ⟨rfl, rfl, rfl, rfl, rfl, rfl⟩

theorem resolveURIsLoop_rel (env : Env) (st' : Store) (hst : permStore env.st st') (hn : StoreKeysNodup env.st)
    (draft : Draft) (root : NodeId) : ∀ fuel work s s', SRel s s' →
      ResRel SRel (resolveURIsLoop env draft root fuel work s)
        (resolveURIsLoop { env with st := st' } draft root fuel work s') := by
  intro fuel
  induction fuel with
  | zero => intro work s s' h; exact True.intro
  | succ fuel ih =>
    intro work s s' h
    cases work with
    | nil => rw [resolveURIsLoop, resolveURIsLoop]; exact h
    | cons e work =>
      obtain ⟨id, base⟩ := e
      rw [resolveURIsLoop_cons, resolveURIsLoop_cons, h.infos, h.infos]
      show ResRel SRel _ (match st'.get? id, lookupNat id s.infos, lookupNat base s.infos with
        | some n, some _, some bi => _
        | _, _, _ => .panic)
      cases h1 : env.st.get? id with
      | none =>
        have := hst.2 id
        rw [h1] at this
        cases h2 : st'.get? id with
        | none => exact True.intro
        | some n' => rw [h2] at this; exact this.elim
      | some n =>
        obtain ⟨n', h2, hp⟩ := permStore_get' hst h1
        rw [h2]
        cases h3 : lookupNat id s.infos with
        | none => exact True.intro
        | some i0 =>
          cases h4 : lookupNat base s.infos with
          | none => exact True.intro
          | some bi =>
            simp only
            obtain ⟨f1, f2, f3, f4, _, _⟩ := permNode_fields hp
            rw [uriStep_node_eq draft root s' id base n n' bi f1 f2, children_perm hp (hn id n h1)]
            refine (uriStep_rel draft root h id base n bi).bind ?_
            intro a b hab
            obtain ⟨sa, ba⟩ := a
            obtain ⟨sb, bb⟩ := b
            obtain ⟨hs, hb⟩ := hab
            simp only at hs hb
            subst hb
            exact ih _ _ _ (postStep_rel draft hs id bb n n' f3 f4)

/-! ### resolveRef / resolveRefs -/

/-- the open-recursion callbacks agree on related states -/
def RecRel (recDoc recDoc' : ResolveDoc) : Prop :=
  ∀ lroot u dr s s', SRel s s' → ResRel SRel (recDoc lroot u dr s) (recDoc' lroot u dr s')

/-- the same target and anchor name, related states -/
def OutRel (a b : RefOut × RState) : Prop := b.1.target = a.1.target ∧ b.1.dynFrag = a.1.dynFrag ∧ SRel a.2 b.2

theorem resolveRef_rel (env : Env) (st' : Store) (hst : permStore env.st st') (hn : StoreKeysNodup env.st)
    (recDoc recDoc' : ResolveDoc) (hrec : RecRel recDoc recDoc') (root : NodeId) {s s' : RState} (h : SRel s s')
    (id : NodeId) (ref : String) :
    ResRel OutRel (resolveRef env recDoc root s id ref) (resolveRef { env with st := st' } recDoc' root s' id ref) := by
  unfold resolveRef
  refine (ResRel.refl (R := (· = ·)) (fun _ => rfl) (Uri.parse ref)).bind ?_
  intro refURI0 _ e
  subst e
  rw [h.info? root id]
  cases hi : s.info? root id with
  | none => exact True.intro
  | some info =>
    simp only
    cases hb : info.base with
    | none => exact True.intro
    | some base =>
      simp only
      rw [h.info? root base]
      cases hbi : s.info? root base with
      | none => exact True.intro
      | some bInfo =>
        simp only
        have hd := h.doc? root
        cases hu : bInfo.uri with
        | none => exact True.intro
        | some bu =>
          cases h1 : s.doc? root <;> cases h2 : s'.doc? root <;> rw [h1, h2] at hd <;>
            first | exact hd.elim | exact True.intro | skip
          rename_i d d'
          simp only
          refine ResRel.bind (R := fun a b => b.1 = a.1 ∧ SRel a.2 b.2) ?_ ?_
          · rw [hd.2.2.1]
            cases Json.lookup (Uri.toString (Uri.dropFragment (Uri.resolveReference bu refURI0))) d.uris with
            | some t => exact ⟨rfl, h⟩
            | none =>
              simp only
              rw [h.loaded]
              cases Json.lookup (Uri.toString (Uri.dropFragment (Uri.resolveReference bu refURI0))) s.loaded with
              | some lroot => exact ⟨rfl, h.mergeKnown _ _⟩
              | none =>
                simp only
                cases env.loader with
                | none => exact True.intro
                | some tbl =>
                  simp only
                  cases Json.lookup (Uri.toString (Uri.dropFragment (Uri.resolveReference bu refURI0))) tbl with
                  | none => exact True.intro
                  | some r =>
                    cases r with
                    | fail => exact True.intro
                    | nilDoc => exact True.intro
                    | doc lroot =>
                      simp only
                      rw [hd.2.1]
                      have hs1 : SRel { s with log := s.log ++ [Uri.toString (Uri.dropFragment (Uri.resolveReference bu refURI0))] }
                          { infos := s'.infos, docs := s'.docs, loaded := s.loaded,
                            log := s'.log ++ [Uri.toString (Uri.dropFragment (Uri.resolveReference bu refURI0))] } :=
                        ⟨h.infos, h.docs, rfl, by
                          show s'.log ++ _ = s.log ++ _
                          rw [h.log]⟩
                      refine (hrec lroot _ d.draft _ _ hs1).bind ?_
                      intro a b hab
                      exact ⟨rfl, hab.mergeKnown _ _⟩
          · intro a b hab
            obtain ⟨referenced, s1⟩ := a
            obtain ⟨referenced', s1'⟩ := b
            obtain ⟨e, hs⟩ := hab
            simp only at e hs
            subst e
            simp only
            generalize ((Uri.resolveReference bu refURI0).fragment != "" &&
              (Uri.resolveReference bu refURI0).fragment.toList.head? != some '/') = cnd
            cases cnd with
            | true =>
              simp only [if_true]
              rw [hs.info? root referenced']
              cases s1.info? root referenced' with
              | none => exact True.intro
              | some rInfo =>
                simp only
                cases Json.lookup (Uri.resolveReference bu refURI0).fragment rInfo.anchors with
                | none => exact True.intro
                | some a => exact ⟨rfl, rfl, hs⟩
            | false =>
              simp only [Bool.false_eq_true, if_false]
              rw [dereference_perm env.st st' hst hn]
              refine (ResRel.refl (R := (· = ·)) (fun _ => rfl) _).bind ?_
              intro t _ e
              subst e
              exact ⟨rfl, rfl, hs⟩

theorem resolveRefsLoop_rel (env : Env) (st' : Store) (hst : permStore env.st st') (hn : StoreKeysNodup env.st)
    (recDoc recDoc' : ResolveDoc) (hrec : RecRel recDoc recDoc') (root : NodeId) : ∀ ids s s', SRel s s' →
      ResRel SRel (resolveRefsLoop env recDoc root ids s)
        (resolveRefsLoop { env with st := st' } recDoc' root ids s') := by
  intro ids
  induction ids with
  | nil => intro s s' h; rw [resolveRefsLoop, resolveRefsLoop]; exact h
  | cons id rest ih =>
    intro s s' h
    rw [resolveRefsLoop, resolveRefsLoop]
    show ResRel SRel _ (match st'.get? id with
      | none => .panic
      | some n => _)
    cases h1 : env.st.get? id with
    | none =>
      have := hst.2 id
      rw [h1] at this
      cases h2 : st'.get? id with
      | none => exact True.intro
      | some n' => rw [h2] at this; exact this.elim
    | some n =>
      obtain ⟨n', h2, hp⟩ := permStore_get' hst h1
      rw [h2]
      simp only
      obtain ⟨_, f2, _, _, f5, _⟩ := permNode_fields hp
      rw [f2, f5]
      refine ResRel.bind (R := SRel) ?_ ?_
      · split
        · refine (resolveRef_rel env st' hst hn recDoc recDoc' hrec root h id n.ref).bind ?_
          intro a b hab
          obtain ⟨o, sa⟩ := a
          obtain ⟨o', sb⟩ := b
          obtain ⟨e1, _, hs⟩ := hab
          simp only at e1 hs ⊢
          rw [e1]
          exact hs.updInfo _ _
        · exact h
      · intro s1 s1' hs1
        refine ResRel.bind (R := SRel) ?_ ?_
        · rw [hs1.draftOf root]
          split
          · refine (resolveRef_rel env st' hst hn recDoc recDoc' hrec root hs1 id n.dynamicRef).bind ?_
            intro a b hab
            obtain ⟨o, sa⟩ := a
            obtain ⟨o', sb⟩ := b
            obtain ⟨e1, e2, hs⟩ := hab
            simp only at e1 e2 hs ⊢
            rw [e1, e2]
            exact hs.updInfo _ _
          · exact hs1
        · intro s2 s2' hs2
          exact ih _ _ hs2

/-! ### resolver.resolve -/

theorem lookupNat_append {α} (k : Nat) (a b : List (Nat × α)) :
    lookupNat k (a ++ b) = match lookupNat k a with
      | some v => some v
      | none => lookupNat k b := by
  induction a with
  | nil => rfl
  | cons e r ih =>
    obtain ⟨k', v⟩ := e
    have e1 : ∀ l, lookupNat k ((k', v) :: l) = if k' = k then some v else lookupNat k l := fun _ => rfl
    rw [List.cons_append, e1, e1]
    split
    · rfl
    · exact ih

theorem lookupNat_of_mem_nodup {α} (k : Nat) (v : α) : ∀ (l : List (Nat × α)), (l.map (·.1)).Nodup → (k, v) ∈ l →
    lookupNat k l = some v
  | [], _, h => by simp at h
  | (k', v') :: r, hn, h => by
    unfold lookupNat
    rw [List.map_cons, List.nodup_cons] at hn
    rcases List.mem_cons.mp h with e | hm
    · simp only [Prod.mk.injEq] at e
      rw [if_pos e.1.symm, e.2]
    · have : k' ≠ k := by
        intro e; subst e
        exact hn.1 (List.mem_map.mpr ⟨(k', v), hm, rfl⟩)
      rw [if_neg this]
      exact lookupNat_of_mem_nodup k v r hn.2 hm

theorem lookupNat_perm {α} {l l' : List (Nat × α)} (hp : l.Perm l') (hn : (l.map (·.1)).Nodup) (k : Nat) :
    lookupNat k l' = lookupNat k l := by
  have hn' : (l'.map (·.1)).Nodup := (hp.map _).nodup_iff.mp hn
  cases h : lookupNat k l with
  | some v => exact lookupNat_of_mem_nodup k v l' hn' (hp.mem_iff.mp (lookupNat_mem k l v h))
  | none =>
    cases h' : lookupNat k l' with
    | none => rfl
    | some v =>
      have := lookupNat_of_mem_nodup k v l hn (hp.mem_iff.mpr (lookupNat_mem k l' v h'))
      rw [h] at this; cases this

theorem checkLocal_all_perm (env : Env) (st' : Store) (hst : permStore env.st st') {fresh fresh' : List (NodeId × Info)}
    (hp : fresh.Perm fresh') :
    ((fresh'.map (·.1)).all fun id => match st'.get? id with
        | some nd => checkLocalOk { env with st := st' } nd
        | none => false) =
    ((fresh.map (·.1)).all fun id => match env.st.get? id with
        | some nd => checkLocalOk env nd
        | none => false) := by
  have hfun : (fun id => match st'.get? id with
        | some nd => checkLocalOk { env with st := st' } nd
        | none => false) =
      (fun id => match env.st.get? id with
        | some nd => checkLocalOk env nd
        | none => false) := by
    funext id
    have := hst.2 id
    cases h1 : env.st.get? id <;> cases h2 : st'.get? id <;> rw [h1, h2] at this <;>
      first | exact this.elim | rfl | skip
    simp only
    exact checkLocalOk_perm env this
  rw [hfun]
  exact (perm_all_eq _ (hp.map _)).symm

theorem resolveDocStep_rel (env : Env) (st' : Store) (hst : permStore env.st st') (hn : StoreKeysNodup env.st)
    (recDoc recDoc' : ResolveDoc) (hrec : RecRel recDoc recDoc') :
    RecRel (resolveDocStep env recDoc) (resolveDocStep { env with st := st' } recDoc') := by
  intro root baseURI inherit s s' h
  unfold resolveDocStep
  by_cases hfrag : (baseURI.fragment != "") = true
  · simp only [hfrag, if_true]; exact True.intro
  · simp only [hfrag, Bool.false_eq_true, if_false]
    show ResRel SRel _ (match st'.get? root with
      | none => .err
      | some rn => _)
    cases h1 : env.st.get? root with
    | none =>
      have := hst.2 root
      rw [h1] at this
      cases h2 : st'.get? root with
      | none => exact True.intro
      | some n' => rw [h2] at this; exact this.elim
    | some rn =>
      obtain ⟨rn', h2, hp⟩ := permStore_get' hst h1
      rw [h2]
      simp only
      obtain ⟨_, _, _, _, _, f6⟩ := permNode_fields hp
      rw [f6, ← hst.1]
      have hout := checkStructure_perm_outcome env.st st' hst root
      rw [← hst.1] at hout
      cases hc : checkStructure env.st (env.st.size + 2) [(root, "")] [] <;>
        cases hc' : checkStructure st' (env.st.size + 2) [(root, "")] [] <;> rw [hc, hc'] at hout <;>
        first | exact hout.elim | exact True.intro | skip
      rename_i fresh fresh'
      have hperm : fresh.Perm fresh' := hout
      have hnd : (fresh.map (·.1)).Nodup := checkStructure_nodup env.st _ _ _ _ hc (by simp [ids])
      simp only [Res.bind_ok]
      generalize hA : ((fresh.map (·.1)).all _) = okA
      generalize hA' : ((fresh'.map (·.1)).all _) = okA'
      have hAA : okA' = okA := by
        rw [← hA, ← hA']
        exact checkLocal_all_perm env st' hst hperm
      subst hAA
      split
      · exact True.intro
      · -- the state handed to resolveURIs
        have hA : SRel
            ((({ s with infos := s.infos ++ fresh } : RState).setDoc
              { root := root, draft := if (rn.schema == "") = true then inherit else detectDraft env rn.schema,
                uris := [(Uri.toString baseURI, root)], known := fresh.map (·.1) }).updInfo root
              fun i => { i with uri := some baseURI })
            ((({ s' with infos := s'.infos ++ fresh' } : RState).setDoc
              { root := root, draft := if (rn.schema == "") = true then inherit else detectDraft env rn.schema,
                uris := [(Uri.toString baseURI, root)], known := fresh'.map (·.1) }).updInfo root
              fun i => { i with uri := some baseURI }) := by
          apply SRel.updInfo
          apply SRel.setDoc
          · refine ⟨?_, h.docs, h.loaded, h.log⟩
            intro k
            show lookupNat k (s'.infos ++ fresh') = lookupNat k (s.infos ++ fresh)
            rw [lookupNat_append, lookupNat_append, h.infos, lookupNat_perm hperm hnd]
          · exact ⟨rfl, rfl, rfl, fun x => (hperm.map _).mem_iff.symm⟩
        refine ResRel.bind (R := SRel) (resolveURIsLoop_rel env st' hst hn _ root _ _ _ _ hA) ?_
        intro sB sB' hB
        rw [hB.infos root, hB.loaded, allNodes_perm env.st st' hst hn]
        exact resolveRefsLoop_rel env st' hst hn recDoc recDoc' hrec root _ _ _ ⟨hB.infos, hB.docs, rfl, hB.log⟩

theorem resolveDoc_rel (env : Env) (st' : Store) (hst : permStore env.st st') (hn : StoreKeysNodup env.st) :
    ∀ fuel, RecRel (resolveDoc env fuel) (resolveDoc { env with st := st' } fuel) := by
  intro fuel
  induction fuel with
  | zero => intro lroot u dr s s' h; exact True.intro
  | succ fuel ih => exact resolveDocStep_rel env st' hst hn _ _ ih

/-! ### Schema.Resolve -/

theorem lookupNat_filter {α} (k : Nat) (p : Nat → Bool) (l : List (Nat × α)) :
    lookupNat k (l.filter fun e => p e.1) = if p k = true then lookupNat k l else none := by
  induction l with
  | nil => simp [lookupNat]
  | cons e r ih =>
    obtain ⟨k', v⟩ := e
    have e1 : ∀ l, lookupNat k ((k', v) :: l) = if k' = k then some v else lookupNat k l := fun _ => rfl
    rw [List.filter_cons]
    show lookupNat k (if p k' = true then (k', v) :: r.filter _ else r.filter _) = _
    by_cases hk : k' = k
    · subst hk
      cases hp : p k' with
      | false =>
        rw [hp] at ih
        simp only [Bool.false_eq_true, if_false] at ih ⊢
        exact ih
      | true => simp only [if_true, e1]
    · cases hp : p k' with
      | false =>
        simp only [Bool.false_eq_true, if_false, e1, if_neg hk]
        exact ih
      | true =>
        simp only [if_true, e1, if_neg hk]
        exact ih

/-- the same root, draft and log, and the same info for every schema -/
def ResolvedRel (a b : Resolved) : Prop :=
  b.root = a.root ∧ b.draft = a.draft ∧ b.log = a.log ∧ ∀ id, lookupNat id b.infos = lookupNat id a.infos

theorem resolve_rel (env : Env) (st' : Store) (hst : permStore env.st st') (hn : StoreKeysNodup env.st)
    (fuel : Nat) (root : NodeId) (baseURI : String) :
    ResRel ResolvedRel (resolve env fuel root baseURI) (resolve { env with st := st' } fuel root baseURI) := by
  unfold resolve
  simp only
  refine (ResRel.refl (R := (· = ·)) (fun _ => rfl) _).bind ?_
  intro b _ e
  subst e
  refine (resolveDoc_rel env st' hst hn fuel root b .d2020 {} {} (SRel.refl {})).bind ?_
  intro s s' h
  have hd := h.doc? root
  cases h1 : s.doc? root <;> cases h2 : s'.doc? root <;> rw [h1, h2] at hd <;>
    first | exact hd.elim | exact True.intro | skip
  rename_i d d'
  refine ⟨rfl, hd.2.1, h.log, ?_⟩
  intro id
  show lookupNat id (s'.infos.filter fun e => d'.known.contains e.1) =
    lookupNat id (s.infos.filter fun e => d.known.contains e.1)
  rw [lookupNat_filter id (fun x => d'.known.contains x), lookupNat_filter id (fun x => d.known.contains x),
    DRel.contains hd, h.infos]

end RPerm
end Go
end JSV
