/-
  C09: what the schema `forType` builds accepts, decodes (`Models.tight`).
-/
import JSV.Proofs.InfSound
namespace JSV
namespace EncJson
open Go Spec

/-! ### `PlainInts` on parts -/

theorem plainInts_mem : ∀ {xs : List Json}, plainIntsList xs = true → ∀ x, x ∈ xs → PlainInts x = true
  | [], _, _, hx => nomatch hx
  | y :: ys, h, x, hx => by
    simp only [plainIntsList, Bool.and_eq_true] at h
    rcases List.mem_cons.1 hx with rfl | hx
    · exact h.1
    · exact plainInts_mem h.2 x hx

theorem plainInts_memObj : ∀ {kvs : List (String × Json)}, plainIntsObj kvs = true → ∀ p, p ∈ kvs → PlainInts p.2 = true
  | [], _, _, hp => nomatch hp
  | (k, v) :: rest, h, p, hp => by
    simp only [plainIntsObj, Bool.and_eq_true] at h
    rcases List.mem_cons.1 hp with rfl | hp
    · exact h.1
    · exact plainInts_memObj h.2 p hp

/-! ### the type keyword, inverted -/

theorem typeMatches_null {j : Json} (h : typeMatches "null" j = true) : j = .null := by
  cases j with
  | null => rfl
  | num q => by_cases hq : q.den = 1 <;> simp [typeMatches, Json.typeName, hq] at h
  | _ => simp [typeMatches, Json.typeName] at h

theorem typeOk_addNull_inv {m : Node} {j : Json} {an : Bool} (h : typeOk (addNull an m) j = true) :
    j = .null ∨ typeOk m j = true := by
  unfold addNull at h
  split at h
  · rename_i hc
    simp only [Bool.and_eq_true] at hc
    unfold typeOk at h ⊢
    simp only [bne_self_eq_false, Bool.false_eq_true, if_false, List.any_cons, List.any_nil, Bool.or_false,
      Bool.or_eq_true] at h
    rcases h with h | h
    · exact Or.inl (typeMatches_null h)
    · right
      simp only [hc.2, if_true]
      exact h
  · exact Or.inr h

theorem typeMatches_boolean {j : Json} (h : typeMatches "boolean" j = true) : ∃ b, j = .bool b := by
  cases j with
  | bool b => exact ⟨b, rfl⟩
  | num q => by_cases hq : q.den = 1 <;> simp [typeMatches, Json.typeName, hq] at h
  | _ => simp [typeMatches, Json.typeName] at h

theorem typeMatches_string {j : Json} (h : typeMatches "string" j = true) : ∃ s, j = .str s := by
  cases j with
  | str s => exact ⟨s, rfl⟩
  | num q => by_cases hq : q.den = 1 <;> simp [typeMatches, Json.typeName, hq] at h
  | _ => simp [typeMatches, Json.typeName] at h

theorem typeMatches_number {j : Json} (h : typeMatches "number" j = true) : ∃ q, j = .num q := by
  cases j with
  | num q => exact ⟨q, rfl⟩
  | _ => simp [typeMatches, Json.typeName] at h

theorem typeMatches_integer {j : Json} (h : typeMatches "integer" j = true) : ∃ q, j = .num q ∧ q.den = 1 := by
  cases j with
  | num q =>
    by_cases hq : q.den = 1
    · exact ⟨q, rfl, hq⟩
    · simp [typeMatches, Json.typeName, hq] at h
  | _ => simp [typeMatches, Json.typeName] at h

theorem typeMatches_array {j : Json} (h : typeMatches "array" j = true) : ∃ xs, j = .arr xs := by
  cases j with
  | arr xs => exact ⟨xs, rfl⟩
  | num q => by_cases hq : q.den = 1 <;> simp [typeMatches, Json.typeName, hq] at h
  | _ => simp [typeMatches, Json.typeName] at h

theorem typeMatches_object {j : Json} (h : typeMatches "object" j = true) : ∃ kvs, j = .obj kvs := by
  cases j with
  | obj kvs => exact ⟨kvs, rfl⟩
  | num q => by_cases hq : q.den = 1 <;> simp [typeMatches, Json.typeName, hq] at h
  | _ => simp [typeMatches, Json.typeName] at h

/-! ### the false schema -/

theorem empty_valid {st : Store} {re : String → String → Bool} {notId : NodeId} (hn : HasNode st notId emptyNode)
    (f : Nat) (scope : List NodeId) (j : Json) : Valid (evalFuel (specEnvNoRefs st re) (f + 1) scope notId j) := by
  refine frag_valid hn plain_emptyNode.1 rfl (kwItems_none rfl rfl rfl j) (kwProps_noprops plain_emptyNode.2 rfl rfl j) ?_
  rw [asserts_plain rfl plain_emptyNode.2]
  refine ⟨rfl, fun q _ => ⟨fun m hm => ?_, fun m hm => ?_⟩,
    fun xs _ => ⟨fun m hm => ?_, fun m hm => ?_⟩, fun kvs _ k hk => ?_⟩
  · cases hm
  · cases hm
  · cases hm
  · cases hm
  · simp [emptyNode] at hk

/-- `{"not": {}}` accepts nothing -/
theorem false_not_valid {st : Store} {re : String → String → Bool} {notId falseId : NodeId}
    (hnot : HasNode st notId emptyNode) (hfalse : HasNode st falseId (falseNode notId))
    (f : Nat) (scope : List NodeId) (j : Json) : ¬ Valid (evalFuel (specEnvNoRefs st re) f scope falseId j) := by
  intro hv
  cases f with
  | zero => obtain ⟨e, he⟩ := hv; cases he
  | succ f =>
    obtain ⟨⟨e, hk⟩, _⟩ := (evalFuel_frag hfalse (plain_falseNode notId).1 f scope j).1 hv
    have hk' : kwNot (evalFuel (specEnvNoRefs st re) f (scope ++ [falseId])) (falseNode notId) j =
        (evalFuel (specEnvNoRefs st re) f (scope ++ [falseId]) notId j).map fun r => if r.isSome then none else some {} := rfl
    rw [hk'] at hk
    cases f with
    | zero => cases hk
    | succ f =>
      obtain ⟨e', he'⟩ := empty_valid (re := re) hnot f (scope ++ [falseId]) j
      rw [he'] at hk
      cases hk

/-! ### integers -/

/-- the table: every integer kind has type "integer"; a stated bound is the exact end of the value range, an
    unstated one is at an int64 / uint64 end -/
theorem int_table_tight {k : String} {lo hi : Int} (h : intRange k = some (lo, hi)) :
    ∃ mn mx, kindEntry k = some ("integer", mn, mx) ∧ (mn = some lo ∨ (mn = none ∧ lo = -9223372036854775808)) ∧
      (mx = some hi ∨ (mx = none ∧ 9223372036854775807 ≤ hi)) := by
  unfold intRange at h
  repeat' split at h
  all_goals first
    | (rename_i hk; subst hk; cases h; exact ⟨_, _, rfl, by decide, by decide⟩)
    | cases h

theorem intRange_of_mem {k : String} (h : k ∈ intKinds) : ∃ lo hi, intRange k = some (lo, hi) := by
  have hall : ∀ k, k ∈ intKinds → (intRange k).isSome = true := by decide
  obtain ⟨⟨lo, hi⟩, he⟩ := Option.isSome_iff_exists.1 (hall k h)
  exact ⟨lo, hi, he⟩

theorem not_float_of_int {k : String} (h : k ∈ intKinds) : (k == "Interface") = false ∧ floatKinds.contains k = false := by
  have hall : ∀ k, k ∈ intKinds → ((k == "Interface") = false ∧ floatKinds.contains k = false) := by decide
  exact hall k h

/-! ### the induction -/

theorem domainKinds_cases {kind : String} (h : domainKinds.contains kind = true) :
    kind = "Bool" ∨ kind = "String" ∨ kind = "Interface" ∨ kind ∈ floatKinds ∨ kind ∈ intKinds := by
  have hm : kind ∈ domainKinds := by simpa using h
  simp only [domainKinds, List.mem_append, List.mem_cons, List.not_mem_nil, or_false] at hm
  rcases hm with ((h | h | h) | h) | h
  · exact Or.inl h
  · exact Or.inr (Or.inl h)
  · exact Or.inr (Or.inr (Or.inl h))
  · exact Or.inr (Or.inr (Or.inr (Or.inl h)))
  · exact Or.inr (Or.inr (Or.inr (Or.inr h)))

theorem basic_tight {st : Store} {re : String → String → Bool} {kind : String} (hdom : domainKinds.contains kind = true)
    {ty : String} {mn mx : Option Int} (hk : kindEntry kind = some (ty, mn, mx)) {an : Bool} {id : NodeId}
    (hn : HasNode st id (addNull an (basicNode ty mn mx))) {f : Nat} {scope : List NodeId} {j : Json}
    (hp : PlainInts j = true) (hv : Valid (evalFuel (specEnvNoRefs st re) f scope id j)) :
    decodableBasic kind j = true := by
  cases f with
  | zero => obtain ⟨e, he⟩ := hv; cases he
  | succ f =>
    obtain ⟨_, _, _, ha⟩ := (evalFuel_frag hn ((plain_basicNode ty mn mx).1.addNull an) f scope j).1 hv
    rw [asserts_plain rfl ((plain_basicNode ty mn mx).2.addNull an)] at ha
    obtain ⟨ht, hb, _, _⟩ := ha
    rw [(addNull_fields an _).1, (addNull_fields an _).2.1] at hb
    rcases typeOk_addNull_inv ht with rfl | ht
    · simp [decodableBasic]
    · rcases domainKinds_cases hdom with rfl | rfl | rfl | hfl | hint
      · have : kindEntry "Bool" = some ("boolean", none, none) := by decide
        rw [this] at hk; cases hk
        obtain ⟨b, rfl⟩ := typeMatches_boolean (by simpa [typeOk, basicNode] using ht)
        simp [decodableBasic]
      · have : kindEntry "String" = some ("string", none, none) := by decide
        rw [this] at hk; cases hk
        obtain ⟨s, rfl⟩ := typeMatches_string (by simpa [typeOk, basicNode] using ht)
        simp [decodableBasic]
      · cases j <;> simp [decodableBasic]
      · have hke : kindEntry kind = some ("number", none, none) := by
          simp only [floatKinds, List.mem_cons, List.not_mem_nil, or_false] at hfl
          rcases hfl with rfl | rfl <;> decide
        rw [hke] at hk; cases hk
        obtain ⟨q, rfl⟩ := typeMatches_number (by simpa [typeOk, basicNode] using ht)
        simp [decodableBasic, hfl]
      · obtain ⟨lo, hi, hr⟩ := intRange_of_mem hint
        obtain ⟨mn', mx', hke, hmn, hmx⟩ := int_table_tight hr
        rw [hke] at hk; cases hk
        obtain ⟨q, rfl, hq⟩ := typeMatches_integer (by simpa [typeOk, basicNode] using ht)
        obtain ⟨hbmin, hbmax⟩ := hb q rfl
        have hpl : ((-9223372036854775808 : Int) : Rat) ≤ q ∧ q ≤ ((9223372036854775807 : Int) : Rat) := by
          have := hp
          simp only [PlainInts, hq, bne_self_eq_false, Bool.false_or, Bool.and_eq_true, decide_eq_true_eq] at this
          exact this
        have hlo : (lo : Rat) ≤ q := by
          rcases hmn with rfl | ⟨rfl, rfl⟩
          · exact hbmin _ ((basicNode_minimum _ _ _ _).2 ⟨lo, rfl, rfl⟩)
          · exact hpl.1
        have hhi : q ≤ (hi : Rat) := by
          rcases hmx with rfl | ⟨rfl, hle⟩
          · exact hbmax _ ((basicNode_maximum _ _ _ _).2 ⟨hi, rfl, rfl⟩)
          · exact Rat.le_trans hpl.2 (Rat.intCast_le_intCast.2 hle)
        obtain ⟨h1, h2⟩ := not_float_of_int hint
        simp only [decodableBasic, h1, h2, hr, Bool.false_or, hq, beq_self_eq_true, Bool.true_and, Bool.and_eq_true,
          decide_eq_true_eq]
        exact ⟨hlo, hhi⟩


theorem jsonNames_mem_cons {g : String × String × GoType} {rest : List (String × String × GoType)} {k : String}
    (h : k ∈ jsonNames (g :: rest))
    (hne : ¬ ((fieldJSONInfo g.1 g.2.1).omitted = false ∧ (fieldJSONInfo g.1 g.2.1).name = k)) : k ∈ jsonNames rest := by
  rw [jsonNames_cons] at h
  split at h
  · exact h
  · rename_i ho
    rcases List.mem_cons.1 h with rfl | h
    · exact absurd ⟨by simpa using ho, rfl⟩ hne
    · exact h

mutual
  /-- **what the schema accepts decodes** -/
  theorem Models.tight {nfs : Bool} {st : Store} {re : String → String → Bool} : ∀ (T : GoType) (an : Bool) (id : NodeId),
      Models nfs st T an id → InDomain T = true → ∀ (f : Nat) (scope : List NodeId) (j : Json), PlainInts j = true →
      Valid (evalFuel (specEnvNoRefs st re) f scope id j) → decodable T j = true
    | .basic kind, an, id, hm, hdom, f, scope, j, hp, hv => by
      simp only [Models] at hm
      obtain ⟨ty, mn, mx, hk, hn⟩ := hm
      simp only [InDomain] at hdom
      simp only [decodable]
      exact basic_tight hdom hk hn hp hv
    | .ptr e, an, id, hm, hdom, f, scope, j, hp, hv => by
      simp only [Models] at hm
      simp only [InDomain] at hdom
      simp only [decodable]
      exact Models.tight e true id hm hdom f scope j hp hv
    | .slice e, an, id, hm, hdom, f, scope, j, hp, hv => by
      simp only [Models] at hm
      obtain ⟨eid, he, hn⟩ := hm
      simp only [InDomain] at hdom
      cases f with
      | zero => obtain ⟨e', he'⟩ := hv; cases he'
      | succ f =>
        have PA := plain_sliceNode nfs eid
        obtain ⟨_, hi, _, ha⟩ := (evalFuel_frag hn (PA.1.addNull an) f scope j).1 hv
        rw [asserts_plain rfl (PA.2.addNull an)] at ha
        rw [(kw_addNull _ _ an _ j).2.1] at hi
        have harr : j = .null ∨ ∃ xs, j = .arr xs := by
          rcases typeOk_addNull_inv ha.1 with h | h
          · exact Or.inl h
          · cases nfs with
            | true =>
              simp only [typeOk, sliceNode, if_true, bne_self_eq_false, Bool.false_eq_true, if_false, List.any_cons,
                List.any_nil, Bool.or_false, Bool.or_eq_true] at h
              rcases h with h | h
              · exact Or.inl (typeMatches_null h)
              · exact Or.inr (typeMatches_array h)
            | false =>
              exact Or.inr (typeMatches_array (by simpa [typeOk, sliceNode] using h))
        rcases harr with rfl | ⟨xs, rfl⟩
        · simp [decodable]
        · simp only [decodable, List.all_eq_true]
          intro x hx
          have hvx := kwItems_arr_inv rfl PA.2.prefixItems (eid := eid) (by cases nfs <;> rfl) hi x hx
          exact Models.tight e false eid he hdom f _ x (plainInts_mem (by simpa [PlainInts] using hp) x hx) hvx
    | .array len e, an, id, hm, hdom, f, scope, j, hp, hv => by
      simp only [Models] at hm
      obtain ⟨eid, he, hn⟩ := hm
      simp only [InDomain] at hdom
      cases f with
      | zero => obtain ⟨e', he'⟩ := hv; cases he'
      | succ f =>
        have PA := plain_arrayNode len eid
        obtain ⟨_, hi, _, ha⟩ := (evalFuel_frag hn (PA.1.addNull an) f scope j).1 hv
        rw [asserts_plain rfl (PA.2.addNull an)] at ha
        rw [(kw_addNull _ _ an _ j).2.1] at hi
        have harr : j = .null ∨ ∃ xs, j = .arr xs := by
          rcases typeOk_addNull_inv ha.1 with h | h
          · exact Or.inl h
          · exact Or.inr (typeMatches_array (by simpa [typeOk, arrayNode] using h))
        rcases harr with rfl | ⟨xs, rfl⟩
        · simp [decodable]
        · simp only [decodable, List.all_eq_true]
          intro x hx
          have hvx := kwItems_arr_inv rfl PA.2.prefixItems (eid := eid) rfl hi x hx
          exact Models.tight e false eid he hdom f _ x (plainInts_mem (by simpa [PlainInts] using hp) x hx) hvx
    | .map kk e, an, id, hm, hdom, f, scope, j, hp, hv => by
      simp only [Models] at hm
      obtain ⟨eid, he, hn⟩ := hm
      simp only [InDomain, Bool.and_eq_true] at hdom
      cases f with
      | zero => obtain ⟨e', he'⟩ := hv; cases he'
      | succ f =>
        have PA := plain_mapNode eid
        obtain ⟨_, _, hpr, ha⟩ := (evalFuel_frag hn (PA.1.addNull an) f scope j).1 hv
        rw [asserts_plain rfl (PA.2.addNull an)] at ha
        rw [(kw_addNull _ _ an _ j).2.2] at hpr
        have hobj : j = .null ∨ ∃ kvs, j = .obj kvs := by
          rcases typeOk_addNull_inv ha.1 with h | h
          · exact Or.inl h
          · exact Or.inr (typeMatches_object (by simpa [typeOk, mapNode] using h))
        rcases hobj with rfl | ⟨kvs, rfl⟩
        · simp [decodable]
        · simp only [decodable, hdom.1, Bool.true_and, List.all_eq_true]
          intro p hpm
          have hpv := (kwProps_obj_inv PA.2.patternProperties hpr p hpm).2 rfl eid rfl
          exact Models.tight e false eid he hdom.2 f _ p.2 (plainInts_memObj (by simpa [PlainInts] using hp) p hpm) hpv
    | .struct fields, an, id, hm, hdom, f, scope, j, hp, hv => by
      simp only [Models] at hm
      obtain ⟨notId, falseId, props, po, rq, hnot, hfalse, hn, _, hkeys, hmf⟩ := hm
      simp only [InDomain, Bool.and_eq_true] at hdom
      cases f with
      | zero => obtain ⟨e', he'⟩ := hv; cases he'
      | succ f =>
        have PA := plain_structNode falseId props po rq
        obtain ⟨_, _, hpr, ha⟩ := (evalFuel_frag hn (PA.1.addNull an) f scope j).1 hv
        rw [asserts_plain rfl (PA.2.addNull an)] at ha
        rw [(kw_addNull _ _ an _ j).2.2] at hpr
        have hobj : j = .null ∨ ∃ kvs, j = .obj kvs := by
          rcases typeOk_addNull_inv ha.1 with h | h
          · exact Or.inl h
          · exact Or.inr (typeMatches_object (by simpa [typeOk, structNode] using h))
        rcases hobj with rfl | ⟨kvs, rfl⟩
        · simp [decodable]
        · simp only [decodable, List.all_eq_true]
          intro p hpm
          obtain ⟨hnamed, hadd⟩ := kwProps_obj_inv PA.2.patternProperties hpr p hpm
          have hprops : (structNode falseId props po rq).properties.getD [] = props.getD [] := rfl
          rw [hprops] at hnamed hadd
          cases hl : Json.lookup p.1 (props.getD []) with
          | none =>
            exact absurd (hadd hl falseId rfl) (false_not_valid hnot hfalse f _ p.2)
          | some t =>
            have hk : p.1 ∈ jsonNames fields := hkeys _ (mem_keys_of_lookup hl)
            rw [ModelsFields.tight fields (props.getD []) hmf hdom.2 f (scope ++ [id]) p.1 p.2 hk
              (fun t ht => hnamed t ht) (plainInts_memObj (by simpa [PlainInts] using hp) p hpm)]
    | .named _ _, _, _, _, hdom, _, _, _, _, _ => by simp [InDomain] at hdom
    | .ref _, _, _, hm, _, _, _, _, _, _ => by simp only [Models] at hm
  theorem ModelsFields.tight {nfs : Bool} {st : Store} {re : String → String → Bool} :
      ∀ (fields : List (String × String × GoType)) (props : List (String × NodeId)),
      ModelsFields nfs st fields props → inDomainFields fields = true → ∀ (f : Nat) (scope : List NodeId) (k : String) (v : Json),
      k ∈ jsonNames fields → (∀ t, Json.lookup k props = some t → Valid (evalFuel (specEnvNoRefs st re) f scope t v)) →
      PlainInts v = true → decodableExact fields k v = some true
    | [], _, _, _, _, _, k, _, hk, _, _ => by simp [jsonNames] at hk
    | g :: rest, props, hm, hdom, f, scope, k, v, hk, hval, hp => by
      simp only [ModelsFields] at hm
      simp only [inDomainFields, Bool.and_eq_true, Bool.or_eq_true] at hdom
      simp only [decodableExact]
      split
      · rename_i hc
        simp only [Bool.and_eq_true, Bool.not_eq_true', beq_iff_eq] at hc
        rcases hm.1 with ho | ⟨fid, hl, hmod⟩
        · rw [hc.1] at ho; cases ho
        · rw [hc.2] at hl
          have hd1 : InDomain g.2.2 = true := by
            rcases hdom.1 with h1 | h1
            · rw [hc.1] at h1; cases h1
            · exact h1
          rw [Models.tight g.2.2 false fid hmod hd1 f scope v hp (hval fid hl)]
      · rename_i hc
        refine ModelsFields.tight rest props hm.2 hdom.2 f scope k v (jsonNames_mem_cons hk fun hcon => hc ?_) hval hp
        simp [hcon.1, hcon.2]
end


/-! ### assertions that the decoder does not make -/

/-- a struct schema requires the always-written fields -/
theorem Models.required {nfs : Bool} {st : Store} {re : String → String → Bool} {fields : List (String × String × GoType)}
    {an : Bool} {id : NodeId} (hm : Models nfs st (.struct fields) an id) {f : Nat} {scope : List NodeId}
    {kvs : List (String × Json)} (hv : Valid (evalFuel (specEnvNoRefs st re) f scope id (.obj kvs))) :
    ∀ k, k ∈ alwaysNames fields → (Json.lookup k kvs).isSome = true := by
  simp only [Models] at hm
  obtain ⟨notId, falseId, props, po, rq, _, _, hn, hrq, _, _⟩ := hm
  cases f with
  | zero => obtain ⟨e', he'⟩ := hv; cases he'
  | succ f =>
    have PA := plain_structNode falseId props po rq
    obtain ⟨_, _, _, ha⟩ := (evalFuel_frag hn (PA.1.addNull an) f scope _).1 hv
    rw [asserts_plain rfl (PA.2.addNull an), (addNull_fields an _).2.2.2.2.1] at ha
    intro k hk
    refine ha.2.2.2 kvs rfl k ?_
    have : (structNode falseId props po rq).required.getD [] = rq.getD [] := rfl
    rw [this, hrq]
    exact hk

/-- an array schema fixes the length -/
theorem Models.arrayLen {nfs : Bool} {st : Store} {re : String → String → Bool} {len : Nat} {e : GoType}
    {an : Bool} {id : NodeId} (hm : Models nfs st (.array len e) an id) {f : Nat} {scope : List NodeId}
    {xs : List Json} (hv : Valid (evalFuel (specEnvNoRefs st re) f scope id (.arr xs))) : xs.length = len := by
  simp only [Models] at hm
  obtain ⟨eid, _, hn⟩ := hm
  cases f with
  | zero => obtain ⟨e', he'⟩ := hv; cases he'
  | succ f =>
    have PA := plain_arrayNode len eid
    obtain ⟨_, _, _, ha⟩ := (evalFuel_frag hn (PA.1.addNull an) f scope _).1 hv
    rw [asserts_plain rfl (PA.2.addNull an), (addNull_fields an _).2.2.1, (addNull_fields an _).2.2.2.1] at ha
    obtain ⟨h1, h2⟩ := ha.2.2.1 xs rfl
    have a := h1 len rfl
    have b := h2 len rfl
    omega

end EncJson
end JSV
