/-
  C15 helper file: validateDefaults, definition level.
-/
import JSV.Model.Defaults
namespace JSV
namespace C15
open JSV Go

/-- Schema.all() only lists schemas that exist -/
theorem allNodes_exist (st : Store) : ∀ fuel work, ∀ id ∈ allNodes st fuel work, (st.get? id).isSome = true := by
  intro fuel
  induction fuel with
  | zero => intro work id h; simp [allNodes] at h
  | succ fuel ih =>
    intro work id h
    cases work with
    | nil => simp [allNodes] at h
    | cons w rest =>
      rw [allNodes] at h
      split at h
      · next n hn =>
        rcases List.mem_cons.1 h with rfl | h
        · simp [hn]
        · exact ih _ _ h
      · exact ih _ _ h

theorem validateDefaultsLoop_iff (env : VEnv) (fuel : Nat) : ∀ ids : List NodeId,
    validateDefaultsLoop env fuel ids = .ok () ↔
      ∀ id ∈ ids, ∃ n, env.st.get? id = some n ∧ (env.draft = .d2020 → n.dynamicRef = "") ∧
        ∀ d, n.default = some d → (validateFuel env fuel [] (GoVal.ofJson d) id).isOk = true := by
  intro ids
  induction ids with
  | nil => simp [validateDefaultsLoop]
  | cons id rest ih =>
    rw [validateDefaultsLoop]
    cases hn : env.st.get? id with
    | none =>
      simp only [List.mem_cons, forall_eq_or_imp]
      constructor
      · intro h; cases h
      · rintro ⟨⟨n, h, _⟩, _⟩; rw [hn] at h; cases h
    | some n =>
      simp only [List.mem_cons, forall_eq_or_imp, hn, Option.some.injEq, exists_eq_left']
      by_cases hd : n.dynamicRef = ""
      · simp only [hd, bne_self_eq_false, Bool.false_and, Bool.false_eq_true, if_false, implies_true, true_and]
        cases hdef : n.default with
        | none => simp [ih]
        | some d =>
          simp only [Option.some.injEq, forall_eq']
          cases hv : validateFuel env fuel [] (GoVal.ofJson d) id with
          | ok a => simp [Res.isOk, ih]
          | err => simp [Res.isOk]
          | panic => simp [Res.isOk]
          | fuel => simp [Res.isOk]
      · have : (n.dynamicRef != "") = true := by simpa using hd
        cases hdr : env.draft with
        | d2020 =>
          simp only [this, Bool.true_and, show (Draft.d2020 == Draft.d2020) = true from rfl, if_true]
          constructor
          · intro h; cases h
          · rintro ⟨⟨h, _⟩, _⟩; exact absurd (h trivial) hd
        | d7 =>
          -- draft-07: the keyword is not looked at
          simp only [this, Bool.true_and, show (Draft.d7 == Draft.d2020) = false from rfl, Bool.false_eq_true, if_false,
            reduceCtorEq, false_implies, true_and]
          cases hdef : n.default with
          | none => simp [ih, hdr]
          | some d =>
            simp only [Option.some.injEq, forall_eq']
            cases hv : validateFuel env fuel [] (GoVal.ofJson d) id with
            | ok a => simp [Res.isOk, ih, hdr]
            | err => simp [Res.isOk]
            | panic => simp [Res.isOk]
            | fuel => simp [Res.isOk]

end C15
end JSV
