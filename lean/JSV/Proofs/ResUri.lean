/-
  Helper definition for the RFC 3986 §5.4 examples of C03.
-/
import JSV.Model.Uri
namespace JSV
namespace Uri

/-- url.Parse(base).ResolveReference(url.Parse(ref)).String() -/
def resolveStr (base ref : String) : Res String :=
  Res.bind (Uri.parse base) fun b => Res.bind (Uri.parse ref) fun r =>
    .ok (Uri.toString (resolveReference b r))

end Uri
end JSV
