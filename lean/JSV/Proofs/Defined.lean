/-
  Definedness ("no hang"): on an environment whose in-place reference graph carries a rank certificate
  (`Go.ranked`) and whose tables are complete (`Go.closed`), `Spec.evalFuel` is DEFINED with fuel
  `depth j * (maxRank env + 1) + rankOf env s + 1`.

  Lexicographic argument on (nesting depth of the instance, rank of the schema): an in-place application keeps the
  instance and goes to a schema of strictly smaller rank; an application to a child of the instance goes to an
  instance of strictly smaller depth and to a schema of any rank; each consumes one unit of fuel.
  One lemma per keyword function: "if `sub` is defined wherever the keyword may apply it, the keyword is defined".
-/
import JSV.Proofs.RefineSpecMono
import JSV.Proofs.RefineCheck
import JSV.Model.Guarded
namespace JSV
namespace Refine
open Go GoVal
set_option linter.unusedSimpArgs false

/-! ### `sequence` is defined when its members are -/

theorem sequence_isSome {α} : ∀ (l : List (Option α)), (∀ o, o ∈ l → o.isSome = true) →
    (Spec.sequence l).isSome = true
  | [], _ => rfl
  | none :: l, h => by
    have h0 := h none (List.mem_cons_self)
    cases h0
  | some a :: l, h => by
    have ih := sequence_isSome l (fun o ho => h o (List.mem_cons_of_mem _ ho))
    simp only [Spec.sequence, Option.isSome_map]
    exact ih

theorem sequence_map_isSome {α β} (xs : List β) (f : β → Option α) (h : ∀ x, x ∈ xs → (f x).isSome = true) :
    (Spec.sequence (xs.map f)).isSome = true := by
  apply sequence_isSome
  intro o ho
  obtain ⟨x, hx, rfl⟩ := List.mem_map.1 ho
  exact h x hx

/-! ### nesting depth of the children of an instance -/

theorem depth_le_depthList : ∀ {xs : List Json} {x : Json}, x ∈ xs → Json.depth x ≤ Json.depthList xs
  | [], _, h => nomatch h
  | y :: ys, x, h => by
    simp only [Json.depthList]
    rcases List.mem_cons.1 h with rfl | h'
    · exact Nat.le_max_left _ _
    · exact Nat.le_trans (depth_le_depthList h') (Nat.le_max_right _ _)

theorem depth_le_depthObj : ∀ {kvs : List (String × Json)} {p : String × Json}, p ∈ kvs →
    Json.depth p.2 ≤ Json.depthObj kvs
  | [], _, h => nomatch h
  | (k, v) :: rest, p, h => by
    simp only [Json.depthObj]
    rcases List.mem_cons.1 h with rfl | h'
    · exact Nat.le_max_left _ _
    · exact Nat.le_trans (depth_le_depthObj h') (Nat.le_max_right _ _)

theorem depth_lt_arr {xs : List Json} {x : Json} (h : x ∈ xs) : Json.depth x < Json.depth (.arr xs) := by
  have := depth_le_depthList h
  simp only [Json.depth]
  omega

theorem depth_lt_obj {kvs : List (String × Json)} {p : String × Json} (h : p ∈ kvs) :
    Json.depth p.2 < Json.depth (.obj kvs) := by
  have := depth_le_depthObj h
  simp only [Json.depth]
  omega

theorem depth_str_lt_obj (k : String) (kvs : List (String × Json)) :
    Json.depth (.str k) < Json.depth (.obj kvs) := by
  simp only [Json.depth]
  omega

/-! ### the in-place keywords -/

section inplace
variable (sub : NodeId → Json → Spec.Out)

theorem kwRef_isSome (senv : Spec.Env) (s : NodeId) (n : Node) (j : Json)
    (h : (n.ref != "") = true → ∃ t, senv.refTarget s = some t ∧ (sub t j).isSome = true) :
    (Spec.kwRef senv sub s n j).isSome = true := by
  unfold Spec.kwRef Spec.inPlace
  by_cases hp : (n.ref != "") = true
  · obtain ⟨t, ht, hd⟩ := h hp
    rw [if_pos hp, ht]
    exact hd
  · rw [if_neg hp]
    rfl

theorem kwDynamicRef_isSome (senv : Spec.Env) (scope : List NodeId) (s : NodeId) (n : Node) (j : Json)
    (h : (n.dynamicRef != "") = true → ∃ i, senv.dynInitial s = some i ∧ (sub i j).isSome = true ∧
        ∀ t, (senv.dynName s == "") = false → Spec.dynTarget senv scope (senv.dynName s) = some t →
          (sub t j).isSome = true) :
    (Spec.kwDynamicRef senv sub scope s n j).isSome = true := by
  unfold Spec.kwDynamicRef
  by_cases hp : (n.dynamicRef != "") = true
  · obtain ⟨i, hi, hd, hdyn⟩ := h hp
    rw [if_pos hp, hi]
    simp only
    by_cases hnm : (senv.dynName s == "") = true
    · rw [if_pos hnm]
      exact hd
    · rw [if_neg hnm]
      cases ht : Spec.dynTarget senv scope (senv.dynName s) with
      | none => exact hd
      | some t => exact hdyn t (by simpa using hnm) ht
  · rw [if_neg hp]
    rfl

theorem kwAllOf_isSome (n : Node) (j : Json) (h : ∀ t, t ∈ n.allOf.getD [] → (sub t j).isSome = true) :
    (Spec.kwAllOf sub n j).isSome = true := by
  unfold Spec.kwAllOf
  cases ha : n.allOf with
  | none => rfl
  | some ss =>
    simp only [Option.isSome_map]
    exact sequence_map_isSome ss _ (fun t ht => h t (by rw [ha]; exact ht))

theorem kwAnyOf_isSome (n : Node) (j : Json) (h : ∀ t, t ∈ n.anyOf.getD [] → (sub t j).isSome = true) :
    (Spec.kwAnyOf sub n j).isSome = true := by
  unfold Spec.kwAnyOf
  cases ha : n.anyOf with
  | none => rfl
  | some ss =>
    simp only [Option.isSome_map]
    exact sequence_map_isSome ss _ (fun t ht => h t (by rw [ha]; exact ht))

theorem kwOneOf_isSome (n : Node) (j : Json) (h : ∀ t, t ∈ n.oneOf.getD [] → (sub t j).isSome = true) :
    (Spec.kwOneOf sub n j).isSome = true := by
  unfold Spec.kwOneOf
  cases ha : n.oneOf with
  | none => rfl
  | some ss =>
    simp only [Option.isSome_map]
    exact sequence_map_isSome ss _ (fun t ht => h t (by rw [ha]; exact ht))

theorem kwNot_isSome (n : Node) (j : Json) (h : ∀ t, n.not = some t → (sub t j).isSome = true) :
    (Spec.kwNot sub n j).isSome = true := by
  unfold Spec.kwNot
  cases ha : n.not with
  | none => rfl
  | some t =>
    simp only [Option.isSome_map]
    exact h t ha

theorem kwIf_isSome (n : Node) (j : Json)
    (h : ∀ t, (n.if_ = some t ∨ n.then_ = some t ∨ n.else_ = some t) → (sub t j).isSome = true) :
    (Spec.kwIf sub n j).isSome = true := by
  unfold Spec.kwIf
  cases hi : n.if_ with
  | none => rfl
  | some c =>
    simp only
    cases hc : sub c j with
    | none =>
      have h0 := h c (Or.inl hi)
      rw [hc] at h0
      cases h0
    | some rc =>
      simp only
      cases hb : (if rc.isSome = true then n.then_ else n.else_) with
      | none => rfl
      | some b =>
        simp only [Option.isSome_map]
        apply h b
        by_cases hrc : rc.isSome = true
        · rw [if_pos hrc] at hb
          exact Or.inr (Or.inl hb)
        · rw [if_neg hrc] at hb
          exact Or.inr (Or.inr hb)

theorem kwDependentSchemas_isSome (senv : Spec.Env) (n : Node) (j : Json)
    (h : ∀ t, t ∈ (n.dependentSchemas.getD []).map (·.2) ++ (n.dependencySchemas.getD []).map (·.2) →
      (sub t j).isSome = true) :
    (Spec.kwDependentSchemas senv sub n j).isSome = true := by
  unfold Spec.kwDependentSchemas
  cases j with
  | obj kvs =>
    simp only [Option.isSome_map]
    apply sequence_map_isSome
    intro p hp
    obtain ⟨k, t⟩ := p
    simp only
    apply h
    have hp' := (List.mem_filter.1 hp).1
    cases hd : senv.draft with
    | d7 =>
      rw [hd] at hp'
      exact List.mem_append_right _ (List.mem_map.2 ⟨(k, t), hp', rfl⟩)
    | d2020 =>
      rw [hd] at hp'
      exact List.mem_append_left _ (List.mem_map.2 ⟨(k, t), hp', rfl⟩)
  | _ => rfl

end inplace

/-! ### the instance-descending keywords

`h`: `sub` is defined on every instance-descending target of the node, applied to any instance of smaller depth. -/

theorem mem_desc_prefixItems {n : Node} {t : NodeId} (h : t ∈ n.prefixItems.getD []) : t ∈ descEdges n := by
  simp [descEdges, h]
theorem mem_desc_items {n : Node} {t : NodeId} (h : n.items = some t) : t ∈ descEdges n := by
  simp [descEdges, h]
theorem mem_desc_itemsArray {n : Node} {t : NodeId} (h : t ∈ n.itemsArray.getD []) : t ∈ descEdges n := by
  simp [descEdges, h]
theorem mem_desc_additionalItems {n : Node} {t : NodeId} (h : n.additionalItems = some t) : t ∈ descEdges n := by
  simp [descEdges, h]
theorem mem_desc_contains {n : Node} {t : NodeId} (h : n.contains = some t) : t ∈ descEdges n := by
  simp [descEdges, h]
theorem mem_desc_properties {n : Node} {k : String} {t : NodeId} (h : (k, t) ∈ n.properties.getD []) :
    t ∈ descEdges n := by
  have : t ∈ (n.properties.getD []).map (·.2) := List.mem_map.2 ⟨(k, t), h, rfl⟩
  simp [descEdges, this]
theorem mem_desc_patternProperties {n : Node} {k : String} {t : NodeId} (h : (k, t) ∈ n.patternProperties.getD []) :
    t ∈ descEdges n := by
  have : t ∈ (n.patternProperties.getD []).map (·.2) := List.mem_map.2 ⟨(k, t), h, rfl⟩
  simp [descEdges, this]
theorem mem_desc_additionalProperties {n : Node} {t : NodeId} (h : n.additionalProperties = some t) :
    t ∈ descEdges n := by
  simp [descEdges, h]
theorem mem_desc_propertyNames {n : Node} {t : NodeId} (h : n.propertyNames = some t) : t ∈ descEdges n := by
  simp [descEdges, h]
/-- blanking the keywords of later drafts removes edges only -/
theorem mem_desc_of_vocab {d : Draft} {n : Node} {t : NodeId} (h : t ∈ descEdges (Spec.vocab d n)) : t ∈ descEdges n := by
  cases d
  · simp only [descEdges, Spec.vocab, beq_d7_d7, if_true, Option.toList_none, List.append_nil] at h
    simp only [descEdges, List.mem_append] at h ⊢
    exact Or.inl (Or.inl h)
  · exact h
theorem mem_desc_unevaluatedItems {n : Node} {t : NodeId} (h : n.unevaluatedItems = some t) : t ∈ descEdges n := by
  simp [descEdges, h]
theorem mem_desc_unevaluatedProperties {n : Node} {t : NodeId} (h : n.unevaluatedProperties = some t) :
    t ∈ descEdges n := by
  simp [descEdges, h]

theorem arrayShape_pre_mem (senv : Spec.Env) (n : Node) (t : NodeId) (h : t ∈ (Spec.arrayShape senv n).1) :
    t ∈ descEdges n := by
  unfold Spec.arrayShape at h
  cases hd : senv.draft with
  | d2020 => rw [hd] at h; exact mem_desc_prefixItems h
  | d7 =>
    rw [hd] at h
    cases hia : n.itemsArray with
    | none => rw [hia] at h; cases h
    | some ia => rw [hia] at h; exact mem_desc_itemsArray (by rw [hia]; exact h)

theorem arrayShape_rest_mem (senv : Spec.Env) (n : Node) (t : NodeId) (h : (Spec.arrayShape senv n).2 = some t) :
    t ∈ descEdges n := by
  unfold Spec.arrayShape at h
  cases hd : senv.draft with
  | d2020 => rw [hd] at h; exact mem_desc_items h
  | d7 =>
    rw [hd] at h
    cases hia : n.itemsArray with
    | none => rw [hia] at h; exact mem_desc_items h
    | some ia => rw [hia] at h; exact mem_desc_additionalItems h

section desc
variable (sub : NodeId → Json → Spec.Out) (n : Node) (j : Json)
  (h : ∀ t, t ∈ descEdges n → ∀ x, Json.depth x < Json.depth j → (sub t x).isSome = true)
include h

theorem kwItems_isSome (senv : Spec.Env) : (Spec.kwItems senv sub n j).isSome = true := by
  unfold Spec.kwItems
  cases j with
  | arr xs =>
    simp only
    have hpre := arrayShape_pre_mem senv n
    have hrest := arrayShape_rest_mem senv n
    generalize Spec.arrayShape senv n = p at hpre hrest
    obtain ⟨pre, rest⟩ := p
    simp only at hpre hrest ⊢
    rw [Option.isSome_map]
    apply sequence_isSome
    intro o ho
    rcases List.mem_append.1 ho with ho | ho
    · obtain ⟨c, hc, rfl⟩ := List.mem_map.1 ho
      have hz := List.of_mem_zip hc
      exact h c.1 (hpre _ hz.1) c.2 (depth_lt_arr hz.2)
    · cases rest with
      | none => cases ho
      | some t =>
        obtain ⟨x, hx, rfl⟩ := List.mem_map.1 ho
        exact h t (hrest t rfl) x (depth_lt_arr (List.mem_of_mem_drop hx))
  | _ => rfl

theorem kwContains_isSome : (Spec.kwContains sub n j).isSome = true := by
  unfold Spec.kwContains
  cases j with
  | arr xs =>
    cases hc : n.contains with
    | none => rfl
    | some c =>
      simp only [Option.isSome_map]
      exact sequence_map_isSome xs _ (fun x hx => h c (mem_desc_contains hc) x (depth_lt_arr hx))
  | _ => rfl

theorem kwPropertyNames_isSome : (Spec.kwPropertyNames sub n j).isSome = true := by
  unfold Spec.kwPropertyNames
  cases j with
  | obj kvs =>
    cases hc : n.propertyNames with
    | none => rfl
    | some t =>
      simp only [Option.isSome_map]
      exact sequence_map_isSome kvs _ (fun p _ => h t (mem_desc_propertyNames hc) _ (depth_str_lt_obj p.1 kvs))
  | _ => rfl

theorem kwUnevaluatedItems_isSome (ev : Spec.Ev) : (Spec.kwUnevaluatedItems sub n j ev).isSome = true := by
  unfold Spec.kwUnevaluatedItems
  cases j with
  | arr xs =>
    cases hc : n.unevaluatedItems with
    | none => rfl
    | some t =>
      simp only [Option.isSome_map]
      apply sequence_map_isSome
      intro p hp
      have hz := List.of_mem_zip (List.mem_filter.1 hp).1
      exact h t (mem_desc_unevaluatedItems hc) p.1 (depth_lt_arr hz.1)
  | _ => rfl

theorem kwUnevaluatedProps_isSome (ev : Spec.Ev) : (Spec.kwUnevaluatedProps sub n j ev).isSome = true := by
  unfold Spec.kwUnevaluatedProps
  cases j with
  | obj kvs =>
    cases hc : n.unevaluatedProperties with
    | none => rfl
    | some t =>
      simp only [Option.isSome_map]
      apply sequence_map_isSome
      intro p hp
      exact h t (mem_desc_unevaluatedProperties hc) p.2 (depth_lt_obj (List.mem_filter.1 hp).1)
  | _ => rfl

theorem kwProps_isSome (senv : Spec.Env) : (Spec.kwProps senv sub n j).isSome = true := by
  cases j with
  | obj kvs =>
    have hnamed : ∀ o, o ∈ (namedL sub (n.properties.getD []) kvs).map (·.2) → o.isSome = true := by
      intro o ho
      obtain ⟨q, hq, rfl⟩ := List.mem_map.1 ho
      unfold namedL at hq
      obtain ⟨p, hp, hpq⟩ := List.mem_filterMap.1 hq
      cases hl : Json.lookup p.1 (n.properties.getD []) with
      | none => rw [hl] at hpq; cases hpq
      | some t =>
        rw [hl] at hpq
        simp only [Option.map_some, Option.some.injEq] at hpq
        subst hpq
        exact h t (mem_desc_properties (Json.mem_of_lookup hl)) p.2 (depth_lt_obj hp)
    have hpat : ∀ o, o ∈ (patternedL senv.reMatch sub (n.patternProperties.getD []) kvs).map (·.2) →
        o.isSome = true := by
      intro o ho
      obtain ⟨q, hq, rfl⟩ := List.mem_map.1 ho
      unfold patternedL at hq
      obtain ⟨p, hp, hq'⟩ := List.mem_flatMap.1 hq
      obtain ⟨r, hr, rfl⟩ := List.mem_map.1 hq'
      exact h r.2 (mem_desc_patternProperties (k := r.1) (List.mem_filter.1 hr).1) p.2 (depth_lt_obj hp)
    cases hap : n.additionalProperties with
    | none =>
      rw [kwProps_none senv sub n kvs hap, Option.isSome_map]
      apply sequence_isSome
      intro o ho
      rw [List.map_append, List.map_append] at ho
      rcases List.mem_append.1 ho with ho | ho
      · rcases List.mem_append.1 ho with ho | ho
        · exact hnamed o ho
        · exact hpat o ho
      · cases ho
    | some t =>
      rw [kwProps_some senv sub n kvs t hap, Option.isSome_map]
      apply sequence_isSome
      intro o ho
      rw [List.map_append, List.map_append] at ho
      rcases List.mem_append.1 ho with ho | ho
      · rcases List.mem_append.1 ho with ho | ho
        · exact hnamed o ho
        · exact hpat o ho
      · obtain ⟨q, hq, rfl⟩ := List.mem_map.1 ho
        unfold additionalL at hq
        obtain ⟨p, hp, rfl⟩ := List.mem_map.1 hq
        exact h t (mem_desc_additionalProperties hap) p.2 (depth_lt_obj (List.mem_filter.1 hp).1)
  | _ => rfl

end desc

/-! ### the in-place edges of the evaluator cover the in-place applications of the Spec -/

/-- `$ref` edge -/
def refEdges (env : VEnv) (s : NodeId) (n : Node) : List NodeId :=
  if n.ref != "" then ((env.info? s).bind (·.resolvedRef)).toList else []

/-- `$dynamicRef` edges: the initial target and every schema declaring the dynamic anchor -/
def dynEdges (env : VEnv) (s : NodeId) (n : Node) : List NodeId :=
  if n.dynamicRef != "" then
    (((env.info? s).bind (·.resolvedDynamicRef)).toList) ++
    (match env.info? s with
     | some i => if i.dynamicRefAnchor != "" then dynAnchorTargets env.infos i.dynamicRefAnchor else []
     | none => [])
  else []

theorem inPlaceEdges_eq (env : VEnv) (s : NodeId) (n : Node) (hn : env.st.get? s = some n) :
    inPlaceEdges env s =
      refEdges env s n ++ dynEdges env s n ++ (n.allOf.getD []) ++ (n.anyOf.getD []) ++ (n.oneOf.getD []) ++
        n.not.toList ++ n.if_.toList ++ n.then_.toList ++ n.else_.toList ++
        ((n.dependentSchemas.getD []).map (·.2)) ++ ((n.dependencySchemas.getD []).map (·.2)) := by
  unfold inPlaceEdges refEdges dynEdges
  rw [hn]
  rfl

section edges
variable (env : VEnv) (s : NodeId) (n : Node) (hn : env.st.get? s = some n)
include hn

theorem mem_edges_ref {t : NodeId} (h : t ∈ refEdges env s n) : t ∈ inPlaceEdges env s := by
  rw [inPlaceEdges_eq env s n hn]; simp [h]
theorem mem_edges_dyn {t : NodeId} (h : t ∈ dynEdges env s n) : t ∈ inPlaceEdges env s := by
  rw [inPlaceEdges_eq env s n hn]; simp [h]
theorem mem_edges_allOf {t : NodeId} (h : t ∈ n.allOf.getD []) : t ∈ inPlaceEdges env s := by
  rw [inPlaceEdges_eq env s n hn]; simp [h]
theorem mem_edges_anyOf {t : NodeId} (h : t ∈ n.anyOf.getD []) : t ∈ inPlaceEdges env s := by
  rw [inPlaceEdges_eq env s n hn]; simp [h]
theorem mem_edges_oneOf {t : NodeId} (h : t ∈ n.oneOf.getD []) : t ∈ inPlaceEdges env s := by
  rw [inPlaceEdges_eq env s n hn]; simp [h]
theorem mem_edges_not {t : NodeId} (h : n.not = some t) : t ∈ inPlaceEdges env s := by
  rw [inPlaceEdges_eq env s n hn]; simp [h]
theorem mem_edges_if {t : NodeId} (h : n.if_ = some t ∨ n.then_ = some t ∨ n.else_ = some t) :
    t ∈ inPlaceEdges env s := by
  rw [inPlaceEdges_eq env s n hn]
  rcases h with h | h | h <;> simp [h]
theorem mem_edges_dependent {t : NodeId}
    (h : t ∈ (n.dependentSchemas.getD []).map (·.2) ++ (n.dependencySchemas.getD []).map (·.2)) :
    t ∈ inPlaceEdges env s := by
  rw [inPlaceEdges_eq env s n hn]
  rcases List.mem_append.1 h with h | h <;> simp [h]

end edges

/-- what `$dynamicRef` designates on any scope is one of the recorded dynamic-anchor targets -/
theorem dynTarget_mem (env : VEnv) (scope : List NodeId) (name : String) (t : NodeId)
    (h : Spec.dynTarget (specEnvOf env) scope name = some t) : t ∈ dynAnchorTargets env.infos name := by
  unfold Spec.dynTarget at h
  obtain ⟨x, _, hx⟩ := List.exists_of_findSome?_eq_some h
  cases hr : (specEnvOf env).resource x with
  | none => rw [hr] at hx; cases hx
  | some r =>
    rw [hr] at hx
    simp only [specEnvOf] at hx
    cases hi : env.info? r with
    | none => rw [hi] at hx; cases hx
    | some i =>
      rw [hi] at hx
      simp only [Option.bind_some] at hx
      cases hl : Json.lookup name i.anchors with
      | none => rw [hl] at hx; cases hx
      | some a =>
        rw [hl] at hx
        simp only at hx
        by_cases hdy : a.dynamic = true
        · rw [if_pos hdy] at hx
          simp only [Option.some.injEq] at hx
          unfold dynAnchorTargets
          apply List.mem_flatMap.2
          refine ⟨(r, i), lookupNat_mem hi, ?_⟩
          apply List.mem_filterMap.2
          refine ⟨(name, a), Json.mem_of_lookup hl, ?_⟩
          simp only [beq_self_eq_true, hdy, Bool.and_self, if_true, hx]
        · rw [if_neg hdy] at hx; cases hx

/-! ### one step -/

theorem isSome_eq_some {α} {o : Option α} (h : o.isSome = true) : ∃ r, o = some r :=
  Option.isSome_iff_exists.1 h

theorem specTail_isSome (R : Spec.R) (A : Bool) (ui up : Spec.Ev → Option Spec.R)
    (h1 : ∀ ev, (ui ev).isSome = true) (h2 : ∀ ev, (up ev).isSome = true) : (specTail R A ui up).isSome = true := by
  unfold specTail
  cases R with
  | none => rfl
  | some ev0 =>
    simp only
    split
    · rfl
    · obtain ⟨ri, hri⟩ := isSome_eq_some (h1 ev0)
      obtain ⟨rp, hrp⟩ := isSome_eq_some (h2 ev0)
      rw [hri, hrp]
      rfl

/-- the tables are complete at `s` -/
structure ClosedAt (env : VEnv) (s : NodeId) (n : Node) : Prop where
  ref : (n.ref != "") = true → ((env.info? s).bind (·.resolvedRef)).isSome = true
  dyn : env.draft = .d2020 → (n.dynamicRef != "") = true → ((env.info? s).bind (·.resolvedDynamicRef)).isSome = true

/-- one step of the Spec is defined if the recursive applications are: on the in-place edges with the same instance,
    on the instance-descending edges with every instance of smaller depth -/
theorem evalStep_isSome (env : VEnv) (srec : Spec.Rec) (scope0 : List NodeId) (s : NodeId) (j : Json) (n : Node)
    (hn : env.st.get? s = some n) (hcl : ClosedAt env s n)
    (hin : ∀ t, t ∈ inPlaceEdges env s → (srec (scope0 ++ [s]) t j).isSome = true)
    (hch : ∀ t, t ∈ descEdges n → ∀ x, Json.depth x < Json.depth j → (srec (scope0 ++ [s]) t x).isSome = true) :
    (Spec.evalStep (specEnvOf env) srec scope0 s j).isSome = true := by
  have hn' : (specEnvOf env).st.get? s = some n := hn
  have h1 : (Spec.kwRef (specEnvOf env) (srec (scope0 ++ [s])) s n j).isSome = true := by
    apply kwRef_isSome
    intro hp
    obtain ⟨t, ht⟩ := isSome_eq_some (hcl.ref hp)
    refine ⟨t, ht, hin t (mem_edges_ref env s n hn ?_)⟩
    unfold refEdges
    rw [if_pos hp, ht]
    simp
  by_cases hd7 : ((specEnvOf env).draft == .d7 && n.ref != "") = true
  · unfold Spec.evalStep
    simp only [hn', hd7, if_true, Option.isSome_map]
    exact h1
  · have hnd7 : ((specEnvOf env).draft == .d7 && n.ref != "") = false := by simpa using hd7
    have h2 : (Spec.kwDynamicRef (specEnvOf env) (srec (scope0 ++ [s])) (scope0 ++ [s]) s
        (Spec.vocab (specEnvOf env).draft n) j).isSome = true := by
      apply kwDynamicRef_isSome
      intro hp0
      have hp20 : env.draft = .d2020 ∧ (n.dynamicRef != "") = true := by
        cases hdd : (specEnvOf env).draft <;> rw [hdd] at hp0
        · simp [Spec.vocab] at hp0
        · exact ⟨hdd, hp0⟩
      obtain ⟨h20, hp⟩ := hp20
      obtain ⟨i, hi⟩ := isSome_eq_some (hcl.dyn h20 hp)
      refine ⟨i, hi, hin i (mem_edges_dyn env s n hn ?_), ?_⟩
      · unfold dynEdges
        rw [if_pos hp, hi]
        simp
      · intro t hnm ht
        apply hin t (mem_edges_dyn env s n hn ?_)
        have hmem := dynTarget_mem env _ _ t ht
        unfold dynEdges
        rw [if_pos hp]
        apply List.mem_append_right
        cases hinfo : env.info? s with
        | none => rw [hinfo] at hi; cases hi
        | some i0 =>
          have hname : (specEnvOf env).dynName s = i0.dynamicRefAnchor := by
            simp only [specEnvOf, hinfo, Option.map_some, Option.getD_some]
          rw [hname] at hnm hmem
          simp only
          rw [if_pos (by simpa using hnm)]
          exact hmem
    have h3 := kwAllOf_isSome (srec (scope0 ++ [s])) n j (fun t ht => hin t (mem_edges_allOf env s n hn ht))
    have h4 := kwAnyOf_isSome (srec (scope0 ++ [s])) n j (fun t ht => hin t (mem_edges_anyOf env s n hn ht))
    have h5 := kwOneOf_isSome (srec (scope0 ++ [s])) n j (fun t ht => hin t (mem_edges_oneOf env s n hn ht))
    have h6 := kwNot_isSome (srec (scope0 ++ [s])) n j (fun t ht => hin t (mem_edges_not env s n hn ht))
    have h7 := kwIf_isSome (srec (scope0 ++ [s])) n j (fun t ht => hin t (mem_edges_if env s n hn ht))
    have h8 := kwItems_isSome (srec (scope0 ++ [s])) n j hch (specEnvOf env)
    have hch' : ∀ t, t ∈ descEdges (Spec.vocab (specEnvOf env).draft n) → ∀ x, Json.depth x < Json.depth j →
        (srec (scope0 ++ [s]) t x).isSome = true := fun t ht => hch t (mem_desc_of_vocab ht)
    have h9 := kwContains_isSome (srec (scope0 ++ [s])) (Spec.vocab (specEnvOf env).draft n) j hch'
    have h10 := kwProps_isSome (srec (scope0 ++ [s])) n j hch (specEnvOf env)
    have h11 := kwPropertyNames_isSome (srec (scope0 ++ [s])) n j hch
    have h12 := kwDependentSchemas_isSome (srec (scope0 ++ [s])) (specEnvOf env) n j
      (fun t ht => hin t (mem_edges_dependent env s n hn ht))
    obtain ⟨r1, h1⟩ := isSome_eq_some h1
    obtain ⟨r2, h2⟩ := isSome_eq_some h2
    obtain ⟨r3, h3⟩ := isSome_eq_some h3
    obtain ⟨r4, h4⟩ := isSome_eq_some h4
    obtain ⟨r5, h5⟩ := isSome_eq_some h5
    obtain ⟨r6, h6⟩ := isSome_eq_some h6
    obtain ⟨r7, h7⟩ := isSome_eq_some h7
    obtain ⟨r8, h8⟩ := isSome_eq_some h8
    obtain ⟨r9, h9⟩ := isSome_eq_some h9
    obtain ⟨r10, h10⟩ := isSome_eq_some h10
    obtain ⟨r11, h11⟩ := isSome_eq_some h11
    obtain ⟨r12, h12⟩ := isSome_eq_some h12
    rw [evalStep_defined (specEnvOf env) srec scope0 s j n hn' hnd7 h1 h2 h3 h4 h5 h6 h7 h8 h9 h10 h11 h12]
    exact specTail_isSome _ _ _ _ (fun ev => kwUnevaluatedItems_isSome (srec (scope0 ++ [s])) _ j hch' ev)
      (fun ev => kwUnevaluatedProps_isSome (srec (scope0 ++ [s])) _ j hch' ev)

/-! ### what the two decidable certificates say -/

/-- `ranked`: the rank strictly decreases along every in-place edge -/
theorem ranked_spec (env : VEnv) (h : ranked env = true) (s t : NodeId) (hs : s < env.st.size)
    (ht : t ∈ inPlaceEdges env s) : rankOf env t < rankOf env s := by
  unfold ranked rankedBy at h
  have h1 := List.all_eq_true.1 h s (List.mem_range.2 hs)
  have h2 := List.all_eq_true.1 h1 t ht
  exact of_decide_eq_true h2

theorem le_foldl_max : ∀ (l : List Nat) (a : Nat), a ≤ l.foldl max a ∧ ∀ x, x ∈ l → x ≤ l.foldl max a
  | [], a => ⟨Nat.le_refl a, fun _ h => nomatch h⟩
  | y :: l, a => by
    have ih := le_foldl_max l (max a y)
    simp only [List.foldl_cons]
    refine ⟨Nat.le_trans (Nat.le_max_left a y) ih.1, ?_⟩
    intro x hx
    rcases List.mem_cons.1 hx with rfl | hx
    · exact Nat.le_trans (Nat.le_max_right a x) ih.1
    · exact ih.2 x hx

theorem rankOf_le_maxRank (env : VEnv) (s : NodeId) : rankOf env s ≤ maxRank env := by
  unfold rankOf maxRank
  by_cases hs : s < (rankTable env).size
  · have e : (rankTable env).getD s 0 = (rankTable env)[s] := by
      rw [Array.getD_eq_getD_getElem?, Array.getElem?_eq_getElem hs, Option.getD_some]
    rw [e]
    exact (le_foldl_max _ 0).2 _ (Array.getElem_mem_toList hs)
  · have e : (rankTable env).getD s 0 = 0 := by
      rw [Array.getD_eq_getD_getElem?, Array.getElem?_eq_none (Nat.le_of_not_lt hs), Option.getD_none]
    rw [e]
    exact Nat.zero_le _

/-- `closed`: recorded `$ref` / `$dynamicRef` targets, and every applied schema is a node of the store -/
theorem closed_spec (env : VEnv) (h : closed env = true) (s : NodeId) (n : Node) (hn : env.st.get? s = some n) :
    ClosedAt env s n ∧ ∀ t, t ∈ inPlaceEdges env s ++ descEdges n → t < env.st.size := by
  have hlt : s < env.st.size := (Array.getElem?_eq_some_iff.1 hn).1
  unfold closed at h
  have h1 := List.all_eq_true.1 h s (List.mem_range.2 hlt)
  rw [hn] at h1
  simp only [Bool.and_eq_true, Bool.or_eq_true, List.all_eq_true, decide_eq_true_eq] at h1
  obtain ⟨⟨hr, hd⟩, he⟩ := h1
  refine ⟨⟨?_, ?_⟩, he⟩
  · intro hp
    rcases hr with hr | hr
    · simp only [bne, hr, Bool.not_true] at hp
      cases hp
    · exact hr
  · intro h20 hp
    rcases hd with (hd | hd) | hd
    · simp only [bne, hd, Bool.not_true] at hp
      cases hp
    · rw [h20] at hd; cases hd
    · exact hd

/-! ### the Spec is defined -/

/-- **Definedness.**  Lexicographic induction on (depth of the instance, rank of the schema), one unit of fuel per step. -/
theorem evalFuel_isSome (env : VEnv) (hr : ranked env = true) (hc : closed env = true) :
    ∀ (fuel : Nat) (scope : List NodeId) (s : NodeId) (j : Json), s < env.st.size →
      Json.depth j * (maxRank env + 1) + rankOf env s + 1 ≤ fuel →
      (Spec.evalFuel (specEnvOf env) fuel scope s j).isSome = true
  | 0, _, _, _, _, hf => by omega
  | fuel + 1, scope, s, j, hs, hf => by
    have hn : env.st.get? s = some env.st[s] := Array.getElem?_eq_getElem hs
    obtain ⟨hcl, hin⟩ := closed_spec env hc s _ hn
    show (Spec.evalStep (specEnvOf env) (Spec.evalFuel (specEnvOf env) fuel) scope s j).isSome = true
    apply evalStep_isSome env _ scope s j _ hn hcl
    · intro t ht
      have hlt := ranked_spec env hr s t hs ht
      exact evalFuel_isSome env hr hc fuel _ t j (hin t (List.mem_append_left _ ht)) (by omega)
    · intro t ht x hx
      have hrk := rankOf_le_maxRank env t
      have hm : (Json.depth x + 1) * (maxRank env + 1) ≤ Json.depth j * (maxRank env + 1) :=
        Nat.mul_le_mul_right _ hx
      rw [Nat.add_mul, Nat.one_mul] at hm
      exact evalFuel_isSome env hr hc fuel _ t x (hin t (List.mem_append_right _ ht)) (by omega)

/-- a bound that does not mention the schema -/
theorem evalFuel_isSome_uniform (env : VEnv) (hr : ranked env = true) (hc : closed env = true)
    (fuel : Nat) (scope : List NodeId) (s : NodeId) (j : Json) (hs : s < env.st.size)
    (hf : (Json.depth j + 1) * (maxRank env + 1) ≤ fuel) :
    (Spec.evalFuel (specEnvOf env) fuel scope s j).isSome = true := by
  have hrk := rankOf_le_maxRank env s
  rw [Nat.add_mul, Nat.one_mul] at hf
  exact evalFuel_isSome env hr hc fuel scope s j hs (by omega)

/-! ### a bound on the ranks that does not need the table: `maxRank env ≤ env.st.size + 1` -/

/-- every entry of the table is at most `b` -/
def AllLe (b : Nat) (r : Array Nat) : Prop := ∀ x, x ∈ r.toList → x ≤ b

theorem getD_le_of_AllLe {b : Nat} {r : Array Nat} (h : AllLe b r) (t : Nat) : r.getD t 0 ≤ b := by
  by_cases ht : t < r.size
  · rw [Array.getD_eq_getD_getElem?, Array.getElem?_eq_getElem ht, Option.getD_some]
    exact h _ (Array.getElem_mem_toList ht)
  · rw [Array.getD_eq_getD_getElem?, Array.getElem?_eq_none (Nat.le_of_not_lt ht), Option.getD_none]
    exact Nat.zero_le _

theorem foldl_relax_le {b : Nat} {r : Array Nat} (h : AllLe b r) : ∀ (ts : List NodeId) (m : Nat), m ≤ b + 1 →
    ts.foldl (fun m t => max m (r.getD t 0 + 1)) m ≤ b + 1
  | [], _, hm => hm
  | t :: ts, m, hm => by
    simp only [List.foldl_cons]
    apply foldl_relax_le h ts
    have := getD_le_of_AllLe h t
    exact Nat.max_le.2 ⟨hm, by omega⟩

theorem relaxRanks_le (edges : List (List NodeId)) {b : Nat} {r : Array Nat} (h : AllLe b r) :
    AllLe (b + 1) (relaxRanks edges r) := by
  intro x hx
  unfold relaxRanks at hx
  obtain ⟨ts, _, rfl⟩ := List.mem_map.1 hx
  exact foldl_relax_le h ts 0 (Nat.zero_le _)

theorem iterRanks_le (edges : List (List NodeId)) : ∀ (k b : Nat) (r : Array Nat), AllLe b r →
    AllLe (b + k) (iterRanks edges k r)
  | 0, _, _, h => h
  | k + 1, b, r, h => by
    have ih := iterRanks_le edges k (b + 1) _ (relaxRanks_le edges h)
    rw [show b + (k + 1) = b + 1 + k by omega]
    exact ih

theorem foldl_max_le {b : Nat} : ∀ (l : List Nat) (a : Nat), a ≤ b → (∀ x, x ∈ l → x ≤ b) → l.foldl max a ≤ b
  | [], _, ha, _ => ha
  | y :: l, a, ha, h => by
    simp only [List.foldl_cons]
    exact foldl_max_le l (max a y) (Nat.max_le.2 ⟨ha, h y (List.mem_cons_self)⟩)
      (fun x hx => h x (List.mem_cons_of_mem _ hx))

theorem maxRank_le_size (env : VEnv) : maxRank env ≤ env.st.size + 1 := by
  unfold maxRank rankTable
  have h := iterRanks_le (inPlaceTable env) (env.st.size + 1) 0 #[] (fun _ hx => nomatch hx)
  rw [Nat.zero_add] at h
  exact foldl_max_le _ 0 (Nat.zero_le _) h

/-- the bound with the size of the store in place of the largest rank -/
theorem evalFuel_isSome_size (env : VEnv) (hr : ranked env = true) (hc : closed env = true)
    (fuel : Nat) (scope : List NodeId) (s : NodeId) (j : Json) (hs : s < env.st.size)
    (hf : (Json.depth j + 1) * (env.st.size + 2) ≤ fuel) :
    (Spec.evalFuel (specEnvOf env) fuel scope s j).isSome = true := by
  apply evalFuel_isSome_uniform env hr hc fuel scope s j hs
  have h1 : maxRank env + 1 ≤ env.st.size + 2 := by have := maxRank_le_size env; omega
  exact Nat.le_trans (Nat.mul_le_mul_left _ h1) hf

/-! ### `ranked` is at least as strict as `guarded`

A rank certificate excludes in-place cycles, so the breadth-first search of `guarded` finds none: a prefilter on
`ranked` never lets through a universe that `guarded` rejects. -/

theorem inPlaceEdges_lt_size (env : VEnv) (u x : NodeId) (h : x ∈ inPlaceEdges env u) : u < env.st.size := by
  unfold inPlaceEdges at h
  cases hn : env.st.get? u with
  | none => rw [hn] at h; cases h
  | some n => exact (Array.getElem?_eq_some_iff.1 hn).1

/-- everything the search collects lies strictly below the rank of its starting point -/
theorem reachFrom_below (env : VEnv) (hr : ranked env = true) (b : Nat) :
    ∀ (fuel : Nat) (frontier seen : List NodeId), (∀ x, x ∈ frontier → rankOf env x ≤ b) →
      (∀ x, x ∈ seen → rankOf env x < b) → ∀ x, x ∈ reachFrom env fuel frontier seen → rankOf env x < b
  | 0, _, _, _, hs => hs
  | fuel + 1, frontier, seen, hf, hs => by
    have hnext : ∀ x, x ∈ ((frontier.flatMap (inPlaceEdges env)).eraseDups.filter fun x => !seen.contains x) →
        rankOf env x < b := by
      intro x hx
      have hx1 := List.mem_eraseDups.1 (List.mem_filter.1 hx).1
      obtain ⟨u, hu, hxu⟩ := List.mem_flatMap.1 hx1
      have h1 := ranked_spec env hr u x (inPlaceEdges_lt_size env u x hxu) hxu
      have h2 := hf u hu
      omega
    unfold reachFrom
    simp only
    split
    · exact hs
    · apply reachFrom_below env hr b fuel
      · intro x hx
        exact Nat.le_of_lt (hnext x hx)
      · intro x hx
        rcases List.mem_append.1 hx with hx | hx
        · exact hs x hx
        · exact hnext x hx

theorem ranked_guarded (env : VEnv) (hr : ranked env = true) : guarded env = true := by
  unfold guarded
  apply List.all_eq_true.2
  intro s _
  cases hc : (reachFrom env (env.st.size + 1) [s] []).contains s with
  | false => rfl
  | true =>
    have hmem : s ∈ reachFrom env (env.st.size + 1) [s] [] := by simpa using hc
    have := reachFrom_below env hr (rankOf env s) (env.st.size + 1) [s] []
      (fun x hx => by rw [List.mem_singleton.1 hx]; exact Nat.le_refl _) (fun _ hx => nomatch hx) s hmem
    omega

end Refine
end JSV
