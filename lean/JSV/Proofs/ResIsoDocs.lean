/-
  Resolve commutes with a renaming of schema node ids (part 5: a Loader universe SHARED by both sides).

  Two trees that look alike are resolved against the same Loader, whose documents are the same schema objects on both
  sides (a tree and its clone live in one heap, next to the documents the Loader hands out).  The renaming is the
  pairing of the two trees (`PairR`) extended by the identity on the schemas of the Loader documents (`PairL`).
-/
import JSV.Proofs.ResIsoClone
namespace JSV
namespace Go
namespace RIso
open RInv

/-- the pairing of the two trees, and the identity on a set `L` of schemas -/
def PairL (S : NodeId → NodeId → Prop) (fresh₁ fresh₂ : List (NodeId × Info)) (L : NodeId → Prop) (a b : NodeId) : Prop :=
  PairR S fresh₁ fresh₂ a b ∨ (a = b ∧ L a)

/-- `L` is a set of schemas (ids; nil ones included) shared by the two environments: the two stores agree on it, it is
    closed under the schema-valued fields, and it contains the root of every document the Loader hands out -/
structure DocsOK (env₁ env₂ : Env) (L : NodeId → Prop) : Prop where
  agree : ∀ a, L a → env₁.st.get? a = env₂.st.get? a
  closed : ∀ a n, L a → env₁.st.get? a = some n → ∀ f, f ∈ n.childFields → ∀ x, x ∈ f.ids → L x
  roots : ∀ t key l, env₁.loader = some t → Json.lookup key t = some (.doc l) → L l

theorem nodeRel_refl {R : NodeId → NodeId → Prop} (n : Node) (h : ∀ f, f ∈ n.childFields → ∀ x, x ∈ f.ids → R x x) :
    NodeRel R n n :=
  ⟨n.childFields, ListRel.refl_of _ fun f hf => FieldRel.refl_of f (h f hf), rfl⟩

section
variable {S : NodeId → NodeId → Prop} {env₁ env₂ : Env} (hS : TreeSim S env₁.st env₂.st)
  (hre : env₁.reOk = env₂.reOk) (hd7 : env₁.draft7URIs = env₂.draft7URIs) (hl : env₂.loader = env₁.loader)
  (hnil₁ : env₁.st.get? 1000000000 = none) (hnil₂ : env₂.st.get? 1000000000 = none)
  {r₁ r₂ : NodeId} (hr : S r₁ r₂) {f₁ f₂ : Nat} {fresh₁ fresh₂ : List (NodeId × Info)}
  (hcs₁ : checkStructure env₁.st f₁ [(r₁, "")] [] = .ok fresh₁)
  (hcs₂ : checkStructure env₂.st f₂ [(r₂, "")] [] = .ok fresh₂)
  {L : NodeId → Prop} (hL : DocsOK env₁ env₂ L)
  (hd₁ : ∀ a, L a → a ∉ fresh₁.map (·.1)) (hd₂ : ∀ a, L a → a ∉ fresh₂.map (·.1))
include hS hre hd7 hl hnil₁ hnil₂ hr hcs₁ hcs₂ hL hd₁ hd₂

omit hd₁ hd₂ hre hd7 hl hnil₁ hnil₂ in
theorem pairL_nodeRel : ∀ a b, PairL S fresh₁ fresh₂ L a b →
    OptRel (NodeRel (PairL S fresh₁ fresh₂ L)) (env₁.st.get? a) (env₂.st.get? b) := by
  intro a b hab
  rcases hab with hab | ⟨rfl, hla⟩
  · have := pairR_nodeRel hS hr hcs₁ hcs₂ a b hab
    cases e1 : env₁.st.get? a with
    | none =>
      cases e2 : env₂.st.get? b with
      | none => trivial
      | some _ => rw [e1, e2] at this; exact this.elim
    | some n₁ =>
      cases e2 : env₂.st.get? b with
      | none => rw [e1, e2] at this; exact this.elim
      | some n₂ => rw [e1, e2] at this; exact NodeRel.imp (fun _ _ h => Or.inl h) this
  · rw [← hL.agree a hla]
    cases e1 : env₁.st.get? a with
    | none => trivial
    | some n => exact nodeRel_refl n fun f hf x hx => Or.inr ⟨rfl, hL.closed a n hla e1 f hf x hx⟩

omit hS hr hL hre hd7 hl hnil₁ hnil₂ in
theorem pairL_biu : BiU (PairL S fresh₁ fresh₂ L) := by
  intro a b a' b' h h'
  rcases h with h | ⟨rfl, hla⟩
  · rcases h' with h' | ⟨rfl, hla'⟩
    · exact pairR_biu hcs₁ hcs₂ a b a' b' h h'
    · have hm := List.of_mem_zip h.2
      exact ⟨fun e => absurd (e ▸ hm.1) (hd₁ a' hla'), fun e => absurd (e ▸ hm.2) (hd₂ a' hla')⟩
  · rcases h' with h' | ⟨rfl, _⟩
    · have hm := List.of_mem_zip h'.2
      exact ⟨fun e => absurd (e ▸ hm.1) (hd₁ a hla), fun e => absurd (e ▸ hm.2) (hd₂ a hla)⟩
    · exact Iff.rfl

/-- two trees that look alike, next to a shared Loader universe: the extended pairing is a simulation of resolver
    environments -/
theorem envRel_of_trees_docs : EnvRel (PairL S fresh₁ fresh₂ L) env₁ env₂ := by
  refine ⟨pairL_biu hcs₁ hcs₂ hd₁ hd₂, ?_, ?_, hd7⟩
  · intro a b hab
    have hnr := pairL_nodeRel hS hr hcs₁ hcs₂ hL a b hab
    cases hn₁ : env₁.st.get? a with
    | none =>
      cases hn₂ : env₂.st.get? b with
      | none => trivial
      | some _ => rw [hn₁, hn₂] at hnr; exact hnr.elim
    | some n₁ =>
      cases hn₂ : env₂.st.get? b with
      | none => rw [hn₁, hn₂] at hnr; exact hnr.elim
      | some n₂ =>
        rw [hn₁, hn₂] at hnr
        exact RNode.of_nodeRel hre hnil₁ hnil₂ hnr
  · intro t₁ ht₁
    exact ⟨t₁, by rw [hl, ht₁], fun key l₁ hk => ⟨l₁, hk, Or.inr ⟨rfl, hL.roots t₁ key l₁ ht₁ hk⟩⟩⟩

end

/-- related resolutions over stores whose related schemas are shallow copies of each other: the same validity -/
theorem evalFuel_of_resolvedRel {R : NodeId → NodeId → Prop} {st₁ st₂ : Store} {rs₁ rs₂ : Resolved}
    (hres : ResolvedRel R rs₁ rs₂) (hnode : ∀ a b, R a b → OptRel (NodeRel R) (st₁.get? a) (st₂.get? b))
    {r₁ r₂ : NodeId} (hroot : R r₁ r₂) (reMatch : String → String → Bool) (vfuel : Nat) (j : Json) :
    Spec.evalFuel (specOf st₁ rs₁ reMatch) vfuel [] r₁ j = Spec.evalFuel (specOf st₂ rs₂ reMatch) vfuel [] r₂ j := by
  have hn : ∀ a b, R a b → OptRel (Iso.NodeSim R) (st₁.get? a) (st₂.get? b) := by
    intro a b hab
    have := hnode a b hab
    cases e1 : st₁.get? a with
    | none =>
      cases e2 : st₂.get? b with
      | none => trivial
      | some _ => rw [e1, e2] at this; exact this.elim
    | some n₁ =>
      cases e2 : st₂.get? b with
      | none => rw [e1, e2] at this; exact this.elim
      | some n₂ => rw [e1, e2] at this; exact Iso.NodeSim.of_nodeRel this
  exact Iso.evalFuel_sim (envSim_of_resolved hres hn reMatch) vfuel .nil hroot j

/-- **Resolve commutes with the renaming between two trees that look alike, next to a shared Loader universe**: as
    `resolve_trees`, with documents fetched through the Loader (the same schema objects on both sides, disjoint from the
    two trees) -/
theorem resolve_trees_docs {S : NodeId → NodeId → Prop} {env₁ env₂ : Env} (hS : TreeSim S env₁.st env₂.st)
    (hre : env₁.reOk = env₂.reOk) (hd7 : env₁.draft7URIs = env₂.draft7URIs) (hl : env₂.loader = env₁.loader)
    (hnil₁ : env₁.st.get? 1000000000 = none) (hnil₂ : env₂.st.get? 1000000000 = none)
    {r₁ r₂ : NodeId} (hr : S r₁ r₂) {L : NodeId → Prop} (hL : DocsOK env₁ env₂ L)
    (fuel : Nat) (base : String) {rs₁ : Resolved} (h₁ : resolve env₁ fuel r₁ base = .ok rs₁)
    {f₂ : Nat} {fresh₂ : List (NodeId × Info)} (hcs₂ : checkStructure env₂.st f₂ [(r₂, "")] [] = .ok fresh₂)
    (hd₁ : ∀ fresh₁, checkStructure env₁.st (env₁.st.size + 2) [(r₁, "")] [] = .ok fresh₁ →
      ∀ a, L a → a ∉ fresh₁.map (·.1))
    (hd₂ : ∀ a, L a → a ∉ fresh₂.map (·.1)) :
    ∃ rs₂, resolve env₂ fuel r₂ base = .ok rs₂ ∧ rs₁.draft = rs₂.draft ∧ rs₁.log = rs₂.log ∧
      ∀ (reMatch : String → String → Bool) (vfuel : Nat) (j : Json),
        Spec.evalFuel (specOf env₁.st rs₁ reMatch) vfuel [] r₁ j = Spec.evalFuel (specOf env₂.st rs₂ reMatch) vfuel [] r₂ j := by
  obtain ⟨fresh₁, hcs₁⟩ := resolve_ok_cs env₁ fuel r₁ base rs₁ h₁
  have hE := envRel_of_trees_docs hS hre hd7 hl hnil₁ hnil₂ hr hcs₁ hcs₂ hL (hd₁ fresh₁ hcs₁) hd₂
  have hroot : PairL S fresh₁ fresh₂ L r₁ r₂ := Or.inl (pairR_root hS hr hcs₁ hcs₂)
  obtain ⟨rs₂, h₂, hres⟩ := resolve_rel hE fuel hroot base rs₁ h₁
  exact ⟨rs₂, h₂, hres.draft, hres.log, fun reMatch vfuel j =>
    evalFuel_of_resolvedRel hres (pairL_nodeRel hS hr hcs₁ hcs₂ hL) hroot reMatch vfuel j⟩

end RIso
end Go
end JSV
