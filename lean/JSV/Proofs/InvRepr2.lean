/-
  C08 helpers, second part: two representations of one JSON value agree on everything the blocks observe;
  `validateStep` preserves "the recursive call respects representations".
-/
import JSV.Proofs.InvRepr
import JSV.Proofs.InvMeta
namespace JSV
namespace Inv
open Go GoVal Refine

/-! ## what a stripped representation of `j` looks like -/

theorem jsonType_repr : ∀ (g : GoVal) (j : Json), denote g = some j → jsonType (strip g) = some j.typeName := by
  intro g
  induction g using GoVal.induct with
  | invalid => intro j h; simp only [denote, Option.some.injEq] at h; subst h; rfl
  | bool b => intro j h; simp only [denote, Option.some.injEq] at h; subst h; rfl
  | int v => intro j h; simp only [denote, Option.some.injEq] at h; subst h; simp [strip, jsonType, Json.typeName]
  | uint v => intro j h; simp only [denote, Option.some.injEq] at h; subst h; simp [strip, jsonType, Json.typeName]
  | float v => intro j h; simp only [denote, Option.some.injEq] at h; subst h; rfl
  | jnum q t =>
    intro j h
    cases q with
    | none => simp [denote] at h
    | some q => simp only [denote, Option.some.injEq] at h; subst h; rfl
  | str s => intro j h; simp only [denote, Option.some.injEq] at h; subst h; rfl
  | list xs _ =>
    intro j h
    simp only [denote, Option.map_eq_some_iff] at h
    obtain ⟨js, _, rfl⟩ := h; rfl
  | map kvs _ =>
    intro j h
    simp only [denote, Option.map_eq_some_iff] at h
    obtain ⟨js, _, rfl⟩ := h; rfl
  | ptr v ih => intro j h; simp only [denote] at h; simpa [strip] using ih j h
  | iface v ih => intro j h; simp only [denote] at h; simpa [strip] using ih j h
  | other k => intro j h; simp [denote] at h

theorem jsonNumber_repr : ∀ (g : GoVal) (j : Json), denote g = some j →
    jsonNumber (strip g) = jsonNumber (ofJson j) := by
  intro g
  induction g using GoVal.induct with
  | invalid => intro j h; simp only [denote, Option.some.injEq] at h; subst h; rfl
  | bool b => intro j h; simp only [denote, Option.some.injEq] at h; subst h; rfl
  | int v => intro j h; simp only [denote, Option.some.injEq] at h; subst h; rfl
  | uint v => intro j h; simp only [denote, Option.some.injEq] at h; subst h; rfl
  | float v => intro j h; simp only [denote, Option.some.injEq] at h; subst h; rfl
  | jnum q t =>
    intro j h
    cases q with
    | none => simp [denote] at h
    | some q => simp only [denote, Option.some.injEq] at h; subst h; rfl
  | str s => intro j h; simp only [denote, Option.some.injEq] at h; subst h; rfl
  | list xs _ =>
    intro j h
    simp only [denote, Option.map_eq_some_iff] at h
    obtain ⟨js, _, rfl⟩ := h; rfl
  | map kvs _ =>
    intro j h
    simp only [denote, Option.map_eq_some_iff] at h
    obtain ⟨js, _, rfl⟩ := h; rfl
  | ptr v ih => intro j h; simp only [denote] at h; simpa [strip] using ih j h
  | iface v ih => intro j h; simp only [denote] at h; simpa [strip] using ih j h
  | other k => intro j h; simp [denote] at h

theorem stringOf_repr : ∀ (g : GoVal) (j : Json), denote g = some j →
    stringOf (strip g) = stringOf (ofJson j) := by
  intro g
  induction g using GoVal.induct with
  | invalid => intro j h; simp only [denote, Option.some.injEq] at h; subst h; rfl
  | bool b => intro j h; simp only [denote, Option.some.injEq] at h; subst h; rfl
  | int v => intro j h; simp only [denote, Option.some.injEq] at h; subst h; rfl
  | uint v => intro j h; simp only [denote, Option.some.injEq] at h; subst h; rfl
  | float v => intro j h; simp only [denote, Option.some.injEq] at h; subst h; rfl
  | jnum q t =>
    intro j h
    cases q with
    | none => simp [denote] at h
    | some q => simp only [denote, Option.some.injEq] at h; subst h; rfl
  | str s => intro j h; simp only [denote, Option.some.injEq] at h; subst h; rfl
  | list xs _ =>
    intro j h
    simp only [denote, Option.map_eq_some_iff] at h
    obtain ⟨js, _, rfl⟩ := h; rfl
  | map kvs _ =>
    intro j h
    simp only [denote, Option.map_eq_some_iff] at h
    obtain ⟨js, _, rfl⟩ := h; rfl
  | ptr v ih => intro j h; simp only [denote] at h; simpa [strip] using ih j h
  | iface v ih => intro j h; simp only [denote] at h; simpa [strip] using ih j h
  | other k => intro j h; simp [denote] at h

/-- the shape of a stripped representation: arrays are lists, objects are maps, the rest is neither nor a
    non-JSON kind -/
theorem stripped_view (g : GoVal) (hs : Stripped g) (j : Json) (h : denote g = some j) :
    (match j with
     | .arr js => ∃ xs, g = .list xs ∧ denoteList xs = some js
     | .obj jkvs => ∃ kvs, g = .map kvs ∧ denoteObj kvs = some jkvs
     | _ => (∀ xs, g ≠ .list xs) ∧ (∀ kvs, g ≠ .map kvs) ∧ (∀ k, g ≠ .other k)) := by
  cases g with
  | invalid => simp only [denote, Option.some.injEq] at h; subst h; simp
  | bool b => simp only [denote, Option.some.injEq] at h; subst h; simp
  | int v => simp only [denote, Option.some.injEq] at h; subst h; simp
  | uint v => simp only [denote, Option.some.injEq] at h; subst h; simp
  | float v => simp only [denote, Option.some.injEq] at h; subst h; simp
  | jnum q t =>
    cases q with
    | none => simp [denote] at h
    | some q => simp only [denote, Option.some.injEq] at h; subst h; simp
  | str s => simp only [denote, Option.some.injEq] at h; subst h; simp
  | list xs =>
    simp only [denote, Option.map_eq_some_iff] at h
    obtain ⟨js, h1, rfl⟩ := h
    exact ⟨xs, rfl, h1⟩
  | map kvs =>
    simp only [denote, Option.map_eq_some_iff] at h
    obtain ⟨js, h1, rfl⟩ := h
    exact ⟨kvs, rfl, h1⟩
  | ptr v => exact hs.elim
  | iface v => exact hs.elim
  | other k => simp [denote] at h

/-! ## leaf blocks -/

theorem bType_repr (n : Node) (g : GoVal) (j : Json) (h : denote g = some j) :
    bType n (strip g) = bType n (ofJson j) := by
  unfold bType; rw [jsonType_repr g j h, jsonType_ofJson]

theorem equalValue_repr (c : Json) (g : GoVal) (j : Json) (h : denote g = some j) :
    equalValue (ofJson c) (strip g) = equalValue (ofJson c) (ofJson j) := by
  rw [C11.equal_iff (ofJson c) (strip g) c j (denote_ofJson c) (by rw [denote_strip]; exact h),
      C11.equal_iff (ofJson c) (ofJson j) c j (denote_ofJson c) (denote_ofJson j)]

theorem enumLoop_repr (g : GoVal) (j : Json) (h : denote g = some j) : ∀ es : List Json,
    enumLoop (strip g) es = enumLoop (ofJson j) es
  | [] => rfl
  | e :: es => by simp only [enumLoop, equalValue_repr e g j h, enumLoop_repr g j h es]

theorem bEnum_repr (n : Node) (g : GoVal) (j : Json) (h : denote g = some j) :
    bEnum n (strip g) = bEnum n (ofJson j) := by
  unfold bEnum; simp only [enumLoop_repr g j h]

theorem bConst_repr (n : Node) (g : GoVal) (j : Json) (h : denote g = some j) :
    bConst n (strip g) = bConst n (ofJson j) := by
  unfold bConst; simp only [equalValue_repr _ g j h]

theorem bNumeric_repr (n : Node) (g : GoVal) (j : Json) (h : denote g = some j) :
    bNumeric n (strip g) = bNumeric n (ofJson j) := by
  unfold bNumeric; rw [jsonNumber_repr g j h]

theorem bString_repr (env : VEnv) (n : Node) (info : Option Info) (g : GoVal) (j : Json) (h : denote g = some j) :
    bString env n info (strip g) = bString env n info (ofJson j) := by
  unfold bString; rw [stringOf_repr g j h]

/-! ## the recursive call respects representations -/

/-- every representation of a well-formed JSON value is treated like the canonical decoding -/
def RecResp (rec : Go.Rec) : Prop :=
  ∀ stack s g j, denote g = some j → Json.WF j = true → rec stack g s = rec stack (ofJson j) s

section
variable {rec : Go.Rec} (hr : RecResp rec)
include hr

theorem RecEq_of_denote {x y : GoVal} {j : Json} (hx : denote x = some j) (hy : denote y = some j)
    (hw : Json.WF j = true) : RecEq rec x y := fun stk t => by
  rw [hr stk t x j hx hw, hr stk t y j hy hw]

theorem all₂_list : ∀ (xs : List GoVal) (js : List Json), denoteList xs = some js → Json.wfList js = true →
    All₂ (RecEq rec) xs (ofJsonList js)
  | [], js, h, _ => by
    simp only [denoteList, Option.some.injEq] at h; subst h; trivial
  | x :: xs, js, h, hw => by
    obtain ⟨j, js', h1, h2, rfl⟩ := denoteList_cons_some.1 h
    simp only [Json.wfList, Bool.and_eq_true] at hw
    simp only [ofJsonList]
    exact ⟨RecEq_of_denote hr h1 (by simp only [denote]; exact denote_ofJson j) hw.1, all₂_list xs js' h2 hw.2⟩

theorem all₂_obj : ∀ (kvs : List (String × GoVal)) (js : List (String × Json)), denoteObj kvs = some js →
    Json.wfObj js = true → All₂ (KV rec) kvs (ofJsonObj js)
  | [], js, h, _ => by
    simp only [denoteObj, Option.some.injEq] at h; subst h; trivial
  | (k, v) :: rest, js, h, hw => by
    obtain ⟨j, js', h1, h2, rfl⟩ := denoteObj_cons_some.1 h
    simp only [Json.wfObj, Bool.and_eq_true] at hw
    simp only [ofJsonObj]
    exact ⟨⟨rfl, RecEq_of_denote hr h1 (by simp only [denote]; exact denote_ofJson j) hw.1⟩,
           all₂_obj rest js' h2 hw.2⟩

end

theorem bArray_repr (env : VEnv) (hh : ∀ x y, equalValue x y = .ok true → env.hash x = env.hash y)
    {rec : Go.Rec} (hr : RecResp rec) (stack : List NodeId) (n : Node) (g : GoVal) (hs : Stripped g) (j : Json)
    (h : denote g = some j) (hw : Json.WF j = true) (anns : Anns) :
    bArray env rec stack n g anns = bArray env rec stack n (ofJson j) anns := by
  have hv := stripped_view g hs j h
  cases j with
  | arr js =>
    obtain ⟨xs, rfl, hd⟩ := hv
    have hwl : Json.wfList js = true := by simpa [Json.WF] using hw
    simp only [ofJson]
    apply bArray_list_congr env stack n (all₂_list hr xs js hd hwl)
    rw [C12.unique_correct env.hash xs js hd hwl (fun x y _ _ he => hh x y he),
        C12.unique_correct env.hash (ofJsonList js) js
          (denoteList_ofJsonList js (fun x _ => denote_ofJson x)) hwl (fun x y _ _ he => hh x y he)]
  | obj jkvs =>
    obtain ⟨kvs, rfl, _⟩ := hv
    rfl
  | null => cases g <;> first | rfl | exact absurd rfl (hv.1 _)
  | bool b => cases g <;> first | rfl | exact absurd rfl (hv.1 _)
  | num q => cases g <;> first | rfl | exact absurd rfl (hv.1 _)
  | str s => cases g <;> first | rfl | exact absurd rfl (hv.1 _)

theorem bObject_scalar (env : VEnv) (rec : Go.Rec) (stack : List NodeId) (n : Node) (info : Option Info) (g : GoVal)
    (h2 : ∀ kvs, g ≠ .map kvs) (h3 : ∀ k, g ≠ .other k) (anns : Anns) :
    bObject env rec stack n info g anns = .ok anns := by
  cases g <;> first | rfl | exact absurd rfl (h2 _) | exact absurd rfl (h3 _)

theorem bObject_repr (env : VEnv) {rec : Go.Rec} (hr : RecResp rec) (stack : List NodeId) (n : Node)
    (info : Option Info) (g : GoVal) (hs : Stripped g) (j : Json)
    (h : denote g = some j) (hw : Json.WF j = true) (anns : Anns) :
    bObject env rec stack n info g anns = bObject env rec stack n info (ofJson j) anns := by
  have hv := stripped_view g hs j h
  cases j with
  | obj jkvs =>
    obtain ⟨kvs, rfl, hd⟩ := hv
    have hwo : Json.wfObj jkvs = true := by
      simp only [Json.WF, Bool.and_eq_true] at hw; exact hw.2
    simp only [ofJson]
    exact bObject_map_congr env stack n info (all₂_obj hr kvs jkvs hd hwo)
      (RecEq_of_denote hr h (denote_ofJson (.obj jkvs)) hw) anns
  | arr js =>
    obtain ⟨xs, rfl, _⟩ := hv
    rfl
  | null => rw [bObject_scalar env rec stack n info g hv.2.1 hv.2.2]; rfl
  | bool b => rw [bObject_scalar env rec stack n info g hv.2.1 hv.2.2]; rfl
  | num q => rw [bObject_scalar env rec stack n info g hv.2.1 hv.2.2]; rfl
  | str s => rw [bObject_scalar env rec stack n info g hv.2.1 hv.2.2]; rfl

/-- one call: if the recursive calls respect representations, so does this one -/
theorem validateStep_repr (env : VEnv) (hh : ∀ x y, equalValue x y = .ok true → env.hash x = env.hash y)
    {rec : Go.Rec} (hr : RecResp rec) : RecResp (validateStep env rec) := by
  intro stack s g j hg hw
  rw [validateStep_eq_body, validateStep_eq_body]
  cases env.st.get? s with
  | none => rfl
  | some n =>
    show stepBody env rec stack g s n = stepBody env rec stack (ofJson j) s n
    unfold stepBody
    rw [strip_ofJson]
    have hd : denote (strip g) = some j := by rw [denote_strip]; exact hg
    have hRE : RecEq rec (strip g) (ofJson j) := RecEq_of_denote hr hd (denote_ofJson j) hw
    simp only [bRef_congr hRE, bType_repr n g j hg, bEnum_repr n g j hg, bConst_repr n g j hg, bNumeric_repr n g j hg,
      bString_repr env n _ g j hg, bDynamicRef_congr hRE, bAllOf_congr hRE, bAnyOf_congr hRE, bOneOf_congr hRE,
      bNot_congr hRE, bIf_congr hRE, bArray_repr env hh hr _ n (strip g) (strip_stripped g) j hd hw,
      bObject_repr env hr _ n _ (strip g) (strip_stripped g) j hd hw]

theorem validateFuel_repr (env : VEnv) (hh : ∀ x y, equalValue x y = .ok true → env.hash x = env.hash y) :
    ∀ fuel, RecResp (validateFuel env fuel)
  | 0 => fun _ _ _ _ _ _ => rfl
  | fuel + 1 => validateStep_repr env hh (validateFuel_repr env hh fuel)

end Inv
end JSV
