/-
  Small decidable helpers for the table obligations over JSV/Generated/Facts.lean (C20, C05).
-/
import JSV.Generated.Facts
namespace JSV
namespace Go

def isPrefixL : List Char → List Char → Bool
  | [], _ => true
  | _ :: _, [] => false
  | a :: as, b :: bs => a == b && isPrefixL as bs

def isInfixL (p : List Char) : List Char → Bool
  | [] => p.isEmpty
  | c :: cs => isPrefixL p (c :: cs) || isInfixL p cs

/-- the Go type text mentions `Schema` -/
def mentionsSchema (ty : String) : Bool := isInfixL "Schema".toList ty.toList

/-- pairwise distinct (decidable form) -/
def distinctStrs : List String → Bool
  | [] => true
  | x :: xs => !xs.contains x && distinctStrs xs

/-- split "GoName:jsonName:type" of the wrapper-struct tables -/
def shadowParts (s : String) : List String := s.splitOn ":"

end Go
end JSV
