/-
  Small decidable helpers for the table obligations over JSV/Generated/Facts.lean (C20, C05).
-/
import JSV.Generated.Facts
namespace JSV
namespace Go

def isPrefixL : List Char → List Char → Bool
  | [], _ => true
  | _ :: _, [] => false
  | a :: as, b :: bs => a == b && isPrefixL as bs

def isInfixL (p : List Char) : List Char → Bool
  | [] => p.isEmpty
  | c :: cs => isPrefixL p (c :: cs) || isInfixL p cs

/-- the Go type text mentions `Schema` -/
def mentionsSchema (ty : String) : Bool := isInfixL "Schema".toList ty.toList

/-- pairwise distinct (decidable form) -/
def distinctStrs : List String → Bool
  | [] => true
  | x :: xs => !xs.contains x && distinctStrs xs

/-- split at ':' -/
def splitColon (cs : List Char) : List (List Char) :=
  cs.foldr (fun c acc => if c == ':' then [] :: acc else
    match acc with
    | [] => [[c]]
    | a :: r => (c :: a) :: r) [[]]

/-- the parts of a "GoName:jsonName:type" entry of the wrapper-struct tables -/
def shadowGo (s : String) : String :=
  match splitColon s.toList with
  | g :: _ => String.ofList g
  | _ => ""
def shadowName (s : String) : String :=
  match splitColon s.toList with
  | _ :: n :: _ => String.ofList n
  | _ => ""
def shadowType (s : String) : String :=
  match splitColon s.toList with
  | _ :: _ :: t :: _ => String.ofList t
  | _ => ""

/-- JSON names given by a struct tag of Schema -/
def taggedNames : List String := (Generated.schemaFields.filter fun f => f.2.2.1 != "-").map (·.2.2.1)

end Go
end JSV
