/-
  marshalStep decomposed into named pieces (`marshalNode`), and its congruence under the simulation
  relation of JSV/Proofs/MshClone.lean: related subtrees marshal identically.  (C20, C05)
-/
import JSV.Proofs.MshClone
namespace JSV
namespace Go

/-! ## marshalStep with named pieces -/

def mOne (st : Store) (rec : MRec) (k : String) (c : Option NodeId) : Res (List (String × Json)) :=
  match c with
  | none => .ok []
  | some id => Res.bind (mSchema st rec id) fun j => .ok [(k, j)]

def mMany (st : Store) (rec : MRec) (k : String) (cs : Option (List NodeId)) : Res (List (String × Json)) :=
  match cs with
  | none => .ok []
  | some [] => .ok []
  | some l => Res.bind (mSchemaList st rec l) fun js => .ok [(k, .arr js)]

def mManyNN (st : Store) (rec : MRec) (k : String) (cs : Option (List NodeId)) : Res (List (String × Json)) :=
  match cs with
  | none => .ok []
  | some l => Res.bind (mSchemaList st rec l) fun js => .ok [(k, .arr js)]

def mKeyed (st : Store) (rec : MRec) (k : String) (cs : Option (List (String × NodeId))) : Res (List (String × Json)) :=
  match cs with
  | none => .ok []
  | some [] => .ok []
  | some l => Res.bind (mSchemaMap st rec l) fun j => .ok [(k, j)]

def mPropsField (st : Store) (rec : MRec) (ps : Option (List (String × NodeId))) (order : List String) :
    Res (List (String × Json)) :=
  match ps with
  | some ps => Res.bind (mProperties st rec ps order) fun j => .ok [("properties", j)]
  | none => .ok []

def mDeps (st : Store) (rec : MRec) (dsch : Option (List (String × NodeId)))
    (dstrs : Option (List (String × Option (List String)))) : Res (Option Json) :=
  let ds := dsch.getD []
  let dstr := dstrs.getD []
  if ds.length + dstr.length == 0 then .ok none
  else
    Res.bind (mSchemaEntries st rec ds) fun es =>
      let merged := (es.filter fun e => !(dstr.any fun d => d.1 == e.1)) ++ dstr.map fun (k, l) => (k, strs (l.getD []))
      .ok (some (.obj (sortKV merged)))

def mItemsField (st : Store) (rec : MRec) (items : Option NodeId) (itemsArray : Option (List NodeId)) :
    Res (List (String × Json)) :=
  match items, itemsArray with
  | some it, _ => mOne st rec "items" (some it)
  | none, some ia => Res.bind (mSchemaList st rec ia) fun js => .ok [("items", .arr js)]
  | none, none => .ok []

def mTyp (n : Node) : List (String × Json) :=
  if n.type != "" then [("type", .str n.type)]
  else match n.types with
    | some ts => [("type", strs ts)]
    | none => []

def mVocab (n : Node) : List (String × Json) :=
  match n.vocabulary with
  | some vs => [("$vocabulary", Json.obj (sortKV (vs.map fun (k, b) => (k, Json.bool b))))]
  | none => []

def mDepReq (n : Node) : List (String × Json) :=
  match n.dependentRequired with
  | some (v :: vs) => [("dependentRequired", Json.obj (sortKV ((v :: vs).map fun (k, l) => (k, optStrs l))))]
  | _ => []

def mNonEmptyList (k : String) (l : Option (List Json)) : List (String × Json) :=
  match l with
  | some (x :: xs) => [(k, sortJson (.arr (x :: xs)))]
  | _ => []

def mRequired (n : Node) : List (String × Json) :=
  match n.required with
  | some (x :: xs) => [("required", strs (x :: xs))]
  | _ => []

def mExtra (n : Node) : List (String × Json) :=
  sortKV ((n.extra.getD []).map fun (k, v) => (k, sortJson v))

/-- `{}` is written as true and `{"not":true}` as false -/
def mFinish (members : List (String × Json)) : Res Json :=
  match members with
  | [] => .ok (.bool true)
  | [("not", .bool true)] => .ok (.bool false)
  | ms => .ok (.obj ms)

/-- the member list, in emission order, given the marshalled schema-bearing members -/
def mMembers (n : Node) (props : List (String × Json)) (deps : Option Json)
    (items defs definitions prefixItems additionalItems contains unevaluatedItems patternProperties additionalProperties propertyNames unevaluatedProperties allOf anyOf oneOf not_ if_ then_ else_ dependentSchemas contentSchema : List (String × Json)) : List (String × Json) :=
  mTyp n ++ props ++ mem "dependencies" deps ++ items ++
  mem "enum" (n.enum.map fun l => sortJson (.arr l)) ++ anyOf ++ oneOf ++ mVocab n ++
  mStr "$id" n.id ++ mStr "$schema" n.schema ++ mStr "$ref" n.ref ++ mStr "$comment" n.comment ++
  defs ++ definitions ++
  mStr "$anchor" n.anchor ++ mStr "$dynamicAnchor" n.dynamicAnchor ++ mStr "$dynamicRef" n.dynamicRef ++
  mStr "title" n.title ++ mStr "description" n.description ++ mem "default" n.default ++
  mBool "deprecated" n.deprecated ++ mBool "readOnly" n.readOnly ++ mBool "writeOnly" n.writeOnly ++
  mNonEmptyList "examples" n.examples ++
  mem "const" (n.const.map sortJson) ++
  mNum "multipleOf" n.multipleOf ++ mNum "minimum" n.minimum ++ mNum "maximum" n.maximum ++
  mNum "exclusiveMinimum" n.exclusiveMinimum ++ mNum "exclusiveMaximum" n.exclusiveMaximum ++
  mInt "minLength" n.minLength ++ mInt "maxLength" n.maxLength ++ mStr "pattern" n.pattern ++
  prefixItems ++ mInt "minItems" n.minItems ++ mInt "maxItems" n.maxItems ++ additionalItems ++
  mBool "uniqueItems" n.uniqueItems ++ contains ++ mInt "minContains" n.minContains ++
  mInt "maxContains" n.maxContains ++ unevaluatedItems ++
  mInt "minProperties" n.minProperties ++ mInt "maxProperties" n.maxProperties ++ mRequired n ++ mDepReq n ++
  patternProperties ++ additionalProperties ++ propertyNames ++ unevaluatedProperties ++
  allOf ++ not_ ++ if_ ++ then_ ++ else_ ++ dependentSchemas ++
  mStr "contentEncoding" n.contentEncoding ++ mStr "contentMediaType" n.contentMediaType ++ contentSchema ++
  mStr "format" n.format ++
  mExtra n

/-- the bind chain of marshalStep over already-computed pieces -/
def marshalParts (n : Node) (pProps : Res (List (String × Json))) (pDeps : Res (Option Json))
    (p_items p_defs p_definitions p_prefixItems p_additionalItems p_contains p_unevaluatedItems p_patternProperties p_additionalProperties p_propertyNames p_unevaluatedProperties p_allOf p_anyOf p_oneOf p_not_ p_if_ p_then_ p_else_ p_dependentSchemas p_contentSchema : Res (List (String × Json))) : Res Json :=
  Res.bind pProps fun props =>
  Res.bind pDeps fun deps =>
  Res.bind p_items fun items =>
  Res.bind p_defs fun defs =>
  Res.bind p_definitions fun definitions =>
  Res.bind p_prefixItems fun prefixItems =>
  Res.bind p_additionalItems fun additionalItems =>
  Res.bind p_contains fun contains =>
  Res.bind p_unevaluatedItems fun unevaluatedItems =>
  Res.bind p_patternProperties fun patternProperties =>
  Res.bind p_additionalProperties fun additionalProperties =>
  Res.bind p_propertyNames fun propertyNames =>
  Res.bind p_unevaluatedProperties fun unevaluatedProperties =>
  Res.bind p_allOf fun allOf =>
  Res.bind p_anyOf fun anyOf =>
  Res.bind p_oneOf fun oneOf =>
  Res.bind p_not_ fun not_ =>
  Res.bind p_if_ fun if_ =>
  Res.bind p_then_ fun then_ =>
  Res.bind p_else_ fun else_ =>
  Res.bind p_dependentSchemas fun dependentSchemas =>
  Res.bind p_contentSchema fun contentSchema =>
  mFinish (mMembers n props deps items defs definitions prefixItems additionalItems contains unevaluatedItems patternProperties additionalProperties propertyNames unevaluatedProperties allOf anyOf oneOf not_ if_ then_ else_ dependentSchemas contentSchema)

def marshalNode (st : Store) (rec : MRec) (n : Node) : Res Json :=
  marshalParts n
    (mPropsField st rec n.properties (n.propertyOrder.getD []))
    (mDeps st rec n.dependencySchemas n.dependencyStrings)
    (mItemsField st rec n.items n.itemsArray)
    (mKeyed st rec "$defs" n.defs)
    (mKeyed st rec "definitions" n.definitions)
    (mMany st rec "prefixItems" n.prefixItems)
    (mOne st rec "additionalItems" n.additionalItems)
    (mOne st rec "contains" n.contains)
    (mOne st rec "unevaluatedItems" n.unevaluatedItems)
    (mKeyed st rec "patternProperties" n.patternProperties)
    (mOne st rec "additionalProperties" n.additionalProperties)
    (mOne st rec "propertyNames" n.propertyNames)
    (mOne st rec "unevaluatedProperties" n.unevaluatedProperties)
    (mMany st rec "allOf" n.allOf)
    (mManyNN st rec "anyOf" n.anyOf)
    (mManyNN st rec "oneOf" n.oneOf)
    (mOne st rec "not" n.not)
    (mOne st rec "if" n.if_)
    (mOne st rec "then" n.then_)
    (mOne st rec "else" n.else_)
    (mKeyed st rec "dependentSchemas" n.dependentSchemas)
    (mOne st rec "contentSchema" n.contentSchema)

theorem bind_congr2 {α β} {x x' : Res α} {f g : α → Res β} (hx : x = x') (h : ∀ a, f a = g a) :
    Res.bind x f = Res.bind x' g := by
  subst hx
  exact Res.bind_congr h

theorem mFinish_nil : mFinish [] = .ok (.bool true) := rfl
theorem mFinish_not : mFinish [("not", .bool true)] = .ok (.bool false) := rfl
theorem mFinish_other {M : List (String × Json)} (h1 : M = [] → False)
    (h2 : M = [("not", Json.bool true)] → False) : mFinish M = .ok (.obj M) := by
  unfold mFinish
  split
  · exact (h1 rfl).elim
  · exact (h2 rfl).elim
  · rfl

theorem marshalStep_eq (st : Store) (rec : MRec) (id : NodeId) :
    marshalStep st rec id =
      match st.get? id with
      | none => .ok .null
      | some n =>
        if !marshalChecksOk n then .err else
        if ((n.extra.getD []).any fun e => structNames.contains e.1) then .err else
        marshalNode st rec n := by
  unfold marshalStep
  cases st.get? id with
  | none => rfl
  | some n =>
    dsimp only
    unfold marshalNode marshalParts
    refine ite_congr rfl (fun _ => rfl) (fun _ => ite_congr rfl (fun _ => rfl) fun _ => ?_)
    refine bind_congr2 rfl fun props => ?_
    refine bind_congr2 rfl fun deps => ?_
    refine bind_congr2 rfl fun items => ?_
    refine bind_congr2 rfl fun defs => ?_
    refine bind_congr2 rfl fun definitions => ?_
    refine bind_congr2 rfl fun prefixItems => ?_
    refine bind_congr2 rfl fun additionalItems => ?_
    refine bind_congr2 rfl fun contains => ?_
    refine bind_congr2 rfl fun unevaluatedItems => ?_
    refine bind_congr2 rfl fun patternProperties => ?_
    refine bind_congr2 rfl fun additionalProperties => ?_
    refine bind_congr2 rfl fun propertyNames => ?_
    refine bind_congr2 rfl fun unevaluatedProperties => ?_
    refine bind_congr2 rfl fun allOf => ?_
    refine bind_congr2 rfl fun anyOf => ?_
    refine bind_congr2 rfl fun oneOf => ?_
    refine bind_congr2 rfl fun not_ => ?_
    refine bind_congr2 rfl fun if_ => ?_
    refine bind_congr2 rfl fun then_ => ?_
    refine bind_congr2 rfl fun else_ => ?_
    refine bind_congr2 rfl fun dependentSchemas => ?_
    refine bind_congr2 rfl fun contentSchema => ?_
    split
    · next heq =>
      have e : mMembers n props deps items defs definitions prefixItems additionalItems contains unevaluatedItems patternProperties additionalProperties propertyNames unevaluatedProperties allOf anyOf oneOf not_ if_ then_ else_ dependentSchemas contentSchema = [] := heq
      rw [e]; rfl
    · next heq =>
      have e : mMembers n props deps items defs definitions prefixItems additionalItems contains unevaluatedItems patternProperties additionalProperties propertyNames unevaluatedProperties allOf anyOf oneOf not_ if_ then_ else_ dependentSchemas contentSchema = [("not", Json.bool true)] := heq
      rw [e]; rfl
    · next h1 h2 =>
      change Res.ok (Json.obj (mMembers n props deps items defs definitions prefixItems additionalItems contains unevaluatedItems patternProperties additionalProperties propertyNames unevaluatedProperties allOf anyOf oneOf not_ if_ then_ else_ dependentSchemas contentSchema)) = _
      change (mMembers n props deps items defs definitions prefixItems additionalItems contains unevaluatedItems patternProperties additionalProperties propertyNames unevaluatedProperties allOf anyOf oneOf not_ if_ then_ else_ dependentSchemas contentSchema = [] → False) at h1
      change (mMembers n props deps items defs definitions prefixItems additionalItems contains unevaluatedItems patternProperties additionalProperties propertyNames unevaluatedProperties allOf anyOf oneOf not_ if_ then_ else_ dependentSchemas contentSchema = [("not", Json.bool true)] → False) at h2
      exact (mFinish_other h1 h2).symm

/-! ## inversion of a list shaped like `childFields` -/

theorem childFields_inv {R : NodeId → NodeId → Prop} {n : Node} {fs : List ChildField}
    (h : ListRel (FieldRel R) n.childFields fs) :
    ∃ (c0 : Option (List (String × NodeId))) (c1 : Option NodeId) (c2 : Option NodeId) (c3 : Option (List NodeId)) (c4 : Option (List NodeId)) (c5 : Option NodeId) (c6 : Option NodeId) (c7 : Option (List (String × NodeId))) (c8 : Option (List (String × NodeId))) (c9 : Option (List (String × NodeId))) (c10 : Option NodeId) (c11 : Option NodeId) (c12 : Option NodeId) (c13 : Option (List NodeId)) (c14 : Option NodeId) (c15 : Option (List NodeId)) (c16 : Option (List (String × NodeId))) (c17 : Option (List NodeId)) (c18 : Option (List (String × NodeId))) (c19 : Option NodeId) (c20 : Option NodeId) (c21 : Option NodeId) (c22 : Option NodeId),
      fs = [.keyed "$defs" c0, .one "additionalItems" c1, .one "additionalProperties" c2, .many "allOf" c3, .many "anyOf" c4, .one "contains" c5, .one "contentSchema" c6, .keyed "definitions" c7, .keyed "dependencies" c8, .keyed "dependentSchemas" c9, .one "else" c10, .one "if" c11, .one "items" c12, .many "items" c13, .one "not" c14, .many "oneOf" c15, .keyed "patternProperties" c16, .many "prefixItems" c17, .keyed "properties" c18, .one "propertyNames" c19, .one "then" c20, .one "unevaluatedItems" c21, .one "unevaluatedProperties" c22] ∧
      OptRel (ListRel (KeyRel R)) n.defs c0 ∧
      OptRel R n.additionalItems c1 ∧
      OptRel R n.additionalProperties c2 ∧
      OptRel (ListRel R) n.allOf c3 ∧
      OptRel (ListRel R) n.anyOf c4 ∧
      OptRel R n.contains c5 ∧
      OptRel R n.contentSchema c6 ∧
      OptRel (ListRel (KeyRel R)) n.definitions c7 ∧
      OptRel (ListRel (KeyRel R)) n.dependencySchemas c8 ∧
      OptRel (ListRel (KeyRel R)) n.dependentSchemas c9 ∧
      OptRel R n.else_ c10 ∧
      OptRel R n.if_ c11 ∧
      OptRel R n.items c12 ∧
      OptRel (ListRel R) n.itemsArray c13 ∧
      OptRel R n.not c14 ∧
      OptRel (ListRel R) n.oneOf c15 ∧
      OptRel (ListRel (KeyRel R)) n.patternProperties c16 ∧
      OptRel (ListRel R) n.prefixItems c17 ∧
      OptRel (ListRel (KeyRel R)) n.properties c18 ∧
      OptRel R n.propertyNames c19 ∧
      OptRel R n.then_ c20 ∧
      OptRel R n.unevaluatedItems c21 ∧
      OptRel R n.unevaluatedProperties c22 := by
  unfold Node.childFields at h
  obtain ⟨_, fs0, rfl, hf0, h0⟩ := h.cons_inv
  obtain ⟨c0, rfl, r0⟩ := hf0.keyed_inv
  obtain ⟨_, fs1, rfl, hf1, h1⟩ := h0.cons_inv
  obtain ⟨c1, rfl, r1⟩ := hf1.one_inv
  obtain ⟨_, fs2, rfl, hf2, h2⟩ := h1.cons_inv
  obtain ⟨c2, rfl, r2⟩ := hf2.one_inv
  obtain ⟨_, fs3, rfl, hf3, h3⟩ := h2.cons_inv
  obtain ⟨c3, rfl, r3⟩ := hf3.many_inv
  obtain ⟨_, fs4, rfl, hf4, h4⟩ := h3.cons_inv
  obtain ⟨c4, rfl, r4⟩ := hf4.many_inv
  obtain ⟨_, fs5, rfl, hf5, h5⟩ := h4.cons_inv
  obtain ⟨c5, rfl, r5⟩ := hf5.one_inv
  obtain ⟨_, fs6, rfl, hf6, h6⟩ := h5.cons_inv
  obtain ⟨c6, rfl, r6⟩ := hf6.one_inv
  obtain ⟨_, fs7, rfl, hf7, h7⟩ := h6.cons_inv
  obtain ⟨c7, rfl, r7⟩ := hf7.keyed_inv
  obtain ⟨_, fs8, rfl, hf8, h8⟩ := h7.cons_inv
  obtain ⟨c8, rfl, r8⟩ := hf8.keyed_inv
  obtain ⟨_, fs9, rfl, hf9, h9⟩ := h8.cons_inv
  obtain ⟨c9, rfl, r9⟩ := hf9.keyed_inv
  obtain ⟨_, fs10, rfl, hf10, h10⟩ := h9.cons_inv
  obtain ⟨c10, rfl, r10⟩ := hf10.one_inv
  obtain ⟨_, fs11, rfl, hf11, h11⟩ := h10.cons_inv
  obtain ⟨c11, rfl, r11⟩ := hf11.one_inv
  obtain ⟨_, fs12, rfl, hf12, h12⟩ := h11.cons_inv
  obtain ⟨c12, rfl, r12⟩ := hf12.one_inv
  obtain ⟨_, fs13, rfl, hf13, h13⟩ := h12.cons_inv
  obtain ⟨c13, rfl, r13⟩ := hf13.many_inv
  obtain ⟨_, fs14, rfl, hf14, h14⟩ := h13.cons_inv
  obtain ⟨c14, rfl, r14⟩ := hf14.one_inv
  obtain ⟨_, fs15, rfl, hf15, h15⟩ := h14.cons_inv
  obtain ⟨c15, rfl, r15⟩ := hf15.many_inv
  obtain ⟨_, fs16, rfl, hf16, h16⟩ := h15.cons_inv
  obtain ⟨c16, rfl, r16⟩ := hf16.keyed_inv
  obtain ⟨_, fs17, rfl, hf17, h17⟩ := h16.cons_inv
  obtain ⟨c17, rfl, r17⟩ := hf17.many_inv
  obtain ⟨_, fs18, rfl, hf18, h18⟩ := h17.cons_inv
  obtain ⟨c18, rfl, r18⟩ := hf18.keyed_inv
  obtain ⟨_, fs19, rfl, hf19, h19⟩ := h18.cons_inv
  obtain ⟨c19, rfl, r19⟩ := hf19.one_inv
  obtain ⟨_, fs20, rfl, hf20, h20⟩ := h19.cons_inv
  obtain ⟨c20, rfl, r20⟩ := hf20.one_inv
  obtain ⟨_, fs21, rfl, hf21, h21⟩ := h20.cons_inv
  obtain ⟨c21, rfl, r21⟩ := hf21.one_inv
  obtain ⟨_, fs22, rfl, hf22, h22⟩ := h21.cons_inv
  obtain ⟨c22, rfl, r22⟩ := hf22.one_inv
  cases h22.nil_inv
  exact ⟨c0, c1, c2, c3, c4, c5, c6, c7, c8, c9, c10, c11, c12, c13, c14, c15, c16, c17, c18, c19, c20, c21, c22, rfl, r0, r1, r2, r3, r4, r5, r6, r7, r8, r9, r10, r11, r12, r13, r14, r15, r16, r17, r18, r19, r20, r21, r22⟩

/-! ## congruence of the pieces -/

section
variable {st st' : Store} {rec rec' : MRec} {R : NodeId → NodeId → Prop}

theorem mSchemaList_congr (hm : ∀ x y, R x y → mSchema st rec x = mSchema st' rec' y) :
    ∀ {l l' : List NodeId}, ListRel R l l' → mSchemaList st rec l = mSchemaList st' rec' l'
  | _, _, .nil => rfl
  | _, _, .cons h1 h2 => by
    simp only [mSchemaList, hm _ _ h1, mSchemaList_congr hm h2]

theorem mSchemaEntries_congr (hm : ∀ x y, R x y → mSchema st rec x = mSchema st' rec' y) :
    ∀ {l l' : List (String × NodeId)}, ListRel (KeyRel R) l l' →
      mSchemaEntries st rec l = mSchemaEntries st' rec' l'
  | _, _, .nil => rfl
  | _, _, .cons (a := (k, x)) (b := (k', y)) h1 h2 => by
    have hk : k = k' := h1.1
    subst hk
    simp only [mSchemaEntries, hm _ _ h1.2, mSchemaEntries_congr hm h2]

theorem insertKV_rel {e e' : String × NodeId} (he : KeyRel R e e') :
    ∀ {l l' : List (String × NodeId)}, ListRel (KeyRel R) l l' →
      ListRel (KeyRel R) (insertKV e l) (insertKV e' l')
  | _, _, .nil => .cons he .nil
  | _, _, .cons (a := a) (b := b) (l := l) (l' := l') h1 h2 => by
    simp only [insertKV]
    rw [← he.1, ← h1.1]
    split
    · exact .cons he (.cons h1 h2)
    · exact .cons h1 (insertKV_rel he h2)

theorem sortKV_rel : ∀ {l l' : List (String × NodeId)}, ListRel (KeyRel R) l l' →
    ListRel (KeyRel R) (sortKV l) (sortKV l')
  | _, _, .nil => .nil
  | _, _, .cons h1 h2 => insertKV_rel h1 (sortKV_rel h2)

theorem lookup_rel (k : String) : ∀ {l l' : List (String × NodeId)}, ListRel (KeyRel R) l l' →
    OptRel R (Json.lookup k l) (Json.lookup k l')
  | _, _, .nil => trivial
  | _, _, .cons (a := (k1, x)) (b := (k2, y)) h1 h2 => by
    have hk : k1 = k2 := h1.1
    subst hk
    simp only [Json.lookup_cons]
    split
    · exact h1.2
    · exact lookup_rel k h2

theorem orderedKeys_rel {l l' : List (String × NodeId)} (h : ListRel (KeyRel R) l l') (order : List String) :
    orderedKeys l order = orderedKeys l' order := by
  have hl : (fun k => (Json.lookup k l).isSome) = (fun k => (Json.lookup k l').isSome) := by
    funext k
    exact (lookup_rel k h).isSome_eq
  unfold orderedKeys
  simp only [hl, h.map_fst]

theorem propEntries_rel {l l' : List (String × NodeId)} (h : ListRel (KeyRel R) l l') :
    ∀ keys : List String,
      ListRel (KeyRel R) (keys.filterMap fun k => (Json.lookup k l).map fun v => (k, v))
        (keys.filterMap fun k => (Json.lookup k l').map fun v => (k, v))
  | [] => .nil
  | k :: ks => by
    have hr := lookup_rel k h
    have ih := propEntries_rel h ks
    simp only [List.filterMap_cons]
    cases h1 : Json.lookup k l with
    | none =>
      cases h2 : Json.lookup k l' with
      | none => exact ih
      | some y => rw [h1, h2] at hr; exact hr.elim
    | some x =>
      cases h2 : Json.lookup k l' with
      | none => rw [h1, h2] at hr; exact hr.elim
      | some y =>
        rw [h1, h2] at hr
        exact .cons ⟨rfl, hr⟩ ih

theorem mProperties_congr (hm : ∀ x y, R x y → mSchema st rec x = mSchema st' rec' y)
    {l l' : List (String × NodeId)} (h : ListRel (KeyRel R) l l') (order : List String) :
    mProperties st rec l order = mProperties st' rec' l' order := by
  unfold mProperties
  simp only [orderedKeys_rel h order, mSchemaEntries_congr hm (propEntries_rel h _)]

theorem mOne_congr (hm : ∀ x y, R x y → mSchema st rec x = mSchema st' rec' y) (k : String) :
    ∀ {c c' : Option NodeId}, OptRel R c c' → mOne st rec k c = mOne st' rec' k c'
  | none, none, _ => rfl
  | some _, some _, h => by simp only [mOne, hm _ _ h]
  | none, some _, h => h.elim
  | some _, none, h => h.elim

theorem mMany_congr (hm : ∀ x y, R x y → mSchema st rec x = mSchema st' rec' y) (k : String) :
    ∀ {c c' : Option (List NodeId)}, OptRel (ListRel R) c c' → mMany st rec k c = mMany st' rec' k c'
  | none, none, _ => rfl
  | some _, some _, .nil => rfl
  | some _, some _, .cons h1 h2 => by
    simp only [mMany, mSchemaList_congr hm (.cons h1 h2)]
  | none, some _, h => h.elim
  | some _, none, h => h.elim

theorem mManyNN_congr (hm : ∀ x y, R x y → mSchema st rec x = mSchema st' rec' y) (k : String) :
    ∀ {c c' : Option (List NodeId)}, OptRel (ListRel R) c c' → mManyNN st rec k c = mManyNN st' rec' k c'
  | none, none, _ => rfl
  | some _, some _, h => by
    have h' : ListRel R _ _ := h
    simp only [mManyNN, mSchemaList_congr hm h']
  | none, some _, h => h.elim
  | some _, none, h => h.elim

theorem mKeyed_congr (hm : ∀ x y, R x y → mSchema st rec x = mSchema st' rec' y) (k : String) :
    ∀ {c c' : Option (List (String × NodeId))}, OptRel (ListRel (KeyRel R)) c c' →
      mKeyed st rec k c = mKeyed st' rec' k c'
  | none, none, _ => rfl
  | some _, some _, .nil => rfl
  | some _, some _, .cons h1 h2 => by
    simp only [mKeyed, mSchemaMap, mSchemaEntries_congr hm (sortKV_rel (.cons h1 h2))]
  | none, some _, h => h.elim
  | some _, none, h => h.elim

theorem mPropsField_congr (hm : ∀ x y, R x y → mSchema st rec x = mSchema st' rec' y) :
    ∀ {c c' : Option (List (String × NodeId))}, OptRel (ListRel (KeyRel R)) c c' → ∀ order : List String,
      mPropsField st rec c order = mPropsField st' rec' c' order
  | none, none, _, _ => rfl
  | some _, some _, h, order => by
    have h' : ListRel (KeyRel R) _ _ := h
    simp only [mPropsField, mProperties_congr hm h' order]
  | none, some _, h, _ => h.elim
  | some _, none, h, _ => h.elim

theorem getD_rel {α β} {S : α → β → Prop} : ∀ {c : Option (List α)} {c' : Option (List β)},
    OptRel (ListRel S) c c' → ListRel S (c.getD []) (c'.getD [])
  | none, none, _ => .nil
  | some _, some _, h => h
  | none, some _, h => h.elim
  | some _, none, h => h.elim

theorem mDeps_congr (hm : ∀ x y, R x y → mSchema st rec x = mSchema st' rec' y)
    {c c' : Option (List (String × NodeId))} (h : OptRel (ListRel (KeyRel R)) c c')
    (dstrs : Option (List (String × Option (List String)))) :
    mDeps st rec c dstrs = mDeps st' rec' c' dstrs := by
  have h' := getD_rel h
  unfold mDeps
  simp only [h'.length_eq, mSchemaEntries_congr hm h']

theorem mItemsField_congr (hm : ∀ x y, R x y → mSchema st rec x = mSchema st' rec' y) :
    ∀ {c c' : Option NodeId} {a a' : Option (List NodeId)}, OptRel R c c' → OptRel (ListRel R) a a' →
      mItemsField st rec c a = mItemsField st' rec' c' a'
  | some _, some _, _, _, h, _ => by
    simp only [mItemsField]
    exact mOne_congr hm "items" h
  | none, none, some _, some _, _, h => by
    have h' : ListRel R _ _ := h
    simp only [mItemsField, mSchemaList_congr hm h']
  | none, none, none, none, _, _ => rfl
  | none, some _, _, _, h, _ => h.elim
  | some _, none, _, _, h, _ => h.elim
  | none, none, none, some _, _, h => h.elim
  | none, none, some _, none, _, h => h.elim

end

theorem marshalParts_shallow (n : Node) (fs : List ChildField) (pProps : Res (List (String × Json))) (pDeps : Res (Option Json))
    (p_items p_defs p_definitions p_prefixItems p_additionalItems p_contains p_unevaluatedItems p_patternProperties p_additionalProperties p_propertyNames p_unevaluatedProperties p_allOf p_anyOf p_oneOf p_not_ p_if_ p_then_ p_else_ p_dependentSchemas p_contentSchema : Res (List (String × Json))) :
    marshalParts (setChildFields n fs) pProps pDeps p_items p_defs p_definitions p_prefixItems p_additionalItems p_contains p_unevaluatedItems p_patternProperties p_additionalProperties p_propertyNames p_unevaluatedProperties p_allOf p_anyOf p_oneOf p_not_ p_if_ p_then_ p_else_ p_dependentSchemas p_contentSchema =
    marshalParts n pProps pDeps p_items p_defs p_definitions p_prefixItems p_additionalItems p_contains p_unevaluatedItems p_patternProperties p_additionalProperties p_propertyNames p_unevaluatedProperties p_allOf p_anyOf p_oneOf p_not_ p_if_ p_then_ p_else_ p_dependentSchemas p_contentSchema := rfl

theorem marshalNode_congr {st st' : Store} {rec rec' : MRec} {R : NodeId → NodeId → Prop}
    (hm : ∀ x y, R x y → mSchema st rec x = mSchema st' rec' y) {n : Node} {fs' : List ChildField}
    (h : ListRel (FieldRel R) n.childFields fs') :
    marshalNode st rec n = marshalNode st' rec' (setChildFields n fs') := by
  obtain ⟨c0, c1, c2, c3, c4, c5, c6, c7, c8, c9, c10, c11, c12, c13, c14, c15, c16, c17, c18, c19, c20, c21, c22, rfl, r0, r1, r2, r3, r4, r5, r6, r7, r8, r9, r10, r11, r12, r13, r14, r15, r16, r17, r18, r19, r20, r21, r22⟩ := childFields_inv h
  refine Eq.trans ?_ (marshalParts_shallow n _ _ _ _ _ _ _ _ _ _ _ _ _ _ _ _ _ _ _ _ _ _ _).symm
  unfold marshalNode
  rw [mPropsField_congr hm r18 (n.propertyOrder.getD []),
    mDeps_congr hm r8 n.dependencyStrings,
    mItemsField_congr hm r12 r13,
    mKeyed_congr hm "$defs" r0,
    mKeyed_congr hm "definitions" r7,
    mMany_congr hm "prefixItems" r17,
    mOne_congr hm "additionalItems" r1,
    mOne_congr hm "contains" r5,
    mOne_congr hm "unevaluatedItems" r21,
    mKeyed_congr hm "patternProperties" r16,
    mOne_congr hm "additionalProperties" r2,
    mOne_congr hm "propertyNames" r19,
    mOne_congr hm "unevaluatedProperties" r22,
    mMany_congr hm "allOf" r3,
    mManyNN_congr hm "anyOf" r4,
    mManyNN_congr hm "oneOf" r15,
    mOne_congr hm "not" r14,
    mOne_congr hm "if" r11,
    mOne_congr hm "then" r20,
    mOne_congr hm "else" r10,
    mKeyed_congr hm "dependentSchemas" r9,
    mOne_congr hm "contentSchema" r6]
  rfl

/-! ## basicChecks see only the shape of the schema-bearing fields -/

def depClash (ds : List (String × NodeId)) (dstr : List (String × Option (List String))) : Bool :=
  ds.any fun (k, _) => (dstr.any fun (k', _) => k' == k)

theorem basicChecksOk_eq (n : Node) :
    basicChecksOk n =
      (!(n.type != "" && n.types.isSome) && !(n.defs.isSome && n.definitions.isSome) &&
       !(n.items.isSome && n.itemsArray.isSome) && !hasDup (n.propertyOrder.getD []) &&
       !depClash (n.dependencySchemas.getD []) (n.dependencyStrings.getD [])) := rfl

theorem depClash_rel {R : NodeId → NodeId → Prop} (dstr : List (String × Option (List String))) :
    ∀ {l l' : List (String × NodeId)}, ListRel (KeyRel R) l l' → depClash l dstr = depClash l' dstr
  | _, _, .nil => rfl
  | _, _, .cons (a := (k, x)) (b := (k', y)) h1 h2 => by
    have hk : k = k' := h1.1
    subst hk
    have ih := depClash_rel dstr h2
    unfold depClash at ih ⊢
    simp only [List.any_cons, ih]

theorem marshalChecksOk_congr {R : NodeId → NodeId → Prop} {n : Node} {fs' : List ChildField}
    (h : ListRel (FieldRel R) n.childFields fs') :
    marshalChecksOk (setChildFields n fs') = marshalChecksOk n := by
  obtain ⟨c0, c1, c2, c3, c4, c5, c6, c7, c8, c9, c10, c11, c12, c13, c14, c15, c16, c17, c18, c19, c20, c21, c22, rfl, r0, r1, r2, r3, r4, r5, r6, r7, r8, r9, r10, r11, r12, r13, r14, r15, r16, r17, r18, r19, r20, r21, r22⟩ := childFields_inv h
  unfold marshalChecksOk
  rw [basicChecksOk_eq n, basicChecksOk_eq]
  show (!(n.type != "" && n.types.isSome) && !(c0.isSome && c7.isSome) &&
       !(c12.isSome && c13.isSome) && !hasDup (n.propertyOrder.getD []) &&
       !depClash (c8.getD []) (n.dependencyStrings.getD [])) = _
  rw [← r0.isSome_eq, ← r7.isSome_eq, ← r12.isSome_eq, ← r13.isSome_eq,
    ← depClash_rel (n.dependencyStrings.getD []) (getD_rel r8)]

/-! ## related subtrees marshal identically -/

theorem Sim.cases {B : Nat} {st st' : Store} : ∀ {d : Nat} {a b : NodeId}, Sim B st st' d a b →
    (B ≤ a ∧ b = a) ∨ ∃ d' n n', st.get? a = some n ∧ st'.get? b = some n' ∧ NodeRel (Sim B st st' d') n n'
  | 0, _, _, h => Or.inl h
  | d + 1, _, _, h => by
    rcases h with h | ⟨n, n', ha, hb, hr⟩
    · exact Or.inl h
    · exact Or.inr ⟨d, n, n', ha, hb, hr⟩

theorem Sim.marshal_eq {B : Nat} {st st' : Store} (hs : st.size ≤ B) (hs' : st'.size ≤ B) :
    ∀ (f d : Nat) (a b : NodeId), Sim B st st' d a b → marshalFuel st f a = marshalFuel st' f b := by
  intro f
  induction f with
  | zero => intro d a b _; rfl
  | succ f ih =>
    intro d a b h
    show marshalStep st (marshalFuel st f) a = marshalStep st' (marshalFuel st' f) b
    rw [marshalStep_eq, marshalStep_eq]
    rcases h.cases with ⟨hB, rfl⟩ | ⟨d', n, n', ha, hb, fs', hrel, rfl⟩
    · rw [get?_eq_none_iff.2 (Nat.le_trans hs hB), get?_eq_none_iff.2 (Nat.le_trans hs' hB)]
    · rw [ha, hb]
      dsimp only
      have hm : ∀ x y, Sim B st st' d' x y →
          mSchema st (marshalFuel st f) x = mSchema st' (marshalFuel st' f) y := by
        intro x y hxy
        unfold mSchema
        rcases hxy.cases with ⟨hB, rfl⟩ | ⟨d'', m, m', hx, hy, _⟩
        · rw [get?_eq_none_iff.2 (Nat.le_trans hs hB), get?_eq_none_iff.2 (Nat.le_trans hs' hB)]
        · rw [hx, hy]
          exact ih _ _ _ hxy
      rw [marshalChecksOk_congr hrel, ← marshalNode_congr hm hrel]
      rfl

/-! ## a checker for `Good` -/

def goodB (B : Nat) (st : Store) : Nat → NodeId → Bool
  | 0, a => decide (B ≤ a)
  | d + 1, a => decide (B ≤ a) ||
      match st.get? a with
      | some n => n.children.all (goodB B st d)
      | none => false

theorem goodB_sound (B : Nat) (st : Store) : ∀ (d : Nat) (a : NodeId), goodB B st d a = true → Good B st d a
  | 0, a, h => by
    simp only [goodB, decide_eq_true_eq] at h
    exact h
  | d + 1, a, h => by
    simp only [goodB, Bool.or_eq_true, decide_eq_true_eq] at h
    rcases h with h | h
    · exact Or.inl h
    · cases hn : st.get? a with
      | none => rw [hn] at h; cases h
      | some n =>
        rw [hn] at h
        refine Or.inr ⟨n, hn, fun x hx => goodB_sound B st d x ?_⟩
        exact List.all_eq_true.1 h x hx

/-! ## a subtree is a copy of itself in every extension of the store -/

theorem ListRel.refl_of {α} {R : α → α → Prop} : ∀ (l : List α), (∀ a, a ∈ l → R a a) → ListRel R l l
  | [], _ => .nil
  | a :: l, h => .cons (h a List.mem_cons_self) (ListRel.refl_of l fun b hb => h b (List.mem_cons_of_mem _ hb))

theorem FieldRel.refl_of {R : NodeId → NodeId → Prop} (f : ChildField) (h : ∀ x, x ∈ f.ids → R x x) :
    FieldRel R f f := by
  cases f with
  | one k c =>
    cases c with
    | none => exact .one trivial
    | some x => exact .one (h x (by simp [ChildField.ids]))
  | many k cs =>
    cases cs with
    | none => exact .many trivial
    | some l => exact .many (ListRel.refl_of l h)
  | keyed k cs =>
    cases cs with
    | none => exact .keyed trivial
    | some l =>
      refine .keyed (ListRel.refl_of l fun a ha => ⟨rfl, h a.2 ?_⟩)
      exact List.mem_map.2 ⟨a, ha, rfl⟩

theorem Sim.of_good {B : Nat} {st st' : Store} (he : Ext st st') :
    ∀ (d : Nat) (a : NodeId), Good B st d a → Sim B st st' d a a
  | 0, _, ha => ⟨ha, rfl⟩
  | d + 1, a, ha => by
    rcases ha with ha | ⟨n, hn, hch⟩
    · exact Or.inl ⟨ha, rfl⟩
    · refine Or.inr ⟨n, n, hn, he.get? hn, n.childFields, ?_, rfl⟩
      exact ListRel.refl_of _ fun f hf => FieldRel.refl_of f fun x hx =>
        Sim.of_good he d x (hch x (mem_children_iff.2 ⟨f, hf, hx⟩))

end Go
end JSV
