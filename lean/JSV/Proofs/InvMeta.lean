/-
  C18 helpers: the evaluator depends on a schema object only through the fields it reads.
  `readsOf n` keeps exactly those fields of `n` (everything else is reset to the zero value); every block of
  `validateStep` computes the same on `n` and on `readsOf n`, hence on any two nodes with equal `readsOf`.
-/
import JSV.Model.Validate
import JSV.Model.Unmarshal
import JSV.Generated.Facts
namespace JSV
namespace Inv
open Go GoVal

/-- the projection of a schema object on the fields `(*state).validate` reads: the 44 fields of
    `Generated.validateReads` plus `id` (read by `schemaString` in the deferred `wrapf`).  All other
    fields are zeroed. -/
def readsOf (n : Node) : Node :=
  { id := n.id, ref := n.ref, dynamicRef := n.dynamicRef,
    type := n.type, types := n.types, enum := n.enum, const := n.const,
    multipleOf := n.multipleOf, minimum := n.minimum, maximum := n.maximum,
    exclusiveMinimum := n.exclusiveMinimum, exclusiveMaximum := n.exclusiveMaximum,
    minLength := n.minLength, maxLength := n.maxLength, pattern := n.pattern,
    prefixItems := n.prefixItems, items := n.items, itemsArray := n.itemsArray,
    minItems := n.minItems, maxItems := n.maxItems, additionalItems := n.additionalItems,
    uniqueItems := n.uniqueItems, contains := n.contains, minContains := n.minContains,
    maxContains := n.maxContains, unevaluatedItems := n.unevaluatedItems,
    minProperties := n.minProperties, maxProperties := n.maxProperties, required := n.required,
    dependentRequired := n.dependentRequired, properties := n.properties,
    patternProperties := n.patternProperties, additionalProperties := n.additionalProperties,
    propertyNames := n.propertyNames, unevaluatedProperties := n.unevaluatedProperties,
    allOf := n.allOf, anyOf := n.anyOf, oneOf := n.oneOf, not := n.not,
    if_ := n.if_, then_ := n.then_, else_ := n.else_, dependentSchemas := n.dependentSchemas,
    dependencySchemas := n.dependencySchemas, dependencyStrings := n.dependencyStrings }

/-- `f` agrees with the identity on every field the evaluator reads -/
def PreservesReads (f : Node → Node) : Prop := ∀ n, readsOf (f n) = readsOf n

theorem readsOf_idem (n : Node) : readsOf (readsOf n) = readsOf n := rfl

/-- the part of `validateStep` after the schema object has been fetched -/
def stepBody (env : VEnv) (rec : Go.Rec) (stack0 : List NodeId) (inst0 : GoVal) (sid : NodeId) (n : Node) : Res Anns :=
  let stack := stack0 ++ [sid]
  let inst := strip inst0
  let info := env.info? sid
  if n.id == "" && info.isNone then .panic else
  Res.bind (bRef env rec stack n info inst) fun (anns, done) =>
  if done then .ok anns else
  Res.bind (bType n inst) fun _ =>
  Res.bind (bEnum n inst) fun _ =>
  Res.bind (bConst n inst) fun _ =>
  Res.bind (bNumeric n inst) fun _ =>
  Res.bind (bString env n info inst) fun _ =>
  Res.bind (bDynamicRef env rec stack n info inst anns) fun anns =>
  Res.bind (bAllOf rec stack n inst anns) fun anns =>
  Res.bind (bAnyOf rec stack n inst anns) fun anns =>
  Res.bind (bOneOf rec stack n inst anns) fun anns =>
  Res.bind (bNot rec stack n inst anns) fun anns =>
  Res.bind (bIf rec stack n inst anns) fun anns =>
  Res.bind (bArray env rec stack n inst anns) fun anns =>
  bObject env rec stack n info inst anns

theorem validateStep_eq_body (env : VEnv) (rec : Go.Rec) (stack0 : List NodeId) (inst0 : GoVal) (sid : NodeId) :
    validateStep env rec stack0 inst0 sid =
      match env.st.get? sid with
      | none => .panic
      | some n => stepBody env rec stack0 inst0 sid n := rfl

/-! every block reads the schema object through `readsOf` only -/

theorem bRef_reads (env : VEnv) (rec : Go.Rec) (stack : List NodeId) (n : Node) (info : Option Info) (inst : GoVal) :
    bRef env rec stack (readsOf n) info inst = bRef env rec stack n info inst := rfl
theorem bType_reads (n : Node) (inst : GoVal) : bType (readsOf n) inst = bType n inst := rfl
theorem bEnum_reads (n : Node) (inst : GoVal) : bEnum (readsOf n) inst = bEnum n inst := rfl
theorem bConst_reads (n : Node) (inst : GoVal) : bConst (readsOf n) inst = bConst n inst := rfl
theorem bNumeric_reads (n : Node) (inst : GoVal) : bNumeric (readsOf n) inst = bNumeric n inst := rfl
theorem bString_reads (env : VEnv) (n : Node) (info : Option Info) (inst : GoVal) :
    bString env (readsOf n) info inst = bString env n info inst := rfl
theorem bDynamicRef_reads (env : VEnv) (rec : Go.Rec) (stack : List NodeId) (n : Node) (info : Option Info)
    (inst : GoVal) (anns : Anns) :
    bDynamicRef env rec stack (readsOf n) info inst anns = bDynamicRef env rec stack n info inst anns := rfl
theorem bAllOf_reads (rec : Go.Rec) (stack : List NodeId) (n : Node) (inst : GoVal) (anns : Anns) :
    bAllOf rec stack (readsOf n) inst anns = bAllOf rec stack n inst anns := rfl
theorem bAnyOf_reads (rec : Go.Rec) (stack : List NodeId) (n : Node) (inst : GoVal) (anns : Anns) :
    bAnyOf rec stack (readsOf n) inst anns = bAnyOf rec stack n inst anns := rfl
theorem bOneOf_reads (rec : Go.Rec) (stack : List NodeId) (n : Node) (inst : GoVal) (anns : Anns) :
    bOneOf rec stack (readsOf n) inst anns = bOneOf rec stack n inst anns := rfl
theorem bNot_reads (rec : Go.Rec) (stack : List NodeId) (n : Node) (inst : GoVal) (anns : Anns) :
    bNot rec stack (readsOf n) inst anns = bNot rec stack n inst anns := rfl
theorem bIf_reads (rec : Go.Rec) (stack : List NodeId) (n : Node) (inst : GoVal) (anns : Anns) :
    bIf rec stack (readsOf n) inst anns = bIf rec stack n inst anns := rfl
theorem bItems_reads (env : VEnv) (rec : Go.Rec) (stack : List NodeId) (n : Node) (xs : List GoVal) (anns : Anns) :
    bItems env rec stack (readsOf n) xs anns = bItems env rec stack n xs anns := rfl
theorem bContains_reads (d : Draft) (rec : Go.Rec) (stack : List NodeId) (n : Node) (xs : List GoVal) (anns : Anns) :
    bContains d rec stack (readsOf n) xs anns = bContains d rec stack n xs anns := rfl
theorem bArrayLimits_reads (d : Draft) (n : Node) (xs : List GoVal) (cnt : Nat) :
    bArrayLimits d (readsOf n) xs cnt = bArrayLimits d n xs cnt := rfl
theorem bUnique_reads (env : VEnv) (n : Node) (xs : List GoVal) : bUnique env (readsOf n) xs = bUnique env n xs := rfl
theorem bUnevaluatedItems_reads (d : Draft) (rec : Go.Rec) (stack : List NodeId) (n : Node) (xs : List GoVal)
    (anns : Anns) : bUnevaluatedItems d rec stack (readsOf n) xs anns = bUnevaluatedItems d rec stack n xs anns := rfl
theorem bArray_reads (env : VEnv) (rec : Go.Rec) (stack : List NodeId) (n : Node) (inst : GoVal) (anns : Anns) :
    bArray env rec stack (readsOf n) inst anns = bArray env rec stack n inst anns := rfl
theorem bProps_reads (env : VEnv) (rec : Go.Rec) (stack : List NodeId) (n : Node) (info : Option Info)
    (kvs : List (String × GoVal)) : bProps env rec stack (readsOf n) info kvs = bProps env rec stack n info kvs := rfl
theorem bObjectLimits_reads (n : Node) (info : Option Info) (kvs : List (String × GoVal)) :
    bObjectLimits (readsOf n) info kvs = bObjectLimits n info kvs := rfl
theorem bDependencies_reads (env : VEnv) (rec : Go.Rec) (stack : List NodeId) (n : Node) (inst : GoVal)
    (kvs : List (String × GoVal)) (anns : Anns) :
    bDependencies env rec stack (readsOf n) inst kvs anns = bDependencies env rec stack n inst kvs anns := rfl
theorem bUnevaluatedProps_reads (d : Draft) (rec : Go.Rec) (stack : List NodeId) (n : Node)
    (kvs : List (String × GoVal)) (anns : Anns) :
    bUnevaluatedProps d rec stack (readsOf n) kvs anns = bUnevaluatedProps d rec stack n kvs anns := rfl
theorem bObject_reads (env : VEnv) (rec : Go.Rec) (stack : List NodeId) (n : Node) (info : Option Info) (inst : GoVal)
    (anns : Anns) : bObject env rec stack (readsOf n) info inst anns = bObject env rec stack n info inst anns := rfl

theorem stepBody_reads (env : VEnv) (rec : Go.Rec) (stack0 : List NodeId) (inst0 : GoVal) (sid : NodeId) (n : Node) :
    stepBody env rec stack0 inst0 sid (readsOf n) = stepBody env rec stack0 inst0 sid n := rfl

/-- two schema objects with the same read fields are indistinguishable for one call -/
theorem stepBody_congr (env : VEnv) (rec : Go.Rec) (stack0 : List NodeId) (inst0 : GoVal) (sid : NodeId) (n n' : Node)
    (h : readsOf n = readsOf n') :
    stepBody env rec stack0 inst0 sid n = stepBody env rec stack0 inst0 sid n' := by
  rw [← stepBody_reads env rec stack0 inst0 sid n, h, stepBody_reads]

/-! the body does not look at the store -/

theorem dynLookup_store (env : VEnv) (st : Store) (a : String) :
    ∀ s, dynLookup { env with st := st } a s = dynLookup env a s
  | [] => rfl
  | x :: rest => by
    simp only [dynLookup]
    rw [dynLookup_store env st a rest]
    rfl

theorem patternsLoop_store (env : VEnv) (st : Store) (rec : Go.Rec) (stack : List NodeId) (prop : String) (val : GoVal) :
    ∀ pats hit, patternsLoop { env with st := st } rec stack prop val pats hit = patternsLoop env rec stack prop val pats hit
  | [], _ => rfl
  | (re, sub) :: rest, hit => by
    simp only [patternsLoop]
    rw [patternsLoop_store env st rec stack prop val rest, patternsLoop_store env st rec stack prop val rest]

theorem patternPropsLoop_store (env : VEnv) (st : Store) (rec : Go.Rec) (stack : List NodeId) (pats : List (String × NodeId)) :
    ∀ kvs ev, patternPropsLoop { env with st := st } rec stack pats kvs ev = patternPropsLoop env rec stack pats kvs ev
  | [], _ => rfl
  | (prop, val) :: rest, ev => by
    simp only [patternPropsLoop]
    rw [patternsLoop_store]
    congr 1; funext hit
    exact patternPropsLoop_store env st rec stack pats rest _

theorem bDynamicRef_store (env : VEnv) (st : Store) (rec : Go.Rec) (stack : List NodeId) (n : Node) (info : Option Info)
    (inst : GoVal) (anns : Anns) :
    bDynamicRef { env with st := st } rec stack n info inst anns = bDynamicRef env rec stack n info inst anns := by
  unfold bDynamicRef
  simp only [dynLookup_store]

theorem bProps_store (env : VEnv) (st : Store) (rec : Go.Rec) (stack : List NodeId) (n : Node) (info : Option Info)
    (kvs : List (String × GoVal)) :
    bProps { env with st := st } rec stack n info kvs = bProps env rec stack n info kvs := by
  unfold bProps
  simp only [patternPropsLoop_store]

theorem bObject_store (env : VEnv) (st : Store) (rec : Go.Rec) (stack : List NodeId) (n : Node) (info : Option Info)
    (inst : GoVal) (anns : Anns) :
    bObject { env with st := st } rec stack n info inst anns = bObject env rec stack n info inst anns := by
  unfold bObject
  simp only [bProps_store]
  rfl

theorem stepBody_store (env : VEnv) (st : Store) (rec : Go.Rec) (stack0 : List NodeId) (inst0 : GoVal) (sid : NodeId)
    (n : Node) : stepBody { env with st := st } rec stack0 inst0 sid n = stepBody env rec stack0 inst0 sid n := by
  unfold stepBody
  simp only [bObject_store, bDynamicRef_store]
  rfl

theorem get?_map (st : Store) (f : Node → Node) (i : NodeId) : Store.get? (st.map f) i = (Store.get? st i).map f := by
  simp [Store.get?]

/-- rewriting every schema object by an `f` that one call cannot tell from the identity changes no result -/
theorem validateFuel_map_of (env : VEnv) (f : Node → Node)
    (hf : ∀ rec stack i s n, stepBody env rec stack i s (f n) = stepBody env rec stack i s n) : ∀ fuel stack i s,
    validateFuel { env with st := env.st.map f } fuel stack i s = validateFuel env fuel stack i s := by
  intro fuel
  induction fuel with
  | zero => intro _ _ _; rfl
  | succ k ih =>
    intro stack i s
    have hrec : validateFuel { env with st := env.st.map f } k = validateFuel env k := by
      funext a b c; exact ih a b c
    show validateStep _ (validateFuel _ k) stack i s = validateStep env (validateFuel env k) stack i s
    rw [validateStep_eq_body, validateStep_eq_body, hrec]
    show (match Store.get? (env.st.map f) s with
          | none => Res.panic
          | some n => stepBody { env with st := env.st.map f } (validateFuel env k) stack i s n) = _
    rw [get?_map]
    cases Store.get? env.st s with
    | none => rfl
    | some n =>
      show stepBody { env with st := env.st.map f } (validateFuel env k) stack i s (f n) = stepBody env _ stack i s n
      rw [stepBody_store]
      exact hf _ stack i s n

/-- **decoration invariance**: rewriting every schema object by an `f` that leaves the read fields alone does not
    change any result (verdict, annotations, panic, fuel) of the evaluator -/
theorem validateFuel_map (env : VEnv) (f : Node → Node) (hf : PreservesReads f) : ∀ fuel stack i s,
    validateFuel { env with st := env.st.map f } fuel stack i s = validateFuel env fuel stack i s :=
  validateFuel_map_of env f (fun rec stack i s n => stepBody_congr env rec stack i s (f n) n (hf n))

/-- the same for the entry point, when `$schema` is preserved too -/
theorem validate_map (env : VEnv) (f : Node → Node) (hf : PreservesReads f) (hs : ∀ n, (f n).schema = n.schema)
    (supported : List String) (fuel : Nat) (root : NodeId) (inst : GoVal) :
    Go.validate { env with st := env.st.map f } supported fuel root inst = Go.validate env supported fuel root inst := by
  unfold Go.validate
  show (match Store.get? (env.st.map f) root with
        | none => Res.panic
        | some rn => if (!supported.contains rn.schema) = true then Res.err
                     else Res.bind (validateFuel { env with st := env.st.map f } fuel [] inst root) fun _ => .ok ()) = _
  rw [get?_map]
  cases Store.get? env.st root with
  | none => rfl
  | some n =>
    show (if (!supported.contains (f n).schema) = true then Res.err
          else Res.bind (validateFuel { env with st := env.st.map f } fuel [] inst root) fun _ => .ok ()) = _
    rw [hs n, validateFuel_map env f hf]

/-! ## clearing one field, by Go field name -/

/-- reset the field with the given Go name to its zero value (unknown names: identity) -/
def eraseField (name : String) (n : Node) : Node :=
  match name with
  | "ID" => { n with id := "" }
  | "Schema" => { n with schema := "" }
  | "Ref" => { n with ref := "" }
  | "Comment" => { n with comment := "" }
  | "Defs" => { n with defs := none }
  | "Definitions" => { n with definitions := none }
  | "DependencySchemas" => { n with dependencySchemas := none }
  | "DependencyStrings" => { n with dependencyStrings := none }
  | "Anchor" => { n with anchor := "" }
  | "DynamicAnchor" => { n with dynamicAnchor := "" }
  | "DynamicRef" => { n with dynamicRef := "" }
  | "Vocabulary" => { n with vocabulary := none }
  | "Title" => { n with title := "" }
  | "Description" => { n with description := "" }
  | "Default" => { n with default := none }
  | "Deprecated" => { n with deprecated := false }
  | "ReadOnly" => { n with readOnly := false }
  | "WriteOnly" => { n with writeOnly := false }
  | "Examples" => { n with examples := none }
  | "Type" => { n with type := "" }
  | "Types" => { n with types := none }
  | "Enum" => { n with enum := none }
  | "Const" => { n with const := none }
  | "MultipleOf" => { n with multipleOf := none }
  | "Minimum" => { n with minimum := none }
  | "Maximum" => { n with maximum := none }
  | "ExclusiveMinimum" => { n with exclusiveMinimum := none }
  | "ExclusiveMaximum" => { n with exclusiveMaximum := none }
  | "MinLength" => { n with minLength := none }
  | "MaxLength" => { n with maxLength := none }
  | "Pattern" => { n with pattern := "" }
  | "PrefixItems" => { n with prefixItems := none }
  | "Items" => { n with items := none }
  | "ItemsArray" => { n with itemsArray := none }
  | "MinItems" => { n with minItems := none }
  | "MaxItems" => { n with maxItems := none }
  | "AdditionalItems" => { n with additionalItems := none }
  | "UniqueItems" => { n with uniqueItems := false }
  | "Contains" => { n with contains := none }
  | "MinContains" => { n with minContains := none }
  | "MaxContains" => { n with maxContains := none }
  | "UnevaluatedItems" => { n with unevaluatedItems := none }
  | "MinProperties" => { n with minProperties := none }
  | "MaxProperties" => { n with maxProperties := none }
  | "Required" => { n with required := none }
  | "DependentRequired" => { n with dependentRequired := none }
  | "Properties" => { n with properties := none }
  | "PatternProperties" => { n with patternProperties := none }
  | "AdditionalProperties" => { n with additionalProperties := none }
  | "PropertyNames" => { n with propertyNames := none }
  | "UnevaluatedProperties" => { n with unevaluatedProperties := none }
  | "AllOf" => { n with allOf := none }
  | "AnyOf" => { n with anyOf := none }
  | "OneOf" => { n with oneOf := none }
  | "Not" => { n with not := none }
  | "If" => { n with if_ := none }
  | "Then" => { n with then_ := none }
  | "Else" => { n with else_ := none }
  | "DependentSchemas" => { n with dependentSchemas := none }
  | "ContentEncoding" => { n with contentEncoding := "" }
  | "ContentMediaType" => { n with contentMediaType := "" }
  | "ContentSchema" => { n with contentSchema := none }
  | "Format" => { n with format := "" }
  | "Extra" => { n with extra := none }
  | "PropertyOrder" => { n with propertyOrder := none }
  | _ => n

/-- clearing any field, named as in the Go struct, that is neither in the regenerated list of fields
    `(*state).validate` selects nor `ID`, is invisible to the model of the evaluator: the model reads no field
    outside `Generated.validateReads ∪ {ID}`. -/
theorem eraseField_preserves (name : String) (h : name ∉ Generated.validateReads) (hid : name ≠ "ID") :
    PreservesReads (eraseField name) := by
  unfold eraseField
  split <;> first
    | exact fun _ => rfl
    | exact absurd rfl hid
    | exact absurd (by decide) h

end Inv
end JSV
